package main

// C31 — every built message fits the transport limit: the real proposal batcher
// (kernel.popAndProcessCacheQueue, through a node without network), the real message
// builders of p2p/handle.go and the real QUIC framing on a loopback connection, against
// lean/Mixin/Model/Batch.lean.  Property mode checks, on the Go side only, that every
// message the batcher hands to the peer layer fits TransportMessageMaxSize once wrapped by
// the relay header, that framing round-trips, and that an oversized frame header is
// rejected without a buffer of the announced size.

import (
	"bytes"
	"context"
	"encoding/binary"
	"fmt"
	"go/ast"
	"go/parser"
	"go/printer"
	"go/token"
	"os"
	"path/filepath"
	"runtime"
	"sort"
	"strconv"
	"strings"
	"sync"
	"time"

	"github.com/MixinNetwork/mixin/common"
	"github.com/MixinNetwork/mixin/config"
	"github.com/MixinNetwork/mixin/crypto"
	"github.com/MixinNetwork/mixin/kernel"
	"github.com/MixinNetwork/mixin/p2p"
	"github.com/MixinNetwork/mixin/storage"
	"github.com/dgraph-io/ristretto/v2"
)

type c31Env struct {
	store    *storage.BadgerStore
	node     *kernel.Node
	peer     *p2p.Peer
	nbrs     []*p2p.Peer
	funder   crypto.Hash
	topo     uint64
	assetKey string
	seq      uint64
	relayer  *p2p.QuicRelayer
	accepted chan *p2p.QuicClient
}

var (
	c31      *c31Env
	c31Mutex sync.Mutex
)

func c31Repo() string {
	if r := os.Getenv("VERIF_REPO"); r != "" {
		return r
	}
	return "/repo"
}

func c31Setup(st *State) *c31Env {
	c31Mutex.Lock()
	defer c31Mutex.Unlock()
	if c31 != nil {
		return c31
	}
	dir := filepath.Join(st.Dir, "c31")
	c31Must(os.MkdirAll(dir, 0o755))
	signer := crypto.NewKeyFromSeed(bytes.Repeat([]byte{0x31}, 64))
	conf := fmt.Sprintf("[node]\nsigner-key = \"%s\"\nconsensus-only = true\nmemory-cache-size = 16\ncache-ttl = 7200\n[network]\nlistener = \"127.0.0.1:7239\"\n", signer.String())
	c31Must(os.WriteFile(dir+"/config.toml", []byte(conf), 0o644))
	custom, err := config.Initialize(dir + "/config.toml")
	c31Must(err)
	gns, err := common.ReadGenesis(filepath.Join(c31Repo(), "config", "genesis.json"))
	c31Must(err)
	cache, err := ristretto.NewCache(&ristretto.Config[[]byte, any]{NumCounters: 1e5, MaxCost: 1 << 26, BufferItems: 64})
	c31Must(err)
	store, err := storage.NewBadgerStore(custom, dir)
	c31Must(err)
	kernel.VerifC31MockRunAggregators(true)
	node, err := kernel.SetupNode(custom, store, cache, gns)
	c31Must(err)
	e := &c31Env{store: store, node: node}
	e.peer = node.VerifC31AttachPeer()
	ids := node.VerifC31WorkingAcceptedNodes(uint64(time.Now().UnixNano()))
	if len(ids) == 0 {
		panic("harness: c31: no working nodes")
	}
	for _, id := range ids {
		if id != node.IdForNetwork {
			e.nbrs = append(e.nbrs, e.peer.VerifC31AddNeighbor(id))
		}
	}
	e.funder = ids[0]
	last, _ := store.LastSnapshot()
	e.topo = last.TopologicalOrder + 1
	asset, _, err := store.ReadAssetWithBalance(common.XINAssetId)
	c31Must(err)
	e.assetKey = asset.AssetKey
	e.relayer, err = p2p.NewQuicRelayer("127.0.0.1:0")
	c31Must(err)
	e.accepted = make(chan *p2p.QuicClient, 64)
	go func() { // one acceptor for the whole run; ops pick their own connection by address
		for {
			c, err := e.relayer.Accept(context.Background())
			if err != nil {
				time.Sleep(time.Millisecond)
				continue
			}
			select {
			case e.accepted <- c.(*p2p.QuicClient):
			default:
				c.Close("dropped")
			}
		}
	}()
	c31 = e
	return e
}

func c31Must(err error) {
	if err != nil {
		panic("harness: c31: " + err.Error())
	}
}

func (e *c31Env) key() crypto.Key {
	e.seq++
	var b [8]byte
	binary.BigEndian.PutUint64(b[:], e.seq)
	h1 := crypto.Blake3Hash(append([]byte("c31-key-a"), b[:]...))
	h2 := crypto.Blake3Hash(append([]byte("c31-key-b"), b[:]...))
	return crypto.NewKeyFromSeed(append(h1[:], h2[:]...))
}

// finalize writes tx and a snapshot carrying it into the funder's current round.
func (e *c31Env) finalize(ver *common.VersionedTransaction) {
	c31Must(e.store.WriteTransaction(ver))
	round, err := e.store.ReadRound(e.funder)
	c31Must(err)
	snap := &common.Snapshot{
		Version:      common.SnapshotVersionCommonEncoding,
		NodeId:       e.funder,
		RoundNumber:  round.Number,
		Timestamp:    uint64(time.Now().UnixNano()),
		Transactions: []crypto.Hash{ver.PayloadHash()},
		References:   round.References,
	}
	topo := &common.SnapshotWithTopologicalOrder{Snapshot: snap, TopologicalOrder: e.topo}
	e.topo++
	c31Must(e.store.WriteSnapshot(topo, []crypto.Hash{e.funder}))
}

// fund finalizes a deposit transaction with nIn script outputs of nKeys fresh keys each and
// returns its hash and the private keys.
func (e *c31Env) fund(nIn, nKeys int, each common.Integer) (crypto.Hash, [][]crypto.Key) {
	privs := make([][]crypto.Key, nIn)
	tx := common.NewTransactionV5(common.XINAssetId)
	e.seq++
	tx.AddDepositInput(&common.DepositData{
		Chain:       common.EthereumAssetId,
		AssetKey:    e.assetKey,
		Transaction: fmt.Sprintf("0xC31FUND%d", e.seq),
		Index:       0,
		Amount:      each.Mul(nIn),
	})
	mask := e.key().Public()
	for i := 0; i < nIn; i++ {
		out := &common.Output{Type: common.OutputTypeScript, Amount: each, Script: common.NewThresholdScript(1), Mask: mask}
		privs[i] = make([]crypto.Key, nKeys)
		for k := 0; k < nKeys; k++ {
			privs[i][k] = e.key()
			pub := privs[i][k].Public()
			out.Keys = append(out.Keys, &pub)
		}
		tx.Outputs = append(tx.Outputs, out)
	}
	ver := tx.AsVersioned()
	c31Must(e.store.LockDepositInput(tx.Inputs[0].Deposit, ver.PayloadHash(), false))
	e.finalize(ver)
	return ver.PayloadHash(), privs
}

type c31Spec struct {
	kind  byte // v valid, i invalid (input 0 unsigned), f finalized
	nIn   int
	nSigs int
	extra int
	tuned bool // extra given as "t<delta>": chosen so that the running envelope sum is threshold+delta
	atCap bool // extra given as "m<delta>": chosen so that the envelope is TransactionMaximumSize-delta
	delta int
}

func c31ParseSpec(s string) c31Spec {
	p := strings.Split(s, ":")
	if len(p) != 4 || len(p[0]) != 1 {
		panic("harness: bad c31 spec " + s)
	}
	sp := c31Spec{kind: p[0][0], nIn: c31Atoi(p[1]), nSigs: c31Atoi(p[2])}
	if strings.HasPrefix(p[3], "t") {
		sp.tuned, sp.delta = true, c31Atoi(p[3][1:])
	} else if strings.HasPrefix(p[3], "m") {
		sp.tuned, sp.atCap, sp.delta = true, true, c31Atoi(p[3][1:])
	} else {
		sp.extra = c31Atoi(p[3])
	}
	return sp
}

func c31Atoi(s string) int {
	n, err := strconv.Atoi(s)
	if err != nil {
		panic("harness: bad integer in op line: " + s)
	}
	return n
}

// spend builds a real script transaction over fresh UTXOs: nIn inputs, nSigs signatures per
// input, extra bytes of Extra (a storage output makes large extras admissible).
func (e *c31Env) spend(sp c31Spec, cum int) *common.VersionedTransaction {
	each := common.NewIntegerFromString("0.01")
	if sp.tuned || sp.extra > common.ExtraSizeGeneralLimit {
		each = common.NewIntegerFromString("1")
	}
	fh, privs := e.fund(sp.nIn, sp.nSigs, each)
	tx := common.NewTransactionV5(common.XINAssetId)
	for i := 0; i < sp.nIn; i++ {
		tx.AddInput(fh, uint(i))
	}
	pub := e.key().Public()
	script := common.NewThresholdScript(1)
	if sp.tuned || sp.extra > common.ExtraSizeGeneralLimit {
		script = common.NewThresholdScript(64)
	}
	tx.Outputs = []*common.Output{{Type: common.OutputTypeScript, Amount: each.Mul(sp.nIn), Script: script,
		Mask: e.key().Public(), Keys: []*crypto.Key{&pub}}}
	if sp.tuned {
		// envelope = payload(extra) + signatures; both parts are affine in their counts
		probe := len(tx.AsVersioned().PayloadMarshal()) + c31SigBytes(sp.nIn, sp.nSigs)
		sp.extra = p2p.TransportMessageMaxSize*2/3 + sp.delta - cum - probe
		if sp.atCap {
			sp.extra = config.TransactionMaximumSize - sp.delta - probe
		}
		if sp.extra < 0 || sp.extra > common.ExtraSizeStorageCapacity {
			sp.extra = 300
		}
	}
	tx.Extra = bytes.Repeat([]byte{0x5a}, sp.extra)
	ver := tx.AsVersioned()
	hash := ver.PayloadHash()
	ver.SignaturesMap = make([]map[uint16]*crypto.Signature, sp.nIn)
	var wg sync.WaitGroup
	sem := make(chan struct{}, 8)
	for i := 0; i < sp.nIn; i++ {
		m := make(map[uint16]*crypto.Signature, sp.nSigs)
		ver.SignaturesMap[i] = m
		if sp.kind == 'i' && i == 0 {
			continue
		}
		sigs := make([]crypto.Signature, sp.nSigs)
		wg.Add(1)
		sem <- struct{}{}
		go func(i int) {
			defer wg.Done()
			for k := 0; k < sp.nSigs; k++ {
				sigs[k] = privs[i][k].Sign(hash)
			}
			<-sem
		}(i)
		for k := 0; k < sp.nSigs; k++ {
			m[uint16(k)] = &sigs[k]
		}
	}
	wg.Wait()
	if sp.kind == 'f' {
		c31Must(e.store.LockUTXOs(ver.Inputs, hash, false))
		e.finalize(ver)
	}
	return ver
}

// plain builds an unvalidated transaction whose only purpose is its marshaled size.
func (e *c31Env) plain(extra int, salt uint64) *common.VersionedTransaction {
	tx := common.NewTransactionV5(common.XINAssetId)
	var b [8]byte
	binary.BigEndian.PutUint64(b[:], salt)
	tx.AddInput(crypto.Blake3Hash(b[:]), 0)
	pub := crypto.NewKeyFromSeed(bytes.Repeat([]byte{7}, 64)).Public()
	tx.Outputs = []*common.Output{{Type: common.OutputTypeScript, Amount: common.NewInteger(1),
		Script: common.NewThresholdScript(1), Mask: pub, Keys: []*crypto.Key{&pub}}}
	tx.Extra = bytes.Repeat([]byte{0x33}, extra)
	return tx.AsVersioned()
}

func (e *c31Env) snapshot(refs, sig bool, ntx int) *common.Snapshot {
	s := &common.Snapshot{Version: common.SnapshotVersionCommonEncoding, NodeId: e.funder, RoundNumber: 5, Timestamp: 12345}
	if refs {
		s.References = &common.RoundLink{Self: crypto.Blake3Hash([]byte("self")), External: crypto.Blake3Hash([]byte("external"))}
	}
	if sig {
		s.Signature = &crypto.CosiSignature{Mask: 0x7f}
	}
	for i := 0; i < ntx; i++ {
		s.Transactions = append(s.Transactions, crypto.Blake3Hash([]byte(fmt.Sprint("snap-tx-", i))))
	}
	return s
}

func (e *c31Env) drainQueue() {
	for {
		txs, err := e.store.CacheRetrieveTransactions(common.SnapshotTransactionsMaximum)
		c31Must(err)
		if len(txs) == 0 {
			break
		}
	}
	for _, n := range e.nbrs {
		n.VerifC31Drain()
	}
}

const c31RelayHeader = 65

func c31B2i(b bool) int {
	if b {
		return 1
	}
	return 0
}

type c31Case struct {
	txs                []*common.VersionedTransaction
	index              map[crypto.Hash]int
	sumPayload, sumEnv int
}

func c31CaseOf(st *State) *c31Case {
	c, _ := st.V["c31"].(*c31Case)
	if c == nil {
		c = &c31Case{index: map[crypto.Hash]int{}}
		st.V["c31"] = c
	}
	return c
}

// mk <spec>: build one real transaction and put it on the cache queue
func c31Mk(e *c31Env, st *State, t []string, res *Result) string {
	c := c31CaseOf(st)
	sp := c31ParseSpec(t[1])
	i := len(c.txs)
	ver := e.spend(sp, c.sumEnv)
	valid := sp.kind != 'i'
	if sp.kind != 'f' && sp.nIn*sp.nSigs <= 4096 { // large ones are validated once, by the batcher
		valid = ver.Validate(e.store, uint64(time.Now().UnixNano()), false) == nil
		if valid != (sp.kind == 'v') {
			panic(fmt.Sprintf("harness: c31: spec %s validity %v", t[1], valid))
		}
	}
	payload, env := len(ver.PayloadMarshal()), len(ver.Marshal())
	c.txs = append(c.txs, ver)
	c.index[ver.PayloadHash()] = i
	c.sumPayload += payload
	c.sumEnv += env
	res.LeanIn = fmt.Sprintf("mk %d %d %d %d %d %d 0", i, payload, env, c31B2i(ver.IsSnapshotBatchable()), c31B2i(sp.kind == 'f'), c31B2i(valid))
	res.Tags = append(res.Tags, "mk:"+string(sp.kind))
	if env-payload > 100000 {
		res.Tags = append(res.Tags, "mk:envelope>>payload")
	}
	c31Must(e.store.CacheQueueTransaction(ver))
	res.Nontrivial = true
	return "ok"
}

// run: one pass of the real batcher over what was queued; observable = the groups of
// transactions handed to the peer layer (decoded from the real messages) with message sizes
func c31Run(e *c31Env, st *State, res *Result) string {
	c := c31CaseOf(st)
	st.V["c31"] = nil
	thr := p2p.TransportMessageMaxSize * 2 / 3
	switch {
	case c.sumPayload < thr && c.sumEnv >= thr:
		res.Tags = append(res.Tags, "run:payload<T<=envelope")
	case c.sumEnv >= thr:
		res.Tags = append(res.Tags, "run:T<=payload")
	default:
		res.Tags = append(res.Tags, "run:envelope<T")
	}
	out, panicked, msg := Catch(func() string {
		ret := e.node.VerifC31PopAndProcessCacheQueue()
		type group struct {
			idx []int
			len int
		}
		var groups []group
		for _, nb := range e.nbrs {
			for _, m := range nb.VerifC31Drain() {
				if len(m) < 2 || m[0] != p2p.PeerMessageTypeTransactionBundle {
					panic("harness: c31: unexpected message")
				}
				g := group{len: len(m)}
				rest := m[2:]
				for k := 0; k < int(m[1]); k++ {
					size := int(binary.BigEndian.Uint32(rest[:4]))
					tx, err := common.UnmarshalVersionedTransaction(rest[4 : 4+size])
					c31Must(err)
					i, ok := c.index[tx.PayloadHash()]
					if !ok {
						panic("harness: c31: unknown transaction in bundle")
					}
					g.idx = append(g.idx, i)
					rest = rest[4+size:]
				}
				if len(rest) != 0 {
					panic("harness: c31: trailing bytes in bundle")
				}
				groups = append(groups, g)
				if len(m)+c31RelayHeader > p2p.TransportMessageMaxSize {
					res.PropKey = "C31:bundle-exceeds-transport-max"
					if c.sumPayload < thr {
						// the batcher's own budget was respected in unsigned bytes only
						res.PropKey = "C31:batch-accounts-unsigned-size"
					}
					res.PropDesc = fmt.Sprintf("bundle of %d transactions built by the batcher is %d bytes (+%d relay header) > TransportMessageMaxSize %d; payload sum %d, envelope sum %d",
						len(g.idx), len(m), c31RelayHeader, p2p.TransportMessageMaxSize, c.sumPayload, c.sumEnv)
					_, relayPanics, _ := Catch(func() string { e.peer.VerifC31BuildRelayMessage(e.funder, m); return "" })
					res.PropDesc += fmt.Sprintf("; buildRelayMessage panics=%v", relayPanics)
					res.Tags = append(res.Tags, "run:oversize")
				}
			}
		}
		sort.Slice(groups, func(a, b int) bool { return groups[a].idx[0] < groups[b].idx[0] })
		var sb strings.Builder
		fmt.Fprintf(&sb, "ok n=%d", ret)
		for _, g := range groups {
			var ix []string
			for _, i := range g.idx {
				ix = append(ix, strconv.Itoa(i))
			}
			fmt.Fprintf(&sb, " g:%s:%d", strings.Join(ix, ","), g.len)
			if len(g.idx) > 1 {
				res.Tags = append(res.Tags, "run:batch>1")
			}
		}
		var stale []string
		for i, ver := range c.txs {
			got, err := e.store.CacheGetTransaction(ver.PayloadHash())
			c31Must(err)
			if got == nil {
				stale = append(stale, strconv.Itoa(i))
			}
		}
		sb.WriteString(" stale:" + strings.Join(stale, ","))
		return sb.String()
	})
	if panicked {
		res.PropKey, res.PropDesc = "C31:pop-panics", "popAndProcessCacheQueue panicked: "+msg
	}
	res.Nontrivial = !panicked
	return out
}

func c31Build(e *c31Env, t []string, res *Result) string {
	res.Tags = append(res.Tags, "build:"+t[1])
	var lean string
	out, panicked, _ := Catch(func() string {
		mk := func(args []string) ([]*common.VersionedTransaction, string) {
			var txs []*common.VersionedTransaction
			var envs []string
			for i, a := range args {
				ver := e.plain(c31Atoi(a), uint64(i))
				txs = append(txs, ver)
				envs = append(envs, strconv.Itoa(len(ver.Marshal())))
			}
			return txs, fmt.Sprintf("%d %s", len(txs), strings.Join(envs, " "))
		}
		var k crypto.Key
		kp := e.key().Public()
		switch t[1] {
		case "bundle":
			txs, l := mk(t[3:])
			lean = "build bundle " + l
			return fmt.Sprintf("ok %d", len(p2p.VerifC31BuildTransactionsMessage(txs, p2p.PeerMessageTypeTransactionBundle)))
		case "challenge":
			txs, l := mk(t[3:])
			lean = "build challenge " + l
			return fmt.Sprintf("ok %d", len(p2p.VerifC31BuildTransactionChallengeMessage(crypto.Hash{}, &crypto.CosiSignature{Mask: 1}, txs)))
		case "fullchallenge":
			txs, l := mk(t[5:])
			lean = fmt.Sprintf("build fullchallenge %s %s %s", t[2], t[3], l)
			s := e.snapshot(t[2] == "1", true, c31Atoi(t[3]))
			return fmt.Sprintf("ok %d", len(p2p.VerifC31BuildFullChallengeMessage(s, &kp, &kp, txs)))
		case "announcement":
			s := e.snapshot(t[2] == "1", false, c31Atoi(t[3]))
			return fmt.Sprintf("ok %d", len(p2p.VerifC31BuildAnnouncementMessage(s, kp, e.key())))
		case "commitment":
			want := make([]crypto.Hash, c31Atoi(t[2]))
			return fmt.Sprintf("ok %d", len(p2p.VerifC31BuildCommitmentMessage(e.node, crypto.Hash{}, kp, want)))
		case "response":
			return fmt.Sprintf("ok %d", len(p2p.VerifC31BuildResponseMessage(crypto.Hash{}, (*[32]byte)(k[:]))))
		case "finalization":
			s := e.snapshot(t[2] == "1", true, c31Atoi(t[3]))
			return fmt.Sprintf("ok %d", len(p2p.VerifC31BuildFinalizationMessage(s)))
		case "relay":
			return fmt.Sprintf("ok %d", len(e.peer.VerifC31BuildRelayMessage(e.funder, make([]byte, c31Atoi(t[2])))))
		}
		panic("harness: unknown build " + t[1])
	})
	res.LeanIn = lean
	res.Nontrivial = !panicked
	if panicked {
		res.Tags = append(res.Tags, "build:"+t[1]+":panic")
	}
	return out
}

func c31Frame(e *c31Env, t []string, res *Result) string {
	res.Tags = append(res.Tags, "frame:"+t[0])
	client, err := p2p.NewQuicConsumer(context.Background(), e.relayer.VerifC31ListenAddr())
	c31Must(err)
	defer client.Close("done")
	port := func(a string) string { return a[strings.LastIndexByte(a, ':')+1:] }
	local := port(client.VerifC31LocalAddr()) // the dialer is bound to the wildcard address: pair by port
	cancel := make(chan struct{})
	server := func() *p2p.QuicClient {
		deadline := time.After(60 * time.Second)
		for {
			select {
			case s := <-e.accepted:
				if port(s.RemoteAddr().String()) == local {
					return s
				}
				s.Close("stale")
			case <-cancel:
				return nil
			case <-deadline:
				panic("harness: c31: loopback connection was not accepted")
			}
		}
	}
	max := p2p.TransportMessageMaxSize
	switch t[0] {
	case "send": // bytes Send puts on the wire
		d := UnHex(t[1])
		if err := client.Send(d); err != nil {
			return "reject"
		}
		s := server()
		defer s.Close("done")
		raw, err := s.VerifC31RawRead(p2p.TransportMessageHeaderSize + len(d))
		c31Must(err)
		back, err := func() (*p2p.TransportMessage, error) {
			c31Must(client.Send(d))
			return s.Receive()
		}()
		if err != nil || !bytes.Equal(back.Data, d) || int(back.Size) != len(d) {
			res.PropKey, res.PropDesc = "C31:frame-roundtrip", fmt.Sprintf("Receive(Send(d)) differs from d, |d|=%d err=%v", len(d), err)
		}
		res.Nontrivial = true
		return "ok " + Hex(raw)
	case "recv": // receiveWithLimit on arbitrary stream content followed by end of stream
		limit, raw := c31Atoi(t[1]), UnHex(t[2])
		c31Must(client.VerifC31RawWrite(append([]byte{}, raw...), true))
		if len(raw) == 0 {
			// nothing written: the accepting side never sees the stream; the model says shortHeader
			return "reject"
		}
		s := server()
		defer s.Close("done")
		m, err := s.VerifC31ReceiveWithLimit(uint32(limit))
		if err != nil {
			return "reject"
		}
		if int(m.Size) > limit || len(m.Data) != int(m.Size) {
			res.PropKey, res.PropDesc = "C31:oversize-accepted", fmt.Sprintf("accepted frame of %d bytes with limit %d", m.Size, limit)
		}
		res.Nontrivial = true
		return "ok " + Hex(m.Data)
	case "big": // Send/Receive of a large message
		size := c31Atoi(t[1])
		d := make([]byte, size)
		for i := 0; i < size; i += 4093 {
			d[i] = byte(i)
		}
		type recvd struct {
			m   *p2p.TransportMessage
			err error
		}
		rc := make(chan recvd, 1)
		if size >= 1 && size <= max { // the reader must drain while Send writes (flow control)
			go func() {
				s := server()
				if s == nil {
					return
				}
				defer s.Close("done")
				m, err := s.Receive()
				rc <- recvd{m, err}
			}()
		}
		if err := client.Send(d); err != nil {
			close(cancel)
			if size >= 1 && size <= max {
				res.PropKey, res.PropDesc = "C31:frame-roundtrip", fmt.Sprintf("Send fails on %d bytes: %v", size, err)
			}
			return "reject"
		}
		if size < 1 || size > max {
			res.PropKey, res.PropDesc = "C31:oversize-accepted", fmt.Sprintf("Send accepts %d bytes", size)
			return "ok"
		}
		got := <-rc
		if got.err != nil || !bytes.Equal(got.m.Data, d) {
			res.PropKey, res.PropDesc = "C31:frame-roundtrip", fmt.Sprintf("Receive(Send(d)) differs from d, |d|=%d err=%v", size, got.err)
			return "reject"
		}
		res.Nontrivial = true
		return fmt.Sprintf("ok %d", len(got.m.Data))
	case "bighdr": // header announcing size, no body: is a buffer of that size made?
		limit, size := c31Atoi(t[1]), c31Atoi(t[2])
		hdr := []byte{p2p.TransportMessageVersion, 0, 0, 0, 0, 0}
		binary.BigEndian.PutUint32(hdr[2:], uint32(size))
		c31Must(client.VerifC31RawWrite(hdr, true))
		s := server()
		defer s.Close("done")
		runtime.GC()
		var m0, m1 runtime.MemStats
		runtime.ReadMemStats(&m0)
		_, err := s.VerifC31ReceiveWithLimit(uint32(limit))
		runtime.ReadMemStats(&m1)
		if err == nil {
			res.PropKey, res.PropDesc = "C31:oversize-accepted", fmt.Sprintf("header-only frame of %d accepted", size)
			return "ok"
		}
		alloc := int(m1.TotalAlloc - m0.TotalAlloc)
		big := alloc >= size/2
		if big && size > limit {
			res.PropKey, res.PropDesc = "C31:oversize-alloc", fmt.Sprintf("frame header announcing %d bytes (limit %d) rejected only after allocating %d bytes", size, limit, alloc)
		}
		res.Nontrivial = true
		return fmt.Sprintf("reject a=%d", c31B2i(big))
	}
	panic("harness: unknown frame op " + t[0])
}

func execC31(st *State, line string) Result {
	e := c31Setup(st)
	t := strings.Fields(line)
	res := Result{}
	switch t[0] {
	case "reset":
		e.drainQueue()
		res.Out = "ok"
	case "mk":
		res.Out = c31Mk(e, st, t, &res)
	case "run":
		res.Out = c31Run(e, st, &res)
	case "build":
		res.Out = c31Build(e, t, &res)
	case "srccheck":
		res.Tags = append(res.Tags, "srccheck")
		res.Out = c31SrcCheck(&res)
	case "send", "recv", "big", "bighdr":
		for attempt := 0; ; attempt++ {
			res = Result{}
			res.Out = c31Frame(e, t, &res)
			// a write deadline that expires on a loaded machine is not a framing failure: retry
			if res.PropKey == "C31:frame-roundtrip" && strings.Contains(res.PropDesc, "deadline") && attempt < 3 {
				continue
			}
			break
		}
	default:
		panic("harness: unknown op " + t[0])
	}
	return res
}

func init() {
	const mib = 1 << 20
	thr := p2p.TransportMessageMaxSize * 2 / 3
	hdr := func(v byte, b1 byte, size uint32, body []byte) string {
		h := []byte{v, b1, 0, 0, 0, 0}
		binary.BigEndian.PutUint32(h[2:], size)
		return Hex(append(h, body...))
	}
	genSpec := func(r *Rand) string {
		kind := "v"
		switch r.Intn(12) {
		case 0:
			kind = "i"
		case 1:
			kind = "f"
		}
		nIn, nSigs, extra := r.Range(1, 3), r.Range(1, 3), r.Intn(257)
		switch r.Intn(10) {
		case 0:
			nSigs = r.Range(4, 40)
		case 1:
			extra = r.Range(257, 20000)
		}
		return fmt.Sprintf("%s:%d:%d:%d", kind, nIn, nSigs, extra)
	}
	Register(&Subsystem{
		Name: "batch",
		Rule: "pop: 1..12 real script transactions over fresh UTXOs (1-3 inputs, 1-40 signatures each, extras 0..4 MiB via storage outputs; " +
			"~8% unsigned, ~8% already finalized) queued and run through kernel.popAndProcessCacheQueue, with a boundary stream whose envelope sum " +
			"lands within ±2 bytes of 2/3·TransportMessageMaxSize; build: every p2p builder on 0..256 transactions / 1..255 snapshot hashes; " +
			"send/recv/big/bighdr: QUIC loopback framing with sizes around 1, limit and TransportMessageMaxSize; " +
			"non-trivial = the real code returned without panic/reject; distinct = distinct model input line",
		Corpus: [][]string{
			{"reset", "mk v:1:1:0", "mk i:2:2:10", "mk f:1:1:0", "mk v:2:40:300", "mk v:1:1:5000", "run"},
			{"reset", "mk v:1:2:m0", "mk v:1:1:m1", "run"},
			{"reset", "build bundle 256" + strings.Repeat(" 0", 256), "build bundle 255" + strings.Repeat(" 0", 255), "build bundle 0",
				"build relay 33554432", "build relay 33554433", "build response", "build commitment 255", "build announcement 1 255",
				"build finalization 1 255", "build fullchallenge 1 255 1 100"},
			{"reset", "send -", "send 00", "recv 16 " + hdr(2, 0, 3, []byte{1, 2, 3}), "recv 2 " + hdr(2, 0, 3, []byte{1, 2, 3}),
				"recv 16 " + hdr(1, 0, 3, []byte{1, 2, 3}), "recv 16 " + hdr(2, 9, 3, []byte{1, 2, 3, 4}), "recv 16 " + hdr(2, 0, 4, []byte{1, 2, 3}),
				"recv 0 " + hdr(2, 0, 1, []byte{1}), "recv 33554433 " + hdr(2, 0, 1, []byte{1}), "recv 16 0200", "recv 16 " + hdr(2, 0, 0, nil)},
			{"srccheck"},
			{"reset", "bighdr 33554432 33554433", "bighdr 33554432 4294967295", "bighdr 33554432 33554432", "bighdr 8388608 8388609",
				"big 33554432", "big 33554433", "big 33554431"},
		},
		Gen: func(r *Rand, i int, tier string) []string {
			if i == 0 && tier == "thorough" {
				return c31Witness
			}
			switch c := r.Intn(20); {
			case c < 7: // small random batches
				n := r.Range(1, 12)
				ops := []string{"reset"}
				for j := 0; j < n; j++ {
					ops = append(ops, "mk "+genSpec(r))
				}
				return append(ops, "run")
			case c < 9: // boundary: envelope sum around the threshold
				if r.Chance(1, 8) { // one transaction at the admission cap, sent alone
					return []string{"reset", fmt.Sprintf("mk v:1:%d:m%d", r.Range(1, 5), r.Intn(3)), "mk " + genSpec(r), "run"}
				}
				if tier == "quick" && !r.Chance(1, 4) {
					return []string{"reset", "mk " + genSpec(r), "run"}
				}
				// k transactions with ~max extras, then one whose extra is tuned so that the
				// running envelope sum lands on threshold+delta
				const base = 4*mib - 4096
				ops := []string{"reset"}
				for j := 0; j < thr/base; j++ {
					ops = append(ops, fmt.Sprintf("mk v:1:1:%d", base))
				}
				ops = append(ops, fmt.Sprintf("mk v:1:%d:t%d", r.Range(1, 30), r.Range(-2, 2)))
				for j := r.Intn(3); j > 0; j-- {
					ops = append(ops, "mk "+genSpec(r))
				}
				return append(ops, "run")
			case c < 13: // builders
				n := Pick(r, []int{0, 1, 2, 3, 10, 100, 254, 255, 256})
				args := []string{}
				for j := 0; j < n; j++ {
					args = append(args, strconv.Itoa(Pick(r, []int{0, 1, 255, 256, 1000})))
				}
				ntx := Pick(r, []int{1, 2, 100, 254, 255})
				refs := r.Intn(2)
				switch r.Intn(8) {
				case 0:
					return []string{fmt.Sprintf("build bundle %d %s", n, strings.Join(args, " "))}
				case 1:
					return []string{fmt.Sprintf("build challenge %d %s", n, strings.Join(args, " "))}
				case 2:
					return []string{fmt.Sprintf("build fullchallenge %d %d %d %s", refs, ntx, n, strings.Join(args, " "))}
				case 3:
					return []string{fmt.Sprintf("build announcement %d %d", refs, ntx)}
				case 4:
					return []string{fmt.Sprintf("build commitment %d", Pick(r, []int{0, 1, 2, 100, 255}))}
				case 5:
					return []string{"build response"}
				case 6:
					return []string{fmt.Sprintf("build finalization %d %d", refs, ntx)}
				default:
					if tier == "quick" && !r.Chance(1, 8) {
						return []string{fmt.Sprintf("build relay %d", r.Intn(5000))}
					}
					return []string{fmt.Sprintf("build relay %d", p2p.TransportMessageMaxSize+r.Range(-2, 2))}
				}
			case c < 15:
				return []string{"send " + Hex(r.Bytes(Pick(r, []int{0, 1, 2, 255, 256, 257, 1000, 70000})))}
			case c < 19:
				limit := Pick(r, []int{0, 1, 2, 5, 16, 255, 256, 65536, p2p.TransportMessageMaxSize, p2p.TransportMessageMaxSize + 1})
				size := r.Intn(20)
				switch r.Intn(4) {
				case 0:
					size = limit + r.Range(-1, 1)
					if size < 0 || size > 70000 {
						size = 7
					}
				case 1:
					size = Pick(r, []int{0, 255, 256, 257, 65535, 65536, 65537})
				}
				avail := size
				if r.Chance(1, 4) {
					avail = size + r.Range(-2, 3)
					if avail < 0 {
						avail = 0
					}
				}
				v, b1 := byte(2), byte(0)
				if r.Chance(1, 8) {
					v = byte(r.Intn(5))
				}
				if r.Chance(1, 8) {
					b1 = byte(r.U64())
				}
				announced := uint32(size)
				if r.Chance(1, 10) {
					announced = uint32(r.U64()) // anything, including > 2^31
				}
				raw := UnHex(hdr(v, b1, announced, r.Bytes(avail)))
				if r.Chance(1, 10) {
					raw = raw[:r.Intn(7)]
				}
				return []string{fmt.Sprintf("recv %d %s", limit, Hex(raw))}
			default:
				if tier == "quick" && !r.Chance(1, 6) {
					return []string{fmt.Sprintf("big %d", r.Range(1, 100000))}
				}
				if r.Bool() {
					return []string{fmt.Sprintf("big %d", p2p.TransportMessageMaxSize+r.Range(-1, 1))}
				}
				limit := Pick(r, []int{8 * mib, 16 * mib, p2p.TransportMessageMaxSize})
				return []string{fmt.Sprintf("bighdr %d %d", limit, limit+Pick(r, []int{-1, 0, 1, mib, 1 << 31}))}
			}
		},
		Exec: execC31,
	})
}

// c31SigBytes is the size of the signature section EncodeTransaction appends to the payload:
// per input a u16 count and (u16 index, 64-byte signature) per signature; the payload itself
// already ends with the u16 number of signature maps (0 when unsigned).
func c31SigBytes(nIn, nSigs int) int {
	return nIn * (2 + nSigs*66)
}

// c31Witness is the batch of the C31 finding: six storage transactions whose unsigned
// payloads sum to just under 2/3·TransportMessageMaxSize, followed by three transactions of
// ≈9 KiB payload and ≈3.8 MiB signed envelope (225 inputs × 256 signatures). With the batcher
// accounting ValidatedSize() all nine are batched into one bundle of ≈33.8 MB. (About 173 000
// signatures are made and verified: thorough tier only.)
var c31Witness = []string{"reset",
	"mk v:1:1:4190208", "mk v:1:1:4190208", "mk v:1:1:4190208", "mk v:1:1:4190208", "mk v:1:1:4190208", "mk v:1:1:1380000",
	"mk v:225:256:0", "mk v:225:256:0", "mk v:225:256:0", "run"}

// c31SrcCheck reads p2p/quic.go of the tree under test and checks, on the syntax tree, that in
// receiveWithLimit the only buffer sized by the announced length (`make([]byte, m.Size)`) is a
// top-level statement preceded by a top-level `if m.Size > maxSize { return … }`, and that Send
// starts with the size test that returns. (The dynamic counterpart is the `bighdr` op.)
func c31SrcCheck(res *Result) string {
	fset := token.NewFileSet()
	f, err := parser.ParseFile(fset, filepath.Join(c31Repo(), "p2p", "quic.go"), nil, parser.SkipObjectResolution)
	c31Must(err)
	str := func(n ast.Node) string {
		var b bytes.Buffer
		_ = printer.Fprint(&b, fset, n)
		return strings.Join(strings.Fields(b.String()), " ")
	}
	returns := func(b *ast.BlockStmt) bool {
		if len(b.List) == 0 {
			return false
		}
		_, ok := b.List[len(b.List)-1].(*ast.ReturnStmt)
		return ok
	}
	fail := func(msg string) string {
		res.PropKey, res.PropDesc = "C31:alloc-before-check", msg
		return "fail"
	}
	var recv, send *ast.FuncDecl
	for _, d := range f.Decls {
		if fd, ok := d.(*ast.FuncDecl); ok && fd.Recv != nil {
			switch fd.Name.Name {
			case "receiveWithLimit":
				recv = fd
			case "Send":
				send = fd
			}
		}
	}
	if recv == nil || send == nil {
		return fail("receiveWithLimit or Send not found in p2p/quic.go")
	}
	checked, allocAt, sized := -1, -1, 0
	for i, st := range recv.Body.List {
		if is, ok := st.(*ast.IfStmt); ok && is.Init == nil && str(is.Cond) == "m.Size > maxSize" && returns(is.Body) && checked < 0 {
			checked = i
		}
		if as, ok := st.(*ast.AssignStmt); ok && len(as.Rhs) == 1 && str(as.Rhs[0]) == "make([]byte, m.Size)" && allocAt < 0 {
			allocAt = i
		}
	}
	ast.Inspect(recv.Body, func(n ast.Node) bool {
		if c, ok := n.(*ast.CallExpr); ok {
			if id, ok := c.Fun.(*ast.Ident); ok && id.Name == "make" && len(c.Args) > 1 && strings.Contains(str(c.Args[1]), "Size") && str(c.Args[1]) != "TransportMessageHeaderSize" {
				sized++
			}
		}
		return true
	})
	if checked < 0 || allocAt < 0 || checked > allocAt || sized != 1 {
		return fail(fmt.Sprintf("receiveWithLimit: size check at statement %d, body allocation at %d, %d size-dependent allocations", checked, allocAt, sized))
	}
	first, ok := send.Body.List[0].(*ast.IfStmt)
	if !ok || !strings.Contains(str(first.Cond), "l > TransportMessageMaxSize") || !strings.Contains(str(first.Cond), "l < 1") || !returns(first.Body) {
		return fail("Send does not start with the size test")
	}
	return "ok dominated"
}
