package main

// C19 — the live round of a chain: real kernel.CacheRound (validateSnapshot with and without
// add, Gap, asFinal → common.ComputeRoundHash) against lean/Mixin/Model/Round.lean.
//
// Property mode (independent of the model): for a round that was built only through accepted
// validateSnapshot(add=true) calls from the empty round, with every ts + gap < 2^64, the stored
// snapshots must have pairwise distinct hashes and timestamps, pairwise disjoint transactions,
// lie on one day, span strictly less than the gap, and Gap()/asFinal() must not panic.

import (
	"fmt"
	"math/big"
	"sort"
	"strconv"
	"strings"

	"github.com/MixinNetwork/mixin/common"
	"github.com/MixinNetwork/mixin/config"
	"github.com/MixinNetwork/mixin/crypto"
	"github.com/MixinNetwork/mixin/kernel"
)

type c19State struct {
	round *kernel.CacheRound
	clean bool // only validated accepts since reset, no wrap-around timestamps
}

func c19Hash(tag string, k int) crypto.Hash {
	return crypto.Blake3Hash([]byte(fmt.Sprintf("c19-%s-%d", tag, k)))
}

func c19HashDec(h crypto.Hash) string { return new(big.Int).SetBytes(h[:]).String() }

func c19Dump(c *kernel.CacheRound) string {
	items := make([]string, len(c.Snapshots))
	for i, s := range c.Snapshots {
		txs := make([]string, len(s.Transactions))
		for j, t := range s.Transactions {
			txs[j] = c19HashDec(t)
		}
		sort.Strings(txs) // the duplicate-transaction error path sorts cs.Transactions in place (PayloadHash)
		items[i] = fmt.Sprintf("%d/%s/%s", s.Timestamp, c19HashDec(s.Hash), strings.Join(txs, "+"))
	}
	sort.Strings(items)
	out := fmt.Sprintf("ok %d", len(items))
	for _, it := range items {
		out += " " + it
	}
	return out
}

func c19ParseSnap(f []string, node crypto.Hash) (*common.Snapshot, bool) {
	if len(f) < 4 {
		return nil, false
	}
	rn, e1 := strconv.ParseUint(f[0], 10, 64)
	ts, e2 := strconv.ParseUint(f[2], 10, 64)
	k, e3 := strconv.Atoi(f[3])
	hb := UnHex(f[1])
	if e1 != nil || e2 != nil || e3 != nil || len(hb) != 32 || k != len(f)-4 {
		return nil, false
	}
	// domain: snapshots whose payload hash is computable (it was computed at admission):
	// 1..SnapshotTransactionsMaximum distinct transactions, exactly one in round 0
	if k < 1 || k > common.SnapshotTransactionsMaximum || (rn == 0 && k != 1) {
		return nil, false
	}
	for i := 4; i < len(f); i++ {
		for j := i + 1; j < len(f); j++ {
			if f[i] == f[j] {
				return nil, false
			}
		}
	}
	s := &common.Snapshot{Version: common.SnapshotVersionCommonEncoding, NodeId: node, RoundNumber: rn, Timestamp: ts}
	copy(s.Hash[:], hb)
	for _, t := range f[4:] {
		tb := UnHex(t)
		if len(tb) != 32 {
			return nil, false
		}
		var h crypto.Hash
		copy(h[:], tb)
		s.Transactions = append(s.Transactions, h)
	}
	return s, true
}

const c19Day = uint64(86400000000000) // only used by the generator and the property oracle; kernel.OneDay is checked below

// the property's own observable, evaluated on the real round content
func c19Property(c *kernel.CacheRound) string {
	ss := c.Snapshots
	var lo, hi uint64
	for i, a := range ss {
		if i == 0 || a.Timestamp < lo {
			lo = a.Timestamp
		}
		if i == 0 || a.Timestamp > hi {
			hi = a.Timestamp
		}
		for j, b := range ss {
			if i >= j {
				continue
			}
			if a.Hash == b.Hash {
				return "two accepted snapshots share a hash"
			}
			if a.Timestamp == b.Timestamp {
				return "two accepted snapshots share a timestamp"
			}
			if a.Timestamp/kernel.OneDay != b.Timestamp/kernel.OneDay {
				return "accepted snapshots on different days"
			}
			for _, x := range a.Transactions {
				for _, y := range b.Transactions {
					if x == y {
						return "two accepted snapshots share a transaction"
					}
				}
			}
		}
	}
	if len(ss) > 0 && hi-lo >= config.SnapshotRoundGap {
		return fmt.Sprintf("accepted snapshots span %d >= gap", hi-lo)
	}
	return ""
}

func c19Exec(st *State, line string) Result {
	f := strings.Fields(line)
	node := c19Hash("node", 0)
	cs, _ := st.V["c19"].(*c19State)
	if len(f) == 0 {
		return Result{Out: "bad-op"}
	}
	if f[0] == "reset" {
		if len(f) != 1 {
			return Result{Out: "bad-op"}
		}
		st.V["c19"] = (*c19State)(nil)
		return Result{Out: "ok"}
	}
	if f[0] == "new" {
		if len(f) != 2 {
			return Result{Out: "bad-op"}
		}
		n, err := strconv.ParseUint(f[1], 10, 64)
		if err != nil {
			return Result{Out: "bad-op"}
		}
		st.V["c19"] = &c19State{round: &kernel.CacheRound{NodeId: node, Number: n}, clean: true}
		return Result{Out: "ok 0"}
	}
	if cs == nil {
		return Result{Out: "bad-op"}
	}
	c := cs.round
	res := Result{}
	switch f[0] {
	case "v":
		if len(f) < 2 || (f[1] != "0" && f[1] != "1") {
			return Result{Out: "bad-op"}
		}
		s, ok := c19ParseSnap(f[2:], node)
		if !ok {
			return Result{Out: "bad-op"}
		}
		add := f[1] == "1"
		before := len(c.Snapshots)
		var errText string
		out, panicked, _ := Catch(func() string {
			var err error
			if add {
				err = c.VerifValidateSnapshot(s, true)
			} else {
				err = c.ValidateSnapshot(s)
			}
			if err != nil {
				errText = err.Error()
				return "reject"
			}
			return c19Dump(c)
		})
		res.Out = out
		res.Nontrivial = before > 0
		switch {
		case panicked:
			res.Tags = append(res.Tags, "validate:panic")
		case out == "reject":
			cls := "other"
			switch {
			case strings.Contains(errText, "round day leap"):
				cls = "day"
			case strings.Contains(errText, "gap start"):
				cls = "gap-start"
			case strings.Contains(errText, "gap end"):
				cls = "gap-end"
			case strings.Contains(errText, "duplication"):
				cls = "duplicate"
			}
			res.Tags = append(res.Tags, "validate:reject:"+cls)
			if len(c.Snapshots) != before {
				res.PropKey, res.PropDesc = "C19:reject-changed-round", "a rejected candidate changed the round content"
			}
		default:
			res.Tags = append(res.Tags, fmt.Sprintf("validate:accept(add=%s,size=%d)", f[1], min(before, 4)))
			if s.Timestamp > ^uint64(0)-config.SnapshotRoundGap {
				cs.clean = false
			}
			if !add && len(c.Snapshots) != before {
				res.PropKey, res.PropDesc = "C19:validate-only-changed-round", "ValidateSnapshot changed the round content"
			}
			if cs.clean {
				if d := c19Property(c); d != "" {
					res.PropKey, res.PropDesc = "C19:round-invariant", d
				}
			}
		}
	case "push":
		s, ok := c19ParseSnap(f[1:], node)
		if !ok {
			return Result{Out: "bad-op"}
		}
		c.Snapshots = append(c.Snapshots, s)
		cs.clean = false
		res.Out = c19Dump(c)
		res.Tags = append(res.Tags, "push")
	case "gap":
		out, panicked, _ := Catch(func() string {
			a, b := c.Gap()
			return fmt.Sprintf("ok %d %d", a, b)
		})
		res.Out = out
		res.Nontrivial = len(c.Snapshots) > 1
		if panicked {
			res.Tags = append(res.Tags, "gap:panic")
			if cs.clean {
				res.PropKey, res.PropDesc = "C19:close-panics", "Gap() panics on a round built from accepted snapshots only"
			}
		} else {
			res.Tags = append(res.Tags, "gap:ok")
		}
	case "final":
		out, panicked, _ := Catch(func() string {
			fr := c.VerifAsFinal()
			if fr == nil {
				return "nil"
			}
			return fmt.Sprintf("ok %d %d", fr.Start, fr.End)
		})
		res.Out = out
		res.Nontrivial = len(c.Snapshots) > 1
		switch {
		case panicked:
			res.Tags = append(res.Tags, "final:panic")
			if cs.clean {
				res.PropKey, res.PropDesc = "C19:close-panics", "asFinal/ComputeRoundHash panics on a round built from accepted snapshots only"
			}
		case out == "nil":
			res.Tags = append(res.Tags, "final:nil")
		default:
			res.Tags = append(res.Tags, fmt.Sprintf("final:ok(size=%d)", min(len(c.Snapshots), 4)))
		}
	default:
		return Result{Out: "bad-op"}
	}
	return res
}

func c19Gen(r *Rand, i int, tier string) []string {
	gap := config.SnapshotRoundGap
	number := uint64(r.Intn(5))
	if r.Chance(1, 10) {
		number = r.U64()
	}
	lines := []string{"reset", fmt.Sprintf("new %d", number)}
	// base timestamp
	var base uint64
	switch r.Intn(12) {
	case 0: // just below a day boundary
		base = (1700000000000000000/c19Day+uint64(r.Intn(400)))*c19Day - uint64(r.Intn(3)) - uint64(r.Intn(2))*gap
	case 1: // just above a day boundary
		base = (1700000000000000000/c19Day+uint64(r.Intn(400)))*c19Day + uint64(r.Intn(3))
	case 2: // a day boundary inside the reachable window
		base = (1700000000000000000/c19Day+uint64(r.Intn(400)))*c19Day - uint64(r.U64()%gap)
	case 3: // tiny timestamps (subtraction below zero in the generator is clamped)
		base = uint64(r.U64() % (2 * gap))
	case 4: // around 2^64: ts + gap wraps
		base = ^uint64(0) - uint64(r.U64()%(3*gap))
	case 5: // around the Gap() sentinel 2^63-1
		base = (^uint64(0))/2 - gap + uint64(r.U64()%(2*gap))
	default:
		base = 1600000000000000000 + r.U64()%400000000000000000
	}
	anchors := []uint64{base}
	nh, nt := r.Range(2, 7), r.Range(1, 8)
	genSnap := func() string {
		ref := Pick(r, anchors)
		var ts uint64
		off := func(d uint64, neg bool) uint64 {
			if neg {
				if ref < d {
					return 0
				}
				return ref - d
			}
			if ref > ^uint64(0)-d {
				return ^uint64(0)
			}
			return ref + d
		}
		neg := r.Bool()
		switch r.Intn(10) {
		case 0:
			ts = ref
		case 1:
			ts = off(1, neg)
		case 2:
			ts = off(gap, neg)
		case 3:
			ts = off(gap-1, neg)
		case 4:
			ts = off(gap+1, neg)
		case 5:
			ts = off(r.U64()%(2*gap), neg)
		case 6: // next/previous day boundary ± 1
			b := (ref / c19Day) * c19Day
			if r.Bool() {
				b += c19Day
			}
			ts = b - 1 + uint64(r.Intn(3))
		default:
			ts = off(r.U64()%gap, neg)
		}
		anchors = append(anchors, ts)
		h := c19Hash("snap", r.Intn(nh))
		if r.Chance(1, 40) {
			h = crypto.Hash{}
		}
		if r.Chance(3, 4) { // mostly fresh hashes, so that timestamps decide
			h = c19Hash("snap", 100+len(anchors))
		}
		rn := number
		if r.Chance(1, 40) {
			rn = number + 1
		}
		k := r.Range(1, 3)
		if rn == 0 {
			k = 1
		}
		var txs []string
		for len(txs) < k {
			var t crypto.Hash
			if r.Chance(2, 3) {
				t = c19Hash("tx", 1000+r.Intn(1<<30))
			} else {
				t = c19Hash("tx", r.Intn(nt))
			}
			x := Hex(t[:])
			dup := false
			for _, y := range txs {
				dup = dup || x == y
			}
			if !dup {
				txs = append(txs, x)
			}
		}
		parts := []string{fmt.Sprint(rn), Hex(h[:]), fmt.Sprint(ts), fmt.Sprint(k)}
		return strings.Join(append(parts, txs...), " ")
	}
	n := r.Range(3, 14)
	if r.Chance(1, 12) {
		// a round loaded from storage without validation (loadHeadRoundForNode): arbitrary content
		for j := r.Range(1, 3); j > 0; j-- {
			lines = append(lines, "push "+genSnap())
		}
	}
	for j := 0; j < n; j++ {
		switch r.Intn(12) {
		case 0:
			lines = append(lines, "final")
		case 1:
			lines = append(lines, "gap")
		case 2, 3:
			lines = append(lines, "v 0 "+genSnap())
		default:
			lines = append(lines, "v 1 "+genSnap())
		}
	}
	lines = append(lines, "gap", "final")
	return lines
}

func init() {
	if kernel.OneDay != c19Day {
		panic("harness: kernel.OneDay changed; update c19Day (generator only)")
	}
	h := func(k int) string { x := c19Hash("snap", k); return Hex(x[:]) }
	t := func(k int) string { x := c19Hash("tx", k); return Hex(x[:]) }
	zero := strings.Repeat("00", 32)
	Register(&Subsystem{
		Name: "round",
		Rule: "case = one live round: reset, then 3..14 candidates (validate-and-add, validate-only, rarely unvalidated push) with timestamps at earlier anchors ± {0,1,gap-1,gap,gap+1,random}, day boundaries ± 1, the 2^63 sentinel and the 2^64 wrap region, hashes/transactions drawn from small pools, interleaved with Gap()/asFinal(); non-trivial = a validate on a non-empty round or Gap/asFinal on a round of ≥ 2 snapshots",
		Gen:  c19Gen,
		Exec: c19Exec,
		Corpus: [][]string{
			{ // start+gap-1 accepted, start+gap rejected, then start-1 rejected because the end moved
				"reset", "new 7",
				"v 1 7 " + h(1) + " 1700000000000000000 1 " + t(1),
				"v 1 7 " + h(2) + " 1700000003000000000 1 " + t(21),
				"v 1 7 " + h(2) + " 1700000002999999999 2 " + t(2) + " " + t(3),
				"v 1 7 " + h(3) + " 1699999999999999999 1 " + t(22),
				"v 0 7 " + h(3) + " 1700000000000000001 1 " + t(23),
				"v 1 7 " + h(3) + " 1700000000000000001 1 " + t(3),
				"v 1 7 " + h(1) + " 1700000000000000002 1 " + t(24),
				"gap", "final",
			},
			{ // wrap-around witness of Mixin.C19.close_fails_when_wrapping
				"reset", "new 5",
				"v 1 5 " + strings.Repeat("00", 31) + "01 18446744073709551615 1 " + t(1),
				"final", "gap",
			},
			{ // ill-formed candidates panic; empty round closes to nil
				"reset", "new 1", "final", "gap",
				"v 1 2 " + h(1) + " 5 1 " + t(25),
				"v 1 1 " + zero + " 5 1 " + t(26),
				"v 1 1 " + h(1) + " 5 1 " + t(27),
				"final",
			},
			{ // day leap inside the gap window
				"reset", "new 0",
				"v 1 0 " + h(1) + " 1700006399999999999 1 " + t(28),
				"v 1 0 " + h(2) + " 1700006400000000000 1 " + t(29),
				"v 1 0 " + h(2) + " 1700006399999999998 1 " + t(30),
				"final",
			},
			{ // unvalidated content spanning a gap: Gap() and asFinal() panic, validate panics
				"reset", "new 3",
				"push 3 " + h(1) + " 1000 1 " + t(31),
				"push 3 " + h(2) + " 3000001000 1 " + t(32),
				"gap", "final",
				"v 1 3 " + h(3) + " 2000 1 " + t(33),
				"v 1 3 " + h(1) + " 2000 1 " + t(34),
			},
		},
	})
}
