package main

// C02 (batch part) — the real crypto.BatchVerifier / crypto.BatchVerify against
// lean/Mixin/Model/BatchVerify.lean. Points are named by discrete logs (c12_c14_scalar.go); the
// per-entry challenge H(R ‖ A ‖ message) is computed here (SHA-512, reduced mod ℓ) and handed to
// the model; the random 128-bit coefficients zᵢ are INJECTED into the unmodified Verify through
// crypto/rand.Reader (the code reads 16 bytes per entry with ReadRand) and given to the model too.
//
// Property mode: (a) with coefficients drawn independently of the entries the batch result must
// equal the conjunction of the individual Key.Verify results (key C02:batchverify-differs) — honest
// batches, individually invalid entries, and pairs/triples whose errors cancel under EQUAL
// coefficients; (b) for every batch, also those crafted with knowledge of z ("zaware": Σ zᵢeᵢ = 0
// with eᵢ ≠ 0 — not an attack, the exact algebra), the decision must be the one of the equation
// evaluated with math/big on the discrete logs (key C02:batch-algebra); (c) a batch that runs to
// the final equation must have drawn 16 fresh bytes per entry (key C02:batch-coefficients).
// Points with a small-order component (d•B + T) are outside the discrete-log model: they are
// offered to the real code only and must be refused by batch and single check alike.

import (
	"crypto/rand"
	"fmt"
	"io"
	"math/big"
	"strings"

	"filippo.io/edwards25519"
	"github.com/MixinNetwork/mixin/crypto"
)

// ---- coefficient injection ----

type c02bReader struct {
	data   []byte
	served int
	fall   *Rand
}

func (rd *c02bReader) Read(p []byte) (int, error) {
	for i := range p {
		if rd.served < len(rd.data) {
			p[i] = rd.data[rd.served]
		} else {
			p[i] = byte(rd.fall.U64()) // more randomness requested than coefficients supplied
		}
		rd.served++
	}
	return len(p), nil
}

// c02bEntropyOK mirrors what crypto.ReadRand demands of a 16-byte block (no byte value 5 times)
func c02bEntropyOK(b []byte) bool {
	cnt := map[byte]int{}
	for _, x := range b {
		cnt[x]++
		if cnt[x] >= len(b)/3 {
			return false
		}
	}
	return true
}

func c02bRandCoeff(r *Rand) *big.Int {
	for {
		b := r.Bytes(16)
		if c02bEntropyOK(b) {
			return c12BytesScalar(b)
		}
	}
}

// c02bWithCoeffs runs f with crypto/rand.Reader serving the coefficients (16 bytes each, little
// endian) and returns the number of bytes the code drew.
func c02bWithCoeffs(zs []*big.Int, f func()) int {
	rd := &c02bReader{fall: NewRand(0xc02b)}
	for _, z := range zs {
		b := c12ScalarBytes(z)
		rd.data = append(rd.data, b[:16]...)
	}
	old := rand.Reader
	rand.Reader = io.Reader(rd)
	defer func() { rand.Reader = old }()
	f()
	return rd.served
}

// ---- points with a small-order component ----

var c02bTorsion = func() []*edwards25519.Point {
	var out []*edwards25519.Point
	for _, h := range []string{
		"26e8958fc2b227b045c3f489f2ef98f0d5dfac05d3c63339b13802886d53fc05", // order 8
		"0000000000000000000000000000000000000000000000000000000000000000", // order 4
		"ecffffffffffffffffffffffffffffffffffffffffffffffffffffffffffff7f", // order 2
	} {
		p, err := edwards25519.NewIdentityPoint().SetBytes(UnHex(h))
		if err != nil {
			panic(err)
		}
		out = append(out, p)
	}
	return out
}()

// c02bMixed: the encoding of d•B + T for a small-order T (refused by decodePoint)
func c02bMixed(d *big.Int, which int) string {
	k := c12PointOf(d)
	p, err := edwards25519.NewIdentityPoint().SetBytes(k[:])
	if err != nil {
		panic(err)
	}
	p.Add(p, c02bTorsion[which%len(c02bTorsion)])
	return Hex(p.Bytes())
}

// ---- entries ----

type c02bEntry struct {
	aTok, rTok string
	s          *big.Int
	sigLen     int
}

func (e c02bEntry) String() string { return fmt.Sprintf("%s %s %s %d", e.aTok, e.rTok, e.s, e.sigLen) }

// challenge of an entry as BatchVerifier.add / Key.Verify compute it
func c02bChallenge(rBytes, aBytes []byte, msg crypto.Hash) *big.Int {
	return c14HashScalar(rBytes, aBytes, msg[:])
}

type c02bParsed struct {
	key   *crypto.Key
	keyDl *big.Int
	sig   []byte // nil: nil *Signature
	rDl   *big.Int
	s     *big.Int
	c     *big.Int
}

func c02bParseEntries(t []string, n int, msg crypto.Hash) ([]c02bParsed, []string) {
	es := make([]c02bParsed, n)
	for i := 0; i < n; i++ {
		a, r, s, l := t[4*i], t[4*i+1], t[4*i+2], t[4*i+3]
		var e c02bParsed
		e.key, e.keyDl = c12ParsePointTok(a)
		e.s = c12ParseBigTok(s)
		var sl int
		fmt.Sscan(l, &sl)
		if r != "xnil" {
			rk, rd := c12ParsePointTok(r)
			e.rDl = rd
			sb := c12ScalarBytes(e.s)
			full := append(append([]byte{}, rk[:]...), sb[:]...)
			for len(full) < sl {
				full = append(full, 0)
			}
			e.sig = full[:sl]
			if e.key != nil {
				nn := min(sl, 32)
				e.c = c02bChallenge(e.sig[:nn], e.key[:], msg)
			}
		}
		if e.c == nil {
			e.c = new(big.Int)
		}
		es[i] = e
	}
	return es, t[4*n:]
}

// the batch equation on discrete logs: every entry decodable, Σ zᵢ·(sᵢ − rᵢ − cᵢaᵢ) = 0 (mod ℓ)
func c02bAlgebra(es []c02bParsed, zs []*big.Int) bool {
	if len(es) == 0 {
		return false
	}
	sum := new(big.Int)
	for i, e := range es {
		if e.key == nil || e.sig == nil || len(e.sig) != 64 || e.keyDl == nil || e.keyDl.Sign() == 0 ||
			e.rDl == nil || e.rDl.Sign() == 0 || e.s.Cmp(c12EllBig) >= 0 {
			return false
		}
		err := new(big.Int).Sub(e.s, e.rDl)
		err.Sub(err, new(big.Int).Mul(e.c, e.keyDl))
		sum.Add(sum, new(big.Int).Mul(zs[i], err))
	}
	return c12ModL(sum).Sign() == 0
}

func c02bSingle(e c02bParsed, msg crypto.Hash) bool {
	if e.key == nil || len(e.sig) != 64 {
		return false
	}
	var sig crypto.Signature
	copy(sig[:], e.sig)
	ok := false
	Catch(func() string { ok = e.key.Verify(msg, sig); return "" })
	return ok
}

func c02bExec(_ *State, line string) Result {
	t := strings.Fields(line)
	res := Result{Tags: []string{t[0]}}
	var msg crypto.Hash
	copy(msg[:], UnHex(t[1]))
	zaware := t[2] != "0"
	var nk, ns int
	var rest []string
	switch t[0] {
	case "vbatch":
		fmt.Sscan(t[3], &nk)
		ns, rest = nk, t[4:]
	case "bbatch":
		fmt.Sscan(t[3], &nk)
		fmt.Sscan(t[4], &ns)
		rest = t[5:]
	default:
		panic("harness: unknown batchverify op " + t[0])
	}
	es, tail := c02bParseEntries(rest, nk, msg)
	zs := make([]*big.Int, nk)
	for i := range zs {
		zs[i] = c12ParseBigTok(tail[i])
	}
	var out string
	drawn := c02bWithCoeffs(zs, func() {
		out, _, _ = Catch(func() string {
			ok := false
			if t[0] == "vbatch" {
				v := crypto.NewBatchVerifier()
				for _, e := range es {
					v.VerifC02Add(e.key, msg[:], e.sig)
				}
				ok = v.Verify()
			} else {
				keys := make([]*crypto.Key, nk)
				for i, e := range es {
					keys[i] = e.key
				}
				sigs := make([]*crypto.Signature, ns)
				for i := range sigs {
					if nk == 0 {
						sigs[i] = new(crypto.Signature)
						continue
					}
					e := es[min(i, nk-1)]
					if e.sig != nil {
						sigs[i] = new(crypto.Signature)
						copy(sigs[i][:], e.sig)
					}
				}
				ok = crypto.BatchVerify(msg, keys, sigs)
			}
			if ok {
				return "ok"
			}
			return "reject"
		})
	})
	res.Out = out
	// LeanIn: the line up to the coefficients, then the challenges
	var cs []string
	for _, e := range es {
		cs = append(cs, e.c.String())
	}
	head := len(t) - len(tail)
	res.LeanIn = strings.TrimSpace(strings.Join(t[:head+nk], " ") + " " + strings.Join(cs, " "))

	// ---- property mode ----
	all := nk > 0 && nk == ns
	nilEntry := false
	for _, e := range es {
		if e.key == nil || e.sig == nil {
			nilEntry = true
		}
	}
	want := false // the equation, or the documented special paths of BatchVerify
	switch {
	case !all || nilEntry:
		want = false
	case t[0] == "bbatch" && nk == 1:
		want = c02bAlgebra(es, []*big.Int{big.NewInt(1)})
	default:
		want = c02bAlgebra(es, zs)
	}
	if out == "panic" {
		res.PropKey, res.PropDesc = "C02:batch-panic", "batch verification panicked"
	} else if (out == "ok") != want {
		res.PropKey, res.PropDesc = "C02:batch-algebra", fmt.Sprintf("batch of %d -> %s, the equation Σ zᵢ(sᵢ−rᵢ−cᵢaᵢ)=0 over decodable entries says ok=%v", nk, out, want)
	}
	conj := all && !nilEntry
	if conj {
		for _, e := range es {
			if !c02bSingle(e, msg) {
				conj = false
				break
			}
		}
	}
	if !zaware && out != "panic" && (out == "ok") != conj {
		res.PropKey, res.PropDesc = "C02:batchverify-differs", fmt.Sprintf("batch of %d signatures -> %s but conjunction of Key.Verify = %v (coefficients drawn independently of the entries)", nk, out, conj)
	}
	if all && !nilEntry && !(t[0] == "bbatch" && nk == 1) {
		// every entry decodable <=> the loop reaches the final equation
		dec := true
		for _, e := range es {
			if len(e.sig) != 64 || e.keyDl == nil || e.keyDl.Sign() == 0 || e.rDl == nil || e.rDl.Sign() == 0 || e.s.Cmp(c12EllBig) >= 0 {
				dec = false
			}
		}
		if dec && drawn < 16*nk && res.PropKey == "" {
			res.PropKey, res.PropDesc = "C02:batch-coefficients", fmt.Sprintf("batch of %d entries drew only %d random bytes: entries share coefficients", nk, drawn)
		}
	}
	res.Nontrivial = nk >= 2
	tag := "batch:" + out
	if zaware {
		tag += ":zaware"
	}
	res.Tags = append(res.Tags, tag, fmt.Sprintf("batch:n<=%d", c14SizeBucket(nk)), fmt.Sprintf("batch:all-individually-valid=%v", conj))
	return res
}

// ---- generator ----

type c02bGenEntry struct {
	a, r *big.Int // discrete logs
	e    c02bEntry
}

func c02bHonest(r *Rand, msg crypto.Hash, a *big.Int) c02bGenEntry {
	if a == nil {
		a = c12RandScalar(r)
	}
	rr := c12RandScalar(r)
	A, R := c12PointOf(a), c12PointOf(rr)
	c := c02bChallenge(R[:], A[:], msg)
	s := c12ModL(new(big.Int).Add(rr, new(big.Int).Mul(c, a)))
	return c02bGenEntry{a: a, r: rr, e: c02bEntry{aTok: a.String(), rTok: rr.String(), s: s, sigLen: 64}}
}

func c02bGenCase(r *Rand, _ int, tier string) []string {
	msg := crypto.Hash{}
	copy(msg[:], r.Bytes(32))
	n := Pick(r, []int{0, 1, 1, 2, 2, 2, 3, 3, 4, 5, 8, 13, 16, 33, 64, 128})
	if tier == "quick" && n > 16 && r.Chance(2, 3) {
		n = 2 + r.Intn(6)
	}
	op := "vbatch"
	if r.Chance(1, 3) {
		op = "bbatch"
	}
	var keyPool []*big.Int
	for i := 0; i < 3; i++ {
		keyPool = append(keyPool, c12RandScalar(r))
	}
	es := make([]c02bGenEntry, n)
	for i := range es {
		var a *big.Int
		if r.Chance(1, 4) {
			a = Pick(r, keyPool) // the same key several times in one batch
		}
		es[i] = c02bHonest(r, msg, a)
	}
	zaware := 0
	zs := make([]*big.Int, n)
	drawZ := func() {
		for i := range zs {
			zs[i] = c02bRandCoeff(r)
		}
	}
	bump := func(i int, d *big.Int) { es[i].e.s = c12ModL(new(big.Int).Add(es[i].e.s, d)) }
	kind := r.Intn(20)
	switch {
	case n == 0 || kind < 6: // honest
		drawZ()
	case kind < 11: // 1..3 individually invalid entries
		for q := 1 + r.Intn(3); q > 0; q-- {
			i := r.Intn(n)
			g := &es[i]
			switch r.Intn(12) {
			case 0, 1:
				bump(i, big.NewInt(int64(1+r.Intn(3))))
			case 2: // bit flip in s
				b := new(big.Int).Set(g.e.s)
				bit := r.Intn(256)
				b.SetBit(b, bit, b.Bit(bit)^1)
				g.e.s = b
			case 3: // non-canonical s
				g.e.s = new(big.Int).Add(g.e.s, c12EllBig)
			case 4: // signature of another key
				g.e.aTok = c12RandScalar(r).String()
			case 5: // another commitment
				g.e.rTok = c12RandScalar(r).String()
			case 6:
				g.e.rTok = "x" + c12GenBadPoint(r)
			case 7:
				g.e.aTok = "x" + c12GenBadPoint(r)
			case 8: // identity as key or commitment
				if r.Bool() {
					g.e.aTok = "0"
				} else {
					g.e.rTok = "0"
				}
			case 9: // small-order component on R: the equation holds up to torsion
				R := c02bMixed(g.r, r.Intn(3))
				A := c12PointOf(g.a)
				c := c02bChallenge(UnHex(R), A[:], msg)
				g.e.rTok = "x" + R
				g.e.s = c12ModL(new(big.Int).Add(g.r, new(big.Int).Mul(c, g.a)))
			case 10: // small-order component on A
				A := c02bMixed(g.a, r.Intn(3))
				R := c12PointOf(g.r)
				c := c02bChallenge(R[:], UnHex(A), msg)
				g.e.aTok = "x" + A
				g.e.s = c12ModL(new(big.Int).Add(g.r, new(big.Int).Mul(c, g.a)))
			default: // signature slice of another length / nil entries
				if op == "vbatch" {
					g.e.sigLen = Pick(r, []int{0, 1, 31, 32, 33, 63, 65, 96})
				} else if r.Bool() {
					g.e.aTok = "xnil"
				} else {
					g.e.rTok = "xnil"
				}
			}
		}
		drawZ()
	case kind < 15 && n >= 2: // errors that cancel under EQUAL coefficients; z drawn afterwards
		i, j := r.Intn(n), r.Intn(n)
		if i == j {
			j = (i + 1) % n
		}
		d := c12RandScalar(r)
		if n >= 3 && r.Chance(1, 3) {
			k := 0
			for k == i || k == j {
				k++
			}
			d2 := c12RandScalar(r)
			bump(i, d)
			bump(j, d2)
			bump(k, new(big.Int).Neg(new(big.Int).Add(d, d2)))
		} else {
			bump(i, d)
			bump(j, new(big.Int).Neg(d))
		}
		drawZ()
	case kind < 18 && n >= 2: // crafted with knowledge of z: Σ zᵢeᵢ = 0 although eᵢ ≠ 0
		drawZ()
		zaware = 1
		i, j := r.Intn(n), r.Intn(n)
		if i == j {
			j = (i + 1) % n
		}
		d := c12RandScalar(r)
		bump(i, new(big.Int).Mul(d, zs[j]))
		bump(j, new(big.Int).Neg(new(big.Int).Mul(d, zs[i])))
		if r.Chance(1, 4) { // … and one off: must be refused again
			bump(i, big.NewInt(1))
		}
	default: // duplicates of one valid entry
		if n >= 2 {
			es[n-1] = es[0]
		}
		drawZ()
	}
	var sb strings.Builder
	ns := n
	if op == "bbatch" && r.Chance(1, 12) {
		ns = Pick(r, []int{0, n + 1, max(n-1, 0)})
	}
	if op == "bbatch" {
		fmt.Fprintf(&sb, "bbatch %s %d %d %d", Hex(msg[:]), zaware, n, ns)
	} else {
		fmt.Fprintf(&sb, "vbatch %s %d %d", Hex(msg[:]), zaware, n)
	}
	for _, g := range es {
		sb.WriteString(" " + g.e.String())
	}
	for _, z := range zs {
		sb.WriteString(" " + z.String())
	}
	return []string{sb.String()}
}

func init() {
	Register(&Subsystem{
		Name: "batchverify",
		Rule: "one case = one batch of 0..128 entries over one message (1/4 of the keys repeated), through BatchVerifier (2/3) or " +
			"BatchVerify (1/3: nil entries, length mismatch, single-entry path); 30% honest, 25% with 1..3 individually invalid entries " +
			"(s+δ, bit flip, non-canonical s, foreign key / commitment, refused or identity points, points with a small-order component, " +
			"signature slices of other lengths, nil), 20% pairs/triples whose errors cancel under equal coefficients, 15% crafted with " +
			"knowledge of the coefficients (Σ zᵢeᵢ = 0, 'zaware'), 10% duplicated entries; coefficients injected through crypto/rand.Reader; " +
			"non-trivial = batch of at least two entries; distinct = distinct op line",
		Gen:  c02bGenCase,
		Exec: c02bExec,
	})
}
