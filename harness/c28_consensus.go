package main

// C28 — consensus operations form a serialized single-transaction chain.
//
// Real code driven in-process on a real BadgerStore with a kernel.Node built by
// kernel.SetupNode from a generated 7-node genesis:
//   - common.(*SignedTransaction).TransactionType / IsSnapshotBatchable on transactions of
//     every class built from the repository's own types,
//   - kernel.(*Node).validateKernelSnapshot and validateConsensusTransactionReferences (hooks),
//   - kernel.(*Node).WriteConsensusSnapshotWithHack and storage.WriteConsensusSnapshot,
//   - the CONSENSUSSNAPSHOT key space (dump hook).
// against lean/Mixin/Model/ConsensusChain.lean. Op lines are `op args | oracle`; everything after
// `|` is produced by Exec (resolved timestamps, hashes, type codes) and ignored on replay.

import (
	"encoding/json"
	"fmt"
	"os"
	"strconv"
	"strings"

	"github.com/MixinNetwork/mixin/common"
	"github.com/MixinNetwork/mixin/config"
	"github.com/MixinNetwork/mixin/crypto"
	"github.com/MixinNetwork/mixin/kernel"
	"github.com/MixinNetwork/mixin/storage"
	"github.com/dgraph-io/ristretto/v2"
)

type c28env struct {
	store     *storage.BadgerStore
	node      *kernel.Node
	netId     crypto.Hash
	mainnetId crypto.Hash
	gSnap     *common.Snapshot
	gTx       *common.VersionedTransaction
	topo      uint64
	mainnet   bool
	custodian common.Address
	gns       *common.Genesis
}

var c28single *c28env

func c28setup(st *State) *c28env {
	if c28single != nil {
		return c28single
	}
	dir := st.Dir + "/consensuschain"
	if err := os.MkdirAll(dir, 0o755); err != nil {
		panic(err)
	}
	type gnode struct {
		Signer    string `json:"signer"`
		Payee     string `json:"payee"`
		Custodian string `json:"custodian"`
		Balance   string `json:"balance"`
	}
	addr := func(tag string, i int) common.Address {
		seed := make([]byte, 64)
		copy(seed, fmt.Sprintf("verif-c28-%s-%d", tag, i))
		a := common.NewAddressFromSeed(seed)
		a.PrivateViewKey = a.PublicSpendKey.DeterministicHashDerive()
		a.PublicViewKey = a.PrivateViewKey.Public()
		return a
	}
	var nodes []gnode
	var signer0 common.Address
	for i := 0; i < 7; i++ {
		s := addr("signer", i)
		if i == 0 {
			signer0 = s
		}
		nodes = append(nodes, gnode{s.String(), addr("payee", i).String(), addr("custodian", i).String(), "13439"})
	}
	gj, _ := json.Marshal(map[string]any{"epoch": 1700000000, "custodian": addr("domain", 0).String(), "nodes": nodes})
	if err := os.WriteFile(dir+"/genesis.json", gj, 0o644); err != nil {
		panic(err)
	}
	cfg := fmt.Sprintf("[node]\nsigner-key = \"%s\"\nconsensus-only = true\nmemory-cache-size = 16\ncache-ttl = 7200\n[network]\nlistener = \"127.0.0.1:7239\"\n", signer0.PrivateSpendKey.String())
	if err := os.WriteFile(dir+"/config.toml", []byte(cfg), 0o644); err != nil {
		panic(err)
	}
	custom, err := config.Initialize(dir + "/config.toml")
	if err != nil {
		panic(err)
	}
	gns, err := common.ReadGenesis(dir + "/genesis.json")
	if err != nil {
		panic(err)
	}
	cache, err := ristretto.NewCache(&ristretto.Config[[]byte, any]{NumCounters: 1e5, MaxCost: 1 << 24, BufferItems: 64})
	if err != nil {
		panic(err)
	}
	store, err := storage.NewBadgerStore(custom, dir)
	if err != nil {
		panic(err)
	}
	node, err := kernel.SetupNode(custom, store, cache, gns)
	if err != nil {
		panic(err)
	}
	e := &c28env{store: store, node: node, netId: node.VerifC28NetworkId(), custodian: addr("domain", 0), gns: gns}
	e.mainnetId, err = crypto.HashFromString(config.KernelNetworkId)
	if err != nil {
		panic(err)
	}
	last, err := store.ReadLastConsensusSnapshot()
	if err != nil || last == nil {
		panic("harness: c28 no genesis consensus snapshot")
	}
	e.gSnap = last
	tx, _, err := store.ReadTransaction(last.Transactions[0])
	if err != nil || tx == nil {
		panic("harness: c28 no genesis consensus transaction")
	}
	e.gTx = tx
	ls, _ := store.LastSnapshot()
	e.topo = ls.TopologicalOrder + 1
	c28single = e
	return e
}

func c28h(b [32]byte) string { return fmt.Sprintf("%x", b[:]) }

// c28tx builds a transaction of the class named by spec `class.nonce.refs`, where refs is a
// `+`-joined list of L (sole transaction of the store's last consensus snapshot), G (genesis
// consensus transaction), X<n> (unrelated hash) or `-` for none.
func c28tx(e *c28env, spec string) *common.VersionedTransaction {
	if strings.HasPrefix(spec, "#") { // a transaction declared by `def` / `defg` (c28_vst.go)
		tx := c28defs[spec]
		if tx == nil {
			panic("harness: c28 undeclared transaction " + spec)
		}
		return tx
	}
	p := strings.Split(spec, ".")
	if len(p) != 3 {
		panic("harness: c28 tx spec " + spec)
	}
	class, nonce := p[0], p[1]
	h := func(tag string) crypto.Hash { return crypto.Blake3Hash([]byte("c28" + tag + nonce + class)) }
	tx := common.NewTransactionV5(common.XINAssetId)
	in := &common.Input{Hash: h("in"), Index: 0}
	out := &common.Output{Type: common.OutputTypeScript, Amount: common.NewInteger(1), Script: common.NewThresholdScript(1)}
	k := crypto.Key(h("key"))
	out.Keys = []*crypto.Key{&k}
	out.Mask = crypto.Key(h("mask"))
	tx.Inputs = []*common.Input{in}
	tx.Outputs = []*common.Output{out}
	mint := &common.MintData{Group: "UNIVERSAL", Batch: 1, Amount: common.NewInteger(1)}
	second := &common.Output{Type: common.OutputTypeScript, Amount: common.NewInteger(1), Script: common.NewThresholdScript(1), Keys: out.Keys, Mask: out.Mask}
	switch class {
	case "script":
	case "deposit":
		in.Deposit = &common.DepositData{Chain: h("chain"), AssetKey: "k", Transaction: "t" + nonce, Index: 0, Amount: common.NewInteger(1)}
	case "wsubmit":
		out.Type = common.OutputTypeWithdrawalSubmit
		out.Withdrawal = &common.WithdrawalData{Address: "a", Tag: ""}
	case "wclaim":
		out.Type = common.OutputTypeWithdrawalClaim
	case "mint":
		in.Mint = mint
	case "pledge":
		out.Type = common.OutputTypeNodePledge
	case "accept":
		out.Type = common.OutputTypeNodeAccept
	case "remove":
		out.Type = common.OutputTypeNodeRemove
	case "cancel":
		out.Type = common.OutputTypeNodeCancel
	case "custodian":
		out.Type = common.OutputTypeCustodianUpdateNodes
	case "slash":
		out.Type = common.OutputTypeCustodianSlashNodes
	case "genesis":
		in.Genesis = []byte("genesis" + nonce)
	case "unknown": // an output type outside every list
		out.Type = 0x7f
	case "pledge2": // node output second: TransactionType says pledge, Outputs[0] is a script
		second.Type = common.OutputTypeNodePledge
		tx.Outputs = []*common.Output{out, second}
	case "mint2": // mint input second
		tx.Inputs = []*common.Input{in, {Mint: mint}}
	case "noout":
		in.Mint = mint
		tx.Outputs = nil
	case "vmint", "vdeposit": // transactions that pass tx.Validate (c28_vst.go)
		return c28validTx(e, class, nonce, p[2])
	default:
		panic("harness: c28 tx class " + class)
	}
	tx.References = c28resolveRefs(e, p[2], h("nolast"))
	tx.Extra = []byte(nonce)
	return tx.AsVersioned()
}

// c28resolveRefs turns a `+`-joined reference spec into hashes: L = sole transaction of the
// store's last consensus record, G = genesis consensus transaction, X<n> = unrelated hash.
func c28resolveRefs(e *c28env, spec string, nolast crypto.Hash) []crypto.Hash {
	var refs []crypto.Hash
	if spec == "-" {
		return nil
	}
	for _, r := range strings.Split(spec, "+") {
		switch {
		case r == "L":
			// resolved from the raw records (ReadLastConsensusSnapshot may panic on a malformed tail)
			ref := nolast
			if _, snaps, _ := e.store.VerifC28ConsensusSnapshotRecords(); len(snaps) > 0 {
				var sh crypto.Hash
				copy(sh[:], snaps[len(snaps)-1])
				if last, _ := e.store.ReadSnapshot(sh); last != nil && len(last.Transactions) > 0 {
					ref = last.Transactions[0]
				}
			}
			refs = append(refs, ref)
		case r == "G":
			refs = append(refs, e.gTx.PayloadHash())
		case strings.HasPrefix(r, "X"):
			refs = append(refs, crypto.Blake3Hash([]byte("c28ref"+r)))
		default:
			panic("harness: c28 ref " + r)
		}
	}
	return refs
}

func c28desc(tx *common.VersionedTransaction) string {
	b := func(x bool) string {
		if x {
			return "1"
		}
		return "0"
	}
	out0 := "-"
	if len(tx.Outputs) > 0 {
		out0 = strconv.Itoa(int(tx.Outputs[0].Type))
	}
	ref0 := "-"
	if len(tx.References) > 0 {
		ref0 = c28h(tx.References[0])
	}
	return fmt.Sprintf("%s:%d:%s:%s:%s:%d:%s", c28h(tx.PayloadHash()), tx.TransactionType(),
		b(len(tx.Inputs) == 1 && tx.Inputs[0].Mint != nil), out0,
		b(len(tx.Inputs) == 1 && tx.Inputs[0].Genesis != nil), len(tx.References), ref0)
}

// c28ts resolves `=abs`, `L+d`, `L-d` against the timestamp of the highest record
func c28ts(e *c28env, spec string) uint64 {
	if strings.HasPrefix(spec, "=") {
		v, err := strconv.ParseUint(spec[1:], 10, 64)
		if err != nil {
			panic("harness: c28 ts " + spec)
		}
		return v
	}
	tss, _, _ := e.store.VerifC28ConsensusSnapshotRecords()
	base := e.gSnap.Timestamp
	if len(tss) > 0 {
		base = tss[len(tss)-1]
	}
	d, err := strconv.ParseUint(spec[2:], 10, 64)
	if err != nil || len(spec) < 3 {
		panic("harness: c28 ts " + spec)
	}
	if spec[:2] == "L+" {
		return base + d
	}
	return base - d
}

func c28dump(e *c28env) string {
	tss, snaps, vals := e.store.VerifC28ConsensusSnapshotRecords()
	if len(tss) == 0 {
		return "recs=-"
	}
	var parts []string
	for i := range tss {
		v := "-"
		if len(vals[i]) >= 4 {
			v = fmt.Sprintf("%x", vals[i][:4])
		} else if len(vals[i]) > 0 {
			v = "short"
		}
		parts = append(parts, fmt.Sprintf("%d:%x:%s", tss[i], snaps[i][:4], v))
	}
	return "recs=" + strings.Join(parts, ",")
}

// chain check on the real records: every record but the last names the sole transaction of
// the next record's snapshot, timestamps strictly increase, the last value is empty.
func c28chainOK(e *c28env) (bool, string) {
	tss, snaps, vals := e.store.VerifC28ConsensusSnapshotRecords()
	for i := range tss {
		var h crypto.Hash
		copy(h[:], snaps[i])
		s, err := e.store.ReadSnapshot(h)
		if err != nil || s == nil {
			return false, fmt.Sprintf("record %d has no snapshot body (%v)", i, err)
		}
		if len(s.Transactions) != 1 {
			return false, fmt.Sprintf("record %d snapshot has %d transactions", i, len(s.Transactions))
		}
		if s.Timestamp != tss[i] {
			return false, fmt.Sprintf("record %d timestamp differs from its snapshot", i)
		}
		if i > 0 {
			if tss[i-1] >= tss[i] {
				return false, fmt.Sprintf("record %d timestamp not later than record %d", i, i-1)
			}
			if string(vals[i-1]) != string(s.Transactions[0][:]) {
				return false, fmt.Sprintf("record %d does not point to the transaction of record %d", i-1, i)
			}
		}
		if i == len(tss)-1 && len(vals[i]) != 0 {
			return false, "last record is closed"
		}
	}
	return true, ""
}

func c28snap(e *c28env, self bool, round, ts uint64, txs []crypto.Hash) *common.Snapshot {
	s := &common.Snapshot{Version: common.SnapshotVersionCommonEncoding, RoundNumber: round, Timestamp: ts, Transactions: txs}
	if self {
		s.NodeId = e.node.IdForNetwork
	} else {
		s.NodeId = crypto.Blake3Hash([]byte("c28-other-node"))
	}
	if round > 0 {
		s.References = &common.RoundLink{Self: crypto.Blake3Hash([]byte("c28-self")), External: crypto.Blake3Hash([]byte("c28-external"))}
	}
	s.Hash = s.PayloadHash()
	return s
}

func c28decision(f func() error) string {
	out, _, _ := Catch(func() string {
		if err := f(); err != nil {
			return "reject"
		}
		return "accept"
	})
	return out
}

func c28writeBody(e *c28env, s *common.Snapshot) {
	old, _ := e.store.ReadSnapshot(s.PayloadHash())
	if old != nil {
		return
	}
	err := e.store.VerifC28WriteSnapshotRecord(&common.SnapshotWithTopologicalOrder{Snapshot: s, TopologicalOrder: e.topo})
	if err != nil {
		panic(err)
	}
	e.topo++
}

func c28exec(st *State, line string) Result {
	e := c28setup(st)
	if i := strings.Index(line, " |"); i >= 0 {
		line = line[:i]
	}
	f := strings.Fields(line)
	res := Result{Tags: []string{f[0]}}
	setMode := func(m bool) {
		e.mainnet = m
		if m {
			e.node.VerifC28SetNetworkId(e.mainnetId)
		} else {
			e.node.VerifC28SetNetworkId(e.netId)
		}
	}
	consensusTypes := map[uint8]bool{common.TransactionTypeMint: true, common.TransactionTypeNodePledge: true,
		common.TransactionTypeNodeCancel: true, common.TransactionTypeNodeAccept: true, common.TransactionTypeNodeRemove: true,
		common.TransactionTypeCustodianUpdateNodes: true, common.TransactionTypeCustodianSlashNodes: true}
	switch f[0] {
	case "reset":
		setMode(false)
		if _, err := e.store.RemoveGraphEntries("CONSENSUSSNAPSHOT"); err != nil {
			panic(err)
		}
		res.Out, res.LeanIn = "ok", "reset"
		c28defs = map[string]*common.VersionedTransaction{}
	case "mode":
		setMode(f[1] == "1")
		res.Out = "ok"
		res.LeanIn = fmt.Sprintf("%s | %d", line, uint64(kernel.VerifC28MainnetConsensusReferenceForkAt))
	case "clear":
		if e.mainnet {
			res.Out = "bad-op"
		} else {
			if _, err := e.store.RemoveGraphEntries("CONSENSUSSNAPSHOT"); err != nil {
				panic(err)
			}
			res.Out = "ok"
		}
		res.LeanIn = line
	case "genesis":
		out, _, _ := Catch(func() string {
			if err := e.store.WriteConsensusSnapshot(e.gSnap, e.gTx, nil); err != nil {
				return "error"
			}
			return "ok"
		})
		res.Out = out + " " + c28dump(e)
		res.LeanIn = fmt.Sprintf("genesis | %d %s %s", e.gSnap.Timestamp, c28h(e.gSnap.PayloadHash()), c28desc(e.gTx))
	case "ksnap": // ksnap fin self round ts k spec…   (spec suffix `!` = body not found)
		fin, self := f[1] == "1", f[2] == "1"
		round, _ := strconv.ParseUint(f[3], 10, 64)
		ts := c28ts(e, f[4])
		k, _ := strconv.Atoi(f[5])
		if len(f) != 6+k {
			panic("harness: c28 ksnap arity")
		}
		var hashes []crypto.Hash
		found := map[crypto.Hash]*common.VersionedTransaction{}
		var foundList []*common.VersionedTransaction
		for _, spec := range f[6:] {
			missing := strings.HasSuffix(spec, "!")
			tx := c28tx(e, strings.TrimSuffix(spec, "!"))
			hashes = append(hashes, tx.PayloadHash())
			if !missing {
				if _, dup := found[tx.PayloadHash()]; !dup {
					foundList = append(foundList, tx)
				}
				found[tx.PayloadHash()] = tx
			}
		}
		s := c28snap(e, self, round, ts, hashes)
		kd := c28decision(func() error { return e.node.VerifC28ValidateKernelSnapshot(s, found, fin) })
		bits := ""
		var descs, hs []string
		allBatchable := true
		for _, tx := range foundList {
			if tx.IsSnapshotBatchable() {
				bits += "1"
			} else {
				bits += "0"
				allBatchable = false
			}
			descs = append(descs, c28desc(tx))
			res.Tags = append(res.Tags, fmt.Sprintf("type-%d", tx.TransactionType()))
		}
		for _, h := range hashes {
			hs = append(hs, c28h(h))
		}
		tv := kd // answer of the per-type validator stage, read by the model only when it reaches that stage
		res.Out = fmt.Sprintf("k=%s b=%s", kd, bits)
		res.LeanIn = fmt.Sprintf("%s | %d %s %s %d %s %s", line, ts, c28h(s.PayloadHash()), tv, len(hs), strings.Join(hs, " "), strings.Join(descs, " "))
		res.LeanIn = strings.Join(strings.Fields(res.LeanIn), " ")
		res.Tags = append(res.Tags, "ksnap/"+kd)
		if len(hashes) > 1 {
			res.Tags = append(res.Tags, "ksnap/multi")
			// property: a multi-transaction snapshot that passes holds only batchable classes
			if kd == "accept" && !allBatchable {
				res.PropKey, res.PropDesc = "C28:multi-tx-non-batchable", "accepted snapshot with more than one transaction holds a non-batchable transaction: "+line
			}
			for _, tx := range foundList {
				if kd == "accept" && consensusTypes[tx.TransactionType()] {
					res.PropKey, res.PropDesc = "C28:consensus-not-alone", "consensus-class transaction accepted next to others: "+line
				}
			}
		} else if len(hashes) == 1 && len(foundList) == 1 && consensusTypes[foundList[0].TransactionType()] &&
			!(fin && e.mainnet && ts < kernel.VerifC28MainnetConsensusReferenceForkAt) {
			// glue: whenever the kernel validator accepts a consensus operation, the reference rule accepted it
			rd := c28decision(func() error { return e.node.VerifC28ValidateConsensusTransactionReferences(s, foundList[0]) })
			if kd == "accept" && rd != "accept" {
				res.PropKey, res.PropDesc = "C28:kernel-accepts-without-reference", "validateKernelSnapshot accepted while the reference rule says "+rd+": "+line
			}
			res.Tags = append(res.Tags, "ksnap/single-consensus/refs-"+rd)
		}
		res.Nontrivial = len(hashes) > 1 || kd == "accept"
	case "cref": // cref ts spec
		ts := c28ts(e, f[1])
		tx := c28tx(e, f[2])
		s := c28snap(e, true, 1, ts, []crypto.Hash{tx.PayloadHash()})
		rd := c28decision(func() error { return e.node.VerifC28ValidateConsensusTransactionReferences(s, tx) })
		res.Out = "r=" + rd
		res.LeanIn = fmt.Sprintf("%s | %d %s", line, ts, c28desc(tx))
		res.Tags = append(res.Tags, "cref/"+rd, fmt.Sprintf("type-%d", tx.TransactionType()))
		res.Nontrivial = consensusTypes[tx.TransactionType()]
	case "cwrite": // cwrite ts body shape spec — the raw storage writer, assertions included
		ts := c28ts(e, f[1])
		tx := c28tx(e, f[4])
		other := crypto.Blake3Hash([]byte("c28-other-tx" + f[4]))
		var txs []crypto.Hash
		switch f[3] {
		case "S":
			txs = []crypto.Hash{tx.PayloadHash()}
		case "D":
			txs = []crypto.Hash{other}
		case "M":
			txs = []crypto.Hash{tx.PayloadHash(), other}
		default: // an empty snapshot cannot be encoded (the payload encoder panics)
			panic("harness: c28 cwrite shape")
		}
		s := c28snap(e, true, 1, ts, txs)
		if f[2] == "1" {
			c28writeBody(e, s)
		}
		out, _, _ := Catch(func() string {
			if err := e.store.WriteConsensusSnapshot(s, tx, nil); err != nil {
				return "error"
			}
			return "ok"
		})
		res.Out = out + " " + c28dump(e)
		res.LeanIn = fmt.Sprintf("%s | %d %s %s %s", line, ts, c28h(s.PayloadHash()), c28h(other), c28desc(tx))
		res.Tags = append(res.Tags, "cwrite/"+out)
		res.Nontrivial = out == "ok"
		st.V["raw"] = true // the chain may now be malformed on purpose
	case "cop": // cop ts spec — one operation that passed validation reaches finalization
		ts := c28ts(e, f[1])
		tx := c28tx(e, f[2])
		s := c28snap(e, true, 1, ts, []crypto.Hash{tx.PayloadHash()})
		_, _, valsB := e.store.VerifC28ConsensusSnapshotRecords()
		rd := c28decision(func() error { return e.node.VerifC28ValidateConsensusTransactionReferences(s, tx) })
		w := "-"
		if rd == "accept" {
			c28writeBody(e, s)
			if consensusTypes[tx.TransactionType()] {
				w, _, _ = Catch(func() string {
					if err := e.node.WriteConsensusSnapshotWithHack(s, tx); err != nil {
						return "error"
					}
					return "ok"
				})
			}
		}
		res.Out = fmt.Sprintf("r=%s w=%s %s", rd, w, c28dump(e))
		res.LeanIn = fmt.Sprintf("%s | %d %s %s", line, ts, c28h(s.PayloadHash()), c28desc(tx))
		res.Tags = append(res.Tags, "cop/r="+rd+"/w="+w, fmt.Sprintf("type-%d", tx.TransactionType()))
		_, _, valsA := e.store.VerifC28ConsensusSnapshotRecords()
		if len(valsA) > len(valsB) {
			res.Tags = append(res.Tags, "cop/extended-chain")
			res.Nontrivial = true
		}
		// property: after validated operations only, the records form one chain and the
		// writer's assertions do not fire. Shapes that transaction validation excludes
		// (Outputs[0] not the consensus output) are outside the statement.
		raw, _ := st.V["raw"].(bool)
		wellShaped := !strings.HasPrefix(f[2], "pledge2.") && !strings.HasPrefix(f[2], "mint2.") && !strings.HasPrefix(f[2], "noout.")
		if !raw && wellShaped {
			if w == "panic" {
				res.PropKey, res.PropDesc = "C28:write-assert-fired", "reference rule accepted, WriteConsensusSnapshotWithHack panicked: "+line
			} else if ok, why := c28chainOK(e); !ok {
				res.PropKey, res.PropDesc = "C28:chain-broken", why+" after "+line
			}
		} else if w == "panic" {
			res.Tags = append(res.Tags, "obs:write-assert-on-excluded-shape")
			st.V["raw"] = true
		}
	default:
		panic("harness: c28 unknown op " + f[0])
	}
	if f[0] == "clear" {
		st.V["raw"] = true
	}
	return res
}

var c28classes = []string{"script", "deposit", "wsubmit", "wclaim", "mint", "pledge", "accept", "remove", "cancel", "custodian", "slash", "genesis", "unknown"}
var c28batchable = []string{"script", "deposit", "wsubmit", "wclaim"}
var c28consensus = []string{"mint", "pledge", "accept", "remove", "cancel", "custodian", "slash"}

func c28genRefs(r *Rand) string {
	switch r.Intn(10) {
	case 0:
		return "-"
	case 1:
		return fmt.Sprintf("X%d", r.Intn(50))
	case 2:
		return "G"
	case 3:
		return fmt.Sprintf("X%d+L", r.Intn(50)) // right hash in the wrong position
	case 4:
		return fmt.Sprintf("L+X%d", r.Intn(50))
	default:
		return "L"
	}
}

func c28genTs(r *Rand) string {
	switch r.Intn(10) {
	case 0:
		return "L+0"
	case 1:
		return "L-1"
	case 2:
		return fmt.Sprintf("L-%d", r.Intn(1_000_000))
	case 3:
		return "L+1"
	case 4:
		return fmt.Sprintf("=%d", r.U64()>>uint(r.Intn(64)))
	default:
		return fmt.Sprintf("L+%d", 1+r.Intn(1_000_000_000))
	}
}

func c28gen(r *Rand, i int, tier string) []string {
	lines := []string{"reset", "genesis"}
	nonce := 0
	spec := func(class, refs string) string {
		nonce++
		return fmt.Sprintf("%s.%dn%d.%s", class, i, nonce, refs)
	}
	if r.Chance(1, 3) { // ---- snapshot batches through the kernel validator
		if r.Chance(1, 4) {
			lines = append(lines, "mode 1")
		}
		n := r.Range(3, 10)
		for j := 0; j < n; j++ {
			var k int
			switch r.Intn(6) {
			case 0:
				k = 1
			case 1:
				k = 2
			case 2:
				k = 255
				if tier != "thorough" {
					k = r.Range(100, 255)
				}
			default:
				k = r.Range(2, 12)
			}
			var specs []string
			allBatch := r.Chance(1, 2)
			for t := 0; t < k; t++ {
				class := Pick(r, c28batchable)
				if !allBatch && r.Chance(1, 3) || k == 1 {
					class = Pick(r, c28classes)
				}
				if k == 1 && r.Chance(1, 10) {
					class = Pick(r, []string{"pledge2", "mint2"})
				}
				s := spec(class, c28genRefs(r))
				if k > 1 && r.Chance(1, 12) {
					s += "!"
				}
				specs = append(specs, s)
			}
			if k > 1 && !allBatch && r.Chance(1, 2) { // exactly one non-batchable, anywhere
				specs[r.Intn(k)] = spec(Pick(r, c28consensus), "L")
			}
			fin, self, round := r.Intn(2), r.Intn(2), r.Intn(3)
			if k > 1 && round == 0 {
				round = 1 // a round-0 snapshot with several transactions cannot be encoded
			}
			ts := c28genTs(r)
			if r.Chance(1, 5) { // around the mainnet fork
				ts = fmt.Sprintf("=%d", uint64(1736208000000000000)+uint64(r.Range(-1, 1)))
			}
			lines = append(lines, fmt.Sprintf("ksnap %d %d %d %s %d %s", fin, self, round, ts, k, strings.Join(specs, " ")))
		}
		return lines
	}
	// ---- sequences of consensus operations
	n := r.Range(4, 16)
	if tier == "thorough" {
		n = r.Range(4, 40)
	}
	raw := r.Chance(1, 4)
	if r.Chance(1, 6) {
		lines = append(lines, "mode 1")
	}
	for j := 0; j < n; j++ {
		class := Pick(r, c28consensus)
		if r.Chance(1, 6) {
			class = Pick(r, c28classes)
		}
		if r.Chance(1, 30) {
			class = Pick(r, []string{"pledge2", "mint2", "noout"})
		}
		refs, ts := c28genRefs(r), c28genTs(r)
		if r.Chance(2, 3) {
			refs = "L"
			if r.Chance(4, 5) {
				ts = fmt.Sprintf("L+%d", 1+r.Intn(1000))
			}
		}
		switch {
		case raw && r.Chance(1, 3):
			body := 1
			if r.Chance(1, 6) {
				body = 0
			}
			lines = append(lines, fmt.Sprintf("cwrite %s %d %s %s", ts, body, Pick(r, []string{"S", "S", "S", "S", "D", "M"}), spec(class, refs)))
		case raw && r.Chance(1, 15) && len(lines) == 2:
			lines = append(lines, "clear")
		case r.Chance(1, 4):
			lines = append(lines, fmt.Sprintf("cref %s %s", ts, spec(class, refs)))
		case r.Chance(1, 6):
			lines = append(lines, fmt.Sprintf("ksnap %d %d %d %s 1 %s", r.Intn(2), r.Intn(2), r.Intn(2), ts, spec(class, refs)))
		default:
			s := spec(class, refs)
			lines = append(lines, fmt.Sprintf("cop %s %s", ts, s))
			if r.Chance(1, 8) { // the same operation again (replay through another snapshot)
				lines = append(lines, fmt.Sprintf("cop %s %s", c28genTs(r), s))
			}
		}
	}
	return lines
}

func init() {
	Register(&Subsystem{
		Name: "consensuschain",
		Rule: "1/3 of the cases: 3..10 snapshots of 1..255 transactions mixing all 13+2 classes through validateKernelSnapshot (finalized/self/round/mainnet flags, bodies missing, timestamps around the fork); 2/3: 4..16 (thorough 4..40) consensus operations with right/wrong/missing/misplaced references and timestamps <,=,> the last, through the reference validator, WriteConsensusSnapshotWithHack and the raw WriteConsensusSnapshot; non-trivial = multi-transaction snapshot, accepted snapshot, reference decision on a consensus class, or a write that extended the chain",
		Gen:  c28gen,
		Exec: c28exec,
		Corpus: [][]string{
			{"reset", "genesis", "cop L+5 pledge.a1.L", "cop L+5 accept.a2.L", "cop L+0 mint.a3.L", "cop L-1 mint.a3.L", "cop L+1 mint.a4.G",
				"cop L+1 mint.a5.-", "cop L+1 mint.a6.X1+L", "cop L+7 mint.a7.L+X1", "cop L+1 mint.a7.L+X1", "cop L-3 mint.a7.L+X1", "cop L+2 script.a8.-",
				"cref L+1 slash.a9.L", "cref L+0 slash.a9.L", "cref L+1 custodian.a10.X3", "ksnap 1 1 1 L+1 1 slash.a11.L", "ksnap 0 0 0 L+1 1 script.a12.-",
				"ksnap 0 0 0 L+1 1 accept.a13.X4", "ksnap 0 1 1 L+1 2 script.a14.- pledge.a15.L", "ksnap 0 1 1 L+1 2 script.a14.- pledge.a15.L!",
"ksnap 0 1 1 L+1 3 script.a16.- deposit.a17.- wclaim.a18.-"},
			{"reset", "genesis", "cwrite L+1 1 S pledge.b1.L", "cwrite L+1 0 S accept.b2.L", "cref L+1 mint.b3.L", "cwrite L+1 1 S script.b4.L",
				"cwrite L+1 1 M mint.b5.L", "cwrite L+1 1 D mint.b5.L", "cwrite L+0 1 S mint.b6.L", "cwrite L+1 1 S mint.b7.X1",
				"cwrite L+1 1 S mint.b8.-", "cwrite L+1 1 S pledge2.b9.L", "cwrite L+1 1 S mint2.b10.L", "cwrite L+1 1 S noout.b11.L", "cwrite L+1 1 S genesis.b12.-"},
			{"reset", "cref =5 mint.c1.X1", "cop =5 mint.c1.X1", "cref =5 script.c2.-", "genesis", "mode 1", "ksnap 1 1 1 =1736207999999999999 1 mint.c3.X1",
				"ksnap 1 1 1 =1736208000000000000 1 mint.c3.X1", "ksnap 0 1 1 =1736207999999999999 1 mint.c3.X1", "mode 0", "ksnap 1 1 1 =1736207999999999999 1 mint.c3.X1",
				"cwrite =18446744073709551615 1 S mint.c4.L", "cref L+1 mint.c5.L", "cop L+1 mint.c5.L"},
		},
	})
}
