package main

// C14 — aggregate transaction signatures: the real crypto.AggregateSign / AggregateVerify
// (and, through hooks, the transcript, the per-signer coefficients and the challenge hash)
// against lean/Mixin/Model/AggSig.lean. Keys are named by discrete logs; hash values are
// taken from the real code and handed to the model.
//
// Property mode, independent of the model: (a) a signature produced by AggregateSign verifies
// for the same (keys, signers, message); (b) empty / unsorted / duplicated / out-of-range signer
// lists are refused by both functions; (c) TESTING ONLY, not backed by a theorem: a signature
// accepted by AggregateVerify must be the one produced for exactly that key vector, signer set
// and message (changed vector / set / message, subset signing, rogue-key cancellation).

import (
	"crypto/sha512"
	"fmt"
	"math/big"
	"sort"
	"strings"

	"github.com/MixinNetwork/mixin/crypto"
)

type c14AggSigned struct {
	keys    string // the selected (index, key) pairs: what the transcript binds (unselected entries play no role)
	signers string
	msg     string
}

type c14AggState struct {
	pubs     []*crypto.Key
	pubDl    []*big.Int
	signed   map[string]c14AggSigned // "R S" -> what it was produced for
	nonces   map[string]string       // R -> challenge it was used with
	mismatch string                  // the real transcript/coefficients/key/challenge differ from the documented scheme
	panicked bool                    // the transcript/coefficient code panicked in the last oracle call
}

func c14AggGet(st *State) *c14AggState {
	if v, ok := st.V["agg"].(*c14AggState); ok {
		return v
	}
	v := &c14AggState{signed: map[string]c14AggSigned{}, nonces: map[string]string{}}
	st.V["agg"] = v
	return v
}

func c14ParseIntList(s string) []int {
	if s == "-" {
		return nil
	}
	var out []int
	for _, p := range strings.Split(s, ",") {
		var v int
		if _, err := fmt.Sscan(p, &v); err != nil {
			panic("harness: bad int list " + s)
		}
		out = append(out, v)
	}
	return out
}

func c14JoinBig(xs []*big.Int) string {
	if len(xs) == 0 {
		return "-"
	}
	var ss []string
	for _, x := range xs {
		ss = append(ss, x.String())
	}
	return strings.Join(ss, ",")
}

// signer list well-formed for this vector: non-empty, strictly increasing, in range, decodable keys
func (as *c14AggState) wellFormed(signers []int) bool {
	if len(signers) == 0 {
		return false
	}
	prev := -1
	for _, i := range signers {
		if i <= prev || i >= len(as.pubs) || as.pubDl[i] == nil || as.pubDl[i].Sign() == 0 {
			return false
		}
		prev = i
	}
	return true
}

// selected (index, key) pairs of a well-formed signer list
func (as *c14AggState) selectedText(signers []int) string {
	var sb strings.Builder
	for _, i := range signers {
		if i >= 0 && i < len(as.pubs) && as.pubs[i] != nil {
			fmt.Fprintf(&sb, "%d:%x ", i, as.pubs[i][:])
		}
	}
	return sb.String()
}

// hook: what the real transcript / coefficient / weighted-key code returns (ok=false: refused)
func (as *c14AggState) hook(signers []int) (A crypto.Key, w []*big.Int, transcript []byte, ok bool) {
	defer func() {
		if e := recover(); e != nil {
			as.panicked = true
			ok = false
		}
	}()
	key, coeffs, tr, err := crypto.VerifC14AggregateWeighted(as.pubs, signers)
	if err != nil {
		return crypto.Key{}, nil, nil, false
	}
	for _, c := range coeffs {
		w = append(w, c12BytesScalar(c[:]))
	}
	return key, w, tr, true
}

// c14HashScalar: SHA-512 of the concatenation, read little endian, reduced mod ℓ (SetUniformBytes)
func c14HashScalar(parts ...[]byte) *big.Int {
	h := sha512.New()
	for _, p := range parts {
		h.Write(p)
	}
	return c12ModL(c12BytesScalar(h.Sum(nil)))
}

func c14Be32(n int) []byte { return []byte{byte(n >> 24), byte(n >> 16), byte(n >> 8), byte(n)} }

// oracles computes, INDEPENDENTLY of crypto/aggregation.go, what the documented scheme prescribes
// for a well-formed signer list: transcript = count ‖ (index ‖ key)*, wᵢ = H(domain ‖ transcript ‖
// index ‖ key), A = Σ wᵢ•Aᵢ (through the discrete logs). The values of the real code (hook) are
// compared with them; a difference is recorded in as.mismatch and reported by the caller.
func (as *c14AggState) oracles(signers []int) (A crypto.Key, w []*big.Int, transcript []byte, ok bool) {
	as.mismatch = ""
	if !as.wellFormed(signers) {
		return crypto.Key{}, nil, nil, false
	}
	domain, _ := crypto.VerifC14Domains()
	transcript = append(transcript, c14Be32(len(signers))...)
	for _, i := range signers {
		transcript = append(transcript, c14Be32(i)...)
		transcript = append(transcript, as.pubs[i][:]...)
	}
	a := new(big.Int)
	for _, i := range signers {
		wi := c14HashScalar([]byte(domain), transcript, c14Be32(i), as.pubs[i][:])
		w = append(w, wi)
		a.Add(a, new(big.Int).Mul(wi, as.pubDl[i]))
	}
	A = c12PointOf(a)
	hA, hw, htr, hok := as.hook(signers)
	switch {
	case !hok:
		as.mismatch = "the real code refuses a well-formed signer list"
	case string(htr) != string(transcript):
		as.mismatch = "transcript is not count ‖ (index ‖ key)*"
	case c14JoinBig(hw) != c14JoinBig(w):
		as.mismatch = "coefficients are not H(domain ‖ transcript ‖ index ‖ key)"
	case hA != A:
		as.mismatch = "aggregate key is not Σ wᵢ•Aᵢ"
	}
	return A, w, transcript, true
}

// challenge H(R ‖ A ‖ message), computed here and compared with the real aggregateChallenge
func (as *c14AggState) challenge(R []byte, A crypto.Key, msg crypto.Hash) *big.Int {
	x := c14HashScalar(R, A[:], msg[:])
	xb, err := crypto.VerifC14AggregateChallenge(R, A[:], msg)
	if err != nil || c12BytesScalar(xb[:]).Cmp(x) != 0 {
		as.mismatch = "challenge is not H(R ‖ A ‖ message)"
	}
	return x
}

func (as *c14AggState) reportMismatch(res *Result) {
	if as.mismatch != "" && res.PropKey == "" {
		res.PropKey, res.PropDesc = "C14:weights-not-from-transcript", as.mismatch
	}
}

func c14ExecAggSig(st *State, line string) Result {
	t := strings.Fields(line)
	as := c14AggGet(st)
	res := Result{Tags: []string{t[0]}}
	switch t[0] {
	case "reset":
		res.Out = "ok"
	case "pub": // dlog:hex | x:hex | n
		as.pubs, as.pubDl = nil, nil
		for _, tok := range t[1:] {
			if tok == "n" {
				as.pubs, as.pubDl = append(as.pubs, nil), append(as.pubDl, nil)
				continue
			}
			p := strings.SplitN(tok, ":", 2)
			var k crypto.Key
			copy(k[:], UnHex(p[1]))
			var d *big.Int
			if p[0] != "x" {
				d = c12ModL(c12ParseBigTok(p[0]))
				if c12PointOf(d) != k {
					panic("harness: key token bytes do not match the discrete log")
				}
			}
			as.pubs, as.pubDl = append(as.pubs, &k), append(as.pubDl, d)
		}
		res.Out = "ok"
	case "transcript":
		signers := c14ParseIntList(t[1])
		as.panicked = false
		_, _, tr, ok := as.hook(signers)
		res.Out = "err"
		if ok {
			res.Out = "ok " + Hex(tr)
			res.Nontrivial = true
			// independent reconstruction: 4-byte count, then 4-byte index and 32 key bytes per signer
			var want []byte
			be := func(n int) []byte { return []byte{byte(n >> 24), byte(n >> 16), byte(n >> 8), byte(n)} }
			want = append(want, be(len(signers))...)
			for _, i := range signers {
				want = append(want, be(i)...)
				if i >= 0 && i < len(as.pubs) && as.pubs[i] != nil {
					want = append(want, as.pubs[i][:]...)
				}
			}
			if string(want) != string(tr) {
				res.PropKey, res.PropDesc = "C14:transcript-format", "transcript is not count ‖ (index ‖ key)*"
			}
		}
		if ok != as.wellFormed(signers) {
			res.PropKey, res.PropDesc = "C14:malformed-signers", fmt.Sprintf("signer list %s accepted=%v", c14Short(t[1]), ok)
		}
		if ok {
			as.oracles(signers)
			as.reportMismatch(&res)
		}
		if as.panicked {
			res.Out = "panic"
			res.PropKey, res.PropDesc = "C14:panic", "collectAggregateSigners panicked on signer list "+t[1]
		}
	case "sign": // sign <signers> <privs> <seed hex> <msg> [w z x]
		signers := c14ParseIntList(t[1])
		var privs []*crypto.Key
		var ys []*big.Int
		if t[2] != "-" {
			for _, p := range strings.Split(t[2], ",") {
				if p == "n" {
					privs, ys = append(privs, nil), append(ys, nil)
					continue
				}
				y := c12ParseBigTok(p)
				k := crypto.Key(c12ScalarBytes(y))
				privs, ys = append(privs, &k), append(ys, y)
			}
		}
		seed := UnHex(t[3])
		var msg crypto.Hash
		copy(msg[:], UnHex(t[4]))
		var sig *crypto.Signature
		out, _, _ := Catch(func() string {
			var err error
			sig, err = crypto.AggregateSign(privs, as.pubs, signers, seed, msg)
			if err != nil {
				return "err"
			}
			return "ok"
		})
		wTok, zTok, xTok := "-", "0", "0"
		res.Out = out
		if out == "panic" {
			res.PropKey, res.PropDesc = "C14:panic", "AggregateSign panicked"
		}
		if out == "ok" && !as.wellFormed(signers) {
			res.Out = "ok unknown " + c12BytesScalar(sig[32:]).String()
			res.PropKey, res.PropDesc = "C14:malformed-signers", "AggregateSign accepted signer list "+c14Short(t[1])
		} else if out == "ok" && len(ys) != len(signers) {
			res.Out = "ok unknown " + c12BytesScalar(sig[32:]).String()
			res.PropKey, res.PropDesc = "C14:foreign-key-signed", "AggregateSign accepted a private key list of another length"
		} else if out == "ok" {
			A, w, _, _ := as.oracles(signers)
			x := as.challenge(sig[:32], A, msg)
			S := c12BytesScalar(sig[32:])
			// nonce sum recovered from the private keys: z = S − x·Σ wᵢ yᵢ ; R must be z•B
			dot := new(big.Int)
			for i, y := range ys {
				if y != nil {
					dot.Add(dot, new(big.Int).Mul(w[i], y))
				}
			}
			z := c12ModL(new(big.Int).Sub(S, new(big.Int).Mul(x, c12ModL(dot))))
			zs := "unknown"
			if p := c12PointOf(z); string(p[:]) == string(sig[:32]) {
				zs = z.String()
			}
			unknownR := zs == "unknown"
			if unknownR { // keep the bytes so that the signature can still be offered to AggregateVerify
				zs = "x" + Hex(sig[:32])
			}
			wTok, zTok, xTok = c14JoinBig(w), z.String(), x.String()
			res.Out = fmt.Sprintf("ok %s %s", zs, S)
			res.Nontrivial = true
			// (a) what was signed verifies
			if err := crypto.AggregateVerify(sig, as.pubs, signers, msg); err != nil {
				res.PropKey, res.PropDesc = "C14:own-signature-rejected", "AggregateVerify refuses the signature AggregateSign just produced"
			}
			if unknownR {
				res.PropKey, res.PropDesc = "C14:signature-equation", "S − x·Σwᵢyᵢ is not the discrete log of R (w, x as documented: transcript-bound coefficients)"
			}
			as.reportMismatch(&res)
			// the same nonce must never meet two different challenges (that would reveal Σwᵢyᵢ)
			if prev, seen := as.nonces[zs]; seen && prev != x.String() {
				res.PropKey, res.PropDesc = "C14:nonce-reuse", "AggregateSign used one nonce commitment R for two different challenges"
			}
			as.nonces[zs] = x.String()
			as.signed[fmt.Sprintf("%s %s", zs, S)] = c14AggSigned{keys: as.selectedText(signers), signers: t[1], msg: t[4]}
		}
		// subset of private keys / wrong keys must not sign
		if out == "ok" && as.wellFormed(signers) && len(ys) == len(signers) {
			for i, y := range ys {
				if y == nil || c12ModL(y).Cmp(as.pubDl[signers[i]]) != 0 {
					res.PropKey, res.PropDesc = "C14:foreign-key-signed", fmt.Sprintf("private key %d does not belong to signer %d", i, signers[i])
				}
			}
		}
		res.LeanIn = strings.Join([]string{"sign", t[1], t[2], t[3], t[4], wTok, zTok, xTok}, " ")
		res.Tags = append(res.Tags, "sign:"+out, fmt.Sprintf("sign:signers<=%d", c14SizeBucket(len(signers))))
	case "verify": // verify <signers> <R|n> <S> <msg> [w x]
		signers := c14ParseIntList(t[1])
		var msg crypto.Hash
		copy(msg[:], UnHex(t[4]))
		var sig *crypto.Signature
		var rDl *big.Int
		S := c12ParseBigTok(t[3])
		if t[2] != "n" {
			k, d := c12ParsePointTok(t[2])
			rDl = d
			sig = new(crypto.Signature)
			copy(sig[:32], k[:])
			sb := c12ScalarBytes(S)
			copy(sig[32:], sb[:])
		}
		out, _, _ := Catch(func() string {
			if crypto.AggregateVerify(sig, as.pubs, signers, msg) != nil {
				return "err"
			}
			return "ok"
		})
		res.Out = out
		if out == "panic" {
			res.PropKey, res.PropDesc = "C14:panic", "AggregateVerify panicked"
		}
		wTok, xTok := "-", "0"
		want := false
		if A, w, _, ok := as.oracles(signers); ok && sig != nil {
			x := as.challenge(sig[:32], A, msg)
			wTok, xTok = c14JoinBig(w), x.String()
			a := new(big.Int)
			for i, s := range signers {
				a.Add(a, new(big.Int).Mul(w[i], as.pubDl[s]))
			}
			want = c12DlVerify(c12ModL(a), rDl, S, x)
		}
		if (out == "ok") != want {
			res.PropKey, res.PropDesc = "C14:verify-decision", fmt.Sprintf("AggregateVerify -> %s, algebra says ok=%v", out, want)
		}
		if out == "ok" {
			res.Nontrivial = true
			if !as.wellFormed(signers) {
				res.PropKey, res.PropDesc = "C14:malformed-signers", "AggregateVerify accepted signer list "+c14Short(t[1])
			}
			// (c) testing only: bound to what was signed
			sg, known := as.signed[fmt.Sprintf("%s %s", t[2], S)]
			if !known {
				res.PropKey, res.PropDesc = "C14:forged-signature-accepted", "accepted a signature that AggregateSign never produced in this case"
			} else if sg.keys != as.selectedText(signers) || sg.signers != t[1] || sg.msg != t[4] {
				res.PropKey, res.PropDesc = "C14:signature-not-bound", fmt.Sprintf("signature for signers %s accepted for signers %s (vector changed=%v, message changed=%v)",
					sg.signers, t[1], sg.keys != as.selectedText(signers), sg.msg != t[4])
			}
		}
		as.reportMismatch(&res)
		res.LeanIn = strings.Join([]string{"verify", t[1], t[2], t[3], t[4], wTok, xTok}, " ")
		res.Tags = append(res.Tags, "verify:"+out)
	default:
		panic("harness: unknown aggsig op " + t[0])
	}
	return res
}

func c14Short(s string) string {
	if len(s) > 120 {
		return s[:60] + "…" + s[len(s)-50:]
	}
	return s
}

func c14SizeBucket(n int) int {
	for _, b := range []int{0, 1, 2, 4, 8, 16, 64, 300} {
		if n <= b {
			return b
		}
	}
	return 1 << 20
}

func c14KeyTok(d *big.Int) string {
	k := c12PointOf(d)
	return d.String() + ":" + Hex(k[:])
}

func c14IntsTok(xs []int) string {
	if len(xs) == 0 {
		return "-"
	}
	var ss []string
	for _, x := range xs {
		ss = append(ss, fmt.Sprint(x))
	}
	return strings.Join(ss, ",")
}

// ---- generator class: the same key at several indexes, tiny signer sets, cross-verification ----

// c14Subsets: all k-element subsets of 0..n-1 in lexicographic order (n ≤ 7 here)
func c14Subsets(n, k int) [][]int {
	var out [][]int
	var rec func(start int, cur []int)
	rec = func(start int, cur []int) {
		if len(cur) == k {
			out = append(out, append([]int(nil), cur...))
			return
		}
		for i := start; i < n; i++ {
			rec(i+1, append(cur, i))
		}
	}
	rec(0, nil)
	return out
}

func c14GenDupVectorCase(r *Rand) []string {
	sh := &State{V: map[string]any{}}
	var lines []string
	emit := func(l string) Result {
		lines = append(lines, l)
		return c14ExecAggSig(sh, l)
	}
	emit("reset")
	pool := make([]*big.Int, 2+r.Intn(2))
	for i := range pool {
		pool[i] = c12RandScalar(r)
	}
	n := 2 + r.Intn(5)
	which := make([]int, n)
	for i := range which {
		which[i] = r.Intn(len(pool))
	}
	which[n-1] = which[0] // at least one key occurs twice
	vec := func(w []int) string {
		toks := make([]string, len(w))
		for i, k := range w {
			toks[i] = c14KeyTok(pool[k])
		}
		return "pub " + strings.Join(toks, " ")
	}
	privsOf := func(w []int, signers []int) string {
		var ps []string
		for _, s := range signers {
			ps = append(ps, pool[w[s]].String())
		}
		return strings.Join(ps, ",")
	}
	emit(vec(which))
	msg := Hex(r.Bytes(32))
	k := Pick(r, []int{1, 1, 1, 2, 2, n})
	if k > n {
		k = n
	}
	subs := c14Subsets(n, k)
	signers := subs[r.Intn(len(subs))]
	emit("transcript " + c14IntsTok(signers))
	sres := emit(fmt.Sprintf("sign %s %s %s %s", c14IntsTok(signers), privsOf(which, signers), Hex(r.Bytes(32)), msg))
	if !strings.HasPrefix(sres.Out, "ok") {
		return lines
	}
	f := strings.Fields(sres.Out)
	R, S := f[1], f[2]
	// (when the signature does not satisfy the documented equation R is only known as bytes: the
	// cross-verifications below are still offered to the real code)
	emit(fmt.Sprintf("verify %s %s %s %s", c14IntsTok(signers), R, S, msg))
	// the same signature under every other signer set of the same size
	cnt := 0
	for _, o := range subs {
		if c14IntsTok(o) == c14IntsTok(signers) {
			continue
		}
		emit(fmt.Sprintf("verify %s %s %s %s", c14IntsTok(o), R, S, msg))
		if cnt++; cnt >= 12 {
			break
		}
	}
	// … and under permuted / shortened vectors, with the original list and with the list that follows the keys
	for q := 0; q < 3; q++ {
		perm := make([]int, n) // new position -> old position
		for i := range perm {
			perm[i] = i
		}
		switch q {
		case 0: // rotate by one
			for i := range perm {
				perm[i] = (i + 1) % n
			}
		case 1: // reverse
			for i := range perm {
				perm[i] = n - 1 - i
			}
		default: // random transposition involving a signer
			a, b := signers[r.Intn(len(signers))], r.Intn(n)
			perm[a], perm[b] = perm[b], perm[a]
		}
		w2 := make([]int, n)
		moved := map[int]int{} // old position -> new position
		for i, o := range perm {
			w2[i] = which[o]
			moved[o] = i
		}
		emit(vec(w2))
		emit(fmt.Sprintf("verify %s %s %s %s", c14IntsTok(signers), R, S, msg))
		var follow []int
		for _, s := range signers {
			follow = append(follow, moved[s])
		}
		sort.Ints(follow)
		if c14IntsTok(follow) != c14IntsTok(signers) {
			emit(fmt.Sprintf("verify %s %s %s %s", c14IntsTok(follow), R, S, msg))
		}
	}
	if signers[0] > 0 { // the vector loses its first entry, the signers keep their keys
		var shifted []int
		for _, s := range signers {
			shifted = append(shifted, s-1)
		}
		emit(vec(which[1:]))
		emit(fmt.Sprintf("verify %s %s %s %s", c14IntsTok(shifted), R, S, msg))
	}
	emit(vec(which))
	// a plain (single-key) Schnorr signature replayed as a one-signer aggregate signature
	i := r.Intn(n)
	y := pool[which[i]]
	yk := crypto.Key(c12ScalarBytes(y))
	var m crypto.Hash
	copy(m[:], UnHex(msg))
	plain := yk.Sign(m)
	pub := c12PointOf(y)
	xp := c14HashScalar(plain[:32], pub[:], m[:])
	Sp := c12BytesScalar(plain[32:])
	zp := c12ModL(new(big.Int).Sub(Sp, new(big.Int).Mul(xp, y)))
	if p := c12PointOf(zp); string(p[:]) == string(plain[:32]) {
		for j := 0; j < n; j++ {
			if which[j] == which[i] {
				emit(fmt.Sprintf("verify %d %s %s %s", j, zp, Sp, msg))
			}
		}
	}
	return lines
}

// ---- generator class: long signer lists (65..300) with exactly one defect at a chosen position ----

var c14DefectPositions = []int{1, 31, 32, 33, 63, 64, 65, 66, 127, 128, 129, 191, 192, 193, 255, 256, 257}

func c14GenLongListCase(r *Rand) []string {
	sh := &State{V: map[string]any{}}
	var lines []string
	emit := func(l string) Result {
		lines = append(lines, l)
		return c14ExecAggSig(sh, l)
	}
	emit("reset")
	n := Pick(r, []int{66, 100, 128, 130, 200, 256, 258, 300})
	privs := make([]*big.Int, n)
	toks := make([]string, n)
	for i := range privs {
		privs[i] = c12RandScalar(r)
		toks[i] = c14KeyTok(privs[i])
	}
	emit("pub " + strings.Join(toks, " "))
	// sorted distinct base list of length L
	L := 65 + r.Intn(n-64)
	if r.Chance(1, 3) {
		L = n
	}
	perm := make([]int, n)
	for i := range perm {
		perm[i] = i
	}
	for i := n - 1; i > 0; i-- {
		j := r.Intn(i + 1)
		perm[i], perm[j] = perm[j], perm[i]
	}
	base := append([]int(nil), perm[:L]...)
	sort.Ints(base)
	var pos []int
	for _, p := range c14DefectPositions {
		if p < L {
			pos = append(pos, p)
		}
	}
	pos = append(pos, L-1)
	p := Pick(r, pos)
	s := append([]int(nil), base...)
	switch r.Intn(9) {
	case 0: // no defect: a long valid list
	case 1, 2: // duplicate at position p
		s[p] = s[p-1]
	case 3, 4: // one descent at position p: the sorted list rotated
		s = append(append([]int(nil), base[L-p:]...), base[:L-p]...)
	case 5: // out of range at position p (the list ends there)
		if p < 64 {
			p = 64
		}
		s = append(append([]int(nil), base[:p]...), n+r.Intn(2))
	case 6: // a half repeated: [t₀..t_h-1, t₀..t_h-1]
		h := Pick(r, []int{32, 63, 64, 65, 128})
		if h > L {
			h = L
		}
		s = append(append([]int(nil), base[:h]...), base[:h]...)
	case 7: // the last entry of a full batch repeated: [t₀..t₆₃, t₆₃]
		h := Pick(r, []int{64, 128, 65})
		if h > L {
			h = L
		}
		s = append(append([]int(nil), base[:h]...), base[h-1])
	default: // a smaller index right after position p
		s = append(append([]int(nil), base[:p]...), base[r.Intn(p)])
	}
	var ps []string
	for _, i := range s {
		if i >= 0 && i < n {
			ps = append(ps, privs[i].String())
		} else {
			ps = append(ps, c12RandScalar(r).String())
		}
	}
	msg := Hex(r.Bytes(32))
	emit("transcript " + c14IntsTok(s))
	sres := emit(fmt.Sprintf("sign %s %s %s %s", c14IntsTok(s), strings.Join(ps, ","), Hex(r.Bytes(32)), msg))
	f := strings.Fields(sres.Out)
	if len(f) == 3 && f[0] == "ok" && f[1] != "unknown" && !strings.HasPrefix(f[1], "x") {
		emit(fmt.Sprintf("verify %s %s %s %s", c14IntsTok(s), f[1], f[2], msg))
		// the valid signature of the sorted list, offered for a malformed rearrangement of the same signers
		rot := append(append([]int(nil), s[len(s)-p%len(s):]...), s[:len(s)-p%len(s)]...)
		emit(fmt.Sprintf("verify %s %s %s %s", c14IntsTok(rot), f[1], f[2], msg))
		dup := append(append([]int(nil), s...), s[len(s)-1])
		emit(fmt.Sprintf("verify %s %s %s %s", c14IntsTok(dup), f[1], f[2], msg))
	} else {
		emit(fmt.Sprintf("verify %s %s %s %s", c14IntsTok(s), c12RandScalar(r), c12RandScalar(r), msg))
	}
	return lines
}

func c14GenAggSigCase(r *Rand, idx int, tier string) []string {
	switch r.Intn(14) {
	case 0, 1:
		return c14GenDupVectorCase(r.Fork())
	case 2:
		return c14GenLongListCase(r.Fork())
	}
	sh := &State{V: map[string]any{}}
	var lines []string
	emit := func(l string) Result {
		lines = append(lines, l)
		return c14ExecAggSig(sh, l)
	}
	emit("reset")
	n := Pick(r, []int{1, 2, 3, 4, 5, 8, 12})
	if r.Chance(1, 6) {
		n = Pick(r, []int{16, 33, 64, 100, 255, 256, 300})
		if tier == "quick" && n > 64 && r.Chance(2, 3) {
			n = 20
		}
	}
	privs := make([]*big.Int, n)
	toks := make([]string, n)
	for i := range privs {
		privs[i] = c12RandScalar(r)
		toks[i] = c14KeyTok(privs[i])
	}
	if r.Chance(1, 12) {
		i := r.Intn(n)
		privs[i] = nil
		switch r.Intn(3) {
		case 0:
			toks[i] = "n"
		case 1:
			toks[i] = c14KeyTok(new(big.Int)) // identity
		default:
			toks[i] = "x:" + c12GenBadPoint(r)
		}
	}
	if tier != "quick" && idx%997 == 5 { // vector longer than 0xFFFF: AggregateSign refuses such an index
		big := make([]string, 65538)
		for i := range big {
			big[i] = "n"
		}
		y, y3 := c12RandScalar(r), c12RandScalar(r)
		big[65536] = c14KeyTok(y)
		big[3] = c14KeyTok(y3)
		emit("pub " + strings.Join(big, " "))
		msg := Hex(r.Bytes(32))
		emit("sign 65536 " + y.String() + " " + Hex(r.Bytes(32)) + " " + msg)
		emit("sign 3 " + y3.String() + " " + Hex(r.Bytes(32)) + " " + msg)
		emit("transcript 3,65536")
		return lines
	}
	emit("pub " + strings.Join(toks, " "))

	// signer list
	k := 1 + r.Intn(n)
	if n > 16 && r.Chance(1, 2) {
		k = 1 + r.Intn(8)
	}
	perm := make([]int, n)
	for i := range perm {
		perm[i] = i
	}
	for i := n - 1; i > 0; i-- {
		j := r.Intn(i + 1)
		perm[i], perm[j] = perm[j], perm[i]
	}
	signers := append([]int(nil), perm[:k]...)
	sort.Ints(signers)
	switch r.Intn(20) {
	case 0: // unsorted
		if k >= 2 {
			i := r.Intn(k - 1)
			signers[i], signers[i+1] = signers[i+1], signers[i]
		}
	case 1: // duplicate
		i := r.Intn(k)
		signers = append(signers[:i+1], signers[i:]...)
	case 2: // out of range
		signers = append(signers, Pick(r, []int{n, n + 1, 1 << 16, 1 << 31}))
	case 3:
		signers = append([]int{Pick(r, []int{-1, -5})}, signers...)
	case 4:
		if r.Bool() {
			signers = nil
		}
	}
	var ps []string
	for _, s := range signers {
		if s >= 0 && s < n && privs[s] != nil {
			ps = append(ps, privs[s].String())
		} else {
			ps = append(ps, c12RandScalar(r).String())
		}
	}
	switch r.Intn(24) {
	case 0: // a private key that is not the signer's
		if len(ps) > 0 {
			ps[r.Intn(len(ps))] = c12RandScalar(r).String()
		}
	case 1:
		if len(ps) > 0 {
			ps[r.Intn(len(ps))] = "n"
		}
	case 2: // non-canonical scalar
		if len(ps) > 0 {
			i := r.Intn(len(ps))
			if ps[i] != "n" {
				ps[i] = new(big.Int).Add(c12ParseBigTok(ps[i]), c12EllBig).String()
			}
		}
	case 3: // a subset of the private keys
		if len(ps) > 0 {
			ps = ps[:len(ps)-1]
		}
	case 4:
		ps = append(ps, c12RandScalar(r).String())
	}
	pstr := "-"
	if len(ps) > 0 {
		pstr = strings.Join(ps, ",")
	}
	seedLen := Pick(r, []int{32, 32, 32, 32, 32, 32, 33, 48, 64, 100, 31, 0, 1})
	msg := Hex(r.Bytes(32))
	emit("transcript " + c14IntsTok(signers))
	seedHex := Hex(r.Bytes(seedLen))
	sres := emit(fmt.Sprintf("sign %s %s %s %s", c14IntsTok(signers), pstr, seedHex, msg))
	if !strings.HasPrefix(sres.Out, "ok") {
		// nothing signed: verification of an arbitrary pair must fail as well
		emit(fmt.Sprintf("verify %s %s %s %s", c14IntsTok(signers), c12RandScalar(r), c12RandScalar(r), msg))
		if r.Chance(1, 3) {
			emit(fmt.Sprintf("verify %s n 0 %s", c14IntsTok(signers), msg))
		}
		return lines
	}
	f := strings.Fields(sres.Out)
	R, S := f[1], f[2]
	if strings.HasPrefix(R, "x") || R == "unknown" { // does not satisfy the documented equation: already reported
		return lines
	}
	emit(fmt.Sprintf("verify %s %s %s %s", c14IntsTok(signers), R, S, msg))
	// determinism and nonce binding: same inputs again, then another message
	for q := 1 + r.Intn(3); q > 0; q-- {
		switch r.Intn(12) {
		case 0:
			emit(fmt.Sprintf("verify %s %s %s %s", c14IntsTok(signers), R, S, Hex(r.Bytes(32))))
		case 1: // drop a signer
			if len(signers) >= 2 {
				i := r.Intn(len(signers))
				emit(fmt.Sprintf("verify %s %s %s %s", c14IntsTok(append(append([]int{}, signers[:i]...), signers[i+1:]...)), R, S, msg))
			}
		case 2: // add a signer (a signature from a subset must not verify for the larger set)
			for _, c := range perm {
				pos := sort.SearchInts(signers, c)
				if pos < len(signers) && signers[pos] == c {
					continue
				}
				bigger := append(append(append([]int{}, signers[:pos]...), c), signers[pos:]...)
				emit(fmt.Sprintf("verify %s %s %s %s", c14IntsTok(bigger), R, S, msg))
				break
			}
		case 3: // same set, unsorted or duplicated
			if len(signers) >= 2 {
				sw := append([]int{}, signers...)
				sw[0], sw[1] = sw[1], sw[0]
				emit(fmt.Sprintf("verify %s %s %s %s", c14IntsTok(sw), R, S, msg))
			} else {
				emit(fmt.Sprintf("verify %s %s %s %s", c14IntsTok(append(append([]int{}, signers...), signers[0])), R, S, msg))
			}
		case 4:
			emit(fmt.Sprintf("verify %s %s %s %s", c14IntsTok(signers), R, c12ModL(new(big.Int).Add(c12ParseBigTok(S), big.NewInt(1))), msg))
		case 5:
			emit(fmt.Sprintf("verify %s %s %s %s", c14IntsTok(signers), R, new(big.Int).Add(c12ParseBigTok(S), c12EllBig), msg))
		case 6:
			emit(fmt.Sprintf("verify %s %s %s %s", c14IntsTok(signers), Pick(r, []string{c12RandScalar(r).String(), "0", "x" + c12GenBadPoint(r)}), S, msg))
		case 7:
			emit(fmt.Sprintf("verify %s n %s %s", c14IntsTok(signers), S, msg))
		case 8, 9: // key vector changed at a signer position / elsewhere
			nt := append([]string{}, toks...)
			i := signers[r.Intn(len(signers))]
			if r.Chance(1, 3) {
				i = r.Intn(n)
			}
			nt[i] = c14KeyTok(c12RandScalar(r))
			emit("pub " + strings.Join(nt, " "))
			emit(fmt.Sprintf("verify %s %s %s %s", c14IntsTok(signers), R, S, msg))
			emit("pub " + strings.Join(toks, " "))
		case 10: // two signers exchange their positions in the vector
			if len(signers) >= 2 {
				nt := append([]string{}, toks...)
				nt[signers[0]], nt[signers[1]] = nt[signers[1]], nt[signers[0]]
				emit("pub " + strings.Join(nt, " "))
				emit(fmt.Sprintf("verify %s %s %s %s", c14IntsTok(signers), R, S, msg))
				emit("pub " + strings.Join(toks, " "))
			}
		default: // rogue key: the attacker owns x' and publishes A' = x'•B − A₀, then signs alone with x'
			if privs[signers[0]] == nil {
				break
			}
			xp := c12RandScalar(r)
			rogue := c12ModL(new(big.Int).Sub(xp, privs[signers[0]]))
			if rogue.Sign() == 0 {
				break
			}
			emit("pub " + toks[signers[0]] + " " + c14KeyTok(rogue))
			as := c14AggGet(sh)
			A, _, _, ok := as.oracles([]int{0, 1})
			if !ok {
				panic("harness: rogue vector refused")
			}
			kk := c12RandScalar(r)
			Rp := c12PointOf(kk)
			var m crypto.Hash
			copy(m[:], UnHex(msg))
			cb, _ := crypto.VerifC14AggregateChallenge(Rp[:], A[:], m)
			c := c12BytesScalar(cb[:])
			Sf := c12ModL(new(big.Int).Add(kk, new(big.Int).Mul(c, xp)))
			emit(fmt.Sprintf("verify 0,1 %s %s %s", kk, Sf, msg))
			emit("pub " + strings.Join(toks, " "))
		}
	}
	if r.Chance(1, 2) { // nonce separation: same keys and seed, another message / another seed / the same again
		switch r.Intn(3) {
		case 0:
			emit(fmt.Sprintf("sign %s %s %s %s", c14IntsTok(signers), pstr, seedHex, Hex(r.Bytes(32))))
		case 1:
			emit(fmt.Sprintf("sign %s %s %s %s", c14IntsTok(signers), pstr, Hex(r.Bytes(32)), msg))
		default:
			emit(fmt.Sprintf("sign %s %s %s %s", c14IntsTok(signers), pstr, seedHex, msg))
		}
	}
	return lines
}

func init() {
	Register(&Subsystem{
		Name: "aggsig",
		Rule: "3/14 of the cases: duplicate-key vectors with tiny signer sets and cross-verification, or 65..300-entry signer lists with one positioned defect (see props/C14.json); otherwise one case = key vector (1..12 keys, 1/6 of the cases 16..300; ~8% with a nil/identity/refused entry), a signer list " +
			"(sorted subset; ~30% unsorted, duplicated, out of range, negative or empty), AggregateSign with matching keys (~30% with a " +
			"foreign/nil/non-canonical/missing/extra private key or a short seed), then AggregateVerify of the result and of 1..3 " +
			"mutations (message, dropped/added signer, order, S±, R, nil, changed or permuted key vector, rogue-key cancellation); " +
			"non-trivial = the real call accepted; distinct = distinct op line",
		Gen:  c14GenAggSigCase,
		Exec: c14ExecAggSig,
		Corpus: [][]string{
			{"reset", "pub " + c14KeyTok(big.NewInt(5)) + " " + c14KeyTok(big.NewInt(7)), "transcript 0,1", "transcript 1,0", "transcript 0,0", "transcript -", "transcript 0,2",
				"sign 0,1 5,7 " + strings.Repeat("11", 32) + " " + strings.Repeat("22", 32), "sign 0,1 5 " + strings.Repeat("11", 32) + " " + strings.Repeat("22", 32),
				"sign 0,1 5,7 " + strings.Repeat("11", 31) + " " + strings.Repeat("22", 32)},
		},
	})
}
