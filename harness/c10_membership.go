package main

// C10 (and the shared machinery of C09/C11) — membership views of the real kernel.Node
// against lean/Mixin/Model/Membership.lean.
//
// A case builds a real kernel.Node (hook VerifNewNode, the constructor the repository's own
// removal tests use) around a store whose ReadAllNodes returns a generated membership history,
// runs the real LoadConsensusNodes, and queries NodesListWithoutState, ConsensusKeys,
// ConsensusThreshold, PledgingNode, removingOrSlashingNodeAt, electSnapshotNode.
// Property mode (op `c10`): n = |ConsensusKeys(round, ts)|, t = ConsensusThreshold(ts, true) from
// the real node; whenever a certificate is feasible (t <= n) any two signer sets of size t
// share at least 2t-n keys, and the property needs 3(2t-n) > n.

import (
	"fmt"
	"math/big"
	"sort"
	"strconv"
	"strings"
	"sync"
	"time"

	"github.com/MixinNetwork/mixin/common"
	"github.com/MixinNetwork/mixin/config"
	"github.com/MixinNetwork/mixin/crypto"
	"github.com/MixinNetwork/mixin/kernel"
	"github.com/MixinNetwork/mixin/storage"
	"github.com/dgraph-io/ristretto/v2"
)

const (
	memSecond = uint64(time.Second)
	memHour   = uint64(time.Hour)
	memDay    = 24 * memHour
)

// ---------------------------------------------------------------- key universe

type memKey struct {
	priv crypto.Key
	addr common.Address // public spend + deterministic view keys, as storage rebuilds it
}

var (
	memKeys   = map[int]*memKey{}
	memKeysMu sync.Mutex
	memByPub  = map[crypto.Key]*memKey{}
)

func memKeyAt(i int) *memKey {
	memKeysMu.Lock()
	defer memKeysMu.Unlock()
	if k := memKeys[i]; k != nil {
		return k
	}
	seed := crypto.Blake3Hash([]byte(fmt.Sprintf("verif membership key %d", i)))
	priv := crypto.NewKeyFromSeed(append(seed[:], seed[:]...))
	k := &memKey{priv: priv, addr: memAddress(priv.Public())}
	memKeys[i] = k
	memByPub[k.addr.PublicSpendKey] = k
	return k
}

func memAddress(pub crypto.Key) common.Address {
	view := pub.DeterministicHashDerive()
	return common.Address{PrivateViewKey: view, PublicViewKey: view.Public(), PublicSpendKey: pub}
}

func memAddressOf(pub crypto.Key) common.Address {
	memKeysMu.Lock()
	k := memByPub[pub]
	memKeysMu.Unlock()
	if k != nil {
		return k.addr
	}
	var zero crypto.Key
	if pub == zero {
		return common.Address{}
	}
	return memAddress(pub)
}

func hx(b []byte) string { return new(big.Int).SetBytes(b).Text(16) }

func unhx32(s string) (out [32]byte) {
	n, ok := new(big.Int).SetString(s, 16)
	if !ok || n.BitLen() > 256 {
		panic("harness: bad hex number in op line: " + s)
	}
	n.FillBytes(out[:])
	return out
}

func memStateLetter(s string) string {
	switch s {
	case common.NodeStatePledging:
		return "P"
	case common.NodeStateAccepted:
		return "A"
	case common.NodeStateRemoved:
		return "R"
	case common.NodeStateCancelled:
		return "C"
	case "":
		return "U"
	}
	return "?" + s
}

func memStateName(l string) string {
	switch l {
	case "P":
		return common.NodeStatePledging
	case "A":
		return common.NodeStateAccepted
	case "R":
		return common.NodeStateRemoved
	case "C":
		return common.NodeStateCancelled
	}
	panic("harness: bad state letter " + l)
}

func fmtCNode(cn *kernel.CNode) string {
	return fmt.Sprintf("%d:%d:%s:%s:%s:%s:%s", cn.ConsensusIndex, cn.Timestamp, hx(cn.IdForNetwork[:]),
		hx(cn.Signer.PublicSpendKey[:]), hx(cn.Payee.PublicSpendKey[:]), memStateLetter(cn.State), hx(cn.Transaction[:]))
}

func fmtCNodes(l []*kernel.CNode) string {
	var sb strings.Builder
	fmt.Fprintf(&sb, "ok %d", len(l))
	for _, cn := range l {
		sb.WriteString(" ")
		sb.WriteString(fmtCNode(cn))
	}
	return sb.String()
}

func fmtOptCNode(cn *kernel.CNode) string {
	if cn == nil {
		return "ok -"
	}
	return "ok " + fmtCNode(cn)
}

// ---------------------------------------------------------------- store returning a given history

type memStore struct {
	storage.Store // nil: any other method is outside what the views may touch
	nodes         []*common.Node
}

// same contract as storage.readAllNodes(…, withState=true): everything up to threshold
func (s *memStore) ReadAllNodes(threshold uint64, withState bool) []*common.Node {
	if !withState {
		panic("harness: memStore.ReadAllNodes without state")
	}
	out := make([]*common.Node, 0, len(s.nodes))
	for _, n := range s.nodes {
		if n.Timestamp > threshold {
			continue
		}
		c := *n
		out = append(out, &c)
	}
	return out
}

var (
	memCache     *ristretto.Cache[[]byte, any]
	memCacheOnce sync.Once
)

func memSharedCache() *ristretto.Cache[[]byte, any] {
	memCacheOnce.Do(func() {
		c, err := ristretto.NewCache(&ristretto.Config[[]byte, any]{NumCounters: 1e5, MaxCost: 1 << 26, BufferItems: 64})
		if err != nil {
			panic(err)
		}
		memCache = c
	})
	return memCache
}

func memSetClock(now uint64) {
	kernel.TestMockReset()
	kernel.TestMockDiff(time.Duration(int64(now) - time.Now().UnixNano()))
}

type memState struct {
	node     *kernel.Node
	store    *memStore
	chain    *kernel.Chain
	pledging bool
	epoch    uint64
	mainnet  bool
	genesis  map[crypto.Hash]bool
}

func memGet(st *State) *memState {
	if v, ok := st.V["mem"].(*memState); ok {
		return v
	}
	return nil
}

func goPart(line string) []string {
	if i := strings.Index(line, " | "); i >= 0 {
		line = line[:i]
	}
	return strings.Fields(line)
}

func u64(s string) uint64 {
	v, err := strconv.ParseUint(s, 10, 64)
	if err != nil {
		panic("harness: bad integer in op line: " + s)
	}
	return v
}

// memExecCommon executes the ops shared by the membership/views/finality subsystems.
// handled=false: not one of them.
func memExecCommon(st *State, f []string) (res Result, handled bool) {
	handled = true
	ms := memGet(st)
	switch f[0] {
	case "reset":
		kernel.TestMockReset()
		res.Out = "ok"
		return
	case "init": // init epoch net self selfSigner g gid…
		epoch := u64(f[1])
		net, self, signer := crypto.Hash(unhx32(f[2])), crypto.Hash(unhx32(f[3])), crypto.Key(unhx32(f[4]))
		g := int(u64(f[5]))
		if len(f) != 6+g {
			panic("harness: bad init line")
		}
		ids := make([]crypto.Hash, g)
		gm := map[crypto.Hash]bool{}
		for i := range ids {
			ids[i] = crypto.Hash(unhx32(f[6+i]))
			gm[ids[i]] = true
		}
		store := &memStore{}
		node := kernel.VerifNewNode(epoch, net, self, store, memSharedCache(), ids)
		node.VerifSetSigner(signer)
		st.V["mem"] = &memState{node: node, store: store, epoch: epoch, genesis: gm, mainnet: net == memMainnetId()}
		res.Out = "ok"
		return
	}
	if ms == nil {
		panic("harness: op before init: " + f[0])
	}
	node := ms.node
	switch f[0] {
	case "load": // load n (ts id signer payee state tx)…
		n := int(u64(f[1]))
		if len(f) != 2+6*n {
			panic("harness: bad load line")
		}
		nodes := make([]*common.Node, n)
		for i := range nodes {
			a := f[2+6*i:]
			nodes[i] = &common.Node{
				Timestamp:   u64(a[0]),
				Signer:      memAddressOf(crypto.Key(unhx32(a[2]))),
				Payee:       memAddressOf(crypto.Key(unhx32(a[3]))),
				State:       memStateName(a[4]),
				Transaction: crypto.Hash(unhx32(a[5])),
			}
		}
		ms.store.nodes = nodes
		out, _, _ := Catch(func() string {
			if err := node.LoadConsensusNodes(); err != nil {
				return "reject"
			}
			all := node.VerifAllNodesSortedWithState()
			var sb strings.Builder
			fmt.Fprintf(&sb, "ok %d", len(all))
			for _, cn := range all {
				fmt.Fprintf(&sb, " %d:%s:%s", cn.Timestamp, hx(cn.IdForNetwork[:]), memStateLetter(cn.State))
			}
			return sb.String()
		})
		res.Out = out
		res.Tags = []string{"load"}
	case "chain":
		if f[1] == "state" {
			ms.chain = node.VerifChain(crypto.Hash{}, true)
			ms.pledging = false
			res.Out = "ok -"
			res.Tags = []string{"chain:with-state"}
			return
		}
		id, now := crypto.Hash(unhx32(f[2])), u64(f[3])
		memSetClock(now)
		ms.chain = node.VerifChain(id, false)
		kernel.TestMockReset()
		ms.pledging = ms.chain.IsPledging()
		res.Out = fmtOptCNode(ms.chain.ConsensusInfo)
		if ms.pledging {
			res.Tags = []string{"chain:pledging:" + memStateLetter(ms.chain.ConsensusInfo.State)}
		} else {
			res.Tags = []string{"chain:no-identity"}
		}
	case "list":
		l := node.NodesListWithoutState(u64(f[1]), f[2] == "1")
		res.Out = fmtCNodes(l)
		res.Nontrivial = len(l) > 0
		res.Tags = []string{"list"}
	case "seq":
		l := node.VerifNodeSequenceWithoutState(u64(f[1]), f[2] == "1")
		res.Out = fmtCNodes(l)
		res.Nontrivial = len(l) > 0
		res.Tags = []string{"seq"}
	case "keys":
		ids, pubs := ms.chain.ConsensusKeys(u64(f[1]), u64(f[2]))
		var sb strings.Builder
		fmt.Fprintf(&sb, "ok %d", len(ids))
		for i := range ids {
			fmt.Fprintf(&sb, " %s:%s", hx(ids[i][:]), hx(pubs[i][:]))
		}
		res.Out = sb.String()
		res.Nontrivial = len(ids) > 0
		res.Tags = []string{"keys"}
	case "thr":
		t := node.ConsensusThreshold(u64(f[1]), f[2] == "1")
		res.Out = fmt.Sprintf("ok %d", t)
		res.Nontrivial = t != 1000
		res.Tags = []string{"thr:final=" + f[2]}
	case "pledging":
		cn := node.PledgingNode(u64(f[1]))
		res.Out = fmtOptCNode(cn)
		res.Nontrivial = cn != nil
		res.Tags = []string{fmt.Sprintf("pledging:%t", cn != nil)}
	case "removing":
		cn := node.VerifRemovingOrSlashingNodeAt(u64(f[1]))
		res.Out = fmtOptCNode(cn)
		res.Nontrivial = cn != nil
		res.Tags = []string{fmt.Sprintf("removing:%t", cn != nil)}
	case "elect":
		op, now := byte(u64(f[1])), u64(f[2])
		out, p, _ := Catch(func() string {
			id := node.VerifElectSnapshotNode(op, now)
			return "ok " + hx(id[:])
		})
		res.Out = out
		res.Nontrivial = !p && out != "ok 0"
		res.Tags = []string{fmt.Sprintf("elect:panic=%t", p)}
	default:
		handled = false
	}
	return
}

func memExec(st *State, line string) Result {
	f := goPart(line)
	if len(f) == 0 {
		return Result{Out: "bad-op"}
	}
	if res, ok := memExecCommon(st, f); ok {
		return res
	}
	ms := memGet(st)
	switch f[0] {
	case "c10": // c10 round ts
		return memC10(ms, u64(f[1]), u64(f[2]))
	case "c10f": // c10f round ts hack
		return memC10F(ms, u64(f[1]), u64(f[2]), f[3] == "1")
	}
	return Result{Out: "bad-op"}
}

// memC10: the property's own observable, computed from the real node only.
func memC10(ms *memState, round, ts uint64) Result {
	var res Result
	node := ms.node
	ids, _ := ms.chain.ConsensusKeys(round, ts)
	n := len(ids)
	t := node.ConsensusThreshold(ts, true)
	res.Out = fmt.Sprintf("ok %d %d", n, t)
	res.Nontrivial = t <= n

	// effective membership, recounted independently from the node's own list at ts:
	// accepted, genesis or older than SnapshotReferenceThreshold*SnapshotRoundGap, not the removal candidate
	removing := node.VerifRemovingOrSlashingNodeAt(ts)
	if ms.mainnet && ts < memForkAt { // legacy signer-set rule: nobody is excluded ahead of the removal
		removing = nil
	}
	eff := 0
	for _, cn := range node.NodesListWithoutState(ts, false) {
		if cn.State != common.NodeStateAccepted || (removing != nil && removing.IdForNetwork == cn.IdForNetwork) {
			continue
		}
		if ms.genesis[cn.IdForNetwork] || cn.Timestamp+config.SnapshotReferenceThreshold*config.SnapshotRoundGap < ts {
			eff++
		}
	}
	tags := []string{fmt.Sprintf("c10:round0=%t", round == 0), fmt.Sprintf("c10:pledging-chain=%t", ms.pledging),
		fmt.Sprintf("c10:feasible=%t", t <= n), fmt.Sprintf("c10:removing=%t", removing != nil)}
	switch {
	case eff < config.KernelMinimumNodesCount:
		tags = append(tags, "c10:below-minimum")
	default:
		tags = append(tags, fmt.Sprintf("c10:base%%3=%d", eff%3))
	}
	switch {
	case n > eff:
		tags = append(tags, "c10:n>base")
	case n == eff:
		tags = append(tags, "c10:n=base")
	default:
		tags = append(tags, "c10:n<base")
	}
	res.Tags = tags

	intersects := func(n, t int) bool { return t > n || 3*(2*t-n) > n }
	switch {
	case eff < config.KernelMinimumNodesCount && t <= 64:
		res.PropKey = "C10:below-minimum-certifiable"
		res.PropDesc = fmt.Sprintf("effective membership %d < %d but threshold %d can be met by a 64-bit mask (ts=%d)", eff, config.KernelMinimumNodesCount, t, ts)
	case !intersects(n, t):
		if round == 0 && ms.pledging && n >= 1 && intersects(n-1, t) {
			res.PropKey = "C10:round0-keyset-base+1"
			res.PropDesc = fmt.Sprintf("round-0 certificate on a pledging chain: key set %d = ready+1, threshold %d from base %d: two signer sets can share only %d <= %d/3 keys (ts=%d)", n, t, eff, 2*t-n, n, ts)
		} else {
			res.PropKey = "C10:keyset-exceeds-threshold"
			res.PropDesc = fmt.Sprintf("key set %d, threshold %d (base %d, round %d, pledging chain %t): two signer sets can share only %d <= %d/3 keys (ts=%d)", n, t, eff, round, ms.pledging, 2*t-n, n, ts)
		}
	}
	return res
}

// memC10F: every (key vector, threshold) pair the real verifyFinalization hands to the certificate
// verifier for a snapshot of (round, ts) — primary attempt and legacy retry — observed through the
// hook VerifC10FinalizationPairs, each checked against the property's inequality.
func memC10F(ms *memState, round, ts uint64, hack bool) Result {
	var res Result
	hash := crypto.Blake3Hash([]byte("verif c10 probe"))
	if hack {
		hash = finHash("hack")
	}
	pairs := ms.chain.VerifC10FinalizationPairs(round, ts, hash)
	var sb strings.Builder
	fmt.Fprintf(&sb, "ok %d", len(pairs))
	for _, p := range pairs {
		fmt.Fprintf(&sb, " %d %d", len(p.Publics), p.Threshold)
	}
	res.Out = sb.String()
	res.Tags = []string{fmt.Sprintf("c10f:pairs=%d", len(pairs))}
	intersects := func(n, t int) bool { return t > n || 3*(2*t-n) > n }
	for i, p := range pairs {
		n, t := len(p.Publics), int(p.Threshold)
		if t <= n {
			res.Nontrivial = true
		}
		if i > 0 {
			res.Tags = append(res.Tags, fmt.Sprintf("c10f:legacy-retry:feasible=%t", t <= n))
		}
		if intersects(n, t) || res.PropKey != "" {
			continue
		}
		which := "primary attempt"
		if i > 0 {
			which = "legacy retry"
		}
		if round == 0 && ms.pledging && n >= 1 && intersects(n-1, t) {
			res.PropKey = "C10:round0-keyset-base+1"
		} else if i > 0 {
			res.PropKey = "C10:legacy-retry-keyset-exceeds-threshold"
		} else {
			res.PropKey = "C10:keyset-exceeds-threshold"
		}
		res.PropDesc = fmt.Sprintf("verifyFinalization(round %d, ts %d) %s: key vector %d verified with threshold %d: two signer sets can share only %d <= %d/3 keys (pledging chain %t)", round, ts, which, n, t, 2*t-n, n, ms.pledging)
	}
	return res
}

// memLegacyScenario: G mature genesis nodes; the first of them (the removal candidate) is removed
// inside a node-operation window; snapTs lies in the same window after the removal. On mainnet before
// the signer-set fork the verifier's key vector at snapTs has G-1 keys and the legacy retry uses
// the G keys of the hour before the window; in predictive mode the candidate is excluded throughout.
type memLegacyScenario struct {
	h                                *memHistory
	opStart, removalTs, snapTs, lts uint64
	g                                int
}

func memGenLegacyScenario(r *Rand, legacy bool) *memLegacyScenario {
	sc := &memLegacyScenario{h: &memHistory{}}
	h := sc.h
	sc.g = Pick(r, []int{8, 9, 9, 9, 10, 11, 12, 14, 15})
	switch {
	case legacy:
		h.mainnet, h.net = true, memMainnetId()
		days := uint64(r.Range(3, 300))
		h.epoch = memForkAt - days*memDay - config.KernelNodeAcceptTimeBegin*memHour
		sc.opStart = memForkAt - uint64(r.Range(1, int(days)-1))*memDay
	case r.Chance(1, 3): // mainnet after the fork
		h.mainnet, h.net = true, memMainnetId()
		days := uint64(r.Range(3, 300))
		h.epoch = memForkAt - days*memDay - config.KernelNodeAcceptTimeBegin*memHour
		sc.opStart = memForkAt + uint64(r.Range(0, 30))*memDay
	default:
		h.net = crypto.Blake3Hash(r.Bytes(8))
		h.epoch = uint64(1600000000+r.Intn(100000000)) * memSecond
		sc.opStart = h.epoch + uint64(r.Range(1, 300))*memDay + config.KernelNodeAcceptTimeBegin*memHour
	}
	first := 0
	for k := 0; k < sc.g; k++ {
		h.genesis = append(h.genesis, k)
		h.recs = append(h.recs, memRec{ts: h.epoch, key: k, pay: 1000 + k, state: "A", tx: crypto.Blake3Hash([]byte(fmt.Sprintf("tx %d g", k)))})
		if h.id(k).String() < h.id(first).String() {
			first = k
		}
	}
	h.nextKey = sc.g
	sc.removalTs = sc.opStart + Pick(r, []uint64{0, 1, 30 * memSecond, memHour, 3*memHour + 17, 6*memHour + 3599*memSecond})
	sc.snapTs = sc.removalTs + Pick(r, []uint64{1, memSecond, 61 * memSecond, memHour})
	if end := sc.opStart + 7*memHour - 1; sc.snapTs > end {
		sc.snapTs = end
	}
	h.recs = append(h.recs, memRec{ts: sc.removalTs, key: first, pay: 1000 + first, state: "R", tx: crypto.Blake3Hash([]byte("tx removal"))})
	hour := (sc.snapTs - h.epoch) / memHour % 24
	sc.lts = sc.snapTs - (hour+1-config.KernelNodeAcceptTimeBegin)*memHour
	return sc
}

func memGenLegacyCase(r *Rand) []string {
	return memLegacyLines(r, memGenLegacyScenario(r, r.Chance(2, 3)))
}

// the 9-node mainnet pre-fork removal scenario, always run first
func memLegacyCorpus() []string {
	for seed := uint64(1); ; seed++ {
		r := NewRand(seed)
		if sc := memGenLegacyScenario(r, true); sc.g == 9 {
			return memLegacyLines(r, sc)
		}
	}
}

func memLegacyLines(r *Rand, sc *memLegacyScenario) []string {
	h := sc.h
	lines := []string{"reset", h.initLine(Pick(r, h.genesis)), h.loadLine(r, h.recs), "chain state"}
	times := []uint64{sc.snapTs, sc.removalTs, sc.removalTs + 1, sc.opStart, sc.opStart - 1, sc.opStart + 7*memHour - 1, sc.opStart + 7*memHour, sc.lts, sc.snapTs + memDay}
	for _, t := range times {
		lines = append(lines, fmt.Sprintf("c10f %d %d 0", r.Range(1, 2), t))
	}
	lines = append(lines, fmt.Sprintf("c10f 0 %d 0", sc.snapTs), fmt.Sprintf("c10 1 %d", sc.snapTs), fmt.Sprintf("c10 1 %d", sc.lts),
		fmt.Sprintf("keys 1 %d", sc.snapTs), fmt.Sprintf("keys 1 %d", sc.lts), fmt.Sprintf("removing %d", sc.snapTs))
	if h.mainnet {
		lines = append(lines, fmt.Sprintf("c10f 1 %d 1", sc.snapTs))
	}
	return lines
}

// ---------------------------------------------------------------- generator

type memRec struct {
	ts       uint64
	key, pay int
	state    string // P A R C
	tx       crypto.Hash
}

type memHistory struct {
	epoch   uint64
	net     crypto.Hash
	mainnet bool
	genesis []int // key indexes
	recs    []memRec
	nextKey int
}

func (h *memHistory) id(k int) crypto.Hash { return memKeyAt(k).addr.Hash().ForNetwork(h.net) }

func (h *memHistory) recLine(rc memRec) string {
	id := h.id(rc.key)
	return fmt.Sprintf("%d %s %s %s %s %s", rc.ts, hx(id[:]), hx(memKeyAt(rc.key).addr.PublicSpendKey[:]),
		hx(memKeyAt(rc.pay).addr.PublicSpendKey[:]), rc.state, hx(rc.tx[:]))
}

func (h *memHistory) initLine(self int) string {
	var sb strings.Builder
	sid := h.id(self)
	fmt.Fprintf(&sb, "init %d %s %s %s %d", h.epoch, hx(h.net[:]), hx(sid[:]), hx(memKeyAt(self).addr.PublicSpendKey[:]), len(h.genesis))
	for _, k := range h.genesis {
		id := h.id(k)
		sb.WriteString(" " + hx(id[:]))
	}
	return sb.String()
}

func (h *memHistory) loadLine(r *Rand, recs []memRec) string {
	idx := make([]int, len(recs))
	for i := range idx {
		idx[i] = i
	}
	if r != nil { // the store's order must not matter: shuffle
		for i := len(idx) - 1; i > 0; i-- {
			j := r.Intn(i + 1)
			idx[i], idx[j] = idx[j], idx[i]
		}
	}
	var sb strings.Builder
	fmt.Fprintf(&sb, "load %d", len(recs))
	for _, i := range idx {
		sb.WriteString(" " + h.recLine(recs[i]))
	}
	return sb.String()
}

var memGaps = []uint64{0, 0, 1, 2, 29 * memSecond, 30*memSecond - 1, 30 * memSecond, 30*memSecond + 1, 31 * memSecond, 60 * memSecond,
	memHour, 12*memHour - 90*memSecond - 1, 12*memHour - 90*memSecond, 12*memHour - 90*memSecond + 1, 12*memHour - 1, 12 * memHour,
	12*memHour + 1, 13 * memHour, memDay, memDay + memHour, 3 * memDay, 8 * memDay}

func memMainnetId() crypto.Hash {
	h, err := crypto.HashFromString(config.KernelNetworkId)
	if err != nil {
		panic(err)
	}
	return h
}

const memForkAt = uint64(1784898000000000000) // kernel.mainnetConsensusNodeRemovalSignerSetForkAt (mainnet-flag cases only)

// memGenHistory: genesis nodes at the epoch, then pledge / accept / cancel / remove events (mostly
// in the order the ledger allows, sometimes arbitrary) at equal, adjacent and boundary-spaced times.
func memGenHistory(r *Rand, tier string) *memHistory {
	h := &memHistory{}
	if r.Chance(1, 6) {
		h.mainnet = true
		h.net = memMainnetId()
		h.epoch = memForkAt - uint64(r.Range(0, 6))*memDay - uint64(r.Range(0, 23))*memHour
	} else {
		h.net = crypto.Blake3Hash(r.Bytes(8))
		h.epoch = uint64(1600000000+r.Intn(100000000)) * memSecond
	}
	var g int
	switch x := r.Intn(20); {
	case x < 11:
		g = r.Range(7, 10)
	case x < 14:
		g = r.Range(1, 6)
	case x < 18:
		g = r.Range(11, 20)
	default:
		g = r.Range(21, 50)
	}
	if tier != "thorough" && g > 30 {
		g = 30
	}
	for k := 0; k < g; k++ {
		h.genesis = append(h.genesis, k)
		h.recs = append(h.recs, memRec{ts: h.epoch, key: k, pay: 1000 + k, state: "A", tx: crypto.Blake3Hash([]byte(fmt.Sprintf("tx %d g", k)))})
	}
	h.nextKey = g
	h.extend(r, h.epoch, Pick(r, []int{0, 1, 1, 2, 3, 4, 6, 9, 14}))
	return h
}

// latest state per key in record order
func (h *memHistory) latest() (map[int]memRec, []int) {
	m := map[int]memRec{}
	var order []int
	for _, rc := range h.recs {
		if _, ok := m[rc.key]; !ok {
			order = append(order, rc.key)
		}
		m[rc.key] = rc
	}
	return m, order
}

func (h *memHistory) lastTs() uint64 {
	t := h.epoch
	for _, rc := range h.recs {
		if rc.ts > t {
			t = rc.ts
		}
	}
	return t
}

func (h *memHistory) has(ts uint64, key int) bool {
	for _, rc := range h.recs {
		if rc.ts == ts && rc.key == key {
			return true
		}
	}
	return false
}

// extend appends m events after time `from` (each at from+gap…, never before an existing record).
func (h *memHistory) extend(r *Rand, from uint64, m int) {
	t := from
	for e := 0; e < m; e++ {
		t += Pick(r, memGaps)
		if r.Chance(1, 5) {
			t += uint64(r.Intn(int(memDay)))
		}
		latest, order := h.latest()
		pledging := -1
		var accepted []int
		for _, k := range order {
			switch latest[k].state {
			case "P":
				pledging = k
			case "A":
				accepted = append(accepted, k)
			}
		}
		var rc memRec
		x := r.Intn(100)
		switch {
		case x < 8: // arbitrary record: any known or new key, any state
			k := r.Intn(h.nextKey + 1)
			if k == h.nextKey {
				h.nextKey++
			}
			rc = memRec{key: k, pay: 1000 + k, state: Pick(r, []string{"P", "A", "R", "C"})}
		case pledging >= 0 && x < 70:
			rc = memRec{key: pledging, pay: 1000 + pledging, state: "A"}
		case pledging >= 0:
			rc = memRec{key: pledging, pay: 1000 + pledging, state: "C"}
		case x < 55 || len(accepted) == 0:
			rc = memRec{key: h.nextKey, pay: 1000 + h.nextKey, state: "P"}
			h.nextKey++
		default:
			k := accepted[0]
			if r.Chance(1, 3) {
				k = Pick(r, accepted)
			}
			rc = memRec{key: k, pay: 1000 + k, state: "R"}
		}
		for h.has(t, rc.key) {
			t++
		}
		rc.ts = t
		rc.tx = crypto.Blake3Hash([]byte(fmt.Sprintf("tx %d %d %s", rc.key, t, rc.state)))
		h.recs = append(h.recs, rc)
	}
}

// interesting query timestamps: every record boundary, maturity boundary and window boundary ±1
func (h *memHistory) queryTimes(r *Rand) []uint64 {
	set := map[uint64]bool{}
	add := func(t uint64) {
		for _, d := range []int64{-1, 0, 1} {
			set[uint64(int64(t)+d)] = true
		}
	}
	thr := config.SnapshotReferenceThreshold * config.SnapshotRoundGap
	for _, rc := range h.recs {
		add(rc.ts)
		add(rc.ts + thr)
		add(rc.ts + uint64(config.KernelNodeAcceptPeriodMinimum))
		add(rc.ts + uint64(config.KernelNodeAcceptPeriodMinimum) - 3*thr)
		day := (rc.ts - h.epoch) / memDay
		for _, dd := range []uint64{0, 1, 2} {
			base := h.epoch + (day+dd)*memDay
			add(base + config.KernelNodeAcceptTimeBegin*memHour)
			add(base + (config.KernelNodeAcceptTimeEnd+1)*memHour)
			set[base+uint64(r.Range(13, 19))*memHour+uint64(r.Intn(int(memHour)))] = true
			set[base+uint64(r.Intn(24))*memHour+uint64(r.Intn(int(memHour)))] = true
		}
	}
	last := h.lastTs()
	set[last+uint64(r.Range(1, 40))*memDay+uint64(r.Intn(int(memDay)))] = true
	set[last+uint64(r.Range(1, 40))*memDay+uint64(r.Range(13, 19))*memHour+uint64(r.Intn(int(memHour)))-(last-h.epoch)%memDay] = true
	if h.mainnet {
		add(memForkAt)
		set[memForkAt+uint64(r.Intn(int(3*memDay)))] = true
		set[memForkAt-uint64(r.Intn(int(memDay)))] = true
	}
	set[h.epoch-1] = true
	out := make([]uint64, 0, len(set))
	for t := range set {
		out = append(out, t)
	}
	sort.Slice(out, func(i, j int) bool { return out[i] < out[j] })
	return out
}

// a clock reading at least 2 s away from every record timestamp (the real clock keeps running
// while loadIdentity executes)
func (h *memHistory) safeNow(t uint64) uint64 {
	for again := true; again; {
		again = false
		for _, rc := range h.recs {
			d := int64(t) - int64(rc.ts)
			if d < 0 {
				d = -d
			}
			if uint64(d) < 2*memSecond {
				t = rc.ts + 2*memSecond + 1
				again = true
			}
		}
	}
	return t
}

func (h *memHistory) chainLine(r *Rand, times []uint64) string {
	if r.Chance(3, 10) {
		return "chain state"
	}
	latest, order := h.latest()
	k := Pick(r, order)
	for _, c := range order {
		if latest[c].state == "P" && r.Chance(4, 5) {
			k = c
		}
	}
	if r.Chance(1, 10) {
		k = 5000 // not a member
	}
	id := h.id(k)
	now := h.safeNow(Pick(r, times))
	if r.Chance(1, 2) {
		now = h.safeNow(h.lastTs() + uint64(r.Intn(int(30*memDay))))
	}
	return fmt.Sprintf("chain id %s %d", hx(id[:]), now)
}

func memGen(r *Rand, i int, tier string) []string {
	if i%6 == 5 {
		return memGenLegacyCase(r)
	}
	h := memGenHistory(r, tier)
	self := Pick(r, h.genesis)
	if r.Chance(1, 3) {
		self = r.Intn(h.nextKey)
	}
	if r.Chance(1, 10) {
		self = 5000
	}
	lines := []string{"reset", h.initLine(self), h.loadLine(r, h.recs)}
	times := h.queryTimes(r)
	chains := 1 + r.Intn(2)
	for c := 0; c < chains; c++ {
		cl := h.chainLine(r, times)
		if self == 5000 && r.Chance(1, 2) {
			sid := h.id(5000)
			cl = fmt.Sprintf("chain id %s %d", hx(sid[:]), h.safeNow(Pick(r, times)))
		}
		lines = append(lines, cl)
		q := r.Range(4, 14)
		for j := 0; j < q; j++ {
			ts := Pick(r, times)
			switch x := r.Intn(20); {
			case x < 9:
				lines = append(lines, fmt.Sprintf("c10 0 %d", ts), fmt.Sprintf("c10 %d %d", r.Range(1, 3), ts))
				if r.Chance(1, 2) {
					lines = append(lines, fmt.Sprintf("c10f %d %d %d", r.Intn(2), ts, r.Intn(8)/7))
				}
			case x < 11:
				lines = append(lines, fmt.Sprintf("keys %d %d", r.Intn(2), ts))
			case x < 13:
				lines = append(lines, fmt.Sprintf("thr %d %d", ts, r.Intn(2)))
			case x < 15:
				lines = append(lines, fmt.Sprintf("list %d %d", ts, r.Intn(2)))
			case x < 16:
				lines = append(lines, fmt.Sprintf("seq %d %d", ts, r.Intn(2)))
			case x < 17:
				lines = append(lines, fmt.Sprintf("pledging %d", ts))
			case x < 19:
				lines = append(lines, fmt.Sprintf("removing %d", ts))
			default:
				lines = append(lines, fmt.Sprintf("elect %d %d", Pick(r, []int{1, 6, 9, 19, 20, 0, 7}), ts))
			}
		}
	}
	return lines
}

// memWitnessC10: 7 genesis nodes and one node pledged more than its accept period ago, queried on
// the pledging node's own chain: key set 8 at round 0 against threshold 5.
func memWitnessC10() []string {
	h := &memHistory{net: crypto.Blake3Hash([]byte("verif c10 witness")), epoch: 1700000000 * memSecond}
	for k := 0; k < 7; k++ {
		h.genesis = append(h.genesis, k)
		h.recs = append(h.recs, memRec{ts: h.epoch, key: k, pay: 1000 + k, state: "A", tx: crypto.Blake3Hash([]byte(fmt.Sprintf("tx %d g", k)))})
	}
	pledgeAt := h.epoch + 10*memDay + 3*memHour
	h.recs = append(h.recs, memRec{ts: pledgeAt, key: 7, pay: 1007, state: "P", tx: crypto.Blake3Hash([]byte("tx 7 pledge"))})
	acceptAt := pledgeAt + 13*memHour
	pid := h.id(7)
	return []string{"reset", h.initLine(0), h.loadLine(nil, h.recs),
		fmt.Sprintf("chain id %s %d", hx(pid[:]), acceptAt),
		fmt.Sprintf("c10 0 %d", acceptAt), fmt.Sprintf("c10 1 %d", acceptAt),
		"chain state", fmt.Sprintf("c10 0 %d", acceptAt)}
}

func init() {
	Register(&Subsystem{
		Name: "membership",
		Rule: "case = generated membership history (genesis + pledge/accept/cancel/remove/arbitrary records at equal, adjacent and boundary-spaced timestamps) loaded into a real kernel.Node, one or two chains (with state / identity loaded at a mocked clock), queries at record, maturity and window boundaries ±1 (incl. `c10f`: the (key vector, threshold) pairs the real verifyFinalization uses, primary and legacy retry); 1 case in 6: a removal inside the node-operation window on mainnet before/after the signer-set fork or another network; non-trivial = a query whose answer is a non-empty list / a feasible certificate (threshold <= key set) / a non-nil node",
		Gen:  memGen,
		Exec: memExec,
		Corpus: [][]string{
			memWitnessC10(),
			memLegacyCorpus(),
		},
	})
}
