package main

// Fact kind `walk` (C21): the shape of the first `for` loop of a function, with local names
// resolved away, as key/value pairs:
//
//	start    where the loop variable starts          e.g. ReadSnapshot#0.TopologicalOrder+1
//	cond     the loop condition                      e.g. i<param0
//	step     what the loop variable is set to inside the body (alternatives joined by |)
//	breaks   number of break/goto statements in the loop
//	bigints  occurrences, in the whole function, of integer literals other than 0 and 1 and of
//	         package-level constants (a page size is one; a second bound or window is another)
//
// Canonical form of an expression: the loop variable is `i`, parameter k is `param<k>`, a local
// assigned exactly once is replaced by what it was assigned (`Callee#k` for the k-th result of a
// call), a local assigned at several places becomes phi(a|b|…), package constants become
// const:<name>. Renaming locals, reformatting and retuning a literal do not change the fact;
// starting the walk somewhere else, bounding it differently or adding a second constant does.

import (
	"fmt"
	"go/ast"
	"go/token"
	"sort"
	"strings"
)

type walkCanon struct {
	fset    *token.FileSet
	pi      *pkgInfo
	params  map[string]int
	loopVar string
	defs    map[string][]string // local name -> canonical right-hand sides, in source order
	raw     map[string][]walkDef
	busy    map[string]bool
}

type walkDef struct {
	rhs ast.Expr
	idx int // result index when rhs is a call with several results, else -1
}

func calleeName(e ast.Expr) string {
	switch f := e.(type) {
	case *ast.Ident:
		return f.Name
	case *ast.SelectorExpr:
		return f.Sel.Name
	}
	return "?"
}

func (c *walkCanon) expr(e ast.Expr) string {
	switch x := e.(type) {
	case *ast.Ident:
		if x.Name == c.loopVar {
			return "i"
		}
		if k, ok := c.params[x.Name]; ok {
			return fmt.Sprintf("param%d", k)
		}
		if ds := c.raw[x.Name]; len(ds) > 0 && !c.busy[x.Name] {
			c.busy[x.Name] = true
			defer func() { c.busy[x.Name] = false }()
			var alts []string
			for _, d := range ds {
				if call, ok := d.rhs.(*ast.CallExpr); ok && d.idx >= 0 {
					alts = append(alts, fmt.Sprintf("%s#%d", calleeName(call.Fun), d.idx))
				} else {
					alts = append(alts, c.expr(d.rhs))
				}
			}
			if len(alts) == 1 {
				return alts[0]
			}
			return "phi(" + strings.Join(alts, "|") + ")"
		}
		if c.pi != nil {
			if _, ok := c.pi.consts[x.Name]; ok {
				return "const:" + x.Name
			}
		}
		return x.Name
	case *ast.BasicLit:
		return x.Value
	case *ast.ParenExpr:
		return "(" + c.expr(x.X) + ")"
	case *ast.BinaryExpr:
		return c.expr(x.X) + x.Op.String() + c.expr(x.Y)
	case *ast.UnaryExpr:
		return x.Op.String() + c.expr(x.X)
	case *ast.SelectorExpr:
		return c.expr(x.X) + "." + x.Sel.Name
	case *ast.IndexExpr:
		return c.expr(x.X) + "[" + c.expr(x.Index) + "]"
	case *ast.CallExpr:
		var args []string
		for _, a := range x.Args {
			args = append(args, c.expr(a))
		}
		return calleeName(x.Fun) + "(" + strings.Join(args, ",") + ")"
	}
	return exprString(c.fset, e)
}

func walkFact(fset *token.FileSet, fd *ast.FuncDecl, pi *pkgInfo) [][2]string {
	c := &walkCanon{fset: fset, pi: pi, params: map[string]int{}, raw: map[string][]walkDef{}, busy: map[string]bool{}}
	k := 0
	for _, f := range fd.Type.Params.List {
		for _, n := range f.Names {
			c.params[n.Name] = k
			k++
		}
	}
	var loop *ast.ForStmt
	ast.Inspect(fd.Body, func(n ast.Node) bool {
		if f, ok := n.(*ast.ForStmt); ok && loop == nil {
			loop = f
		}
		return loop == nil
	})
	out := [][2]string{}
	if loop == nil {
		return [][2]string{{"start", "<no loop>"}}
	}
	var initRHS ast.Expr
	if as, ok := loop.Init.(*ast.AssignStmt); ok && len(as.Lhs) == 1 && len(as.Rhs) == 1 {
		if id, ok := as.Lhs[0].(*ast.Ident); ok {
			c.loopVar, initRHS = id.Name, as.Rhs[0]
		}
	}
	// every assignment to a local, in source order; assignments to the loop variable are the steps
	var steps []ast.Expr
	ast.Inspect(fd.Body, func(n ast.Node) bool {
		as, ok := n.(*ast.AssignStmt)
		if !ok || as == loop.Init {
			return true
		}
		for i, l := range as.Lhs {
			id, ok := l.(*ast.Ident)
			if !ok || id.Name == "_" {
				continue
			}
			d := walkDef{idx: -1}
			if len(as.Rhs) == len(as.Lhs) {
				d.rhs = as.Rhs[i]
				if as.Tok != token.ASSIGN && as.Tok != token.DEFINE { // +=, -= …
					d.rhs = &ast.BinaryExpr{X: id, Op: token.ADD, Y: as.Rhs[i]}
				}
			} else if len(as.Rhs) == 1 {
				d.rhs, d.idx = as.Rhs[0], i
			} else {
				continue
			}
			if id.Name == c.loopVar {
				steps = append(steps, d.rhs)
			} else {
				c.raw[id.Name] = append(c.raw[id.Name], d)
			}
		}
		return true
	})
	if initRHS != nil {
		out = append(out, [2]string{"start", c.expr(initRHS)})
	} else {
		out = append(out, [2]string{"start", "<none>"})
	}
	if loop.Cond != nil {
		out = append(out, [2]string{"cond", c.expr(loop.Cond)})
	} else {
		out = append(out, [2]string{"cond", "<none>"})
	}
	var ss []string
	for _, s := range steps {
		ss = append(ss, c.expr(s))
	}
	if loop.Post != nil {
		ss = append(ss, "post:"+exprString(fset, loop.Post))
	}
	sort.Strings(ss)
	out = append(out, [2]string{"step", strings.Join(ss, "|")})
	breaks := 0
	ast.Inspect(loop.Body, func(n ast.Node) bool {
		if b, ok := n.(*ast.BranchStmt); ok && (b.Tok == token.BREAK || b.Tok == token.GOTO) {
			breaks++
		}
		return true
	})
	out = append(out, [2]string{"breaks", fmt.Sprint(breaks)})
	big := 0
	isBig := func(n ast.Node) bool {
		switch x := n.(type) {
		case *ast.BasicLit:
			return x.Kind == token.INT && x.Value != "0" && x.Value != "1"
		case *ast.Ident:
			if pi == nil || c.raw[x.Name] != nil {
				return false
			}
			_, isParam := c.params[x.Name]
			_, isConst := pi.consts[x.Name]
			return isConst && !isParam
		}
		return false
	}
	var count func(n ast.Node) bool
	count = func(n ast.Node) bool {
		if sel, ok := n.(*ast.SelectorExpr); ok {
			ast.Inspect(sel.X, count) // field and method names are not constants
			return false
		}
		if n != nil && isBig(n) {
			big++
		}
		return true
	}
	ast.Inspect(fd.Body, count)
	out = append(out, [2]string{"bigints", fmt.Sprint(big)})
	return out
}
