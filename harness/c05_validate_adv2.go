package main

// Second batch of adversarial generators / oracles for the `validate` subsystem:
//   * stateful sequences validate -> lock -> validate(copy with other signature bytes), and
//     ledgers whose inputs are already locked by the transaction's own payload hash (C02)
//   * rogue-key aggregate forgeries: a key list containing R = a*G - sum(V_i), an aggregate
//     signature made with the only scalar the attacker knows, scaled by the coefficient the code
//     under test publishes for the rogue signer; plus a reference implementation of the aggregate
//     verification (the scheme as defined: per-signer coefficient over domain, transcript, index
//     and key) that property mode uses instead of trusting AggregateVerify (C02, testing)
//   * extras of every byte-length class of every type validator's extra parsing (C05)
// The plain-sum rogue-key attack has no per-input-map variant: maps carry one Schnorr signature
// per key, there is no key aggregation to attack.

import (
	"bytes"
	"crypto/sha512"
	"encoding/binary"
	"fmt"
	"math/big"

	"filippo.io/edwards25519"
	"github.com/MixinNetwork/mixin/common"
	"github.com/MixinNetwork/mixin/crypto"
)

// ---------------------------------------------------------------- reference aggregate verification

// the aggregate scheme as defined (crypto/aggregation.go as pinned): transcript = be32(n) ||
// (be32(i) || P_i)*, c_i = H512(domain || transcript || be32(i) || P_i) reduced, A = sum c_i*P_i,
// accept iff the Schnorr signature verifies under A. Independent of the code under test apart
// from the domain string and Key.Verify.
func c05RefAggregateVerify(sig *crypto.Signature, publics []*crypto.Key, signers []int, msg crypto.Hash) bool {
	if len(signers) == 0 {
		return false
	}
	domain, _ := crypto.VerifC14Domains()
	transcript := binary.BigEndian.AppendUint32(nil, uint32(len(signers)))
	prev := -1
	for _, i := range signers {
		if i <= prev || i >= len(publics) || publics[i] == nil || !publics[i].CheckKey() {
			return false
		}
		transcript = binary.BigEndian.AppendUint32(transcript, uint32(i))
		transcript = append(transcript, publics[i][:]...)
		prev = i
	}
	A := edwards25519.NewIdentityPoint()
	for _, i := range signers {
		h := sha512.New()
		h.Write([]byte(domain))
		h.Write(transcript)
		h.Write(binary.BigEndian.AppendUint32(nil, uint32(i)))
		h.Write(publics[i][:])
		var d [64]byte
		h.Sum(d[:0])
		c, err := edwards25519.NewScalar().SetUniformBytes(d[:])
		if err != nil {
			return false
		}
		P, err := edwards25519.NewIdentityPoint().SetBytes(publics[i][:])
		if err != nil {
			return false
		}
		A.Add(A, edwards25519.NewIdentityPoint().ScalarMult(c, P))
	}
	var ak crypto.Key
	copy(ak[:], A.Bytes())
	return ak.Verify(msg, *sig)
}

// ---------------------------------------------------------------- rogue-key aggregate forgery

// an output whose key list is [V_1 .. V_k, R] (R at a random position) with R = a*G - sum V_i,
// spent alone by the holder of `a` with an aggregate signature naming every key as a signer.
// The secret used is c_R*a (+ nothing else), c_R being the coefficient the code under test
// publishes for the rogue signer: valid exactly when every signer gets the same coefficient.
func c05BuildRogueAggregate(w *c05GWorld, mut func(*common.Transaction)) (*common.SignedTransaction, string) {
	r := w.r
	asset := Pick(r, w.assets)
	nv := r.Range(1, 3)
	a := c05RandScalar(r)
	sum := edwards25519.NewIdentityPoint()
	var victims []*crypto.Key
	for i := 0; i < nv; i++ {
		v := w.acct().PublicSpendKey
		if r.Bool() {
			v = crypto.NewKeyFromSeed(r.Bytes(64)).Public()
		}
		P, err := edwards25519.NewIdentityPoint().SetBytes(v[:])
		if err != nil {
			return nil, ""
		}
		dup := false
		for _, o := range victims {
			dup = dup || *o == v
		}
		if dup {
			continue
		}
		sum.Add(sum, P)
		vv := v
		victims = append(victims, &vv)
	}
	R := edwards25519.NewIdentityPoint().ScalarBaseMult(a)
	R.Subtract(R, sum)
	var rk crypto.Key
	copy(rk[:], R.Bytes())
	if !rk.CheckKey() {
		return nil, ""
	}
	pos := r.Intn(len(victims) + 1)
	keys := append([]*crypto.Key{}, victims[:pos]...)
	keys = append(keys, &rk)
	keys = append(keys, victims[pos:]...)
	th := len(keys)
	if r.Chance(1, 4) {
		th = r.Range(1, len(keys))
	}
	amt := w.genAmount()
	ftx := common.NewTransactionV5(asset)
	ftx.AddInput(w.randHash(), 0)
	ftx.Outputs = append(ftx.Outputs, &common.Output{Type: common.OutputTypeScript, Amount: amt, Keys: keys,
		Mask: crypto.NewKeyFromSeed(w.seed()).Public(), Script: common.NewThresholdScript(uint8(th))})
	_, us := w.storeTx(ftx, nil, true)
	w.addUtxo(us[0])
	tx := common.NewTransactionV5(asset)
	tx.AddInput(us[0].u.Hash, us[0].u.Index)
	w.addChange(tx, integerToBig(amt), r.Range(1, 2))
	mut(tx)
	signed := &common.SignedTransaction{Transaction: *tx}
	msg := signed.AsVersioned().PayloadHash()
	signers := make([]int, len(keys))
	for i := range signers {
		signers[i] = i
	}
	ak, coeffs, _, err := crypto.VerifC14AggregateWeighted(keys, signers)
	if err != nil {
		return nil, ""
	}
	c, err := edwards25519.NewScalar().SetCanonicalBytes(coeffs[pos][:])
	if err != nil {
		return nil, ""
	}
	secret := edwards25519.NewScalar().Multiply(c, a)
	rr := c05RandScalar(r)
	P := edwards25519.NewIdentityPoint().ScalarBaseMult(rr)
	x := c05Challenge(P.Bytes(), ak[:], msg)
	sig := c05MakeSig(P.Bytes(), edwards25519.NewScalar().MultiplyAdd(x, secret, rr))
	signed.AggregatedSignature = &common.AggregatedSignature{Signers: signers, Signature: sig}
	return signed, "rogue-aggregate"
}

// ---------------------------------------------------------------- locks by the own payload hash, tampered copies

// a copy of the signed transaction with the same payload and other signature bytes: bit flips,
// never-signed garbage under the same indexes, signatures of a foreign key
func (w *c05GWorld) tamperedCopy(raw []byte) []byte {
	r := w.r
	ver, err := common.UnmarshalVersionedTransaction(raw)
	if err != nil {
		return nil
	}
	msg := ver.PayloadHash()
	if as := ver.AggregatedSignature; as != nil {
		switch r.Intn(3) {
		case 0:
			as.Signature[r.Intn(64)] ^= 1 << r.Intn(8)
		case 1:
			copy(as.Signature[:], r.Bytes(64))
		default:
			as.Signature = w.acct().PrivateSpendKey.Sign(msg)
		}
	} else {
		mode := r.Intn(4)
		touched := false
		for _, m := range ver.SignaturesMap {
			for _, i := range c05SortedIdx(m) {
				switch mode {
				case 0: // one bit of one signature
					if !touched {
						m[i][r.Intn(64)] ^= 1 << r.Intn(8)
					}
				case 1: // never signed: random bytes everywhere
					var sg crypto.Signature
					copy(sg[:], r.Bytes(64))
					m[i] = &sg
				case 2: // a foreign key signs everywhere
					sg := w.acct().PrivateSpendKey.Sign(msg)
					m[i] = &sg
				default: // all-zero signatures
					m[i] = &crypto.Signature{}
				}
				touched = true
			}
		}
		if !touched {
			return nil
		}
	}
	var out []byte
	_, _, _ = Catch(func() string {
		out = ver.Marshal()
		if _, err := common.UnmarshalVersionedTransaction(out); err != nil {
			out = nil
		}
		return ""
	})
	if bytes.Equal(out, raw) {
		return nil
	}
	return out
}

// ---------------------------------------------------------------- extra lengths of the type validators

// byte-length classes of Extra at every site that slices, copies or compares it:
//   node pledge            len == 64            (two keys)
//   node accept / remove   equal to the pledge / accept extra (64); NodeTransactionExtraAsSigner copies 32
//   node cancel            len == 96, Extra[64:96] is a scalar
//   withdrawal claim       len >= 64 (signature), the rest is hashed
//   custodian update       64 + 353*n + 64 with n >= 7: header 64, trailer 64, node size 353
//   every type             the general limit 256 and the storage steps of GetExtraLimit
func c05ExtraLengths(r *Rand) int {
	const node = 353
	switch r.Intn(6) {
	case 0:
		return Pick(r, []int{0, 1, 31, 32, 33, 63, 64, 65, 95, 96, 97, 127, 128, 129, 255, 256, 257})
	case 1: // custodian header / trailer classes
		return Pick(r, []int{r.Range(0, 63), r.Range(64, 127), r.Range(128, 64+node+64-1), 64 + 64, 64 + node, 64 + node + 63, 64 + node + 64, 64 + node + 65})
	case 2: // exact node multiples +-1
		k := r.Range(0, 9)
		return 64 + node*k + 64 + r.Range(-1, 1)
	case 3: // around the minimum of seven nodes
		return 64 + node*7 + 64 + Pick(r, []int{-354, -353, -2, -1, 0, 1, 2, 352, 353, 354})
	case 4: // huge
		return Pick(r, []int{64 + node*50 + 64, 65535, 65536, 100000})
	default:
		return r.Range(0, 3000)
	}
}

// a custodian-update typed transaction (one 0xb1 output, one key, script fffe40, XIN, validly
// signed inputs) whose extra has an arbitrary length class and arbitrary or half-valid content
func c05BuildCustodianExtra(w *c05GWorld, mut func(*common.Transaction)) (*common.SignedTransaction, string) {
	r := w.r
	asset := common.XINAssetId
	ins := w.pickInputs(&asset, 2)
	if ins == nil {
		return nil, ""
	}
	tx := common.NewTransactionV5(asset)
	for _, g := range ins {
		tx.AddInput(g.u.Hash, g.u.Index)
	}
	tx.AddOutputWithType(common.OutputTypeCustodianUpdateNodes, []*common.Address{w.acct()}, common.NewThresholdScript(64), integerFromBig(c05SumUtxos(ins)), w.seed())
	n := c05ExtraLengths(r)
	extra := r.Bytes(n)
	if n >= 64 && r.Bool() { // a well-formed header
		next := w.acct()
		copy(extra, next.PublicSpendKey[:])
		copy(extra[32:], next.PublicViewKey[:])
	}
	for i := 64; i+353 <= n && r.Bool(); i += 353 {
		extra[i] = 1 // custodianNodeActionUpdate
	}
	tx.Extra = extra
	mut(tx)
	return w.sign(tx, c05InsFor(w, tx, ins), w.sigModeFor(ins)), "custodian-extra"
}

// resize the extra of an otherwise valid transaction of any type to a boundary length
func (w *c05GWorld) resizeExtra(tx *common.Transaction) {
	n := c05ExtraLengths(w.r)
	if w.r.Bool() {
		n = Pick(w.r, []int{0, 1, 31, 32, 33, 63, 64, 65, 95, 96, 97, 128, 255, 256, 257})
	}
	if n <= len(tx.Extra) {
		tx.Extra = append([]byte{}, tx.Extra[:n]...)
	} else {
		tx.Extra = append(append([]byte{}, tx.Extra...), w.r.Bytes(n-len(tx.Extra))...)
	}
}

// shape variants of the single signature map that deposit / node accept / node cancel read as
// sigs[0][0]: the one signature under another index, two signatures, none, a second map
func (w *c05GWorld) soleSigShape(s *common.SignedTransaction) {
	if len(s.SignaturesMap) != 1 || !w.r.Chance(1, 6) {
		return
	}
	m := s.SignaturesMap[0]
	sg := m[0]
	if sg == nil {
		return
	}
	switch w.r.Intn(5) {
	case 0, 1:
		delete(m, 0)
		m[uint16(Pick(w.r, []int{1, 2, 7, 255, 65535}))] = sg
	case 2:
		c := *sg
		m[uint16(Pick(w.r, []int{1, 65535}))] = &c
	case 3:
		delete(m, 0)
	default:
		c := *sg
		s.SignaturesMap = append(s.SignaturesMap, map[uint16]*crypto.Signature{0: &c})
	}
}

var _ = big.NewInt
var _ = fmt.Sprintf
