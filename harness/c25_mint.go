package main

// C25 — mint schedule and distribution: real kernel/mint.go (through the verif hooks) against
// lean/Mixin/Model/Mint.lean. Property mode checks the statement's own observables on the real
// code with math/big, independently of the model.

import (
	"fmt"
	"math/big"
	"strings"
	"sync"

	"github.com/MixinNetwork/mixin/common"
	"github.com/MixinNetwork/mixin/config"
	"github.com/MixinNetwork/mixin/crypto"
	"github.com/MixinNetwork/mixin/kernel"
)

const c25OneDay = uint64(86400000000000)
const c25Hour = uint64(3600000000000)

func joinBig(xs []*big.Int) string {
	ss := make([]string, len(xs))
	for i, x := range xs {
		ss[i] = x.String()
	}
	return strings.Join(ss, " ")
}

// ---- real-code prefix sums of the schedule (property oracle), computed lazily

var (
	c25Mu     sync.Mutex
	c25Prefix []*big.Int // c25Prefix[b] = Σ_{i<b} mintBatchSize(i)
)

func c25CumBefore(b uint64) *big.Int {
	c25Mu.Lock()
	defer c25Mu.Unlock()
	if len(c25Prefix) == 0 {
		c25Prefix = append(c25Prefix, big.NewInt(0))
	}
	for uint64(len(c25Prefix)) <= b {
		i := uint64(len(c25Prefix) - 1)
		v := integerToBig(kernel.VerifMintBatchSize(i))
		c25Prefix = append(c25Prefix, new(big.Int).Add(c25Prefix[i], v))
	}
	return c25Prefix[b]
}

const c25SweepMax = 45000 // ≈ 123 years of daily batches

// ---- distribution arguments

type c25Dist struct {
	epoch, ts uint64
	n         int
	today     []uint64
	spaces    []uint64
	works     [][2]uint64
}

func (d *c25Dist) line(thr string) string {
	var sb strings.Builder
	fmt.Fprintf(&sb, "%d %d", d.epoch, d.ts)
	if thr != "" {
		sb.WriteString(" " + thr)
	}
	fmt.Fprintf(&sb, " %d %d", d.n, len(d.today))
	for _, x := range d.today {
		fmt.Fprintf(&sb, " %d", x)
	}
	fmt.Fprintf(&sb, " %d", len(d.spaces))
	for _, x := range d.spaces {
		fmt.Fprintf(&sb, " %d", x)
	}
	fmt.Fprintf(&sb, " %d", len(d.works))
	for _, w := range d.works {
		fmt.Fprintf(&sb, " %d %d", w[0], w[1])
	}
	return sb.String()
}

func parseC25Dist(t []string) *c25Dist {
	d := &c25Dist{epoch: u64(t[0]), ts: u64(t[1]), n: int(u64(t[2]))}
	p := 3
	k := int(u64(t[p]))
	p++
	for i := 0; i < k; i++ {
		d.today = append(d.today, u64(t[p]))
		p++
	}
	k = int(u64(t[p]))
	p++
	for i := 0; i < k; i++ {
		d.spaces = append(d.spaces, u64(t[p]))
		p++
	}
	k = int(u64(t[p]))
	p++
	for i := 0; i < k; i++ {
		d.works = append(d.works, [2]uint64{u64(t[p]), u64(t[p+1])})
		p += 2
	}
	if p != len(t) || len(d.today) != d.n || len(d.spaces) != d.n || len(d.works) != d.n {
		panic("harness: malformed dist arguments")
	}
	return d
}

// node with d.n genesis nodes accepted at the epoch, works of the previous day and of today
func (d *c25Dist) node() (*kernel.Node, *fakeStore, []*kernel.CNode) {
	hist := make([]histEntry, d.n)
	genesis := make([]crypto.Hash, d.n)
	for i := range hist {
		hist[i] = histEntry{Node: i, Tx: i, Ts: d.epoch, State: common.NodeStateAccepted}
		genesis[i] = nodeIdOf(i)
	}
	sorted := sortedCNodes(hist)
	st := newFakeStore()
	day := uint32(d.ts / c25OneDay)
	st.works[day] = map[crypto.Hash][2]uint64{}
	st.works[day-1] = map[crypto.Hash][2]uint64{}
	for i, cn := range sorted {
		st.works[day][cn.IdForNetwork] = [2]uint64{d.today[i], 0}
		st.works[day-1][cn.IdForNetwork] = d.works[i]
		st.spaceBatch[cn.IdForNetwork] = d.spaces[i]
	}
	return kernel.VerifC25NewNode(fakeNetworkId, d.epoch, sorted, genesis, st), st, sorted
}

func c25WorkOf(w [2]uint64) *big.Int {
	x := new(big.Int).Mul(new(big.Int).SetUint64(w[0]), big.NewInt(120000000))
	return x.Add(x, new(big.Int).Mul(new(big.Int).SetUint64(w[1]), big.NewInt(100000000)))
}

func genC25Works(r *Rand, n int) [][2]uint64 {
	w := make([][2]uint64, n)
	style := r.Intn(8)
	baseL, baseS := uint64(r.Range(0, 3000)), uint64(r.Range(0, 40000))
	for i := range w {
		switch style {
		case 0: // all equal
			w[i] = [2]uint64{baseL, baseS + 1}
		case 1: // sign-only, near the piecewise boundaries of a common average A
			a := baseS + 7
			w[i] = [2]uint64{0, Pick(r, []uint64{a, a, a, a, a - 1, a + 1, 7 * a, 7*a - 1, 7*a + 1, a / 7, a/7 + 1, a/7 - 1, 2 * a, 6 * a})}
		case 2: // tiny works
			w[i] = [2]uint64{uint64(r.Intn(3)), uint64(r.Intn(3))}
		default:
			w[i] = [2]uint64{uint64(r.Range(0, 3000)), uint64(r.Range(0, 40000))}
		}
		if r.Chance(1, 9) {
			w[i] = [2]uint64{0, 0}
		}
		if r.Chance(1, 15) { // huge outlier
			w[i] = [2]uint64{w[i][0] * 1000000, w[i][1]*1000000 + r.U64()%1000}
		}
		if r.Chance(1, 60) {
			w[i] = [2]uint64{r.U64(), r.U64()}
		}
		if r.Chance(1, 25) {
			w[i][0] = 0
		}
		if r.Chance(1, 25) {
			w[i][1] = 0
		}
	}
	if r.Chance(1, 12) { // many zeros: valid around the threshold
		z := n - (n*2/3 + 1) + r.Range(-1, 1)
		for i := 0; i < z && i < n; i++ {
			w[r.Intn(n)] = [2]uint64{0, 0}
		}
	}
	return w
}

func genC25Dist(r *Rand, forBuild bool) *c25Dist {
	d := &c25Dist{n: r.Range(7, 50)}
	if r.Chance(1, 10) {
		d.n = Pick(r, []int{7, 8, 9, 10, 49, 50})
	}
	d.epoch = 1551312000000000000
	if r.Chance(1, 3) {
		d.epoch += r.U64() % (400 * c25OneDay) // not aligned to a UTC day
	} else if r.Chance(1, 2) {
		d.epoch += uint64(r.Intn(400)) * c25OneDay
	}
	gap := uint64(r.Range(1, 4000))
	if r.Chance(1, 12) {
		gap = uint64(r.Intn(2))
	}
	hour := uint64(r.Intn(24))
	if forBuild && r.Chance(3, 4) {
		hour = uint64(r.Range(config.KernelMintTimeBegin, config.KernelMintTimeEnd))
	}
	d.ts = d.epoch + gap*c25OneDay + hour*c25Hour + r.U64()%c25Hour
	if r.Chance(1, 40) {
		d.ts = d.epoch - r.U64()%(2*c25OneDay)
	}
	batch := d.ts/c25OneDay - d.epoch/c25OneDay
	d.works = genC25Works(r, d.n)
	d.today = make([]uint64, d.n)
	d.spaces = make([]uint64, d.n)
	lazy := r.Chance(1, 8)
	for i := range d.today {
		d.today[i] = uint64(r.Range(1, 500))
		d.spaces[i] = batch + uint64(r.Intn(2))
		if lazy && r.Chance(1, 3) {
			d.today[i] = 0
		}
		if lazy && r.Chance(1, 3) && batch > 0 {
			d.spaces[i] = batch - 1
		}
	}
	return d
}

func genC25Batch(r *Rand) uint64 {
	switch r.Intn(10) {
	case 0, 1, 2:
		y := uint64(r.Range(0, 300))
		return uint64(int64(y*365) + int64(r.Range(-2, 2)) + 2)
	case 3:
		return Pick(r, []uint64{0, 1, 364, 365, 366, 1706, 1707, 81029, 81030, 81031, 101469, 101470, 101471,
			3650000, 3650364, 3650365, 3650366, 1 << 40, 1<<63 - 1, 1 << 63, ^uint64(0)})
	case 4:
		return uint64(r.Range(60000, 120000))
	default:
		return uint64(r.Intn(c25SweepMax))
	}
}

func init() {
	Register(&Subsystem{
		Name: "mint",
		Rule: "sweep of mintBatchSize over batches 0..45000 (stride 10 in quick, every batch in thorough) plus year " +
			"boundaries up to year 300 and the panic horizons; mintMultiBatchesSize / poolSizeUniversal / " +
			"checkUniversalMintPossibility at random positions; distributeKernelMintByWorks and " +
			"buildUniversalMintTransaction on 7..50 nodes with random (lead, sign) works including zeros, ties, " +
			"piecewise-boundary values, 10^6x and 2^64 outliers, unready aggregators, aligned and unaligned epochs; " +
			"non-trivial = the real code returned a value (not an error, nil or panic); distinct = distinct op line",
		Corpus: [][]string{
			{"consts", "horizon", "batch 0", "batch 1707", "batch 81029", "batch 81030", "batch 101469", "batch 101470",
				"batch 3650365", "multi 1706 1707", "multi 5 5", "multi 81028 81030", "pool 0", "pool 1706", "pool 365",
				"pool 80665", "pool 81031"},
		},
		Gen: func(r *Rand, i int, tier string) []string {
			var lines []string
			stride := 10
			if tier == "thorough" {
				stride = 1
			}
			if b := i*stride + r.Intn(stride); b < c25SweepMax {
				lines = append(lines, fmt.Sprintf("batch %d", b))
			}
			switch r.Intn(12) {
			case 0, 1:
				lines = append(lines, fmt.Sprintf("batch %d", genC25Batch(r)))
			case 2, 3:
				old := genC25Batch(r)
				span := uint64(r.Range(1, 40))
				if r.Chance(1, 10) {
					span = uint64(r.Range(300, 800))
				}
				if r.Chance(1, 10) {
					lines = append(lines, fmt.Sprintf("multi %d %d", old, old-uint64(r.Intn(2))))
				} else if old < 1<<40 {
					lines = append(lines, fmt.Sprintf("multi %d %d", old, old+span))
				}
			case 4:
				b := genC25Batch(r)
				if b < 1<<40 {
					lines = append(lines, fmt.Sprintf("pool %d", b))
				}
			case 5, 6:
				d := genC25Dist(r, true)
				batch := (d.ts - d.epoch) / c25Hour / 24
				lb := uint64(int64(batch) + int64(r.Range(-3, 1)))
				if r.Chance(1, 4) {
					lb = batch
				}
				if r.Chance(1, 6) {
					lb = uint64(r.Range(1706, 1800))
				}
				if d.ts <= d.epoch || int64(lb) < 1706 {
					lb = 1706
				}
				if batch > lb+1000 {
					lb = batch - uint64(r.Range(1, 30))
				}
				la := genAmount(r)
				lines = append(lines, fmt.Sprintf("possible %d %d %d %d %s", d.epoch, d.ts, r.Intn(2), lb, la))
			case 7, 8, 9:
				d := genC25Dist(r, false)
				base := genC25Base(r, d.n)
				lines = append(lines, "dist "+base.String()+" "+d.line(""))
			default:
				d := genC25Dist(r, true)
				batch := (d.ts - d.epoch) / c25Hour / 24
				lb, vo := batch, 1
				la := genC25Base(r, d.n)
				la.Mul(la, big.NewInt(2))
				if r.Chance(1, 3) && batch > 1710 {
					lb, vo = batch-uint64(r.Range(1, 5)), r.Intn(2)
				}
				if lb < 1706 {
					lb = 1706
				}
				lines = append(lines, fmt.Sprintf("build %d %d %s %s", vo, lb, la, d.line("")))
			}
			return lines
		},
		Exec: execMint,
	})
}

func genC25Base(r *Rand, n int) *big.Int {
	switch r.Intn(8) {
	case 0:
		return big.NewInt(int64(r.Intn(40)))
	case 1:
		return big.NewInt(int64(16*n + r.Range(-2, 2)))
	case 2:
		return big.NewInt(int64(r.Intn(100000)))
	case 3:
		return genAmount(r)
	default: // around the real daily kernel share (≈ 44.9 XIN) and below
		return new(big.Int).SetUint64(r.U64() % 9000000000)
	}
}

func execMint(_ *State, line string) Result {
	t := strings.Fields(line)
	res := Result{Tags: []string{t[0]}}
	fail := func(key, desc string) {
		if res.PropKey == "" {
			res.PropKey, res.PropDesc = "C25:"+key, desc
		}
	}
	pool := integerToBig(kernel.MintPool)
	out, panicked, _ := Catch(func() string {
		switch t[0] {
		case "consts":
			e20 := new(big.Int).Exp(big.NewInt(10), big.NewInt(20), nil)
			pct := integerToBig(kernel.MintYearPercent.Product(integerFromBig(e20)))
			if pct.Cmp(e20) > 0 {
				fail("percent-above-one", "MintYearPercent exceeds 1")
			}
			return fmt.Sprintf("ok %s %s %d %d %d %d", pool, pct, kernel.MintYearDays, kernel.KernelNetworkLegacyEnding,
				config.KernelMintTimeBegin, config.KernelMintTimeEnd)
		case "horizon":
			// first year whose daily amount is zero or whose computation panics, on the real code
			for y := uint64(0); ; y++ {
				v, pn, _ := Catch(func() string { return integerToBig(kernel.VerifMintBatchSize(y * kernel.MintYearDays)).String() })
				if pn || v == "0" {
					res.Tags = append(res.Tags, fmt.Sprintf("horizon:year%d", y))
					return fmt.Sprintf("ok %d", y)
				}
			}
		case "batch":
			b := u64(t[1])
			v := integerToBig(kernel.VerifMintBatchSize(b))
			// property: never increasing, cumulative total within the pool
			if b+1 != 0 {
				next, pn, _ := Catch(func() string { return integerToBig(kernel.VerifMintBatchSize(b + 1)).String() })
				if !pn && parseBig(next).Cmp(v) > 0 {
					fail("batch-increases", fmt.Sprintf("mintBatchSize(%d)=%s < mintBatchSize(%d)=%s", b, v, b+1, next))
				}
			}
			if b < c25SweepMax {
				cum := new(big.Int).Add(c25CumBefore(b), v)
				if cum.Cmp(pool) > 0 {
					fail("cumulative-exceeds-pool", fmt.Sprintf("sum of batches 0..%d = %s > pool %s", b, cum, pool))
				}
				res.Tags = append(res.Tags, fmt.Sprintf("batch:year%03d-", b/365/25*25))
			} else {
				res.Tags = append(res.Tags, "batch:beyond-sweep")
			}
			return "ok " + v.String()
		case "multi":
			old, b := u64(t[1]), u64(t[2])
			v := integerToBig(kernel.VerifMintMultiBatchesSize(old, b))
			sum := new(big.Int)
			for i := old + 1; i <= b; i++ {
				sum.Add(sum, integerToBig(kernel.VerifMintBatchSize(i)))
			}
			if sum.Cmp(v) != 0 {
				fail("multi-not-sum", fmt.Sprintf("mintMultiBatchesSize(%d,%d)=%s but the batches sum to %s", old, b, v, sum))
			}
			return "ok " + v.String()
		case "pool":
			b := u64(t[1])
			v := integerToBig(kernel.VerifPoolSizeUniversal(int(b)))
			if v.Cmp(pool) > 0 {
				fail("pool-grows", fmt.Sprintf("poolSizeUniversal(%d)=%s > MintPool", b, v))
			}
			if b < c25SweepMax {
				if new(big.Int).Add(v, c25CumBefore(b)).Cmp(pool) > 0 {
					fail("pool-plus-minted-exceeds", fmt.Sprintf("poolSizeUniversal(%d)=%s + minted %s > MintPool", b, v, c25CumBefore(b)))
				}
			}
			return "ok " + v.String()
		case "possible":
			epoch, ts, vo, lb, la := u64(t[1]), u64(t[2]), t[3] == "1", u64(t[4]), parseBig(t[5])
			st := newFakeStore()
			st.lastMint = &common.MintDistribution{MintData: common.MintData{Batch: lb, Amount: integerFromBig(la)}}
			node := kernel.VerifC25NewNode(fakeNetworkId, epoch, nil, nil, st)
			batch, amount := node.VerifCheckUniversalMintPossibility(ts, vo)
			if batch > 0 {
				h := (ts - epoch) / c25Hour % 24
				if ts <= epoch || h < uint64(config.KernelMintTimeBegin) || h > uint64(config.KernelMintTimeEnd) {
					fail("mint-outside-window", fmt.Sprintf("mint possible at hour %d", h))
				}
				res.Tags = append(res.Tags, "possible:yes")
			} else {
				res.Tags = append(res.Tags, "possible:no")
			}
			return fmt.Sprintf("ok %d %s", batch, integerToBig(amount))
		case "dist":
			base := parseBig(t[1])
			d := parseC25Dist(t[2:])
			node, _, sorted := d.node()
			thr := node.ConsensusThreshold(d.ts, false)
			res.LeanIn = "dist " + base.String() + " " + d.line(fmt.Sprint(thr))
			mints, err := node.VerifDistributeKernelMintByWorks(sorted, integerFromBig(base), d.ts)
			if err != nil {
				res.Tags = append(res.Tags, "dist:err")
				return "err"
			}
			shares := make([]*big.Int, len(mints))
			for i, m := range mints {
				shares[i] = integerToBig(m.Work)
			}
			c25CheckShares(d, base, shares, fail, &res)
			if len(shares) == 0 {
				return "ok"
			}
			return "ok " + joinBig(shares)
		case "build":
			vo, lb, la := t[1] == "1", u64(t[2]), parseBig(t[3])
			d := parseC25Dist(t[4:])
			node, st, _ := d.node()
			st.lastMint = &common.MintDistribution{MintData: common.MintData{Batch: lb, Amount: integerFromBig(la)}}
			thr := node.ConsensusThreshold(d.ts, false)
			res.LeanIn = fmt.Sprintf("build %s %d %s %s", t[1], lb, la, d.line(fmt.Sprint(thr)))
			var amount *big.Int
			_, _, _ = Catch(func() string {
				_, a := node.VerifCheckUniversalMintPossibility(d.ts, vo)
				amount = integerToBig(a)
				return ""
			})
			ver := node.VerifBuildUniversalMintTransaction(st.custodian, d.ts, vo)
			if ver == nil {
				res.Tags = append(res.Tags, "build:nil")
				return "nil"
			}
			outs := make([]*big.Int, len(ver.Outputs))
			sum := new(big.Int)
			for i, o := range ver.Outputs {
				outs[i] = integerToBig(o.Amount)
				sum.Add(sum, outs[i])
				if outs[i].Sign() <= 0 {
					fail("zero-output", fmt.Sprintf("mint output %d of %d is %s", i, len(outs), outs[i]))
				}
			}
			k := len(outs) - 2
			if k != d.n || amount == nil {
				fail("shape", fmt.Sprintf("mint transaction has %d outputs for %d nodes", len(outs), d.n))
				return "tx " + joinBig(outs)
			}
			if ver.Inputs[0].Mint == nil || integerToBig(ver.Inputs[0].Mint.Amount).Cmp(amount) != 0 {
				fail("shape", "mint input amount differs from the batch amount")
			}
			if sum.Cmp(amount) != 0 {
				fail("sum-not-exact", fmt.Sprintf("outputs sum to %s, batch amount %s", sum, amount))
			}
			ks := new(big.Int)
			for _, x := range outs[:k] {
				ks.Add(ks, x)
			}
			if new(big.Int).Mul(ks, big.NewInt(2)).Cmp(amount) > 0 {
				fail("kernel-above-half", fmt.Sprintf("kernel share %s of %s", ks, amount))
			}
			tenth := new(big.Int).Quo(amount, big.NewInt(10))
			if outs[k].Cmp(new(big.Int).Mul(tenth, big.NewInt(4))) != 0 {
				fail("custodian-share", fmt.Sprintf("custodian share %s of %s", outs[k], amount))
			}
			if d.ts/c25OneDay-d.epoch/c25OneDay > 0 {
				c25CheckMonotone(d, outs[:k], fail)
			}
			res.Tags = append(res.Tags, "build:tx")
			return fmt.Sprintf("tx %s | %s %s", joinBig(outs[:k]), outs[k], outs[k+1])
		}
		panic("harness: unknown op " + t[0])
	})
	res.Out = out
	res.Nontrivial = !panicked && out != "err" && out != "nil"
	if panicked {
		res.Tags = append(res.Tags, t[0]+":panic")
	}
	return res
}

func c25CheckMonotone(d *c25Dist, shares []*big.Int, fail func(string, string)) {
	ws := make([]*big.Int, len(d.works))
	for i, w := range d.works {
		ws[i] = c25WorkOf(w)
	}
	for i := range ws {
		for j := range ws {
			if ws[i].Cmp(ws[j]) <= 0 && shares[i].Cmp(shares[j]) > 0 {
				fail("dist-not-monotone", fmt.Sprintf("work %s <= %s but share %s > %s", ws[i], ws[j], shares[i], shares[j]))
				return
			}
		}
	}
}

func c25CheckShares(d *c25Dist, base *big.Int, shares []*big.Int, fail func(string, string), res *Result) {
	sum := new(big.Int)
	zero := false
	for _, s := range shares {
		sum.Add(sum, s)
		if s.Sign() <= 0 {
			zero = true
		}
	}
	if sum.Cmp(base) > 0 {
		fail("dist-exceeds-base", fmt.Sprintf("shares sum to %s > base %s", sum, base))
	}
	if d.ts/c25OneDay-d.epoch/c25OneDay == 0 {
		res.Tags = append(res.Tags, "dist:day0")
		if zero && base.Cmp(big.NewInt(int64(d.n))) >= 0 {
			fail("dist-zero-share", "equal split gave a zero share although base >= n")
		}
		return
	}
	res.Tags = append(res.Tags, "dist:works")
	c25CheckMonotone(d, shares, fail)
	// the guard of theorem dist_positive: 16·n ≤ base
	if zero {
		res.Tags = append(res.Tags, "dist:zero-share")
		if base.Cmp(big.NewInt(int64(16*d.n))) >= 0 {
			fail("dist-zero-share", fmt.Sprintf("a share is zero although base %s >= 16*%d", base, d.n))
		}
	}
}
