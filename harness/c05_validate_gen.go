package main

// Generator for the `validate` subsystem (C01 / C02 / C05): random consistent ledgers built with
// the repository's own constructors (NewTransactionV5, AddInput, AddOutputWithType,
// UnspentOutputs, SignInput, AggregateSign, SignRaw, EncodeCustodianNode), ~70 % valid
// transactions of every type and ~30 % mutated ones; ~12 % of the ledgers are deliberately
// corrupted (flagged `consistent=0`: panics there are compared with the model, not reported).

import (
	"bytes"
	"fmt"
	"math/big"
	"sort"
	"sync"

	"github.com/MixinNetwork/mixin/common"
	"github.com/MixinNetwork/mixin/crypto"
)

var (
	c05VAcctOnce sync.Once
	c05VAccts    []*common.Address
)

func c05VAccounts() []*common.Address {
	c05VAcctOnce.Do(func() {
		for i := 0; i < 24; i++ {
			seed := bytes.Repeat([]byte{byte(17 + i)}, 64)
			seed[0] = byte(i)
			a := common.NewAddressFromSeed(seed)
			c05VAccts = append(c05VAccts, &a)
		}
	})
	return c05VAccts
}

type c05GUtxo struct {
	u      *common.UTXOWithLock
	owners []*common.Address // accounts behind Keys, same order
}

type c05GWorld struct {
	r          *Rand
	lines      []string
	utxos      []*c05GUtxo
	txs        map[crypto.Hash]*common.VersionedTransaction
	custodian  *common.Address
	custNodes  [][2]*common.Address // custodian, payee
	pledging   *c05GNode
	accepted   []*c05GNode
	submits    []crypto.Hash
	consistent bool
	assets     []crypto.Hash
	otherAsset crypto.Hash
}

type c05GNode struct {
	signer, payee *common.Address
	tx            *common.VersionedTransaction
	utxo          *c05GUtxo
}

func (w *c05GWorld) seed() []byte { return w.r.Bytes(64) }
func (w *c05GWorld) randHash() crypto.Hash {
	return crypto.Blake3Hash(w.r.Bytes(16))
}
func (w *c05GWorld) acct() *common.Address { return Pick(w.r, c05VAccounts()) }

func c05BigAmount(n int64) common.Integer { return integerFromBig(big.NewInt(n)) }

// store a finalized transaction and materialise its outputs with the repo's UnspentOutputs
func (w *c05GWorld) storeTx(tx *common.Transaction, owners [][]*common.Address, finalized bool) (*common.VersionedTransaction, []*c05GUtxo) {
	ver := tx.AsVersioned()
	w.txs[ver.PayloadHash()] = ver
	fin := "1"
	if !finalized {
		fin = "0"
	}
	w.lines = append(w.lines, "stx - "+fin+" "+Hex(ver.Marshal()))
	var res []*c05GUtxo
	for _, u := range ver.UnspentOutputs() {
		// decoupled copy, as a store would return
		uu, err := common.UnmarshalUTXO(u.Marshal())
		if err != nil {
			panic(err)
		}
		g := &c05GUtxo{u: uu}
		if int(u.Index) < len(owners) {
			g.owners = owners[u.Index]
		}
		res = append(res, g)
	}
	return ver, res
}

func (w *c05GWorld) addUtxo(g *c05GUtxo) {
	w.utxos = append(w.utxos, g)
}

func (w *c05GWorld) emitUtxos() {
	for _, g := range w.utxos {
		w.lines = append(w.lines, "utxo "+Hex(g.u.Marshal()))
	}
}

func (w *c05GWorld) scriptFor(n int) common.Script {
	th := w.r.Range(1, n)
	if w.r.Chance(1, 12) {
		th = 0
	}
	return common.NewThresholdScript(uint8(th))
}

func (w *c05GWorld) genAmount() common.Integer {
	switch w.r.Intn(6) {
	case 0:
		return c05BigAmount(int64(w.r.Range(1, 3)))
	case 1:
		return c05BigAmount(int64(w.r.Range(9999, 10001)))
	case 2:
		return common.NewInteger(uint64(w.r.Range(1, 20000)))
	default:
		return c05BigAmount(int64(w.r.U64()%1000000000000) + 1)
	}
}

// funding: one stored transaction with nOut outputs of the given asset
func (w *c05GWorld) funding(asset crypto.Hash, nOut int) {
	tx := common.NewTransactionV5(asset)
	tx.AddInput(w.randHash(), uint(w.r.Intn(3)))
	var owners [][]*common.Address
	for i := 0; i < nOut; i++ {
		nk := w.r.Range(1, 3)
		if w.r.Chance(1, 10) {
			nk = w.r.Range(4, 8)
		}
		var accs []*common.Address
		seen := map[*common.Address]bool{}
		for len(accs) < nk {
			a := w.acct()
			if !seen[a] {
				seen[a] = true
				accs = append(accs, a)
			}
		}
		ot := uint8(common.OutputTypeScript)
		if w.r.Chance(1, 10) {
			ot = common.OutputTypeNodeRemove
		} else if w.r.Chance(1, 25) {
			ot = common.OutputTypeCustodianUpdateNodes
		}
		tx.AddOutputWithType(ot, accs, w.scriptFor(nk), w.genAmount(), w.seed())
		owners = append(owners, accs)
	}
	_, us := w.storeTx(tx, owners, true)
	for _, g := range us {
		w.addUtxo(g)
	}
}

func (w *c05GWorld) takeScriptUtxo(asset crypto.Hash) *c05GUtxo {
	for i, g := range w.utxos {
		if g.u.Asset == asset && g.u.Type == common.OutputTypeScript && !g.u.LockHash.HasValue() && len(g.owners) > 0 && g.u.Script[2] > 0 {
			w.utxos = append(w.utxos[:i], w.utxos[i+1:]...)
			return g
		}
	}
	return nil
}

func (w *c05GWorld) nodeLine(n *common.Node) {
	w.lines = append(w.lines, fmt.Sprintf("node %s %s %s %s %s %s", Hex(n.Signer.PublicSpendKey[:]), Hex(n.Signer.PublicViewKey[:]),
		Hex(n.Payee.PublicSpendKey[:]), Hex(n.Payee.PublicViewKey[:]), Hex([]byte(n.State)), Hex(n.Transaction[:])))
}

func c05GenesisAddr(a *common.Address) common.Address {
	b := *a
	b.PrivateViewKey = b.PublicSpendKey.DeterministicHashDerive()
	b.PublicViewKey = b.PrivateViewKey.Public()
	return b
}

// a pledge transaction spending a XIN script utxo; stored when `store`
func (w *c05GWorld) buildPledge(src *c05GUtxo, signer, payee *common.Address) *common.Transaction {
	tx := common.NewTransactionV5(common.XINAssetId)
	tx.AddInput(src.u.Hash, src.u.Index)
	tx.AddOutputWithType(common.OutputTypeNodePledge, nil, common.Script{}, src.u.Amount, w.seed())
	tx.Extra = append(append([]byte{}, signer.PublicSpendKey[:]...), payee.PublicSpendKey[:]...)
	return tx
}

func (w *c05GWorld) addNodes() {
	accts := c05VAccounts()
	// accepted nodes: pledge (stored) -> accept (stored), utxo of type accept
	na := w.r.Range(0, 2)
	for i := 0; i < na; i++ {
		src := w.takeScriptUtxo(common.XINAssetId)
		if src == nil {
			return
		}
		signer, payee := accts[(2*i)%len(accts)], accts[(2*i+1)%len(accts)]
		pledge := w.buildPledge(src, signer, payee)
		pv, pus := w.storeTx(pledge, nil, true)
		acc := common.NewTransactionV5(common.XINAssetId)
		acc.AddInput(pv.PayloadHash(), 0)
		acc.AddOutputWithType(common.OutputTypeNodeAccept, nil, common.Script{}, pus[0].u.Amount, w.seed())
		acc.Extra = pledge.Extra
		av, aus := w.storeTx(acc, nil, true)
		w.addUtxo(aus[0])
		state := common.NodeStateAccepted
		if w.r.Chance(1, 5) {
			state = Pick(w.r, []string{common.NodeStateRemoved, common.NodeStateCancelled})
		}
		n := &common.Node{Signer: c05GenesisAddr(signer), Payee: *payee, State: state, Transaction: av.PayloadHash()}
		w.nodeLine(n)
		w.accepted = append(w.accepted, &c05GNode{signer: signer, payee: payee, tx: av, utxo: aus[0]})
	}
	if w.r.Chance(1, 2) {
		src := w.takeScriptUtxo(common.XINAssetId)
		if src == nil {
			return
		}
		signer, payee := accts[10], accts[11]
		pledge := w.buildPledge(src, signer, payee)
		// the pledge's own input must stay readable for validateNodeCancel: its creating tx is stored
		pv, pus := w.storeTx(pledge, nil, true)
		w.addUtxo(pus[0])
		n := &common.Node{Signer: c05GenesisAddr(signer), Payee: *payee, State: common.NodeStatePledging, Transaction: pv.PayloadHash()}
		w.nodeLine(n)
		w.pledging = &c05GNode{signer: signer, payee: payee, tx: pv, utxo: pus[0]}
		w.pledging.utxo.owners = src.owners // the owners of the pledged output (for cancel)
	}
}

func (w *c05GWorld) addCustodian() {
	accts := c05VAccounts()
	w.custodian = accts[12]
	n := w.r.Range(0, 3)
	if w.r.Chance(1, 6) {
		n = 7
	}
	var sb bytes.Buffer
	fmt.Fprintf(&sb, "cust %s %s %d", Hex(w.custodian.PublicSpendKey[:]), Hex(w.custodian.PublicViewKey[:]), n)
	for i := 0; i < n; i++ {
		c, p := accts[(13+i)%len(accts)], accts[(3+i)%len(accts)]
		w.custNodes = append(w.custNodes, [2]*common.Address{c, p})
		fmt.Fprintf(&sb, " %s %s %s %s", Hex(c.PublicSpendKey[:]), Hex(c.PublicViewKey[:]), Hex(p.PublicSpendKey[:]), Hex(p.PublicViewKey[:]))
	}
	w.lines = append(w.lines, sb.String())
}

func c05NewWorld(r *Rand) *c05GWorld {
	w := &c05GWorld{r: r, txs: map[crypto.Hash]*common.VersionedTransaction{}, consistent: true}
	w.lines = []string{"reset"}
	w.otherAsset = crypto.Sha256Hash(r.Bytes(8))
	w.assets = []crypto.Hash{common.XINAssetId, common.XINAssetId, common.BitcoinAssetId, common.EthereumAssetId, w.otherAsset}
	nf := r.Range(2, 4)
	w.funding(common.XINAssetId, r.Range(2, 5))
	for i := 1; i < nf; i++ {
		w.funding(Pick(r, w.assets), r.Range(1, 5))
	}
	w.addNodes()
	if !r.Chance(1, 25) {
		w.addCustodian()
	} else {
		// no custodian at the snapshot time: outside the stated precondition custodianEpoch <= ts
		w.consistent = false
	}
	// a finalized withdrawal submit transaction (claims reference it)
	if r.Chance(1, 2) {
		tx := common.NewTransactionV5(common.BitcoinAssetId)
		tx.AddInput(w.randHash(), 0)
		tx.Outputs = append(tx.Outputs, &common.Output{Type: common.OutputTypeWithdrawalSubmit, Amount: w.genAmount(),
			Withdrawal: &common.WithdrawalData{Address: "destination", Tag: "memo"}})
		v, _ := w.storeTx(tx, nil, !r.Chance(1, 6))
		w.submits = append(w.submits, v.PayloadHash())
	}
	// asset records, a mint distribution, some locks
	if r.Chance(2, 3) {
		w.lines = append(w.lines, fmt.Sprintf("asset %s %s %s %d", Hex(common.BitcoinAssetId[:]), Hex(common.BitcoinAssetId[:]),
			Hex([]byte("c6d0c728-2624-429b-8e0d-d9d19b6592fa")), r.Intn(3)*124999999999+r.Intn(2)))
	}
	if r.Chance(1, 2) {
		h := w.randHash()
		w.lines = append(w.lines, fmt.Sprintf("mint %d %d %s", 100+r.Intn(3), 50000000+r.Intn(2), Hex(h[:])))
	}
	return w
}

func (w *c05GWorld) ReadUTXOKeys(h crypto.Hash, i uint) (*common.UTXOKeys, error) {
	for _, g := range w.utxos {
		if g.u.Hash == h && g.u.Index == i {
			return &common.UTXOKeys{Mask: g.u.Mask, Keys: g.u.Keys}, nil
		}
	}
	return nil, nil
}

func c05Spendable(g *c05GUtxo) bool {
	return (g.u.Type == common.OutputTypeScript || g.u.Type == common.OutputTypeNodeRemove) && len(g.owners) > 0
}

// 1..k c05Spendable utxos of one asset
func (w *c05GWorld) pickInputs(asset *crypto.Hash, max int) []*c05GUtxo {
	var cands []*c05GUtxo
	for _, g := range w.utxos {
		if c05Spendable(g) && (asset == nil || g.u.Asset == *asset) {
			cands = append(cands, g)
		}
	}
	if len(cands) == 0 {
		return nil
	}
	first := Pick(w.r, cands)
	res := []*c05GUtxo{first}
	for _, g := range cands {
		if g != first && g.u.Asset == first.u.Asset && len(res) < max && w.r.Chance(2, 3) {
			res = append(res, g)
		}
	}
	w.r.Fork() // keep the stream position independent of the candidate count
	return res
}

func c05SumUtxos(ins []*c05GUtxo) *big.Int {
	t := new(big.Int)
	for _, g := range ins {
		t.Add(t, integerToBig(g.u.Amount))
	}
	return t
}

// split total into at most m positive parts
func (w *c05GWorld) split(total *big.Int, m int) []*big.Int {
	var parts []*big.Int
	rest := new(big.Int).Set(total)
	for i := 0; i < m-1; i++ {
		if rest.Cmp(big.NewInt(2)) < 0 {
			break
		}
		p := new(big.Int).SetUint64(w.r.U64())
		p.Mod(p, new(big.Int).Sub(rest, big.NewInt(1)))
		p.Add(p, big.NewInt(1))
		parts = append(parts, p)
		rest.Sub(rest, p)
	}
	return append(parts, rest)
}

func (w *c05GWorld) addChange(tx *common.Transaction, total *big.Int, m int) {
	if total.Sign() <= 0 {
		return
	}
	for _, p := range w.split(total, m) {
		nk := w.r.Range(1, 3)
		var accs []*common.Address
		for len(accs) < nk {
			accs = append(accs, w.acct())
		}
		tx.AddScriptOutput(accs, w.scriptFor(nk), integerFromBig(p), w.seed())
	}
}

type c05SigMode int

const (
	c05SigMaps c05SigMode = iota
	c05SigAggregate
	c05SigNone
)

// sign every ordinary input with enough of its owners (key order preserved)
func (w *c05GWorld) sign(tx *common.Transaction, ins []*c05GUtxo, mode c05SigMode) *common.SignedTransaction {
	signed := &common.SignedTransaction{Transaction: *tx}
	uneven := len(ins) > 1 && w.r.Chance(1, 5)
	choose := func(g *c05GUtxo) []*common.Address {
		th := 0
		if len(g.u.Script) == 3 {
			th = int(g.u.Script[2])
		}
		n := th
		if n < len(g.owners) && w.r.Chance(1, 3) {
			n = w.r.Range(th, len(g.owners))
		}
		if uneven { // some inputs fully signed, others partially or not at all
			n = Pick(w.r, []int{0, th - 1, th, len(g.owners), len(g.owners)})
		}
		if n < 0 {
			n = 0
		}
		if n > len(g.owners) {
			n = len(g.owners)
		}
		// a random subsequence of size n
		idx := make([]int, len(g.owners))
		for i := range idx {
			idx[i] = i
		}
		for i := len(idx) - 1; i > 0; i-- {
			j := w.r.Intn(i + 1)
			idx[i], idx[j] = idx[j], idx[i]
		}
		idx = idx[:n]
		sort.Ints(idx)
		var res []*common.Address
		for _, i := range idx {
			res = append(res, g.owners[i])
		}
		return res
	}
	switch mode {
	case c05SigMaps:
		for i, g := range ins {
			if g == nil {
				continue
			}
			accs := choose(g)
			if len(accs) == 0 {
				signed.SignaturesMap = append(signed.SignaturesMap, map[uint16]*crypto.Signature{})
				continue
			}
			if err := signed.SignInput(w, i, accs); err != nil {
				signed.SignaturesMap = append(signed.SignaturesMap, map[uint16]*crypto.Signature{})
			}
		}
	case c05SigAggregate:
		var accs [][]*common.Address
		for _, g := range ins {
			if g == nil {
				return signed
			}
			accs = append(accs, choose(g))
		}
		_, _, _ = Catch(func() string { _ = signed.AggregateSign(w, accs, w.r.Bytes(32)); return "" })
	}
	return signed
}

type c05Builder func(w *c05GWorld, mut func(*common.Transaction)) (*common.SignedTransaction, string)

func (w *c05GWorld) sigModeFor(ins []*c05GUtxo) c05SigMode {
	if w.r.Chance(1, 3) {
		return c05SigAggregate
	}
	return c05SigMaps
}

func c05BuildTransfer(w *c05GWorld, mut func(*common.Transaction)) (*common.SignedTransaction, string) {
	max := Pick(w.r, []int{4, 4, 4, 8})
	if w.r.Chance(1, 40) {
		max = 256
	}
	ins := w.pickInputs(nil, max)
	if ins == nil {
		return nil, ""
	}
	tx := common.NewTransactionV5(ins[0].u.Asset)
	if w.r.Chance(1, 14) { // the same output spent twice, outputs worth twice its amount
		ins = append(ins, ins[w.r.Intn(len(ins))])
	}
	for _, g := range ins {
		tx.AddInput(g.u.Hash, g.u.Index)
	}
	w.addChange(tx, c05SumUtxos(ins), w.r.Range(1, 4))
	if w.r.Chance(1, 4) {
		tx.Extra = w.r.Bytes(w.r.Range(1, 256))
	}
	if w.r.Chance(1, 8) && len(w.submits) > 0 {
		tx.References = append(tx.References, w.submits[0])
	}
	mut(tx)
	return w.sign(tx, c05InsFor(w, tx, ins), w.sigModeFor(ins)), "transfer"
}

// the utxo behind each input after a mutation may have changed the input list
func c05InsFor(w *c05GWorld, tx *common.Transaction, _ []*c05GUtxo) []*c05GUtxo {
	res := make([]*c05GUtxo, len(tx.Inputs))
	for i, in := range tx.Inputs {
		if in.Mint != nil || in.Deposit != nil || len(in.Genesis) > 0 {
			continue
		}
		for _, g := range w.utxos {
			if g.u.Hash == in.Hash && g.u.Index == in.Index && len(g.owners) > 0 {
				res[i] = g
			}
		}
	}
	return res
}

func c05BuildMint(w *c05GWorld, mut func(*common.Transaction)) (*common.SignedTransaction, string) {
	tx := common.NewTransactionV5(common.XINAssetId)
	amt := big.NewInt(50000000 + int64(w.r.Intn(2)))
	tx.AddUniversalMintInput(uint64(99+w.r.Intn(5)), integerFromBig(amt))
	outAmt := amt
	if w.r.Chance(1, 4) { // the same input also carries a deposit section of another amount
		damt := big.NewInt(int64(w.r.Range(1, 2000)) * 100000)
		tx.Inputs[0].Deposit = &common.DepositData{Chain: common.BitcoinAssetId, AssetKey: "c6d0c728-2624-429b-8e0d-d9d19b6592fa",
			Transaction: fmt.Sprintf("%x", w.r.Bytes(16)), Index: uint64(w.r.Intn(3)), Amount: integerFromBig(damt)}
		if w.r.Bool() {
			outAmt = damt
		}
	}
	w.addChange(tx, outAmt, w.r.Range(1, 3))
	mut(tx)
	signed := &common.SignedTransaction{Transaction: *tx}
	_ = signed.SignRaw(w.acct().PrivateSpendKey)
	if w.r.Chance(1, 5) {
		w.mixOrdinaryInput(signed)
	}
	return signed, "mint"
}

// a mint / deposit transaction with one more, ordinary, input before or after the special one and
// one (unverified) signature map per input: the early return of validateInputs skips the batch
// verification, only the one-input rule of the type validator rejects it
func (w *c05GWorld) mixOrdinaryInput(signed *common.SignedTransaction) {
	ins := w.pickInputs(&signed.Asset, 1)
	if ins == nil || len(signed.Inputs) != 1 || len(signed.SignaturesMap) != 1 {
		return
	}
	g := ins[0]
	m := map[uint16]*crypto.Signature{}
	for i := 0; i < int(g.u.Script[2]) && i < len(g.u.Keys); i++ {
		var sg crypto.Signature
		copy(sg[:], w.r.Bytes(64))
		m[uint16(i)] = &sg
	}
	in := &common.Input{Hash: g.u.Hash, Index: g.u.Index}
	if w.r.Bool() {
		signed.Inputs = append([]*common.Input{in}, signed.Inputs...)
		signed.SignaturesMap = append([]map[uint16]*crypto.Signature{m}, signed.SignaturesMap...)
	} else {
		signed.Inputs = append(signed.Inputs, in)
		signed.SignaturesMap = append(signed.SignaturesMap, m)
	}
}

func c05BuildDeposit(w *c05GWorld, mut func(*common.Transaction)) (*common.SignedTransaction, string) {
	tx := common.NewTransactionV5(common.BitcoinAssetId)
	amt := big.NewInt(int64(w.r.Range(1, 1000)) * 100000000)
	if w.r.Chance(1, 8) {
		amt = big.NewInt(250000000000 - int64(w.r.Intn(3)) + 1)
	}
	d := &common.DepositData{Chain: common.BitcoinAssetId, AssetKey: "c6d0c728-2624-429b-8e0d-d9d19b6592fa",
		Transaction: fmt.Sprintf("%x", w.r.Bytes(32)), Index: uint64(w.r.Intn(4)), Amount: integerFromBig(amt)}
	if w.r.Chance(1, 12) {
		d.AssetKey = Pick(w.r, []string{"", " x", "other"})
	}
	if w.r.Chance(1, 12) {
		d.Transaction = Pick(w.r, []string{"", "x "})
	}
	if w.r.Chance(1, 12) {
		d.Chain = crypto.Hash{}
	}
	tx.AddDepositInput(d)
	tx.AddScriptOutput([]*common.Address{w.acct()}, common.NewThresholdScript(1), integerFromBig(amt), w.seed())
	if w.r.Chance(1, 8) { // the same input also carries a mint section of another amount
		mamt := big.NewInt(50000000 + int64(w.r.Intn(2)))
		tx.Inputs[0].Mint = &common.MintData{Group: "UNIVERSAL", Batch: uint64(99 + w.r.Intn(5)), Amount: integerFromBig(mamt)}
		tx.Asset = common.XINAssetId
		if w.r.Bool() {
			tx.Outputs[0].Amount = integerFromBig(mamt)
		}
	}
	mut(tx)
	signed := &common.SignedTransaction{Transaction: *tx}
	key := w.acct().PrivateSpendKey
	if w.custodian != nil && !w.r.Chance(1, 10) {
		key = w.custodian.PrivateSpendKey
	}
	_ = signed.SignRaw(key)
	w.soleSigShape(signed)
	if w.r.Chance(1, 8) {
		w.mixOrdinaryInput(signed)
	}
	if w.r.Chance(1, 10) {
		h := signed.AsVersioned().PayloadHash()
		if w.r.Bool() {
			h = w.randHash()
		}
		uk := d.UniqueKey()
		w.lines = append(w.lines, fmt.Sprintf("dlock %s %s", Hex(uk[:]), Hex(h[:])))
	}
	return signed, "deposit"
}

func c05BuildWithdrawalSubmit(w *c05GWorld, mut func(*common.Transaction)) (*common.SignedTransaction, string) {
	ins := w.pickInputs(nil, 3)
	if ins == nil {
		return nil, ""
	}
	tx := common.NewTransactionV5(ins[0].u.Asset)
	for _, g := range ins {
		tx.AddInput(g.u.Hash, g.u.Index)
	}
	parts := w.split(c05SumUtxos(ins), w.r.Range(1, 3))
	tx.Outputs = append(tx.Outputs, &common.Output{Type: common.OutputTypeWithdrawalSubmit, Amount: integerFromBig(parts[0]),
		Withdrawal: &common.WithdrawalData{Address: "bc1destination", Tag: ""}})
	for _, p := range parts[1:] {
		tx.AddScriptOutput([]*common.Address{w.acct()}, common.NewThresholdScript(1), integerFromBig(p), w.seed())
	}
	mut(tx)
	return w.sign(tx, c05InsFor(w, tx, ins), w.sigModeFor(ins)), "withdrawal-submit"
}

func c05BuildWithdrawalClaim(w *c05GWorld, mut func(*common.Transaction)) (*common.SignedTransaction, string) {
	asset := common.XINAssetId
	ins := w.pickInputs(&asset, 2)
	if ins == nil || len(w.submits) == 0 {
		return nil, ""
	}
	tx := common.NewTransactionV5(asset)
	for _, g := range ins {
		tx.AddInput(g.u.Hash, g.u.Index)
	}
	parts := w.split(c05SumUtxos(ins), 2)
	tx.Outputs = append(tx.Outputs, &common.Output{Type: common.OutputTypeWithdrawalClaim, Amount: integerFromBig(parts[0])})
	for _, p := range parts[1:] {
		tx.AddScriptOutput([]*common.Address{w.acct()}, common.NewThresholdScript(1), integerFromBig(p), w.seed())
	}
	tx.References = []crypto.Hash{w.submits[0]}
	body := w.r.Bytes(w.r.Range(0, 40))
	key := w.acct().PrivateSpendKey
	if w.custodian != nil && !w.r.Chance(1, 8) {
		key = w.custodian.PrivateSpendKey
	}
	sig := key.Sign(crypto.Blake3Hash(body))
	tx.Extra = append(sig[:], body...)
	switch w.r.Intn(24) {
	case 0:
		tx.Extra = tx.Extra[:Pick(w.r, []int{0, 1, 32, 63, 64})]
	case 1:
		tx.References = nil
	case 2:
		tx.References = append(tx.References, w.submits[0])
	case 3:
		if len(tx.Outputs) > 1 {
			tx.Outputs[0], tx.Outputs[1] = tx.Outputs[1], tx.Outputs[0]
		}
	}
	mut(tx)
	return w.sign(tx, c05InsFor(w, tx, ins), w.sigModeFor(ins)), "withdrawal-claim"
}

func c05BuildNodePledge(w *c05GWorld, mut func(*common.Transaction)) (*common.SignedTransaction, string) {
	asset := common.XINAssetId
	ins := w.pickInputs(&asset, 1)
	if ins == nil {
		return nil, ""
	}
	accts := c05VAccounts()
	signer, payee := accts[20], accts[21]
	if w.r.Chance(1, 8) && len(w.accepted) > 0 {
		signer = w.accepted[0].signer
	}
	tx := w.buildPledge(ins[0], signer, payee)
	switch w.r.Intn(16) {
	case 0:
		tx.Extra = tx.Extra[:63]
	case 1:
		tx.Extra = append(tx.Extra, 0)
	case 2:
		copy(tx.Extra, w.r.Bytes(32))
	}
	mut(tx)
	return w.sign(tx, c05InsFor(w, tx, ins), w.sigModeFor(ins)), "node-pledge"
}

func c05BuildNodeAccept(w *c05GWorld, mut func(*common.Transaction)) (*common.SignedTransaction, string) {
	if w.pledging == nil {
		return nil, ""
	}
	p := w.pledging
	tx := common.NewTransactionV5(common.XINAssetId)
	tx.AddInput(p.utxo.u.Hash, p.utxo.u.Index)
	tx.AddOutputWithType(common.OutputTypeNodeAccept, nil, common.Script{}, p.utxo.u.Amount, w.seed())
	tx.Extra = p.tx.Extra
	if w.r.Chance(1, 12) {
		tx.Extra = append([]byte{}, p.tx.Extra[:63]...)
	}
	mut(tx)
	signed := &common.SignedTransaction{Transaction: *tx}
	key := p.signer.PrivateSpendKey
	if w.r.Chance(1, 8) {
		key = p.payee.PrivateSpendKey
	}
	sig := key.Sign(signed.AsVersioned().PayloadHash())
	signed.SignaturesMap = []map[uint16]*crypto.Signature{{0: &sig}}
	w.soleSigShape(signed)
	return signed, "node-accept"
}

func c05BuildNodeCancel(w *c05GWorld, mut func(*common.Transaction)) (*common.SignedTransaction, string) {
	if w.pledging == nil || len(w.pledging.utxo.owners) == 0 {
		return nil, ""
	}
	p := w.pledging
	owner := p.utxo.owners[0]
	tx := common.NewTransactionV5(common.XINAssetId)
	tx.AddInput(p.utxo.u.Hash, p.utxo.u.Index)
	total := integerToBig(p.utxo.u.Amount)
	c := new(big.Int).Div(total, big.NewInt(100))
	if c.Sign() == 0 {
		return nil, ""
	}
	tx.AddOutputWithType(common.OutputTypeNodeCancel, nil, common.Script{}, integerFromBig(c), w.seed())
	rest := new(big.Int).Sub(total, c)
	if rest.Sign() <= 0 {
		return nil, ""
	}
	tx.AddScriptOutput([]*common.Address{owner}, common.NewThresholdScript(1), integerFromBig(rest), w.seed())
	view := owner.PrivateViewKey
	if w.r.Chance(1, 3) { // non-canonical scalar
		view = c05KeyOf(bytes.Repeat([]byte{0xff}, 32))
	}
	tx.Extra = append(append([]byte{}, p.tx.Extra...), view[:]...)
	mut(tx)
	signed := &common.SignedTransaction{Transaction: *tx}
	sig := owner.PrivateSpendKey.Sign(signed.AsVersioned().PayloadHash())
	signed.SignaturesMap = []map[uint16]*crypto.Signature{{0: &sig}}
	w.soleSigShape(signed)
	return signed, "node-cancel"
}

func c05BuildNodeRemove(w *c05GWorld, mut func(*common.Transaction)) (*common.SignedTransaction, string) {
	if len(w.accepted) == 0 {
		return nil, ""
	}
	a := Pick(w.r, w.accepted)
	tx := common.NewTransactionV5(common.XINAssetId)
	tx.AddInput(a.utxo.u.Hash, a.utxo.u.Index)
	tx.AddOutputWithType(common.OutputTypeNodeRemove, []*common.Address{a.payee}, common.NewThresholdScript(1), a.utxo.u.Amount, w.seed())
	tx.Extra = a.tx.Extra
	if w.r.Chance(1, 12) {
		tx.Extra = append(append([]byte{}, a.tx.Extra...), 1)
	}
	mut(tx)
	signed := &common.SignedTransaction{Transaction: *tx}
	if w.r.Chance(1, 3) {
		signed.SignaturesMap = []map[uint16]*crypto.Signature{{}}
	}
	return signed, "node-remove"
}

func c05BuildCustodianUpdate(w *c05GWorld, mut func(*common.Transaction)) (*common.SignedTransaction, string) {
	asset := common.XINAssetId
	ins := w.pickInputs(&asset, 3)
	if ins == nil || w.custodian == nil {
		return nil, ""
	}
	accts := c05VAccounts()
	next := accts[12]
	if w.r.Chance(1, 2) {
		next = accts[22]
	}
	network := crypto.Blake3Hash([]byte("verif-network"))
	type cn struct {
		spend crypto.Key
		extra []byte
	}
	var nodes []cn
	n := 7
	if len(w.custNodes) == 7 && w.r.Bool() {
		for _, p := range w.custNodes {
			nodes = append(nodes, cn{p[0].PublicSpendKey, common.EncodeCustodianNode(p[0], p[1], &accts[0].PrivateSpendKey, &p[1].PrivateSpendKey, &p[0].PrivateSpendKey, network)})
		}
	} else {
		for i := 0; i < n; i++ {
			c, p := accts[(13+i)%len(accts)], accts[(2+i)%len(accts)]
			nodes = append(nodes, cn{c.PublicSpendKey, common.EncodeCustodianNode(c, p, &accts[0].PrivateSpendKey, &p.PrivateSpendKey, &c.PrivateSpendKey, network)})
		}
	}
	if !w.r.Chance(1, 10) {
		sort.Slice(nodes, func(i, j int) bool { return bytes.Compare(nodes[i].spend[:], nodes[j].spend[:]) < 0 })
	}
	extra := append(append([]byte{}, next.PublicSpendKey[:]...), next.PublicViewKey[:]...)
	for _, x := range nodes {
		extra = append(extra, x.extra...)
	}
	key := w.custodian.PrivateSpendKey
	if w.r.Chance(1, 8) {
		key = accts[1].PrivateSpendKey
	}
	sig := key.Sign(crypto.Blake3Hash(extra))
	extra = append(extra, sig[:]...)
	tx := common.NewTransactionV5(asset)
	for _, g := range ins {
		tx.AddInput(g.u.Hash, g.u.Index)
	}
	tx.AddOutputWithType(common.OutputTypeCustodianUpdateNodes, []*common.Address{w.acct()}, common.NewThresholdScript(64), integerFromBig(c05SumUtxos(ins)), w.seed())
	tx.Extra = extra
	mut(tx)
	return w.sign(tx, c05InsFor(w, tx, ins), w.sigModeFor(ins)), "custodian-update"
}

func c05HugeAmount(r *Rand) common.Integer {
	k := uint(Pick(r, []int{53, 63, 64, 65, 77, 78, 128, 256, 512, 520}))
	n := new(big.Int).Lsh(big.NewInt(1), k)
	n.Add(n, big.NewInt(int64(r.Range(-1, 1))))
	return integerFromBig(n)
}

// pre-signature mutations (signatures stay valid over the mutated payload)
func (w *c05GWorld) preMutation() (func(*common.Transaction), string) {
	r := w.r
	muts := []struct {
		name string
		f    func(tx *common.Transaction)
	}{
		{"amount+1", func(tx *common.Transaction) {
			o := Pick(r, tx.Outputs)
			o.Amount = integerFromBig(new(big.Int).Add(integerToBig(o.Amount), big.NewInt(1)))
		}},
		{"amount-1", func(tx *common.Transaction) {
			o := Pick(r, tx.Outputs)
			o.Amount = integerFromBig(new(big.Int).Sub(integerToBig(o.Amount), big.NewInt(1)))
		}},
		{"amount-huge", func(tx *common.Transaction) { Pick(r, tx.Outputs).Amount = c05HugeAmount(r) }},
		{"amount-zero", func(tx *common.Transaction) { Pick(r, tx.Outputs).Amount = common.Zero }},
		{"storage-output", func(tx *common.Transaction) {
			amt := c05BigAmount(int64(Pick(r, []int{9999, 10000, 10001, 40950000, 40960000, 40970000, 100000000})))
			if r.Chance(1, 2) {
				amt = c05HugeAmount(r)
			}
			tx.AddScriptOutput([]*common.Address{w.acct()}, common.NewThresholdScript(64), amt, w.seed())
			if r.Bool() {
				tx.Extra = r.Bytes(Pick(r, []int{255, 256, 257, 1024, 1025, 4096}))
			}
		}},
		{"storage-huge-xin", func(tx *common.Transaction) {
			// a XIN transaction with a storage-style output (one key, script fffe40) of huge amount
			asset := common.XINAssetId
			ins := w.pickInputs(&asset, 2)
			if ins == nil {
				return
			}
			tx.Asset = asset
			tx.Inputs = nil
			for _, g := range ins {
				tx.AddInput(g.u.Hash, g.u.Index)
			}
			tx.AddScriptOutput([]*common.Address{w.acct()}, common.NewThresholdScript(64), c05HugeAmount(r), w.seed())
		}},
		{"output-type", func(tx *common.Transaction) {
			Pick(r, tx.Outputs).Type = Pick(r, []uint8{0x00, 0xa1, 0xa3, 0xa4, 0xa5, 0xa6, 0xa9, 0xaa, 0xb1, 0xb2, 0x01, 0x7f, 0xff})
		}},
		{"node-remove-typed", func(tx *common.Transaction) {
			// a node-remove typed transaction spending an ordinary XIN script utxo
			asset := common.XINAssetId
			ins := w.pickInputs(&asset, 1)
			if ins == nil {
				return
			}
			tx.Asset = asset
			tx.Inputs = nil
			tx.AddInput(ins[0].u.Hash, ins[0].u.Index)
			tx.Outputs = tx.Outputs[:1]
			tx.Outputs[0].Type = common.OutputTypeNodeRemove
			tx.Outputs[0].Amount = ins[0].u.Amount
		}},
		{"many-outputs", func(tx *common.Transaction) {
			n := Pick(r, []int{8, 64, 255, 256}) - len(tx.Outputs)
			a := w.acct()
			for i := 0; i < n; i++ {
				tx.AddScriptOutput([]*common.Address{a}, common.NewThresholdScript(1), c05BigAmount(1), w.seed())
			}
		}},
		{"many-inputs", func(tx *common.Transaction) {
			n := Pick(r, []int{8, 255, 256}) - len(tx.Inputs)
			for i := 0; i < n; i++ {
				tx.AddInput(w.randHash(), uint(r.Intn(3)))
			}
		}},
		{"foreign-asset-input", func(tx *common.Transaction) {
			for _, g := range w.utxos {
				if g.u.Asset != tx.Asset {
					tx.AddInput(g.u.Hash, g.u.Index)
					return
				}
			}
		}},
		{"asset-switched", func(tx *common.Transaction) { tx.Asset = Pick(r, w.assets) }},
		{"duplicate-input", func(tx *common.Transaction) { tx.Inputs = append(tx.Inputs, tx.Inputs[r.Intn(len(tx.Inputs))]) }},
		{"missing-input", func(tx *common.Transaction) { tx.AddInput(w.randHash(), uint(r.Intn(3))) }},
		{"other-typed-input", func(tx *common.Transaction) {
			for _, g := range w.utxos {
				if !c05Spendable(g) && r.Chance(1, 2) {
					tx.AddInput(g.u.Hash, g.u.Index)
					return
				}
			}
		}},
		{"mint-input-mixed", func(tx *common.Transaction) {
			in := &common.Input{Mint: &common.MintData{Group: Pick(r, []string{"UNIVERSAL", "KERNELNODE", ""}), Batch: uint64(100 + r.Intn(3)), Amount: w.genAmount()}}
			k := r.Intn(len(tx.Inputs) + 1)
			tx.Inputs = append(tx.Inputs[:k], append([]*common.Input{in}, tx.Inputs[k:]...)...)
		}},
		{"deposit-input-mixed", func(tx *common.Transaction) {
			in := &common.Input{Deposit: &common.DepositData{Chain: common.BitcoinAssetId, AssetKey: "k", Transaction: "t", Amount: w.genAmount()}}
			if r.Chance(1, 3) {
				in.Mint = &common.MintData{Group: "UNIVERSAL", Batch: 1, Amount: w.genAmount()}
			}
			k := r.Intn(len(tx.Inputs) + 1)
			tx.Inputs = append(tx.Inputs[:k], append([]*common.Input{in}, tx.Inputs[k:]...)...)
		}},
		{"special-only-replaced", func(tx *common.Transaction) {
			tx.Inputs = []*common.Input{{Mint: &common.MintData{Group: "UNIVERSAL", Batch: 200, Amount: tx.Outputs[0].Amount}}}
			tx.Outputs = tx.Outputs[:1]
		}},
		{"multi-section-input", func(tx *common.Transaction) { w.multiSectionInput(tx) }},
		{"extra-boundary", func(tx *common.Transaction) { w.resizeExtra(tx) }},
		{"extra-boundary", func(tx *common.Transaction) { w.resizeExtra(tx) }},
		{"extra-boundary", func(tx *common.Transaction) { w.resizeExtra(tx) }},
		{"genesis-input", func(tx *common.Transaction) { Pick(r, tx.Inputs).Genesis = r.Bytes(r.Range(1, 32)) }},
		{"input-index", func(tx *common.Transaction) { Pick(r, tx.Inputs).Index = uint(Pick(r, []int{1, 2, 1023, 1024})) }},
		{"extra-size", func(tx *common.Transaction) { tx.Extra = r.Bytes(Pick(r, []int{0, 1, 63, 64, 65, 95, 96, 97, 256, 257})) }},
		{"references", func(tx *common.Transaction) {
			n := Pick(r, []int{1, 2, 16, 17})
			for i := 0; i < n; i++ {
				if len(w.submits) > 0 && r.Bool() {
					tx.References = append(tx.References, w.submits[0])
				} else {
					tx.References = append(tx.References, w.randHash())
				}
			}
		}},
		{"script", func(tx *common.Transaction) {
			Pick(r, tx.Outputs).Script = Pick(r, []common.Script{{}, {0xff, 0xfe}, {0xff, 0xfe, 0x41}, {0xff, 0xfe, 0x40}, {0xff, 0xfe, 0}, {0xfe, 0xff, 1}, {0xff, 0xfe, 1, 0}})
		}},
		{"mask", func(tx *common.Transaction) {
			o := Pick(r, tx.Outputs)
			if r.Bool() {
				o.Mask = crypto.Key{}
			} else {
				o.Mask = c05KeyOf(r.Bytes(32))
			}
		}},
		{"bad-key", func(tx *common.Transaction) {
			o := Pick(r, tx.Outputs)
			k := c05KeyOf(r.Bytes(32))
			if len(o.Keys) > 0 && r.Bool() {
				o.Keys[r.Intn(len(o.Keys))] = &k
			} else {
				o.Keys = append(o.Keys, &k)
			}
		}},
		{"duplicate-key", func(tx *common.Transaction) {
			for _, o := range tx.Outputs {
				if len(o.Keys) > 0 {
					k := *o.Keys[0]
					Pick(r, tx.Outputs).Keys = append(Pick(r, tx.Outputs).Keys, &k)
					return
				}
			}
		}},
		{"ghost-locked", func(tx *common.Transaction) {
			for _, o := range tx.Outputs {
				if len(o.Keys) > 0 {
					h := w.randHash()
					w.lines = append(w.lines, fmt.Sprintf("glock %s %s", Hex(o.Keys[0][:]), Hex(h[:])))
					return
				}
			}
		}},
		{"withdrawal-on-output", func(tx *common.Transaction) {
			Pick(r, tx.Outputs).Withdrawal = &common.WithdrawalData{Address: "a", Tag: "t"}
		}},
		{"keys-on-output", func(tx *common.Transaction) {
			k := w.acct().PublicSpendKey
			Pick(r, tx.Outputs).Keys = []*crypto.Key{&k}
		}},
		{"extra-output-node", func(tx *common.Transaction) {
			tx.Outputs = append(tx.Outputs, &common.Output{Type: Pick(r, []uint8{0xa1, 0xa3, 0xa4, 0xa6, 0xa9, 0xaa, 0xb1}), Amount: c05BigAmount(1)})
		}},
		{"locked-input", func(tx *common.Transaction) {
			for _, in := range tx.Inputs {
				for _, g := range w.utxos {
					if g.u.Hash == in.Hash && g.u.Index == in.Index {
						g.u.LockHash = w.randHash()
						return
					}
				}
			}
		}},
	}
	m := Pick(r, muts)
	return func(tx *common.Transaction) {
		if len(tx.Outputs) == 0 || len(tx.Inputs) == 0 {
			return
		}
		m.f(tx)
	}, m.name
}

// map indexes in increasing order (Go map iteration order is random; every choice derives from r)
func c05SortedIdx(m map[uint16]*crypto.Signature) []uint16 {
	var l []uint16
	for i := range m {
		l = append(l, i)
	}
	sort.Slice(l, func(a, b int) bool { return l[a] < l[b] })
	return l
}

// post-signature mutations of the signature section
func (w *c05GWorld) postMutation(s *common.SignedTransaction) string {
	r := w.r
	if as := s.AggregatedSignature; as != nil {
		switch r.Intn(6) {
		case 0:
			as.Signature[r.Intn(64)] ^= 1 << r.Intn(8)
			return "agg-sig-flip"
		case 1:
			if len(as.Signers) > 0 {
				as.Signers = as.Signers[:len(as.Signers)-1]
			}
			return "agg-signer-dropped"
		case 2:
			last := -1
			if len(as.Signers) > 0 {
				last = as.Signers[len(as.Signers)-1]
			}
			as.Signers = append(as.Signers, last+1+r.Intn(3))
			return "agg-signer-added"
		case 3:
			for i := range as.Signers {
				as.Signers[i] += 1
			}
			return "agg-signers-shifted"
		case 4:
			as.Signers = nil
			return "agg-no-signers"
		default:
			s.AggregatedSignature = nil
			return "agg-removed"
		}
	}
	switch r.Intn(9) {
	case 0:
		s.SignaturesMap = nil
		return "sigs-nil"
	case 1:
		if len(s.SignaturesMap) > 0 {
			s.SignaturesMap = s.SignaturesMap[:len(s.SignaturesMap)-1]
		}
		return "sigs-missing-map"
	case 2:
		s.SignaturesMap = append(s.SignaturesMap, map[uint16]*crypto.Signature{})
		return "sigs-surplus-map"
	case 3:
		if len(s.SignaturesMap) > 0 {
			s.SignaturesMap[r.Intn(len(s.SignaturesMap))] = map[uint16]*crypto.Signature{}
		}
		return "sigs-empty-map"
	case 4:
		for _, m := range s.SignaturesMap {
			for _, i := range c05SortedIdx(m) {
				delete(m, i)
				return "sigs-one-removed"
			}
		}
		return "sigs-one-removed"
	case 5:
		for _, m := range s.SignaturesMap {
			for _, i := range c05SortedIdx(m) {
				sg := m[i]
				delete(m, i)
				m[uint16(Pick(r, []int{1, 2, 3, 8, 255, 65535}))] = sg
				return "sigs-index-moved"
			}
		}
		return "sigs-index-moved"
	case 6:
		if n := len(s.SignaturesMap); n > 1 {
			s.SignaturesMap[0], s.SignaturesMap[n-1] = s.SignaturesMap[n-1], s.SignaturesMap[0]
		}
		return "sigs-swapped"
	case 7:
		for _, m := range s.SignaturesMap {
			for _, i := range c05SortedIdx(m) {
				sg := m[i]
				sg[r.Intn(64)] ^= 1 << r.Intn(8)
				return "sig-flip"
			}
		}
		return "sig-flip"
	default:
		// a signature of a different key under a valid index
		for _, m := range s.SignaturesMap {
			for _, i := range c05SortedIdx(m) {
				sg := w.acct().PrivateSpendKey.Sign(s.AsVersioned().PayloadHash())
				m[i] = &sg
				return "sig-foreign"
			}
		}
		return "sig-foreign"
	}
}

// ledger corruptions: the ledger no longer satisfies the invariants of reachable states
func (w *c05GWorld) corrupt() string {
	r := w.r
	w.consistent = false
	switch r.Intn(7) {
	case 0:
		if len(w.utxos) > 0 {
			Pick(r, w.utxos).u.Amount = common.Zero
		}
		return "utxo-zero-amount"
	case 1: // a utxo whose creating transaction is not stored
		a := w.acct()
		tx := common.NewTransactionV5(common.XINAssetId)
		tx.AddInput(w.randHash(), 0)
		ot := Pick(r, []uint8{common.OutputTypeScript, common.OutputTypeNodeAccept})
		if ot == common.OutputTypeScript {
			tx.AddScriptOutput([]*common.Address{a}, common.NewThresholdScript(1), w.genAmount(), w.seed())
		} else {
			tx.AddOutputWithType(ot, nil, common.Script{}, w.genAmount(), w.seed())
		}
		for _, u := range tx.AsVersioned().UnspentOutputs() {
			w.utxos = append([]*c05GUtxo{{u: u, owners: []*common.Address{a}}}, w.utxos...)
			if ot != common.OutputTypeScript {
				w.accepted = append(w.accepted, &c05GNode{signer: a, payee: a, tx: tx.AsVersioned(), utxo: w.utxos[0]})
			}
		}
		return "utxo-without-tx"
	case 2:
		a := w.acct()
		n := &common.Node{Signer: c05GenesisAddr(a), Payee: *a, State: Pick(r, []string{"RESIGNING", ""}), Transaction: w.randHash()}
		w.nodeLine(n)
		return "node-unknown-state"
	case 3: // a pledging node whose transaction is missing
		a := w.acct()
		h := w.randHash()
		if w.pledging != nil {
			return "none"
		}
		n := &common.Node{Signer: c05GenesisAddr(a), Payee: *a, State: common.NodeStatePledging, Transaction: h}
		w.nodeLine(n)
		u := &common.UTXOWithLock{UTXO: common.UTXO{Input: common.Input{Hash: h}, Output: common.Output{Type: common.OutputTypeNodePledge, Amount: w.genAmount()}, Asset: common.XINAssetId}}
		w.utxos = append(w.utxos, &c05GUtxo{u: u})
		w.pledging = &c05GNode{signer: a, payee: a, tx: common.NewTransactionV5(common.XINAssetId).AsVersioned(), utxo: w.utxos[len(w.utxos)-1]}
		w.pledging.tx.Extra = append(append([]byte{}, a.PublicSpendKey[:]...), a.PublicSpendKey[:]...)
		return "pledging-node-without-tx"
	case 4: // no custodian at the snapshot time
		var keep []string
		for _, l := range w.lines {
			if len(l) < 5 || l[:5] != "cust " {
				keep = append(keep, l)
			}
		}
		w.lines = keep
		cust := w.custodian
		w.custodian = nil
		_ = cust
		return "no-custodian"
	case 5: // duplicate custodian nodes
		if w.custodian == nil {
			return "none"
		}
		accts := c05VAccounts()
		var sb bytes.Buffer
		fmt.Fprintf(&sb, "cust %s %s 2", Hex(w.custodian.PublicSpendKey[:]), Hex(w.custodian.PublicViewKey[:]))
		for i := 0; i < 2; i++ {
			c, p := accts[13], accts[3+i]
			fmt.Fprintf(&sb, " %s %s %s %s", Hex(c.PublicSpendKey[:]), Hex(c.PublicViewKey[:]), Hex(p.PublicSpendKey[:]), Hex(p.PublicViewKey[:]))
		}
		w.lines = append(w.lines, sb.String())
		return "custodian-duplicate-nodes"
	default: // a stored, finalized transaction without outputs (referenced by claims)
		tx := common.NewTransactionV5(common.BitcoinAssetId)
		tx.AddInput(w.randHash(), 0)
		v, _ := w.storeTx(tx, nil, true)
		w.submits = []crypto.Hash{v.PayloadHash()}
		return "stored-tx-without-outputs"
	}
}

var c05VBuilders = []struct {
	b      c05Builder
	weight int
}{
	{c05BuildTransfer, 30}, {c05BuildMint, 5}, {c05BuildDeposit, 8}, {c05BuildWithdrawalSubmit, 6}, {c05BuildWithdrawalClaim, 7},
	{c05BuildNodePledge, 6}, {c05BuildNodeAccept, 6}, {c05BuildNodeCancel, 4}, {c05BuildNodeRemove, 6}, {c05BuildCustodianUpdate, 2},
	{c05BuildBoundary, 7}, {c05BuildAggregateMulti, 10}, {c05BuildBoundDeposit, 6},
	{c05BuildRogueAggregate, 5}, {c05BuildCustodianExtra, 6},
}

func c05GenValidateCase(r *Rand, forceMut string, forceBuilder c05Builder) []string {
	for attempt := 0; ; attempt++ {
		w := c05NewWorld(r.Fork())
		if forceMut == "" && w.r.Chance(1, 8) {
			w.corrupt()
		}
		b := forceBuilder
		if b == nil {
			tot := 0
			for _, x := range c05VBuilders {
				tot += x.weight
			}
			k := w.r.Intn(tot)
			for _, x := range c05VBuilders {
				if k < x.weight {
					b = x.b
					break
				}
				k -= x.weight
			}
		}
		mut := func(*common.Transaction) {}
		post := false
		if forceMut != "" {
			for {
				m, name := w.preMutation()
				if name == forceMut {
					mut = m
					break
				}
			}
		} else if w.r.Chance(3, 10) {
			if w.r.Chance(2, 3) {
				mut, _ = w.preMutation()
				if w.r.Chance(1, 4) {
					m2, _ := w.preMutation()
					m1 := mut
					mut = func(tx *common.Transaction) { m1(tx); m2(tx) }
				}
			} else {
				post = true
			}
		}
		var signed *common.SignedTransaction
		_, _, _ = Catch(func() string { signed, _ = b(w, mut); return "" })
		if signed == nil {
			if attempt > 20 {
				return []string{"reset"}
			}
			continue
		}
		if post {
			if w.r.Chance(2, 5) {
				w.craftSignatures(signed)
			} else {
				w.postMutation(signed)
			}
		}
		if forceMut == "node-remove-typed" {
			signed.SignaturesMap, signed.AggregatedSignature = nil, nil
		}
		// only decodable transactions count: round trip through the real codec
		var raw []byte
		_, panicked, _ := Catch(func() string {
			raw = signed.AsVersioned().Marshal()
			_, err := common.UnmarshalVersionedTransaction(raw)
			if err != nil {
				raw = nil
			}
			return ""
		})
		if panicked || raw == nil {
			if attempt > 20 {
				return []string{"reset"}
			}
			continue
		}
		// inputs already locked in the ledger: by this very payload hash, or by another one
		ownLock := forceMut == "" && w.r.Chance(1, 10)
		if ownLock {
			h := signed.AsVersioned().PayloadHash()
			for _, in := range signed.Inputs {
				for _, g := range w.utxos {
					if g.u.Hash == in.Hash && g.u.Index == in.Index {
						g.u.LockHash = h
					}
				}
			}
		}
		w.emitUtxos()
		fork := 0
		if w.r.Chance(1, 10) {
			fork = 1
		}
		vline := func(b []byte) string { return fmt.Sprintf("validate %d %d %s", fork, c05B2i(w.consistent), Hex(b)) }
		if ownLock && w.r.Bool() {
			// only a copy with other signature bytes is ever shown to the validator
			if t := w.tamperedCopy(raw); t != nil {
				w.lines = append(w.lines, vline(t))
				return w.lines
			}
		}
		w.lines = append(w.lines, vline(raw))
		// validate -> lock (what the kernel does after a successful validation) -> validate copies
		if forceMut == "" && w.r.Chance(1, 6) {
			w.lines = append(w.lines, "lock "+Hex(raw))
			for k := w.r.Range(1, 2); k > 0; k-- {
				if t := w.tamperedCopy(raw); t != nil {
					w.lines = append(w.lines, vline(t))
				}
			}
			if w.r.Bool() {
				w.lines = append(w.lines, vline(raw))
			}
		}
		return w.lines
	}
}

func c05GenBatchCase(r *Rand) []string {
	accts := c05VAccounts()
	msg := crypto.Blake3Hash(r.Bytes(8))
	n := Pick(r, []int{1, 2, 3, 5, 16, 64, 128})
	if r.Chance(1, 20) {
		n = 0
	}
	line := fmt.Sprintf("batch %s %d", Hex(msg[:]), n)
	bad := r.Intn(3) // 0: all valid, 1: one invalid, 2: several
	for i := 0; i < n; i++ {
		a := accts[r.Intn(len(accts))]
		sig := a.PrivateSpendKey.Sign(msg)
		k := a.PublicSpendKey
		if (bad == 1 && i == n/2) || (bad == 2 && r.Chance(1, 3)) {
			switch r.Intn(4) {
			case 0:
				sig[r.Intn(64)] ^= 1 << r.Intn(8)
			case 1:
				k = accts[(r.Intn(len(accts)-1)+1+i)%len(accts)].PublicSpendKey
				if k == a.PublicSpendKey {
					k = c05KeyOf(r.Bytes(32))
				}
			case 2:
				sig = a.PrivateSpendKey.Sign(crypto.Blake3Hash(r.Bytes(8)))
			default:
				k = c05KeyOf(r.Bytes(32))
			}
		}
		line += " " + Hex(k[:]) + " " + Hex(sig[:])
	}
	return []string{line}
}

func init() {
	Register(&Subsystem{
		Name: "validate",
		Rule: "random consistent ledgers (2-4 funding transactions, UTXOs of script/node-remove/custodian/pledge/accept types over XIN, BTC, ETH and a random asset, " +
			"nodes, custodian, locks) built with the repo's constructors; ~70% valid transactions of all ten validated types signed with SignInput/AggregateSign/SignRaw, " +
			"~30% mutated (32 payload mutations incl. amounts ±1 / 2^53..2^520, 256 inputs/outputs, unknown type bytes, mixed special inputs; 15 signature-section mutations); " +
			"1/8 of ledgers corrupted (consistent=0); every transaction is round-tripped through Marshal/Unmarshal first; 1/12 of cases are BatchVerify batches; " +
			"non-trivial = accepted transaction or a batch of ≥2 signatures; distinct = distinct abstract line",
		Corpus: [][]string{
			c05GenValidateCase(NewRand(1001), "node-remove-typed", c05BuildTransfer),
			c05GenValidateCase(NewRand(1002), "storage-huge-xin", c05BuildTransfer),
			c05GenValidateCase(NewRand(1003), "storage-huge-xin", c05BuildTransfer),
			c05GenValidateCase(NewRand(1004), "storage-output", c05BuildTransfer),
		},
		Gen: func(r *Rand, i int, tier string) []string {
			if r.Chance(1, 12) {
				if r.Bool() {
					return c05GenCraftedBatch(r)
				}
				return c05GenBatchCase(r)
			}
			return c05GenValidateCase(r, "", nil)
		},
		Exec: c05ExecValidateSub,
	})
}
