package main

// C27 — membership history: the real storage writers (writeNodePledge/Accept/Cancel/Remove
// through the `verif` hooks, each in its own Badger write transaction) and the real
// ReadAllNodes on a real BadgerStore, against lean/Mixin/Model/NodeStore.lean.
//
// Property mode checks, on the Go side and without the model, the lifecycle statement of
// C27 on the observations of ReadAllNodes before/after every operation. In *disciplined*
// cases (every operation's timestamp larger than every recorded timestamp — what C28 gives
// for consensus operations — and genesis accepts only up front) a failed check is a property
// violation; in *wild* cases (equal / decreasing / zero / wrapping timestamps, genesis writes
// in the middle) the same predicates only feed `obs:` tags in the evidence.

import (
	"fmt"
	"os"
	"sort"
	"strconv"
	"strings"

	"github.com/MixinNetwork/mixin/common"
	"github.com/MixinNetwork/mixin/config"
	"github.com/MixinNetwork/mixin/crypto"
	"github.com/MixinNetwork/mixin/storage"
)

type c27rec struct {
	ts                uint64
	signer, payee, tx [32]byte
	state             string
}

func c27store(st *State, sub string) *storage.BadgerStore {
	if s, ok := c27stores[sub]; ok {
		return s
	}
	dir := st.Dir + "/" + sub
	if err := os.MkdirAll(dir, 0o755); err != nil {
		panic(err)
	}
	s, err := storage.NewBadgerStore(&config.Custom{}, dir)
	if err != nil {
		panic(err)
	}
	c27stores[sub] = s
	return s
}

// one store per subsystem for the lifetime of the process (opening Badger costs ~50 ms)
var c27stores = map[string]*storage.BadgerStore{}

func c27read(s *storage.BadgerStore, threshold uint64, withState bool) (recs []c27rec, panicked bool) {
	_, p, _ := Catch(func() string {
		for _, n := range s.ReadAllNodes(threshold, withState) {
			recs = append(recs, c27rec{n.Timestamp, n.Signer.PublicSpendKey, n.Payee.PublicSpendKey, n.Transaction, n.State})
		}
		return ""
	})
	if p {
		return nil, true
	}
	// the order among equal timestamps of the de-duplicated list comes from a map
	sort.SliceStable(recs, func(i, j int) bool {
		if recs[i].ts != recs[j].ts {
			return recs[i].ts < recs[j].ts
		}
		return string(recs[i].signer[:]) < string(recs[j].signer[:])
	})
	return recs, false
}

func c27dump(recs []c27rec, panicked bool, full bool) string {
	if panicked {
		return "panic"
	}
	if len(recs) == 0 {
		return "-"
	}
	var parts []string
	for _, r := range recs {
		if full {
			parts = append(parts, fmt.Sprintf("%d:%x:%x:%x:%s", r.ts, r.signer, r.payee, r.tx, r.state))
		} else {
			parts = append(parts, fmt.Sprintf("%d:%x:%x:%x:%s", r.ts, r.signer[:4], r.payee[:4], r.tx[:4], r.state))
		}
	}
	return strings.Join(parts, ",")
}

func c27key(s string) (k [32]byte) {
	b := UnHex(s)
	if len(b) != 32 {
		panic("harness: c27 key length")
	}
	copy(k[:], b)
	return
}

func c27equal(a, b []c27rec) bool {
	if len(a) != len(b) {
		return false
	}
	for i := range a {
		if a[i] != b[i] {
			return false
		}
	}
	return true
}

type c27obs struct {
	all, lat []c27rec
	p        bool
}

func c27exec(st *State, line string) Result {
	store := c27store(st, "nodestore")
	f := strings.Fields(line)
	if f[0] == "reset" {
		if _, err := store.RemoveGraphEntries("NODESTATEQUEUE"); err != nil {
			panic(err)
		}
		st.V["disciplined"] = true
		st.V["started"] = false
		delete(st.V, "obs")
		return Result{Out: "ok", Tags: []string{"reset"}}
	}
	if f[0] == "read" {
		thr, _ := strconv.ParseUint(f[1], 10, 64)
		recs, p := c27read(store, thr, f[2] == "1")
		return Result{Out: c27dump(recs, p, true), Tags: []string{"read"}, Nontrivial: len(recs) > 1}
	}
	signer, payee, tx := c27key(f[1]), c27key(f[2]), c27key(f[3])
	ts, err := strconv.ParseUint(f[4], 10, 64)
	if err != nil {
		panic("harness: c27 timestamp")
	}
	// the observation after the previous operation is the one before this one
	var allB, latB []c27rec
	var pB bool
	if c, ok := st.V["obs"].(*c27obs); ok {
		allB, latB, pB = c.all, c.lat, c.p
	} else {
		allB, pB = c27read(store, ^uint64(0), true)
		latB, _ = c27read(store, ^uint64(0), false)
	}

	// is this operation inside the timestamp discipline of the theorems?
	// `disc`: every accepted operation so far was inside the discipline (sticky);
	// `opDisc`: this operation is.
	disc, _ := st.V["disciplined"].(bool)
	started, _ := st.V["started"].(bool)
	opDisc := !pB && ts != 0 && ts <= ^uint64(0)-uint64(config.KernelNodeAcceptPeriodMinimum)
	if f[0] == "genesis" {
		if started {
			opDisc = false
		}
		for _, r := range allB {
			if r.signer == signer {
				opDisc = false // the genesis file has distinct signers
			}
		}
	} else {
		for _, r := range allB {
			if r.ts >= ts {
				opDisc = false
			}
		}
	}

	var werr error
	out, panicked, _ := Catch(func() string {
		sk, pk, th := crypto.Key(signer), crypto.Key(payee), crypto.Hash(tx)
		switch f[0] {
		case "pledge":
			werr = store.VerifC27WriteNodePledge(sk, pk, th, ts)
		case "accept":
			werr = store.VerifC27WriteNodeAccept(sk, pk, th, ts, false)
		case "cancel":
			werr = store.VerifC27WriteNodeCancel(sk, pk, th, ts)
		case "remove":
			werr = store.VerifC27WriteNodeRemove(sk, pk, th, ts)
		case "genesis":
			werr = store.VerifC27WriteNodeAccept(sk, pk, th, ts, true)
		default:
			panic("harness: c27 unknown op " + f[0])
		}
		if werr != nil {
			return "reject"
		}
		return "ok"
	})
	allA, pA := c27read(store, ^uint64(0), true)
	latA, pL := c27read(store, ^uint64(0), false)
	st.V["obs"] = &c27obs{allA, latA, pA}
	res := Result{Out: fmt.Sprintf("%s all=%s latest=%s", out, c27dump(allA, pA, false), c27dump(latA, pL, false))}
	res.Tags = []string{f[0] + "/" + out}
	if panicked {
		res.Tags = append(res.Tags, "panic")
	}
	res.Nontrivial = out == "ok" && len(allA) >= 2

	// ---- property mode: the lifecycle statement on the observations
	var fails []string
	fail := func(k string) { fails = append(fails, k) }
	if out != "ok" {
		if !(pA && pB) && !c27equal(allA, allB) {
			// a rejected operation is never inside a violation of the discipline
			res.PropKey, res.PropDesc = "C27:rejected-op-wrote", "operation failed but ReadAllNodes changed: "+line
		}
	} else if !pA && !pB {
		// exactly one record written, with the operation's fields
		want := map[string]string{"pledge": common.NodeStatePledging, "accept": common.NodeStateAccepted,
			"genesis": common.NodeStateAccepted, "cancel": common.NodeStateCancelled, "remove": common.NodeStateRemoved}[f[0]]
		nr := c27rec{ts, signer, payee, tx, want}
		exp := append(append([]c27rec{}, allB...), nr)
		sort.SliceStable(exp, func(i, j int) bool {
			if exp[i].ts != exp[j].ts {
				return exp[i].ts < exp[j].ts
			}
			return string(exp[i].signer[:]) < string(exp[j].signer[:])
		})
		if !c27equal(exp, allA) {
			fail("write-not-one-record")
		}
		var pending []c27rec
		var mine *c27rec
		for i, r := range latB {
			if r.state == common.NodeStatePledging {
				pending = append(pending, r)
			}
			if r.signer == signer {
				mine = &latB[i]
			}
		}
		switch f[0] {
		case "pledge":
			if len(pending) > 0 {
				fail("pledge-while-pending")
			}
			for _, r := range allB {
				if r.signer == signer {
					fail("pledge-signer-reused")
					break
				}
			}
		case "accept", "cancel":
			if len(pending) != 1 || pending[0].signer != signer || pending[0].payee != payee {
				fail(f[0] + "-not-current-pledging")
			}
		case "remove":
			if mine == nil || mine.state != common.NodeStateAccepted || mine.payee != payee {
				fail("remove-not-accepted-matching")
			}
			if len(pending) > 0 {
				fail("remove-while-pending")
			}
		}
		// signer keys never repeat across nodes: at most one birth record per signer
		births := map[[32]byte]int{}
		for i, r := range allA {
			if r.state == common.NodeStatePledging {
				births[r.signer]++
			} else if r.state == common.NodeStateAccepted {
				prev := false
				for _, q := range allA[:i] {
					if q.signer == r.signer {
						prev = true
					}
				}
				if !prev {
					births[r.signer]++
				}
			}
			if births[r.signer] > 1 {
				fail("signer-repeats")
				break
			}
		}
	}
	// each node's latest state is the one reported (any history)
	if !pA && !pL {
		lastOf := map[[32]byte]c27rec{}
		for _, r := range allA {
			lastOf[r.signer] = r
		}
		ok := len(lastOf) == len(latA)
		for _, r := range latA {
			if lastOf[r.signer] != r {
				ok = false
			}
		}
		if !ok && res.PropKey == "" {
			res.PropKey, res.PropDesc = "C27:latest-not-reported", "ReadAllNodes(∞,false) is not the per-signer latest record of ReadAllNodes(∞,true) after: "+line
		}
	}
	if len(fails) > 0 {
		if disc && opDisc && res.PropKey == "" {
			res.PropKey = "C27:" + fails[0]
			res.PropDesc = fmt.Sprintf("lifecycle check %v failed inside the timestamp discipline at: %s (before: %s)", fails, line, c27dump(allB, pB, false))
		} else {
			for _, k := range fails {
				res.Tags = append(res.Tags, "obs:outside-discipline:"+k)
			}
		}
	}
	if out == "ok" {
		if !opDisc {
			disc = false
		}
		if f[0] != "genesis" {
			started = true
		}
		if disc {
			res.Tags = append(res.Tags, "ok-disciplined")
		} else {
			res.Tags = append(res.Tags, "ok-outside-discipline")
		}
	}
	st.V["disciplined"] = disc
	st.V["started"] = started
	return res
}

// ---- generator

type c27gen struct {
	r       *Rand
	keys    []string
	txs     []string
	lines   []string
	now     uint64
	pending int // index into keys of the shadow pending signer, -1 if none
	pPayee  int
	state   map[int]string // shadow state per signer index
	payee   map[int]int
}

func (g *c27gen) key(i int) string { return g.keys[i] }

func (g *c27gen) freshTx() string {
	if g.r.Chance(1, 6) && len(g.txs) > 0 {
		return Pick(g.r, g.txs)
	}
	t := Hex(g.r.Bytes(32))
	g.txs = append(g.txs, t)
	return t
}

func (g *c27gen) emit(op string, s, p int, ts uint64) {
	g.lines = append(g.lines, fmt.Sprintf("%s %s %s %s %d", op, g.key(s), g.key(p), g.freshTx(), ts))
}

func c27gen_(r *Rand, i int, tier string) []string {
	g := &c27gen{r: r, pending: -1, state: map[int]string{}, payee: map[int]int{}}
	nkeys := 12
	for k := 0; k < nkeys; k++ {
		g.keys = append(g.keys, Hex(r.Bytes(32)))
	}
	if r.Chance(1, 8) { // keys that differ only in the last byte / share a prefix
		base := r.Bytes(32)
		for k := 0; k < 4; k++ {
			b := append([]byte{}, base...)
			b[31] = byte(k)
			g.keys[k] = Hex(b)
		}
	}
	g.lines = []string{"reset"}
	wild := r.Chance(2, 5)
	hour := uint64(3600e9)
	g.now = 1_600_000_000_000_000_000 + uint64(r.Intn(1000))*hour
	if wild && r.Chance(1, 10) {
		g.now = uint64(r.Intn(5)) // around zero
	}
	if wild && r.Chance(1, 10) {
		g.now = ^uint64(0) - 13*hour - uint64(r.Intn(3))*hour // around the uint64 wrap of ts+12h
	}
	ngen := r.Intn(5)
	if r.Chance(1, 10) {
		ngen = 0
	}
	for k := 0; k < ngen; k++ {
		s := k
		if wild && r.Chance(1, 6) {
			s = r.Intn(nkeys)
		}
		p := r.Intn(nkeys)
		ts := g.now
		if r.Bool() {
			g.now++ // the real genesis uses one timestamp for all nodes; both shapes occur here
		}
		g.emit("genesis", s, p, ts)
		g.state[s], g.payee[s] = "A", p
	}
	g.now += uint64(r.Intn(3)) * hour
	nops := r.Range(4, 24)
	if tier == "thorough" {
		nops = r.Range(4, 60)
	}
	for k := 0; k < nops; k++ {
		// timestamp
		var step uint64
		switch r.Intn(6) {
		case 0:
			step = 1
		case 1:
			step = uint64(r.Intn(1000)) + 1
		case 2:
			step = 12*hour + uint64(r.Range(-1, 1))
		case 3:
			step = uint64(r.Intn(30)) * hour
		default:
			step = uint64(r.Intn(int(hour))) + 1
		}
		ts := g.now + step
		if wild {
			switch r.Intn(12) {
			case 0:
				ts = g.now // equal to the last one
			case 1:
				ts = g.now - uint64(r.Intn(1000))
			case 2:
				ts = g.now - 12*hour + uint64(r.Range(-2, 2)) // around the look-ahead window
			case 3:
				ts = g.now - uint64(r.Intn(40))*hour
			case 4:
				if r.Chance(1, 4) {
					ts = 0
				}
			case 5:
				if r.Chance(1, 4) {
					ts = ^uint64(0) - uint64(r.Intn(3)) - uint64(r.Intn(2))*12*hour
				}
			}
		}
		if ts > g.now || !wild {
			g.now = ts
		}
		// operation: mostly what the shadow lifecycle allows, sometimes anything
		s, p := r.Intn(nkeys), r.Intn(nkeys)
		op := Pick(r, []string{"pledge", "accept", "cancel", "remove"})
		if r.Chance(3, 4) {
			if g.pending >= 0 {
				op = Pick(r, []string{"accept", "accept", "cancel", "pledge", "remove"})
				switch op {
				case "accept", "cancel":
					s, p = g.pending, g.pPayee
					if r.Chance(1, 8) {
						p = r.Intn(nkeys) // wrong payee
					}
					if r.Chance(1, 8) {
						s = r.Intn(nkeys) // wrong signer
					}
				}
			} else {
				op = Pick(r, []string{"pledge", "pledge", "remove", "accept", "cancel"})
				if op == "remove" {
					var acc []int
					for k, v := range g.state {
						if v == "A" {
							acc = append(acc, k)
						}
					}
					sort.Ints(acc)
					if len(acc) > 0 {
						s = Pick(r, acc)
						p = g.payee[s]
						if r.Chance(1, 8) {
							p = r.Intn(nkeys)
						}
					}
				} else if op == "pledge" && r.Chance(7, 8) {
					for t := 0; t < 20 && g.state[s] != ""; t++ {
						s = r.Intn(nkeys)
					}
				}
			}
		}
		g.emit(op, s, p, ts)
		// shadow update (best effort; only steers the distribution)
		switch op {
		case "pledge":
			if g.pending < 0 && g.state[s] == "" {
				g.pending, g.pPayee, g.state[s], g.payee[s] = s, p, "P", p
			}
		case "accept":
			if g.pending == s && g.pPayee == p {
				g.state[s], g.pending = "A", -1
			}
		case "cancel":
			if g.pending == s && g.pPayee == p {
				g.state[s], g.pending = "C", -1
			}
		case "remove":
			if g.pending < 0 && g.state[s] == "A" && g.payee[s] == p {
				g.state[s] = "R"
			}
		}
		if wild && r.Chance(1, 25) {
			g.emit("genesis", r.Intn(nkeys), r.Intn(nkeys), ts+uint64(r.Intn(3)))
		}
		if r.Chance(1, 10) {
			thr := g.now - uint64(r.Intn(30))*hour
			if r.Chance(1, 4) {
				thr = ^uint64(0)
			}
			g.lines = append(g.lines, fmt.Sprintf("read %d %d", thr, r.Intn(2)))
		}
	}
	g.lines = append(g.lines, fmt.Sprintf("read %d 1", ^uint64(0)), fmt.Sprintf("read %d 0", ^uint64(0)))
	return g.lines
}

func c27k(b byte) string { return strings.Repeat(fmt.Sprintf("%02x", b), 32) }

func init() {
	h := uint64(3600e9)
	t0 := uint64(1_600_000_000_000_000_000)
	l := func(op string, s, p, x byte, ts uint64) string {
		return fmt.Sprintf("%s %s %s %s %d", op, c27k(s), c27k(p), c27k(x), ts)
	}
	Register(&Subsystem{
		Name: "nodestore",
		Rule: "a case is `reset` + up to 4 genesis accepts + 4..24 (thorough 4..60) pledge/accept/cancel/remove operations over a pool of 12 keys, 3/4 steered by a shadow lifecycle, 2/5 of the cases with equal/decreasing/zero/wrapping timestamps; non-trivial = an operation the real store accepted with at least two records afterwards, or a read returning more than one record",
		Gen:  c27gen_,
		Exec: c27exec,
		Corpus: [][]string{
			{ // the whole lifecycle, then the invalid variants
				"reset", l("genesis", 1, 11, 0x21, t0), l("genesis", 2, 12, 0x22, t0),
				l("pledge", 3, 13, 0x23, t0+h), l("pledge", 4, 14, 0x24, t0+2*h),
				l("accept", 3, 14, 0x25, t0+3*h), l("accept", 4, 13, 0x25, t0+3*h),
				l("accept", 3, 13, 0x25, t0+13*h), l("accept", 3, 13, 0x26, t0+14*h),
				l("remove", 1, 12, 0x27, t0+15*h), l("remove", 1, 11, 0x27, t0+15*h), l("remove", 1, 11, 0x28, t0+16*h),
				l("pledge", 1, 11, 0x29, t0+17*h), l("pledge", 5, 15, 0x23, t0+17*h), l("pledge", 5, 15, 0x2a, t0+17*h),
				l("remove", 2, 12, 0x2b, t0+18*h), l("cancel", 5, 15, 0x2c, t0+19*h), l("cancel", 5, 15, 0x2d, t0+20*h),
				l("pledge", 5, 15, 0x2e, t0+21*h),
				fmt.Sprintf("read %d 1", ^uint64(0)), fmt.Sprintf("read %d 0", ^uint64(0)), fmt.Sprintf("read %d 0", t0+16*h),
			},
			{ // empty store: the guards index nodes[len(nodes)-1]
				"reset", l("accept", 1, 11, 0x21, t0), l("cancel", 1, 11, 0x21, t0), l("remove", 1, 11, 0x21, t0),
				l("pledge", 1, 11, 0x21, t0), l("accept", 1, 11, 0x22, t0),
			},
			{ // outside the discipline: a pledge more than 12 h before a pending pledge does not see it
				"reset", l("genesis", 1, 11, 0x21, t0), l("pledge", 2, 12, 0x22, t0+100*h),
				l("pledge", 3, 13, 0x23, t0+88*h-1), l("pledge", 4, 14, 0x24, t0+88*h),
				fmt.Sprintf("read %d 0", ^uint64(0)),
			},
			{ // timestamp zero poisons every later read; same-key overwrite
				"reset", l("genesis", 1, 11, 0x21, t0), l("pledge", 2, 12, 0x22, t0+h), l("accept", 2, 12, 0x23, t0+h),
				l("genesis", 3, 13, 0x24, 0), l("pledge", 4, 14, 0x25, t0+2*h), fmt.Sprintf("read %d 1", ^uint64(0)),
			},
			{ // uint64 wrap of ts + 12 h
				"reset", l("genesis", 1, 11, 0x21, t0), l("pledge", 2, 12, 0x22, ^uint64(0)-12*h),
				l("pledge", 3, 13, 0x23, ^uint64(0)-12*h+1), l("accept", 2, 12, 0x24, ^uint64(0)-12*h+1),
				fmt.Sprintf("read %d 1", ^uint64(0)),
			},
		},
	})
}
