package main

// C07 — snapshot codec: real common.UnmarshalVersionedSnapshot / VersionedMarshal /
// versionedPayload / PayloadHash against lean/Mixin/Model/SnapCodec.lean.
//
// Property mode (independent of the model):
//   dec  accepted bytes == re-encoding with the full 8-byte topology suffix, or topology 0 and
//        == the re-encoding without suffix; 1..255 strictly increasing hashes; round rules
//   pay  PayloadHash == blake3(versionedPayload); signature changes leave the hash alone
//   heq  two snapshots hash equal exactly when version, node, round, references, transaction
//        set and timestamp agree (field comparison done here, not by the code under test)

import (
	"bytes"
	"encoding/binary"
	"fmt"
	"sort"
	"strconv"
	"strings"

	"github.com/MixinNetwork/mixin/common"
	"github.com/MixinNetwork/mixin/crypto"
)

type snapFields struct {
	version uint8
	node    crypto.Hash
	round   uint64
	refs    *common.RoundLink
	txs     []crypto.Hash
	ts      uint64
	sig     *crypto.CosiSignature
}

func (f *snapFields) build() *common.Snapshot {
	s := &common.Snapshot{Version: f.version, NodeId: f.node, RoundNumber: f.round, Timestamp: f.ts}
	if f.refs != nil {
		s.References = &common.RoundLink{Self: f.refs.Self, External: f.refs.External}
	}
	s.Transactions = append([]crypto.Hash{}, f.txs...)
	if f.sig != nil {
		s.Signature = &crypto.CosiSignature{Mask: f.sig.Mask, Signature: f.sig.Signature}
	}
	return s
}

func (f *snapFields) line() string {
	refs := "-"
	if f.refs != nil {
		refs = Hex(f.refs.Self[:]) + ":" + Hex(f.refs.External[:])
	}
	sig := "-"
	if f.sig != nil {
		sig = fmt.Sprintf("%d:%s", f.sig.Mask, Hex(f.sig.Signature[:]))
	}
	return fmt.Sprintf("%d %s %d %s %s %d %s", f.version, Hex(f.node[:]), f.round, refs, hashesLine(f.txs), f.ts, sig)
}

func hashesLine(hs []crypto.Hash) string {
	if len(hs) == 0 {
		return "-"
	}
	parts := make([]string, len(hs))
	for i, h := range hs {
		parts[i] = Hex(h[:])
	}
	return strings.Join(parts, ",")
}

func snapLine(s *common.Snapshot) string {
	f := &snapFields{version: s.Version, node: s.NodeId, round: s.RoundNumber, refs: s.References,
		txs: s.Transactions, ts: s.Timestamp, sig: s.Signature}
	return f.line()
}

func hash32(b []byte) crypto.Hash {
	var h crypto.Hash
	if len(b) != 32 {
		panic("harness: hash length in op line")
	}
	copy(h[:], b)
	return h
}

func parseSnapFields(t []string) *snapFields {
	f := &snapFields{}
	v, err := strconv.ParseUint(t[0], 10, 8)
	if err != nil {
		panic("harness: bad version")
	}
	f.version = uint8(v)
	f.node = hash32(UnHex(t[1]))
	f.round, _ = strconv.ParseUint(t[2], 10, 64)
	if t[3] != "-" {
		p := strings.Split(t[3], ":")
		f.refs = &common.RoundLink{Self: hash32(UnHex(p[0])), External: hash32(UnHex(p[1]))}
	}
	if t[4] != "-" {
		for _, h := range strings.Split(t[4], ",") {
			f.txs = append(f.txs, hash32(UnHex(h)))
		}
	}
	f.ts, _ = strconv.ParseUint(t[5], 10, 64)
	if t[6] != "-" {
		p := strings.Split(t[6], ":")
		m, _ := strconv.ParseUint(p[0], 10, 64)
		cs := &crypto.CosiSignature{Mask: m}
		sb := UnHex(p[1])
		if len(sb) != 64 {
			panic("harness: signature length in op line")
		}
		copy(cs.Signature[:], sb)
		f.sig = cs
	}
	return f
}

// ---- generators

func genHash(r *Rand) crypto.Hash {
	var h crypto.Hash
	switch r.Intn(12) {
	case 0: // small, many shared prefixes; the all-zero hash (the minimum) included
		h[31] = byte(r.Intn(4))
	case 1:
		for i := range h {
			h[i] = 0xff
		}
		h[r.Intn(32)] = byte(r.Intn(256))
	case 2:
		h[0] = byte(r.Intn(3))
		h[1] = byte(r.Intn(3))
	case 3: // the minimum of the hash space
	case 4: // the maximum
		for i := range h {
			h[i] = 0xff
		}
	case 5: // neighbours of the extremes
		if r.Bool() {
			h[31] = 1
		} else {
			for i := range h {
				h[i] = 0xff
			}
			h[31] = 0xfe
		}
	default:
		copy(h[:], r.Bytes(32))
	}
	return h
}

// boundaryHashes is the palette for aimed transaction lists: extremes, their neighbours,
// values differing only in the first / last octet.
func boundaryHashes(r *Rand) []crypto.Hash {
	var zero, one, top, ff, fe, mid crypto.Hash
	one[31] = 1
	top[0] = 1
	for i := range ff {
		ff[i], fe[i] = 0xff, 0xff
	}
	fe[31] = 0xfe
	copy(mid[:], r.Bytes(32))
	return []crypto.Hash{zero, one, top, mid, fe, ff}
}

// rawSnapBytes writes the snapshot layout by hand, without sorting or any check, so that
// transaction lists the real encoder refuses (duplicates, descending pairs) can be fed to the
// decoder. withTopo=false gives the suffix-less form.
func rawSnapBytes(f *snapFields, txs []crypto.Hash, withTopo bool, topo uint64) []byte {
	b := []byte{0x77, 0x77, 0, f.version}
	b = append(b, f.node[:]...)
	b = binary.BigEndian.AppendUint64(b, f.round)
	if f.refs == nil {
		b = append(b, 0, 0)
	} else {
		b = append(b, 0, 2)
		b = append(b, f.refs.Self[:]...)
		b = append(b, f.refs.External[:]...)
	}
	b = append(b, byte(len(txs)>>8), byte(len(txs)))
	for _, t := range txs {
		b = append(b, t[:]...)
	}
	b = binary.BigEndian.AppendUint64(b, f.ts)
	if f.sig == nil {
		b = append(b, make([]byte, 8)...)
	} else {
		b = binary.BigEndian.AppendUint64(b, f.sig.Mask)
		b = append(b, f.sig.Signature[:]...)
	}
	if withTopo {
		b = binary.BigEndian.AppendUint64(b, topo)
	}
	return b
}

// genBoundaryTxLists: transaction lists over the boundary palette with one defect (or none) at a
// chosen position — equal neighbours, a run of equal values from the start, a descending pair —
// at every position including the first pair; all other fields at extreme values now and then.
func genBoundaryTxLists(r *Rand, tier string) []string {
	pal := boundaryHashes(r)
	f := &snapFields{version: common.SnapshotVersionCommonEncoding, node: genHash(r), ts: genU64(r)}
	f.round = genU64(r)
	if f.round == 0 {
		f.round = 1
	}
	f.refs = &common.RoundLink{Self: genHash(r), External: genHash(r)}
	if r.Chance(1, 3) {
		m := genU64(r)
		if m == 0 {
			m = 1
		}
		f.sig = &crypto.CosiSignature{Mask: m}
		copy(f.sig.Signature[:], r.Bytes(64))
	}
	n := r.Range(2, 6)
	if r.Chance(1, 8) {
		n = Pick(r, []int{2, 3, 254, 255})
	}
	// ascending base, drawn from the palette first (so that the minimum is usually the head)
	seen := map[crypto.Hash]bool{}
	var base []crypto.Hash
	for _, h := range pal {
		if len(base) < n && r.Chance(3, 4) && !seen[h] {
			seen[h] = true
			base = append(base, h)
		}
	}
	for len(base) < n {
		h := genHash(r)
		if !seen[h] {
			seen[h] = true
			base = append(base, h)
		}
	}
	base = sortedTxs(base)
	topo := genU64(r)
	var ls []string
	emit := func(txs []crypto.Hash) {
		if r.Bool() {
			ls = append(ls, "dec "+Hex(rawSnapBytes(f, txs, true, topo)))
		} else {
			ls = append(ls, "dec "+Hex(rawSnapBytes(f, txs, false, 0)))
		}
	}
	emit(base) // valid
	positions := []int{0}
	if n > 2 {
		positions = append(positions, n-2, r.Intn(n-1))
	}
	for _, p := range positions {
		dup := append([]crypto.Hash{}, base...)
		dup[p+1] = dup[p] // equal neighbours at p
		emit(dup)
		desc := append([]crypto.Hash{}, base...)
		desc[p], desc[p+1] = desc[p+1], desc[p] // descending pair at p
		emit(desc)
	}
	// a run of k+1 equal values from the start, then ascending
	k := r.Range(1, n-1)
	run := append([]crypto.Hash{}, base...)
	for i := 1; i <= k; i++ {
		run[i] = run[0]
	}
	emit(run)
	// every palette value doubled at the head: v,v,rest
	v := Pick(r, pal)
	head := []crypto.Hash{v, v}
	for _, h := range base {
		if bytes.Compare(h[:], v[:]) > 0 {
			head = append(head, h)
		}
	}
	emit(head)
	return ls
}

func genU64(r *Rand) uint64 {
	switch r.Intn(8) {
	case 0:
		return 0
	case 1:
		return uint64(r.Intn(3))
	case 2:
		return ^uint64(0) - uint64(r.Intn(2))
	case 3:
		return uint64(1) << uint(r.Intn(64))
	case 4:
		return uint64(r.Intn(256)) << uint(8*r.Intn(8))
	default:
		return r.U64()
	}
}

func genTxCount(r *Rand, tier string) int {
	switch r.Intn(10) {
	case 0:
		return 255
	case 1:
		return 254
	case 2, 3:
		return 1
	case 4:
		return 2
	default:
		if tier == "thorough" {
			return r.Range(1, 64)
		}
		return r.Range(1, 12)
	}
}

// a snapshot the decoder accepts after encoding
func genValidFields(r *Rand, tier string) *snapFields {
	f := &snapFields{version: common.SnapshotVersionCommonEncoding, node: genHash(r), ts: genU64(r)}
	if r.Chance(1, 4) {
		f.round = 0
		f.txs = []crypto.Hash{genHash(r)}
	} else {
		f.round = genU64(r)
		if f.round == 0 {
			f.round = 1
		}
		f.refs = &common.RoundLink{Self: genHash(r), External: genHash(r)}
		n := genTxCount(r, tier)
		seen := map[crypto.Hash]bool{}
		for len(f.txs) < n {
			h := genHash(r)
			if !seen[h] {
				seen[h] = true
				f.txs = append(f.txs, h)
			}
		}
	}
	if r.Chance(3, 4) {
		m := genU64(r)
		if m == 0 {
			m = 1
		}
		cs := &crypto.CosiSignature{Mask: m}
		copy(cs.Signature[:], r.Bytes(64))
		if r.Chance(1, 8) {
			cs.Signature = crypto.Signature{}
		}
		f.sig = cs
	}
	return f
}

// encoder inputs around every panic condition of encodeSnapshotPayload / VersionedMarshal
func genInvalidFields(r *Rand, tier string) *snapFields {
	f := genValidFields(r, tier)
	switch r.Intn(9) {
	case 0:
		f.version = Pick(r, []uint8{0, 1, 3, 255})
	case 1: // duplicate transaction
		f.txs = append(f.txs, f.txs[r.Intn(len(f.txs))])
		if f.round == 0 {
			f.round = 1
			f.refs = &common.RoundLink{Self: genHash(r), External: genHash(r)}
		}
	case 2: // round 0 with two transactions
		f.round = 0
		f.txs = append(f.txs, genHash(r))
	case 3:
		f.txs = nil
	case 4:
		for len(f.txs) < 256 {
			f.txs = append(f.txs, genHash(r))
		}
		if f.round == 0 {
			f.round = 1
		}
	case 5:
		cs := &crypto.CosiSignature{Mask: 0}
		copy(cs.Signature[:], r.Bytes(64))
		f.sig = cs
	case 6: // round > 0 without references: encodes, does not decode
		if f.round == 0 {
			f.round = 1
		}
		f.refs = nil
	case 7: // round 0 with references: encodes, does not decode
		f.round = 0
		f.txs = f.txs[:1]
		f.refs = &common.RoundLink{Self: genHash(r), External: genHash(r)}
	default: // 255 boundary is fine
		for len(f.txs) < 255 {
			f.txs = append(f.txs, genHash(r))
		}
		if f.round == 0 {
			f.round = 1
			f.refs = &common.RoundLink{Self: genHash(r), External: genHash(r)}
		}
	}
	return f
}

func marshalFields(f *snapFields, topo uint64) []byte {
	var out []byte
	Catch(func() string {
		s := &common.SnapshotWithTopologicalOrder{Snapshot: f.build(), TopologicalOrder: topo}
		out = s.VersionedMarshal()
		return ""
	})
	return out
}

// offsets of the fields inside a valid encoding (computed from the layout, used only to aim mutations)
func bodyLen(f *snapFields) int {
	n := 4 + 32 + 8 + 2 + 2 + 32*len(f.txs) + 8 + 8
	if f.refs != nil {
		n += 64
	}
	if f.sig != nil {
		n += 64
	}
	return n
}

func genSnapCase(r *Rand, i int, tier string) []string {
	f := genValidFields(r, tier)
	topo := genU64(r)
	enc := marshalFields(f, topo)
	if enc == nil {
		panic("harness: valid snapshot did not encode")
	}
	body := enc[:len(enc)-8]
	dec := func(b []byte) string { return "dec " + Hex(b) }
	switch k := r.Intn(24); {
	case k >= 20 && k < 23:
		return genBoundaryTxLists(r, tier)
	case k < 4: // round trip, both forms, payload
		return []string{"enc " + f.line() + " " + fmt.Sprint(topo), "pay " + f.line(), dec(enc), dec(body)}
	case k < 7: // every cut of 1..16 octets and extensions of 1..16 octets at the end
		var ls []string
		for c := 1; c <= 16 && c < len(enc); c++ {
			ls = append(ls, dec(enc[:len(enc)-c]))
		}
		for e := 1; e <= 16; e++ {
			ext := r.Bytes(e)
			if r.Bool() {
				ext = make([]byte, e)
			}
			ls = append(ls, dec(append(append([]byte{}, enc...), ext...)))
			if e <= 9 {
				ls = append(ls, dec(append(append([]byte{}, body...), ext...)))
			}
		}
		return ls
	case k < 8: // every truncation of a small encoding
		if len(f.txs) > 3 {
			f.txs = f.txs[:3]
			enc = marshalFields(f, topo)
		}
		var ls []string
		for c := 0; c <= len(enc); c++ {
			ls = append(ls, dec(enc[:c]))
		}
		return ls
	case k < 12: // aimed mutation of a valid encoding
		b := append([]byte{}, enc...)
		refsOff := 4 + 32 + 8
		cntOff := refsOff + 2
		if f.refs != nil {
			cntOff += 64
		}
		txOff := cntOff + 2
		tsOff := txOff + 32*len(f.txs)
		sigOff := tsOff + 8
		switch r.Intn(14) {
		case 0:
			b[r.Intn(4)] ^= byte(1 << uint(r.Intn(8)))
		case 1:
			b[3] = Pick(r, []byte{0, 1, 3, 4, 255})
		case 2: // references count
			b[refsOff+1] = Pick(r, []byte{0, 1, 2, 3})
			b[refsOff] = Pick(r, []byte{0, 0, 0, 1})
		case 3: // transaction count
			d := Pick(r, []int{-1, 1, 0})
			n := len(f.txs) + d
			if r.Chance(1, 3) {
				n = Pick(r, []int{0, 255, 256, 65535})
			}
			b[cntOff], b[cntOff+1] = byte(n>>8), byte(n)
		case 4: // swap two transactions (unsorted) or duplicate one
			if len(f.txs) >= 2 {
				i := r.Intn(len(f.txs) - 1)
				x, y := txOff+32*i, txOff+32*(i+1)
				if r.Bool() {
					tmp := append([]byte{}, b[x:x+32]...)
					copy(b[x:x+32], b[y:y+32])
					copy(b[y:y+32], tmp)
				} else {
					copy(b[y:y+32], b[x:x+32])
				}
			} else {
				b[txOff+r.Intn(32)] ^= 0x80
			}
		case 5: // round number to / from zero
			for j := 0; j < 8; j++ {
				b[36+j] = 0
			}
			if f.round == 0 {
				b[43] = 1
			}
		case 6: // drop the references of a later round / add to round zero
			if f.refs != nil {
				nb := append([]byte{}, b[:refsOff]...)
				nb = append(nb, 0, 0)
				b = append(nb, b[refsOff+66:]...)
			} else {
				nb := append([]byte{}, b[:refsOff]...)
				nb = append(nb, 0, 2)
				nb = append(nb, r.Bytes(64)...)
				b = append(nb, b[refsOff+2:]...)
			}
		case 7: // mask zero with signature bytes present / mask set without them
			for j := 0; j < 8; j++ {
				b[sigOff+j] = 0
			}
			if f.sig == nil {
				b[sigOff+r.Intn(8)] = 1
			}
		case 8: // timestamp bytes
			b[tsOff+r.Intn(8)] ^= byte(1 << uint(r.Intn(8)))
		case 9: // insert or delete one octet somewhere
			p := r.Intn(len(b))
			if r.Bool() {
				b = append(b[:p], b[p+1:]...)
			} else {
				nb := append([]byte{}, b[:p]...)
				nb = append(nb, byte(r.Intn(256)))
				b = append(nb, b[p:]...)
			}
		case 10: // partial suffix filled with zeros / non-zeros
			c := r.Range(1, 7)
			b = append(append([]byte{}, body...), r.Bytes(c)...)
			if r.Bool() {
				b = append(append([]byte{}, body...), make([]byte, c)...)
			}
		case 11: // nine octets after the body, last one zero
			b = append(append([]byte{}, body...), make([]byte, 9)...)
		default:
			b[r.Intn(len(b))] ^= byte(1 << uint(r.Intn(8)))
		}
		return []string{dec(b)}
	case k < 13: // arbitrary bytes, with or without a valid header
		n := Pick(r, []int{0, 1, 3, 4, 5, 36, 44, 46, 48, 80, 96, 97, 104, 200})
		b := r.Bytes(n + r.Intn(4))
		if r.Chance(3, 4) && len(b) >= 4 {
			copy(b, []byte{0x77, 0x77, 0, 2})
		}
		return []string{dec(b)}
	case k < 15: // encoder around its panic conditions; decode what it produced
		g := genInvalidFields(r, tier)
		ls := []string{"enc " + g.line() + " " + fmt.Sprint(topo), "pay " + g.line()}
		if e := marshalFields(g, topo); e != nil {
			ls = append(ls, dec(e))
		}
		return ls
	default: // hash sensitivity: one field changed at a time (or only signature / order)
		g := *f
		g.txs = append([]crypto.Hash{}, f.txs...)
		switch r.Intn(9) {
		case 0:
			g.node[r.Intn(32)] ^= byte(1 << uint(r.Intn(8)))
		case 1:
			g.round ^= uint64(1) << uint(r.Intn(64))
			if g.round == 0 || f.round == 0 {
				g.round = f.round
				g.ts++
			}
		case 2:
			if g.refs != nil {
				rl := *g.refs
				if r.Bool() {
					rl.Self[r.Intn(32)] ^= 1
				} else {
					rl.External[r.Intn(32)] ^= 1
				}
				g.refs = &rl
			} else {
				g.ts ^= 1
			}
		case 3:
			g.txs[r.Intn(len(g.txs))][r.Intn(32)] ^= byte(1 << uint(r.Intn(8)))
		case 4:
			g.ts ^= uint64(1) << uint(r.Intn(64))
		case 5: // signature only
			if g.sig == nil {
				cs := &crypto.CosiSignature{Mask: 1 + r.U64()>>1}
				g.sig = cs
			} else if r.Bool() {
				g.sig = nil
			} else {
				cs := *g.sig
				cs.Signature[r.Intn(64)] ^= 1
				cs.Mask ^= uint64(1) << uint(r.Intn(63))
				if cs.Mask == 0 {
					cs.Mask = 1
				}
				g.sig = &cs
			}
		case 6: // order of the transaction list only
			for j := len(g.txs) - 1; j > 0; j-- {
				k := r.Intn(j + 1)
				g.txs[j], g.txs[k] = g.txs[k], g.txs[j]
			}
		case 7: // add or drop a transaction
			if g.round != 0 {
				if len(g.txs) > 1 && r.Bool() {
					g.txs = g.txs[1:]
				} else if len(g.txs) < 255 {
					g.txs = append(g.txs, genHash(r))
				}
			}
		default: // identical
		}
		// the same pair asked three ways: two fresh objects; one object mutated in place after its
		// Hash field was filled (both directions)
		return []string{"heq " + f.line() + " " + g.line(), "hmut " + f.line() + " " + g.line(), "hmut " + g.line() + " " + f.line()}
	}
}

// ---- executor

func sortedTxs(hs []crypto.Hash) []crypto.Hash {
	c := append([]crypto.Hash{}, hs...)
	sort.Slice(c, func(i, j int) bool { return bytes.Compare(c[i][:], c[j][:]) < 0 })
	return c
}

func sameHashedFields(a, b *snapFields) bool {
	if a.version != b.version || a.node != b.node || a.round != b.round || a.ts != b.ts {
		return false
	}
	if (a.refs == nil) != (b.refs == nil) {
		return false
	}
	if a.refs != nil && (a.refs.Self != b.refs.Self || a.refs.External != b.refs.External) {
		return false
	}
	x, y := sortedTxs(a.txs), sortedTxs(b.txs)
	if len(x) != len(y) {
		return false
	}
	for i := range x {
		if x[i] != y[i] {
			return false
		}
	}
	return true
}

// freshHash: PayloadHash of a newly built snapshot holding only the six hashed fields of s
func freshHash(s *common.Snapshot) crypto.Hash {
	f := &common.Snapshot{Version: s.Version, NodeId: s.NodeId, RoundNumber: s.RoundNumber, Timestamp: s.Timestamp}
	if s.References != nil {
		f.References = &common.RoundLink{Self: s.References.Self, External: s.References.External}
	}
	f.Transactions = append([]crypto.Hash{}, s.Transactions...)
	return f.PayloadHash()
}

// assignFields overwrites, in place, every hashed field of the object s with the values of f
// (the Hash field and the signature are left as they are)
func assignFields(s *common.Snapshot, f *snapFields) {
	s.Version, s.NodeId, s.RoundNumber, s.Timestamp = f.version, f.node, f.round, f.ts
	s.References = nil
	if f.refs != nil {
		s.References = &common.RoundLink{Self: f.refs.Self, External: f.refs.External}
	}
	s.Transactions = append([]crypto.Hash{}, f.txs...)
}

// hashObjectStateChecks: the hash of a snapshot *object* must not depend on the object's history —
// Hash field filled (the kernel's `s.Hash = s.PayloadHash()`), garbage in the Hash field, a struct
// copy carrying the old Hash, each hashed field then changed in turn. Returns a finding or "".
func hashObjectStateChecks(s *common.Snapshot, seed uint64) (string, string) {
	r := NewRand(seed)
	h0 := s.PayloadHash()
	if h0 != freshHash(s) {
		return "C07:hash-depends-on-object-state", "PayloadHash of the object differs from the hash of a fresh snapshot with the same fields"
	}
	s.Hash = h0
	cp := *s // struct copy carrying Hash, as `copy := *s` in callers
	cp.Transactions = append([]crypto.Hash{}, s.Transactions...)
	step := func(o *common.Snapshot, what string, prev crypto.Hash) (crypto.Hash, string) {
		h := o.PayloadHash()
		if h != freshHash(o) {
			return h, "after Hash was assigned, changing " + what + " gives a hash that is not the hash of the payload"
		}
		if h == prev {
			return h, "after Hash was assigned, changing " + what + " did not change the hash"
		}
		return h, ""
	}
	for _, o := range []*common.Snapshot{s, &cp} {
		prev := h0
		var d string
		o.Timestamp ^= 1 << uint(r.Intn(64))
		if prev, d = step(o, "the timestamp", prev); d != "" {
			return "C07:hash-stale-after-mutation", d
		}
		o.NodeId[r.Intn(32)] ^= 1 << uint(r.Intn(8))
		if prev, d = step(o, "the node id", prev); d != "" {
			return "C07:hash-stale-after-mutation", d
		}
		if o.RoundNumber != 0 {
			o.RoundNumber ^= 1 << uint(1+r.Intn(63))
			if o.RoundNumber == 0 {
				o.RoundNumber = 3
			}
			if prev, d = step(o, "the round number", prev); d != "" {
				return "C07:hash-stale-after-mutation", d
			}
		}
		if o.References != nil {
			rl := *o.References
			rl.External[r.Intn(32)] ^= 1
			o.References = &rl
		} else {
			o.References = &common.RoundLink{}
		}
		if prev, d = step(o, "the references", prev); d != "" {
			return "C07:hash-stale-after-mutation", d
		}
		if o.RoundNumber != 0 && len(o.Transactions) < 255 {
			var nt crypto.Hash
			copy(nt[:], r.Bytes(32))
			o.AddTransaction(nt)
			if prev, d = step(o, "the transactions", prev); d != "" {
				return "C07:hash-stale-after-mutation", d
			}
		}
		// non-hashed fields never matter
		o.Signature = &crypto.CosiSignature{Mask: 1 + r.U64()>>1}
		o.Hash = crypto.Hash{}
		copy(o.Hash[:], r.Bytes(32))
		if o.PayloadHash() != prev {
			return "C07:hash-depends-on-object-state", "hash moved with the signature / Hash field"
		}
	}
	return "", ""
}

func lineSeed(line string) uint64 {
	var x uint64 = 1469598103934665603
	for i := 0; i < len(line); i++ {
		x = (x ^ uint64(line[i])) * 1099511628211
	}
	return x
}

func execSnapCodec(_ *State, line string) Result {
	t := strings.Fields(line)
	res := Result{Tags: []string{t[0]}}
	out, panicked, _ := Catch(func() string {
		switch t[0] {
		case "dec":
			b := UnHex(t[1])
			s, err := common.UnmarshalVersionedSnapshot(b)
			if err != nil {
				res.Tags = append(res.Tags, "dec:reject")
				return "reject"
			}
			// re-encoding may panic on a snapshot the decoder should not have accepted
			var re []byte
			func() {
				defer func() { _ = recover() }()
				re = s.VersionedMarshal()
			}()
			cls := "noncanon"
			if re == nil {
				cls = "unencodable"
			} else if bytes.Equal(re, b) {
				cls = "full"
			} else if s.TopologicalOrder == 0 && bytes.Equal(re[:len(re)-8], b) {
				cls = "nosuffix"
			}
			res.Tags = append(res.Tags, "dec:"+cls)
			res.Nontrivial = true
			if cls == "unencodable" {
				res.PropKey = "C07:noncanonical-accept"
				res.PropDesc = "decoder accepted bytes whose decoded snapshot the encoder refuses (panics on): " + snapLine(s.Snapshot)
			} else if cls == "noncanon" {
				if len(b) > len(re)-8 && len(b) < len(re) && bytes.Equal(re[:len(re)-8], b[:len(re)-8]) {
					res.PropKey = "C07:partial-topo-suffix"
					res.PropDesc = fmt.Sprintf("decoder accepted %d bytes = body + %d-octet partial topology suffix; re-encoding is %d bytes (topology %d)",
						len(b), len(b)-(len(re)-8), len(re), s.TopologicalOrder)
				} else {
					res.PropKey = "C07:noncanonical-accept"
					res.PropDesc = "decoder accepted bytes that are neither the full nor the suffix-less encoding of the decoded snapshot"
				}
			}
			// structure
			n := len(s.Transactions)
			bad := n < 1 || n > 255
			for i := 1; i < n; i++ {
				if bytes.Compare(s.Transactions[i-1][:], s.Transactions[i][:]) >= 0 {
					bad = true
				}
			}
			if s.RoundNumber == 0 && (n != 1 || s.References != nil) {
				bad = true
			}
			if s.RoundNumber > 0 && s.References == nil {
				bad = true
			}
			if s.Version != 2 {
				bad = true
			}
			if bad && res.PropKey == "" {
				res.PropKey, res.PropDesc = "C07:structure", "accepted snapshot violates the structural rules: "+snapLine(s.Snapshot)
			}
			dump := fmt.Sprintf("ok %s %d %s", snapLine(s.Snapshot), s.TopologicalOrder, cls)
			wasRound0, wasNoSig := s.RoundNumber == 0, s.Signature == nil
			if res.PropKey == "" {
				// the decoded object: its hash is the hash of its payload, also once Hash is filled in
				// and fields change (the object is consumed by this)
				func() {
					defer func() {
						if e := recover(); e != nil && res.PropKey == "" {
							res.PropKey, res.PropDesc = "C07:hash-depends-on-object-state", fmt.Sprint("hashing a decoded snapshot panicked: ", e)
						}
					}()
					if crypto.Blake3Hash(s.VerifVersionedPayload()) != s.PayloadHash() {
						res.PropKey, res.PropDesc = "C07:hash-not-payload", "PayloadHash of a decoded snapshot differs from blake3(versionedPayload)"
						return
					}
					res.PropKey, res.PropDesc = hashObjectStateChecks(s.Snapshot, lineSeed(line))
				}()
			}
			if wasRound0 {
				res.Tags = append(res.Tags, "dec:round0")
			}
			if wasNoSig {
				res.Tags = append(res.Tags, "dec:nosig")
			}
			return dump
		case "enc":
			f := parseSnapFields(t[1:8])
			topo, _ := strconv.ParseUint(t[8], 10, 64)
			s := &common.SnapshotWithTopologicalOrder{Snapshot: f.build(), TopologicalOrder: topo}
			b := s.VersionedMarshal()
			res.Nontrivial = true
			return "ok " + Hex(b)
		case "pay":
			f := parseSnapFields(t[1:8])
			s := f.build()
			p := s.VerifVersionedPayload()
			h := f.build().PayloadHash()
			if crypto.Blake3Hash(p) != h {
				res.PropKey, res.PropDesc = "C07:hash-not-payload", "PayloadHash differs from blake3(versionedPayload)"
			}
			// signature and its absence do not matter
			g := f.build()
			if g.Signature == nil {
				g.Signature = &crypto.CosiSignature{Mask: 5}
			} else {
				g.Signature = nil
			}
			if g.PayloadHash() != h {
				res.PropKey, res.PropDesc = "C07:hash-depends-on-signature", "PayloadHash changed with the signature"
			}
			// neither does whatever sits in the Hash field, nor the object's history
			g2 := f.build()
			copy(g2.Hash[:], []byte("not the hash of this snapshot...."))
			if g2.PayloadHash() != h {
				res.PropKey, res.PropDesc = "C07:hash-depends-on-object-state", "PayloadHash changed with the content of the Hash field"
			}
			if res.PropKey == "" {
				res.PropKey, res.PropDesc = hashObjectStateChecks(f.build(), lineSeed(line))
			}
			res.Nontrivial = true
			return "ok " + Hex(p)
		case "hmut":
			// one object: hash, store it in the Hash field (kernel idiom), overwrite the fields in
			// place with those of the second snapshot, hash again
			a, b := parseSnapFields(t[1:8]), parseSnapFields(t[8:15])
			s := a.build()
			h1 := s.PayloadHash()
			s.Hash = h1
			cp := *s
			assignFields(s, b)
			h2 := s.PayloadHash()
			hb := b.build().PayloadHash()
			res.Nontrivial = true
			if h2 != hb {
				res.PropKey, res.PropDesc = "C07:hash-stale-after-mutation", "after Hash was assigned and the fields were overwritten in place, PayloadHash is not the hash of a fresh snapshot with the same fields"
			}
			assignFields(&cp, b)
			if cp.PayloadHash() != hb && res.PropKey == "" {
				res.PropKey, res.PropDesc = "C07:hash-stale-after-mutation", "a struct copy carrying the old Hash does not hash like a fresh snapshot with the same fields"
			}
			if h1 == h2 {
				res.Tags = append(res.Tags, "hmut:eq")
				return "eq"
			}
			res.Tags = append(res.Tags, "hmut:ne")
			return "ne"
		case "heq":
			a, b := parseSnapFields(t[1:8]), parseSnapFields(t[8:15])
			ha, hb := a.build().PayloadHash(), b.build().PayloadHash()
			want := sameHashedFields(a, b)
			res.Nontrivial = true
			if (ha == hb) != want {
				if want {
					res.PropKey, res.PropDesc = "C07:hash-oversensitive", "hash differs although version, node, round, references, transaction set and timestamp agree"
				} else {
					res.PropKey, res.PropDesc = "C07:hash-insensitive", "hash equal although a hashed field differs"
				}
			}
			if ha == hb {
				res.Tags = append(res.Tags, "heq:eq")
				return "eq"
			}
			res.Tags = append(res.Tags, "heq:ne")
			return "ne"
		}
		panic("harness: unknown op " + t[0])
	})
	res.Out = out
	if panicked {
		res.Nontrivial = false
		res.Tags = append(res.Tags, t[0]+":panic")
	}
	return res
}

func init() {
	// minimal snapshot: round 0, one transaction, no signature, 96-byte body
	body := append([]byte{0x77, 0x77, 0, 2}, make([]byte, 32)...)       // node
	body = append(body, make([]byte, 8)...)                              // round 0
	body = append(body, 0, 0)                                            // no references
	body = append(body, 0, 1)                                            // one transaction
	body = append(body, bytes.Repeat([]byte{0x11}, 32)...)               // the hash
	body = append(body, 0, 0, 0, 0, 0, 0, 0, 9)                          // timestamp
	body = append(body, make([]byte, 8)...)                              // nil signature
	full := append(append([]byte{}, body...), 0, 0, 0, 0, 0, 0, 0, 7)   // topology 7
	var corpus [][]string
	c := []string{"dec " + Hex(full), "dec " + Hex(body)}
	for cut := 1; cut <= 7; cut++ { // the partial-suffix witnesses (97..103 bytes)
		c = append(c, "dec "+Hex(full[:len(full)-cut]))
	}
	c = append(c, "dec "+Hex(append(append([]byte{}, full...), 0)))
	corpus = append(corpus, c)
	{ // boundary transaction lists: the all-zero hash repeated at the head, 0xff.. repeated, descending to zero
		var zero, one, ff crypto.Hash
		one[31] = 1
		for i := range ff {
			ff[i] = 0xff
		}
		f := &snapFields{version: 2, round: 1, refs: &common.RoundLink{}, ts: 9}
		var bl []string
		for _, txs := range [][]crypto.Hash{{zero, one}, {zero, zero}, {zero, zero, one}, {zero, zero, zero, ff}, {one, zero},
			{ff, ff}, {one, ff, ff}, {zero, one, one}, {zero, ff, one}} {
			bl = append(bl, "dec "+Hex(rawSnapBytes(f, txs, true, 3)), "dec "+Hex(rawSnapBytes(f, txs, false, 0)))
		}
		corpus = append(corpus, bl)
		a := &snapFields{version: 2, round: 1, refs: &common.RoundLink{}, txs: []crypto.Hash{one}, ts: 9}
		b := &snapFields{version: 2, round: 1, refs: &common.RoundLink{}, txs: []crypto.Hash{one}, ts: 10}
		corpus = append(corpus, []string{"hmut " + a.line() + " " + b.line(), "hmut " + a.line() + " " + a.line(), "pay " + a.line()})
	}
	Register(&Subsystem{
		Name: "snapcodec",
		Rule: "snapshots built from random fields (round 0 / later rounds, 1..255 transactions with shared prefixes, " +
			"boundary 64-bit values, with/without signature) encoded by the real encoder; every cut/extension of 1..16 " +
			"octets, all truncations, aimed mutations of each field, arbitrary bytes, encoder panic conditions, hash " +
			"sensitivity pairs (fresh objects, and one object mutated in place after its Hash field was filled); transaction " +
			"lists over boundary hashes (all-zero, all-0xff, neighbours) with equal / descending pairs at every position; non-trivial = decoder accepted or encoder produced bytes; distinct = distinct op line",
		Corpus: corpus,
		Gen:    genSnapCase,
		Exec:   execSnapCodec,
	})
}
