package main

// C34 — custodian history on a REAL Badger store and the kernel-level validator, against
// lean/Mixin/Model/CustodianStore.lean.
//
// One case = one store in a scratch directory. Custodian update transactions (built with real
// keys and signatures) are finalized through storage.finalizeTransaction in one Badger write
// transaction (hook VerifC34FinalizeTransaction = writeTransaction + finalizeTransaction, the
// body of writeSnapshot's loop), with valid successors, stale timestamps, equal timestamps with
// the same / another custodian, re-finalization of the same transaction, unparsable extras
// and over-long node lists. ReadCustodian is asked around every update, through the parse cache
// and without it, and after re-opening the store. Before a valid successor is written the real
// Transaction.validateCustodianUpdateNodes (common) and Node.validateCustodianUpdateNodes
// (kernel, on a hook-built node whose ReadCustodian is the real store) are asked.
//
// Property mode (no model involved):
//   history-changed-before-write  a successful write at T changed an answer at some t < T
//   stored-differs-from-accepted  after validate accepted X at T and X was written at T,
//                                 ReadCustodian(T) is not exactly X's custodian and entries
//   cache-differs                 cached and uncached lookups differ
//   stored-not-canonical          a record served in non-genesis position violates a clause
//   kernel-accepted-<clause>      the kernel validator accepted an update violating a clause

import (
	"bytes"
	"fmt"
	"os"
	"sort"
	"strconv"
	"strings"

	"github.com/MixinNetwork/mixin/common"
	"github.com/MixinNetwork/mixin/config"
	"github.com/MixinNetwork/mixin/crypto"
	"github.com/MixinNetwork/mixin/kernel"
	"github.com/MixinNetwork/mixin/storage"
)

type c34Ident struct{ cust, payee, signer common.Address }

// c34Pool: the kernel nodes of a case (signer with the derived view key EncodeCustodianNode
// assumes, payee, custodian), a function of the seed only.
func c34Pool(seed uint64, m int) []c34Ident {
	r := NewRand(seed)
	pool := make([]c34Ident, m)
	for i := range pool {
		s := common.NewAddressFromSeed(r.Bytes(64))
		s.PrivateViewKey = s.PublicSpendKey.DeterministicHashDerive()
		s.PublicViewKey = s.PrivateViewKey.Public()
		pool[i] = c34Ident{cust: c34Addr(r), payee: c34Addr(r), signer: s}
	}
	return pool
}

func c34NodeId(signer common.Address, net crypto.Hash) crypto.Hash {
	return signer.Hash().ForNetwork(net)
}

type c34KStore struct {
	*fakeStore
	real  *storage.BadgerStore
	nodes []*common.Node
}

func (s *c34KStore) ReadCustodian(ts uint64) (*common.CustodianUpdateRequest, error) {
	return s.real.ReadCustodian(ts)
}
func (s *c34KStore) ReadAllNodes(ts uint64, withState bool) []*common.Node { return s.nodes }

type c34SS struct {
	dir      string
	store    *storage.BadgerStore
	epoch    uint64
	net      crypto.Hash
	pool     []c34Ident
	node     *kernel.Node
	kstore   *c34KStore
	asked    map[uint64]string // uncached answers by timestamp
	accepted map[string]bool   // "ts:extra-hash" accepted by the common validator
}

var c34Last *c34SS

func c34Close(ss *c34SS) {
	if ss == nil {
		return
	}
	if ss.store != nil {
		ss.store.Close()
		ss.store = nil
	}
	if ss.dir != "" {
		os.RemoveAll(ss.dir)
		ss.dir = ""
	}
}

func c34Open(ss *c34SS) {
	store, err := storage.VerifC21NewBadgerStore(&config.Custom{}, ss.dir, 8<<20, false)
	if err != nil {
		panic(err)
	}
	ss.store = store
	if ss.kstore != nil {
		ss.kstore.real = store
	}
}

func c34FmtFound(cur *common.CustodianUpdateRequest, err error) string {
	if err != nil {
		return "err"
	}
	if cur == nil {
		return "none"
	}
	var keys []byte
	for _, n := range cur.Nodes {
		keys = append(keys, c34AddrBytes(&n.Custodian)...)
		keys = append(keys, c34AddrBytes(&n.Payee)...)
	}
	return fmt.Sprintf("found %d %s %s %s %d %s", cur.Timestamp, Hex(cur.Transaction[:]), Hex(c34AddrBytes(cur.Custodian)),
		Hex(cur.Signature[:]), len(cur.Nodes), Hex(keys))
}

func c34Keys(ss *c34SS) (string, map[string]bool) {
	tss, hs := ss.store.VerifC34CustodianKeys()
	var sb strings.Builder
	set := map[string]bool{}
	fmt.Fprintf(&sb, "%d", len(tss))
	for i := range tss {
		fmt.Fprintf(&sb, " %d:%s", tss[i], Hex(hs[i][:8]))
		set[fmt.Sprintf("%d:%s", tss[i], Hex(hs[i][:]))] = true
	}
	return sb.String(), set
}

// c34Tx rebuilds the custodian update transaction of an op line.
func c34Tx(genesis bool, salt, amount string, extra []byte) *common.VersionedTransaction {
	tx := common.NewTransactionV5(common.XINAssetId)
	if genesis {
		tx.Inputs = []*common.Input{{Genesis: []byte("verif-c34-" + salt)}}
	} else {
		tx.AddInput(crypto.Blake3Hash([]byte("verif-c34-input-"+salt)), 0)
	}
	kh, mh := crypto.Blake3Hash([]byte("verif-c34-key-"+salt)), crypto.Blake3Hash([]byte("verif-c34-mask-"+salt))
	key := crypto.NewKeyFromSeed(append(kh[:], kh[:]...)).Public()
	mask := crypto.NewKeyFromSeed(append(mh[:], mh[:]...)).Public()
	tx.Outputs = []*common.Output{{Type: common.OutputTypeCustodianUpdateNodes, Amount: integerFromBig(parseBig(amount)),
		Keys: []*crypto.Key{&key}, Mask: mask, Script: common.Script{common.OperatorCmp, common.OperatorSum, 64}}}
	tx.Extra = extra
	return tx.AsVersioned()
}

func c34Hour(epoch, ts uint64) int { return int((ts-epoch)/3600000000000) % 24 }

func execCustodianStore(st *State, line string) Result {
	t := strings.Fields(line)
	res := Result{Tags: []string{t[0]}}
	if t[0] == "reset" {
		c34Close(c34Last)
		dir, err := os.MkdirTemp(st.Dir, "c34-")
		if err != nil {
			panic(err)
		}
		ss := &c34SS{dir: dir, asked: map[uint64]string{}, accepted: map[string]bool{}}
		c34Open(ss)
		if err := ss.store.VerifC34WriteAssetInfo(common.XINAssetId, common.XINAsset); err != nil {
			panic(err)
		}
		c34Last = ss
		st.V["c34"] = ss
		res.Out = "ok"
		return res
	}
	ss := st.V["c34"].(*c34SS)
	fail := func(key, desc string) {
		if res.PropKey == "" {
			res.PropKey, res.PropDesc = "C34:"+key, desc
		}
	}
	readBoth := func(ts uint64) (string, string) {
		c, _, _ := Catch(func() string { return c34FmtFound(ss.store.ReadCustodian(ts)) })
		n, _, _ := Catch(func() string { return c34FmtFound(ss.store.VerifReadCustodianNoCache(ts)) })
		return c, n
	}
	switch t[0] {
	case "init": // init <epoch> <net> <poolseed> <m>
		ss.epoch = u64(t[1])
		ss.net = crypto.Hash(unhx32(t[2]))
		m, _ := strconv.Atoi(t[4])
		ss.pool = c34Pool(u64(t[3]), m)
		cn := make([]*kernel.CNode, m)
		var genesis []crypto.Hash
		ss.kstore = &c34KStore{fakeStore: newFakeStore(), real: ss.store}
		for i, p := range ss.pool {
			id := c34NodeId(p.signer, ss.net)
			cn[i] = &kernel.CNode{IdForNetwork: id, Signer: p.signer, Payee: p.payee, Transaction: fakeHash(fmt.Sprint("c34-accept-", i)),
				Timestamp: ss.epoch, State: common.NodeStateAccepted}
			genesis = append(genesis, id)
			ss.kstore.nodes = append(ss.kstore.nodes, &common.Node{Signer: p.signer, Payee: p.payee, State: common.NodeStateAccepted,
				Transaction: cn[i].Transaction, Timestamp: ss.epoch})
		}
		sort.SliceStable(cn, func(i, j int) bool { return cn[i].IdForNetwork.String() < cn[j].IdForNetwork.String() })
		ss.node = kernel.VerifC29NewNode(ss.net, ss.epoch, cn, genesis, ss.kstore)
		ss.node.IdForNetwork = fakeHash("the-validating-node")
		res.LeanIn = "reopen" // no model state involved
		res.Out = "ok"
	case "reopen":
		ss.store.Close()
		c34Open(ss)
		res.Out = "ok"
	case "read": // read <ts> <c|n>
		ts := u64(t[1])
		c, n := readBoth(ts)
		if c != n {
			fail("cache-differs", fmt.Sprintf("ReadCustodian(%d) through the cache gave %.80q, without it %.80q", ts, c, n))
		}
		if _, ok := ss.asked[ts]; !ok {
			ss.asked[ts] = n
		}
		res.Out = n
		if t[2] == "c" {
			res.Out = c
		}
		if strings.HasPrefix(n, "found") {
			res.Nontrivial = true
			res.Tags = append(res.Tags, "read:found")
			// a record served in non-genesis position must be canonical
			cur, _ := ss.store.VerifReadCustodianNoCache(ts)
			tss, _ := ss.store.VerifC34CustodianKeys()
			if cur != nil && len(tss) > 0 && cur.Timestamp != tss[0] {
				back := c34AddrBytes(cur.Custodian)
				for _, nd := range cur.Nodes {
					back = append(back, nd.Extra...)
				}
				back = append(back, cur.Signature[:]...)
				if why := c34Canonical(back, false); why != "" {
					fail("stored-not-canonical", "ReadCustodian served a non-genesis record violating: "+why)
				}
			}
		} else {
			res.Tags = append(res.Tags, "read:"+n)
		}
	case "fin": // fin <genesis> <ts> <salt> <amount> <extra>
		genesis, ts, extra := t[1] == "1", u64(t[2]), UnHex(t[5])
		ver := c34Tx(genesis, t[3], t[4], extra)
		hash := ver.PayloadHash()
		p, c := c34Bits(extra)
		res.LeanIn = fmt.Sprintf("fin %s %s %d %s %s %s", Hex(hash[:]), t[1], ts, t[5], p, c)
		_, before := c34Keys(ss)
		snap := &common.SnapshotWithTopologicalOrder{Snapshot: &common.Snapshot{Version: common.SnapshotVersionCommonEncoding,
			NodeId: fakeHash("c34-snapshot-node"), RoundNumber: 1, Timestamp: ts}}
		snap.Transactions = []crypto.Hash{hash}
		out, panicked, _ := Catch(func() string {
			if err := ss.store.VerifC34FinalizeTransaction(ver, snap); err != nil {
				return "error"
			}
			return "ok"
		})
		keys, after := c34Keys(ss)
		me := fmt.Sprintf("%d:%s", ts, Hex(hash[:]))
		switch {
		case panicked:
			out = "panic"
		case out == "ok" && after[me] && !before[me]:
			out = "written"
		case out == "ok":
			out = "unchanged"
		}
		res.Tags = append(res.Tags, "fin:"+out)
		res.Out = out + " " + keys
		eh0 := crypto.Blake3Hash(extra)
		if out == "panic" && ss.accepted[fmt.Sprintf("%d:%s", ts, Hex(eh0[:]))] {
			// observed on the unchanged tree for more than 50 entries: neither validator bounds the count
			res.Tags = append(res.Tags, fmt.Sprintf("fin:accepted-by-validate-then-panic:entries=%d", c34ChunkCount(extra)))
		}
		for k := range before {
			if !after[k] {
				fail("record-replaced", "a finalization removed or replaced the stored custodian record "+k[:20])
			}
		}
		if out == "panic" || out == "error" {
			if len(after) != len(before) {
				fail("failed-write-left-record", "a finalization that failed changed the custodian records")
			}
			break
		}
		res.Nontrivial = out == "written"
		// append-only: answers at earlier timestamps are what they were
		for ats, old := range ss.asked {
			if ats < ts {
				if _, now := readBoth(ats); now != old {
					fail("history-changed-before-write", fmt.Sprintf("after a write at %d ReadCustodian(%d) changed from %.60q to %.60q", ts, ats, old, now))
				}
			} else {
				delete(ss.asked, ats) // may legitimately change
			}
		}
		eh := crypto.Blake3Hash(extra)
		if out == "written" && ss.accepted[fmt.Sprintf("%d:%s", ts, Hex(eh[:]))] {
			res.Tags = append(res.Tags, "fin:accepted-then-written")
			cur, err := ss.store.VerifReadCustodianNoCache(ts)
			ok := err == nil && cur != nil && cur.Timestamp == ts && cur.Transaction == hash && bytes.Equal(c34AddrBytes(cur.Custodian), extra[:64])
			if ok {
				var body []byte
				for _, nd := range cur.Nodes {
					body = append(body, nd.Extra...)
				}
				ok = bytes.Equal(body, extra[64:len(extra)-64]) && bytes.Equal(cur.Signature[:], extra[len(extra)-64:])
			}
			if !ok {
				fail("stored-differs-from-accepted", fmt.Sprintf("ReadCustodian(%d) after writing an accepted update is not that update", ts))
			}
		}
	case "cval": // cval <ts> <salt> <amount> <extra>
		ts, extra := u64(t[1]), UnHex(t[4])
		ver := c34Tx(false, t[2], t[3], extra)
		p, c := c34Bits(extra)
		approval := "-"
		if prev, err := ss.store.VerifReadCustodianNoCache(ts); err == nil && prev != nil && len(extra) >= 64 {
			approval = strconv.Itoa(b2i(c34Verify(prev.Custodian.PublicSpendKey[:], extra[:len(extra)-64], extra[len(extra)-64:])))
		}
		res.LeanIn = fmt.Sprintf("cval %s 5 %s %d %s 1 fffe40 %d %s %s %s %s", Hex(common.XINAssetId[:]), Hex(common.XINAssetId[:]),
			common.OutputTypeCustodianUpdateNodes, t[3], ts, t[4], p, c, approval)
		out, _, _ := Catch(func() string {
			if err := ver.SignedTransaction.Transaction.VerifValidateCustodianUpdateNodes(ss.store, ts); err != nil {
				res.Tags = append(res.Tags, "cval:"+errClass(err.Error()))
				return "reject"
			}
			return "accept"
		})
		res.Out = out
		if out == "accept" {
			res.Nontrivial = true
			eh := crypto.Blake3Hash(extra)
			ss.accepted[fmt.Sprintf("%d:%s", ts, Hex(eh[:]))] = true
			if why := c34Canonical(extra, false); why != "" {
				fail("accepted-"+why, "accepted custodian update violates: "+why)
			}
		}
	case "kval": // kval <elected> <finalized> <ts> <graphTs> <salt> <extra>
		elected, finalized, ts, gts, extra := t[1] == "1", t[2] == "1", u64(t[3]), u64(t[4]), UnHex(t[6])
		ver := c34Tx(false, t[5], "100000000", extra)
		id := fakeHash("c34-not-elected")
		if elected {
			id = ss.node.VerifElectSnapshotNode(common.TransactionTypeCustodianUpdateNodes, ts)
		}
		h := c34Hour(ss.epoch, ts)
		gate := elected && ts >= ss.epoch && !(h+1 >= config.KernelMintTimeBegin && h <= config.KernelMintTimeEnd+1)
		thr := config.SnapshotRoundGap * config.SnapshotReferenceThreshold
		p, c := c34Bits(extra)
		approval := "-"
		prev, perr := ss.store.VerifReadCustodianNoCache(ts)
		if perr == nil && prev != nil && len(extra) >= 64 {
			approval = strconv.Itoa(b2i(c34Verify(prev.Custodian.PublicSpendKey[:], extra[:len(extra)-64], extra[len(extra)-64:])))
		}
		byId := map[crypto.Hash]c34Ident{}
		var all strings.Builder
		for _, pi := range ss.pool {
			nid := c34NodeId(pi.signer, ss.net)
			byId[nid] = pi
			fmt.Fprintf(&all, " %s %s %s", Hex(nid[:]), Hex(pi.signer.PublicSpendKey[:]), Hex(c34AddrBytes(&pi.payee)))
		}
		sbits := "-"
		if k := c34ChunkCount(extra); k > 0 {
			var sb strings.Builder
			for i := 0; i < k; i++ {
				e := extra[64+i*c34NodeSize : 64+(i+1)*c34NodeSize]
				var nid crypto.Hash
				copy(nid[:], e[129:161])
				ok := false
				if pi, found := byId[nid]; found {
					ok = c34Verify(pi.signer.PublicSpendKey[:], e[:161], e[161:225])
				}
				sb.WriteByte('0' + byte(b2i(ok)))
			}
			sbits = sb.String()
		}
		res.LeanIn = fmt.Sprintf("kval %d %s %d %d %d %s %s %s %s %s %d%s", b2i(gate), t[2], ts, gts, thr, t[6], p, c, approval, sbits,
			len(ss.pool), all.String())
		ss.node.VerifSetGraphTimestamp(gts)
		snap := &common.Snapshot{Version: common.SnapshotVersionCommonEncoding, NodeId: id, Timestamp: ts}
		out, panicked, _ := Catch(func() string {
			if err := ss.node.VerifValidateCustodianUpdateNodes(snap, ver, finalized); err != nil {
				res.Tags = append(res.Tags, "kval:"+errClass(err.Error()))
				return "reject"
			}
			return "accept"
		})
		res.Out = out
		if panicked {
			res.Tags = append(res.Tags, "kval:panic")
		}
		if out == "accept" {
			res.Nontrivial = true
			res.Tags = append(res.Tags, "kval:accept")
			kfail := func(k string) { fail("kernel-accepted-"+k, "the kernel validator accepted a custodian update violating: "+k) }
			if !gate {
				kfail("gate")
			}
			if why := c34Canonical(extra, false); why != "" {
				kfail(why)
			}
			if prev == nil || approval != "1" {
				kfail("approval")
			}
			if !finalized && ts+thr*2 < gts {
				kfail("stale-snapshot")
			}
			for i := 0; i < c34ChunkCount(extra); i++ {
				e := extra[64+i*c34NodeSize : 64+(i+1)*c34NodeSize]
				var nid crypto.Hash
				copy(nid[:], e[129:161])
				pi, found := byId[nid]
				if !found {
					kfail("unknown-node")
				} else if !bytes.Equal(c34AddrBytes(&pi.payee), e[65:129]) {
					kfail("payee")
				} else if !c34Verify(pi.signer.PublicSpendKey[:], e[:161], e[161:225]) {
					kfail("signer-signature")
				}
			}
		}
	default:
		panic("harness: unknown op " + t[0])
	}
	return res
}

// ---- generator

type c34Hist struct {
	ts   uint64
	cust common.Address // custodian registered by the record
	line string         // the fin line that wrote it
}

func genCustodianStore(r *Rand, i int, tier string) []string {
	var net crypto.Hash
	copy(net[:], r.Bytes(32))
	m := r.Range(7, 9)
	poolSeed := r.U64()
	pool := c34Pool(poolSeed, m)
	day := uint64(24 * 3600 * 1000000000)
	epoch := uint64(1700000000) * 1000000000
	lines := []string{"reset", fmt.Sprintf("init %d %s %d %d", epoch, Hex(net[:]), poolSeed, m)}
	salt := 0
	nextSalt := func() string { salt++; return fmt.Sprintf("%d-%d", poolSeed, salt) }

	// entries of an update over the pool: every pool node, optionally with another payee / custodian
	build := func(cust common.Address, approver crypto.Key, mutate int) []byte {
		es := make([]*c34Entry, len(pool))
		for k, p := range pool {
			e := &c34Entry{cust: p.cust, payee: p.payee, signer: p.signer}
			es[k] = e
		}
		switch mutate {
		case 1: // a payee the kernel does not know for that node
			es[r.Intn(len(es))].payee = c34Addr(r)
		case 2: // a signer that is no kernel node
			es[r.Intn(len(es))].signer = c34Addr(r)
		case 3: // custodians replaced (new entries, priced 100 each)
			for _, e := range es {
				if r.Bool() {
					e.cust = c34Addr(r)
				}
			}
		case 7: // a payee that keeps the spend key the kernel knows but has another view key
			e := es[r.Intn(len(es))]
			f := c34Addr(r)
			e.payee.PrivateViewKey, e.payee.PublicViewKey = f.PrivateViewKey, f.PublicViewKey
		case 4: // one entry dropped (still >= 7 when m > 7)
			if len(es) > 7 {
				es = es[1:]
			}
		}
		for _, e := range es {
			e.extra = c34Encode(e.cust, e.payee, e.signer, net)
		}
		if mutate == 5 { // wrong signer signature
			e := es[r.Intn(len(es))]
			e.extra = append([]byte{}, e.extra...)
			e.extra[161+r.Intn(64)] ^= 1
		}
		c34Sort(es)
		if mutate == 6 && len(es) > 1 {
			es[0], es[1] = es[1], es[0]
		}
		extra := c34Assemble(cust, es)
		return append(extra, c34Sign(approver, extra)...)
	}
	reads := func(ts uint64) {
		for _, d := range []int64{-1, 0, 1} {
			lines = append(lines, fmt.Sprintf("read %d %s", uint64(int64(ts)+d), Pick(r, []string{"c", "n", "c"})))
		}
	}

	// genesis record at the epoch (its own approval is not checked; one case in three carries a
	// bad entry signature, which genesis parsing tolerates)
	cur := c34Addr(r)
	g := build(cur, c34Addr(r).PrivateSpendKey, 0)
	if r.Chance(1, 3) {
		g[64+225+r.Intn(128)] ^= 1
	}
	t0 := epoch
	hist := []c34Hist{{t0, cur, fmt.Sprintf("fin 1 %d %s 100000000 %s", t0, nextSalt(), Hex(g))}}
	lines = append(lines, hist[0].line)
	reads(t0)

	last := t0
	custAt := func(ts uint64) (common.Address, bool) {
		var c common.Address
		ok := false
		for _, h := range hist {
			if h.ts <= ts {
				c, ok = h.cust, true
			}
		}
		return c, ok
	}
	steps := r.Range(2, 5)
	for s := 0; s < steps; s++ {
		// hour 1..4 or 12..22 of some later day: outside the custodian window's exclusion [6,10]
		ts := last + day*uint64(r.Range(0, 2)) + uint64(r.Range(1, 3600))*1000000000
		ts = ts - (ts-epoch)%day + uint64(Pick(r, []int{1, 2, 3, 4, 12, 15, 22}))*3600000000000 + uint64(r.Intn(3000))*1000000000
		for ts <= last {
			ts += day
		}
		if r.Chance(1, 8) { // inside the excluded hours: the kernel gate rejects
			ts = ts - (ts-epoch)%day + uint64(Pick(r, []int{5, 6, 8, 10, 11}))*3600000000000
			for ts <= last {
				ts += day
			}
		}
		kind := r.Intn(12)
		prevCust, _ := custAt(ts)
		next := c34Addr(r)
		same := r.Chance(1, 3)
		if same {
			next = prevCust
		}
		switch kind {
		case 0, 1, 2, 3, 4, 5: // a successor: validated (common + kernel), finalized
			mut := 0
			if r.Chance(1, 3) {
				mut = Pick(r, []int{1, 2, 3, 4, 5, 5, 6, 7, 7})
			}
			extra := build(next, prevCust.PrivateSpendKey, mut)
			if r.Chance(1, 10) { // approval by somebody else
				extra = build(next, c34Addr(r).PrivateSpendKey, mut)
			}
			sl := nextSalt()
			price := c34PriceAgainst(extra, hist, lines)
			amount := price
			if r.Chance(1, 5) && price > 1 {
				amount = price - 1
			}
			if amount == 0 {
				amount = 1
			}
			lines = append(lines, fmt.Sprintf("cval %d %s %d %s", ts, sl, amount, Hex(extra)))
			gts := ts
			if r.Chance(1, 4) {
				gts = ts + config.SnapshotRoundGap*config.SnapshotReferenceThreshold*2 + uint64(r.Range(0, 2))
			}
			lines = append(lines, fmt.Sprintf("kval %d %d %d %d %s %s", b2i(!r.Chance(1, 8)), b2i(r.Bool()), ts, gts, sl, Hex(extra)))
			// kernel-only probes on single-defect variants of the same update (nothing is written)
			for _, pm := range []int{5, 7, 2} {
				if r.Chance(1, 2) {
					lines = append(lines, fmt.Sprintf("kval 1 %d %d %d %s %s", b2i(r.Bool()), ts, ts, nextSalt(), Hex(build(next, prevCust.PrivateSpendKey, pm))))
				}
			}
			if mut != 6 {
				ln := fmt.Sprintf("fin 0 %d %s %d %s", ts, sl, amount, Hex(extra))
				lines = append(lines, ln)
				hist = append(hist, c34Hist{ts, next, ln})
				sort.Slice(hist, func(a, b int) bool { return hist[a].ts < hist[b].ts })
				last = ts
				// the same snapshot validated again once its record is stored (finalized)
				lines = append(lines, fmt.Sprintf("kval 1 1 %d %d %s %s", ts, ts, sl, Hex(extra)))
			} else { // an extra the parser refuses: finalization panics, nothing is stored
				lines = append(lines, fmt.Sprintf("fin 0 %d %s %d %s", ts, sl, amount, Hex(extra)))
			}
			reads(ts)
		case 6: // stale: a timestamp inside (or before) the existing history
			lo := epoch - day
			if r.Bool() && len(hist) > 1 {
				lo = hist[r.Intn(len(hist)-1)].ts
			}
			sts := lo + uint64(r.Range(1, 1000))*1000000000
			pc, ok := custAt(sts)
			if !ok {
				pc = c34Addr(r)
			}
			extra := build(next, pc.PrivateSpendKey, 0)
			ln := fmt.Sprintf("fin 0 %d %s 100000000 %s", sts, nextSalt(), Hex(extra))
			lines = append(lines, ln)
			dup := false
			for _, h := range hist {
				dup = dup || h.ts == sts
			}
			if !dup {
				hist = append(hist, c34Hist{sts, next, ln})
				sort.Slice(hist, func(a, b int) bool { return hist[a].ts < hist[b].ts })
			}
			reads(sts)
			reads(last)
		case 7: // same timestamp as an existing record, same custodian: no new record
			h := hist[r.Intn(len(hist))]
			extra := build(h.cust, c34Addr(r).PrivateSpendKey, Pick(r, []int{0, 3}))
			lines = append(lines, fmt.Sprintf("fin %d %d %s 100000000 %s", b2i(h.ts == hist[0].ts), h.ts, nextSalt(), Hex(extra)))
			reads(h.ts)
		case 8: // same timestamp, another custodian: panic
			h := hist[r.Intn(len(hist))]
			extra := build(c34Addr(r), c34Addr(r).PrivateSpendKey, 0)
			lines = append(lines, fmt.Sprintf("fin 0 %d %s 100000000 %s", h.ts, nextSalt(), Hex(extra)))
			reads(h.ts)
		case 9: // the same transaction finalized again, at its own or at another timestamp
			h := hist[r.Intn(len(hist))]
			f := strings.Fields(h.line)
			if r.Bool() {
				f[2] = fmt.Sprint(ts)
			}
			lines = append(lines, strings.Join(f, " "))
			reads(u64(f[2]))
		case 10: // more than fifty entries
			if r.Chance(1, 3) {
				es := c34Entries(r, 51, net)
				c34Sort(es)
				extra := c34Assemble(next, es)
				extra = append(extra, c34Sign(prevCust.PrivateSpendKey, extra)...)
				sl := nextSalt()
				lines = append(lines, fmt.Sprintf("cval %d %s 510000000000 %s", ts, sl, Hex(extra)),
					fmt.Sprintf("fin 0 %d %s 510000000000 %s", ts, sl, Hex(extra)))
				reads(ts)
			}
		default:
			lines = append(lines, "reopen")
			reads(last)
		}
		if r.Chance(1, 4) {
			lines = append(lines, "reopen")
		}
	}
	for _, h := range hist {
		lines = append(lines, fmt.Sprintf("read %d n", h.ts), fmt.Sprintf("read %d c", h.ts+1))
	}
	return lines
}

// c34PriceAgainst: price of an update against the newest record (the generator writes successors
// after everything else): 100 per custodian address not in it, 1 per changed payee address.
func c34PriceAgainst(extra []byte, hist []c34Hist, _ []string) uint64 {
	last := hist[len(hist)-1]
	f := strings.Fields(last.line)
	prev := UnHex(f[5])
	old := map[string]string{}
	for i := 64; i+c34NodeSize <= len(prev)-64; i += c34NodeSize {
		old[string(prev[i+1:i+65])] = string(prev[i+65 : i+129])
	}
	var total uint64
	for i := 64; i+c34NodeSize <= len(extra)-64; i += c34NodeSize {
		p, ok := old[string(extra[i+1:i+65])]
		if !ok {
			total += 100 * 100000000
		} else if p != string(extra[i+65:i+129]) {
			total += 100000000
		}
	}
	return total
}

func init() {
	Register(&Subsystem{
		Name: "custodianstore",
		Rule: "case = one real Badger store: a genesis custodian record, then 2..5 steps of valid successors (validated by " +
			"the real common and kernel validators against the stored history, then finalized through finalizeTransaction), " +
			"updates with unknown payees / signers / bad signer signatures / wrong order, stale timestamps (inside and before " +
			"the history), equal timestamps with the same or another custodian, re-finalization of a stored transaction, 51 " +
			"entries, re-opened stores; ReadCustodian asked at T-1, T, T+1 of every step with and without the parse cache. " +
			"non-trivial = a record was written, a lookup found a record, or a validator accepted; distinct = distinct op line",
		Gen:  genCustodianStore,
		Exec: execCustodianStore,
	})
}
