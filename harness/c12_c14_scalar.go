package main

// Shared helpers of the C12 / C13 / C14 harnesses: scalars mod ℓ as math/big integers, points
// named by their discrete logarithm (the harness generates every private scalar and nonce, so
// it knows them), conversion to the repository's crypto.Key through the repository's own
// Key.Public().

import (
	"encoding/hex"
	"math/big"
	"strings"

	"github.com/MixinNetwork/mixin/crypto"
)

var c12EllBig, _ = new(big.Int).SetString("7237005577332262213973186563042994240857116359379907606001950938285454250989", 10)

func c12ModL(n *big.Int) *big.Int { return new(big.Int).Mod(n, c12EllBig) }

// c12ScalarBytes: 32-byte little-endian encoding of n (n < 2^256, not reduced).
func c12ScalarBytes(n *big.Int) [32]byte {
	var out [32]byte
	b := n.Bytes()
	if len(b) > 32 {
		panic("harness: scalar does not fit 32 bytes")
	}
	for i := range b {
		out[len(b)-1-i] = b[i]
	}
	return out
}

func c12BytesScalar(b []byte) *big.Int {
	r := make([]byte, len(b))
	for i := range b {
		r[len(b)-1-i] = b[i]
	}
	return new(big.Int).SetBytes(r)
}

var c12PointCache = map[string]crypto.Key{}

// c12PointOf returns the encoding of (d mod ℓ)•B computed by the repository's Key.Public().
func c12PointOf(d *big.Int) crypto.Key {
	d = c12ModL(d)
	s := d.String()
	if k, ok := c12PointCache[s]; ok {
		return k
	}
	k := crypto.Key(c12ScalarBytes(d)).Public()
	if len(c12PointCache) > 200000 {
		c12PointCache = map[string]crypto.Key{}
	}
	c12PointCache[s] = k
	return k
}

func c12RandScalar(r *Rand) *big.Int {
	for {
		n := c12ModL(new(big.Int).SetBytes(r.Bytes(40)))
		if n.Sign() != 0 {
			return n
		}
	}
}

// 32-byte strings that decodePoint must refuse: small-order points, a mixed-order point,
// non-canonical encodings, garbage. Checked against Key.CheckKey() at start-up.
var c12BadPointHex = []string{
	"0000000000000000000000000000000000000000000000000000000000000000", // order 4
	"ecffffffffffffffffffffffffffffffffffffffffffffffffffffffffffff7f", // order 2
	"26e8958fc2b227b045c3f489f2ef98f0d5dfac05d3c63339b13802886d53fc05", // order 8
	"c7176a703d4dd84fba3c0b760d10670f2a2053fa2c39ccc64ec7fd7792ac037a", // order 8
	"0100000000000000000000000000000000000000000000000000000000000080", // non-canonical identity
	"eeffffffffffffffffffffffffffffffffffffffffffffffffffffffffffff7f", // y = p+1
	"ffffffffffffffffffffffffffffffffffffffffffffffffffffffffffffffff",
	"0200000000000000000000000000000000000000000000000000000000000000", // not on curve
}

func init() {
	var ok []string
	for _, h := range c12BadPointHex {
		var k crypto.Key
		b, _ := hex.DecodeString(h)
		copy(k[:], b)
		if !k.CheckKey() {
			ok = append(ok, h)
		}
	}
	c12BadPointHex = ok
	if len(c12BadPointHex) < 4 {
		panic("harness: too few refused point encodings")
	}
}

// c12GenBadPoint: a refused 32-byte string; sometimes the real base point plus a torsion component
// is not available without point arithmetic, so random strings are filtered through CheckKey.
func c12GenBadPoint(r *Rand) string {
	if r.Chance(2, 3) {
		return Pick(r, c12BadPointHex)
	}
	for {
		var k crypto.Key
		copy(k[:], r.Bytes(32))
		if !k.CheckKey() {
			return hex.EncodeToString(k[:])
		}
	}
}

// point tokens: decimal discrete log | x<64 hex> refused bytes | xnil nil pointer
func c12ParsePointTok(t string) (key *crypto.Key, dl *big.Int) {
	if t == "xnil" {
		return nil, nil
	}
	if strings.HasPrefix(t, "x") {
		var k crypto.Key
		copy(k[:], UnHex(t[1:]))
		return &k, nil
	}
	d, ok := new(big.Int).SetString(t, 10)
	if !ok {
		panic("harness: bad point token " + t)
	}
	k := c12PointOf(d)
	return &k, c12ModL(d)
}

func c12ParseBigTok(t string) *big.Int {
	n, ok := new(big.Int).SetString(t, 10)
	if !ok {
		panic("harness: bad integer token " + t)
	}
	return n
}

// algebraic Schnorr check on discrete logs: s < ℓ, a ≠ 0, r ≠ 0, s = r + x·a (mod ℓ)
func c12DlVerify(a, r, s, x *big.Int) bool {
	if a == nil || r == nil || a.Sign() == 0 || r.Sign() == 0 || s.Cmp(c12EllBig) >= 0 {
		return false
	}
	v := new(big.Int).Mul(x, a)
	v.Add(v, r)
	return c12ModL(v).Cmp(s) == 0
}
