package main

// C32 — one-time keys and textual codecs: real crypto.DeriveGhost*/ViewGhostOutputKey,
// util/base58, common.Address, hex forms of Key/Hash/Signature/CosiSignature against
// lean/Mixin/Model/{Base58,Keys}.lean.
//
// Ghost keys: the harness generates the private scalars, so it knows the discrete logs of
// A, B, R. The value of HashScalar is computed by the real code and handed to the model.
// The discrete log the model predicts for a derived *point* is confirmed on the Go side by
// multiplying the base point with the real code (Key.Public) and comparing with the point
// the real derivation returned; "?" is printed when that confirmation fails.
// Property mode checks the statement itself: priv.Public() == pub, view == B,
// Decode(Encode(b)) == b, Encode(Decode(s)) == s, parse(print(x)) == x, print(parse(s)) == s.

import (
	"bytes"
	"fmt"
	"math/big"
	"strconv"
	"strings"
	"unicode/utf8"

	"filippo.io/edwards25519"
	"github.com/MixinNetwork/mixin/common"
	"github.com/MixinNetwork/mixin/crypto"
	"github.com/MixinNetwork/mixin/util/base58"
)

const b58Alphabet = "123456789ABCDEFGHJKLMNPQRSTUVWXYZabcdefghijkmnopqrstuvwxyz"

var ellBig, _ = new(big.Int).SetString("7237005577332262213973186563042994240857116359379907606001950938285454250989", 10)

func scalarBig(k crypto.Key) *big.Int {
	var be [32]byte
	for i := range k {
		be[31-i] = k[i]
	}
	return new(big.Int).SetBytes(be[:])
}

func keyOfBig(n *big.Int) crypto.Key {
	var k crypto.Key
	b := new(big.Int).Mod(n, ellBig).Bytes()
	for i := range b {
		k[i] = b[len(b)-1-i]
	}
	return k
}

func genScalar(r *Rand) crypto.Key {
	switch r.Intn(16) {
	case 0:
		return keyOfBig(big.NewInt(0))
	case 1:
		return keyOfBig(big.NewInt(1))
	case 2:
		return keyOfBig(new(big.Int).Sub(ellBig, big.NewInt(1)))
	case 3:
		return keyOfBig(big.NewInt(int64(r.Intn(1 << 16))))
	default:
		return crypto.NewKeyFromSeed(r.Bytes(64))
	}
}

func genIndex(r *Rand) uint64 {
	switch r.Intn(10) {
	case 0:
		return 0
	case 1:
		return 1
	case 2:
		return 1 << 16
	case 3:
		return 1<<32 - 1
	case 4:
		return 1 << 32
	case 5:
		return 1<<64 - 1
	case 6: // uvarint length boundaries
		k := uint(7 * r.Range(1, 9))
		return (uint64(1) << k) - uint64(r.Intn(2))
	case 7:
		return uint64(r.Intn(256))
	default:
		return r.U64()
	}
}

func genB58String(r *Rand) string {
	var sb strings.Builder
	for k := r.Intn(4) * r.Intn(3); k > 0; k-- {
		sb.WriteByte('1')
	}
	n := Pick(r, []int{0, 1, 2, 9, 10, 11, 19, 20, 21, 29, 30, 31, 44, 92, 93, 100})
	if r.Bool() {
		n = r.Intn(101)
	}
	for i := 0; i < n; i++ {
		if r.Chance(1, 10) {
			sb.WriteByte('1')
		} else if r.Chance(1, 10) {
			sb.WriteByte('z')
		} else {
			sb.WriteByte(b58Alphabet[r.Intn(58)])
		}
	}
	return sb.String()
}

var foreignBytes = [][]byte{{'0'}, {'O'}, {'I'}, {'l'}, {' '}, {0}, {0x7f}, {0x80}, {0xff}, {0xc3, 0x80}, {0xc2, 0xb1},
	{0xe2, 0x82, 0xac}, {'+'}, {'/'}, {'='}, {'\n'}, {0xc0}, {'_'}}

// wideRune encodes a rune above U+00FF whose low byte is c, using w bytes of UTF-8 (w = 2, 3, 4).
func wideRune(r *Rand, c byte, w int) []byte {
	var hi rune
	switch w {
	case 2:
		hi = rune(r.Range(1, 7)) << 8
	case 3:
		hi = rune(Pick(r, []int{0x08, 0x10, 0x20, 0x4e, 0xac, 0xff})) << 8
	default:
		hi = rune(Pick(r, []int{0x100, 0x1f6, 0x200, 0x10ff})) << 8
	}
	return utf8.AppendRune(nil, hi|rune(c))
}

// widen replaces one character by a multi-byte rune with the same low byte. When aligned is
// set and the string (after the first off bytes) has a ten-byte chunk, not the first one,
// that starts with w-1 zero digits, those digits are dropped so that all later characters keep
// their byte offsets: a decoder that counts chunk sizes in bytes but digits in runes, and that
// looks only at the low byte of a rune, then reads the same number.
func widen(r *Rand, s string, off int, zero byte, aligned bool) (string, bool) {
	if len(s) <= off {
		return s, false
	}
	body := s[off:]
	w := Pick(r, []int{2, 2, 2, 3, 4})
	if aligned {
		type cand struct{ k, w int }
		var cs []cand
		for k := 1; 10*k < len(body); k++ {
			n := min(10, len(body)-10*k)
			for ww := 2; ww <= 4 && ww <= n; ww++ {
				if strings.Count(body[10*k:10*k+ww-1], string(zero)) == ww-1 {
					cs = append(cs, cand{k, ww})
				}
			}
		}
		if len(cs) == 0 {
			return s, false
		}
		c := Pick(r, cs)
		n := min(10, len(body)-10*c.k)
		chunk := body[10*c.k : 10*c.k+n]
		j := r.Range(c.w-1, n-1)
		out := s[:off] + body[:10*c.k] + chunk[c.w-1:j] + string(wideRune(r, chunk[j], c.w)) + chunk[j+1:] + body[10*c.k+n:]
		return out, true
	}
	j := r.Intn(len(body))
	return s[:off] + body[:j] + string(wideRune(r, body[j], w)) + body[j+1:], true
}

// alignedWideAddress searches printed addresses of fresh keys for one that admits an aligned
// widening (about one address in seven has a chunk starting with the zero digit).
func alignedWideAddress(r *Rand) (string, bool) {
	for try := 0; try < 80; try++ {
		sp, vw := crypto.NewKeyFromSeed(r.Bytes(64)).Public(), crypto.NewKeyFromSeed(r.Bytes(64)).Public()
		s := addressWithChecksum(sp[:], vw[:], true, r)
		if out, ok := widen(r, s, 3, '1', true); ok {
			return out, true
		}
	}
	return "", false
}

// addressPayloadVariant re-encodes a payload derived from the 68 bytes of a valid address:
// extended, shortened, shifted, with the checksum recomputed at [64:68], at the end, or not at all.
func addressPayloadVariant(r *Rand, sp, vw []byte) string {
	keys := append(append([]byte{}, sp...), vw...)
	sum := crypto.Sha256Hash(append([]byte("XIN"), keys...))
	data := append(append([]byte{}, keys...), sum[:4]...)
	extra := r.Bytes(r.Range(1, 9))
	if r.Chance(1, 3) {
		extra = make([]byte, len(extra))
	}
	switch r.Intn(8) {
	case 0, 1: // valid 68 bytes followed by extra bytes
		data = append(data, extra...)
	case 2: // extra bytes in front
		data = append(extra, data...)
	case 3: // extra bytes between keys and checksum
		data = append(append(append([]byte{}, keys...), extra...), sum[:4]...)
	case 4: // extra bytes in front, checksum recomputed over the new first 64 bytes and put at [64:68]
		data = append(extra, data...)
		s2 := crypto.Sha256Hash(append([]byte("XIN"), data[:64]...))
		copy(data[64:68], s2[:4])
	case 5: // longer payload with the checksum over everything before the last four bytes
		body := append(append([]byte{}, keys...), extra...)
		s2 := crypto.Sha256Hash(append([]byte("XIN"), body...))
		data = append(body, s2[:4]...)
	case 6: // shortened
		data = data[:Pick(r, []int{67, 66, 65, 64, 36, 4, 1})]
	default: // shortened keys with a checksum that fits them
		body := keys[:Pick(r, []int{63, 62, 60, 33, 32})]
		s2 := crypto.Sha256Hash(append([]byte("XIN"), body...))
		data = append(append([]byte{}, body...), s2[:4]...)
	}
	return "XIN" + base58.Encode(data)
}

func mutateString(r *Rand, s string, alphabet string) string {
	b := []byte(s)
	switch r.Intn(8) {
	case 7: // a multi-byte rune whose low byte is the replaced character
		out, _ := widen(r, s, 0, alphabet[0], false)
		return out
	case 0: // replace by another alphabet character
		if len(b) > 0 {
			b[r.Intn(len(b))] = alphabet[r.Intn(len(alphabet))]
		}
	case 1: // replace by a foreign byte sequence
		f := Pick(r, foreignBytes)
		if len(b) > 0 {
			i := r.Intn(len(b))
			b = append(append(append([]byte{}, b[:i]...), f...), b[i+1:]...)
		} else {
			b = f
		}
	case 2: // delete
		if len(b) > 0 {
			i := r.Intn(len(b))
			b = append(append([]byte{}, b[:i]...), b[i+1:]...)
		}
	case 3: // insert
		i := r.Intn(len(b) + 1)
		b = append(append(append([]byte{}, b[:i]...), alphabet[r.Intn(len(alphabet))]), b[i:]...)
	case 4: // swap neighbours
		if len(b) > 1 {
			i := r.Intn(len(b) - 1)
			b[i], b[i+1] = b[i+1], b[i]
		}
	case 5: // prepend the zero symbol after a 3-byte prefix (or at the start)
		i := 0
		if len(b) >= 3 && r.Bool() {
			i = 3
		}
		b = append(append(append([]byte{}, b[:i]...), alphabet[0]), b[i:]...)
	default: // truncate / extend
		if r.Bool() && len(b) > 0 {
			b = b[:len(b)-1]
		} else {
			b = append(b, alphabet[r.Intn(len(alphabet))])
		}
	}
	return string(b)
}

func genPublicKey(r *Rand) crypto.Key {
	if r.Chance(1, 6) {
		var k crypto.Key
		copy(k[:], r.Bytes(32))
		if r.Chance(1, 3) {
			k = crypto.Key{}
			k[0] = byte(r.Intn(3)) // 0, identity (01 00…), 2
		}
		return k
	}
	return crypto.NewKeyFromSeed(r.Bytes(64)).Public()
}

func addressWithChecksum(sp, vw []byte, good bool, r *Rand) string {
	data := append(append([]byte{}, sp...), vw...)
	sum := crypto.Sha256Hash(append([]byte(common.MainAddressPrefix), data...))
	ck := append([]byte{}, sum[:4]...)
	if !good {
		ck[r.Intn(4)] ^= byte(1 << r.Intn(8))
	}
	return common.MainAddressPrefix + base58.Encode(append(data, ck...))
}

const hexLower = "0123456789abcdef"

func init() {
	allBytes := make([]string, 0, 256+16)
	for i := 0; i < 256; i++ {
		allBytes = append(allBytes, "b58dec "+Hex([]byte{'2', byte(i), '3'}))
		allBytes = append(allBytes, "hexparse key "+Hex(append(bytes.Repeat([]byte("ab"), 31), byte(i), '0')))
	}
	for n := 0; n <= 23; n++ {
		allBytes = append(allBytes, "b58dec "+Hex([]byte(strings.Repeat("z", n))), "b58dec "+Hex([]byte(strings.Repeat("1", n))),
			"b58enc "+Hex(bytes.Repeat([]byte{0xff}, n)), "b58enc "+Hex(bytes.Repeat([]byte{0}, n)))
	}
	Register(&Subsystem{
		Name: "keys",
		Rule: "ghost-key derivations with private scalars from {0,1,l-1,small,random} and indexes from " +
			"{0,1,2^16,2^32-1,2^32,2^64-1,uvarint boundaries,random}, 1/8 with a mask that does not belong to r; " +
			"base58 on random bytes/strings with leading-zero and chunk-of-ten length bias and foreign bytes; addresses " +
			"printed from valid and invalid keys, parsed back after single-character mutations; hex forms of key/hash/" +
			"signature/cosi with case, length and character mutations. non-trivial = the real code returned a value " +
			"(ok, not reject/panic); distinct = distinct op line",
		Corpus: [][]string{allBytes, c32FixedCases(),
			{"b58enc -", "b58dec -", "aparse " + Hex([]byte("XIN")) + " - - -", "aparse - - - -",
				"hexparse key -", "hexparse cosi -", "hexprint cosi " + Hex(make([]byte, 64)) + " 0",
				"hexprint cosi " + Hex(bytes.Repeat([]byte{0xab}, 64)) + " 18446744073709551615"}},
		Gen:  genKeys,
		Exec: execKeys,
	})
}

// c32FixedCases: always-run cases built from a fixed seed: wide runes (aligned and not) in
// base58 strings and addresses, over-long / shifted / shortened address payloads.
func c32FixedCases() []string {
	r := NewRand(0xc32)
	var out []string
	for i := 0; i < 6; i++ {
		if s, ok := alignedWideAddress(r); ok {
			out = append(out, "aparse "+Hex([]byte(s)))
		}
		sp, vw := crypto.NewKeyFromSeed(r.Bytes(64)).Public(), crypto.NewKeyFromSeed(r.Bytes(64)).Public()
		for j := 0; j < 8; j++ {
			out = append(out, "aparse "+Hex([]byte(addressPayloadVariant(r, sp[:], vw[:]))))
		}
		s, _ := widen(r, addressWithChecksum(sp[:], vw[:], true, r), 3, '1', false)
		out = append(out, "aparse "+Hex([]byte(s)))
	}
	for _, c := range []byte("1Az9") {
		for w := 2; w <= 4; w++ {
			out = append(out, "b58dec "+Hex(append(append([]byte("2"), wideRune(r, c, w)...), '3')))
			out = append(out, "b58dec "+Hex(append(append([]byte("zzzzzzzzzz1"), wideRune(r, c, w)...), "zzzzzzzz"...)))
		}
	}
	// a rune cut by the ten-byte chunk boundary, NUL, DEL, lone continuation and lead bytes
	for _, t := range []string{"zzzzzzzzz\u0141z", "zzzzzzzz\u20bfz", "2\x003", "2\x7f3", "2\x803", "2\xc33", "\xc4", "1\xc5\x81", "\u0131", "\u00b1"} {
		out = append(out, "b58dec "+Hex([]byte(t)), "aparse "+Hex([]byte("XIN"+t)), "hexparse key "+Hex([]byte(t)))
	}
	return out
}

// genViewTx: a transaction of 1..6 outputs built with the repository's constructors; script
// outputs pay 1..3 recipients who share the view key, other output types (with or without keys)
// stand before, between and after them.
// viewtx <view seed> <n> {<type> <mask seed> <k> <spend seed>*k}*n
func genViewTx(r *Rand) string {
	n := r.Range(1, 6)
	var sb strings.Builder
	fmt.Fprintf(&sb, "viewtx %s %d", Hex(r.Bytes(64)), n)
	for i := 0; i < n; i++ {
		ty := common.OutputTypeScript
		k := r.Range(1, 3)
		if r.Chance(2, 5) || (i == 0 && r.Chance(1, 3)) {
			ty = Pick(r, []int{common.OutputTypeWithdrawalSubmit, common.OutputTypeNodePledge, common.OutputTypeNodeAccept,
				common.OutputTypeWithdrawalClaim, common.OutputTypeNodeRemove})
			k = r.Intn(3)
		}
		fmt.Fprintf(&sb, " %d %s %d", ty, Hex(r.Bytes(64)), k)
		for j := 0; j < k; j++ {
			sb.WriteString(" " + Hex(r.Bytes(64)))
		}
	}
	return sb.String()
}

func execViewTx(t []string, line string) Result {
	res := Result{Tags: []string{"viewtx"}}
	a := crypto.NewKeyFromSeed(UnHex(t[1]))
	A := a.Public()
	n, _ := strconv.Atoi(t[2])
	tx := common.NewTransactionV5(common.XINAssetId)
	type outSpec struct {
		script bool
		spends []crypto.Key // private spend keys of the recipients
	}
	var specs []outSpec
	pos := 3
	for i := 0; i < n; i++ {
		ty, _ := strconv.Atoi(t[pos])
		seed := UnHex(t[pos+1])
		k, _ := strconv.Atoi(t[pos+2])
		pos += 3
		sp := outSpec{script: ty == common.OutputTypeScript}
		var accounts []*common.Address
		for j := 0; j < k; j++ {
			b := crypto.NewKeyFromSeed(UnHex(t[pos]))
			pos++
			sp.spends = append(sp.spends, b)
			accounts = append(accounts, &common.Address{PublicSpendKey: b.Public(), PublicViewKey: A})
		}
		script := common.NewThresholdScript(1)
		if k == 1 && i%2 == 1 {
			script = common.NewThresholdScript(common.Operator64) // the internal-vanish derivation
		}
		tx.AddOutputWithType(uint8(ty), accounts, script, common.NewInteger(1), seed)
		specs = append(specs, sp)
	}
	sc := func(k crypto.Key) *edwards25519.Scalar {
		s, err := edwards25519.NewScalar().SetCanonicalBytes(k[:])
		if err != nil {
			panic("harness: non-canonical scalar")
		}
		return s
	}
	// model input: for every output its ghost keys as discrete logs (confirmed with Key.Public) and
	// the real hash scalar of (its mask, its real index)
	var outs, hs strings.Builder
	nh := 0
	nScript := 0
	for i, o := range tx.Outputs {
		fmt.Fprintf(&outs, " %d %d %d", b2i(specs[i].script), i, len(o.Keys))
		if len(o.Keys) == 0 {
			continue
		}
		x := crypto.HashScalar(crypto.KeyMultPubPriv(&o.Mask, &a), uint64(i))
		var xk crypto.Key
		copy(xk[:], x.Bytes())
		fmt.Fprintf(&hs, " %d %d %s", i, i, scalarBig(xk))
		nh++
		for j, gk := range o.Keys {
			var pk crypto.Key
			copy(pk[:], edwards25519.NewScalar().Add(sc(specs[i].spends[j]), x).Bytes())
			if pk.Public() != *gk {
				panic("harness: cannot establish the discrete log of a ghost key built by AddOutputWithType")
			}
			fmt.Fprintf(&outs, " %s", scalarBig(pk))
		}
		if specs[i].script {
			nScript++
		}
	}
	for _, sp := range specs {
		if sp.script && len(sp.spends) == 0 {
			nScript++
		}
	}
	res.LeanIn = fmt.Sprintf("viewtx %d%s %d%s", n, outs.String(), nh, hs.String())
	out, panicked, _ := Catch(func() string {
		viewed := tx.ViewGhostKey(&a)
		var sb strings.Builder
		sb.WriteString("ok")
		vi := 0
		for i, sp := range specs {
			if !sp.script {
				continue
			}
			if vi >= len(viewed) {
				res.PropKey, res.PropDesc = "C32:view-recovers-spend-tx", "ViewGhostKey returned fewer outputs than the transaction has script outputs"
				break
			}
			v := viewed[vi]
			vi++
			var ks []string
			for j, b := range sp.spends {
				B := b.Public()
				if j >= len(v.Keys) || *v.Keys[j] != B {
					if res.PropKey == "" {
						res.PropKey = "C32:view-recovers-spend-tx"
						res.PropDesc = fmt.Sprintf("output %d of %d (script output number %d): ViewGhostKey does not recover the public spend key of recipient %d", i, len(specs), vi-1, j)
					}
					ks = append(ks, "?")
				} else {
					ks = append(ks, scalarBig(b).String())
				}
			}
			sb.WriteString(" " + strings.Join(ks, ",") + ";")
		}
		if vi != len(viewed) && res.PropKey == "" {
			res.PropKey, res.PropDesc = "C32:view-recovers-spend-tx", "ViewGhostKey returned more outputs than the transaction has script outputs"
		}
		return sb.String()
	})
	res.Out, res.Nontrivial = out, !panicked && nScript > 0
	first := -1
	for i, sp := range specs {
		if sp.script && first < 0 {
			first = i
		}
	}
	if first > 0 {
		res.Tags = append(res.Tags, "viewtx:non-script-before-script")
	}
	return res
}

func genKeys(r *Rand, i int, tier string) []string {
	if r.Chance(1, 12) {
		return []string{genViewTx(r)}
	}
	switch r.Intn(12) {
	case 0, 1, 2:
		a, b, rr := genScalar(r), genScalar(r), genScalar(r)
		r2 := rr
		if r.Chance(1, 8) {
			r2 = genScalar(r)
		}
		return []string{fmt.Sprintf("ghost %s %s %s %s %d", Hex(a[:]), Hex(b[:]), Hex(rr[:]), Hex(r2[:]), genIndex(r))}
	case 3:
		n := Pick(r, []int{0, 1, 2, 7, 8, 14, 15, 16, 22, 29, 30, 32, 64, 68, 73, 100})
		if r.Bool() {
			n = r.Intn(90)
		}
		b := r.Bytes(n)
		for k := r.Intn(4) * r.Intn(3); k > 0 && k <= len(b); k-- {
			b[k-1] = 0
		}
		if r.Chance(1, 10) { // values just around 58^(10k)
			k := r.Range(1, 6)
			v := new(big.Int).Exp(big.NewInt(58), big.NewInt(int64(10*k)), nil)
			v.Add(v, big.NewInt(int64(r.Range(-1, 1))))
			b = append(make([]byte, r.Intn(3)), v.Bytes()...)
		}
		return []string{"b58enc " + Hex(b)}
	case 4:
		s := genB58String(r)
		if r.Chance(1, 5) {
			s = mutateString(r, s, b58Alphabet)
		} else if r.Chance(1, 6) {
			if out, ok := widen(r, s, 0, '1', true); ok {
				s = out
			} else {
				s, _ = widen(r, s, 0, '1', false)
			}
		}
		return []string{"b58dec " + Hex([]byte(s))}
	case 5:
		sp, vw := genPublicKey(r), genPublicKey(r)
		return []string{"aprint " + Hex(sp[:]) + " " + Hex(vw[:])}
	case 6, 7, 8:
		sp, vw := genPublicKey(r), genPublicKey(r)
		if r.Chance(1, 10) {
			vw = sp
		}
		s := addressWithChecksum(sp[:], vw[:], !r.Chance(1, 10), r)
		switch r.Intn(12) {
		case 0, 1, 2, 3:
			s = mutateString(r, s, b58Alphabet)
		case 8, 9: // payloads that extend, shift or shorten the 68 bytes of a valid address
			s = addressPayloadVariant(r, sp[:], vw[:])
		case 10: // a wide rune in place of a digit, byte offsets of the other digits kept
			if out, ok := alignedWideAddress(r); ok {
				s = out
			} else {
				s, _ = widen(r, s, 3, '1', false)
			}
		case 11:
			s, _ = widen(r, s, Pick(r, []int{0, 3}), '1', false)
		case 4: // right checksum, wrong payload length
			n := Pick(r, []int{63, 65, 32, 0})
			data := r.Bytes(n)
			sum := crypto.Sha256Hash(append([]byte("XIN"), data...))
			s = "XIN" + base58.Encode(append(data, sum[:4]...))
		case 5:
			s = Pick(r, []string{"xin", "XI", "XIM", "", " XIN", "XINXIN"}) + s[3:]
		}
		return []string{"aparse " + Hex([]byte(s))}
	case 9, 10:
		kind := Pick(r, []string{"key", "hash", "sig", "cosi"})
		n := map[string]int{"key": 32, "hash": 32, "sig": 64, "cosi": 72}[kind]
		if r.Chance(1, 8) {
			n = Pick(r, []int{0, 1, 31, 33, 63, 64, 65, 71, 72, 73, 80})
		}
		s := []byte(Hex(r.Bytes(n)))
		if n == 0 {
			s = nil
		}
		if kind == "cosi" && n == 72 && r.Bool() { // small / boundary masks
			m := Pick(r, []uint64{0, 1, 1 << 63, 1<<64 - 1, uint64(r.Intn(1 << 16))})
			s = append(s[:128], []byte(fmt.Sprintf("%016x", m))...)
		}
		switch r.Intn(8) {
		case 0:
			s = bytes.ToUpper(s)
		case 1:
			for j := range s {
				if r.Bool() {
					s[j] = bytes.ToUpper(s[j : j+1])[0]
				}
			}
		case 2:
			s = []byte(mutateString(r, string(s), hexLower))
		case 3:
			if len(s) > 0 {
				s[len(s)-1-r.Intn(min(len(s), 16))] = Pick(r, []byte{'g', 'G', '_', '+', '-', 'x', ' ', 0xc3})
			}
		}
		return []string{"hexparse " + kind + " " + Hex(s)}
	default:
		kind := Pick(r, []string{"key", "hash", "sig", "cosi"})
		n := map[string]int{"key": 32, "hash": 32, "sig": 64, "cosi": 64}[kind]
		b := r.Bytes(n)
		if r.Chance(1, 6) {
			b = bytes.Repeat([]byte{Pick(r, []byte{0, 0xff, 0x0a, 0xa0})}, n)
		}
		if kind == "cosi" {
			m := Pick(r, []uint64{0, 1, 15, 16, 1 << 32, 1 << 63, 1<<64 - 1, r.U64(), r.U64() >> uint(r.Intn(64))})
			return []string{fmt.Sprintf("hexprint cosi %s %d", Hex(b), m)}
		}
		return []string{"hexprint " + kind + " " + Hex(b)}
	}
}

func allIn(s []byte, alphabet string) bool {
	for _, c := range s {
		if strings.IndexByte(alphabet, c) < 0 {
			return false
		}
	}
	return true
}

func parseFixed(kind string, s string) ([]byte, uint64, bool) {
	switch kind {
	case "key":
		k, err := crypto.KeyFromString(s)
		var k2 crypto.Key
		err2 := k2.UnmarshalJSON([]byte(strconv.Quote(s)))
		if (err == nil) != (err2 == nil) || (err == nil && k != k2) {
			panic("harness: KeyFromString and Key.UnmarshalJSON disagree on " + strconv.Quote(s))
		}
		return k[:], 0, err == nil
	case "hash":
		h, err := crypto.HashFromString(s)
		var h2 crypto.Hash
		err2 := h2.UnmarshalJSON([]byte(strconv.Quote(s)))
		if (err == nil) != (err2 == nil) || (err == nil && h != h2) {
			panic("harness: HashFromString and Hash.UnmarshalJSON disagree on " + strconv.Quote(s))
		}
		return h[:], 0, err == nil
	case "sig":
		var sig crypto.Signature
		err := sig.UnmarshalJSON([]byte(strconv.Quote(s)))
		return sig[:], 0, err == nil
	case "cosi":
		var c crypto.CosiSignature
		err := c.UnmarshalJSON([]byte(strconv.Quote(s)))
		return c.Signature[:], c.Mask, err == nil
	}
	panic("harness: unknown kind " + kind)
}

func printFixed(kind string, b []byte, mask uint64) string {
	switch kind {
	case "key":
		var k crypto.Key
		copy(k[:], b)
		return k.String()
	case "hash":
		var h crypto.Hash
		copy(h[:], b)
		return h.String()
	case "sig":
		var s crypto.Signature
		copy(s[:], b)
		return s.String()
	case "cosi":
		var c crypto.CosiSignature
		copy(c.Signature[:], b)
		c.Mask = mask
		return c.String()
	}
	panic("harness: unknown kind " + kind)
}

func execKeys(_ *State, line string) Result {
	t := strings.Fields(line)
	res := Result{Tags: []string{t[0]}}
	switch t[0] {
	case "b58enc":
		b := UnHex(t[1])
		out, panicked, _ := Catch(func() string {
			s := base58.Encode(b)
			back := base58.Decode(s)
			if !bytes.Equal(back, b) {
				res.PropKey, res.PropDesc = "C32:base58-decode-encode", fmt.Sprintf("Decode(Encode(%x)) = %x", b, back)
			}
			res.Tags = append(res.Tags, fmt.Sprintf("b58enc:digits%%10=%d", len(strings.TrimLeft(s, "1"))%10))
			return "ok " + Hex([]byte(s))
		})
		res.Out, res.Nontrivial = out, !panicked
	case "b58dec":
		s := UnHex(t[1])
		out, panicked, _ := Catch(func() string {
			b := base58.Decode(string(s))
			if allIn(s, b58Alphabet) {
				res.Tags = append(res.Tags, "b58dec:alphabet")
				res.Nontrivial = true
				if back := base58.Encode(b); back != string(s) {
					res.PropKey, res.PropDesc = "C32:base58-encode-decode", fmt.Sprintf("Encode(Decode(%q)) = %q", s, back)
				}
			} else {
				res.Tags = append(res.Tags, "b58dec:foreign")
				if len(b) != 0 {
					res.PropKey, res.PropDesc = "C32:base58-foreign-accepted", fmt.Sprintf("Decode(%q) = %x", s, b)
				}
			}
			return "ok " + Hex(b)
		})
		res.Out = out
		if panicked {
			res.Nontrivial = false
		}
	case "aprint":
		var a common.Address
		copy(a.PublicSpendKey[:], UnHex(t[1]))
		copy(a.PublicViewKey[:], UnHex(t[2]))
		sum := crypto.Sha256Hash(append(append([]byte(common.MainAddressPrefix), a.PublicSpendKey[:]...), a.PublicViewKey[:]...))
		res.LeanIn = line + " " + Hex(sum[:])
		out, panicked, _ := Catch(func() string {
			s := a.String()
			back, err := common.NewAddressFromString(s)
			valid := a.PublicSpendKey.CheckKey() && a.PublicViewKey.CheckKey()
			if valid {
				res.Tags = append(res.Tags, "aprint:valid-keys")
				if err != nil || back.PublicSpendKey != a.PublicSpendKey || back.PublicViewKey != a.PublicViewKey {
					res.PropKey, res.PropDesc = "C32:address-print-parse", "NewAddressFromString(String()) differs for "+s
				}
			} else {
				res.Tags = append(res.Tags, "aprint:invalid-keys")
				if err == nil {
					res.PropKey, res.PropDesc = "C32:address-invalid-key-accepted", "address with a key failing CheckKey parses: "+s
				}
			}
			return "ok " + Hex([]byte(s))
		})
		res.Out, res.Nontrivial = out, !panicked
	case "aparse":
		s := string(UnHex(t[1]))
		oracle := " - - -"
		if strings.HasPrefix(s, common.MainAddressPrefix) {
			data := base58.Decode(s[len(common.MainAddressPrefix):])
			if len(data) == 68 {
				sum := crypto.Sha256Hash(append([]byte(common.MainAddressPrefix), data[:64]...))
				var k1, k2 crypto.Key
				copy(k1[:], data[:32])
				copy(k2[:], data[32:64])
				oracle = fmt.Sprintf(" %s %d %d", Hex(sum[:]), b2i(k1.CheckKey()), b2i(k2.CheckKey()))
				res.Tags = append(res.Tags, "aparse:len68")
			}
		}
		res.LeanIn = t[0] + " " + t[1] + oracle
		out, panicked, _ := Catch(func() string {
			a, err := common.NewAddressFromString(s)
			if err != nil {
				res.Tags = append(res.Tags, "aparse:"+errClass(err.Error()))
				return "reject"
			}
			if back := a.String(); back != s {
				res.PropKey, res.PropDesc = "C32:address-parse-print", fmt.Sprintf("accepted %q prints as %q", s, back)
			}
			if a.PrivateSpendKey.HasValue() || a.PrivateViewKey.HasValue() {
				res.PropKey, res.PropDesc = "C32:address-parse-private", "parsed address carries private keys"
			}
			res.Nontrivial = true
			return "ok " + Hex(a.PublicSpendKey[:]) + " " + Hex(a.PublicViewKey[:])
		})
		res.Out = out
		_ = panicked
	case "hexparse":
		s := string(UnHex(t[2]))
		out, _, _ := Catch(func() string {
			b, mask, ok := parseFixed(t[1], s)
			if !ok {
				res.Tags = append(res.Tags, "hexparse:reject")
				return "reject"
			}
			res.Nontrivial = true
			if strings.ToLower(s) != s {
				res.Tags = append(res.Tags, "hexparse:uppercase-accepted")
			}
			if t[1] == "cosi" {
				return fmt.Sprintf("ok %s %d", Hex(b), mask)
			}
			return "ok " + Hex(b)
		})
		res.Out = out
	case "hexprint":
		b := UnHex(t[2])
		var mask uint64
		if t[1] == "cosi" {
			mask, _ = strconv.ParseUint(t[3], 10, 64)
		}
		out, panicked, _ := Catch(func() string {
			s := printFixed(t[1], b, mask)
			back, m2, ok := parseFixed(t[1], s)
			if !ok || !bytes.Equal(back, b) || m2 != mask {
				res.PropKey, res.PropDesc = "C32:hex-print-parse", fmt.Sprintf("%s: parse(print(%x,%d)) = %x,%d,%v", t[1], b, mask, back, m2, ok)
			}
			return "ok " + Hex([]byte(s))
		})
		res.Out, res.Nontrivial = out, !panicked
	case "ghost":
		return execGhost(t, line)
	case "viewtx":
		return execViewTx(t, line)
	default:
		panic("harness: unknown op " + t[0])
	}
	return res
}

func errClass(s string) string {
	f := strings.Fields(s)
	if len(f) > 5 {
		f = f[:5]
	}
	for i, w := range f {
		if len(w) > 12 {
			f = f[:i]
			break
		}
	}
	return strings.Join(f, "-")
}

func execGhost(t []string, line string) Result {
	res := Result{Tags: []string{"ghost"}}
	var a, b, r, r2 crypto.Key
	copy(a[:], UnHex(t[1]))
	copy(b[:], UnHex(t[2]))
	copy(r[:], UnHex(t[3]))
	copy(r2[:], UnHex(t[4]))
	index, err := strconv.ParseUint(t[5], 10, 64)
	if err != nil {
		panic("harness: bad index")
	}
	A, B, R := a.Public(), b.Public(), r2.Public()
	// hash scalars computed by the real code for the two shared points
	hs := func(pub, priv *crypto.Key) (*edwards25519.Scalar, string) {
		var s *edwards25519.Scalar
		_, p, _ := Catch(func() string { s = crypto.HashScalar(crypto.KeyMultPubPriv(pub, priv), index); return "" })
		if p {
			return nil, "-"
		}
		var k crypto.Key
		copy(k[:], s.Bytes())
		return s, scalarBig(k).String()
	}
	hs1, hs1s := hs(&A, &r)
	hs2, hs2s := hs(&R, &a)
	res.LeanIn = fmt.Sprintf("ghost %s %s %s %s %s %s", scalarBig(a), scalarBig(b), scalarBig(r), scalarBig(r2), hs1s, hs2s)

	sc := func(k crypto.Key) *edwards25519.Scalar {
		s, err := edwards25519.NewScalar().SetCanonicalBytes(k[:])
		if err != nil {
			panic("harness: non-canonical scalar")
		}
		return s
	}
	confirm := func(cand *edwards25519.Scalar, point *crypto.Key) string {
		var k crypto.Key
		copy(k[:], cand.Bytes())
		if k.Public() == *point {
			return scalarBig(k).String()
		}
		return "?"
	}
	// A sender derives the keys of several outputs with one mask, a recipient scans several
	// indexes with one view key: each derivation must depend on *its* index only. Derive for a
	// neighbouring index first, on one side only, so that any state kept between calls shows.
	Catch(func() string {
		if index%2 == 0 {
			crypto.DeriveGhostPublicKey(&r, &A, &B, index+1)
		} else {
			crypto.DeriveGhostPrivateKey(&R, &a, &b, index-1)
			crypto.ViewGhostOutputKey(&B, &a, &R, index-1)
		}
		return ""
	})
	var P, p, V *crypto.Key
	pubS, _, _ := Catch(func() string {
		P = crypto.DeriveGhostPublicKey(&r, &A, &B, index)
		return confirm(edwards25519.NewScalar().Add(sc(b), hs1), P)
	})
	privS, _, _ := Catch(func() string {
		p = crypto.DeriveGhostPrivateKey(&R, &a, &b, index)
		return scalarBig(*p).String()
	})
	viewS := "panic"
	if P != nil {
		viewS, _, _ = Catch(func() string {
			V = crypto.ViewGhostOutputKey(P, &a, &R, index)
			return confirm(edwards25519.NewScalar().Subtract(edwards25519.NewScalar().Add(sc(b), hs1), hs2), V)
		})
	}
	res.Out = fmt.Sprintf("ok %s %s %s", privS, pubS, viewS)
	match := r == r2
	if match {
		res.Tags = append(res.Tags, "ghost:matching-mask")
	} else {
		res.Tags = append(res.Tags, "ghost:foreign-mask")
	}
	if P != nil && p != nil && V != nil {
		res.Nontrivial = true
		if match {
			if p.Public() != *P {
				res.PropKey, res.PropDesc = "C32:ghost-agree", "public key of the derived private key differs from the derived public key: "+line
			}
			if *V != B {
				res.PropKey, res.PropDesc = "C32:view-recover", "ViewGhostOutputKey does not return the public spend key: "+line
			}
			// the variant used for vanished outputs must agree as well
			if P2 := crypto.DeriveGhostPublicKeyForInternalVanish(&r, &A, &B, index); *P2 != *P {
				res.PropKey, res.PropDesc = "C32:ghost-agree", "DeriveGhostPublicKeyForInternalVanish differs: "+line
			}
		} else if p.Public() == *P {
			res.Tags = append(res.Tags, "ghost:foreign-mask-agrees")
		}
	} else {
		res.Tags = append(res.Tags, "ghost:panic")
	}
	return res
}
