package main

// C28, stream `consensusfx`: class of a transaction vs. effects of its outputs.
//
// The kernel decides batchability and the consensus-reference rule on TransactionType() (first
// special output); storage applies membership / custodian state per OUTPUT type in writeUTXO.
// This stream builds transactions that are valid in every respect other than the types of their
// outputs — funded by a finalized deposit, correctly signed, balanced, with the reference and the
// custodian signature a withdrawal claim needs — with 1..5 outputs of every type at every
// position, and runs, on a real BadgerStore with a real kernel.Node:
//   - the real TransactionType / IsSnapshotBatchable,
//   - the real tx.Validate,
//   - for an accepted batchable transaction: the real validateSnapshotTransaction on a
//     two-transaction snapshot (cache → Validate → kernel rule → lock + persist), the real
//     WriteSnapshot, then ReadAllNodes / ReadCustodian / ReadLastConsensusSnapshot.
// Model: lean/Mixin/Model/ConsensusEffects.lean (classOf, shapeValid). Property mode:
// `C28:consensus-effect-outside-chain` when membership or custodian state changed while the
// snapshot held more than one transaction or the consensus head did not move.

import (
	"fmt"
	"strings"

	"github.com/MixinNetwork/mixin/common"
	"github.com/MixinNetwork/mixin/config"
	"github.com/MixinNetwork/mixin/crypto"
)

type c28fxEnv struct {
	e      *c28env
	owner  common.Address
	nodeID crypto.Hash
	seq    uint64
}

var c28fxSingle *c28fxEnv

func c28fxSetup(st *State) *c28fxEnv {
	if c28fxSingle != nil {
		return c28fxSingle
	}
	e := c28setup(st)
	seed := make([]byte, 64)
	copy(seed, "verif-c28-fx-owner")
	x := &c28fxEnv{e: e, owner: common.NewAddressFromSeed(seed)}
	x.nodeID = e.gns.Nodes[0].Signer.Hash().ForNetwork(e.netId)
	c28fxSingle = x
	return x
}

func c28fxSeed(tag string) []byte {
	h := crypto.Blake3Hash([]byte("c28fx" + tag))
	return append(h[:], h[:]...)
}

func (x *c28fxEnv) now() uint64 {
	x.seq++
	return x.e.gSnap.Timestamp + uint64(3600e9) + x.seq
}

// a custodian-signed XIN deposit of `units` to the owner (one script output)
func (x *c28fxEnv) deposit(tag string, units int) *common.VersionedTransaction {
	d := &common.DepositData{Chain: common.XINAsset.Chain, AssetKey: common.XINAsset.AssetKey,
		Transaction: "c28fx" + tag, Index: 0, Amount: common.NewInteger(uint64(units))}
	tx := common.NewTransactionV5(common.XINAssetId)
	tx.AddDepositInput(d)
	tx.AddScriptOutput([]*common.Address{&x.owner}, common.NewThresholdScript(1), d.Amount, c28fxSeed(tag))
	ver := tx.AsVersioned()
	if err := ver.SignRaw(x.e.custodian.PrivateSpendKey); err != nil {
		panic("harness: c28fx SignRaw: " + err.Error())
	}
	return ver
}

// finalize the given persisted transactions in one snapshot of the first genesis node
func (x *c28fxEnv) finalize(ts uint64, txs ...*common.VersionedTransaction) (string, *common.Snapshot) {
	r, err := x.e.store.ReadRound(x.nodeID)
	if err != nil || r == nil {
		panic("harness: c28fx ReadRound")
	}
	s := &common.Snapshot{Version: common.SnapshotVersionCommonEncoding, NodeId: x.nodeID, RoundNumber: r.Number, Timestamp: ts}
	if r.Number > 0 {
		s.References = r.References
	}
	for _, tx := range txs {
		s.AddTransaction(tx.PayloadHash())
	}
	s.Hash = s.PayloadHash()
	topo := x.e.topo
	x.e.topo++
	out, _, _ := Catch(func() string {
		if err := x.e.store.WriteSnapshot(&common.SnapshotWithTopologicalOrder{Snapshot: s, TopologicalOrder: topo}, []crypto.Hash{x.nodeID}); err != nil {
			return "err"
		}
		return "ok"
	})
	return out, s
}

// validate, lock, persist and finalize alone: for the funding / referenced transactions
func (x *c28fxEnv) settle(tx *common.VersionedTransaction, what string) {
	ts := x.now()
	if err := tx.Validate(x.e.store, ts, false); err != nil {
		panic("harness: c28fx " + what + " does not validate: " + err.Error())
	}
	if err := tx.LockInputs(x.e.store, false); err != nil {
		panic("harness: c28fx " + what + " lock: " + err.Error())
	}
	if err := x.e.store.WriteTransaction(tx); err != nil {
		panic("harness: c28fx " + what + " write: " + err.Error())
	}
	if out, _ := x.finalize(ts, tx); out != "ok" {
		panic("harness: c28fx " + what + " finalize: " + out)
	}
}

var c28fxOut = map[byte]uint8{'s': common.OutputTypeScript, 'w': common.OutputTypeWithdrawalSubmit, 'c': common.OutputTypeWithdrawalClaim,
	'p': common.OutputTypeNodePledge, 'x': common.OutputTypeNodeCancel, 'a': common.OutputTypeNodeAccept, 'r': common.OutputTypeNodeRemove,
	'u': common.OutputTypeCustodianUpdateNodes, 'l': common.OutputTypeCustodianSlashNodes, 'o': 0x7f}

func (x *c28fxEnv) state(ts uint64) (nodes, cust, head string) {
	out, _, _ := Catch(func() string {
		var parts []string
		for _, n := range x.e.store.ReadAllNodes(^uint64(0)>>1, true) {
			parts = append(parts, fmt.Sprintf("%d:%x:%s", n.Timestamp, n.Signer.PublicSpendKey[:4], n.State))
		}
		return strings.Join(parts, ",")
	})
	nodes = out
	cust, _, _ = Catch(func() string {
		c, err := x.e.store.ReadCustodian(ts)
		if err != nil || c == nil {
			return "none"
		}
		return fmt.Sprintf("%s:%d:%d", c.Custodian.String(), len(c.Nodes), c.Timestamp)
	})
	head, _, _ = Catch(func() string {
		l, err := x.e.store.ReadLastConsensusSnapshot()
		if err != nil || l == nil {
			return "none"
		}
		return l.PayloadHash().String()
	})
	return
}

func c28fxExec(st *State, line string) Result {
	f := strings.Fields(line)
	res := Result{Tags: []string{f[0]}}
	if f[0] == "reset" {
		res.Out = "ok"
		return res
	}
	if f[0] != "fx" || len(f) != 4 {
		panic("harness: c28fx op " + line)
	}
	x := c28fxSetup(st)
	// a replayed or repeated nonce must still give fresh deposits: the process-local sequence is part of every tag
	x.seq++
	nonce, inp, letters := fmt.Sprintf("%s-%d", f[1], x.seq), f[2], f[3]
	k := len(letters)
	claimFee := common.NewIntegerFromString(config.WithdrawalClaimFee)
	_ = claimFee

	// ---- the candidate transaction
	tx := common.NewTransactionV5(common.XINAssetId)
	switch inp {
	case "U":
		fund := x.deposit(nonce+"-fund", k)
		x.settle(fund, "funding deposit")
		tx.AddInput(fund.PayloadHash(), 0)
	case "D":
		tx.AddDepositInput(&common.DepositData{Chain: common.XINAsset.Chain, AssetKey: common.XINAsset.AssetKey,
			Transaction: "c28fx" + nonce + "-direct", Index: 0, Amount: common.NewInteger(uint64(k))})
	default:
		panic("harness: c28fx input kind")
	}
	hasClaim := strings.Contains(letters, "c")
	for i := 0; i < k; i++ {
		t, ok := c28fxOut[letters[i]]
		if !ok {
			panic("harness: c28fx output letter")
		}
		switch letters[i] {
		case 'w':
			tx.Outputs = append(tx.Outputs, &common.Output{Type: t, Amount: common.NewInteger(1),
				Withdrawal: &common.WithdrawalData{Address: "c28fx-destination"}})
		case 'c', 'p', 'x', 'a':
			tx.Outputs = append(tx.Outputs, &common.Output{Type: t, Amount: common.NewInteger(1)})
		default: // script-like outputs: keys, script, mask
			tx.AddOutputWithType(t, []*common.Address{&x.owner}, common.NewThresholdScript(1), common.NewInteger(1), c28fxSeed(fmt.Sprintf("%s-out%d", nonce, i)))
		}
	}
	signer, payee := crypto.Blake3Hash([]byte("c28fx-signer"+nonce)), crypto.Blake3Hash([]byte("c28fx-payee"+nonce))
	body := append(append([]byte{}, signer[:]...), payee[:]...)
	if hasClaim {
		// a withdrawal claim needs one reference to a (finalized) withdrawal submit and the custodian's signature in Extra
		sfund := x.deposit(nonce+"-sfund", 1)
		x.settle(sfund, "submit funding")
		stx := common.NewTransactionV5(common.XINAssetId)
		stx.AddInput(sfund.PayloadHash(), 0)
		stx.Outputs = append(stx.Outputs, &common.Output{Type: common.OutputTypeWithdrawalSubmit, Amount: common.NewInteger(1),
			Withdrawal: &common.WithdrawalData{Address: "c28fx-destination"}})
		submit := stx.AsVersioned()
		if err := submit.SignInput(x.e.store, 0, []*common.Address{&x.owner}); err != nil {
			panic("harness: c28fx sign submit: " + err.Error())
		}
		x.settle(submit, "referenced submit")
		tx.References = []crypto.Hash{submit.PayloadHash()}
		sig := x.e.custodian.PrivateSpendKey.Sign(crypto.Blake3Hash(body))
		tx.Extra = append(sig[:], body...)
	} else {
		tx.Extra = body
	}
	ver := tx.AsVersioned()
	if inp == "U" {
		if err := ver.SignInput(x.e.store, 0, []*common.Address{&x.owner}); err != nil {
			panic("harness: c28fx SignInput: " + err.Error())
		}
	} else if err := ver.SignRaw(x.e.custodian.PrivateSpendKey); err != nil {
		panic("harness: c28fx SignRaw: " + err.Error())
	}

	ttype := ver.TransactionType()
	batchable := ver.IsSnapshotBatchable()
	res.Tags = append(res.Tags, fmt.Sprintf("class-%d", ttype), fmt.Sprintf("outputs-%d", k))
	hasEffect := strings.ContainsAny(letters, "pxaru")
	if hasEffect {
		res.Tags = append(res.Tags, "with-effect-output")
	}
	tail := "nodes=same cust=same head=same"
	if !batchable {
		res.Out = fmt.Sprintf("t=%d b=0 v=- k=- fin=- %s", ttype, tail)
		return res
	}
	ts := x.now()
	v, _, _ := Catch(func() string {
		if err := ver.Validate(x.e.store, ts, false); err != nil {
			return "reject"
		}
		return "accept"
	})
	res.Tags = append(res.Tags, fmt.Sprintf("class-%d/validate-%s", ttype, v))
	res.Nontrivial = true
	if v != "accept" {
		res.Out = fmt.Sprintf("t=%d b=1 v=%s k=- fin=- %s", ttype, v, tail)
		return res
	}
	// ---- accepted: propose it with an ordinary deposit in one snapshot, through the real
	// validateSnapshotTransaction (bodies in the cache), then finalize on the real store
	plain := x.deposit(nonce+"-plain", 1)
	for _, t := range []*common.VersionedTransaction{ver, plain} {
		if err := x.e.store.CacheStoreTransaction(t); err != nil {
			panic("harness: c28fx cache: " + err.Error())
		}
	}
	nodesB, custB, headB := x.state(ts)
	r, _ := x.e.store.ReadRound(x.nodeID)
	prop := &common.Snapshot{Version: common.SnapshotVersionCommonEncoding, NodeId: x.nodeID, RoundNumber: r.Number, Timestamp: ts, References: r.References}
	prop.AddTransaction(ver.PayloadHash())
	prop.AddTransaction(plain.PayloadHash())
	prop.Hash = prop.PayloadHash()
	kd := c28decision(func() error {
		_, _, err := x.e.node.VerifC28ValidateSnapshotTransaction(prop, false)
		return err
	})
	fin := "-"
	var snap *common.Snapshot
	if kd == "accept" {
		fin, snap = x.finalize(ts, ver, plain)
	}
	nodesA, custA, headA := x.state(ts + 1)
	cmp := func(a, b, same, diff string) string {
		if a == b {
			return same
		}
		return diff
	}
	res.Out = fmt.Sprintf("t=%d b=1 v=%s k=%s fin=%s nodes=%s cust=%s head=%s", ttype, v, kd, fin,
		cmp(nodesB, nodesA, "same", "changed"), cmp(custB, custA, "same", "changed"), cmp(headB, headA, "same", "moved"))
	res.Tags = append(res.Tags, "batch/"+kd+"/fin-"+fin)
	// ---- property mode: an operation on membership / custodian state outside the consensus chain
	if nodesB != nodesA || custB != custA {
		n := 0
		if snap != nil {
			n = len(snap.Transactions)
		}
		if n > 1 || headB == headA {
			res.PropKey = "C28:consensus-effect-outside-chain"
			res.PropDesc = fmt.Sprintf("transaction of batchable class %d with outputs %q passed Validate, was accepted and finalized in a snapshot of %d transactions; membership/custodian state changed (nodes %s -> %s; custodian %s -> %s) while the consensus head stayed %s: %s",
				ttype, letters, n, nodesB, nodesA, custB, custA, headA, line)
		}
	}
	return res
}

func c28fxGen(r *Rand, i int, tier string) []string {
	lines := []string{"reset"}
	n := 0
	emit := func(inp, letters string) {
		n++
		lines = append(lines, fmt.Sprintf("fx g%dn%d %s %s", i, n, inp, letters))
	}
	effects := "pxaru"
	all := "swcpxarulo"
	steps := r.Range(4, 8)
	for j := 0; j < steps; j++ {
		switch r.Intn(8) {
		case 0, 1, 2: // withdrawal submit / claim with 2..5 outputs and one effect (or other special) output at a position ≥ 1
			first := Pick(r, []string{"w", "w", "c"})
			k := r.Range(2, 5)
			b := []byte(first + strings.Repeat("s", k-1))
			pos := r.Range(1, k-1)
			b[pos] = effects[r.Intn(len(effects))]
			if r.Chance(1, 5) {
				b[pos] = all[r.Intn(len(all))]
			}
			emit("U", string(b))
		case 3: // canonical valid shapes
			emit(Pick(r, []string{"U", "U", "D"}), Pick(r, []string{"s", "ss", "sss", "w", "ws", "wss", "wsss", "c", "cs", "css"}))
		case 4: // deposit input with anything behind it
			k := r.Range(1, 4)
			b := []byte(strings.Repeat("s", k))
			if r.Chance(3, 4) {
				b[r.Intn(k)] = effects[r.Intn(len(effects))]
			}
			emit("D", string(b))
		case 5: // script outputs first, the special output later (class decided by the first special one)
			k := r.Range(2, 5)
			b := []byte(strings.Repeat("s", k))
			p1 := r.Range(1, k-1)
			b[p1] = Pick(r, []byte("wc"))
			if p1+1 < k {
				b[r.Range(p1+1, k-1)] = effects[r.Intn(len(effects))]
			}
			emit("U", string(b))
		default: // anything
			k := r.Range(1, 5)
			b := make([]byte, k)
			for t := range b {
				b[t] = all[r.Intn(len(all))]
				if r.Chance(1, 2) {
					b[t] = 's'
				}
			}
			emit(Pick(r, []string{"U", "U", "U", "D"}), string(b))
		}
	}
	return lines
}

func init() {
	// every batchable class × every consensus-effect output type × every position ≥ 1, 2..4 outputs
	var sweep []string
	n := 0
	for _, first := range []string{"w", "c"} {
		for k := 2; k <= 4; k++ {
			for pos := 1; pos < k; pos++ {
				for _, eff := range "pxarul" {
					b := []byte(first + strings.Repeat("s", k-1))
					b[pos] = byte(eff)
					n++
					sweep = append(sweep, fmt.Sprintf("fx sweep%d U %s", n, b))
				}
			}
		}
	}
	for _, letters := range []string{"s", "sp", "ps", "sr", "su", "p", "ss"} {
		n++
		sweep = append(sweep, fmt.Sprintf("fx sweep%d D %s", n, letters))
	}
	Register(&Subsystem{
		Name: "consensusfx",
		Rule: "each line builds one transaction that is valid except possibly for the types of its outputs (funded by a finalized custodian-signed deposit or a deposit input, signed, balanced, with the reference and custodian signature a claim needs) with 1..5 outputs drawn from all ten output types, mostly: withdrawal submit/claim first and one membership/custodian output at a position ≥ 1; runs the real TransactionType, IsSnapshotBatchable and Validate, and for an accepted batchable transaction the real validateSnapshotTransaction + WriteSnapshot of a two-transaction snapshot, then reads nodes, custodian and consensus head; non-trivial = a transaction of a batchable class (Validate was run)",
		Gen:  c28fxGen,
		Exec: c28fxExec,
		Corpus: [][]string{
			append([]string{"reset"}, sweep...),
			{"reset", "fx a1 U w", "fx a2 U ws", "fx a3 U wss", "fx a4 U c", "fx a5 U cs", "fx a6 U s", "fx a7 U sss", "fx a8 D s", "fx a9 U wsp", "fx a10 U sw", "fx a11 U swp",
				"fx a12 U p", "fx a13 U ww", "fx a14 U wc", "fx a15 U cw", "fx a16 U wso", "fx a17 U o", "fx a18 U so", "fx a19 U wsl", "fx a20 U csssp"},
		},
	})
}
