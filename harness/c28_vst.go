package main

// C28, stream `consensusvst`: the REAL kernel.(*Node).validateSnapshotTransaction(s, finalized)
// — the function every proposed and every finalized snapshot goes through — driven with
// sequences in which transaction bodies live in the cache, in the persistent store (validated
// and persisted by an earlier proposal that never finalized), are finalized already, or are
// missing, while the consensus head moves in between. Model: validateSnapshotTx in
// lean/Mixin/Model/ConsensusChain.lean (persisted body → kernel snapshot rule again; cached
// body → Validate, kernel snapshot rule, lock + persist). Everything else is handled by the
// `consensuschain` executor on the same store.

import (
	"fmt"
	"sort"
	"strconv"
	"strings"

	"github.com/MixinNetwork/mixin/common"
	"github.com/MixinNetwork/mixin/crypto"
	"github.com/MixinNetwork/mixin/kernel"
)

// transactions declared by `def` / `defg`, by symbol `#id`; cleared by `reset`
var c28defs = map[string]*common.VersionedTransaction{}

// c28validTx builds transactions that pass tx.Validate on the harness store: a universal mint
// (batch taken from the nonce) and a custodian-signed deposit.
func c28validTx(e *c28env, class, nonce, refs string) *common.VersionedTransaction {
	seed := make([]byte, 64)
	copy(seed, "c28-valid-"+nonce)
	to := common.NewAddressFromSeed(seed)
	n := uint64(0)
	for _, c := range nonce {
		n = n*131 + uint64(c)
	}
	var tx *common.Transaction
	switch class {
	case "vmint":
		amount := common.NewIntegerFromString("1.5")
		tx = common.NewTransactionV5(common.XINAssetId)
		tx.AddUniversalMintInput(1+n%1_000_000, amount)
		tx.AddScriptOutput([]*common.Address{&to}, common.NewThresholdScript(1), amount, seed)
	case "vdeposit":
		d := &common.DepositData{Chain: common.BitcoinAssetId, AssetKey: "c28assetkey", Transaction: "c28dep" + nonce,
			Index: 0, Amount: common.NewIntegerFromString("0.001")}
		tx = common.NewTransactionV5(common.BitcoinAssetId)
		tx.AddDepositInput(d)
		tx.AddScriptOutput([]*common.Address{&to}, common.NewThresholdScript(1), d.Amount, seed)
	default:
		panic("harness: c28 valid class " + class)
	}
	tx.References = c28resolveRefs(e, refs, crypto.Blake3Hash([]byte("c28nolast"+nonce)))
	tx.Extra = []byte(nonce)
	ver := tx.AsVersioned()
	if class == "vdeposit" {
		if err := ver.SignRaw(e.custodian.PrivateSpendKey); err != nil {
			panic("harness: c28 SignRaw: " + err.Error())
		}
	}
	return ver
}

func c28isConsensus(t uint8) bool {
	switch t {
	case common.TransactionTypeMint, common.TransactionTypeNodePledge, common.TransactionTypeNodeCancel,
		common.TransactionTypeNodeAccept, common.TransactionTypeNodeRemove,
		common.TransactionTypeCustodianUpdateNodes, common.TransactionTypeCustodianSlashNodes:
		return true
	}
	return false
}

func c28bits(bs []bool) string {
	var sb strings.Builder
	for _, b := range bs {
		if b {
			sb.WriteByte('1')
		} else {
			sb.WriteByte('0')
		}
	}
	return sb.String()
}

func c28persisted(e *c28env, h crypto.Hash) (bool, string) {
	tx, snap, err := e.store.ReadTransaction(h)
	if err != nil {
		panic(err)
	}
	return tx != nil, snap
}

func c28vstExec(st *State, line string) Result {
	e := c28setup(st)
	full := line
	if i := strings.Index(line, " |"); i >= 0 {
		line = line[:i]
	}
	f := strings.Fields(line)
	res := Result{Tags: []string{f[0]}}
	switch f[0] {
	case "def": // def #id spec
		tx := c28tx(e, f[2])
		c28defs[f[1]] = tx
		res.Out = "ok"
		res.LeanIn = fmt.Sprintf("%s | %s", line, c28desc(tx))
		res.Tags = append(res.Tags, fmt.Sprintf("def/type-%d", tx.TransactionType()))
	case "defg": // defg #id i — the i-th genesis transaction, finalized in the i-th genesis snapshot
		i, _ := strconv.Atoi(f[2])
		_, snaps, txs, err := e.gns.BuildSnapshots()
		if err != nil || i < 0 || i >= len(txs) {
			panic("harness: c28 defg")
		}
		c28defs[f[1]] = txs[i]
		res.Out = "ok"
		res.LeanIn = fmt.Sprintf("%s | %s %s", line, c28desc(txs[i]), c28h(snaps[i].PayloadHash()))
	case "cache": // cache #id — the body arrives through the cache store (a peer sent it)
		tx := c28tx(e, f[1])
		if err := e.store.CacheStoreTransaction(tx); err != nil {
			panic("harness: c28 CacheStoreTransaction: " + err.Error())
		}
		res.Out, res.LeanIn = "ok", line
	case "persist": // persist #id — validated and persisted by a proposal that never finalized
		tx := c28tx(e, f[1])
		out, _, _ := Catch(func() string {
			if err := tx.LockInputs(e.store, false); err != nil {
				return "error"
			}
			if err := e.store.WriteTransaction(tx); err != nil {
				return "error"
			}
			return "ok"
		})
		if out == "panic" {
			out = "error"
		}
		res.Out = out
		res.LeanIn = fmt.Sprintf("%s | %s", line, out)
		res.Tags = append(res.Tags, "persist/"+out)
	case "vst": // vst fin self round ts k #id…
		fin, self := f[1] == "1", f[2] == "1"
		round, _ := strconv.ParseUint(f[3], 10, 64)
		ts := c28ts(e, f[4])
		k, _ := strconv.Atoi(f[5])
		if len(f) != 6+k || k < 1 {
			panic("harness: c28 vst arity")
		}
		type member struct {
			id string
			tx *common.VersionedTransaction
		}
		var ms []member
		var hashes []crypto.Hash
		for _, id := range f[6:] {
			tx := c28tx(e, id)
			ms = append(ms, member{id, tx})
			hashes = append(hashes, tx.PayloadHash())
		}
		s := c28snap(e, self, round, ts, hashes) // PayloadHash sorts s.Transactions: the loop order
		sort.Slice(ms, func(i, j int) bool {
			a, b := ms[i].tx.PayloadHash(), ms[j].tx.PayloadHash()
			return string(a[:]) < string(b[:])
		})
		// inputs of the model that are answers of other components: tx.Validate for cached bodies
		var before []bool
		var order []string
		valid := ""
		for _, m := range ms {
			order = append(order, m.id)
			p, _ := c28persisted(e, m.tx.PayloadHash())
			before = append(before, p)
			v := "0"
			if !p {
				if ctx, _ := e.store.CacheGetTransaction(m.tx.PayloadHash()); ctx != nil {
					v, _, _ = Catch(func() string {
						if ctx.Validate(e.store, ts, fin) == nil {
							return "1"
						}
						return "0"
					})
					if v == "panic" {
						v = "p"
						res.Tags = append(res.Tags, "obs:tx-validate-panicked")
					}
				}
			}
			valid += v
		}
		headTx, headTs, headOK := c28head(e)
		nf, nm := 0, 0
		d := c28decision(func() error {
			var err error
			nf, nm, err = e.node.VerifC28ValidateSnapshotTransaction(s, fin)
			return err
		})
		var after, lock []bool
		for i, m := range ms {
			p, _ := c28persisted(e, m.tx.PayloadHash())
			after = append(after, p)
			lock = append(lock, p && !before[i])
		}
		res.Out = "d=" + d
		if d == "accept" {
			res.Out += fmt.Sprintf(" found=%d missing=%d", nf, nm)
		}
		res.Out += " p=" + c28bits(after)
		tv := "0"
		if d == "accept" {
			tv = "1"
		}
		res.LeanIn = fmt.Sprintf("%s | %d %s %s %s %s %s", line, ts, c28h(s.PayloadHash()), tv, strings.Join(order, ","), valid, c28bits(lock))
		res.Tags = append(res.Tags, "vst/"+d)
		for i, m := range ms {
			where := "absent"
			if before[i] {
				where = "persisted"
			} else if ctx, _ := e.store.CacheGetTransaction(m.tx.PayloadHash()); ctx != nil {
				where = "cached"
			}
			cls := "other"
			if c28isConsensus(m.tx.TransactionType()) {
				cls = "consensus"
			} else if m.tx.IsSnapshotBatchable() {
				cls = "batchable"
			}
			res.Tags = append(res.Tags, fmt.Sprintf("vst/member/%s/%s", where, cls))
		}
		res.Nontrivial = true
		// ---- property mode: what an accepted snapshot must satisfy, on the real observations
		if d == "accept" && nm == 0 {
			exempt := fin && e.mainnet && ts < kernel.VerifC28MainnetConsensusReferenceForkAt
			if k > 1 {
				res.Tags = append(res.Tags, "vst/accept/multi")
				for _, m := range ms {
					if c28isConsensus(m.tx.TransactionType()) {
						res.PropKey, res.PropDesc = "C28:consensus-not-alone", "validateSnapshotTransaction accepted a consensus-class transaction next to others: "+full
					} else if !m.tx.IsSnapshotBatchable() && res.PropKey == "" {
						res.PropKey, res.PropDesc = "C28:multi-tx-non-batchable", "validateSnapshotTransaction accepted a multi-transaction snapshot with a non-batchable transaction: "+full
					}
				}
			} else if tx := ms[0].tx; c28isConsensus(tx.TransactionType()) && !exempt {
				res.Tags = append(res.Tags, "vst/accept/single-consensus")
				if !headOK {
					res.Tags = append(res.Tags, "vst/accept/head-unreadable")
				} else if tx.PayloadHash() != headTx &&
					(len(tx.References) == 0 || tx.References[0] != headTx || ts <= headTs) {
					res.PropKey = "C28:stale-consensus-accepted"
					res.PropDesc = fmt.Sprintf("validateSnapshotTransaction accepted consensus operation %s (first reference %v, snapshot ts %d) while the recorded head is %s at %d: %s",
						tx.PayloadHash(), tx.References, ts, headTx, headTs, full)
				}
			}
		}
	default:
		return c28exec(st, full)
	}
	return res
}

// c28head reads the recorded consensus head from the raw records: sole transaction and timestamp
func c28head(e *c28env) (crypto.Hash, uint64, bool) {
	tss, snaps, _ := e.store.VerifC28ConsensusSnapshotRecords()
	if len(tss) == 0 {
		return crypto.Hash{}, 0, false
	}
	var sh crypto.Hash
	copy(sh[:], snaps[len(snaps)-1])
	last, err := e.store.ReadSnapshot(sh)
	if err != nil || last == nil || len(last.Transactions) != 1 {
		return crypto.Hash{}, 0, false
	}
	return last.Transactions[0], tss[len(tss)-1], true
}

func c28vstGen(r *Rand, i int, tier string) []string {
	lines := []string{"reset", "genesis"}
	if r.Chance(1, 8) {
		lines = append(lines, "mode 1")
	}
	n := 0
	var ids, consIDs, batchIDs []string
	def := func(class, refs string) string {
		n++
		id := fmt.Sprintf("#%d", n)
		lines = append(lines, fmt.Sprintf("def %s %s.v%dn%d.%s", id, class, i, n, refs))
		ids = append(ids, id)
		if class == "vmint" || class == "mint" || class == "pledge" || class == "slash" {
			consIDs = append(consIDs, id)
		} else if class == "vdeposit" {
			batchIDs = append(batchIDs, id)
		}
		return id
	}
	place := func(id string) {
		switch r.Intn(5) {
		case 0, 1:
			lines = append(lines, "persist "+id)
		case 2, 3:
			lines = append(lines, "cache "+id)
		case 4: // nowhere
		}
	}
	// consensus operations validated against the current head, bodies placed somewhere
	nc := r.Range(2, 4)
	for j := 0; j < nc; j++ {
		refs := "L"
		if r.Chance(1, 6) {
			refs = Pick(r, []string{"-", "G", "X1", "X1+L"})
		}
		class := "vmint"
		if r.Chance(1, 6) {
			class = Pick(r, []string{"mint", "pledge", "slash"}) // fail tx.Validate in the cached branch
		}
		place(def(class, refs))
	}
	nb := r.Range(1, 5)
	for j := 0; j < nb; j++ {
		place(def("vdeposit", "-"))
	}
	if r.Chance(1, 3) {
		n++
		id := fmt.Sprintf("#%d", n)
		lines = append(lines, fmt.Sprintf("defg %s %d", id, r.Intn(8)))
		ids = append(ids, id)
	}
	vst := func() {
		fin, self, round := r.Intn(2), r.Intn(2), 1+r.Intn(2)
		ts := "L+" + strconv.Itoa(1+r.Intn(1000))
		if r.Chance(1, 6) {
			ts = Pick(r, []string{"L+0", "L-1"})
		}
		var pick []string
		switch r.Intn(6) {
		case 0, 1: // one consensus operation alone
			pick = []string{Pick(r, consIDs)}
			if r.Chance(1, 4) {
				round = 0
			}
		case 2: // a consensus operation inside a batch
			pick = []string{Pick(r, consIDs)}
			for _, b := range batchIDs {
				if r.Bool() {
					pick = append(pick, b)
				}
			}
			if len(pick) == 1 {
				pick = append(pick, batchIDs[0])
			}
		case 3: // two consensus operations
			if len(consIDs) >= 2 {
				a := r.Intn(len(consIDs))
				b := (a + 1 + r.Intn(len(consIDs)-1)) % len(consIDs)
				pick = []string{consIDs[a], consIDs[b]}
			} else {
				pick = []string{consIDs[0], batchIDs[0]}
			}
		case 4: // a batch of batchable transactions
			for _, b := range batchIDs {
				if r.Chance(2, 3) {
					pick = append(pick, b)
				}
			}
			if len(pick) == 0 {
				pick = []string{batchIDs[0]}
			}
		default: // anything
			for _, id := range ids {
				if r.Chance(1, 3) {
					pick = append(pick, id)
				}
			}
			if len(pick) == 0 {
				pick = []string{Pick(r, ids)}
			}
		}
		lines = append(lines, fmt.Sprintf("vst %d %d %d %s %d %s", fin, self, round, ts, len(pick), strings.Join(pick, " ")))
	}
	steps := r.Range(3, 8)
	for j := 0; j < steps; j++ {
		switch r.Intn(5) {
		case 0: // the head moves: another consensus operation is finalized and recorded
			lines = append(lines, fmt.Sprintf("cop L+%d %s", 1+r.Intn(1000), Pick(r, consIDs)))
		case 1:
			place(Pick(r, ids))
		default:
			vst()
		}
	}
	// the scenario itself: a persisted, never finalized operation is proposed again after the head moved
	if r.Chance(2, 3) {
		x := def("vmint", "L")
		lines = append(lines, "persist "+x)
		y := def("vmint", "L")
		if r.Bool() {
			lines = append(lines, "persist "+y)
		} else {
			lines = append(lines, "cache "+y)
		}
		lines = append(lines, fmt.Sprintf("cop L+%d %s", 1+r.Intn(1000), y))
		lines = append(lines, fmt.Sprintf("vst %d 1 1 L+%d 1 %s", r.Intn(2), 1+r.Intn(1000), x))
		lines = append(lines, fmt.Sprintf("vst %d 1 1 L+%d 2 %s %s", r.Intn(2), 1+r.Intn(1000), x, batchIDs[0]))
		vst()
	}
	return lines
}

func init() {
	Register(&Subsystem{
		Name: "consensusvst",
		Rule: "a case declares 2..4 consensus operations (mostly universal mints that pass tx.Validate, referencing the current head or a wrong/missing reference), 1..5 custodian-signed deposits and sometimes a finalized genesis transaction, places each body in the persistent store (validated earlier, never finalized), in the cache, or nowhere, then interleaves head moves (another consensus operation recorded), re-placements and calls of the real validateSnapshotTransaction on single operations, operations inside batches, pairs of operations and batches; 2/3 of the cases end with: persist X, record Y, propose X again alone and inside a batch; every vst line is non-trivial",
		Gen:  c28vstGen,
		Exec: c28vstExec,
		Corpus: [][]string{
			{ // the seeded scenario: X persisted by a proposal that never finalized, head moves to Y, X again
				"reset", "genesis", "def #1 vmint.x1.L", "def #2 vmint.x2.L", "def #3 vmint.x3.L", "def #4 vdeposit.x4.-", "def #5 vdeposit.x5.-",
				"persist #1", "persist #2", "persist #3", "cache #4", "persist #5",
				"vst 0 1 1 L+5 1 #1", "cop L+5 #3", "vst 0 1 1 L+5 1 #1", "vst 1 1 1 L+5 1 #1", "vst 0 1 1 L+5 2 #1 #2", "vst 0 1 1 L+5 2 #1 #5",
				"vst 0 1 1 L+5 2 #4 #5", "vst 0 1 1 L+5 2 #1 #4", "vst 0 1 1 L+5 1 #3", "vst 0 1 1 L+0 1 #3",
			},
			{ // cached branch: Validate, kernel rule, lock + persist; stale reference after the head moved; finalized elsewhere
				"reset", "genesis", "def #1 vmint.y1.L", "def #2 vmint.y2.L", "def #3 vdeposit.y3.-", "def #4 mint.y4.L", "defg #5 0",
				"cache #1", "cache #2", "cache #3", "cache #4", "vst 0 1 1 L+5 1 #4", "vst 0 1 1 L+5 2 #3 #1", "vst 0 1 1 L+5 1 #3", "vst 0 1 1 L+5 1 #3",
				"vst 0 1 1 L+5 1 #1", "cop L+7 #2", "vst 0 1 1 L+5 1 #1", "vst 0 1 1 L+5 1 #5", "vst 1 1 1 L+5 1 #5", "vst 0 0 0 L+5 1 #3",
			},
		},
	})
}
