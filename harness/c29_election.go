package main

// C29 — operator election and hour windows: real kernel/election.go, kernel/slash.go and the
// gates of the pledge / cancel / custodian-update validators (through the verif hooks, on a
// kernel.Node assembled from a generated node-state history) against
// lean/Mixin/Model/Election.lean. Property mode checks the statement's observables directly.

import (
	"fmt"
	"sort"
	"strings"

	"github.com/MixinNetwork/mixin/common"
	"github.com/MixinNetwork/mixin/config"
	"github.com/MixinNetwork/mixin/crypto"
	"github.com/MixinNetwork/mixin/kernel"
)

type c29Rec struct {
	id, tx crypto.Hash
	ts     uint64
	state  string
}

var c29States = map[string]string{"P": common.NodeStatePledging, "A": common.NodeStateAccepted,
	"R": common.NodeStateRemoved, "C": common.NodeStateCancelled}

func c29Hash(s string) crypto.Hash {
	b := UnHex(s)
	if len(b) != 32 {
		panic("harness: bad hash in op line: " + s)
	}
	var h crypto.Hash
	copy(h[:], b)
	return h
}

func c29Build(epoch uint64, recs []c29Rec) *kernel.Node {
	cn := make([]*kernel.CNode, len(recs))
	var genesis []crypto.Hash
	for i, r := range recs {
		label := r.id.String()[:16]
		cn[i] = &kernel.CNode{IdForNetwork: r.id, Signer: fakeAddress("s" + label), Payee: fakeAddress("p" + label),
			Transaction: r.tx, Timestamp: r.ts, State: r.state}
		if r.ts == epoch && r.state == common.NodeStateAccepted {
			genesis = append(genesis, r.id)
		}
	}
	// the order of kernel.LoadConsensusNodes
	sort.SliceStable(cn, func(i, j int) bool {
		if cn[i].Timestamp != cn[j].Timestamp {
			return cn[i].Timestamp < cn[j].Timestamp
		}
		return cn[i].IdForNetwork.String() < cn[j].IdForNetwork.String()
	})
	node := kernel.VerifC29NewNode(fakeNetworkId, epoch, cn, genesis, newFakeStore())
	node.IdForNetwork = fakeHash("the-validating-node") // the validating node is none of the generated ones
	return node
}

type c29State struct {
	epoch uint64
	node  *kernel.Node
	twin  *kernel.Node // same records loaded in reverse order: must answer identically
}

// ---- generator

type c29Gen struct {
	r     *Rand
	epoch uint64
	recs  []histEntry
	nextN int
	nextT int
}

func (g *c29Gen) add(node int, ts uint64, state string) {
	// the storage key of a node record is (timestamp, signer): one record per node and instant
	for again := true; again; {
		again = false
		for _, e := range g.recs {
			if e.Node == node && e.Ts == ts {
				ts, again = ts+1, true
			}
		}
	}
	g.recs = append(g.recs, histEntry{Node: node, Tx: g.nextT, Ts: ts, State: state})
	g.nextT++
}

// a plausible membership history: genesis nodes, then days with pledge→accept/cancel and removals
func genC29History(r *Rand, tier string) (*c29Gen, uint64) {
	g := &c29Gen{r: r, nextT: r.Intn(4000)}
	g.epoch = 1551312000000000000
	switch r.Intn(4) {
	case 0:
		g.epoch += r.U64() % (500 * c25OneDay)
	case 1:
		g.epoch = r.U64() % (1 << 62)
	}
	n := r.Range(7, 50)
	if r.Chance(1, 8) {
		n = Pick(r, []int{5, 6, 7, 8, 9, 49, 50, 51})
	}
	base := r.Intn(1 << 20)
	for i := 0; i < n; i++ {
		g.add(base+i, g.epoch, "A")
	}
	g.nextN = base + n
	accepted := make([]int, n) // in acceptance order (oldest first is approximated by record order)
	for i := range accepted {
		accepted[i] = base + i
	}
	day := uint64(r.Range(1, 30))
	events := r.Intn(12)
	last := g.epoch
	for e := 0; e < events; e++ {
		day += uint64(r.Range(1, 40))
		t0 := g.epoch + day*c25OneDay
		switch r.Intn(5) {
		case 0, 1: // pledge, then accept (or cancel, or still pledging)
			nn := g.nextN
			g.nextN++
			tp := t0 + uint64(r.Intn(24))*c25Hour + r.U64()%c25Hour
			g.add(nn, tp, "P")
			last = tp
			switch r.Intn(6) {
			case 0:
				return g, last // stays pledging
			case 1:
				tc := tp + uint64(r.Range(12, 7*24))*c25Hour
				g.add(nn, tc, "C")
				last = tc
			default:
				ta := tp + uint64(r.Range(12, 40))*c25Hour + r.U64()%c25Hour
				g.add(nn, ta, "A")
				accepted = append(accepted, nn)
				last = ta
			}
		case 2, 3: // remove the oldest accepted node
			if len(accepted) > 7 || r.Chance(1, 10) {
				tr := t0 + uint64(r.Range(13, 19))*c25Hour + r.U64()%c25Hour
				g.add(accepted[0], tr, "R")
				accepted = accepted[1:]
				last = tr
			}
		default: // irregular record: random node, state and time
			nn := base + r.Intn(g.nextN-base)
			tr := t0 + r.U64()%c25OneDay
			if r.Chance(1, 3) {
				tr = last // equal timestamps
			}
			g.add(nn, tr, Pick(r, []string{"A", "R", "C", "A"}))
			last = tr
		}
		if last > t0 {
			day = (last-g.epoch)/c25OneDay + 1
		}
	}
	return g, last
}

func (g *c29Gen) line() string {
	// emitted in storage order (timestamp, then id) with occasional shuffles of equal keys
	type row struct {
		id, tx crypto.Hash
		ts     uint64
		st     string
	}
	rows := make([]row, len(g.recs))
	for i, e := range g.recs {
		rows[i] = row{nodeIdOf(e.Node), txIdOf(e.Tx), e.Ts, e.State}
	}
	sort.SliceStable(rows, func(i, j int) bool {
		if rows[i].ts != rows[j].ts {
			return rows[i].ts < rows[j].ts
		}
		return rows[i].id.String() < rows[j].id.String()
	})
	var sb strings.Builder
	fmt.Fprintf(&sb, "hist %d %d", g.epoch, len(rows))
	for _, x := range rows {
		fmt.Fprintf(&sb, " %s %s %d %s", x.id, x.tx, x.ts, x.st)
	}
	return sb.String()
}

var c29Ops = []int{common.TransactionTypeMint, common.TransactionTypeNodeRemove, common.TransactionTypeNodePledge,
	common.TransactionTypeCustodianUpdateNodes, common.TransactionTypeCustodianSlashNodes}

func init() {
	Register(&Subsystem{
		Name: "election",
		Rule: "one case = a generated membership history (5..51 genesis nodes, up to 12 later pledge/accept/cancel/" +
			"remove events, irregular and equal-timestamp records, aligned/unaligned/huge epochs) followed by queries " +
			"at several instants (all 24 hours reached, days up to ~10 years, instants below the epoch and near 2^64): " +
			"election for the five operation codes and others, node lists, removal candidate for the elected / oldest / " +
			"random proposer with and without a previous removal transaction, hour windows, predicted removal, the " +
			"leading gates of pledge / cancel / custodian-update validation; non-trivial = the real code returned a " +
			"value (an id, a candidate, pass or a window answer); distinct = distinct op line (ids are case-specific)",
		Corpus: [][]string{{"reset", "consts", "prepare 0 0", "prepare 1551312000000000000 1551312000000000001",
			"prepare 1551358800000000000 1551312000000000000", "prepare 18446744073709551615 0"}},
		Gen: func(r *Rand, i int, tier string) []string {
			g, last := genC29History(r, tier)
			lines := []string{"reset", g.line()}
			ids := map[int]bool{}
			for _, e := range g.recs {
				ids[e.Node] = true
			}
			var nodes []int
			for n := range ids {
				nodes = append(nodes, n)
			}
			sort.Ints(nodes)
			instants := r.Range(2, 6)
			if tier == "thorough" {
				instants = r.Range(4, 12)
			}
			for q := 0; q < instants; q++ {
				var ts uint64
				day := uint64(r.Range(0, 3650))
				hour := uint64(r.Intn(24))
				switch r.Intn(10) {
				case 0: // just after the last record
					ts = last + 1 + r.U64()%(3*c25OneDay)
				case 1: // window boundaries to the nanosecond
					hour = uint64(Pick(r, []int{6, 7, 9, 10, 11, 13, 19, 20, 0, 23, 1}))
					ts = g.epoch + day*c25OneDay + hour*c25Hour + Pick(r, []uint64{0, 1, c25Hour - 1})
				case 2:
					ts = Pick(r, []uint64{1, g.epoch - 1, g.epoch, g.epoch + 1, ^uint64(0), 1 << 63, (1 << 63) - 1, g.epoch + c25Hour*13})
					if ts == 0 {
						ts = 1
					}
				case 3: // inside the accept window shortly after the history
					ts = last/c25OneDay*c25OneDay + uint64(r.Range(1, 3))*c25OneDay
					ts = g.epoch + (ts-g.epoch)/c25OneDay*c25OneDay + uint64(r.Range(13, 19))*c25Hour + r.U64()%c25Hour
				default:
					ts = g.epoch + day*c25OneDay + hour*c25Hour + r.U64()%c25Hour
				}
				if ts == 0 {
					ts = 1
				}
				for _, op := range c29Ops {
					lines = append(lines, fmt.Sprintf("elect %d %d", op, ts))
				}
				if r.Chance(1, 3) {
					lines = append(lines, fmt.Sprintf("elect %d %d", r.Intn(256), ts))
				}
				lines = append(lines, fmt.Sprintf("list %d 1", ts), fmt.Sprintf("list %d 0", ts),
					fmt.Sprintf("hours %d", ts), fmt.Sprintf("removing %d", ts), fmt.Sprintf("cancel %d", ts),
					fmt.Sprintf("prepare %d %d", ts, g.epoch))
				// proposers: "E" = the node the real code elects for that operation at ts (resolved by Exec)
				for _, p := range []string{"E", "O", nodeIdOf(Pick(r, nodes)).String()} {
					old := "-"
					if r.Chance(1, 3) {
						old = txIdOf(Pick(r, g.recs).Tx).String()
					}
					lines = append(lines, fmt.Sprintf("remove %s %d %s", p, ts, old), fmt.Sprintf("removeby %s %d %s", p, ts, old))
				}
				for _, p := range []string{"E", nodeIdOf(Pick(r, nodes)).String()} {
					lines = append(lines, fmt.Sprintf("pledge %s %d", p, ts), fmt.Sprintf("custodian %s %d", p, ts))
				}
			}
			return clkWrap(r, lines, map[string]int{"pledge": 2, "custodian": 2})
		},
		Exec: execElection,
	})
}

func c29Hour(epoch, ts uint64) uint64 { return (ts - epoch) / c25Hour % 24 }

func execElection(state *State, line string) Result {
	c, t := parseClk(strings.Fields(line))
	res := Result{Tags: []string{t[0]}}
	if c.on {
		res.Tags = append(res.Tags, fmt.Sprintf("clk:own%d-ts0%d", b2i(c.own), b2i(c.ts0)))
	}
	fail := func(key, desc string) {
		if res.PropKey == "" {
			res.PropKey, res.PropDesc = "C29:"+key, desc
		}
	}
	st, _ := state.V["c29"].(*c29State)
	if st == nil {
		st = &c29State{node: c29Build(0, nil), twin: c29Build(0, nil)}
		state.V["c29"] = st
	}
	ab, ae := uint64(config.KernelNodeAcceptTimeBegin), uint64(config.KernelNodeAcceptTimeEnd)
	mb, me := uint64(config.KernelMintTimeBegin), uint64(config.KernelMintTimeEnd)
	// resolve symbolic proposers: E = elected for op at ts, O = oldest accepted node at ts
	resolve := func(p string, op byte, ts uint64) (crypto.Hash, bool) {
		switch p {
		case "E":
			var h crypto.Hash
			_, pn, _ := Catch(func() string { h = st.node.VerifElectSnapshotNode(op, ts); return "" })
			return h, !pn
		case "O":
			l := st.node.NodesListWithoutState(ts, true)
			if len(l) == 0 {
				return crypto.Hash{}, true
			}
			return l[0].IdForNetwork, true
		}
		return c29Hash(p), true
	}
	out, panicked, _ := Catch(func() string {
		switch t[0] {
		case "reset":
			return "ok"
		case "consts":
			return fmt.Sprintf("ok %d %d %d %d %d %d %d %d %v", config.KernelMinimumNodesCount, mb, me, ab, ae,
				uint64(config.KernelNodePledgePeriodMinimum), uint64(config.KernelNodeAcceptPeriodMinimum),
				uint64(config.KernelNodeAcceptPeriodMaximum), strings.ReplaceAll(fmt.Sprint(c29Ops), " ", ", "))
		case "hist":
			epoch, k := u64(t[1]), int(u64(t[2]))
			recs := make([]c29Rec, k)
			for i := 0; i < k; i++ {
				f := t[3+4*i:]
				recs[i] = c29Rec{c29Hash(f[0]), c29Hash(f[1]), u64(f[2]), c29States[f[3]]}
			}
			rev := make([]c29Rec, k)
			for i := range recs {
				rev[k-1-i] = recs[i]
			}
			st.epoch, st.node, st.twin = epoch, c29Build(epoch, recs), c29Build(epoch, rev)
			res.Tags = append(res.Tags, fmt.Sprintf("hist:records%02d-", k/10*10))
			return "ok"
		case "list":
			ts, ao := u64(t[1]), t[2] == "1"
			l := st.node.NodesListWithoutState(ts, ao)
			if ao {
				res.Tags = append(res.Tags, fmt.Sprintf("list:accepted%02d-", len(l)/10*10))
			}
			ss := make([]string, len(l))
			for i, cn := range l {
				ss[i] = cn.IdForNetwork.String()
			}
			if len(ss) == 0 {
				return "ok"
			}
			return "ok " + strings.Join(ss, " ")
		case "elect":
			op, ts := byte(u64(t[1])), u64(t[2])
			res.Tags = append(res.Tags, fmt.Sprintf("elect:hour%02d", c29Hour(st.epoch, ts)))
			id := st.node.VerifElectSnapshotNode(op, ts)
			// determinism: a node that loaded the same records in another order elects the same id
			if id2 := st.twin.VerifElectSnapshotNode(op, ts); id2 != id {
				fail("elect-differs", fmt.Sprintf("two nodes with the same membership elect %s and %s", id, id2))
			}
			if !id.HasValue() {
				res.Tags = append(res.Tags, "elect:zero")
				return "zero"
			}
			acc := st.node.NodesListWithoutState(ts, true)
			found := false
			for _, cn := range acc {
				found = found || cn.IdForNetwork == id
			}
			if !found {
				fail("elect-not-accepted", "elected node is not an accepted node: "+id.String())
			} else if acc[0].IdForNetwork == id || acc[len(acc)-1].IdForNetwork == id {
				fail("elect-extreme", "elected node is the oldest or newest accepted node: "+id.String())
			}
			return "id " + id.String()
		case "remove", "removeby":
			ts := u64(t[2])
			p, ok := resolve(t[1], common.TransactionTypeNodeRemove, ts)
			var old *common.VersionedTransaction
			oldS := "-"
			if t[3] != "-" {
				old = fakeTxByHash(c29Hash(t[3]))
				if old == nil {
					panic("harness: unknown old transaction " + t[3])
				}
				oldS = t[3]
			}
			res.LeanIn = fmt.Sprintf("%s %s %d %s", t[0], p, ts, oldS)
			if !ok {
				if t[0] == "remove" { // election panics: ask with the zero id instead
					res.LeanIn = fmt.Sprintf("%s %s %d %s", t[0], crypto.Hash{}, ts, oldS)
				} else {
					res.Tags = append(res.Tags, "removeby:election-panics")
					return "panic"
				}
			}
			if t[0] == "removeby" {
				// validateNodeRemoveSnapshot: the proposer must be the elected node (an election
				// panic is a panic of the validator)
				if eid := st.node.VerifElectSnapshotNode(common.TransactionTypeNodeRemove, ts); eid != p {
					return "none"
				}
			}
			cn, err := st.node.VerifCheckRemovePossibility(p, ts, old)
			if err != nil {
				return "none"
			}
			res.Tags = append(res.Tags, t[0]+":candidate")
			if cn.IdForNetwork == p {
				fail("self-removal", "node "+p.String()+" may propose its own removal")
			}
			if h := c29Hour(st.epoch, ts); ts < st.epoch || h < ab || h > ae {
				fail("remove-outside-window", fmt.Sprintf("removal possible at hour %d", h))
			}
			return "ok " + cn.IdForNetwork.String()
		case "hours":
			ts := u64(t[1])
			a, p := st.node.VerifCheckConsensusAcceptHour(ts), st.node.VerifCheckConsensusPledgeHour(ts)
			h := c29Hour(st.epoch, ts)
			if a != (h >= ab && h <= ae) {
				fail("accept-window", fmt.Sprintf("accept hour answer %v at hour %d", a, h))
			}
			if p != !((h >= ab && h <= ae) || (h >= mb && h <= me)) {
				fail("pledge-window", fmt.Sprintf("pledge hour answer %v at hour %d", p, h))
			}
			return fmt.Sprintf("ok accept=%v pledge=%v", a, p)
		case "removing":
			cn := st.node.VerifRemovingOrSlashingNodeAt(u64(t[1]))
			if cn == nil {
				return "none"
			}
			res.Tags = append(res.Tags, "removing:predicted")
			return "ok " + cn.IdForNetwork.String()
		case "prepare":
			v, ok := kernel.VerifPrepareNodeRemovalTime(u64(t[1]), u64(t[2]))
			if !ok {
				return "none"
			}
			return fmt.Sprintf("ok %d", v)
		case "pledge", "custodian":
			tsTok := u64(t[2])
			// the time the validator is specified to use, and the timestamp the snapshot carries
			ts, sts := c.eff(tsTok), c.snapTs(tsTok)
			op := byte(common.TransactionTypeNodePledge)
			if t[0] == "custodian" {
				op = common.TransactionTypeCustodianUpdateNodes
			}
			p, ok := resolve(t[1], op, ts)
			res.LeanIn = c.prefix() + fmt.Sprintf("%s %s %d", t[0], p, tsTok)
			if !ok {
				return "panic"
			}
			// election first (a panic of the election is a panic of the validator)
			st.node.VerifElectSnapshotNode(op, ts)
			snap := &common.Snapshot{NodeId: p, Timestamp: sts}
			st.node.IdForNetwork = fakeHash("the-validating-node")
			if c.on && c.own {
				st.node.IdForNetwork = p
			}
			defer func() { st.node.IdForNetwork = fakeHash("the-validating-node") }()
			// with a nil transaction the validator dereferences it right after the gates: an
			// error return means a gate rejected, the nil dereference means every gate passed
			gates := func() bool {
				_, passed, _ := Catch(func() string {
					var err error
					if t[0] == "pledge" {
						err = st.node.VerifValidateNodePledgeSnapshot(snap, nil, true)
					} else {
						err = st.node.VerifValidateCustodianUpdateNodes(snap, nil, true)
					}
					if err == nil {
						panic("harness: validator accepted a nil transaction")
					}
					return ""
				})
				return passed
			}
			var passed bool
			withClock(c.on, c.clock, func() { passed = gates() })
			if c.on && !(c.own && c.ts0) { // a timestamped (or foreign) snapshot: the local clock must not matter
				var passed2 bool
				withClock(true, c.otherClock(), func() { passed2 = gates() })
				if passed2 != passed {
					fail("decision-depends-on-local-clock", fmt.Sprintf("the gates of the same timestamped %s snapshot pass=%v with the local clock at %d and pass=%v at %d",
						t[0], passed, c.clock, passed2, c.otherClock()))
				}
			}
			if !passed {
				return "reject"
			}
			h := c29Hour(st.epoch, ts)
			if t[0] == "pledge" && ((h >= ab && h <= ae) || (h >= mb && h <= me)) {
				fail("pledge-window", fmt.Sprintf("pledge gates pass at hour %d", h))
			}
			if t[0] == "custodian" && h+1 >= mb && h <= me+1 {
				fail("custodian-window", fmt.Sprintf("custodian update gates pass at hour %d", h))
			}
			res.Tags = append(res.Tags, t[0]+":pass")
			return "pass"
		case "cancel":
			ts := u64(t[1])
			snap := &common.Snapshot{NodeId: fakeHash("someone"), Timestamp: ts}
			_, passed, _ := Catch(func() string {
				if err := st.node.VerifValidateNodeCancelSnapshot(snap, nil, true); err == nil {
					panic("harness: validator accepted a nil transaction")
				}
				return ""
			})
			if !passed {
				return "reject"
			}
			if h := c29Hour(st.epoch, ts); h < ab || h > ae {
				fail("cancel-window", fmt.Sprintf("cancel gates pass at hour %d", h))
			}
			res.Tags = append(res.Tags, "cancel:pass")
			return "pass"
		}
		panic("harness: unknown op " + t[0])
	})
	res.Out = out
	res.Nontrivial = !panicked && out != "none" && out != "reject" && out != "zero" && t[0] != "reset" && t[0] != "hist"
	if panicked {
		res.Tags = append(res.Tags, t[0]+":panic")
	}
	return res
}
