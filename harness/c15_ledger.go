package main

// C15 / C16 / C17 — ledger histories on a REAL storage.BadgerStore against
// lean/Mixin/Model/Ledger.lean. One executor, three registrations ("ledger" = C15,
// "ledgerc16", "ledgerc17") that differ only in which property oracle reports.
//
// Everything in the op lines is symbolic: transactions, snapshots, ghost keys, deposits, assets,
// nodes are small integers chosen by the generator; the executor builds the real objects with the
// repository's own constructors (real keys, real custodian signatures) and keeps the
// real-hash <-> symbol tables, so the database dump can be printed in the model's vocabulary.

import (
	"bytes"
	"encoding/binary"
	"encoding/json"
	"fmt"
	"math/big"
	"os"
	"sort"
	"strconv"
	"strings"
	"sync"
	"time"

	"github.com/MixinNetwork/mixin/common"
	"github.com/MixinNetwork/mixin/config"
	"github.com/MixinNetwork/mixin/crypto"
	"github.com/MixinNetwork/mixin/kernel"
	"github.com/MixinNetwork/mixin/storage"
	"github.com/dgraph-io/ristretto/v2"
)

const (
	c15Nodes      = 7
	c15TsBase     = 1000000000000 // validation time = epoch + c15TsBase (after the genesis custodian)
	c15GenesisKey = 90000000
)

type c15LedgerCase struct {
	dir   string
	store *storage.BadgerStore
	epoch uint64

	nodes     []crypto.Hash // node ids, genesis order
	custodian common.Address
	accounts  map[int]*common.Address

	txByID   map[int]*common.VersionedTransaction
	txID     map[crypto.Hash]int
	keyID    map[crypto.Key]int
	snapID   map[crypto.Hash]int
	depID    map[crypto.Hash]int
	assetID  map[crypto.Hash]int
	assetOf  map[int]crypto.Hash
	assets   []int
	chainID  map[crypto.Hash]int
	akeyID   map[string]int
	opaqueID map[string]int

	validated map[int]bool // Validate returned nil
	locked    map[int]bool // then LockInputs returned nil
	pending   map[int]bool // then WriteTransaction returned nil: the premise of C16
	// C17 history accounting, maintained from successful snapshots only
	expected map[int]*big.Int
	finalTx  map[int]bool
	// a transaction that never passed the real validation was finalized: the C17 equations are only
	// claimed for validated histories, so the supply oracle is off for the rest of the case
	tainted bool

	badAkey, badDep map[int]bool // symbols declared malformed (checked against the real rules)
	kvalidFin       map[crypto.Hash]bool
	node            *kernel.Node
	// snapshots the node's own validateSnapshotTransaction accepted (by hash)
	kvalid map[crypto.Hash]bool
	// validation-time facts of a deposit the real Validate accepted: the stored total then, and whether
	// the asset had info then (what the known C16 findings are made of)
	valTotal map[int]*big.Int
	valSeen  map[int]bool
}

func c15Seed64(tag string, n int) []byte {
	h1 := crypto.Sha256Hash([]byte(fmt.Sprintf("verif-%s-%d-a", tag, n)))
	h2 := crypto.Sha256Hash([]byte(fmt.Sprintf("verif-%s-%d-b", tag, n)))
	return append(h1[:], h2[:]...)
}

func c15AssetHash(a int) crypto.Hash {
	switch a {
	case 1:
		return common.XINAssetId
	case 2:
		return common.BitcoinAssetId
	case 3:
		return common.EthereumAssetId
	}
	return crypto.Sha256Hash([]byte(fmt.Sprintf("verif-asset-%d", a)))
}

func c15ChainHash(c int) crypto.Hash {
	switch c {
	case 0:
		return crypto.Hash{} // the zero chain: refused by Asset.Verify
	case 2:
		return common.BitcoinAssetId
	case 3:
		return common.EthereumAssetId
	}
	return crypto.Sha256Hash([]byte(fmt.Sprintf("verif-chain-%d", c)))
}

// asset key symbols 9001.. are the boundaries of Asset.Verify's key rule
// (strings.TrimSpace(key) != key || len(key) == 0); 9005/9007 are well formed look-alikes
func c15AssetKey(k int) string {
	switch k {
	case 1:
		return common.XINAsset.AssetKey
	case 9001:
		return " key9001"
	case 9002:
		return "key9002 "
	case 9003:
		return "\tkey9003"
	case 9004:
		return ""
	case 9005:
		return "ke y9005"
	case 9006:
		return "key9006\n"
	case 9007:
		return "k"
	case 9008:
		return "\u00a0key9008" // a non-breaking space is white space for TrimSpace
	}
	return fmt.Sprintf("key%d", k)
}

// deposit symbols 9101.. are the boundaries of the rule on DepositData.Transaction
func c15DepositTx(d int) string {
	switch d {
	case 9101:
		return " dep9101"
	case 9102:
		return "dep9102 "
	case 9103:
		return ""
	case 9104:
		return "dep 9104"
	}
	return fmt.Sprintf("dep%d", d)
}

func c15DepositTxOk(t string) bool { return strings.TrimSpace(t) == t && len(t) > 0 }

func c15Cap(a int) *big.Int { return integerToBig(common.GetAssetCapacity(c15AssetHash(a))) }

func c15ClaimFee() *big.Int {
	return integerToBig(common.NewIntegerFromString(config.WithdrawalClaimFee))
}

func (c *c15LedgerCase) account(j int) *common.Address {
	if a := c.accounts[j]; a != nil {
		return a
	}
	a := common.NewAddressFromSeed(c15Seed64("acct", j))
	c.accounts[j] = &a
	return &a
}

func c15NodeAddress(tag string, i int) common.Address {
	a := common.NewAddressFromSeed(c15Seed64(tag, i))
	a.PrivateViewKey = a.PublicSpendKey.DeterministicHashDerive()
	a.PublicViewKey = a.PrivateViewKey.Public()
	return a
}

func c15NewLedgerCase(root string) *c15LedgerCase {
	dir, err := os.MkdirTemp(root, "ledger-")
	if err != nil {
		panic(err)
	}
	c := &c15LedgerCase{dir: dir, accounts: map[int]*common.Address{},
		txByID: map[int]*common.VersionedTransaction{}, txID: map[crypto.Hash]int{}, keyID: map[crypto.Key]int{},
		snapID: map[crypto.Hash]int{}, depID: map[crypto.Hash]int{}, assetID: map[crypto.Hash]int{},
		assetOf: map[int]crypto.Hash{}, chainID: map[crypto.Hash]int{}, akeyID: map[string]int{},
		opaqueID: map[string]int{}, validated: map[int]bool{}, locked: map[int]bool{}, pending: map[int]bool{},
		expected: map[int]*big.Int{}, finalTx: map[int]bool{},
		kvalid: map[crypto.Hash]bool{}, kvalidFin: map[crypto.Hash]bool{}, badAkey: map[int]bool{}, badDep: map[int]bool{}, valTotal: map[int]*big.Int{}, valSeen: map[int]bool{}}
	c.custodian = common.NewAddressFromSeed(c15Seed64("custodian", 0))
	type gnode struct {
		Signer    string `json:"signer"`
		Payee     string `json:"payee"`
		Custodian string `json:"custodian"`
		Balance   string `json:"balance"`
	}
	g := struct {
		Epoch     int64   `json:"epoch"`
		Nodes     []gnode `json:"nodes"`
		Custodian string  `json:"custodian"`
	}{Epoch: 1700000000, Custodian: c.custodian.String()}
	for i := 1; i <= c15Nodes; i++ {
		s, p, cu := c15NodeAddress("signer", i), c15NodeAddress("payee", i), c15NodeAddress("nodecustodian", i)
		g.Nodes = append(g.Nodes, gnode{s.String(), p.String(), cu.String(), "13439"})
	}
	data, _ := json.Marshal(g)
	path := dir + "/genesis.json"
	if err := os.WriteFile(path, data, 0o644); err != nil {
		panic(err)
	}
	gns, err := common.ReadGenesis(path)
	if err != nil {
		panic("harness: genesis: " + err.Error())
	}
	c.epoch = gns.EpochTimestamp()
	nodeKey := crypto.NewKeyFromSeed(c15Seed64("thisnode", 0))
	cfg := fmt.Sprintf("[node]\nsigner-key = \"%s\"\nconsensus-only = true\nmemory-cache-size = 16\ncache-ttl = 7200\n[network]\nlistener = \"127.0.0.1:7239\"\n", nodeKey.String())
	if err := os.WriteFile(dir+"/config.toml", []byte(cfg), 0o644); err != nil {
		panic(err)
	}
	custom, err := config.Initialize(dir + "/config.toml")
	if err != nil {
		panic(err)
	}
	store, err := storage.NewBadgerStore(custom, dir)
	if err != nil {
		panic(err)
	}
	c.store = store
	rounds, snaps, txs, err := gns.BuildSnapshots()
	if err != nil {
		panic(err)
	}
	if err := store.LoadGenesis(rounds, snaps, txs); err != nil {
		panic("harness: LoadGenesis: " + err.Error())
	}
	// a kernel node over the same store (no loops): its validateSnapshotTransaction / TopoWrite are driven
	// through kernel/verif_hooks_c16.go
	kernel.VerifMockRunAggregators(true)
	cache, err := ristretto.NewCache(&ristretto.Config[[]byte, any]{NumCounters: 1e4, MaxCost: 1 << 22, BufferItems: 64})
	if err != nil {
		panic(err)
	}
	c.node, err = kernel.SetupNode(custom, store, cache, gns)
	if err != nil {
		panic("harness: SetupNode: " + err.Error())
	}
	net := gns.NetworkId()
	for _, n := range gns.Nodes {
		c.nodes = append(c.nodes, n.Signer.Hash().ForNetwork(net))
	}
	// symbols of the genesis objects: transactions / snapshots 1..8, keys 800000+100*i+j
	for i, tx := range txs {
		id := i + 1
		c.txByID[id] = tx
		c.txID[tx.PayloadHash()] = id
		c.snapID[snaps[i].PayloadHash()] = id
		for j, k := range tx.Outputs[0].Keys {
			c.keyID[*k] = c15GenesisKey + 100*id + j + 1
		}
		c.finalTx[id] = true
	}
	return c
}

func (c *c15LedgerCase) close() {
	if c.node != nil {
		c.node.VerifStop()
		c.node = nil
	}
	if c.store != nil {
		_ = c.store.Close()
		c.store = nil
	}
	_ = os.RemoveAll(c.dir)
}

func c15Atoi(s string) int {
	n, err := strconv.Atoi(s)
	if err != nil {
		panic("harness: bad integer in op line: " + s)
	}
	return n
}

func c15Split(s, sep string) []string {
	if s == "-" || s == "" {
		return nil
	}
	return strings.Split(s, sep)
}

type c15KeysReader struct{ c *c15LedgerCase }

func (r c15KeysReader) ReadUTXOKeys(hash crypto.Hash, index uint) (*common.UTXOKeys, error) {
	id, ok := r.c.txID[hash]
	if !ok || int(index) >= len(r.c.txByID[id].Outputs) {
		return nil, nil
	}
	o := r.c.txByID[id].Outputs[index]
	return &common.UTXOKeys{Mask: o.Mask, Keys: o.Keys}, nil
}

// build the real transaction described by a `tx` line
func (c *c15LedgerCase) buildTx(f []string) {
	id, asset := c15Atoi(f[1]), c15Atoi(f[2])
	sigok, custok, nonce := f[3] == "1", f[4] == "1", c15Atoi(f[5])
	ins, outs, refs := c15Split(f[6], ","), c15Split(f[7], ","), c15Split(f[8], ",")
	if len(ins) > 0 && ins[0] == "g" {
		if c.txByID[id] == nil {
			panic("harness: unknown genesis transaction symbol")
		}
		return
	}
	tx := common.NewTransactionV5(c.assetHash(asset))
	for _, in := range ins {
		p := strings.Split(in, ":")
		switch p[0] {
		case "u":
			src := c.txByID[c15Atoi(p[1])]
			if src == nil {
				panic("harness: input refers to an undeclared transaction")
			}
			tx.AddInput(src.PayloadHash(), uint(c15Atoi(p[2])))
		case "d":
			d := &common.DepositData{Chain: c15ChainHash(c15Atoi(p[2])), AssetKey: c15AssetKey(c15Atoi(p[3])),
				Transaction: c15DepositTx(c15Atoi(p[1])), Index: 0, Amount: integerFromBig(parseBig(p[4]))}
			// the model's format oracles are the real functions: an undeclared symbol must be well formed
			if ok := (&common.Asset{Chain: common.BitcoinAssetId, AssetKey: d.AssetKey}).Verify() == nil; ok == c.badAkey[c15Atoi(p[3])] {
				panic("harness: asset key symbol declared differently from what Asset.Verify says")
			}
			if c15DepositTxOk(d.Transaction) == c.badDep[c15Atoi(p[1])] {
				panic("harness: deposit symbol declared differently from the transaction string rule")
			}
			c.depID[d.UniqueKey()] = c15Atoi(p[1])
			c.chainID[d.Chain] = c15Atoi(p[2])
			c.akeyID[d.AssetKey] = c15Atoi(p[3])
			tx.AddDepositInput(d)
		case "m":
			b, _ := strconv.ParseUint(p[1], 10, 64)
			tx.AddUniversalMintInput(b, integerFromBig(parseBig(p[2])))
		default:
			panic("harness: bad input " + in)
		}
	}
	for i, o := range outs {
		p := strings.Split(o, ":")
		amount := integerFromBig(parseBig(p[1]))
		switch p[0] {
		case "s", "z", "x":
			kid := c15Atoi(p[2])
			seed, acct, idx := kid/10000, (kid/100)%100, kid%100
			if idx != i {
				panic("harness: key symbol does not encode the output index")
			}
			typ := uint8(common.OutputTypeScript)
			if p[0] == "z" {
				typ = 0x77
			}
			if p[0] == "x" {
				typ = common.OutputTypeCustodianSlashNodes
			}
			tx.AddOutputWithType(typ, []*common.Address{c.account(acct)}, common.NewThresholdScript(1), amount, c15Seed64("seed", seed))
			c.keyID[*tx.Outputs[i].Keys[0]] = kid
		case "w":
			tx.Outputs = append(tx.Outputs, &common.Output{Type: common.OutputTypeWithdrawalSubmit, Amount: amount,
				Withdrawal: &common.WithdrawalData{Address: "verif-address", Tag: ""}})
		case "c":
			tx.AddOutputWithType(common.OutputTypeWithdrawalClaim, nil, common.Script{}, amount, nil)
		default:
			panic("harness: bad output " + o)
		}
	}
	for _, r := range refs {
		src := c.txByID[c15Atoi(r)]
		if src == nil {
			panic("harness: reference to an undeclared transaction")
		}
		tx.References = append(tx.References, src.PayloadHash())
	}
	nb := binary.BigEndian.AppendUint64(nil, uint64(nonce))
	wrong := crypto.NewKeyFromSeed(c15Seed64("wrong", nonce))
	if len(outs) > 0 && strings.HasPrefix(outs[0], "c:") {
		signer := c.custodian.PrivateSpendKey
		if !custok {
			signer = wrong
		}
		sig := signer.Sign(crypto.Blake3Hash(nb))
		tx.Extra = append(sig[:], nb...)
	} else {
		tx.Extra = nb
	}
	ver := tx.AsVersioned()
	msg := ver.PayloadHash()
	for i, in := range ver.Inputs {
		switch {
		case in.Deposit != nil:
			key := c.custodian.PrivateSpendKey
			if !custok {
				key = wrong
			}
			if len(ver.Inputs) == 1 {
				_ = ver.SignRaw(key)
			} else {
				sig := key.Sign(msg)
				ver.SignaturesMap = append(ver.SignaturesMap, map[uint16]*crypto.Signature{0: &sig})
			}
		case in.Mint != nil:
			sig := wrong.Sign(msg)
			ver.SignaturesMap = append(ver.SignaturesMap, map[uint16]*crypto.Signature{0: &sig})
		default:
			srcID := c.txID[in.Hash]
			src := c.txByID[srcID]
			var acct *common.Address
			if int(in.Index) < len(src.Outputs) && len(src.Outputs[in.Index].Keys) == 1 {
				if kid, ok := c.keyID[*src.Outputs[in.Index].Keys[0]]; ok && kid < c15GenesisKey {
					acct = c.account((kid / 100) % 100)
				}
			}
			if acct != nil && sigok {
				if err := ver.SignInput(c15KeysReader{c}, i, []*common.Address{acct}); err != nil {
					panic("harness: SignInput: " + err.Error())
				}
			} else if acct != nil {
				sig := wrong.Sign(msg)
				ver.SignaturesMap = append(ver.SignaturesMap, map[uint16]*crypto.Signature{0: &sig})
			} else {
				ver.SignaturesMap = append(ver.SignaturesMap, map[uint16]*crypto.Signature{})
			}
		}
	}
	h := ver.PayloadHash()
	if old, ok := c.txID[h]; ok && old != id {
		panic("harness: two transaction symbols for one hash")
	}
	c.txByID[id] = ver
	c.txID[h] = id
}

func (c *c15LedgerCase) assetHash(a int) crypto.Hash {
	h := c15AssetHash(a)
	c.assetOf[a] = h
	c.assetID[h] = a
	return h
}

// ---------------------------------------------------------------- database dump

var c15Prefixes = []string{"GHOST", "UTXO", "DEPOSIT", "WITHDRAWAL", "MINTUNIVERSAL", "TRANSACTION", "FINALIZATION",
	"UNIQUE", "ROUND", "SNAPSHOT", "LINK", "TOPOLOGY", "SNAPTOPO", "WORKPROPOSE", "WORKVOTE", "WORKCHECKPOINT",
	"WORKSNAPSHOT", "SPACECHECKPOINT", "SPACEQUEUE", "ASSETINFO", "ASSETTOTAL", "CUSTODIANUPDATE",
	"CONSENSUSSNAPSHOT", "NODESTATEQUEUE", "NODEOPERATION"}

func c15Family(key []byte) string {
	best := ""
	for _, p := range c15Prefixes {
		if bytes.HasPrefix(key, []byte(p)) && len(p) > len(best) {
			best = p
		}
	}
	return best
}

type c15RawDB struct{ keys, vals [][]byte }

func (c *c15LedgerCase) raw() *c15RawDB {
	k, v, err := c.store.VerifC15DumpDB()
	if err != nil {
		panic(err)
	}
	return &c15RawDB{k, v}
}

func (a *c15RawDB) equal(b *c15RawDB) bool {
	if len(a.keys) != len(b.keys) {
		return false
	}
	for i := range a.keys {
		if !bytes.Equal(a.keys[i], b.keys[i]) || !bytes.Equal(a.vals[i], b.vals[i]) {
			return false
		}
	}
	return true
}

func (a *c15RawDB) get(key []byte) ([]byte, bool) {
	i := sort.Search(len(a.keys), func(i int) bool { return bytes.Compare(a.keys[i], key) >= 0 })
	if i < len(a.keys) && bytes.Equal(a.keys[i], key) {
		return a.vals[i], true
	}
	return nil, false
}

func c15Hash(b []byte) crypto.Hash {
	var h crypto.Hash
	copy(h[:], b)
	return h
}

func c15SymOf[K comparable](m map[K]int, k K) string {
	if v, ok := m[k]; ok {
		return strconv.Itoa(v)
	}
	return "?"
}

func (c *c15LedgerCase) txSym(h crypto.Hash) string {
	if !h.HasValue() {
		return "0"
	}
	return c15SymOf(c.txID, h)
}

func (c *c15LedgerCase) nodeSym(h crypto.Hash) string {
	for i, n := range c.nodes {
		if n == h {
			return strconv.Itoa(i + 1)
		}
	}
	return "?"
}

var c15OutLetter = map[uint8]string{common.OutputTypeScript: "s", common.OutputTypeWithdrawalSubmit: "w",
	common.OutputTypeWithdrawalClaim: "c", common.OutputTypeNodePledge: "p", common.OutputTypeNodeAccept: "a",
	common.OutputTypeNodeCancel: "n", common.OutputTypeNodeRemove: "r", common.OutputTypeCustodianUpdateNodes: "u",
	common.OutputTypeCustodianSlashNodes: "x"}

func c15Letter(t uint8) string {
	if l, ok := c15OutLetter[t]; ok {
		return l
	}
	return "z"
}

// abstract dump in the model's vocabulary; every family the model does not describe is folded
// into one opaque digest symbol
func (c *c15LedgerCase) dump(db *c15RawDB) string {
	var ls []string
	opaque := crypto.Sha256Hash(nil)
	for i, key := range db.keys {
		val := db.vals[i]
		fam := c15Family(key)
		rest := key[len(fam):]
		switch fam {
		case "UTXO":
			u, err := common.UnmarshalUTXO(val)
			if err != nil {
				ls = append(ls, "U:?")
				continue
			}
			var ks []string
			for _, k := range u.Keys {
				ks = append(ks, c15SymOf(c.keyID, *k))
			}
			kstr := "-"
			if len(ks) > 0 {
				kstr = strings.Join(ks, "+")
			}
			idx, _ := binary.Varint(rest[32:])
			if c15Hash(rest[:32]) != u.Hash || uint(idx) != u.Index {
				ls = append(ls, "U:?key")
			}
			ls = append(ls, fmt.Sprintf("U:%s:%d:%s:%s:%s:%s:%s", c.txSym(u.Hash), u.Index, c15SymOf(c.assetID, u.Asset),
				c15Letter(u.Type), integerToBig(u.Amount), kstr, c.txSym(u.LockHash)))
		case "GHOST":
			var k crypto.Key
			copy(k[:], rest)
			ls = append(ls, fmt.Sprintf("G:%s:%s", c15SymOf(c.keyID, k), c.txSym(c15Hash(val))))
		case "DEPOSIT":
			ls = append(ls, fmt.Sprintf("D:%s:%s", c15SymOf(c.depID, c15Hash(rest)), c.txSym(c15Hash(val))))
		case "MINTUNIVERSAL":
			m, err := common.UnmarshalMintDistribution(val)
			if err != nil || m.Batch != binary.BigEndian.Uint64(rest) {
				ls = append(ls, "M:?")
				continue
			}
			ls = append(ls, fmt.Sprintf("M:%d:%s:%s", m.Batch, integerToBig(m.Amount), c.txSym(m.Transaction)))
		case "TRANSACTION":
			sym := c.txSym(c15Hash(rest))
			if id, ok := c.txID[c15Hash(rest)]; ok && !bytes.Equal(c.txByID[id].Marshal(), val) {
				sym += "?body"
			}
			ls = append(ls, "T:"+sym)
		case "FINALIZATION":
			ls = append(ls, fmt.Sprintf("F:%s:%s", c.txSym(c15Hash(rest)), c15SymOf(c.snapID, c15Hash(val))))
		case "ASSETINFO":
			var a common.Asset
			if json.Unmarshal(val, &a) != nil {
				ls = append(ls, "I:?")
				continue
			}
			ls = append(ls, fmt.Sprintf("I:%s:%s:%s", c15SymOf(c.assetID, c15Hash(rest)), c15SymOf(c.chainID, a.Chain), c15SymOf(c.akeyID, a.AssetKey)))
		case "ASSETTOTAL":
			ls = append(ls, fmt.Sprintf("A:%s:%s", c15SymOf(c.assetID, c15Hash(rest)), integerToBig(common.NewIntegerFromString(string(val)))))
		case "WITHDRAWAL":
			ls = append(ls, fmt.Sprintf("W:%s:%s", c.txSym(c15Hash(rest)), c.txSym(c15Hash(val))))
		case "UNIQUE":
			ls = append(ls, fmt.Sprintf("Q:%s:%s", c.txSym(c15Hash(rest[:32])), c.nodeSym(c15Hash(rest[32:]))))
		case "SNAPSHOT":
			s, err := common.UnmarshalVersionedSnapshot(val)
			if err != nil {
				ls = append(ls, "S:?")
				continue
			}
			var ts []string
			for _, h := range s.Transactions {
				ts = append(ts, c.txSym(h))
			}
			// the stored encoding orders the hashes; compare as a set (numeric order of the symbols)
			sort.Slice(ts, func(i, j int) bool {
				a, _ := strconv.Atoi(ts[i])
				b, _ := strconv.Atoi(ts[j])
				return a < b
			})
			sym := c15SymOf(c.snapID, c15Hash(rest[40:]))
			if s.PayloadHash() != c15Hash(rest[40:]) || s.NodeId != c15Hash(rest[:32]) || s.RoundNumber != binary.BigEndian.Uint64(rest[32:40]) {
				sym += "?key"
			}
			ls = append(ls, fmt.Sprintf("S:%s:%s:%d:%d:%s", sym, c.nodeSym(s.NodeId), s.RoundNumber, s.Timestamp-c.epoch, strings.Join(ts, "+")))
		case "TOPOLOGY":
			sk := val[len("SNAPSHOT"):]
			ls = append(ls, fmt.Sprintf("O:%d:%s", binary.BigEndian.Uint64(rest), c15SymOf(c.snapID, c15Hash(sk[40:]))))
		case "SNAPTOPO":
			ls = append(ls, fmt.Sprintf("P:%s:%d", c15SymOf(c.snapID, c15Hash(rest)), binary.BigEndian.Uint64(val[len("TOPOLOGY"):])))
		case "WORKSNAPSHOT":
			ls = append(ls, fmt.Sprintf("K:%s:%d:%d:%s:%d", c.nodeSym(c15Hash(rest[:32])), binary.BigEndian.Uint64(rest[32:40]),
				binary.BigEndian.Uint64(rest[40:48])-c.epoch, c15SymOf(c.snapID, c15Hash(val[:32])), len(val)/32-1))
		default:
			h := crypto.Sha256Hash(append(append(opaque[:], key...), val...))
			opaque = h
		}
	}
	ls = append(ls, "X:"+c15SymOf(c.opaqueID, opaque.String()))
	sort.Strings(ls)
	return strings.Join(ls, " ")
}

func (c *c15LedgerCase) opaqueDigest(db *c15RawDB) string {
	opaque := crypto.Sha256Hash(nil)
	for i, key := range db.keys {
		switch c15Family(key) {
		case "UTXO", "GHOST", "DEPOSIT", "MINTUNIVERSAL", "TRANSACTION", "FINALIZATION", "ASSETINFO", "ASSETTOTAL",
			"WITHDRAWAL", "UNIQUE", "SNAPSHOT", "TOPOLOGY", "SNAPTOPO", "WORKSNAPSHOT":
		default:
			opaque = crypto.Sha256Hash(append(append(opaque[:], key...), db.vals[i]...))
		}
	}
	return opaque.String()
}

// ---------------------------------------------------------------- C17 observation

type c15Supply struct{ total, unspent *big.Int }

func (c *c15LedgerCase) supply(db *c15RawDB) map[int]c15Supply {
	res := map[int]c15Supply{}
	for _, a := range c.assets {
		_, bal, err := c.store.ReadAssetWithBalance(c.assetOf[a])
		if err != nil {
			panic(err)
		}
		res[a] = c15Supply{integerToBig(bal), new(big.Int)}
	}
	for i, key := range db.keys {
		if c15Family(key) != "UTXO" {
			continue
		}
		u, err := common.UnmarshalUTXO(db.vals[i])
		if err != nil {
			panic(err)
		}
		if u.LockHash.HasValue() {
			if _, fin := db.get(append([]byte("FINALIZATION"), u.LockHash[:]...)); fin {
				continue
			}
		}
		a, ok := c.assetID[u.Asset]
		if !ok {
			continue
		}
		if s, ok := res[a]; ok {
			s.unspent.Add(s.unspent, integerToBig(u.Amount))
		}
	}
	return res
}

// ---------------------------------------------------------------- executor

func c15ExecLedger(prop string) func(st *State, line string) Result {
	return func(st *State, line string) Result {
		f := strings.Fields(line)
		res := Result{Tags: []string{f[0]}}
		c, _ := st.V["ledger"].(*c15LedgerCase)
		if f[0] == "reset" {
			if c15Last != nil {
				c15Last.close()
			}
			c = c15NewLedgerCase(st.Dir)
			st.V["ledger"] = c
			c15Last = c
			res.Out = "ok"
			return res
		}
		if c == nil {
			panic("harness: ledger op before reset")
		}
		switch f[0] {
		case "config":
			if c15Atoi(f[1]) != 1 || f[2] != c15ClaimFee().String() {
				panic("harness: config line disagrees with the repository constants")
			}
			res.Out = "ok"
		case "asset":
			a := c15Atoi(f[1])
			c.assetHash(a)
			c.assets = append(c.assets, a)
			if f[2] != c15Cap(a).String() {
				panic("harness: asset capacity in op line disagrees with GetAssetCapacity")
			}
			c.expected[a] = new(big.Int)
			res.Out = "ok"
		case "badakey":
			c.badAkey[c15Atoi(f[1])] = true
			res.Out = "ok"
		case "baddep":
			c.badDep[c15Atoi(f[1])] = true
			res.Out = "ok"
		case "ginfo":
			c.chainID[c15ChainHash(c15Atoi(f[2]))] = c15Atoi(f[2])
			c.akeyID[c15AssetKey(c15Atoi(f[3]))] = c15Atoi(f[3])
			res.Out = "ok"
		case "gsnap":
			// LoadGenesis already ran at reset; this line only replays it on the model side
			id := c15Atoi(f[7])
			tx := c.txByID[id]
			a := c.assetID[tx.Asset]
			for _, o := range tx.Outputs {
				c.expected[a].Add(c.expected[a], integerToBig(o.Amount))
			}
			res.Out = "ok"
		case "opaque":
			c.opaqueID[c.opaqueDigest(c.raw())] = c15Atoi(f[1])
			res.Out = "ok"
		case "tx":
			c.buildTx(f)
			res.Out = "ok"
		case "validate":
			id := c15Atoi(f[1])
			tx := c.txByID[id]
			out, panicked, _ := Catch(func() string {
				if err := tx.Validate(c.store, c.epoch+c15TsBase, f[2] == "1"); err != nil {
					return "reject"
				}
				return "ok"
			})
			res.Out = out
			res.Tags = append(res.Tags, "validate:"+out+":"+c15TxKind(tx))
			c.validated[id] = out == "ok"
			if out == "ok" {
				c.recordValidation(id)
			}
			if out != "ok" {
				c.locked[id], c.pending[id] = false, false
			}
			res.Nontrivial = !panicked
		case "lock":
			id := c15Atoi(f[1])
			tx := c.txByID[id]
			out, _, _ := Catch(func() string {
				if err := tx.LockInputs(c.store, f[2] == "1"); err != nil {
					return "reject"
				}
				return "ok"
			})
			res.Out = out
			res.Tags = append(res.Tags, "lock:"+out)
			c.locked[id] = c.validated[id] && out == "ok"
		case "put":
			id := c15Atoi(f[1])
			tx := c.txByID[id]
			out, _, _ := Catch(func() string {
				if err := c.store.WriteTransaction(tx); err != nil {
					return "reject"
				}
				return "ok"
			})
			res.Out = out
			res.Tags = append(res.Tags, "put:"+out)
			c.pending[id] = c.locked[id] && out == "ok"
		case "snap":
			c.execSnap(f, prop, &res)
		case "kvalidate":
			c.execKValidate(f, &res)
		case "ksnap":
			b := c.buildSnap(f)
			if !c.kvalid[b.snap.Hash] {
				res.Out, res.LeanIn = "skip", "nop"
				break
			}
			res.LeanIn = strings.Join(f, " ")
			c.finalize(b, prop, &res, true)
		case "csnap":
			c.execConcurrent(f, prop, &res)
		case "nop":
			res.Out = "skip"
		case "persist", "persistv":
			// lock the inputs and persist the body; `persistv` does it only for a transaction the real
			// Validate accepted (what the kernel does), and tells the model which of the two happened
			id := c15Atoi(f[1])
			tx := c.txByID[id]
			if f[0] == "persistv" && !c.validated[id] {
				res.Out, res.LeanIn = "skip", "nop"
				break
			}
			out, _, _ := Catch(func() string {
				if err := tx.LockInputs(c.store, f[2] == "1"); err != nil {
					return "reject"
				}
				c.locked[id] = c.validated[id]
				if err := c.store.WriteTransaction(tx); err != nil {
					return "reject"
				}
				return "ok"
			})
			res.Out, res.LeanIn = out, "persist "+f[1]+" "+f[2]
			res.Tags = append(res.Tags, "persist:"+out)
			c.pending[id] = c.locked[id] && out == "ok"
		case "snapv":
			// finalize only what the node's own validation accepted: every member is either finalized
			// already or validated + locked + persisted on the real code
			ok := true
			for _, sid := range c15Split(f[7], ",") {
				id := c15Atoi(sid)
				if !c.finalTx[id] && !c.pending[id] {
					ok = false
				}
			}
			if !ok {
				res.Out, res.LeanIn = "skip", "nop"
				break
			}
			f[0] = "snap"
			c.execSnap(f, prop, &res)
		case "dump":
			res.Out = c.dump(c.raw())
		case "supply":
			sup := c.supply(c.raw())
			var parts []string
			for _, a := range c.assets {
				parts = append(parts, fmt.Sprintf("%d:%s:%s", a, sup[a].total, sup[a].unspent))
			}
			res.Out = "-"
			if len(parts) > 0 {
				res.Out = strings.Join(parts, " ")
			}
			if prop == "C17" && !c.tainted {
				c.checkSupply(sup, &res)
			}
			res.Nontrivial = true
		default:
			panic("harness: unknown op " + f[0])
		}
		return res
	}
}

var c15Last *c15LedgerCase

func c15TxKind(tx *common.VersionedTransaction) string {
	switch tx.TransactionType() {
	case common.TransactionTypeScript:
		return "script"
	case common.TransactionTypeDeposit:
		return "deposit"
	case common.TransactionTypeMint:
		return "mint"
	case common.TransactionTypeWithdrawalSubmit:
		return "submit"
	case common.TransactionTypeWithdrawalClaim:
		return "claim"
	case common.TransactionTypeUnknown:
		return "unknown"
	}
	return "other"
}

func (c *c15LedgerCase) checkSupply(sup map[int]c15Supply, res *Result) {
	// no output is consumed by two finalized transactions
	spentBy := map[string]int{}
	var fin []int
	for id := range c.finalTx {
		fin = append(fin, id)
	}
	sort.Ints(fin)
	for _, id := range fin {
		for _, in := range c.txByID[id].Inputs {
			if in.Deposit != nil || in.Mint != nil || len(in.Genesis) > 0 {
				continue
			}
			k := fmt.Sprintf("%s:%d", c.txSym(in.Hash), in.Index)
			if other, ok := spentBy[k]; ok && other != id {
				res.PropKey = "C17:output-consumed-twice"
				res.PropDesc = fmt.Sprintf("output %s is an input of the two finalized transactions %d and %d", k, other, id)
				return
			}
			spentBy[k] = id
		}
	}
	for _, a := range c.assets {
		s := sup[a]
		switch {
		case s.total.Cmp(s.unspent) != 0:
			res.PropKey = "C17:total-differs-from-unspent-outputs"
			res.PropDesc = fmt.Sprintf("asset %d: recorded total %s, sum of outputs not consumed by a finalized transaction %s", a, s.total, s.unspent)
		case s.total.Cmp(c.expected[a]) != 0:
			res.PropKey = "C17:total-differs-from-history"
			res.PropDesc = fmt.Sprintf("asset %d: recorded total %s, genesis+deposits+mints-withdrawals over the finalized history %s", a, s.total, c.expected[a])
		case s.total.Cmp(c15Cap(a)) > 0:
			res.PropKey = "C17:total-above-capacity"
			res.PropDesc = fmt.Sprintf("asset %d: recorded total %s above capacity %s", a, s.total, c15Cap(a))
		}
		if res.PropKey != "" {
			return
		}
	}
}

type c15Snap struct {
	sid, topo int
	nodeID    crypto.Hash
	snap      *common.Snapshot
	txs       []int // members in the order the real code finalizes them (hash order)
	signers   []crypto.Hash
}

// build the real snapshot of a `snap`-shaped line (fields 1..7) and rewrite field 7 to the real order
func (c *c15LedgerCase) buildSnap(f []string) *c15Snap {
	sid, node, round, ts, topo, sg := c15Atoi(f[1]), c15Atoi(f[2]), c15Atoi(f[3]), c15Atoi(f[4]), c15Atoi(f[5]), c15Atoi(f[6])
	ids := c15Split(f[7], ",")
	nodeID := c.nodes[node-1]
	snap := &common.Snapshot{Version: common.SnapshotVersionCommonEncoding, NodeId: nodeID, RoundNumber: uint64(round),
		Timestamp: c.epoch + uint64(ts)}
	if r, err := c.store.ReadRound(nodeID); err == nil && r != nil && round > 0 {
		snap.References = r.References
	}
	for _, s := range ids {
		tx := c.txByID[c15Atoi(s)]
		if tx == nil {
			panic("harness: snapshot refers to an undeclared transaction")
		}
		snap.AddTransaction(tx.PayloadHash())
	}
	snap.Hash = snap.PayloadHash()
	// EncodeSnapshotPayload sorts snap.Transactions in place by hash: that is the order in which
	// writeSnapshot finalizes the members. The model is told the real order (an oracle input).
	var txs []int
	var sorted []string
	for _, h := range snap.Transactions {
		txs = append(txs, c.txID[h])
		sorted = append(sorted, strconv.Itoa(c.txID[h]))
	}
	f[7] = strings.Join(sorted, ",")
	if old, ok := c.snapID[snap.Hash]; ok && old != sid {
		panic("harness: two snapshot symbols for one hash")
	}
	c.snapID[snap.Hash] = sid
	if sg > len(c.nodes) {
		sg = len(c.nodes)
	}
	var signers []crypto.Hash
	for i := 0; i < sg; i++ {
		signers = append(signers, c.nodes[i])
	}
	if sg > 0 {
		snap.Signature = &crypto.CosiSignature{Mask: uint64(1)<<uint(sg) - 1}
	}
	return &c15Snap{sid: sid, topo: topo, nodeID: nodeID, snap: snap, txs: txs, signers: signers}
}

func (c *c15LedgerCase) execSnap(f []string, prop string, res *Result) {
	b := c.buildSnap(f)
	res.LeanIn = strings.Join(f, " ")
	c.finalize(b, prop, res, false)
}

// write a snapshot (directly, or through the node's TopoWrite) and evaluate the three property oracles
func (c *c15LedgerCase) finalize(b *c15Snap, prop string, res *Result, viaNode bool) {
	snap, txs, nodeID, topo, signers := b.snap, b.txs, b.nodeID, b.topo, b.signers
	before := c.raw()
	// premise of C16, evaluated on the state before the write
	premise := true
	for _, id := range txs {
		if _, ok := before.get(append(append([]byte("UNIQUE"), c.hashOf(id)...), nodeID[:]...)); ok {
			// batch rule: a node includes a transaction once. When the node's own validation of a
			// proposal accepted this snapshot it has vouched for that rule as well (a transaction finalized
			// in another snapshot must be refused at signing); the caller is to blame only otherwise.
			if !c.kvalid[snap.Hash] || c.kvalidFin[snap.Hash] {
				premise = false
			}
		}
		if _, fin := before.get(append([]byte("FINALIZATION"), c.hashOf(id)...)); fin {
			continue
		}
		premise = premise && (c.pending[id] || c.kvalid[snap.Hash])
	}
	if _, ok := before.get(binary.BigEndian.AppendUint64([]byte("TOPOLOGY"), uint64(topo))); ok {
		premise = false
	}
	if _, ok := before.get(append([]byte("SNAPTOPO"), snap.Hash[:]...)); ok {
		premise = false
	}
	out, panicked, msg := Catch(func() string {
		if viaNode {
			c.node.VerifC16TopoWriteAt(snap, signers, uint64(topo))
			return "ok"
		}
		if err := c.store.WriteSnapshot(&common.SnapshotWithTopologicalOrder{Snapshot: snap, TopologicalOrder: uint64(topo)}, signers); err != nil {
			return "err"
		}
		return "ok"
	})
	_ = panicked
	if viaNode && out != "ok" {
		out = "crash" // TopoWrite panics on an error as well
	}
	after := c.raw()
	res.Out = out
	res.Tags = append(res.Tags, "snap:"+out, fmt.Sprintf("snap-size:%d", len(txs)))
	res.Nontrivial = true

	// ---- C15, on the raw database
	shared := 0
	if out != "ok" {
		if !before.equal(after) && prop == "C15" {
			res.PropKey, res.PropDesc = "C15:partial-write", "WriteSnapshot failed ("+out+") but the database changed"
		}
		res.Tags = append(res.Tags, "snap-fail-atomic")
	} else {
		for _, id := range txs {
			h := c.hashOf(id)
			fk := append([]byte("FINALIZATION"), h...)
			old, was := before.get(fk)
			now, is := after.get(fk)
			if !is && prop == "C15" {
				res.PropKey, res.PropDesc = "C15:missing-effect", fmt.Sprintf("snapshot written but transaction %d has no finalization record", id)
			}
			if !was && prop == "C15" {
				// all effects: every materialised output of a newly finalized member exists, unlocked, with
				// its ghost keys bound to the member
				tx := c.txByID[id]
				for _, u := range tx.UnspentOutputs() {
					buf := make([]byte, binary.MaxVarintLen64)
					n := binary.PutVarint(buf, int64(u.Index))
					uk := append(append([]byte("UTXO"), h...), buf[:n]...)
					if _, ok := after.get(uk); !ok {
						res.PropKey = "C15:missing-output"
						res.PropDesc = fmt.Sprintf("snapshot written, transaction %d finalized, but its output %d is not in the UTXO family", id, u.Index)
					}
					for _, k := range u.Keys {
						if v, ok := after.get(append([]byte("GHOST"), k[:]...)); !ok || !bytes.Equal(v, h) {
							res.PropKey = "C15:missing-output"
							res.PropDesc = fmt.Sprintf("snapshot written, transaction %d finalized, but a ghost key of output %d is not bound to it", id, u.Index)
						}
					}
				}
			}
			if was {
				shared++
				if !bytes.Equal(old, now) && prop == "C15" {
					res.PropKey, res.PropDesc = "C15:finalization-overwritten", fmt.Sprintf("transaction %d: first finalization record replaced", id)
				}
				// outputs of an already finalized transaction must not be written again
				for i, k := range before.keys {
					if c15Family(k) == "UTXO" && bytes.HasPrefix(k[4:], h) {
						if v, ok := after.get(k); (!ok || !bytes.Equal(v, before.vals[i])) && prop == "C15" {
							res.PropKey, res.PropDesc = "C15:refinalized-outputs", fmt.Sprintf("transaction %d: outputs rewritten by a later snapshot", id)
						}
					}
				}
			}
		}
		// every FINALIZATION that existed keeps its value
		for i, k := range before.keys {
			if c15Family(k) == "FINALIZATION" {
				if v, ok := after.get(k); (!ok || !bytes.Equal(v, before.vals[i])) && prop == "C15" {
					res.PropKey, res.PropDesc = "C15:finalization-overwritten", "an existing finalization record changed"
				}
			}
		}
		if shared > 0 {
			res.Tags = append(res.Tags, "snap-shared-tx")
			// totals: a snapshot made only of already finalized transactions changes no total and no UTXO
			if shared == len(txs) && prop == "C15" {
				for i, k := range before.keys {
					fam := c15Family(k)
					if fam == "ASSETTOTAL" || fam == "UTXO" || fam == "GHOST" || fam == "ASSETINFO" || fam == "WITHDRAWAL" {
						if v, ok := after.get(k); !ok || !bytes.Equal(v, before.vals[i]) {
							res.PropKey, res.PropDesc = "C15:effects-applied-twice", "re-finalizing finalized transactions changed "+fam
						}
					}
				}
			}
		}
		// C17 bookkeeping: newly finalized transactions, from the real objects
		for _, id := range txs {
			if c.finalTx[id] {
				continue
			}
			c.finalTx[id] = true
			if !c.pending[id] {
				c.tainted = true
			}
			tx := c.txByID[id]
			a := c.assetID[tx.Asset]
			if c.expected[a] == nil {
				c.expected[a] = new(big.Int)
			}
			switch tx.TransactionType() {
			case common.TransactionTypeDeposit:
				c.expected[a].Add(c.expected[a], integerToBig(tx.Inputs[0].Deposit.Amount))
			case common.TransactionTypeMint:
				c.expected[a].Add(c.expected[a], integerToBig(tx.Inputs[0].Mint.Amount))
			case common.TransactionTypeWithdrawalSubmit:
				for _, o := range tx.Outputs {
					if o.Type == common.OutputTypeWithdrawalSubmit {
						c.expected[a].Sub(c.expected[a], integerToBig(o.Amount))
					}
				}
			}
		}
	}

	// ---- C16: everything validated, locked and persisted, batch rules met, and the write failed
	if premise {
		res.Tags = append(res.Tags, "snap-premise-c16")
	}
	if premise && out != "ok" && prop == "C16" {
		res.PropKey, res.PropDesc = c.classifyC16(txs, before, out, msg)
	}
}

func (c *c15LedgerCase) hashOf(id int) []byte {
	h := c.txByID[id].PayloadHash()
	return h[:]
}

// name the reason a validated batch failed to finalize (stable keys; anything unexplained
// gets its own key and is a violation)
func (c *c15LedgerCase) classifyC16(txs []int, before *c15RawDB, out, msg string) (string, string) {
	type agg struct {
		sum   *big.Int
		n     int
		infos map[string]bool
	}
	per := map[int]*agg{}
	for _, id := range txs {
		tx := c.txByID[id]
		if _, fin := before.get(append([]byte("FINALIZATION"), c.hashOf(id)...)); fin {
			continue
		}
		if tx.TransactionType() != common.TransactionTypeDeposit && tx.TransactionType() != common.TransactionTypeMint {
			continue
		}
		a := c.assetID[tx.Asset]
		if per[a] == nil {
			per[a] = &agg{sum: new(big.Int), infos: map[string]bool{}}
		}
		if d := tx.Inputs[0].Deposit; d != nil {
			// the known findings are about deposits that verifyDepositData really accepted: on the state it
			// was validated on the asset was unseen, or stored total + amount was below the capacity.
			// A deposit finalized without such a validation on record is not one of them.
			vt, ok := c.valTotal[id]
			if !ok || (c.valSeen[id] && new(big.Int).Add(vt, integerToBig(d.Amount)).Cmp(c15Cap(a)) >= 0) {
				return "C16:validated-batch-failed", fmt.Sprintf("the node accepted deposit %d although its own deposit check refuses it on the state it was presented on; WriteSnapshot -> %s %s", id, out, msg)
			}
			per[a].sum.Add(per[a].sum, integerToBig(d.Amount))
			per[a].infos[d.Chain.String()+"/"+d.AssetKey] = true
		} else {
			per[a].sum.Add(per[a].sum, integerToBig(tx.Inputs[0].Mint.Amount))
		}
		per[a].n++
	}
	for a, g := range per {
		h := c.assetOf[a]
		total := new(big.Int)
		if v, ok := before.get(append([]byte("ASSETTOTAL"), h[:]...)); ok {
			total = integerToBig(common.NewIntegerFromString(string(v)))
		}
		iv, seen := before.get(append([]byte("ASSETINFO"), h[:]...))
		if seen {
			var old common.Asset
			_ = json.Unmarshal(iv, &old)
			g.infos[old.Chain.String()+"/"+old.AssetKey] = true
		}
		if len(g.infos) > 1 {
			return "C16:pending-first-deposits-conflicting-asset-info",
				fmt.Sprintf("validated pending deposits of asset %d carry different (chain, asset key); WriteSnapshot -> %s", a, out)
		}
		if new(big.Int).Add(total, g.sum).Cmp(c15Cap(a)) > 0 {
			if !seen && g.n == 1 {
				return "C16:first-deposit-of-unseen-asset-above-capacity",
					fmt.Sprintf("validated first deposit of asset %d (%s) above the capacity %s; WriteSnapshot -> %s %s", a, g.sum, c15Cap(a), out, msg)
			}
			return "C16:pending-deposits-exceed-capacity",
				fmt.Sprintf("validated pending deposits/mints of asset %d: total %s + %s > capacity %s; WriteSnapshot -> %s %s", a, total, g.sum, c15Cap(a), out, msg)
		}
	}
	return "C16:validated-batch-failed", fmt.Sprintf("every member validated, locked and persisted, WriteSnapshot -> %s %s", out, msg)
}

// what the known C16 findings are made of: the stored total and the presence of asset info at the
// moment the real Validate accepted a deposit
func (c *c15LedgerCase) recordValidation(id int) {
	tx := c.txByID[id]
	if tx.TransactionType() != common.TransactionTypeDeposit {
		return
	}
	info, bal, err := c.store.ReadAssetWithBalance(tx.Asset)
	if err != nil {
		panic(err)
	}
	c.valTotal[id] = integerToBig(bal)
	c.valSeen[id] = info != nil
}

// the node's own validateSnapshotTransaction on a snapshot whose members are in the cache store
func (c *c15LedgerCase) execKValidate(f []string, res *Result) {
	finalized := f[8] == "1"
	b := c.buildSnap(f)
	res.LeanIn = strings.Join(f, " ")
	before := c.raw()
	stored := map[int]bool{}
	for _, id := range b.txs {
		if err := c.store.CacheStoreTransaction(c.txByID[id]); err != nil {
			panic(err)
		}
		_, stored[id] = before.get(append([]byte("TRANSACTION"), c.hashOf(id)...))
	}
	out, _, _ := Catch(func() string {
		found, missing, err := c.node.VerifC16ValidateSnapshotTransaction(b.snap, finalized)
		if err != nil {
			return "reject"
		}
		if missing != 0 || found != len(b.txs) {
			panic("harness: cached transaction reported missing")
		}
		return "ok"
	})
	res.Out = out
	res.Tags = append(res.Tags, "kvalidate:"+out, "kvalidate-fin:"+f[8])
	res.Nontrivial = true
	after := c.raw()
	if out == "ok" {
		c.kvalid[b.snap.Hash] = true
		c.kvalidFin[b.snap.Hash] = finalized
		for _, id := range b.txs {
			if c.finalTx[id] {
				continue
			}
			c.pending[id] = true
			if !stored[id] {
				res.Tags = append(res.Tags, "kvalidate-path:cached")
				// accepted through Validate just now; the facts are those of the state it was validated on
				// (approximated by the state before the call: earlier members only add locks and bodies)
				c.recordValidationAt(id, before)
			} else {
				res.Tags = append(res.Tags, "kvalidate-path:persisted")
			}
		}
	}
	// a transaction displaced by a fork lock must be gone from the store (C17: the kernel trusts what it
	// finds there)
	for i, k := range before.keys {
		if c15Family(k) != "UTXO" {
			continue
		}
		ub, err1 := common.UnmarshalUTXO(before.vals[i])
		v, ok := after.get(k)
		if err1 != nil || !ok {
			continue
		}
		ua, err2 := common.UnmarshalUTXO(v)
		if err2 != nil || !ub.LockHash.HasValue() || ua.LockHash == ub.LockHash {
			continue
		}
		if _, still := after.get(append([]byte("TRANSACTION"), ub.LockHash[:]...)); still {
			res.PropKey = "C17:displaced-transaction-still-persisted"
			res.PropDesc = fmt.Sprintf("input %s:%d was taken over from transaction %s by a fork lock, but that transaction is still in the TRANSACTION family",
				c.txSym(ub.Hash), ub.Index, c.txSym(ub.LockHash))
		}
	}
}

func (c *c15LedgerCase) recordValidationAt(id int, db *c15RawDB) {
	tx := c.txByID[id]
	if tx.TransactionType() != common.TransactionTypeDeposit {
		return
	}
	total := new(big.Int)
	if v, ok := db.get(append([]byte("ASSETTOTAL"), tx.Asset[:]...)); ok {
		total = integerToBig(common.NewIntegerFromString(string(v)))
	}
	_, seen := db.get(append([]byte("ASSETINFO"), tx.Asset[:]...))
	c.valTotal[id], c.valSeen[id] = total, seen
}

// `csnap n <7 snapshot fields> x n`: n goroutines call WriteSnapshot while a writer holds the store mutex,
// so all of them are queued when it is released. The order in which they committed is read from the
// Badger versions of their topology keys; the model is given the snapshots in that order.
func (c *c15LedgerCase) execConcurrent(f []string, prop string, res *Result) {
	n := c15Atoi(f[1])
	var snaps []*c15Snap
	var fields [][]string
	for i := 0; i < n; i++ {
		g := append([]string{"snap"}, f[2+7*i:2+7*(i+1)]...)
		snaps = append(snaps, c.buildSnap(g))
		fields = append(fields, g[1:])
	}
	before := c.raw()
	outs := make([]string, n)
	var wg sync.WaitGroup
	c.store.VerifC15WithMutex(func() {
		for i := range snaps {
			wg.Add(1)
			go func(i int) {
				defer wg.Done()
				b := snaps[i]
				outs[i], _, _ = Catch(func() string {
					err := c.store.WriteSnapshot(&common.SnapshotWithTopologicalOrder{Snapshot: b.snap, TopologicalOrder: uint64(b.topo)}, b.signers)
					if err != nil {
						return "err"
					}
					return "ok"
				})
			}(i)
			time.Sleep(3 * time.Millisecond) // queue them one after the other
		}
		time.Sleep(25 * time.Millisecond) // everybody is waiting (for the mutex, or with a transaction already open)
	})
	wg.Wait()
	after := c.raw()
	vers, err := c.store.VerifC15KeyVersions()
	if err != nil {
		panic(err)
	}
	// commit order
	order := make([]int, n)
	for i := range order {
		order[i] = i
	}
	ver := func(i int) uint64 {
		if outs[i] != "ok" {
			return ^uint64(0)
		}
		return vers[string(append([]byte("SNAPTOPO"), snaps[i].snap.Hash[:]...))]
	}
	sort.SliceStable(order, func(a, b int) bool { return ver(order[a]) < ver(order[b]) })
	lean := []string{"csnap", f[1]}
	var results []string
	for _, i := range order {
		lean = append(lean, fields[i]...)
		results = append(results, outs[i])
	}
	res.LeanIn = strings.Join(lean, " ")
	res.Out = strings.Join(results, " ")
	res.Tags = append(res.Tags, "csnap", fmt.Sprintf("csnap-n:%d", n))
	res.Nontrivial = true

	// bookkeeping and oracles, in commit order
	firstBy := map[int]int{} // transaction -> index of the first committed snapshot that contains it
	delta := map[int]*big.Int{}
	for _, i := range order {
		if outs[i] != "ok" {
			continue
		}
		for _, id := range snaps[i].txs {
			if _, ok := firstBy[id]; ok {
				continue
			}
			firstBy[id] = i
			if c.finalTx[id] {
				continue
			}
			c.finalTx[id] = true
			if !c.pending[id] {
				c.tainted = true
			}
			tx := c.txByID[id]
			a := c.assetID[tx.Asset]
			if delta[a] == nil {
				delta[a] = new(big.Int)
			}
			switch tx.TransactionType() {
			case common.TransactionTypeDeposit:
				delta[a].Add(delta[a], integerToBig(tx.Inputs[0].Deposit.Amount))
			case common.TransactionTypeMint:
				delta[a].Add(delta[a], integerToBig(tx.Inputs[0].Mint.Amount))
			case common.TransactionTypeWithdrawalSubmit:
				for _, o := range tx.Outputs {
					if o.Type == common.OutputTypeWithdrawalSubmit {
						delta[a].Sub(delta[a], integerToBig(o.Amount))
					}
				}
			}
		}
	}
	for a, d := range delta {
		if c.expected[a] == nil {
			c.expected[a] = new(big.Int)
		}
		c.expected[a].Add(c.expected[a], d)
	}
	if prop != "C15" {
		return
	}
	for id, i := range firstBy {
		h := c.hashOf(id)
		fk := append([]byte("FINALIZATION"), h...)
		want := snaps[i].snap.Hash
		if old, was := before.get(fk); was {
			want = c15Hash(old)
		}
		now, is := after.get(fk)
		if !is || c15Hash(now) != want {
			res.PropKey = "C15:finalization-overwritten"
			res.PropDesc = fmt.Sprintf("queued snapshots sharing transaction %d: its finalization record is not the first snapshot that committed (%s)", id, c15SymOf(c.snapID, want))
		}
	}
	read := func(db *c15RawDB, a int) *big.Int {
		h := c.assetOf[a]
		if v, ok := db.get(append([]byte("ASSETTOTAL"), h[:]...)); ok {
			return integerToBig(common.NewIntegerFromString(string(v)))
		}
		return new(big.Int)
	}
	for a, d := range delta {
		if got := new(big.Int).Sub(read(after, a), read(before, a)); got.Cmp(d) != 0 && res.PropKey == "" {
			res.PropKey = "C15:effects-applied-twice"
			res.PropDesc = fmt.Sprintf("queued snapshots: total of asset %d moved by %s, the distinct transactions they finalized account for %s", a, got, d)
		}
	}
}
