package main

// C20, storage half — the Badger transactions storage.StartNewRound / UpdateEmptyHeadRound of a
// real BadgerStore driven directly (no kernel), also with arguments the kernel never passes
// (number 0, wrong numbers, unknown / own / zero references, an existing self hash), against
// storeStartNewRound / storeUpdateEmptyHead of lean/Mixin/Model/Graph.lean; observed through
// ReadRound and ReadLink.
//
//	reset ; ids
//	start <node> <number> <self> <ext> <finalStart>      node: n<k>   hash: h<k> | n<k> | z | @self | @ext (of the node's head)
//	empty <node> <number> <self> <ext>                   number: literal | next | same
//
// Property mode: StartNewRound itself never lowers a link (its own assert) — C20:store-link-decreased.

import (
	"fmt"
	"os"
	"strconv"
	"strings"

	"github.com/MixinNetwork/mixin/common"
	"github.com/MixinNetwork/mixin/config"
	"github.com/MixinNetwork/mixin/crypto"
	"github.com/MixinNetwork/mixin/storage"
)

type gsState struct {
	store *storage.BadgerStore
	ids   []crypto.Hash
}

var gsPrev *gsState

const gsNodes = 4

func gsNode(k int) crypto.Hash { return crypto.Blake3Hash([]byte(fmt.Sprintf("c20-gs-node-%d", k))) }
func gsHash(k int) crypto.Hash { return crypto.Blake3Hash([]byte(fmt.Sprintf("c20-gs-hash-%d", k))) }

func gsSetup(st *State) *gsState {
	if gsPrev != nil && gsPrev.store != nil {
		gsPrev.store.Close()
		gsPrev.store = nil
	}
	c20Counter++
	dir := c20ScratchDir(st)
	cfg := fmt.Sprintf("[node]\nsigner-key = \"%s\"\nconsensus-only = true\nmemory-cache-size = 16\ncache-ttl = 7200\nring-cache-size = 4096\nring-final-size = 16384\n[network]\nlistener = \"mixin-node.example.com:7239\"\n",
		c20Addr("s0").PrivateSpendKey.String())
	if err := os.WriteFile(dir+"/config.toml", []byte(cfg), 0o644); err != nil {
		panic(err)
	}
	custom, err := config.Initialize(dir + "/config.toml")
	if err != nil {
		panic("harness: graphstore setup: " + err.Error())
	}
	store, err := storage.NewBadgerStore(custom, dir)
	if err != nil {
		panic("harness: graphstore setup: " + err.Error())
	}
	gs := &gsState{store: store}
	for k := 0; k < gsNodes; k++ {
		gs.ids = append(gs.ids, gsNode(k))
	}
	st.V["gs"] = gs
	gsPrev = gs
	return gs
}

func gsShowRound(gs *gsState, k crypto.Hash) string {
	out, _, _ := Catch(func() string {
		r, err := gs.store.ReadRound(k)
		if err != nil {
			panic(err)
		}
		if r == nil {
			return "-"
		}
		if r.References == nil {
			return fmt.Sprintf("%d/%d/%s/%s/-/-", r.Number, r.Timestamp, c20Dec(r.NodeId), c20Dec(r.Hash))
		}
		return fmt.Sprintf("%d/%d/%s/%s/%s/%s", r.Number, r.Timestamp, c20Dec(r.NodeId), c20Dec(r.Hash),
			c20Dec(r.References.Self), c20Dec(r.References.External))
	})
	if out == "panic" {
		return "!"
	}
	return out
}

func gsLinks(gs *gsState, node crypto.Hash) []uint64 {
	ls := make([]uint64, len(gs.ids))
	for i, id := range gs.ids {
		l, err := gs.store.ReadLink(node, id)
		if err != nil {
			panic(err)
		}
		ls[i] = l
	}
	return ls
}

func gsDump(gs *gsState, node, self crypto.Hash) string {
	s := fmt.Sprintf("N %s S %s L", gsShowRound(gs, node), gsShowRound(gs, self))
	for _, l := range gsLinks(gs, node) {
		s += fmt.Sprintf(" %d", l)
	}
	return s
}

// head of a node, nil when absent or unreadable
func gsHead(gs *gsState, node crypto.Hash) (r *common.Round) {
	defer func() {
		if recover() != nil {
			r = nil
		}
	}()
	r, _ = gs.store.ReadRound(node)
	return r
}

func gsResolveHash(gs *gsState, tok string, node crypto.Hash) (crypto.Hash, bool) {
	var h crypto.Hash
	switch {
	case len(tok) == 64:
		b := UnHex(tok)
		copy(h[:], b)
		return h, true
	case tok == "z":
		return h, true
	case tok == "@self" || tok == "@ext":
		if r := gsHead(gs, node); r != nil && r.References != nil {
			if tok == "@self" {
				return r.References.Self, true
			}
			return r.References.External, true
		}
		return gsHash(99), true
	case len(tok) >= 2 && (tok[0] == 'h' || tok[0] == 'n'):
		k, err := strconv.Atoi(tok[1:])
		if err != nil {
			return h, false
		}
		if tok[0] == 'h' {
			return gsHash(k), true
		}
		return gsNode(k), true
	}
	return h, false
}

func gsExec(st *State, line string) Result {
	f := strings.Fields(line)
	if len(f) == 0 {
		return Result{Out: "bad-op"}
	}
	if f[0] == "reset" {
		if len(f) != 1 {
			return Result{Out: "bad-op"}
		}
		gsSetup(st)
		return Result{Out: "ok"}
	}
	gs, _ := st.V["gs"].(*gsState)
	if gs == nil {
		return Result{Out: "bad-op"}
	}
	if f[0] == "ids" {
		l := fmt.Sprintf("ids %d", len(gs.ids))
		for _, id := range gs.ids {
			l += " " + Hex(id[:])
		}
		return Result{Out: "ok", LeanIn: l}
	}
	isStart := f[0] == "start"
	if !(isStart && len(f) == 6) && !(f[0] == "empty" && len(f) == 5) {
		return Result{Out: "bad-op"}
	}
	node, ok := gsResolveHash(gs, f[1], crypto.Hash{})
	if !ok {
		return Result{Out: "bad-op"}
	}
	var number uint64
	head := gsHead(gs, node)
	switch f[2] {
	case "next":
		if head != nil {
			number = head.Number + 1
		}
	case "same":
		if head != nil {
			number = head.Number
		}
	default:
		n, err := strconv.ParseUint(f[2], 10, 64)
		if err != nil {
			return Result{Out: "bad-op"}
		}
		number = n
	}
	self, ok1 := gsResolveHash(gs, f[3], node)
	ext, ok2 := gsResolveHash(gs, f[4], node)
	if !ok1 || !ok2 {
		return Result{Out: "bad-op"}
	}
	refs := &common.RoundLink{Self: self, External: ext}
	before := gsLinks(gs, node)
	res := Result{Nontrivial: true}
	var fs uint64
	if isStart {
		v, err := strconv.ParseUint(f[5], 10, 64)
		if err != nil {
			return Result{Out: "bad-op"}
		}
		fs = v
		res.LeanIn = fmt.Sprintf("start %s %d %s %s %d", Hex(node[:]), number, Hex(self[:]), Hex(ext[:]), fs)
	} else {
		res.LeanIn = fmt.Sprintf("empty %s %d %s %s", Hex(node[:]), number, Hex(self[:]), Hex(ext[:]))
	}
	out, _, _ := Catch(func() string {
		var err error
		if isStart {
			err = gs.store.StartNewRound(node, number, refs, fs)
		} else {
			err = gs.store.UpdateEmptyHeadRound(node, number, refs)
		}
		if err != nil {
			panic(err)
		}
		return "ok"
	})
	res.Out = out + " " + gsDump(gs, node, self)
	cls := "n>0"
	if number == 0 {
		cls = "n=0"
	}
	res.Tags = []string{fmt.Sprintf("%s(%s):%s", f[0], cls, out)}
	if isStart && out == "ok" {
		for i, l := range gsLinks(gs, node) {
			if l < before[i] {
				res.PropKey, res.PropDesc = "C20:store-link-decreased", fmt.Sprintf("StartNewRound lowered a link from %d to %d", before[i], l)
			}
		}
	}
	return res
}

func gsGen(r *Rand, i int, tier string) []string {
	lines := []string{"reset", "ids"}
	// heads for some nodes (round 0 has no asserts), closed rounds appear as the rounds advance
	nn := r.Range(2, gsNodes)
	for k := 0; k < nn; k++ {
		lines = append(lines, fmt.Sprintf("start n%d 0 h%d h%d 0", k, 90+k, 80+r.Intn(4)))
	}
	fresh := 0
	hashTok := func() string {
		switch r.Intn(10) {
		case 0:
			return "z"
		case 1:
			return fmt.Sprintf("n%d", r.Intn(gsNodes))
		case 2:
			return "@self"
		case 3:
			return "@ext"
		case 4, 5:
			return fmt.Sprintf("h%d", r.Intn(8)) // possibly an existing closed round
		default:
			fresh++
			return fmt.Sprintf("h%d", 100+fresh)
		}
	}
	extTok := func() string {
		switch r.Intn(10) {
		case 0:
			return "z"
		case 1, 2:
			return fmt.Sprintf("n%d", r.Intn(gsNodes))
		case 3:
			return "@ext"
		case 4:
			return fmt.Sprintf("h%d", 200+r.Intn(3)) // unknown
		default:
			return fmt.Sprintf("h%d", 100+r.Intn(fresh+1)) // mostly some earlier closed round
		}
	}
	for n := r.Range(10, 30); n > 0; n-- {
		node := fmt.Sprintf("n%d", r.Intn(gsNodes))
		num := Pick(r, []string{"next", "next", "next", "next", "next", "next", "same", "0", "1", "7"})
		if r.Chance(2, 3) {
			self := hashTok()
			if r.Chance(2, 3) {
				fresh++
				self = fmt.Sprintf("h%d", 100+fresh)
			}
			lines = append(lines, fmt.Sprintf("start %s %s %s %s %d", node, num, self, extTok(), r.Intn(1000)))
		} else {
			if num == "next" {
				num = "same"
			}
			self := "@self"
			if r.Chance(1, 5) {
				self = hashTok()
			}
			lines = append(lines, fmt.Sprintf("empty %s %s %s %s", node, num, self, extTok()))
		}
	}
	return lines
}

func init() {
	Register(&Subsystem{
		Name: "graphstore",
		Rule: "case = one fresh BadgerStore: round-0 heads for 2..4 nodes, then 10..30 StartNewRound / UpdateEmptyHeadRound calls with next/same/literal numbers and self/external references drawn from fresh hashes, earlier closed rounds, node ids, the head's own references, unknown hashes and zero; non-trivial = every call",
		Gen:  gsGen,
		Exec: gsExec,
		Corpus: [][]string{
			{"reset", "ids", "start n0 0 h90 h80 0", "start n1 0 h91 h80 0", "start n0 next h101 n1 5", "start n1 next h102 h101 6",
				"start n0 next h103 h102 7", "start n0 next h104 h101 8", "empty n0 same @self h102", "empty n0 same @self n0",
				"start n0 next z h102 9", "start n1 next h105 z 3", "start n0 next h102 h102 1", "empty n2 0 h1 h101"},
		},
	})
}
