package main

// Fact extractor: the regenerated half of the tie between the Lean development and the
// source tree. It parses the repository with go/ast (no type checking, no execution) and
// emits lean/Mixin/Facts/Generated.lean plus facts.json:
//
//   * every top-level constant of the listed packages whose value is computable from
//     literals, iota, other constants and time.* units           (def <pkg>_<Name> : Int/String)
//   * for the functions named in facts_wanted.txt:
//       lock   F   first statement takes a mutex and the unlock is deferred (def …_lock : String)
//       calls  F   sorted multiset of method / function names called in the body (List String)
//       switch F   the case table of the first switch statement: labels ↦ returned expression
//       src    F   the body, printed by go/printer with comments dropped (String)
//       args   F   every call of the body with its argument expressions (List (String × List String))
//       casebody F like switch, with the printed body of every clause instead of its return expression
//
// The output is compared inside Lean with hand-written expectations (Facts/Expected*.lean)
// by `decide`/`rfl`, so a changed constant relation, case table or lock skeleton breaks the
// Lean build of the properties that depend on it.

import (
	"bytes"
	"encoding/json"
	"flag"
	"fmt"
	"go/ast"
	"go/parser"
	"go/printer"
	"go/token"
	"math/big"
	"os"
	"path/filepath"
	"sort"
	"strconv"
	"strings"
)

var extractPkgs = []string{"common", "config", "crypto", "kernel", "p2p", "storage", "kernel/internal/clock", "util/base58"}

type constVal struct {
	isStr bool
	s     string
	n     *big.Int
}

type pkgInfo struct {
	name  string
	files []*ast.File
	// const name -> (spec expr, iota, file) for lazy evaluation
	consts map[string]*constDecl
	funcs  map[string]*ast.FuncDecl // "Recv.Name" or "Name"
	vars   map[string]bool          // names declared by top-level `var`
}

type constDecl struct {
	expr ast.Expr
	iota int
	val  *constVal
	busy bool
	done bool
}

var timeUnits = map[string]int64{"Nanosecond": 1, "Microsecond": 1e3, "Millisecond": 1e6, "Second": 1e9, "Minute": 60e9, "Hour": 3600e9}

func extractMain(args []string) {
	fs := flag.NewFlagSet("extract", flag.ExitOnError)
	repo := fs.String("repo", "/repo", "source tree")
	out := fs.String("out", "Generated.lean", "Lean output")
	jsonOut := fs.String("json", "", "JSON output")
	wanted := fs.String("wanted", "", "facts_wanted.txt")
	_ = fs.Parse(args)

	fset := token.NewFileSet()
	pkgs := map[string]*pkgInfo{}
	for _, p := range extractPkgs {
		dir := filepath.Join(*repo, p)
		ents, err := os.ReadDir(dir)
		if err != nil {
			continue
		}
		pi := &pkgInfo{name: strings.ReplaceAll(p, "/", "_"), consts: map[string]*constDecl{}, funcs: map[string]*ast.FuncDecl{}, vars: map[string]bool{}}
		for _, e := range ents {
			n := e.Name()
			if e.IsDir() || !strings.HasSuffix(n, ".go") || strings.HasSuffix(n, "_test.go") {
				continue
			}
			src, err := os.ReadFile(filepath.Join(dir, n))
			if err != nil {
				continue
			}
			if bytes.Contains(src, []byte("//go:build verif")) {
				continue
			}
			f, err := parser.ParseFile(fset, filepath.Join(dir, n), src, parser.SkipObjectResolution)
			if err != nil {
				fmt.Fprintln(os.Stderr, "extract: parse error", err)
				os.Exit(3)
			}
			pi.files = append(pi.files, f)
			for _, d := range f.Decls {
				switch d := d.(type) {
				case *ast.GenDecl:
					if d.Tok == token.VAR {
						for _, sp := range d.Specs {
							for _, nm := range sp.(*ast.ValueSpec).Names {
								if nm.Name != "_" {
									pi.vars[nm.Name] = true
								}
							}
						}
					}
					if d.Tok != token.CONST {
						continue
					}
					var last ast.Expr
					for i, sp := range d.Specs {
						vs := sp.(*ast.ValueSpec)
						for j, nm := range vs.Names {
							var ex ast.Expr
							if len(vs.Values) > j {
								ex = vs.Values[j]
								if j == 0 {
									last = ex
								}
							} else if len(vs.Values) == 0 {
								ex = last
							}
							if nm.Name != "_" && ex != nil {
								pi.consts[nm.Name] = &constDecl{expr: ex, iota: i}
							}
						}
					}
				case *ast.FuncDecl:
					key := d.Name.Name
					if d.Recv != nil && len(d.Recv.List) > 0 {
						key = recvName(d.Recv.List[0].Type) + "." + key
					}
					pi.funcs[key] = d
				}
			}
		}
		pkgs[p] = pi
	}

	// short package name -> info (config, common, …) for cross-package references
	byShort := map[string]*pkgInfo{}
	for p, pi := range pkgs {
		byShort[filepath.Base(p)] = pi
	}

	var eval func(pi *pkgInfo, e ast.Expr, iota int) *constVal
	lookup := func(pi *pkgInfo, name string) *constVal {
		cd := pi.consts[name]
		if cd == nil || cd.busy {
			return nil
		}
		if !cd.done {
			cd.busy = true
			cd.val = eval(pi, cd.expr, cd.iota)
			cd.busy = false
			cd.done = true
		}
		return cd.val
	}
	eval = func(pi *pkgInfo, e ast.Expr, iota int) *constVal {
		switch e := e.(type) {
		case *ast.BasicLit:
			switch e.Kind {
			case token.INT:
				n, ok := new(big.Int).SetString(strings.ReplaceAll(e.Value, "_", ""), 0)
				if !ok {
					return nil
				}
				return &constVal{n: n}
			case token.STRING:
				s, err := strconv.Unquote(e.Value)
				if err != nil {
					return nil
				}
				return &constVal{isStr: true, s: s}
			case token.CHAR:
				s, _, _, err := strconv.UnquoteChar(e.Value[1:len(e.Value)-1], '\'')
				if err != nil {
					return nil
				}
				return &constVal{n: big.NewInt(int64(s))}
			case token.FLOAT:
				// only integral floats such as 1e9
				f, ok := new(big.Float).SetString(e.Value)
				if !ok {
					return nil
				}
				n, acc := f.Int(nil)
				if acc != big.Exact {
					return nil
				}
				return &constVal{n: n}
			}
		case *ast.Ident:
			if e.Name == "iota" {
				return &constVal{n: big.NewInt(int64(iota))}
			}
			return lookup(pi, e.Name)
		case *ast.ParenExpr:
			return eval(pi, e.X, iota)
		case *ast.SelectorExpr:
			if x, ok := e.X.(*ast.Ident); ok {
				if x.Name == "time" {
					if u, ok := timeUnits[e.Sel.Name]; ok {
						return &constVal{n: big.NewInt(u)}
					}
					return nil
				}
				if x.Name == "math" {
					switch e.Sel.Name {
					case "MaxUint16":
						return &constVal{n: big.NewInt(65535)}
					case "MaxUint32":
						return &constVal{n: big.NewInt(4294967295)}
					case "MaxInt32":
						return &constVal{n: big.NewInt(2147483647)}
					case "MaxUint64":
						return &constVal{n: new(big.Int).SetUint64(^uint64(0))}
					case "MaxInt64":
						return &constVal{n: big.NewInt(1<<63 - 1)}
					}
					return nil
				}
				if op := byShort[x.Name]; op != nil {
					return lookup(op, e.Sel.Name)
				}
			}
		case *ast.CallExpr: // conversions such as uint64(x), time.Duration(x)
			if len(e.Args) == 1 {
				switch f := e.Fun.(type) {
				case *ast.Ident:
					switch f.Name {
					case "int", "int8", "int16", "int32", "int64", "uint", "uint8", "uint16", "uint32", "uint64", "byte":
						return eval(pi, e.Args[0], iota)
					}
				case *ast.SelectorExpr:
					if x, ok := f.X.(*ast.Ident); ok && x.Name == "time" && f.Sel.Name == "Duration" {
						return eval(pi, e.Args[0], iota)
					}
				}
			}
		case *ast.UnaryExpr:
			v := eval(pi, e.X, iota)
			if v == nil || v.isStr {
				return nil
			}
			switch e.Op {
			case token.SUB:
				return &constVal{n: new(big.Int).Neg(v.n)}
			case token.ADD:
				return v
			}
		case *ast.BinaryExpr:
			a, b := eval(pi, e.X, iota), eval(pi, e.Y, iota)
			if a == nil || b == nil {
				return nil
			}
			if a.isStr || b.isStr {
				if a.isStr && b.isStr && e.Op == token.ADD {
					return &constVal{isStr: true, s: a.s + b.s}
				}
				return nil
			}
			r := new(big.Int)
			switch e.Op {
			case token.ADD:
				r.Add(a.n, b.n)
			case token.SUB:
				r.Sub(a.n, b.n)
			case token.MUL:
				r.Mul(a.n, b.n)
			case token.QUO:
				if b.n.Sign() == 0 {
					return nil
				}
				r.Quo(a.n, b.n)
			case token.REM:
				if b.n.Sign() == 0 {
					return nil
				}
				r.Rem(a.n, b.n)
			case token.SHL:
				r.Lsh(a.n, uint(b.n.Uint64()))
			case token.SHR:
				r.Rsh(a.n, uint(b.n.Uint64()))
			case token.OR:
				r.Or(a.n, b.n)
			case token.AND:
				r.And(a.n, b.n)
			case token.XOR:
				r.Xor(a.n, b.n)
			default:
				return nil
			}
			return &constVal{n: r}
		}
		return nil
	}

	var lean strings.Builder
	facts := map[string]any{}
	lean.WriteString("/- GENERATED by `harness extract` from the source tree on every run. Do not edit. -/\nnamespace Mixin.Facts.Gen\n\n")
	var pnames []string
	for p := range pkgs {
		pnames = append(pnames, p)
	}
	sort.Strings(pnames)
	for _, p := range pnames {
		pi := pkgs[p]
		var names []string
		for n := range pi.consts {
			names = append(names, n)
		}
		sort.Strings(names)
		for _, n := range names {
			v := lookup(pi, n)
			if v == nil {
				continue
			}
			id := pi.name + "_" + n
			if v.isStr {
				fmt.Fprintf(&lean, "def %s : String := %s\n", id, leanString(v.s))
				facts[id] = v.s
			} else if v.n.Sign() >= 0 {
				fmt.Fprintf(&lean, "def %s : Nat := %s\n", id, v.n.String())
				facts[id] = v.n.String()
			} else {
				fmt.Fprintf(&lean, "def %s : Int := %s\n", id, v.n.String())
				facts[id] = v.n.String()
			}
		}
	}
	lean.WriteString("\n")
	emitVarFacts(pkgs, pnames, eval, &lean, facts) // extract_vars.go

	if *wanted != "" {
		data, err := os.ReadFile(*wanted)
		if err != nil {
			fmt.Fprintln(os.Stderr, "extract:", err)
			os.Exit(3)
		}
		seen := map[string]bool{}
		for _, line := range strings.Split(string(data), "\n") {
			if i := strings.IndexByte(line, '#'); i >= 0 {
				line = line[:i]
			}
			f := strings.Fields(line)
			if len(f) != 2 || seen[line] {
				continue
			}
			seen[line] = true
			kind, target := f[0], f[1]
			// target: <pkgpath>:<Recv.Name|Name>
			parts := strings.SplitN(target, ":", 2)
			if len(parts) != 2 {
				continue
			}
			pi := pkgs[parts[0]]
			id := strings.NewReplacer("/", "_", ":", "_", ".", "_").Replace(target) + "_" + kind
			var fd *ast.FuncDecl
			if pi != nil {
				fd = pi.funcs[parts[1]]
			}
			if fd == nil || fd.Body == nil {
				// a missing function is a fact too: expectations will not match
				switch kind {
				case "lock", "src", "lockorder":
					fmt.Fprintf(&lean, "def %s : String := \"<missing>\"\n", id)
				case "calls", "globals":
					fmt.Fprintf(&lean, "def %s : List String := [\"<missing>\"]\n", id)
				case "args":
					fmt.Fprintf(&lean, "def %s : List (String × List String) := [(\"<missing>\", [])]\n", id)
				case "litcover":
					fmt.Fprintf(&lean, "def %s : List (String × Bool) := [(\"<missing>\", false)]\n", id)
				case "walk":
					fmt.Fprintf(&lean, "def %s : List (String × String) := [(\"start\", \"<missing>\")]\n", id)
				case "switch", "casebody":
					fmt.Fprintf(&lean, "def %s : List (List String × String) := [([\"<missing>\"], \"\")]\n", id)
				}
				facts[id] = "<missing>"
				continue
			}
			switch kind {
			case "lock":
				v := lockFact(fset, fd)
				fmt.Fprintf(&lean, "def %s : String := %s\n", id, leanString(v))
				facts[id] = v
			case "lockorder":
				v := lockOrderFact(fset, fd)
				fmt.Fprintf(&lean, "def %s : String := %s\n", id, leanString(v))
				facts[id] = v
			case "calls":
				v := callsFact(fd)
				fmt.Fprintf(&lean, "def %s : List String := [%s]\n", id, joinLeanStrings(v))
				facts[id] = v
			case "globals":
				v := globalsFact(fd, pi.vars)
				fmt.Fprintf(&lean, "def %s : List String := [%s]\n", id, joinLeanStrings(v))
				facts[id] = v
			case "switch":
				v := switchFact(fset, fd)
				var rows []string
				for _, r := range v {
					rows = append(rows, fmt.Sprintf("([%s], %s)", joinLeanStrings(r.Labels), leanString(r.Ret)))
				}
				fmt.Fprintf(&lean, "def %s : List (List String × String) := [%s]\n", id, strings.Join(rows, ", "))
				facts[id] = v
			case "casebody":
				// like `switch`, but the second component is the whole clause body (comments dropped)
				v := switchFact(fset, fd)
				bodies := c15CaseBodies(fset, fd)
				var rows []string
				for i, r := range v {
					rows = append(rows, fmt.Sprintf("([%s], %s)", joinLeanStrings(r.Labels), leanString(bodies[i])))
				}
				fmt.Fprintf(&lean, "def %s : List (List String × String) := [%s]\n", id, strings.Join(rows, ", "))
				facts[id] = bodies
			case "litcover":
				v := litcoverFact(fd, pi)
				var rows []string
				for _, r := range v {
					rows = append(rows, fmt.Sprintf("(%s, %v)", leanString(r.Lit), r.Covered))
				}
				fmt.Fprintf(&lean, "def %s : List (String × Bool) := [%s]\n", id, strings.Join(rows, ", "))
				facts[id] = v
			case "walk":
				v := walkFact(fset, fd, pi)
				var rows []string
				for _, r := range v {
					rows = append(rows, fmt.Sprintf("(%s, %s)", leanString(r[0]), leanString(r[1])))
				}
				fmt.Fprintf(&lean, "def %s : List (String × String) := [%s]\n", id, strings.Join(rows, ", "))
				facts[id] = v
			case "args":
				// every call in the body (function literals included): callee name and the
				// argument expressions as printed by go/printer with all white space removed
				v := argsFact(fset, fd)
				var rows []string
				for _, r := range v {
					rows = append(rows, fmt.Sprintf("(%s, [%s])", leanString(r[0]), joinLeanStrings(r[1:])))
				}
				fmt.Fprintf(&lean, "def %s : List (String × List String) := [%s]\n", id, strings.Join(rows, ", "))
				facts[id] = v
			case "src":
				v := srcFact(fset, fd)
				fmt.Fprintf(&lean, "def %s : String := %s\n", id, leanString(v))
				facts[id] = v
			}
		}
	}
	lean.WriteString("\nend Mixin.Facts.Gen\n")
	writeIfChanged(*out, []byte(lean.String()))
	if *jsonOut != "" {
		b, _ := json.MarshalIndent(facts, "", " ")
		writeIfChanged(*jsonOut, b)
	}
}

// writeIfChanged keeps the mtime (and lake's incremental build) stable when nothing changed.
func writeIfChanged(path string, data []byte) {
	old, err := os.ReadFile(path)
	if err == nil && bytes.Equal(old, data) {
		return
	}
	if err := os.WriteFile(path, data, 0o644); err != nil {
		fmt.Fprintln(os.Stderr, "extract:", err)
		os.Exit(3)
	}
}

func recvName(t ast.Expr) string {
	switch t := t.(type) {
	case *ast.StarExpr:
		return recvName(t.X)
	case *ast.Ident:
		return t.Name
	case *ast.IndexExpr:
		return recvName(t.X)
	}
	return "?"
}

// argsFact: one row per call expression of the body, in source order: callee name (last
// selector component) followed by its argument expressions, white space removed.
func argsFact(fset *token.FileSet, fd *ast.FuncDecl) [][]string {
	var rows [][]string
	ast.Inspect(fd.Body, func(n ast.Node) bool {
		call, ok := n.(*ast.CallExpr)
		if !ok {
			return true
		}
		name := ""
		switch f := call.Fun.(type) {
		case *ast.Ident:
			name = f.Name
		case *ast.SelectorExpr:
			name = f.Sel.Name
		default:
			return true
		}
		row := []string{name}
		for _, a := range call.Args {
			row = append(row, strings.ReplaceAll(exprString(fset, a), " ", ""))
		}
		rows = append(rows, row)
		return true
	})
	return rows
}

func exprString(fset *token.FileSet, e ast.Node) string {
	var b bytes.Buffer
	_ = printer.Fprint(&b, fset, e)
	return strings.Join(strings.Fields(b.String()), " ")
}

// lockFact: "<mutex expr>.<Lock|RLock>;defer" when the body starts with X.Lock() and the
// next statement is `defer X.Unlock()`; "<expr>.Lock;nodefer" when not deferred; "none" otherwise.
func lockFact(fset *token.FileSet, fd *ast.FuncDecl) string {
	st := fd.Body.List
	if len(st) == 0 {
		return "none"
	}
	es, ok := st[0].(*ast.ExprStmt)
	if !ok {
		return "none"
	}
	call, ok := es.X.(*ast.CallExpr)
	if !ok {
		return "none"
	}
	sel, ok := call.Fun.(*ast.SelectorExpr)
	if !ok || (sel.Sel.Name != "Lock" && sel.Sel.Name != "RLock") {
		return "none"
	}
	mu := exprString(fset, sel.X)
	res := mu + "." + sel.Sel.Name
	if len(st) > 1 {
		if ds, ok := st[1].(*ast.DeferStmt); ok {
			if s2, ok := ds.Call.Fun.(*ast.SelectorExpr); ok && exprString(fset, s2.X) == mu &&
				(s2.Sel.Name == "Unlock" || s2.Sel.Name == "RUnlock") {
				return res + ";defer"
			}
		}
	}
	return res + ";nodefer"
}

func callsFact(fd *ast.FuncDecl) []string {
	cnt := map[string]int{}
	ast.Inspect(fd.Body, func(n ast.Node) bool {
		if c, ok := n.(*ast.CallExpr); ok {
			switch f := c.Fun.(type) {
			case *ast.Ident:
				cnt[f.Name]++
			case *ast.SelectorExpr:
				cnt[f.Sel.Name]++
			}
		}
		return true
	})
	var out []string
	for k, v := range cnt {
		out = append(out, fmt.Sprintf("%s*%d", k, v))
	}
	sort.Strings(out)
	return out
}

// globalsFact: names of top-level `var`s of the package that the function body mentions
// (shared mutable state a pure computation must not touch). Names the function itself declares
// (parameters, results, :=, var, range) shadow a package variable and are not reported;
// selector fields (x.name) are not identifiers of the package scope.
func globalsFact(fd *ast.FuncDecl, vars map[string]bool) []string {
	local := map[string]bool{}
	addFields := func(fl *ast.FieldList) {
		if fl == nil {
			return
		}
		for _, f := range fl.List {
			for _, n := range f.Names {
				local[n.Name] = true
			}
		}
	}
	addFields(fd.Recv)
	addFields(fd.Type.Params)
	addFields(fd.Type.Results)
	ast.Inspect(fd.Body, func(n ast.Node) bool {
		switch x := n.(type) {
		case *ast.AssignStmt:
			if x.Tok == token.DEFINE {
				for _, l := range x.Lhs {
					if id, ok := l.(*ast.Ident); ok {
						local[id.Name] = true
					}
				}
			}
		case *ast.ValueSpec:
			for _, id := range x.Names {
				local[id.Name] = true
			}
		case *ast.RangeStmt:
			if x.Tok == token.DEFINE {
				for _, e := range []ast.Expr{x.Key, x.Value} {
					if id, ok := e.(*ast.Ident); ok {
						local[id.Name] = true
					}
				}
			}
		case *ast.FuncLit:
			addFields(x.Type.Params)
			addFields(x.Type.Results)
		}
		return true
	})
	seen := map[string]bool{}
	var walk func(n ast.Node) bool
	walk = func(n ast.Node) bool {
		switch x := n.(type) {
		case *ast.SelectorExpr:
			ast.Inspect(x.X, walk) // the field / method name is not a package-scope identifier
			return false
		case *ast.KeyValueExpr:
			ast.Inspect(x.Value, walk) // struct literal keys are field names
			return false
		case *ast.Ident:
			if vars[x.Name] && !local[x.Name] {
				seen[x.Name] = true
			}
		}
		return true
	}
	ast.Inspect(fd.Body, walk)
	out := []string{}
	for k := range seen {
		out = append(out, k)
	}
	sort.Strings(out)
	return out
}

type switchRow struct {
	Labels []string `json:"labels"`
	Ret    string   `json:"ret"`
}

// switchFact: rows of the first switch statement in the body; Ret is the text of the first
// return statement directly inside the clause ("" when the clause does not return directly).
func switchFact(fset *token.FileSet, fd *ast.FuncDecl) []switchRow {
	var sw *ast.SwitchStmt
	ast.Inspect(fd.Body, func(n ast.Node) bool {
		if sw != nil {
			return false
		}
		if s, ok := n.(*ast.SwitchStmt); ok {
			sw = s
			return false
		}
		return true
	})
	var rows []switchRow
	if sw == nil {
		return rows
	}
	for _, c := range sw.Body.List {
		cc := c.(*ast.CaseClause)
		row := switchRow{}
		if cc.List == nil {
			row.Labels = []string{"default"}
		}
		for _, l := range cc.List {
			row.Labels = append(row.Labels, exprString(fset, l))
		}
		for _, s := range cc.Body {
			if r, ok := s.(*ast.ReturnStmt); ok {
				var parts []string
				for _, x := range r.Results {
					parts = append(parts, exprString(fset, x))
				}
				row.Ret = strings.Join(parts, ", ")
				break
			}
		}
		rows = append(rows, row)
	}
	return rows
}

// c15CaseBodies: for the first switch statement, the printed statements of every clause
func c15CaseBodies(fset *token.FileSet, fd *ast.FuncDecl) []string {
	var sw *ast.SwitchStmt
	ast.Inspect(fd.Body, func(n ast.Node) bool {
		if sw != nil {
			return false
		}
		if s, ok := n.(*ast.SwitchStmt); ok {
			sw = s
			return false
		}
		return true
	})
	var out []string
	if sw == nil {
		return out
	}
	for _, c := range sw.Body.List {
		var parts []string
		for _, st := range c.(*ast.CaseClause).Body {
			parts = append(parts, exprString(fset, st))
		}
		out = append(out, strings.Join(parts, "; "))
	}
	return out
}

func srcFact(fset *token.FileSet, fd *ast.FuncDecl) string {
	return exprString(fset, fd.Body)
}

func leanString(s string) string {
	var b strings.Builder
	b.WriteByte('"')
	for _, r := range s {
		switch {
		case r == '"':
			b.WriteString("\\\"")
		case r == '\\':
			b.WriteString("\\\\")
		case r == '\n':
			b.WriteString("\\n")
		case r == '\t':
			b.WriteString("\\t")
		case r < 0x20 || r == 0x7f:
			fmt.Fprintf(&b, "\\x%02x", r)
		default:
			b.WriteRune(r)
		}
	}
	b.WriteByte('"')
	return b.String()
}

func joinLeanStrings(xs []string) string {
	var q []string
	for _, x := range xs {
		q = append(q, leanString(x))
	}
	return strings.Join(q, ", ")
}
