package main

// C30 — peer authentication binds identity, recipient, freshness and role: the real
// kernel.Node.BuildAuthenticationMessage / AuthenticateAs (on a Node made by the `verif`
// hook kernel.VerifNewAuthNode, with the kernel clock mock set to the second named in the op
// line) against lean/Mixin/Model/Auth.lean.
//
//	auth <netid> <recipient> <msg> <timeout> <now> <id|?> <verify|?>
//	build <netid> <seed> <flag> <recipient> <now> <key|?> <sig|?>
//
// `?` fields are oracle answers (peer id of the key the message names, result of the real
// Verify over the first 73 bytes, the real signature) filled in by Exec for the model.
// Property mode checks the statement directly on the Go side: an accepted message is 137 bytes,
// addressed to the recipient, not from the recipient, within the skew, carries a signature that
// the real Verify accepts over bytes [0,73), and the token fields are those of the message;
// a message with all of these is accepted; a built message authenticates at its recipient.

import (
	"bytes"
	"encoding/binary"
	"fmt"
	"math/big"
	"strconv"
	"strings"
	"time"

	"github.com/MixinNetwork/mixin/common"
	"github.com/MixinNetwork/mixin/crypto"
	"github.com/MixinNetwork/mixin/kernel"
)

var c30Diff time.Duration // what has been added to the kernel clock mock so far

// make clock.Now().Unix() read `now` (mid-second, so a call that follows stays in that second)
func c30SetClock(now int64) {
	target := time.Unix(now, 500_000_000)
	d := target.Sub(time.Now().Add(c30Diff))
	kernel.TestMockDiff(d)
	c30Diff += d
}

func c30ClockSecond() int64 { return time.Now().Add(c30Diff).Unix() }

// run f with the kernel clock reading exactly `now` for the whole call
func c30At(now int64, f func()) {
	for try := 0; ; try++ {
		c30SetClock(now)
		f()
		if c30ClockSecond() == now || try > 5 {
			return
		}
	}
}

func c30PeerId(key crypto.Key, net crypto.Hash) crypto.Hash {
	a := common.Address{PublicSpendKey: key}
	a.PublicViewKey = key.DeterministicHashDerive().Public()
	return a.Hash().ForNetwork(net)
}

func c30Hash(b []byte) crypto.Hash {
	var h crypto.Hash
	copy(h[:], b)
	return h
}

// the harness's own message builder, used only to generate inputs
func c30Message(ts uint64, recipient crypto.Hash, priv crypto.Key, flag byte) []byte {
	pub := priv.Public()
	d := binary.BigEndian.AppendUint64(nil, ts)
	d = append(d, recipient[:]...)
	d = append(d, pub[:]...)
	d = append(d, flag)
	sig := priv.Sign(crypto.Blake3Hash(d))
	return append(d, sig[:]...)
}

func c30AuthLine(net, recipient crypto.Hash, msg []byte, timeout, now int64) string {
	return fmt.Sprintf("auth %s %s %s %d %d ? ?", Hex(net[:]), Hex(recipient[:]), Hex(msg), timeout, now)
}

func c30Gen(r *Rand, i int, tier string) []string {
	net := c30Hash(r.Bytes(32))
	priv := crypto.NewKeyFromSeed(r.Bytes(64))
	recipient := c30Hash(r.Bytes(32))
	now := int64(1_600_000_000 + r.Intn(400_000_000))
	if r.Chance(1, 8) {
		now = int64(r.Range(-4_000_000_000, 8_000_000_000))
	}
	timeout := Pick(r, []int64{10, 10, 10, 1, 2, 60, 0, -1, -10, 3600})
	flag := Pick(r, []byte{0, 1, 0, 1, 2, 255})
	delta := Pick(r, []int64{0, 1, -1, timeout - 1, timeout, timeout + 1, -(timeout - 1), -timeout, -(timeout + 1),
		int64(r.Range(-100, 100)), int64(r.Range(-100000, 100000))})
	ts := uint64(now + delta)
	switch r.Intn(12) {
	case 0: // the real builder, then the real check at the recipient around the timeout
		seed := r.Bytes(64)
		rel := r.Intn(2)
		lines := []string{fmt.Sprintf("build %s %s %d %s %d ? ?", Hex(net[:]), Hex(seed), rel, Hex(recipient[:]), now)}
		a := common.NewAddressFromSeed(seed)
		msg := c30Message(uint64(now), recipient, a.PrivateSpendKey, byte(rel))
		for _, d := range []int64{0, timeout, -timeout, timeout + 1, -timeout - 1} {
			lines = append(lines, c30AuthLine(net, recipient, msg, timeout, now+d))
		}
		return lines
	case 1: // every single-byte mutation of one valid message (a slice of them in the quick tier)
		msg := c30Message(uint64(now), recipient, priv, flag&1)
		lines := []string{c30AuthLine(net, recipient, msg, 10, now)}
		step := 1
		if tier == "quick" {
			step = 4
		}
		for p := r.Intn(step); p < 137; p += step {
			m := bytes.Clone(msg)
			m[p] ^= byte(1 << r.Intn(8))
			lines = append(lines, c30AuthLine(net, recipient, m, 10, now))
		}
		// the flag byte in particular, to every other role value
		for _, f := range []byte{0, 1, 2, 255} {
			m := bytes.Clone(msg)
			m[72] = f
			lines = append(lines, c30AuthLine(net, recipient, m, 10, now))
		}
		return lines
	case 2: // addressed to the sender itself
		self := c30PeerId(priv.Public(), net)
		return []string{c30AuthLine(net, self, c30Message(ts, self, priv, flag), timeout, now),
			c30AuthLine(net, recipient, c30Message(ts, self, priv, flag), timeout, now)}
	case 3: // wrong recipient
		other := recipient
		other[r.Intn(32)] ^= byte(1 << r.Intn(8))
		return []string{c30AuthLine(net, other, c30Message(ts, recipient, priv, flag), timeout, now)}
	case 4: // wrong length
		msg := c30Message(ts, recipient, priv, flag)
		n := Pick(r, []int{0, 1, 8, 72, 73, 136, 138, 200})
		for len(msg) < n {
			msg = append(msg, byte(r.U64()))
		}
		return []string{c30AuthLine(net, recipient, msg[:n], timeout, now)}
	case 5: // signature by another key / over other bytes
		msg := c30Message(ts, recipient, priv, flag)
		other := crypto.NewKeyFromSeed(r.Bytes(64))
		bad := c30Message(ts, recipient, other, flag)
		copy(msg[73:], bad[73:])
		msg2 := c30Message(ts, recipient, priv, flag)
		sig72 := priv.Sign(crypto.Blake3Hash(msg2[:72])) // signs everything but the flag
		copy(msg2[73:], sig72[:])
		return []string{c30AuthLine(net, recipient, msg, timeout, now), c30AuthLine(net, recipient, msg2, timeout, now)}
	case 6: // timestamps and timeouts where float64 rounds
		bigTs := Pick(r, []uint64{1 << 53, 1<<53 + 1, 1<<53 + 2, 1<<53 + 3, 1<<54 + 2, 1<<54 + 6, 1 << 63, 1<<64 - 1, 1<<64 - 1025, 1<<63 + 1025})
		to := Pick(r, []int64{10, 1 << 53, 1<<53 + 1, int64(bigTs>>1) - now, 1<<62 + 1, 1<<63 - 1, int64(bigTs&(1<<63-1)) - now, int64(bigTs&(1<<63-1)) - now + 1, int64(bigTs&(1<<63-1)) - now - 1})
		return []string{c30AuthLine(net, recipient, c30Message(bigTs, recipient, priv, flag), to, now),
			c30AuthLine(net, recipient, c30Message(ts, recipient, priv, flag), Pick(r, []int64{1 << 53, 1<<53 + 1, 1<<63 - 1}), now)}
	case 7: // negative clock: the timestamp wraps to a huge uint64
		n := int64(-r.Range(1, 2_000_000_000))
		return []string{c30AuthLine(net, recipient, c30Message(uint64(n), recipient, priv, flag), timeout, n),
			fmt.Sprintf("build %s %s %d %s %d ? ?", Hex(net[:]), Hex(r.Bytes(64)), r.Intn(2), Hex(recipient[:]), n)}
	default: // valid message, skew around the timeout, any flag value
		return []string{c30AuthLine(net, recipient, c30Message(ts, recipient, priv, flag), timeout, now)}
	}
}

func c30ExecAuth(t []string) Result {
	net, recipient, msg := c30Hash(UnHex(t[1])), c30Hash(UnHex(t[2])), UnHex(t[3])
	timeout, _ := strconv.ParseInt(t[4], 10, 64)
	now, _ := strconv.ParseInt(t[5], 10, 64)
	ids, vers := "_", "_"
	var key crypto.Key
	var peer crypto.Hash
	verified := false
	if len(msg) == 137 {
		copy(key[:], msg[40:72])
		peer = c30PeerId(key, net)
		var sig crypto.Signature
		copy(sig[:], msg[73:137])
		verified = key.Verify(crypto.Blake3Hash(msg[:73]), sig)
		ids = Hex(key[:]) + ":" + Hex(peer[:])
		bit := "0"
		if verified {
			bit = "1"
		}
		vers = Hex(key[:]) + ":" + Hex(msg[:73]) + ":" + Hex(msg[73:137]) + ":" + bit
	}
	t[6], t[7] = ids, vers
	res := Result{LeanIn: strings.Join(t, " ")}
	node := kernel.VerifNewAuthNode(common.Address{}, net, false)
	accepted := false
	var out string
	var panicked bool
	c30At(now, func() {
		out, panicked, _ = Catch(func() string {
			tok, err := node.AuthenticateAs(recipient, msg, timeout)
			if err != nil {
				return "reject"
			}
			accepted = true
			rel := 0
			if tok.IsRelayer {
				rel = 1
			}
			// property: the token carries the fields of the message
			if len(msg) == 137 && (tok.PeerId != peer || tok.Timestamp != binary.BigEndian.Uint64(msg[:8]) ||
				tok.IsRelayer != (msg[72] == 1) || !bytes.Equal(tok.Data, msg)) {
				res.PropKey, res.PropDesc = "C30:token-fields", "token fields differ from the message: "+strings.Join(t[:6], " ")
			}
			return fmt.Sprintf("ok %s %d %d %s", Hex(tok.PeerId[:]), tok.Timestamp, rel, Hex(tok.Data))
		})
	})
	res.Out = out
	res.Nontrivial = accepted
	// the statement itself, with exact integer arithmetic for the skew
	fresh := true
	exactSkew := true
	if len(msg) == 137 && timeout > 0 {
		ts := new(big.Int).SetUint64(binary.BigEndian.Uint64(msg[:8]))
		d := new(big.Int).Sub(big.NewInt(now), ts)
		fresh = d.Abs(d).Cmp(big.NewInt(timeout)) <= 0
		lim := new(big.Int).Lsh(big.NewInt(1), 53)
		exactSkew = ts.Cmp(lim) < 0 && big.NewInt(timeout).Cmp(lim) < 0 && now > -(1<<53) && now < 1<<53
	}
	line := strings.Join(t[:6], " ")
	switch {
	case panicked:
		res.PropKey, res.PropDesc = "C30:panics", "AuthenticateAs panicked: "+line
	case accepted && len(msg) != 137:
		res.PropKey, res.PropDesc = "C30:accepted-malformed", "accepted a message that is not 137 bytes: "+line
	case accepted && !verified:
		res.PropKey, res.PropDesc = "C30:accepted-unsigned", "accepted a message whose signature does not verify under the key it names over bytes [0,73): "+line
	case accepted && c30Hash(msg[8:40]) != recipient:
		res.PropKey, res.PropDesc = "C30:accepted-wrong-recipient", "accepted a message addressed to another node: "+line
	case accepted && peer == recipient:
		res.PropKey, res.PropDesc = "C30:accepted-self", "accepted a message from the receiver itself: "+line
	case accepted && exactSkew && !fresh:
		res.PropKey, res.PropDesc = "C30:accepted-stale", "accepted a message outside the allowed clock skew: "+line
	case !accepted && !panicked && len(msg) == 137 && verified && c30Hash(msg[8:40]) == recipient && peer != recipient && exactSkew && fresh:
		res.PropKey, res.PropDesc = "C30:rejected-valid", "rejected a well-signed, fresh message addressed to the receiver: "+line
	}
	tag := "auth:reject"
	if accepted {
		tag = "auth:accept"
	} else if len(msg) != 137 {
		tag = "auth:reject:length"
	} else if c30Hash(msg[8:40]) != recipient {
		tag = "auth:reject:recipient"
	} else if peer == recipient {
		tag = "auth:reject:self"
	} else if !verified {
		tag = "auth:reject:signature"
	} else {
		tag = "auth:reject:skew"
	}
	res.Tags = []string{tag}
	if timeout <= 0 {
		res.Tags = append(res.Tags, "auth:timeout<=0")
	}
	if !exactSkew {
		res.Tags = append(res.Tags, "auth:float-range")
	}
	return res
}

func c30ExecBuild(t []string) Result {
	net, seed, recipient := c30Hash(UnHex(t[1])), UnHex(t[2]), c30Hash(UnHex(t[4]))
	now, _ := strconv.ParseInt(t[5], 10, 64)
	signer := common.NewAddressFromSeed(seed)
	node := kernel.VerifNewAuthNode(signer, net, t[3] == "1")
	res := Result{Tags: []string{"build"}}
	var msg []byte
	var out string
	var panicked bool
	c30At(now, func() {
		out, panicked, _ = Catch(func() string {
			msg = node.BuildAuthenticationMessage(recipient)
			return "ok " + Hex(msg)
		})
	})
	res.Out = out
	res.Nontrivial = !panicked
	t[6] = Hex(signer.PublicSpendKey[:])
	t[7] = Hex(make([]byte, 64))
	if len(msg) == 137 {
		t[7] = Hex(msg[73:])
	}
	res.LeanIn = strings.Join(t, " ")
	// property: the built message authenticates at its recipient with the sender's identity and role
	if panicked || len(msg) != 137 {
		res.PropKey, res.PropDesc = "C30:build-then-auth", "BuildAuthenticationMessage did not return 137 bytes"
		return res
	}
	var sig crypto.Signature
	copy(sig[:], msg[73:])
	if !signer.PublicSpendKey.Verify(crypto.Blake3Hash(msg[:73]), sig) {
		res.PropKey, res.PropDesc = "C30:build-then-auth", "the built message is not signed over its first 73 bytes by the sender's key"
		return res
	}
	if now < 0 { // a pre-1970 clock wraps to a timestamp near 2^64: outside the statement
		res.Tags = append(res.Tags, "build:negative-clock")
		return res
	}
	recv := kernel.VerifNewAuthNode(common.Address{}, net, false)
	c30At(now, func() {
		Catch(func() string {
			tok, err := recv.AuthenticateAs(recipient, msg, 10)
			switch {
			case err != nil:
				res.PropKey, res.PropDesc = "C30:build-then-auth", "a freshly built message is rejected at its recipient: "+err.Error()
			case tok.PeerId != c30PeerId(signer.PublicSpendKey, net) || tok.IsRelayer != (t[3] == "1") || tok.Timestamp != uint64(now):
				res.PropKey, res.PropDesc = "C30:build-then-auth", "a built message authenticates with another identity, role or timestamp"
			}
			return ""
		})
	})
	return res
}

func execAuth(_ *State, line string) Result {
	t := strings.Fields(line)
	switch t[0] {
	case "auth":
		return c30ExecAuth(t)
	case "build":
		return c30ExecBuild(t)
	}
	panic("harness: unknown op " + t[0])
}

func init() {
	Register(&Subsystem{
		Name: "auth",
		Rule: "authentication messages signed with random keys for random recipients and network ids, checked with the " +
			"kernel clock mock at timestamp ± {0, 1, timeout-1, timeout, timeout+1, far}, timeouts {10, 1, 2, 60, 3600, 0, <0, " +
			"2^53.., 2^63-1}; every role byte; single-byte mutations at every position of valid messages; self-addressed, " +
			"wrongly addressed, truncated/extended messages; signatures by another key or over the first 72 bytes; " +
			"timestamps at and above 2^53 and negative clocks; outputs of the real builder; non-trivial = accepted by the " +
			"real AuthenticateAs or built by the real builder; distinct = distinct line fed to the model",
		Gen:  c30Gen,
		Exec: execAuth,
	})
}
