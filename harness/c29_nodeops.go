package main

// C29 (acceptance level) — the real kernel validators of node-operation snapshots
// (validateNodePledgeSnapshot, validateNodeCancelSnapshot, validateNodeAcceptSnapshot,
// validateNodeRemoveSnapshot) on a kernel.Node built from a generated membership history whose
// records carry real pledge / accept / remove / cancel transactions, against
// lean/Mixin/Model/NodeOps.lean. The node-operation lock is the real storage.AddNodeOperation on a
// Badger directory. Candidates are built by the kernel's own builders (accept, remove) or like
// the CLI builds them (pledge, cancel) and then mutated. Property mode checks the acceptance
// statements independently on every accepted snapshot.

import (
	"fmt"
	"math/big"
	"os"
	"strings"
	"time"

	"github.com/MixinNetwork/mixin/common"
	"github.com/MixinNetwork/mixin/config"
	"github.com/MixinNetwork/mixin/crypto"
	"github.com/MixinNetwork/mixin/kernel"
	"github.com/MixinNetwork/mixin/storage"
)

type noNode struct {
	id            crypto.Hash
	signer, payee common.Address
}

var noNodes = map[int]*noNode{}

// node number -> signer / payee addresses and the node id the kernel derives from the signer
func noNodeOf(n int) *noNode {
	if x, ok := noNodes[n]; ok {
		return x
	}
	s := fakeAddress(fmt.Sprintf("ops-signer-%d", n))
	s.PrivateViewKey = s.PublicSpendKey.DeterministicHashDerive()
	s.PublicViewKey = s.PrivateViewKey.Public()
	x := &noNode{id: s.Hash().ForNetwork(fakeNetworkId), signer: s, payee: fakeAddress(fmt.Sprintf("ops-payee-%d", n))}
	noNodes[n] = x
	return x
}

func noExtra(n int) []byte {
	x := noNodeOf(n)
	return append(append([]byte{}, x.signer.PublicSpendKey[:]...), x.payee.PublicSpendKey[:]...)
}

func noTx(outType uint8, input crypto.Hash, amount common.Integer, extra []byte, accounts []*common.Address) *common.VersionedTransaction {
	tx := common.NewTransactionV5(common.XINAssetId)
	tx.AddInput(input, 0)
	script := common.Script{}
	seed := []byte{}
	if len(accounts) > 0 {
		script, seed = common.NewThresholdScript(1), make([]byte, 64)
	}
	tx.AddOutputWithType(outType, accounts, script, amount, seed)
	tx.Extra = extra
	tx.References = []crypto.Hash{fakeHash("consensus-tx")}
	return tx.AsVersioned()
}

type noRec struct {
	node    int
	ts      uint64
	state   string
	corrupt int
	tx      *common.VersionedTransaction
}

type noState struct {
	epoch uint64
	recs  []*noRec
	node  *kernel.Node
	store *fakeStore
	dir   string
}

func (st *noState) close() {
	if st != nil && st.store != nil && st.store.opsStore != nil {
		st.store.opsStore.Close()
		st.store.opsStore = nil
		os.RemoveAll(st.dir)
	}
}

func noKeyNat(b []byte) string {
	var k [32]byte
	copy(k[:], b)
	return crypto.Hash(k).String()
}

func noSignerId(extra []byte) crypto.Hash {
	var a common.Address
	copy(a.PublicSpendKey[:], extra)
	a.PrivateViewKey = a.PublicSpendKey.DeterministicHashDerive()
	a.PublicViewKey = a.PrivateViewKey.Public()
	return a.Hash().ForNetwork(fakeNetworkId)
}

// digest of the payload without the amount of output 0, the hash of input 0 and the extra
func noRest(ver *common.VersionedTransaction) string {
	cp, err := common.UnmarshalVersionedTransaction(ver.Marshal())
	if err != nil {
		panic("harness: " + err.Error())
	}
	if len(cp.Inputs) > 0 {
		cp.Inputs[0].Hash = crypto.Hash{}
	}
	if len(cp.Outputs) > 0 {
		cp.Outputs[0].Amount = common.Zero
	}
	cp.Extra = nil
	return crypto.Blake3Hash(cp.AsVersioned().PayloadMarshal()).String()
}

// `hash amount input extra key1 signerId rest`
func noFields(ver *common.VersionedTransaction) string {
	amount, input := big.NewInt(0), crypto.Hash{}
	if len(ver.Outputs) > 0 {
		amount = integerToBig(ver.Outputs[0].Amount)
	}
	if len(ver.Inputs) > 0 {
		input = ver.Inputs[0].Hash
	}
	return fmt.Sprintf("%s %s %s %s %s %s %s", ver.PayloadHash(), amount, input, crypto.Blake3Hash(ver.Extra),
		noKeyNat(ver.Extra), noSignerId(ver.Extra), noRest(ver))
}

func noClone(ver *common.VersionedTransaction) *common.VersionedTransaction {
	cp, err := common.UnmarshalVersionedTransaction(ver.Marshal())
	if err != nil {
		panic("harness: " + err.Error())
	}
	return cp.AsVersioned()
}

// builds node, store and the transactions of the records; returns the concrete world line
func (st *noState) build(graphTs uint64) string {
	lastOf := map[int]*noRec{}
	st.store.txs = map[crypto.Hash]*common.VersionedTransaction{}
	amount := common.KernelNodePledgeAmount
	for i, r := range st.recs {
		x := noNodeOf(r.node)
		extra := noExtra(r.node)
		switch r.corrupt {
		case 2:
			extra = append(extra, 0x01)
		case 3:
			extra = append(append([]byte{}, x.payee.PublicSpendKey[:]...), x.signer.PublicSpendKey[:]...)
		}
		input := fakeHash(fmt.Sprintf("ops-fund-%d", i))
		if prev := lastOf[r.node]; prev != nil {
			input = prev.tx.PayloadHash()
		}
		switch r.state {
		case "P":
			r.tx = noTx(common.OutputTypeNodePledge, input, amount, extra, nil)
		case "A":
			r.tx = noTx(common.OutputTypeNodeAccept, input, amount, extra, nil)
		case "R":
			r.tx = noTx(common.OutputTypeNodeRemove, input, amount, extra, []*common.Address{&x.payee})
		default:
			r.tx = noTx(common.OutputTypeNodeCancel, input, amount, extra, []*common.Address{&x.payee})
		}
		lastOf[r.node] = r
		if r.corrupt != 1 {
			st.store.txs[r.tx.PayloadHash()] = r.tx
		}
	}
	cn := make([]*kernel.CNode, len(st.recs))
	var genesis []crypto.Hash
	seen := map[int]bool{}
	var keys, stored, recs strings.Builder
	nk, ns := 0, 0
	for i, r := range st.recs {
		x := noNodeOf(r.node)
		cn[i] = &kernel.CNode{IdForNetwork: x.id, Signer: x.signer, Payee: x.payee, Transaction: r.tx.PayloadHash(),
			Timestamp: r.ts, State: c29States[r.state]}
		if r.ts == st.epoch && r.state == "A" {
			genesis = append(genesis, x.id)
		}
		fmt.Fprintf(&recs, " %s %s %d %s", x.id, r.tx.PayloadHash(), r.ts, r.state)
		if !seen[r.node] {
			seen[r.node] = true
			nk++
			fmt.Fprintf(&keys, " %s %s %s", x.id, x.signer.PublicSpendKey, x.payee.PublicSpendKey)
		}
		if r.corrupt != 1 {
			ns++
			e := r.tx.Extra
			k2 := []byte{}
			if len(e) > 32 {
				k2 = e[32:]
				if len(k2) > 32 {
					k2 = k2[:32]
				}
			}
			fmt.Fprintf(&stored, " %s %s %s %d %s %s", r.tx.PayloadHash(), integerToBig(r.tx.Outputs[0].Amount),
				crypto.Blake3Hash(e), len(e), noKeyNat(e), noKeyNat(k2))
		}
	}
	// the hist section must list records in storage order (timestamp, then id)
	order := make([]int, len(st.recs))
	for i := range order {
		order[i] = i
	}
	for i := 1; i < len(order); i++ {
		for j := i; j > 0; j-- {
			a, b := cn[order[j]], cn[order[j-1]]
			if a.Timestamp < b.Timestamp || (a.Timestamp == b.Timestamp && a.IdForNetwork.String() < b.IdForNetwork.String()) {
				order[j], order[j-1] = order[j-1], order[j]
			} else {
				break
			}
		}
	}
	recs.Reset()
	for _, i := range order {
		r := st.recs[i]
		fmt.Fprintf(&recs, " %s %s %d %s", cn[i].IdForNetwork, cn[i].Transaction, r.ts, r.state)
	}
	sortCNodes(cn)
	st.node = kernel.VerifC29NewNode(fakeNetworkId, st.epoch, cn, genesis, st.store)
	st.node.IdForNetwork = fakeHash("the-validating-node")
	st.node.VerifC29InitChains()
	st.node.VerifSetGraphTimestamp(graphTs)
	return fmt.Sprintf("world %d %d | %d%s | %d%s | %d%s", st.epoch, graphTs, len(st.recs), recs.String(), nk, keys.String(), ns, stored.String())
}

func noMutate(ver *common.VersionedTransaction, mut []string) *common.VersionedTransaction {
	tx := noClone(ver)
	switch mut[0] {
	case "valid":
	case "amount":
		v := new(big.Int).Add(integerToBig(tx.Outputs[0].Amount), big.NewInt(int64(u64(mut[1]))-1000))
		tx.Outputs[0].Amount = integerFromBig(v)
	case "input":
		tx.Inputs[0].Hash = fakeHash("other-input")
	case "index":
		tx.Inputs[0].Index = 1
	case "extra":
		e := append([]byte{}, tx.Extra...)
		if len(e) > 40 {
			e[40] ^= 1
		} else {
			e = append(e, 1)
		}
		tx.Extra = e
	case "ref":
		tx.References = []crypto.Hash{fakeHash("other-consensus-tx")}
	case "addout":
		a := fakeAddress("ops-extra-out")
		tx.AddScriptOutput([]*common.Address{&a}, common.NewThresholdScript(1), common.NewInteger(1), make([]byte, 64))
	default:
		panic("harness: unknown mutation " + mut[0])
	}
	return tx.AsVersioned()
}

// ---- generator

func genNoMut(r *Rand) string {
	switch r.Intn(12) {
	case 0:
		return fmt.Sprintf("amount %d", 1000+Pick(r, []int{1, -1}))
	case 1:
		return "input"
	case 2:
		return "extra"
	case 3:
		return "ref"
	case 4:
		return "addout"
	case 5:
		return "index"
	default:
		return "valid"
	}
}

func init() {
	Register(&Subsystem{
		Name: "nodeops",
		Rule: "one case = a generated membership history (as in `election`) whose records carry real pledge / accept / " +
			"remove / cancel transactions (sometimes missing from the store or with a malformed extra), then candidate " +
			"node-operation snapshots at instants around the window edges and the accept-period bounds (±1 ns): pledges " +
			"(exact amount, ±1, key clashes with existing signer / payee keys, already recorded, repeated within the " +
			"operation lock, finalized or not), cancels, accepts (kernel-built at that or another instant, unchanged or " +
			"with amount ±1 / other input / extra / reference / extra output, other round, other or unknown chain), " +
			"removals (kernel-built for the elected / oldest / another proposer, mutated, or an already recorded " +
			"removal); validated by the real validators; non-trivial = accepted; distinct = distinct op line",
		Gen: func(r *Rand, i int, tier string) []string {
			g, last := genC29History(r, tier)
			if g.epoch > 1700000000000000000 { // chain identities are derived at the wall clock: keep histories in the past
				g.epoch = 1551312000000000000 + g.epoch%(400*c25OneDay)
				return []string{"reset"}
			}
			if g.recs[len(g.recs)-1].State != "P" && r.Chance(1, 2) { // end with a node that is still pledging
				hp := uint64(r.Intn(24))
				if r.Chance(2, 3) { // pledged at an hour whose +12h (and +7d) falls into the accept window
					hp = uint64(r.Range(1, 6))
				}
				tp := g.epoch + ((last-g.epoch)/c25OneDay+uint64(r.Range(1, 3)))*c25OneDay + hp*c25Hour + r.U64()%c25Hour
				g.add(g.nextN, tp, "P")
				g.nextN++
				last = tp
			}
			var sb strings.Builder
			graphTs := last
			if r.Chance(1, 3) { // later graph head: unfinalized snapshots near `last` are stale
				graphTs = last + r.U64()%(3*c25OneDay)
			}
			fmt.Fprintf(&sb, "world %d %d %d", g.epoch, graphTs, len(g.recs))
			nodes := []int{}
			seen := map[int]bool{}
			var pledgingRec, removedRec = -1, -1
			for k, e := range g.recs {
				corrupt := 0
				if r.Chance(1, 40) {
					corrupt = r.Range(1, 3)
				}
				fmt.Fprintf(&sb, " %d %d %s %d", e.Node, e.Ts, e.State, corrupt)
				if !seen[e.Node] {
					seen[e.Node] = true
					nodes = append(nodes, e.Node)
				}
				if e.State == "P" {
					pledgingRec = k
				}
				if e.State == "R" {
					removedRec = k
				}
			}
			lines := []string{"reset", sb.String()}
			lastRec := g.recs[len(g.recs)-1]
			stillPledging := lastRec.State == "P"
			day0 := (last-g.epoch)/c25OneDay + 1
			fin := func() int { return b2i(r.Chance(1, 3)) }
			for q := r.Range(2, 5); q > 0; q-- {
				day := day0 + uint64(r.Intn(4))
				hour := uint64(r.Intn(24))
				off := r.U64() % c25Hour
				if r.Chance(1, 4) {
					hour, off = uint64(Pick(r, []int{6, 7, 9, 10, 12, 13, 19, 20})), Pick(r, []uint64{0, 1, c25Hour - 1})
				}
				ts := g.epoch + day*c25OneDay + hour*c25Hour + off
				switch r.Intn(7) {
				case 0, 1: // pledges, with a follow-up inside the operation lock
					if r.Chance(2, 3) {
						hour = uint64(Pick(r, []int{0, 3, 5, 10, 11, 12, 20, 22}))
						ts = g.epoch + day*c25OneDay + hour*c25Hour + off
					}
					p := Pick(r, []string{"E", "E", "E", fmt.Sprintf("node:%d", Pick(r, nodes))})
					label := 900000 + r.Intn(1000)
					cand := fmt.Sprintf("new %d %d own", label, 1000+Pick(r, []int{0, 0, 0, 0, 1, -1}))
					switch r.Intn(8) {
					case 0:
						cand = fmt.Sprintf("new %d 1000 signer:%d", label, Pick(r, nodes))
					case 1:
						cand = fmt.Sprintf("new %d 1000 payee:%d", label, Pick(r, nodes))
					case 2:
						cand = fmt.Sprintf("rec %d", r.Intn(len(g.recs)))
					}
					f := fin()
					lines = append(lines, fmt.Sprintf("pledge %s %d %d %s", p, ts, f, cand))
					if r.Chance(1, 2) {
						ts2 := ts + Pick(r, []uint64{1, c25Hour, 24*c25Hour - 1, 24 * c25Hour, 24*c25Hour + 1})
						c2 := cand
						if r.Chance(1, 2) {
							c2 = fmt.Sprintf("new %d 1000 own", label+1)
						}
						lines = append(lines, fmt.Sprintf("pledge E %d %d %s", ts2, fin(), c2))
					}
				case 2: // cancel
					rec := r.Intn(len(g.recs))
					if pledgingRec >= 0 && r.Chance(3, 4) {
						rec = pledgingRec
					}
					tsc := ts
					if stillPledging && r.Chance(3, 4) {
						el := Pick(r, []uint64{12*c25Hour - 1, 12*c25Hour - 1, 12 * c25Hour, 13 * c25Hour, 40 * c25Hour, 7 * 24 * c25Hour, 7*24*c25Hour + 1, 7*24*c25Hour + 1})
						tsc = lastRec.Ts + el
						if r.Chance(1, 3) { // move into the accept window of that day
							tsc = g.epoch + (tsc-g.epoch)/c25OneDay*c25OneDay + uint64(r.Range(13, 19))*c25Hour + off
						}
					}
					lines = append(lines, fmt.Sprintf("cancel %d %d of %d", tsc, fin(), rec))
				case 3, 4: // accept
					id := fmt.Sprintf("node:%d", Pick(r, nodes))
					if stillPledging && r.Chance(4, 5) {
						id = fmt.Sprintf("node:%d", lastRec.Node)
					}
					if r.Chance(1, 20) {
						id = "unknown"
					}
					tsa := ts
					if stillPledging && r.Chance(4, 5) {
						el := Pick(r, []uint64{12*c25Hour - 1, 12*c25Hour - 1, 12 * c25Hour, 12 * c25Hour, 12*c25Hour + 1, 20 * c25Hour, 50 * c25Hour, 7*24*c25Hour - 1, 7 * 24 * c25Hour, 7 * 24 * c25Hour, 7*24*c25Hour + 1, 7*24*c25Hour + 1})
						tsa = lastRec.Ts + el
						if r.Chance(1, 3) { // elsewhere in the accept window of that day
							tsa = g.epoch + (tsa-g.epoch)/c25OneDay*c25OneDay + uint64(r.Range(13, 19))*c25Hour + off
						}
					}
					base := tsa
					if r.Chance(1, 6) {
						base = tsa + c25OneDay
					}
					round := 0
					if r.Chance(1, 12) {
						round = 1
					}
					if r.Chance(1, 30) {
						tsa = ^uint64(0) - r.U64()%c25OneDay
					}
					lines = append(lines, fmt.Sprintf("accept %s %d %d %d %d %s", id, round, tsa, fin(), base, genNoMut(r)))
				default: // remove
					tsr := g.epoch + day*c25OneDay + uint64(r.Range(13, 19))*c25Hour + off
					if r.Chance(1, 4) {
						tsr = ts
					}
					p := Pick(r, []string{"E", "E", "E", "O", fmt.Sprintf("node:%d", Pick(r, nodes))})
					mut := genNoMut(r)
					if removedRec >= 0 && r.Chance(1, 5) {
						mut = fmt.Sprintf("rec %d", removedRec)
					} else if r.Chance(1, 15) {
						mut = fmt.Sprintf("rec %d", r.Intn(len(g.recs)))
					}
					base := tsr
					lines = append(lines, fmt.Sprintf("remove %s %d %d %d %s", p, tsr, fin(), base, mut))
				}
			}
			return clkWrap(r, lines, map[string]int{"pledge": 2, "cancel": 1, "accept": 3, "remove": 2})
		},
		Exec: execNodeOps,
	})
}

func noHour(epoch, ts uint64) uint64 { return (ts - epoch) / c25Hour % 24 }

func execNodeOps(state *State, line string) Result {
	c, t := parseClk(strings.Fields(line))
	res := Result{Tags: []string{t[0]}}
	if c.on {
		res.Tags = append(res.Tags, fmt.Sprintf("clk:own%d-ts0%d", b2i(c.own), b2i(c.ts0)))
	}
	fail := func(key, desc string) {
		if res.PropKey == "" {
			res.PropKey, res.PropDesc = "C29:"+key, desc
		}
	}
	st, _ := state.V["no"].(*noState)
	if st == nil || t[0] == "reset" {
		st.close()
		st = &noState{store: newFakeStore()}
		dir, err := os.MkdirTemp(state.Dir, "nodeops-")
		if err != nil {
			panic(err)
		}
		st.dir = dir
		st.store.openOps = func() storage.Store {
			s, err := storage.NewBadgerStore(&config.Custom{}, dir)
			if err != nil {
				panic("harness: NewBadgerStore: " + err.Error())
			}
			return s
		}
		st.build(0)
		state.V["no"] = st
		if !noExitHooked {
			noExitHooked = true
			AtExit(func() {
				if s, _ := state.V["no"].(*noState); s != nil {
					s.close()
				}
			})
		}
	}
	ab, ae := uint64(config.KernelNodeAcceptTimeBegin), uint64(config.KernelNodeAcceptTimeEnd)
	mb, me := uint64(config.KernelMintTimeBegin), uint64(config.KernelMintTimeEnd)
	resolve := func(p string, op byte, ts uint64) (crypto.Hash, bool) {
		switch {
		case p == "E":
			var h crypto.Hash
			_, pn, _ := Catch(func() string { h = st.node.VerifElectSnapshotNode(op, ts); return "" })
			return h, !pn
		case p == "O":
			if l := st.node.NodesListWithoutState(ts, true); len(l) > 0 {
				return l[0].IdForNetwork, true
			}
			return crypto.Hash{}, true
		case p == "unknown":
			return fakeHash("unknown-chain"), true
		case strings.HasPrefix(p, "node:"):
			return noNodeOf(int(u64(p[5:]))).id, true
		}
		panic("harness: bad proposer " + p)
	}
	// independent election: accepted[1:len-1][(day+op) % len]
	electedIs := func(op int, ts uint64, p crypto.Hash) bool {
		acc := st.node.NodesListWithoutState(ts, true)
		if len(acc) < config.KernelMinimumNodesCount {
			return false
		}
		in := acc[1 : len(acc)-1]
		return in[(int((ts-st.epoch)/c25OneDay)+op)%len(in)].IdForNetwork == p
	}
	once := func(f func() error) string {
		var err error
		_, pn, _ := Catch(func() string { err = f(); return "" })
		if pn {
			return "panic"
		}
		if err != nil {
			return "reject"
		}
		return "accept"
	}
	// decide runs a validator as the node `self` (the snapshot's node when c.own) under the mocked
	// clock; for a snapshot whose time must not depend on the clock it runs it again under another
	// clock (another epoch day and hour window) and compares. clockFree = the validator reads the
	// clock for nothing else at this instant.
	decide := func(snapNode crypto.Hash, clockFree bool, f func() error) (string, bool) {
		st.node.IdForNetwork = fakeHash("the-validating-node") // some node other than the snapshot's
		if c.on && c.own {
			st.node.IdForNetwork = snapNode
		}
		defer func() { st.node.IdForNetwork = fakeHash("the-validating-node") }()
		var d string
		withClock(c.on, c.clock, func() { d = once(f) })
		if c.on && !(c.own && c.ts0) && clockFree {
			var d2 string
			withClock(true, c.otherClock(), func() { d2 = once(f) })
			if d2 != d {
				fail("decision-depends-on-local-clock", fmt.Sprintf("the same timestamped snapshot is decided %s with the local clock at %d and %s at %d",
					d, c.clock, d2, c.otherClock()))
			}
		}
		return d, d == "accept"
	}
	out, panicked, _ := Catch(func() string {
		switch t[0] {
		case "reset":
			return "ok"
		case "world":
			st.epoch = u64(t[1])
			k := int(u64(t[3]))
			st.recs = make([]*noRec, k)
			for i := 0; i < k; i++ {
				f := t[4+4*i:]
				st.recs[i] = &noRec{node: int(u64(f[0])), ts: u64(f[1]), state: f[2], corrupt: int(u64(f[3]))}
			}
			res.LeanIn = st.build(u64(t[2]))
			return "ok"
		case "pledge":
			tsTok, fin := u64(t[2]), t[3] == "1"
			ts, sts := c.eff(tsTok), c.snapTs(tsTok)
			p, ok := resolve(t[1], common.TransactionTypeNodePledge, ts)
			var cand *common.VersionedTransaction
			if t[4] == "rec" {
				cand = st.recs[int(u64(t[5]))%len(st.recs)].tx
			} else {
				label := int(u64(t[5]))
				extra := noExtra(label)
				if strings.HasPrefix(t[7], "signer:") {
					copy(extra, noNodeOf(int(u64(t[7][7:]))).signer.PublicSpendKey[:])
				} else if strings.HasPrefix(t[7], "payee:") {
					copy(extra, noNodeOf(int(u64(t[7][6:]))).payee.PublicSpendKey[:])
				}
				amount := new(big.Int).Add(integerToBig(common.KernelNodePledgeAmount), big.NewInt(int64(u64(t[6]))-1000))
				cand = noTx(common.OutputTypeNodePledge, fakeHash(fmt.Sprintf("pledge-fund-%d", label)), integerFromBig(amount), extra, nil)
			}
			res.LeanIn = c.prefix() + fmt.Sprintf("pledge %s %d %d %s", p, tsTok, b2i(fin), noFields(cand))
			if !ok {
				return "panic"
			}
			if cand.TransactionType() != common.TransactionTypeNodePledge {
				res.LeanIn = "skip"
				return "bad-op" // the kernel dispatches by type: not a pledge snapshot
			}
			snap := &common.Snapshot{NodeId: p, Timestamp: sts}
			d, acc := decide(p, true, func() error { return st.node.VerifValidateNodePledgeSnapshot(snap, cand, fin) })
			if acc {
				res.Tags = append(res.Tags, "pledge:accept")
				if integerToBig(cand.Outputs[0].Amount).Cmp(integerToBig(common.KernelNodePledgeAmount)) != 0 {
					fail("accepted-pledge-amount", "pledge accepted with amount "+cand.Outputs[0].Amount.String())
				}
				if !electedIs(common.TransactionTypeNodePledge, ts, p) {
					fail("accepted-pledge-proposer", "pledge accepted from a node that is not the elected one")
				}
				if h := noHour(st.epoch, ts); ts < st.epoch || (h >= ab && h <= ae) || (h >= mb && h <= me) {
					fail("accepted-pledge-window", fmt.Sprintf("pledge accepted at hour %d", h))
				}
				recorded := false
				for _, cn := range st.node.NodesListWithoutState(ts+uint64(config.KernelNodePledgePeriodMinimum), false) {
					recorded = recorded || cn.Transaction == cand.PayloadHash()
				}
				if !recorded {
					for _, cn := range st.node.NodesListWithoutState(ts+uint64(config.KernelNodePledgePeriodMinimum), false) {
						if cn.State == common.NodeStatePledging {
							fail("accepted-pledge-while-pledging", "a second pledge accepted while "+cn.IdForNetwork.String()+" is pledging")
						}
						var k crypto.Key
						copy(k[:], cand.Extra)
						if cn.Signer.PublicSpendKey == k || cn.Payee.PublicSpendKey == k {
							fail("accepted-pledge-key-reuse", "pledge accepted with a signer key already used by "+cn.IdForNetwork.String())
						}
					}
				}
			}
			return d
		case "cancel":
			tsTok, fin := u64(t[1]), t[2] == "1"
			ts, sts := c.eff(tsTok), c.snapTs(tsTok)
			rec := st.recs[int(u64(t[4]))%len(st.recs)]
			x := noNodeOf(rec.node)
			cand := noTx(common.OutputTypeNodeCancel, rec.tx.PayloadHash(), common.NewInteger(100), noExtra(rec.node), []*common.Address{&x.payee})
			res.LeanIn = c.prefix() + fmt.Sprintf("cancel %d %d %s", tsTok, b2i(fin), noFields(cand))
			snap := &common.Snapshot{NodeId: x.id, Timestamp: sts}
			d, acc := decide(x.id, true, func() error { return st.node.VerifValidateNodeCancelSnapshot(snap, cand, fin) })
			if acc {
				res.Tags = append(res.Tags, "cancel:accept")
				pn := st.node.PledgingNode(ts)
				if h := noHour(st.epoch, ts); ts < st.epoch || h < ab || h > ae {
					fail("accepted-cancel-window", fmt.Sprintf("cancel accepted at hour %d", h))
				}
				if pn == nil {
					fail("accepted-cancel-nobody-pledging", "cancel accepted while no node is pledging")
				} else if el := ts - pn.Timestamp; ts < pn.Timestamp || el < uint64(config.KernelNodeAcceptPeriodMinimum) || el > uint64(config.KernelNodeAcceptPeriodMaximum) {
					fail("accepted-cancel-period", fmt.Sprintf("cancel accepted %d ns after the pledge", el))
				}
			}
			return d
		case "accept":
			round, tsTok, fin, base := u64(t[2]), u64(t[3]), t[4] == "1", u64(t[5])
			ts, sts := c.eff(tsTok), c.snapTs(tsTok)
			id, _ := resolve(t[1], 0, ts)
			if c.on && c.own { // getOrCreateChain treats the node's own id specially
				st.node.IdForNetwork = id
			}
			var exists, hasInfo, hasState bool
			var info kernel.CNode
			future := ts > c.now()+uint64(time.Minute)+config.SnapshotRoundGap
			var cand, canon *common.VersionedTransaction
			withClock(c.on, c.clock, func() { // the chain identity and the "future" test read the clock
				exists, hasInfo, hasState, info = st.node.VerifC29ChainIdentity(id)
				if exists {
					Catch(func() string { cand, _ = st.node.VerifC29BuildNodeAcceptTransaction(id, base, fin); return "" })
					Catch(func() string { canon, _ = st.node.VerifC29BuildNodeAcceptTransaction(id, ts, fin); return "" })
				}
			})
			mut := t[6:]
			if cand == nil {
				input := fakeHash("no-pledge")
				if hasInfo {
					input = info.Transaction
				}
				cand = noTx(common.OutputTypeNodeAccept, input, common.KernelNodePledgeAmount, noExtra(0), nil)
				res.Tags = append(res.Tags, "accept:cand-handmade")
			} else {
				res.Tags = append(res.Tags, "accept:cand-"+mut[0])
			}
			cand = noMutate(cand, mut)
			canonRest, infoS := "-", "- -"
			if canon != nil {
				canonRest = noRest(canon)
			}
			if hasInfo {
				infoS = fmt.Sprintf("%s %s", info.IdForNetwork, info.Transaction)
			}
			res.LeanIn = c.prefix() + fmt.Sprintf("accept %d %s %d %d %d %d %d %s %s", b2i(exists), infoS, b2i(hasState), round, tsTok, b2i(future),
				b2i(fin), canonRest, noFields(cand))
			snap := &common.Snapshot{NodeId: id, Timestamp: sts, RoundNumber: round}
			// the accept validator also compares the time with the clock ("in the future"): the
			// two-clock comparison applies when both clocks are well past the time used
			clockFree := ts+uint64(10*time.Minute) < c.clock
			d, acc := decide(id, clockFree, func() error { return st.node.VerifC29ValidateNodeAcceptSnapshot(snap, cand, fin) })
			if acc {
				res.Tags = append(res.Tags, "accept:accept")
				pn := st.node.PledgingNode(ts)
				if round != 0 {
					fail("accepted-accept-round", "node accept accepted in a round other than 0")
				}
				if h := noHour(st.epoch, ts); ts < st.epoch || h < ab || h > ae {
					fail("accepted-accept-window", fmt.Sprintf("node accept accepted at hour %d", h))
				}
				if pn == nil || pn.IdForNetwork != id {
					fail("accepted-accept-not-pledging", "node accept accepted for a node that is not the pledging node")
				} else {
					if el := ts - pn.Timestamp; ts < pn.Timestamp || el < uint64(config.KernelNodeAcceptPeriodMinimum) || el > uint64(config.KernelNodeAcceptPeriodMaximum) {
						fail("accepted-accept-period", fmt.Sprintf("node accept accepted %d ns after the pledge", el))
					}
					if len(cand.Inputs) != 1 || cand.Inputs[0].Hash != pn.Transaction || cand.Inputs[0].Index != 0 {
						fail("accepted-accept-input", "accepted node accept does not spend the pledge of the pledging node")
					}
					if pl := st.store.txs[pn.Transaction]; pl == nil || integerToBig(pl.Outputs[0].Amount).Cmp(integerToBig(cand.Outputs[0].Amount)) != 0 {
						fail("accepted-accept-amount", "accepted node accept does not carry the pledged amount")
					}
				}
			}
			return d
		case "remove":
			tsTok, fin, base := u64(t[2]), t[3] == "1", u64(t[4])
			ts, sts := c.eff(tsTok), c.snapTs(tsTok)
			p, ok := resolve(t[1], common.TransactionTypeNodeRemove, ts)
			mut := t[5:]
			var cand *common.VersionedTransaction
			recorded := false
			if mut[0] == "rec" {
				cand = st.recs[int(u64(mut[1]))%len(st.recs)].tx
				if cand.TransactionType() != common.TransactionTypeNodeRemove {
					res.LeanIn = "skip"
					return "bad-op" // dispatch by type: not a removal snapshot
				}
				recorded = true
				res.Tags = append(res.Tags, "remove:cand-recorded")
			} else {
				Catch(func() string { cand, _ = st.node.VerifC29BuildNodeRemoveTransaction(p, base, nil); return "" })
				if cand == nil {
					x := noNodeOf(0)
					if l := st.node.NodesListWithoutState(ts, true); len(l) > 0 {
						cand = noTx(common.OutputTypeNodeRemove, l[0].Transaction, common.KernelNodePledgeAmount, append(append([]byte{}, l[0].Signer.PublicSpendKey[:]...), l[0].Payee.PublicSpendKey[:]...), []*common.Address{&l[0].Payee})
					} else {
						cand = noTx(common.OutputTypeNodeRemove, fakeHash("no-accept"), common.KernelNodePledgeAmount, noExtra(0), []*common.Address{&x.payee})
					}
					res.Tags = append(res.Tags, "remove:cand-handmade")
				} else {
					res.Tags = append(res.Tags, "remove:cand-"+mut[0])
				}
				cand = noMutate(cand, mut)
			}
			var canon *common.VersionedTransaction
			Catch(func() string { canon, _ = st.node.VerifC29BuildNodeRemoveTransaction(p, ts, cand); return "" })
			canonRest := "-"
			if canon != nil {
				canonRest = noRest(canon)
			}
			res.LeanIn = c.prefix() + fmt.Sprintf("remove %s %d %d %s %s", p, tsTok, b2i(fin), canonRest, noFields(cand))
			if !ok {
				return "panic"
			}
			snap := &common.Snapshot{NodeId: p, Timestamp: sts}
			d, acc := decide(p, true, func() error { return st.node.VerifValidateNodeRemoveSnapshot(snap, cand, fin) })
			if acc {
				res.Tags = append(res.Tags, "remove:accept")
				if !electedIs(common.TransactionTypeNodeRemove, ts, p) {
					fail("accepted-remove-proposer", "removal accepted from a node that is not the elected one")
				}
				already := false
				for _, rc := range st.recs { // the re-validation of a removal that is already recorded
					already = already || (rc.state == "R" && rc.tx.PayloadHash() == cand.PayloadHash())
				}
				_ = recorded
				if !already {
					l := st.node.NodesListWithoutState(ts, true)
					if h := noHour(st.epoch, ts); ts < st.epoch || h < ab || h > ae {
						fail("accepted-remove-window", fmt.Sprintf("removal accepted at hour %d", h))
					}
					if len(l) <= config.KernelMinimumNodesCount {
						fail("accepted-remove-minimum", "removal accepted with the minimum number of accepted nodes")
					} else {
						if len(cand.Inputs) != 1 || cand.Inputs[0].Hash != l[0].Transaction {
							fail("accepted-remove-not-oldest", "accepted removal does not spend the accept of the oldest accepted node")
						}
						if l[0].IdForNetwork == p {
							fail("accepted-remove-self", "removal of the proposer itself accepted")
						}
					}
					if st.node.PledgingNode(ts) != nil {
						fail("accepted-remove-while-pledging", "removal accepted while a node is pledging")
					}
				}
			}
			return d
		}
		panic("harness: unknown op " + t[0])
	})
	res.Out = out
	res.Nontrivial = !panicked && out == "accept"
	if panicked {
		res.Tags = append(res.Tags, t[0]+":panic")
	}
	return res
}

var noExitHooked bool
