package main

// C18 — round hash: real common.ComputeRoundHash, storage.computeRoundHash (hook) and
// kernel CacheRound.asFinal (hook) against lean/Mixin/Model/RoundHash.lean.
//
// The model is run with the identity as hash function, so its "hash" is the byte sequence
// node ‖ be64(number) ‖ h1 ‖ h2 ‖ … in hashing order. The harness prints the same sequence from
// the order in which the real code left the slice (sort.Slice sorts in place) and, in
// property mode, checks on the real code alone:
//   * blake3 chained along that order is the returned hash; start/end are first/last timestamp
//   * every rotation / random permutation of the input gives the same (start, end, hash)
//   * changing every field other than (Version, Timestamp, Hash) changes nothing
//   * the storage validator and the live node's asFinal return the same triple

import (
	"encoding/binary"
	"fmt"
	"hash/fnv"
	"strconv"
	"strings"
	"sync"

	"github.com/MixinNetwork/mixin/common"
	"github.com/MixinNetwork/mixin/config"
	"github.com/MixinNetwork/mixin/crypto"
	"github.com/MixinNetwork/mixin/kernel"
	"github.com/MixinNetwork/mixin/storage"
)

type rhSnap struct {
	version uint8
	ts      uint64
	hash    crypto.Hash
}

func (s rhSnap) String() string { return fmt.Sprintf("%d:%d:%s", s.version, s.ts, Hex(s.hash[:])) }

type rhResult struct {
	panicked   bool
	start, end uint64
	hash       crypto.Hash
}

func (r rhResult) String() string {
	if r.panicked {
		return "panic"
	}
	return fmt.Sprintf("%d %d %s", r.start, r.end, r.hash)
}

// other fields of a snapshot, irrelevant to the round hash
func fillOther(r *Rand, s *common.Snapshot) {
	s.NodeId = genHash(r)
	s.RoundNumber = r.U64()
	if r.Bool() {
		s.References = &common.RoundLink{Self: genHash(r), External: genHash(r)}
	}
	for i := r.Intn(3); i >= 0; i-- {
		s.Transactions = append(s.Transactions, genHash(r))
	}
	if r.Bool() {
		cs := &crypto.CosiSignature{Mask: r.U64() | 1}
		copy(cs.Signature[:], r.Bytes(64))
		s.Signature = cs
	}
}

func buildSnaps(in []rhSnap, other *Rand) []*common.Snapshot {
	out := make([]*common.Snapshot, len(in))
	for i, x := range in {
		s := &common.Snapshot{Version: x.version, Timestamp: x.ts, Hash: x.hash}
		if other != nil {
			fillOther(other, s)
		}
		out[i] = s
	}
	return out
}

func runCommon(node crypto.Hash, number uint64, snaps []*common.Snapshot) (res rhResult) {
	defer func() {
		if e := recover(); e != nil {
			res = rhResult{panicked: true}
		}
	}()
	s, e, h := common.ComputeRoundHash(node, number, snaps)
	return rhResult{start: s, end: e, hash: h}
}

func runStorage(node crypto.Hash, number uint64, snaps []*common.SnapshotWithTopologicalOrder) (res rhResult) {
	defer func() {
		if e := recover(); e != nil {
			res = rhResult{panicked: true}
		}
	}()
	s, e, h := storage.VerifComputeRoundHash(node, number, snaps)
	return rhResult{start: s, end: e, hash: h}
}

// nilRound: asFinal returned nil (empty round)
func runKernel(node crypto.Hash, number uint64, snaps []*common.Snapshot) (res rhResult, nilRound bool) {
	defer func() {
		if e := recover(); e != nil {
			res = rhResult{panicked: true}
		}
	}()
	f := kernel.VerifCacheRoundAsFinal(node, number, snaps)
	if f == nil {
		return rhResult{}, true
	}
	if f.NodeId != node || f.Number != number {
		return rhResult{panicked: true}, false
	}
	return rhResult{start: f.Start, end: f.End, hash: f.Hash}, false
}

func withTopo(snaps []*common.Snapshot, r *Rand) []*common.SnapshotWithTopologicalOrder {
	out := make([]*common.SnapshotWithTopologicalOrder, len(snaps))
	for i, s := range snaps {
		out[i] = &common.SnapshotWithTopologicalOrder{Snapshot: s, TopologicalOrder: r.U64()}
	}
	return out
}

func permute(in []rhSnap, r *Rand) []rhSnap {
	out := append([]rhSnap{}, in...)
	for j := len(out) - 1; j > 0; j-- {
		k := r.Intn(j + 1)
		out[j], out[k] = out[k], out[j]
	}
	return out
}

func orderTrace(node crypto.Hash, number uint64, hashes []crypto.Hash) []byte {
	buf := binary.BigEndian.AppendUint64(append([]byte{}, node[:]...), number)
	for _, h := range hashes {
		buf = append(buf, h[:]...)
	}
	return buf
}

func chainBlake3(node crypto.Hash, number uint64, hashes []crypto.Hash) crypto.Hash {
	h := crypto.Blake3Hash(binary.BigEndian.AppendUint64(append([]byte{}, node[:]...), number))
	for _, x := range hashes {
		h = crypto.Blake3Hash(append(append([]byte{}, h[:]...), x[:]...))
	}
	return h
}

// execConcurrent: `conc <seed> <goroutines> <iterations>` — the startup validator hashes every
// node's rounds in its own goroutine (ValidateGraphEntries). g goroutines, released together, each
// call storage.computeRoundHash `iterations` times on their own round (fresh slices every call);
// every result must equal common.ComputeRoundHash of the same set and the sequential storage
// result. Out is "ok" for a well-formed line; disagreement is a property failure.
func execConcurrent(t []string) Result {
	res := Result{Tags: []string{"conc"}, Out: "ok"}
	seed, _ := strconv.ParseUint(t[1], 10, 64)
	g, _ := strconv.Atoi(t[2])
	iters, _ := strconv.Atoi(t[3])
	if g < 2 || g > 64 || iters < 1 || iters > 100000 {
		panic("harness: bad conc line")
	}
	r := NewRand(seed)
	type job struct {
		node   crypto.Hash
		number uint64
		in     []rhSnap
		want   rhResult
	}
	jobs := make([]job, g)
	for k := range jobs {
		n := r.Range(8, 48)
		base := 1500000000000000000 + r.U64()%1000000000000000
		in := make([]rhSnap, n)
		for i := range in {
			in[i] = rhSnap{version: 2, ts: base + r.U64()%1000, hash: genHash(r)}
		}
		var node crypto.Hash
		copy(node[:], r.Bytes(32))
		jobs[k] = job{node: node, number: r.U64(), in: in}
		jobs[k].want = runCommon(node, jobs[k].number, buildSnaps(in, nil))
		if o := runStorage(node, jobs[k].number, withTopo(buildSnaps(in, nil), r)); o != jobs[k].want {
			res.PropKey = "C18:validator-disagrees"
			res.PropDesc = fmt.Sprintf("sequential storage.computeRoundHash gives %s, common.ComputeRoundHash %s", o, jobs[k].want)
			return res
		}
	}
	start := make(chan struct{})
	bad := make([]string, g)
	var wg sync.WaitGroup
	for k := range jobs {
		wg.Add(1)
		go func(k int) {
			defer wg.Done()
			j := jobs[k]
			// inputs prepared before the release, so that the timed part is the code under test
			sets := make([][]*common.SnapshotWithTopologicalOrder, iters)
			for i := range sets {
				ss := buildSnaps(j.in, nil)
				sets[i] = make([]*common.SnapshotWithTopologicalOrder, len(ss))
				for x, sn := range ss {
					sets[i][x] = &common.SnapshotWithTopologicalOrder{Snapshot: sn, TopologicalOrder: uint64(x)}
				}
			}
			<-start
			for i := 0; i < iters && bad[k] == ""; i++ {
				if o := runStorage(j.node, j.number, sets[i]); o != j.want {
					bad[k] = fmt.Sprintf("goroutine %d of %d, call %d: storage.computeRoundHash gives %s while other rounds are being hashed; common.ComputeRoundHash and the sequential validator give %s", k, g, i, o, j.want)
				}
			}
		}(k)
	}
	close(start)
	wg.Wait()
	for _, b := range bad {
		if b != "" {
			res.PropKey, res.PropDesc = "C18:validator-disagrees", b
			break
		}
	}
	res.Nontrivial = true
	return res
}

func execRoundHash(_ *State, line string) Result {
	t := strings.Fields(line)
	op := t[0]
	if op == "conc" {
		return execConcurrent(t)
	}
	res := Result{Tags: []string{op}}
	node := hash32(UnHex(t[1]))
	number, _ := strconv.ParseUint(t[2], 10, 64)
	n, _ := strconv.Atoi(t[3])
	if n != len(t)-4 {
		panic("harness: bad count in op line")
	}
	in := make([]rhSnap, n)
	for i, f := range t[4:] {
		p := strings.Split(f, ":")
		v, _ := strconv.ParseUint(p[0], 10, 8)
		ts, _ := strconv.ParseUint(p[1], 10, 64)
		in[i] = rhSnap{version: uint8(v), ts: ts, hash: hash32(UnHex(p[2]))}
	}
	fh := fnv.New64a()
	fh.Write([]byte(line))
	r := NewRand(fh.Sum64())

	// the implementation under observation; returns the slice in the order it was left in
	runOp := func(in []rhSnap, other *Rand) (rhResult, bool, []*common.Snapshot) {
		snaps := buildSnaps(in, other)
		switch op {
		case "rh":
			return runCommon(node, number, snaps), false, snaps
		case "rhs":
			ts := withTopo(snaps, r.Fork())
			g := runStorage(node, number, ts)
			for i := range ts {
				snaps[i] = ts[i].Snapshot
			}
			return g, false, snaps
		case "fin":
			g, isNil := runKernel(node, number, snaps)
			return g, isNil, snaps
		}
		panic("harness: unknown op " + op)
	}
	got, nilRound, snaps := runOp(in, r.Fork())
	var order []crypto.Hash
	var firstTs, lastTs uint64
	for _, s := range snaps {
		order = append(order, s.Hash)
	}
	if n > 0 {
		firstTs, lastTs = snaps[0].Timestamp, snaps[n-1].Timestamp
	}
	switch {
	case nilRound:
		res.Out = "nil"
		res.Tags = append(res.Tags, op+":nil")
	case got.panicked:
		res.Out = "panic"
		res.Tags = append(res.Tags, op+":panic")
	default:
		res.Out = fmt.Sprintf("ok %d %d %s", got.start, got.end, Hex(orderTrace(node, number, order)))
		res.Nontrivial = n >= 2
		res.Tags = append(res.Tags, fmt.Sprintf("%s:n<=%d", op, sizeBucket(n)))
		ties := false
		for i := 1; i < n; i++ {
			if snaps[i].Timestamp == snaps[i-1].Timestamp {
				ties = true
			}
		}
		if ties {
			res.Tags = append(res.Tags, op+":equal-timestamps")
		}
	}

	// ---- property mode, real code only
	fail := func(key, desc string) {
		if res.PropKey == "" {
			res.PropKey, res.PropDesc = key, desc
		}
	}
	if !got.panicked && !nilRound {
		if chainBlake3(node, number, order) != got.hash || got.start != firstTs || got.end != lastTs {
			fail("C18:hash-not-chain", "result is not blake3 chained along the sorted slice / start,end are not its first,last timestamp")
		}
	}
	if nilRound {
		return res
	}
	// other fields do not matter (same order of supply, same implementation)
	if o, _, _ := runOp(in, r.Fork()); o != got {
		fail("C18:depends-on-other-fields", fmt.Sprintf("changing fields other than version/timestamp/hash changed the result: %s vs %s", got, o))
	}
	// order of supply does not matter (same implementation)
	var perms [][]rhSnap
	if n >= 2 {
		if n <= 8 {
			for k := 1; k < n; k++ {
				perms = append(perms, append(append([]rhSnap{}, in[k:]...), in[:k]...))
			}
		}
		rev := make([]rhSnap, n)
		for i := range in {
			rev[n-1-i] = in[i]
		}
		perms = append(perms, rev)
		for k := 0; k < 4; k++ {
			perms = append(perms, permute(in, r))
		}
	}
	for _, p := range perms {
		if o, _, _ := runOp(p, nil); o != got {
			fail("C18:order-dependent", fmt.Sprintf("a permutation of the same snapshots gives %s instead of %s", o, got))
		}
	}
	// the implementations agree, on the same and on permuted supplies
	for _, p := range perms {
		if o := runCommon(node, number, buildSnaps(p, nil)); o != got {
			fail("C18:validator-disagrees", fmt.Sprintf("common.ComputeRoundHash on a permutation gives %s, observed %s", o, got))
		}
		if o := runStorage(node, number, withTopo(buildSnaps(p, nil), r)); o != got {
			fail("C18:validator-disagrees", fmt.Sprintf("storage.computeRoundHash on a permutation gives %s, observed %s", o, got))
		}
	}
	// the two other implementations on the same supply order
	if o := runStorage(node, number, withTopo(buildSnaps(in, r.Fork()), r)); o != got {
		fail("C18:validator-disagrees", fmt.Sprintf("storage.computeRoundHash gives %s, observed %s", o, got))
	}
	if o := runCommon(node, number, buildSnaps(in, nil)); o != got {
		fail("C18:validator-disagrees", fmt.Sprintf("common.ComputeRoundHash gives %s, observed %s", o, got))
	}
	if n > 0 {
		if o, isNil := runKernel(node, number, buildSnaps(in, r.Fork())); isNil || o != got {
			fail("C18:live-node-disagrees", fmt.Sprintf("CacheRound.asFinal gives %s, observed %s", o, got))
		}
	}
	return res
}

func sizeBucket(n int) int {
	for _, b := range []int{1, 2, 4, 8, 16, 32, 64} {
		if n <= b {
			return b
		}
	}
	return 1 << 20
}

func genRoundCase(r *Rand, i int, tier string) []string {
	if i%50 == 7 { // concurrent validator batches, spread over the run
		return []string{fmt.Sprintf("conc %d %d %d", r.U64(), Pick(r, []int{4, 8, 12, 16}), Pick(r, []int{100, 200, 400}))}
	}
	gap := uint64(config.SnapshotRoundGap)
	node := genHash(r)
	number := genU64(r)
	var n int
	switch r.Intn(12) {
	case 0:
		n = 0
	case 1:
		n = 1
	case 2:
		n = 2
	case 3:
		n = 64
	case 4:
		n = r.Range(17, 64)
	default:
		n = r.Range(2, 12)
	}
	var base uint64
	switch r.Intn(8) {
	case 0:
		base = 0
	case 1: // start + gap wraps around 2^64
		base = ^uint64(0) - gap + uint64(r.Intn(5)) - 2
	case 2:
		base = ^uint64(0) - uint64(r.Intn(4))
	default:
		base = 1500000000000000000 + r.U64()%1000000000000000
	}
	// timestamps: few distinct values, so that ties are the rule
	distinct := r.Range(1, 4)
	if r.Chance(1, 4) {
		distinct = n + 1
	}
	var offs []uint64
	for k := 0; k < distinct; k++ {
		switch r.Intn(24) {
		case 0:
			offs = append(offs, gap-1)
		case 1:
			offs = append(offs, gap) // one too many when the base is present as well
		case 2:
			offs = append(offs, gap+uint64(r.Intn(3)))
		case 3:
			offs = append(offs, 0)
		default:
			offs = append(offs, r.U64()%gap)
		}
	}
	if r.Chance(3, 4) {
		offs[0] = 0
	}
	// hashes: small pool with shared prefixes, so that equal (ts, hash) pairs occur
	pool := make([]crypto.Hash, r.Range(1, n+2))
	for k := range pool {
		pool[k] = genHash(r)
	}
	vers := []uint8{2, 2, 2, 2, 1, 3, 0, 255}
	mixed := r.Chance(1, 3)
	in := make([]string, n)
	for k := 0; k < n; k++ {
		s := rhSnap{version: 2, ts: base + Pick(r, offs), hash: Pick(r, pool)}
		if r.Chance(3, 4) {
			s.hash = genHash(r)
		}
		if mixed {
			s.version = Pick(r, vers)
		}
		in[k] = s.String()
	}
	op := "rh"
	switch r.Intn(6) {
	case 0:
		op = "rhs"
	case 1:
		op = "fin"
	}
	line := fmt.Sprintf("%s %s %d %d", op, Hex(node[:]), number, n)
	if n > 0 {
		line += " " + strings.Join(in, " ")
	}
	return []string{line}
}

func init() {
	z := strings.Repeat("00", 32)
	a := strings.Repeat("00", 31) + "01"
	b := strings.Repeat("00", 31) + "02"
	c := "ff" + strings.Repeat("00", 31)
	Register(&Subsystem{
		Name: "roundhash",
		Rule: "rounds of 0..64 snapshots supplied in random order, timestamps drawn from 1..4 values inside/at/over " +
			"SnapshotRoundGap (also where start+gap wraps 2^64), hashes from a small pool (equal (timestamp,hash) pairs " +
			"occur), version mixes; each case also run on all rotations (n<=8), the reverse and 4 random permutations and " +
			"through the storage and kernel implementations; every 50th case 4..16 goroutines call the storage validator " +
			"concurrently on different rounds; non-trivial = a hash was produced for >= 2 snapshots; " +
			"distinct = distinct op line",
		Corpus: [][]string{
			{"conc 1 8 400", "conc 2 16 200", "conc 3 4 400"},
			{"rh " + z + " 0 0", "fin " + z + " 0 0", "rhs " + z + " 0 0"},
			// equal timestamps, supplied in descending hash order: a timestamp-only sort keeps this order
			{"rh " + z + " 7 3 2:100:" + c + " 2:100:" + b + " 2:100:" + a,
				"rhs " + z + " 7 3 2:100:" + c + " 2:100:" + b + " 2:100:" + a,
				"fin " + z + " 7 3 2:100:" + c + " 2:100:" + b + " 2:100:" + a},
			// exactly at the gap: panic; one below: fine
			{fmt.Sprintf("rh %s 1 2 2:%d:%s 2:%d:%s", z, 1000+uint64(config.SnapshotRoundGap), a, 1000, b),
				fmt.Sprintf("rh %s 1 2 2:%d:%s 2:%d:%s", z, 999+uint64(config.SnapshotRoundGap), a, 1000, b)},
			// duplicates of one (timestamp, hash) with different versions
			{"rh " + z + " 9 4 1:5:" + a + " 3:5:" + a + " 2:5:" + a + " 2:4:" + c},
		},
		Gen:  genRoundCase,
		Exec: execRoundHash,
	})
}
