package main

// C34 — custodian updates: real common.ParseCustodianUpdateNodesExtra, EncodeCustodianNode and
// Transaction.validateCustodianUpdateNodes (through the verif hook) against
// lean/Mixin/Model/Custodian.lean.
//
// The harness builds update extras with real keys and signatures, then disturbs them
// (ordering, duplicate / shared keys, wrong signers, single-bit mutations, lengths, approval
// over the wrong bytes, previous custodian states, amounts at price±1, transaction shape).
// Signature validity is handed to the model as oracle bits computed with the real Verify.
// Property mode re-checks every clause of the statement on accepted updates with the
// harness' own slicing and the real crypto, independent of the model.

import (
	"bytes"
	"fmt"
	"math/big"
	"sort"
	"strconv"
	"strings"

	"github.com/MixinNetwork/mixin/common"
	"github.com/MixinNetwork/mixin/crypto"
)

const c34NodeSize = 353

type c34Entry struct {
	cust, payee, signer common.Address
	extra               []byte
}

func c34Addr(r *Rand) common.Address {
	a := common.NewAddressFromSeed(r.Bytes(64))
	if r.Bool() { // the shape used for node signer / payee addresses
		a.PrivateViewKey = a.PublicSpendKey.DeterministicHashDerive()
		a.PublicViewKey = a.PrivateViewKey.Public()
	}
	return a
}

func c34Encode(cust, payee, signer common.Address, net crypto.Hash) []byte {
	return common.EncodeCustodianNode(&cust, &payee, &signer.PrivateSpendKey, &payee.PrivateSpendKey, &cust.PrivateSpendKey, net)
}

func c34Entries(r *Rand, n int, net crypto.Hash) []*c34Entry {
	es := make([]*c34Entry, n)
	for i := range es {
		e := &c34Entry{cust: c34Addr(r), payee: c34Addr(r), signer: c34Addr(r)}
		e.extra = c34Encode(e.cust, e.payee, e.signer, net)
		es[i] = e
	}
	return es
}

func c34Sort(es []*c34Entry) {
	sort.Slice(es, func(i, j int) bool {
		return bytes.Compare(es[i].cust.PublicSpendKey[:], es[j].cust.PublicSpendKey[:]) < 0
	})
}

func c34Assemble(cust common.Address, es []*c34Entry) []byte {
	extra := append([]byte{}, cust.PublicSpendKey[:]...)
	extra = append(extra, cust.PublicViewKey[:]...)
	for _, e := range es {
		extra = append(extra, e.extra...)
	}
	return extra
}

func c34Sign(k crypto.Key, msg []byte) []byte {
	s := k.Sign(crypto.Blake3Hash(msg))
	return s[:]
}

func c34NodeCount(r *Rand, tier string) int {
	switch r.Intn(20) {
	case 0:
		return r.Range(0, 6)
	case 1:
		return 7
	case 2:
		return Pick(r, []int{49, 50, 51})
	case 3, 4:
		return r.Range(13, 50)
	default:
		return r.Range(7, 12)
	}
}

// genCustodian builds one scenario; the op line carries everything the executor needs.
func genCustodian(r *Rand, i int, tier string) []string {
	var net crypto.Hash
	copy(net[:], r.Bytes(32))
	if r.Chance(1, 12) {
		return c34GenEncode(r, net)
	}
	n := c34NodeCount(r, tier)
	es := c34Entries(r, n, net)
	tags := []string{}

	// structural disturbances of the entry set
	if n >= 2 && r.Chance(1, 5) {
		i, j := r.Intn(n), r.Intn(n)
		for j == i {
			j = r.Intn(n)
		}
		a, b := es[i], es[j]
		switch r.Intn(10) {
		case 0: // the same entry twice
			es[j] = a
		case 1: // shared payee
			b.payee = a.payee
		case 2: // payee of one is custodian of the other
			b.payee = a.cust
		case 3: // custodian of one is payee of the other
			b.cust = a.payee
		case 4: // payee == custodian within one entry
			b.payee = b.cust
		case 5: // a spend key of b equals a *view* key of a (caught only when a comes first)
			b.payee = common.Address{PrivateSpendKey: a.cust.PrivateViewKey, PublicSpendKey: a.cust.PublicViewKey,
				PrivateViewKey: b.payee.PrivateViewKey, PublicViewKey: b.payee.PublicViewKey}
		case 6: // a view key of b equals a spend key of a (never caught when a comes first)
			b.payee.PublicViewKey = a.cust.PublicSpendKey
		case 7: // custodian spend key of b is a payee view key of a
			b.cust = common.Address{PrivateSpendKey: a.payee.PrivateViewKey, PublicSpendKey: a.payee.PublicViewKey,
				PrivateViewKey: b.cust.PrivateViewKey, PublicViewKey: b.cust.PublicViewKey}
		case 8: // same custodian spend key, different view key
			b.cust = a.cust
			b.cust.PublicViewKey = c34Addr(r).PublicViewKey
		default: // same custodian address, different payee
			b.cust = a.cust
		}
		if es[j] == b {
			b.extra = c34Encode(b.cust, b.payee, b.signer, net)
		}
	}
	// wrong signers
	if n >= 1 && r.Chance(1, 12) {
		e := es[r.Intn(n)]
		wrong := c34Addr(r)
		switch r.Intn(3) {
		case 0:
			e.extra = common.EncodeCustodianNode(&e.cust, &e.payee, &e.signer.PrivateSpendKey, &wrong.PrivateSpendKey, &e.cust.PrivateSpendKey, net)
		case 1:
			e.extra = common.EncodeCustodianNode(&e.cust, &e.payee, &e.signer.PrivateSpendKey, &e.payee.PrivateSpendKey, &wrong.PrivateSpendKey, net)
		default: // payee and custodian signatures exchanged
			x := append([]byte{}, e.extra...)
			copy(x[225:289], e.extra[289:353])
			copy(x[289:353], e.extra[225:289])
			e.extra = x
		}
	}

	// order
	c34Sort(es)
	if n >= 2 {
		switch r.Intn(15) {
		case 0:
			for k := n - 1; k > 0; k-- {
				j := r.Intn(k + 1)
				es[k], es[j] = es[j], es[k]
			}
		case 1:
			k := r.Intn(n - 1)
			es[k], es[k+1] = es[k+1], es[k]
		case 2:
			for a, b := 0, n-1; a < b; a, b = a+1, b-1 {
				es[a], es[b] = es[b], es[a]
			}
		case 3: // sorted, but by another key of the entry
			key := Pick(r, []func(e *c34Entry) []byte{
				func(e *c34Entry) []byte { return e.cust.PublicViewKey[:] },
				func(e *c34Entry) []byte { return e.payee.PublicSpendKey[:] },
				func(e *c34Entry) []byte { return e.extra[129:161] },
			})
			sort.Slice(es, func(i, j int) bool { return bytes.Compare(key(es[i]), key(es[j])) < 0 })
		}
	}

	// previous state
	prevCust := c34Addr(r)
	cust := c34Addr(r)
	sameCust := r.Chance(1, 3)
	if sameCust {
		cust = prevCust
	}
	store := "none"
	var prevEntries []*c34Entry
	switch r.Intn(20) {
	case 0:
	case 1, 2, 3:
		store = "domain:" + Hex(append(append([]byte{}, prevCust.PublicSpendKey[:]...), prevCust.PublicViewKey[:]...))
	default:
		// overlapping node set: some kept, some with another payee, some only in the old set
		for _, e := range es {
			switch r.Intn(8) {
			case 0: // not in the previous set: new
			case 1, 2: // the previous entry differs from the new one in a single field
				prevEntries = append(prevEntries, c34Variant(r, e, net))
			default:
				if sameCust && !r.Chance(1, 10) || r.Chance(2, 3) {
					prevEntries = append(prevEntries, e)
				}
			}
		}
		if r.Chance(1, 3) {
			prevEntries = append(prevEntries, c34Entries(r, r.Range(1, 3), net)...)
		}
		if sameCust && r.Chance(1, 2) { // exactly the same node addresses
			prevEntries = prevEntries[:0]
			for _, e := range es {
				if r.Chance(1, 4) {
					prevEntries = append(prevEntries, c34Variant(r, e, net))
				} else {
					prevEntries = append(prevEntries, e)
				}
			}
		}
		for len(prevEntries) < 7 {
			prevEntries = append(prevEntries, c34Entries(r, 1, net)...)
		}
		// drop exact duplicates (the previous state must itself have been accepted)
		seen := map[crypto.Key]bool{}
		uniq := prevEntries[:0]
		for _, e := range prevEntries {
			if seen[e.cust.PublicSpendKey] || seen[e.payee.PublicSpendKey] {
				continue
			}
			seen[e.cust.PublicSpendKey], seen[e.payee.PublicSpendKey] = true, true
			uniq = append(uniq, e)
		}
		prevEntries = uniq
		for len(prevEntries) < 7 {
			prevEntries = append(prevEntries, c34Entries(r, 1, net)...)
		}
		c34Sort(prevEntries)
		pe := c34Assemble(prevCust, prevEntries)
		pe = append(pe, c34Sign(c34Addr(r).PrivateSpendKey, pe)...)
		g := 0
		if r.Chance(1, 4) {
			g = 1
			if r.Bool() { // genesis parsing tolerates a bad entry signature
				pe[64+225+r.Intn(128)] ^= 1
			}
		} else if r.Chance(1, 30) {
			pe[64+r.Intn(len(pe)-128)] ^= 1 // the store fails to parse the previous update
		}
		store = fmt.Sprintf("extra:%d:%s", g, Hex(pe))
	}
	if r.Chance(1, 40) {
		store = "err"
	}

	// approval
	extra := c34Assemble(cust, es)
	switch r.Intn(18) {
	case 0:
		extra = append(extra, c34Sign(c34Addr(r).PrivateSpendKey, extra)...)
		tags = append(tags, "approval-wrong-key")
	case 1: // over the node entries only
		extra = append(extra, c34Sign(prevCust.PrivateSpendKey, extra[64:])...)
		tags = append(tags, "approval-wrong-prefix")
	case 2: // signed by the new custodian instead of the current one
		extra = append(extra, c34Sign(cust.PrivateSpendKey, extra)...)
	default:
		extra = append(extra, c34Sign(prevCust.PrivateSpendKey, extra)...)
	}

	// byte-level disturbances after signing
	switch r.Intn(20) {
	case 0, 1: // single-bit mutation anywhere
		extra[r.Intn(len(extra))] ^= byte(1 << r.Intn(8))
	case 2: // single-bit mutation inside one entry, by region
		if n > 0 {
			off := 64 + c34NodeSize*r.Intn(n)
			reg := Pick(r, [][2]int{{0, 1}, {1, 33}, {33, 65}, {65, 97}, {97, 129}, {129, 161}, {161, 225}, {225, 289}, {289, 353}})
			extra[off+reg[0]+r.Intn(reg[1]-reg[0])] ^= byte(1 << r.Intn(8))
		}
	case 3:
		switch r.Intn(4) {
		case 0:
			extra = extra[:len(extra)-1]
		case 1:
			extra = append(extra, byte(r.U64()))
		case 2:
			if n > 0 { // one entry removed after signing
				k := 64 + c34NodeSize*r.Intn(n)
				extra = append(append([]byte{}, extra[:k]...), extra[k+c34NodeSize:]...)
			}
		default:
			extra = extra[:r.Intn(len(extra)+1)]
		}
	}

	// amount around the price computed from the *intended* sets
	price := c34Price(extra, c34PrevPairs(store))
	amount := new(big.Int).Set(price)
	switch r.Intn(12) {
	case 0:
		amount.Sub(amount, big.NewInt(1))
	case 1:
		amount.Add(amount, big.NewInt(1))
	case 2:
		amount.SetInt64(0)
	case 3:
		amount.Add(amount, new(big.Int).SetUint64(r.U64()))
	case 4:
		amount.Sub(amount, big.NewInt(100000000))
	}
	if amount.Sign() < 0 {
		amount.SetInt64(0)
	}

	// transaction shape
	ver, asset := 5, common.XINAssetId
	outs := []string{fmt.Sprintf("%d %s 1 fffe40", common.OutputTypeCustodianUpdateNodes, amount)}
	if r.Chance(1, 10) {
		switch r.Intn(7) {
		case 0:
			ver = Pick(r, []int{0, 1, 4, 6, 255})
		case 1:
			copy(asset[:], r.Bytes(32))
		case 2:
			outs = nil
		case 3:
			outs = append(outs, outs[0])
		case 4:
			outs[0] = fmt.Sprintf("%d %s 1 fffe40", Pick(r, []int{0, 0xa3, 0xb0, 0xb2}), amount)
		case 5:
			outs[0] = fmt.Sprintf("%d %s %d fffe40", common.OutputTypeCustodianUpdateNodes, amount, Pick(r, []int{0, 2, 3}))
		default:
			outs[0] = fmt.Sprintf("%d %s 1 %s", common.OutputTypeCustodianUpdateNodes, amount, Pick(r, []string{"fffe01", "fffe41", "fffe", "-", "fffe4000"}))
		}
	}
	line := fmt.Sprintf("validate %d %s %d", ver, Hex(asset[:]), len(outs))
	for _, o := range outs {
		line += " " + o
	}
	line += " " + Hex(extra) + " " + store
	lines := []string{line}
	if r.Chance(1, 4) {
		lines = append(lines, fmt.Sprintf("parse %d %s", r.Intn(2), Hex(extra)))
	}
	return lines
}

// c34Variant derives the previous-state counterpart of an entry by changing exactly one field:
// payee address (whole, spend key only, view key only), custodian view key only, signer / node id.
// Spend keys that are kept keep their private keys, so every variant is fully signed.
func c34Variant(r *Rand, e *c34Entry, net crypto.Hash) *c34Entry {
	p := &c34Entry{cust: e.cust, payee: e.payee, signer: e.signer}
	fresh := c34Addr(r)
	switch r.Intn(8) {
	case 0, 1: // another payee altogether
		p.payee = fresh
	case 2, 3: // payee keeps its spend key, view key differs
		p.payee.PrivateViewKey, p.payee.PublicViewKey = fresh.PrivateViewKey, fresh.PublicViewKey
	case 4: // payee keeps its view key, spend key differs
		p.payee.PrivateSpendKey, p.payee.PublicSpendKey = fresh.PrivateSpendKey, fresh.PublicSpendKey
	case 5, 6: // custodian keeps its spend key, view key differs
		p.cust.PrivateViewKey, p.cust.PublicViewKey = fresh.PrivateViewKey, fresh.PublicViewKey
	default: // another signer (node id and signer signature differ, addresses do not)
		p.signer = fresh
	}
	p.extra = c34Encode(p.cust, p.payee, p.signer, net)
	return p
}

func c34GenEncode(r *Rand, net crypto.Hash) []string {
	return []string{fmt.Sprintf("encode %s %s %s %s", Hex(r.Bytes(64)), Hex(r.Bytes(64)), Hex(r.Bytes(64)), Hex(net[:]))}
}

// c34PrevPairs resolves the store spec the way storage does: parse the stored extra.
// ok=false: the store returns an error; found=false: no custodian.
type c34Prev struct {
	found, err bool
	req        *common.CustodianUpdateRequest
}

func c34PrevPairs(store string) c34Prev {
	switch {
	case store == "none":
		return c34Prev{}
	case store == "err":
		return c34Prev{err: true}
	case strings.HasPrefix(store, "domain:"):
		b := UnHex(store[7:])
		var a common.Address
		copy(a.PublicSpendKey[:], b[:32])
		copy(a.PublicViewKey[:], b[32:])
		return c34Prev{found: true, req: &common.CustodianUpdateRequest{Custodian: &a}}
	case strings.HasPrefix(store, "extra:"):
		f := strings.SplitN(store, ":", 3)
		req, err := common.ParseCustodianUpdateNodesExtra(UnHex(f[2]), f[1] == "1")
		if err != nil {
			return c34Prev{err: true}
		}
		return c34Prev{found: true, req: req}
	}
	panic("harness: bad store spec")
}

type c34Store struct{ p c34Prev }

func (s *c34Store) ReadCustodian(uint64) (*common.CustodianUpdateRequest, error) {
	if s.p.err {
		return nil, fmt.Errorf("store error")
	}
	if !s.p.found {
		return nil, nil
	}
	return s.p.req, nil
}

func c34AddrBytes(a *common.Address) []byte {
	return append(append([]byte{}, a.PublicSpendKey[:]...), a.PublicViewKey[:]...)
}

// c34Price: the price rule of the property statement computed on raw bytes with the harness'
// own slicing: 100 per entry whose custodian address is not in the previous set, 1 per entry
// whose custodian is but whose payee address differs (units of 10^-8).
func c34Price(extra []byte, prev c34Prev) *big.Int {
	old := map[string]string{}
	if prev.found {
		for _, n := range prev.req.Nodes {
			old[string(c34AddrBytes(&n.Custodian))] = string(c34AddrBytes(&n.Payee))
		}
	}
	total := new(big.Int)
	unit := big.NewInt(100000000)
	if len(extra) < 128 {
		return total
	}
	body := extra[64 : len(extra)-64]
	for i := 0; i+c34NodeSize <= len(body); i += c34NodeSize {
		e := body[i : i+c34NodeSize]
		p, ok := old[string(e[1:65])]
		if !ok {
			total.Add(total, new(big.Int).Mul(unit, big.NewInt(100)))
		} else if p != string(e[65:129]) {
			total.Add(total, unit)
		}
	}
	return total
}

func c34ChunkCount(extra []byte) int {
	if len(extra) < 64+c34NodeSize*7+64 || (len(extra)-128)%c34NodeSize != 0 {
		return 0
	}
	return (len(extra) - 128) / c34NodeSize
}

func c34Verify(key, msg, sig []byte) bool {
	var k crypto.Key
	var s crypto.Signature
	copy(k[:], key)
	copy(s[:], sig)
	ok := false
	Catch(func() string { ok = k.Verify(crypto.Blake3Hash(msg), s); return "" })
	return ok
}

// oracle bits for the payee / custodian signature of every entry
func c34Bits(extra []byte) (string, string) {
	k := c34ChunkCount(extra)
	if k == 0 {
		return "-", "-"
	}
	var p, c strings.Builder
	for i := 0; i < k; i++ {
		e := extra[64+i*c34NodeSize : 64+(i+1)*c34NodeSize]
		p.WriteByte('0' + byte(b2i(c34Verify(e[65:97], e[:161], e[225:289]))))
		c.WriteByte('0' + byte(b2i(c34Verify(e[1:33], e[:161], e[289:353]))))
	}
	return p.String(), c.String()
}

func init() {
	Register(&Subsystem{
		Name: "custodian",
		Rule: "custodian update extras built with real keys and signatures for 0..51 nodes (mostly 7..12), then " +
			"disturbed: order (shuffle/swap/reverse), duplicate or shared spend/view keys, wrong signers, single-bit " +
			"mutations by region, length changes, approval by the wrong key or over the wrong bytes, previous states " +
			"(none, bare custodian, stored update with same/different custodian and overlapping node sets, genesis " +
			"parsing), amounts at price-1/price/price+1, transaction shape. non-trivial = update accepted or extra " +
			"parsed; distinct = distinct op line",
		Gen:  genCustodian,
		Exec: execCustodian,
		Corpus: [][]string{
			{"parse 0 -", "parse 1 " + Hex(make([]byte, 64+353*7+64)), "parse 0 " + Hex(make([]byte, 64+353*7+63)),
				"validate 5 " + Hex(common.XINAssetId[:]) + " 0 - none"},
		},
	})
}

func execCustodian(_ *State, line string) Result {
	t := strings.Fields(line)
	res := Result{Tags: []string{t[0]}}
	switch t[0] {
	case "encode":
		return c34ExecEncode(t, res)
	case "parse":
		extra := UnHex(t[2])
		p, c := c34Bits(extra)
		res.LeanIn = fmt.Sprintf("parse %s %s %s %s", t[1], t[2], p, c)
		out, _, _ := Catch(func() string {
			req, err := common.ParseCustodianUpdateNodesExtra(extra, t[1] == "1")
			if err != nil {
				res.Tags = append(res.Tags, "parse:"+errClass(err.Error()))
				return "reject"
			}
			res.Nontrivial = true
			var keys, back []byte
			back = append(back, c34AddrBytes(req.Custodian)...)
			for _, n := range req.Nodes {
				keys = append(keys, c34AddrBytes(&n.Custodian)...)
				keys = append(keys, c34AddrBytes(&n.Payee)...)
				back = append(back, n.Extra...)
			}
			back = append(back, req.Signature[:]...)
			if !bytes.Equal(back, extra) {
				res.PropKey, res.PropDesc = "C34:parse-reencode", "custodian ‖ entries ‖ signature of the parsed request differs from the input"
			}
			if why := c34Canonical(extra, t[1] == "1"); why != "" {
				res.PropKey, res.PropDesc = "C34:parsed-"+why, "ParseCustodianUpdateNodesExtra accepted an extra violating: "+why
			}
			return fmt.Sprintf("ok %s %s %d %s", Hex(c34AddrBytes(req.Custodian)), Hex(req.Signature[:]), len(req.Nodes), Hex(keys))
		})
		res.Out = out
	case "validate":
		return c34ExecValidate(t, res)
	default:
		panic("harness: unknown op " + t[0])
	}
	return res
}

// c34Canonical re-checks the canonical-form clauses on raw bytes with the real crypto.
func c34Canonical(extra []byte, genesis bool) string {
	k := c34ChunkCount(extra)
	if k < 7 {
		return "count"
	}
	seen := map[string]bool{}
	var last []byte
	for i := 0; i < k; i++ {
		e := extra[64+i*c34NodeSize : 64+(i+1)*c34NodeSize]
		if e[0] != 1 {
			return "action"
		}
		cs, ps := e[1:33], e[65:97]
		if last != nil && bytes.Compare(last, cs) >= 0 {
			return "sorted"
		}
		last = cs
		if seen[string(cs)] || seen[string(ps)] || (!genesis && bytes.Equal(cs, ps)) {
			return "unique"
		}
		seen[string(cs)], seen[string(ps)] = true, true
		if !genesis {
			if !c34Verify(ps, e[:161], e[225:289]) {
				return "payee-signature"
			}
			if !c34Verify(cs, e[:161], e[289:353]) {
				return "custodian-signature"
			}
		}
	}
	return ""
}

func c34ExecValidate(t []string, res Result) Result {
	ver, _ := strconv.Atoi(t[1])
	var asset crypto.Hash
	copy(asset[:], UnHex(t[2]))
	nout, _ := strconv.Atoi(t[3])
	tx := &common.Transaction{Version: uint8(ver), Asset: asset}
	pos := 4
	var amount *big.Int
	for i := 0; i < nout; i++ {
		ty, _ := strconv.Atoi(t[pos])
		am := parseBig(t[pos+1])
		nk, _ := strconv.Atoi(t[pos+2])
		out := &common.Output{Type: uint8(ty), Amount: integerFromBig(am), Script: common.Script(UnHex(t[pos+3]))}
		for j := 0; j < nk; j++ {
			k := crypto.Blake3Hash([]byte{byte(j)})
			kk := crypto.Key(k)
			out.Keys = append(out.Keys, &kk)
		}
		tx.Outputs = append(tx.Outputs, out)
		if i == 0 {
			amount = am
		}
		pos += 4
	}
	extra := UnHex(t[pos])
	tx.Extra = extra
	storeSpec := t[pos+1]
	prev := c34PrevPairs(storeSpec)

	// LeanIn: resolved store and oracle bits
	p, c := c34Bits(extra)
	approval := "-"
	storeOut := "none"
	switch {
	case prev.err:
		storeOut = "err"
	case prev.found:
		var sb strings.Builder
		fmt.Fprintf(&sb, "found %s %d", Hex(c34AddrBytes(prev.req.Custodian)), len(prev.req.Nodes))
		for _, n := range prev.req.Nodes {
			fmt.Fprintf(&sb, " %s %s", Hex(c34AddrBytes(&n.Custodian)), Hex(c34AddrBytes(&n.Payee)))
		}
		storeOut = sb.String()
		if len(extra) >= 64 {
			approval = strconv.Itoa(b2i(c34Verify(prev.req.Custodian.PublicSpendKey[:], extra[:len(extra)-64], extra[len(extra)-64:])))
		}
		if len(prev.req.Nodes) == 0 {
			res.Tags = append(res.Tags, "prev:bare-custodian")
		} else {
			res.Tags = append(res.Tags, "prev:stored-update")
		}
	default:
		res.Tags = append(res.Tags, "prev:none")
	}
	res.LeanIn = fmt.Sprintf("validate %s %s %s", Hex(common.XINAssetId[:]), strings.Join(t[1:pos+1], " "),
		strings.Join([]string{p, c, approval, storeOut}, " "))

	var verr error
	out, panicked, _ := Catch(func() string {
		verr = tx.VerifValidateCustodianUpdateNodes(&c34Store{prev}, 1700000000000000000)
		if verr != nil {
			return "reject"
		}
		return "accept"
	})
	res.Out = out
	if panicked {
		res.Tags = append(res.Tags, "validate:panic")
		return res
	}
	if verr != nil {
		res.Tags = append(res.Tags, "reject:"+errClass(verr.Error()))
		return res
	}
	res.Nontrivial = true
	res.Tags = append(res.Tags, fmt.Sprintf("accept:nodes=%d", min(c34ChunkCount(extra), 13)/2*2))

	// property mode: every clause of the statement, on the raw bytes, with the real crypto
	fail := func(key, desc string) {
		if res.PropKey == "" {
			res.PropKey, res.PropDesc = "C34:accepted-"+key, "accepted custodian update violates: "+desc
		}
	}
	if why := c34Canonical(extra, false); why != "" {
		fail(why, why)
	}
	if !prev.found {
		fail("no-custodian", "no current custodian")
		return res
	}
	if !c34Verify(prev.req.Custodian.PublicSpendKey[:], extra[:len(extra)-64], extra[len(extra)-64:]) {
		fail("approval", "approval signature of the current custodian over extra[:len-64]")
	}
	price := c34Price(extra, prev)
	if nout != 1 || amount.Cmp(price) < 0 {
		fail("price", fmt.Sprintf("amount %s below price %s", amount, price))
	}
	if price.Sign() > 0 {
		res.Tags = append(res.Tags, "accept:priced")
		if amount.Cmp(price) == 0 {
			res.Tags = append(res.Tags, "accept:amount=price")
		}
	}
	if ver < 5 || asset != common.XINAssetId || nout != 1 || tx.Outputs[0].Type != common.OutputTypeCustodianUpdateNodes ||
		len(tx.Outputs[0].Keys) != 1 || tx.Outputs[0].Script.String() != "fffe40" {
		fail("shape", "transaction shape")
	}
	if bytes.Equal(extra[:64], c34AddrBytes(prev.req.Custodian)) {
		res.Tags = append(res.Tags, "accept:same-custodian")
		old := map[string]bool{}
		for _, n := range prev.req.Nodes {
			old[string(c34AddrBytes(&n.Custodian))] = true
		}
		k := c34ChunkCount(extra)
		same := len(old) == k
		for i := 0; i < k; i++ {
			if !old[string(extra[64+i*c34NodeSize+1:64+i*c34NodeSize+65])] {
				same = false
			}
		}
		if !same {
			fail("same-custodian-node-set", "same custodian but a different node set")
		}
	}
	return res
}

func c34ExecEncode(t []string, res Result) Result {
	cs, ps, ss := UnHex(t[1]), UnHex(t[2]), UnHex(t[3])
	var net crypto.Hash
	copy(net[:], UnHex(t[4]))
	cust, payee, signer := common.NewAddressFromSeed(cs), common.NewAddressFromSeed(ps), common.NewAddressFromSeed(ss)
	signerAddr := common.Address{PublicSpendKey: signer.PublicSpendKey,
		PublicViewKey: signer.PublicSpendKey.DeterministicHashDerive().Public()}
	nodeId := signerAddr.Hash().ForNetwork(net)
	msg := append([]byte{1}, c34AddrBytes(&cust)...)
	msg = append(msg, c34AddrBytes(&payee)...)
	msg = append(msg, nodeId[:]...)
	s1, s2, s3 := c34Sign(signer.PrivateSpendKey, msg), c34Sign(payee.PrivateSpendKey, msg), c34Sign(cust.PrivateSpendKey, msg)
	res.LeanIn = fmt.Sprintf("encode %s %s %s %s %s %s", Hex(c34AddrBytes(&cust)), Hex(c34AddrBytes(&payee)), Hex(nodeId[:]), Hex(s1), Hex(s2), Hex(s3))
	out, panicked, _ := Catch(func() string {
		extra := c34Encode(cust, payee, signer, net)
		cn, err := common.VerifParseCustodianNode(extra, false)
		if err != nil || cn.Custodian.PublicSpendKey != cust.PublicSpendKey || cn.Custodian.PublicViewKey != cust.PublicViewKey ||
			cn.Payee.PublicSpendKey != payee.PublicSpendKey || cn.Payee.PublicViewKey != payee.PublicViewKey || !bytes.Equal(cn.Extra, extra) {
			res.PropKey, res.PropDesc = "C34:node-roundtrip", "parseCustodianNode(EncodeCustodianNode(…)) does not return the entry"
		}
		return "ok " + Hex(extra)
	})
	res.Out, res.Nontrivial = out, !panicked
	return res
}
