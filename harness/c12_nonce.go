package main

// C12 — a CoSi nonce never answers two different challenges: the real crypto.CosiNonce
// (crypto/nonce.go) driven sequentially and by many goroutines × handle copies, against
// lean/Mixin/Model/Nonce.lean. Challenges come from real CosiSignature objects built over
// random commitment sets, key vectors and messages ("variants"); the model receives their
// numeric values. A `race` line starts k goroutines at once; the schedule decides which call
// is linearised first, so the harness reports the observed winner to the model, which must
// then reproduce every goroutine's outcome. Property mode checks the nonce discipline itself
// and tries the key-extraction equation on every pair of answers.

import (
	"bytes"
	"errors"
	"fmt"
	"math/big"
	"strings"
	"sync"

	"github.com/MixinNetwork/mixin/crypto"
)

type c12NonceVariant struct {
	sig  *crypto.CosiSignature
	msg  crypto.Hash
	chal *big.Int // nil: Challenge fails
}

type c12NonceAnswer struct {
	chal, s, y *big.Int
}

type c12NonceState struct {
	privs    []*big.Int
	pubs     []*crypto.Key
	variants map[int]*c12NonceVariant
	nonce    *crypto.CosiNonce
	z        *big.Int
	answers  []c12NonceAnswer // every successful answer of the current nonce
	book     *c12NonceBook
}

func c12NonceGet(st *State) *c12NonceState {
	if v, ok := st.V["nonce"].(*c12NonceState); ok {
		return v
	}
	v := &c12NonceState{variants: map[int]*c12NonceVariant{}}
	st.V["nonce"] = v
	return v
}

type c12NonceOutcome struct {
	kind string // ok | reuse | err
	s    *big.Int
}

func (o c12NonceOutcome) String() string {
	if o.kind == "ok" {
		return "ok:" + o.s.String()
	}
	return o.kind
}

func c12CallNonce(h *crypto.CosiNonce, v *c12NonceVariant, priv *crypto.Key, pubs []*crypto.Key) (o c12NonceOutcome) {
	defer func() {
		if e := recover(); e != nil {
			o = c12NonceOutcome{kind: "panic"}
		}
	}()
	s, err := h.Response(v.sig, priv, pubs, v.msg)
	switch {
	case err == nil:
		return c12NonceOutcome{kind: "ok", s: c12BytesScalar(s[:])}
	case errors.Is(err, crypto.ErrCosiNonceReuse):
		return c12NonceOutcome{kind: "reuse"}
	default:
		return c12NonceOutcome{kind: "err"}
	}
}

// record checks one outcome against the nonce discipline (independent of the model).
func (ns *c12NonceState) record(res *Result, v *c12NonceVariant, y *big.Int, o c12NonceOutcome) {
	fail := func(key, desc string) {
		if res.PropKey == "" {
			res.PropKey, res.PropDesc = key, desc
		}
	}
	if o.kind == "panic" {
		fail("C12:panic", "Response panicked")
		return
	}
	if v.chal == nil {
		if o.kind != "err" {
			fail("C12:answer-without-challenge", "Response returned "+o.kind+" although Challenge fails")
		}
		return
	}
	if o.kind == "ok" {
		for _, a := range ns.answers {
			if a.chal.Cmp(v.chal) != 0 {
				// two answers for different challenges: try to extract the private key
				d := c12ModL(new(big.Int).Sub(a.chal, v.chal))
				inv := new(big.Int).ModInverse(d, c12EllBig)
				rec := c12ModL(new(big.Int).Mul(c12ModL(new(big.Int).Sub(a.s, o.s)), inv))
				fail("C12:two-challenges-answered", fmt.Sprintf("nonce answered challenges %s and %s; (s1-s2)/(c1-c2) = %s, private key recovered: %v",
					a.chal, v.chal, rec, rec.Cmp(a.y) == 0 || rec.Cmp(y) == 0))
			} else if a.s.Cmp(o.s) != 0 {
				fail("C12:repeat-differs", "same challenge answered with different responses")
			}
		}
		if len(ns.answers) == 0 {
			want := c12ModL(new(big.Int).Add(new(big.Int).Mul(v.chal, y), ns.z))
			if want.Cmp(o.s) != 0 {
				fail("C12:response-value", "first response is not c*y+z")
			}
		}
		ns.answers = append(ns.answers, c12NonceAnswer{chal: v.chal, s: o.s, y: y})
	}
}

// after all outcomes of a step are recorded: everything that was not answered must be a refusal
func (ns *c12NonceState) checkRefusals(res *Result, vs []*c12NonceVariant, os []c12NonceOutcome) {
	if len(ns.answers) == 0 {
		for i, o := range os {
			if vs[i].chal != nil && res.PropKey == "" {
				res.PropKey, res.PropDesc = "C12:fresh-nonce-refused", "unused nonce returned "+o.kind
			}
		}
		return
	}
	bound := ns.answers[0].chal
	for i, o := range os {
		if vs[i].chal == nil || res.PropKey != "" {
			continue
		}
		if vs[i].chal.Cmp(bound) == 0 && o.kind != "ok" {
			res.PropKey, res.PropDesc = "C12:repeat-refused", "the bound challenge was answered with "+o.kind
		}
		if vs[i].chal.Cmp(bound) != 0 && o.kind != "reuse" {
			res.PropKey, res.PropDesc = "C12:other-challenge-not-refused", "a different challenge returned "+o.kind+" instead of ErrCosiNonceReuse"
		}
	}
}

func c12ExecNonce(st *State, line string) Result {
	t := strings.Fields(line)
	ns := c12NonceGet(st)
	res := Result{Tags: []string{t[0]}}
	switch t[0] {
	case "reset":
		res.Out = "ok"
	case "pub":
		ns.privs, ns.pubs = nil, nil
		for _, tok := range t[1:] {
			y := c12ParseBigTok(tok)
			k := c12PointOf(y)
			ns.privs = append(ns.privs, y)
			ns.pubs = append(ns.pubs, &k)
		}
		res.Out = "ok"
	case "badpub": // badpub <i> <hex>: replace a public key by a refused encoding (model: no-op)
		var i int
		fmt.Sscan(t[1], &i)
		var k crypto.Key
		copy(k[:], UnHex(t[2]))
		ns.pubs[i] = &k
		res.Out = "ok"
	case "variant": // variant <id> <msg> <n> (i r)* [challenge]
		var id, n int
		fmt.Sscan(t[1], &id)
		fmt.Sscan(t[3], &n)
		v := &c12NonceVariant{}
		copy(v.msg[:], UnHex(t[2]))
		randoms := map[int]*crypto.Key{}
		for j := 0; j < n; j++ {
			var idx int
			fmt.Sscan(t[4+2*j], &idx)
			k := c12PointOf(c12ParseBigTok(t[5+2*j]))
			randoms[idx] = &k
		}
		sig, err := crypto.CosiAggregateCommitment(randoms)
		if err != nil {
			panic("harness: variant commitments refused: " + err.Error())
		}
		v.sig = sig
		if x, err := sig.Challenge(ns.pubs, v.msg); err == nil {
			v.chal = c12BytesScalar(x.Bytes())
		}
		ns.variants[id] = v
		res.LeanIn = strings.Join(append(append([]string{}, t[:4+2*n]...), c13ChalTok(v.chal)), " ")
		res.Out = "ok"
	case "new": // new <seed hex 64 bytes> [z]
		seed := UnHex(t[1])
		zk := crypto.NewKeyFromSeed(seed)
		ns.z = c12BytesScalar(zk[:])
		ns.nonce = crypto.CosiCommitNonce(bytes.NewReader(seed))
		ns.answers = nil
		res.LeanIn = fmt.Sprintf("new %s %s", t[1], ns.z)
		res.Out = "ok " + ns.z.String()
		if ns.nonce.Public() != c12PointOf(ns.z) {
			res.Out = "ok commitment-mismatch"
			res.PropKey, res.PropDesc = "C12:commitment", "nonce commitment is not z•B"
		}
	case "respond": // respond <handle copy> <signer> <variant>
		if ns.nonce == nil {
			res.Out = "nononce"
			break
		}
		var h, signer, vid int
		fmt.Sscan(t[1], &h)
		fmt.Sscan(t[2], &signer)
		fmt.Sscan(t[3], &vid)
		v := ns.variants[vid]
		handle := ns.nonce
		if h > 0 {
			c := *ns.nonce // a copy of the handle shares the state
			handle = &c
		}
		priv := crypto.Key(c12ScalarBytes(ns.privs[signer]))
		o := c12CallNonce(handle, v, &priv, ns.pubs)
		res.Out = o.String()
		ns.record(&res, v, ns.privs[signer], o)
		ns.checkRefusals(&res, []*c12NonceVariant{v}, []c12NonceOutcome{o})
		res.Tags = append(res.Tags, "respond:"+o.kind)
		res.Nontrivial = o.kind == "ok"
	case "race": // race <signer> <first|?> v1 … vk
		if ns.nonce == nil {
			res.Out = "nononce"
			res.LeanIn = strings.Replace(line, " ? ", " 0 ", 1)
			break
		}
		var signer int
		fmt.Sscan(t[1], &signer)
		vs := make([]*c12NonceVariant, 0, len(t)-3)
		for _, tok := range t[3:] {
			var vid int
			fmt.Sscan(tok, &vid)
			vs = append(vs, ns.variants[vid])
		}
		priv := crypto.Key(c12ScalarBytes(ns.privs[signer]))
		os := make([]c12NonceOutcome, len(vs))
		start := make(chan struct{})
		var wg sync.WaitGroup
		for i := range vs {
			wg.Add(1)
			handle := ns.nonce
			if i%2 == 1 {
				c := *ns.nonce
				handle = &c
			}
			p := priv // every goroutine owns its key buffer
			go func(i int, handle *crypto.CosiNonce) {
				defer wg.Done()
				<-start
				os[i] = c12CallNonce(handle, vs[i], &p, ns.pubs)
			}(i, handle)
		}
		close(start)
		wg.Wait()
		first := 0
		for i, o := range os {
			if o.kind == "ok" {
				first = i
				break
			}
		}
		var outs []string
		distinct := map[string]bool{}
		for i, o := range os {
			outs = append(outs, o.String())
			ns.record(&res, vs[i], ns.privs[signer], o)
			if vs[i].chal != nil {
				distinct[vs[i].chal.String()] = true
			}
		}
		ns.checkRefusals(&res, vs, os)
		res.Out = strings.Join(outs, " ")
		res.LeanIn = fmt.Sprintf("race %s %d %s", t[1], first, strings.Join(t[3:], " "))
		res.Tags = append(res.Tags, fmt.Sprintf("race:goroutines<=%d", c13PopBucket(len(vs))), fmt.Sprintf("race:challenges=%d", len(distinct)))
		res.Nontrivial = len(distinct) >= 2
	case "book", "retrieve":
		return c12ExecNonceBook(ns, t, res)
	default:
		panic("harness: unknown nonce op " + t[0])
	}
	return res
}

func c12GenNonceCase(r *Rand, _ int, tier string) []string {
	lines := []string{"reset"}
	n := 1 + r.Intn(8)
	privs := make([]string, n)
	for i := range privs {
		privs[i] = c12RandScalar(r).String()
	}
	lines = append(lines, "pub "+strings.Join(privs, " "))
	bad := -1
	if n >= 2 && r.Chance(1, 8) {
		bad = 1 + r.Intn(n-1)
		lines = append(lines, fmt.Sprintf("badpub %d %s", bad, c12GenBadPoint(r)))
	}
	seed := r.Bytes(64)
	zk := crypto.NewKeyFromSeed(seed)
	z := c12BytesScalar(zk[:])
	// variants: distinct messages / commitment sets; some are exact duplicates (same challenge
	// through a different CosiSignature object)
	nv := 2 + r.Intn(5)
	var specs []string
	for id := 0; id < nv; id++ {
		if id > 0 && r.Chance(1, 4) {
			specs = append(specs, specs[r.Intn(len(specs))])
		} else {
			var toks []string
			cnt := 0
			for i := 0; i < n; i++ {
				if i == 0 {
					toks = append(toks, fmt.Sprintf("0 %s", z)) // signer 0 commits with this nonce
					cnt++
				} else if r.Bool() && (i != bad || r.Chance(1, 3)) {
					toks = append(toks, fmt.Sprintf("%d %s", i, c12RandScalar(r)))
					cnt++
				}
			}
			specs = append(specs, fmt.Sprintf("%s %d %s", Hex(r.Bytes(32)), cnt, strings.Join(toks, " ")))
		}
		lines = append(lines, fmt.Sprintf("variant %d %s", id, specs[id]))
	}
	lines = append(lines, "new "+Hex(seed))
	maxG := 16
	if tier != "quick" {
		maxG = 48
	}
	rounds := 1 + r.Intn(2)
	for q := 0; q < rounds; q++ {
		if q > 0 {
			lines = append(lines, "new "+Hex(seed)) // same seed again: a fresh handle with the same secret nonce
		}
		for j := r.Intn(3); j > 0 && r.Chance(1, 3); j-- {
			lines = append(lines, fmt.Sprintf("respond %d 0 %d", r.Intn(2), r.Intn(nv)))
		}
		races := 1 + r.Intn(2)
		for w := 0; w < races; w++ {
			k := 2 + r.Intn(maxG-1)
			var vs []string
			pool := nv
			if r.Chance(1, 3) {
				pool = 1 + r.Intn(nv)
			}
			for i := 0; i < k; i++ {
				vs = append(vs, fmt.Sprint(r.Intn(pool)))
			}
			lines = append(lines, fmt.Sprintf("race 0 ? %s", strings.Join(vs, " ")))
		}
		for j := 1 + r.Intn(4); j > 0; j-- {
			lines = append(lines, fmt.Sprintf("respond %d %d %d", r.Intn(2), Pick(r, []int{0, 0, 0, r.Intn(n)}), r.Intn(nv)))
		}
	}
	if r.Chance(1, 6) {
		lines = append(lines, c12GenNonceBook(r)...)
	}
	return lines
}

func init() {
	Register(&Subsystem{
		Name: "nonce",
		Rule: "one case = key vector (1..8), 2..6 challenge variants from real CosiSignature objects (different messages and commitment " +
			"sets, 25% exact duplicates, some with a refused key so that Challenge fails), a CosiNonce from a known seed, then sequential " +
			"Response calls and races of 2..16 (thorough: 48) goroutines over handle copies with mixed variants; non-trivial = a race " +
			"with at least two distinct challenges; distinct = distinct op line",
		Gen:  c12GenNonceCase,
		Exec: c12ExecNonce,
	})
}
