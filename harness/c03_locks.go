package main

// C03 / C04 — lock slots (UTXO, deposit, mint), one-time output keys, prune and finalization:
// a REAL storage.BadgerStore in a scratch directory against lean/Mixin/Model/Locks.lean.
//
// Subsystem "locks": sequential op sequences; after every op the result class and a dump of
// the UTXO / DEPOSIT / MINTUNIVERSAL / TRANSACTION / FINALIZATION / GHOST / UNIQUE key
// families (read raw from Badger through the verif hook) are compared with the model.
// Property mode checks the statements of C03/C04 directly on the before/after dumps.

import (
	"bytes"
	"encoding/binary"
	"fmt"
	"os"
	"runtime/debug"
	"sort"
	"sync"
	"strconv"
	"strings"

	"github.com/MixinNetwork/mixin/common"
	"github.com/MixinNetwork/mixin/crypto"
	"github.com/MixinNetwork/mixin/storage"
)

// the three hard-coded fork exceptions of storage.lockGhostKey; the Lean side derives its
// list from the regenerated source fact, the `exceptions` op compares the two.
var ghostExceptionHex = []string{
	"c63b6373652def5999c1d951fcb8f064db67b7d18565847b921b21639e15dddd",
	"60deaf2471bb0b6481efe9080d8852b020ab2941e7faae21989d2404f34284ee",
	"a558b1efbe27eb6a6f902fd97d4b7e2e3099e6edde1fe6e8e41204e0685fe426",
}

type lockWorld struct {
	store    *storage.BadgerStore
	dir      string
	txs      map[int]*common.VersionedTransaction
	txSpec   map[int]*lockTxSpec
	hashToID map[crypto.Hash]int
	depIDs   map[string]int
	nodes    map[int]crypto.Hash
	nodeIDs  map[crypto.Hash]int
	utxoBase map[string]string // slot -> payload (marshal with LockHash zeroed)
	salt     int               // namespace of this case inside the shared store
	foreign  int               // keys of earlier cases in the shared store (must stay constant)
	ghosts   map[int]crypto.Key
	ghostIDs map[crypto.Key]int
	last     []string // dump after the previous op
	uniKeys  []storage.VerifKV
	uniSize  int
}

type lockTxSpec struct {
	actor int      // 0 none; otherwise Extra starts with the signer / payee keys of this actor
	ins   [][3]int // kind a b
	outs  []lockOut
}

// lockOut: one output, its type byte and its one-time keys
type lockOut struct {
	typ  int
	keys []int
}

// Opening and closing a Badger store costs 0.3-2 s (more once populated), so one store serves lockCasesPerStore
// cases; every case lives in its own namespace (salted hashes, keys, deposit ids, batches)
// and the dump counts the keys of earlier cases, which must not change during a case.
const lockCasesPerStore = 250

var (
	lockStore     *storage.BadgerStore
	lockStoreDir  string
	lockStoreUses int
	lockDirSeq    int
	lockSalt      int
	lockTopo      uint64
)

var lockScratchDir string

// lockScratch: the snapshots DB is opened with SyncWrites (an fsync per update, ~5 ms on
// disk), so the stores live on tmpfs when /dev/shm exists. The directory carries the pid;
// it is removed at exit and directories of dead processes are swept on start.
func lockScratch(st *State) string {
	if lockScratchDir != "" {
		return lockScratchDir
	}
	lockScratchDir = st.Dir
	const shm = "/dev/shm"
	if fi, err := os.Stat(shm); err == nil && fi.IsDir() {
		if ents, err := os.ReadDir(shm); err == nil {
			for _, e := range ents {
				var pid int
				if n, _ := fmt.Sscanf(e.Name(), "verif-locks-%d", &pid); n == 1 {
					if _, err := os.Stat(fmt.Sprintf("/proc/%d", pid)); err != nil {
						_ = os.RemoveAll(shm + "/" + e.Name())
					}
				}
			}
		}
		d := fmt.Sprintf("%s/verif-locks-%d", shm, os.Getpid())
		if err := os.MkdirAll(d, 0o755); err == nil {
			lockScratchDir = d
			AtExit(func() {
				if lockStore != nil {
					_ = lockStore.Close()
				}
				_ = os.RemoveAll(d)
			})
		}
	}
	return lockScratchDir
}

// ghostKeyOf: a valid curve point for every id below 900; ids >= 900 are 32 bytes that are not
// a valid key (only meaningful to validateOutputs, storage never checks).
func (w *lockWorld) ghostKeyOf(k int) crypto.Key {
	ghostKeyCache, ghostKeyIDs := w.ghosts, w.ghostIDs
	if v, ok := ghostKeyCache[k]; ok {
		return v
	}
	var key crypto.Key
	if k >= 900 {
		for i := range key {
			key[i] = 0xff
		}
		key[0] = byte(k)
		key[1] = byte(k >> 8)
		binary.BigEndian.PutUint32(key[4:], uint32(w.salt))
		for key.CheckKey() { // about half of all 32-byte strings decode as curve points
			key[8]++
		}
	} else {
		seed := make([]byte, 64)
		copy(seed, []byte(fmt.Sprintf("verif-ghost-key-%d-%d", w.salt, k)))
		key = crypto.NewKeyFromSeed(seed).Public()
	}
	ghostKeyCache[k] = key
	ghostKeyIDs[key] = k
	return key
}

var lockChains = []crypto.Hash{common.EthereumAssetId, common.BitcoinAssetId}
var lockDepTx = []string{"0xabc", "0xabc:1", "0xabc:1:1", "0xabd"}
var lockDepIdx = []uint64{0, 1, 11}

const lockDepCount = 24

var lockRoundRefs = &common.RoundLink{Self: crypto.Blake3Hash([]byte("verif-self")), External: crypto.Blake3Hash([]byte("verif-external"))}

func (w *lockWorld) deposit(d int) *common.DepositData {
	dd := lockDeposit(d)
	dd.Transaction = fmt.Sprintf("0x%d", w.salt) + dd.Transaction[2:]
	return dd
}

func lockDeposit(d int) *common.DepositData {
	e := d - 1
	if e < 0 || e >= lockDepCount {
		e = 0
	}
	return &common.DepositData{
		Chain:       lockChains[e%2],
		AssetKey:    "0xverifassetkey",
		Transaction: lockDepTx[(e/2)%4],
		Index:       lockDepIdx[(e/8)%3],
		Amount:      common.NewInteger(1),
	}
}

func lockDepositAsset(d *common.DepositData) crypto.Hash {
	return crypto.Blake3Hash(append(d.Chain[:], []byte(d.AssetKey)...))
}

func newLockWorld(st *State) *lockWorld {
	if lockStore != nil && lockStoreUses >= lockCasesPerStore {
		_ = lockStore.Close()
		_ = os.RemoveAll(lockStoreDir)
		lockStore = nil
	}
	fresh := lockStore == nil
	if fresh {
		// Badger keeps a few hundred MB of arenas alive; with the default GC target every small
		// allocation lands on fresh pages (expensive page faults in this VM). Collect often.
		debug.SetGCPercent(10)
		lockDirSeq++
		lockStoreDir = fmt.Sprintf("%s/locks-%d", lockScratch(st), lockDirSeq)
		if err := os.MkdirAll(lockStoreDir, 0o755); err != nil {
			panic(err)
		}
		store, err := storage.NewBadgerStore(nil, lockStoreDir)
		if err != nil {
			panic(err)
		}
		lockStore, lockStoreUses = store, 0
	}
	lockStoreUses++
	lockSalt++
	store, dir := lockStore, lockStoreDir
	w := &lockWorld{store: store, dir: dir, salt: lockSalt, ghosts: map[int]crypto.Key{}, ghostIDs: map[crypto.Key]int{}, txs: map[int]*common.VersionedTransaction{}, txSpec: map[int]*lockTxSpec{},
		hashToID: map[crypto.Hash]int{}, depIDs: map[string]int{}, nodes: map[int]crypto.Hash{}, nodeIDs: map[crypto.Hash]int{},
		utxoBase: map[string]string{}}
	for n := 1; n <= 3; n++ {
		h := crypto.Blake3Hash([]byte(fmt.Sprintf("verif-node-%d", n)))
		w.nodes[n] = h
		w.nodeIDs[h] = n
	}
	if fresh {
		if err := store.VerifPrepareRounds([]crypto.Hash{w.nodes[1], w.nodes[2]}, 1, lockRoundRefs); err != nil {
			panic(err)
		}
	}
	for d := 1; d <= lockDepCount; d++ {
		w.depIDs[string(storage.VerifDepositKeySuffix(w.deposit(d)))] = d
	}
	w.hashToID[crypto.Hash{}] = 0
	for i, hx := range ghostExceptionHex {
		var h crypto.Hash
		copy(h[:], UnHex(hx))
		w.hashToID[h] = 101 + i
	}
	w.foreign = -1
	w.last, _ = w.dumpMode(true)
	return w
}

func (w *lockWorld) txHash(id int) crypto.Hash {
	if id == 0 {
		return crypto.Hash{}
	}
	if id >= 101 && id < 101+len(ghostExceptionHex) {
		var h crypto.Hash
		copy(h[:], UnHex(ghostExceptionHex[id-101]))
		return h
	}
	if ver, ok := w.txs[id]; ok {
		return ver.PayloadHash()
	}
	h := crypto.Blake3Hash([]byte(fmt.Sprintf("verif-unknown-tx-%d-%d", w.salt, id)))
	w.hashToID[h] = id
	return h
}

func (w *lockWorld) idOf(h crypto.Hash) string {
	if id, ok := w.hashToID[h]; ok {
		return strconv.Itoa(id)
	}
	return "?" + h.String()[:8]
}

func (w *lockWorld) known(h crypto.Hash) bool {
	_, ok := w.hashToID[h]
	return ok
}

func (w *lockWorld) batch(b int) uint64 { return uint64(w.salt)*1000 + uint64(b) }

func (w *lockWorld) defTx(id int, spec *lockTxSpec) {
	asset := common.XINAssetId
	tx := common.NewTransactionV5(asset)
	for _, in := range spec.ins {
		switch in[0] {
		case 0:
			tx.Inputs = append(tx.Inputs, &common.Input{Genesis: []byte(fmt.Sprintf("verif-genesis-%d-%d", w.salt, id))})
		case 1:
			d := w.deposit(in[1])
			tx.Asset = lockDepositAsset(d)
			tx.AddDepositInput(d)
		case 2:
			tx.AddUniversalMintInput(w.batch(in[1]), common.NewInteger(uint64(in[2])))
		case 3:
			tx.AddInput(w.txHash(in[1]), uint(in[2]))
		}
	}
	mask := w.ghostKeyOf(899)
	custodian := false
	for _, o := range spec.outs {
		out := &common.Output{Type: uint8(o.typ), Amount: common.NewInteger(1), Script: common.NewThresholdScript(1), Mask: mask}
		if o.typ == common.OutputTypeWithdrawalSubmit {
			out.Withdrawal = &common.WithdrawalData{Address: "0xverif", Tag: ""}
		}
		custodian = custodian || o.typ == common.OutputTypeCustodianUpdateNodes
		for _, k := range o.keys {
			key := w.ghostKeyOf(k)
			out.Keys = append(out.Keys, &key)
		}
		tx.Outputs = append(tx.Outputs, out)
	}
	// Extra: node outputs read signer ‖ payee from its first 64 bytes, a custodian update
	// output parses all of it. References: a withdrawal claim reads References[0] (must be a
	// finalized transaction: the first funding transaction); the last reference makes the hash
	// unique per (case, id).
	tag := []byte(fmt.Sprintf("verif-tx-%d-%d", w.salt, id))
	switch {
	case custodian:
		tx.Extra = lockCustodianExtra()
	case spec.actor > 0:
		signer, payee := w.actorKey(spec.actor, "signer"), w.actorKey(spec.actor, "payee")
		tx.Extra = append(append(append([]byte{}, signer[:]...), payee[:]...), tag...)
	default:
		tx.Extra = tag
	}
	if id != 1 {
		tx.References = append(tx.References, w.txHash(1))
	}
	tx.References = append(tx.References, crypto.Blake3Hash(tag))
	ver := tx.AsVersioned()
	w.txs[id] = ver
	w.txSpec[id] = spec
	w.hashToID[ver.PayloadHash()] = id
}

// caseTime: node and custodian records are global and read "as of snapshot time + 12h"; every
// case lives 2e14 ns (2.3 days) *before* the previous one, so records of earlier cases (later
// times) are invisible to it and each case starts from an empty node / custodian history.
func (w *lockWorld) caseTime() uint64 { return 3_000_000_000_000_000_000 - uint64(w.salt)*200_000_000_000_000 }

func (w *lockWorld) actorKey(a int, role string) crypto.Key {
	seed := make([]byte, 64)
	copy(seed, []byte(fmt.Sprintf("verif-actor-%d-%d-%s", w.salt, a, role)))
	return crypto.NewKeyFromSeed(seed).Public()
}

var lockCustodianExtraCache []byte

// lockCustodianExtra: a well-formed, fully signed custodian update extra (7 nodes), built with
// the repository's own encoder; ParseCustodianUpdateNodesExtra must accept it.
func lockCustodianExtra() []byte {
	if lockCustodianExtraCache != nil {
		return lockCustodianExtraCache
	}
	r := NewRand(0xc04)
	net := crypto.Blake3Hash([]byte("verif-locks-network"))
	es := c34Entries(r, 7, net)
	c34Sort(es)
	cust := c34Addr(r)
	extra := c34Assemble(cust, es)
	extra = append(extra, c34Sign(cust.PrivateSpendKey, extra)...)
	if _, err := common.ParseCustodianUpdateNodesExtra(extra, false); err != nil {
		panic("harness: custodian extra does not parse: " + err.Error())
	}
	lockCustodianExtraCache = extra
	return extra
}

// dump renders the lock-related key families exactly like Mixin.Driver.Locks.render. Keys that
// belong to earlier cases of the shared store are only counted; a change of that count, or a
// key of this case that cannot be decoded, shows up as an extra entry (hence as a diff).
func (w *lockWorld) dump() ([]string, string) { return w.dumpMode(false) }

// universe: every key of the lock families this case can have touched (point reads); the
// full scan at the end of the case (`fulldump`) catches anything outside it.
func (w *lockWorld) universe() []storage.VerifKV {
	if w.uniKeys != nil && w.uniSize == len(w.hashToID)+len(w.ghostIDs) {
		return w.uniKeys
	}
	ks := w.buildUniverse()
	w.uniKeys, w.uniSize = ks, len(w.hashToID)+len(w.ghostIDs)
	return ks
}

func (w *lockWorld) buildUniverse() []storage.VerifKV {
	fu, fd, fm, ft, ff, fg, fq := storage.VerifFamilyNames()
	var ks []storage.VerifKV
	for h := range w.hashToID {
		for _, idx := range []uint{0, 1, 2, 3, 4, 1024} {
			ks = append(ks, storage.VerifKV{Family: fu, Key: storage.VerifUtxoKeySuffix(h, idx)})
		}
		ks = append(ks, storage.VerifKV{Family: ft, Key: append([]byte{}, h[:]...)}, storage.VerifKV{Family: ff, Key: append([]byte{}, h[:]...)})
		for n := 1; n <= 3; n++ {
			ks = append(ks, storage.VerifKV{Family: fq, Key: storage.VerifUniqueKeySuffix(w.nodes[n], h)})
		}
	}
	for k := range w.depIDs {
		ks = append(ks, storage.VerifKV{Family: fd, Key: []byte(k)})
	}
	for b := 0; b <= 9; b++ {
		ks = append(ks, storage.VerifKV{Family: fm, Key: storage.VerifMintKeySuffix(w.batch(b))})
	}
	for k := range w.ghostIDs {
		ks = append(ks, storage.VerifKV{Family: fg, Key: append([]byte{}, k[:]...)})
	}
	return ks
}

func (w *lockWorld) dumpMode(full bool) ([]string, string) {
	fu, fd, fm, ft, ff, fg, fq := storage.VerifFamilyNames()
	var es []string
	var bad string
	foreign := 0
	var kvs []storage.VerifKV
	if full {
		kvs = w.store.VerifDumpLocks()
	} else {
		kvs = w.store.VerifGetLocks(w.universe())
	}
	for _, kv := range kvs {
		switch kv.Family {
		case fu:
			var h crypto.Hash
			if len(kv.Key) >= 33 {
				copy(h[:], kv.Key[:32])
			}
			if !w.known(h) || len(kv.Key) < 33 {
				foreign++
				continue
			}
			idx, n := binary.Varint(kv.Key[32:])
			utxo, err := common.UnmarshalUTXO(kv.Val)
			if err != nil || n <= 0 || utxo.Hash != h || int64(utxo.Index) != idx {
				es = append(es, "U?"+Hex(kv.Key))
				continue
			}
			slot := fmt.Sprintf("U%s.%d", w.idOf(h), idx)
			es = append(es, slot+"="+w.idOf(utxo.LockHash))
			utxo.LockHash = crypto.Hash{}
			payload := string(utxo.Marshal())
			if old, ok := w.utxoBase[slot]; !ok {
				w.utxoBase[slot] = payload
			} else if old != payload {
				bad = "payload of " + slot + " changed"
			}
		case fd:
			d, ok := w.depIDs[string(kv.Key)]
			if !ok {
				foreign++
				continue
			}
			var h crypto.Hash
			copy(h[:], kv.Val)
			if len(kv.Val) != 32 {
				es = append(es, "D?"+Hex(kv.Key))
				continue
			}
			es = append(es, fmt.Sprintf("D%d=%s", d, w.idOf(h)))
		case fm:
			if len(kv.Key) != 8 || binary.BigEndian.Uint64(kv.Key)/1000 != uint64(w.salt) {
				foreign++
				continue
			}
			dist, err := common.UnmarshalMintDistribution(kv.Val)
			if err != nil || dist.Batch != binary.BigEndian.Uint64(kv.Key) {
				es = append(es, "M?"+Hex(kv.Key))
				continue
			}
			amt := dist.Amount.String()
			if strings.HasSuffix(amt, ".00000000") {
				amt = strings.TrimSuffix(amt, ".00000000")
			} else {
				amt = "?" + amt
			}
			es = append(es, fmt.Sprintf("M%d=%s.%s", dist.Batch%1000, w.idOf(dist.Transaction), amt))
		case ft, ff:
			var h crypto.Hash
			copy(h[:], kv.Key)
			if len(kv.Key) != 32 || !w.known(h) {
				foreign++
				continue
			}
			p := "T"
			if kv.Family == ff {
				p = "F"
			}
			es = append(es, p+w.idOf(h))
		case fg:
			var k crypto.Key
			copy(k[:], kv.Key)
			id, ok := w.ghostIDs[k]
			if !ok || len(kv.Key) != 32 {
				foreign++
				continue
			}
			var h crypto.Hash
			copy(h[:], kv.Val)
			if len(kv.Val) != 32 {
				es = append(es, "G?"+Hex(kv.Key))
				continue
			}
			es = append(es, fmt.Sprintf("G%d=%s", id, w.idOf(h)))
		case fq:
			var txh, node crypto.Hash
			if len(kv.Key) == 64 {
				copy(txh[:], kv.Key[:32])
				copy(node[:], kv.Key[32:])
			}
			n, ok := w.nodeIDs[node]
			if len(kv.Key) != 64 || !w.known(txh) || !ok {
				foreign++
				continue
			}
			es = append(es, fmt.Sprintf("Q%d.%s", n, w.idOf(txh)))
		}
	}
	if !full {
	} else if w.foreign < 0 {
		w.foreign = foreign
	} else if foreign != w.foreign {
		es = append(es, fmt.Sprintf("X?%d", foreign-w.foreign))
	}
	sort.Strings(es)
	return es, bad
}

func joinDump(es []string) string {
	if len(es) == 0 {
		return "-"
	}
	return strings.Join(es, ",")
}

func dumpMap(es []string) map[string]string {
	m := map[string]string{}
	for _, e := range es {
		if i := strings.IndexByte(e, '='); i >= 0 {
			m[e[:i]] = e[i+1:]
		} else {
			m[e] = ""
		}
	}
	return m
}

func atoiList(f []string) ([]int, bool) {
	out := make([]int, len(f))
	for i, s := range f {
		n, err := strconv.Atoi(s)
		if err != nil || n < 0 {
			return nil, false
		}
		out[i] = n
	}
	return out, true
}

// parseLockTx parses "id actor nin {kind a b}* nout {typ nk k*}*".
func parseLockTx(a []int) (int, *lockTxSpec, bool) {
	if len(a) < 3 {
		return 0, nil, false
	}
	id, nin := a[0], a[2]
	p := 3
	spec := &lockTxSpec{actor: a[1]}
	for i := 0; i < nin; i++ {
		if p+3 > len(a) || a[p] > 3 {
			return 0, nil, false
		}
		spec.ins = append(spec.ins, [3]int{a[p], a[p+1], a[p+2]})
		p += 3
	}
	if p >= len(a) {
		return 0, nil, false
	}
	nout := a[p]
	p++
	for i := 0; i < nout; i++ {
		if p+1 >= len(a) || a[p] > 255 {
			return 0, nil, false
		}
		typ, nk := a[p], a[p+1]
		p += 2
		if p+nk > len(a) {
			return 0, nil, false
		}
		spec.outs = append(spec.outs, lockOut{typ: typ, keys: append([]int{}, a[p:p+nk]...)})
		p += nk
	}
	if p != len(a) {
		return 0, nil, false
	}
	return id, spec, true
}

func lockErrClass(err error) string {
	if err == nil {
		return "ok"
	}
	return "reject"
}

type lockCall struct {
	kind  string
	tx    int
	fork  bool
	slots []string // dump keys of the requested slots: "U1.0", "D3", "M7"
	amt   int
	keys  []int
	ids   []int // writetx / snapshot transaction ids
	node  int
	line  string
	errText string
	// race only: transactions whose body a concurrent WriteTransaction of the same race stored
	// (it may legitimately land after the prune when its own inputs are still locked by it)
	rewrote map[string]bool
}

// runLockCall runs a prepared call; Badger's optimistic conflicts (WriteTransaction and
// WriteSnapshot commit without / across the store mutex) are retried like the kernel does.
func runLockCall(fn func() error) string {
	out, _ := runLockCallText(fn)
	return out
}

// runLockCallText also returns the error text (used only to tell a ghost-key refusal from a
// refusal by the node / custodian / withdrawal side effect of a finalized output).
func runLockCallText(fn func() error) (string, string) {
	text := ""
	out, _, _ := Catch(func() string {
		for i := 0; ; i++ {
			err := fn()
			if err != nil && i < 200 && strings.Contains(err.Error(), "Transaction Conflict") {
				continue
			}
			if err != nil {
				text = err.Error()
			}
			return lockErrClass(err)
		}
	})
	return out, text
}

// lockSideFlag: what the model is told about the side effects of the finalized outputs (they
// are outside the model): 0 = none failed, 1 = one returned an error, 2 = one panicked.
func lockSideFlag(res, text string) int {
	switch {
	case res == "reject" && !strings.Contains(text, "ghost key"):
		return 1
	case res == "panic":
		return 2
	}
	return 0
}

// execLockCall performs the real storage call.
func (w *lockWorld) execLockCall(line string) (res string, call *lockCall, ok bool) {
	call, fn, ok := w.prepareLockCall(line)
	if !ok {
		return "", nil, false
	}
	res, call.errText = runLockCallText(fn)
	return res, call, true
}

// prepareLockCall parses a call line and builds the real arguments (all bookkeeping of the
// world happens here, sequentially); the returned closure only calls the store.
func (w *lockWorld) prepareLockCall(line string) (call *lockCall, fn func() error, ok bool) {
	f := strings.Fields(line)
	if len(f) == 0 {
		return nil, nil, false
	}
	if n := len(f); n >= 3 && f[n-2] == "!" { // replayed observed form of `snapshot`
		f = f[:n-2]
	}
	a, good := atoiList(f[1:])
	if !good {
		return nil, nil, false
	}
	call = &lockCall{kind: f[0], line: line}
	switch f[0] {
	case "lockutxos":
		if len(a) < 3 || a[1] > 1 || len(a) != 3+2*a[2] {
			return nil, nil, false
		}
		call.tx, call.fork = a[0], a[1] == 1
		var ins []*common.Input
		for i := 0; i < a[2]; i++ {
			h, idx := a[3+2*i], a[4+2*i]
			ins = append(ins, &common.Input{Hash: w.txHash(h), Index: uint(idx)})
			call.slots = append(call.slots, fmt.Sprintf("U%d.%d", h, idx))
		}
		txh := w.txHash(call.tx)
		return call, func() error { return w.store.LockUTXOs(ins, txh, call.fork) }, true
	case "lockdep":
		if len(a) != 3 || a[2] > 1 || a[0] < 1 || a[0] > lockDepCount {
			return nil, nil, false
		}
		call.tx, call.fork = a[1], a[2] == 1
		call.slots = []string{fmt.Sprintf("D%d", a[0])}
		d, txh := w.deposit(a[0]), w.txHash(call.tx)
		return call, func() error { return w.store.LockDepositInput(d, txh, call.fork) }, true
	case "lockmint":
		if len(a) != 4 || a[3] > 1 {
			return nil, nil, false
		}
		call.tx, call.fork, call.amt = a[2], a[3] == 1, a[1]
		call.slots = []string{fmt.Sprintf("M%d", a[0])}
		m := &common.MintData{Group: "UNIVERSAL", Batch: w.batch(a[0]), Amount: common.NewInteger(uint64(a[1]))}
		txh := w.txHash(call.tx)
		return call, func() error { return w.store.LockMintInput(m, txh, call.fork) }, true
	case "lockghost":
		if len(a) < 3 || a[1] > 1 || len(a) != 3+a[2] {
			return nil, nil, false
		}
		call.tx, call.fork, call.keys = a[0], a[1] == 1, a[3:]
		var keys []*crypto.Key
		for _, k := range call.keys {
			key := w.ghostKeyOf(k)
			keys = append(keys, &key)
		}
		txh := w.txHash(call.tx)
		return call, func() error { return w.store.LockGhostKeys(keys, txh, call.fork) }, true
	case "writetx":
		if len(a) != 1 || w.txs[a[0]] == nil {
			return nil, nil, false
		}
		call.ids = a
		ver := w.txs[a[0]]
		return call, func() error { return w.store.WriteTransaction(ver) }, true
	case "snapshot":
		if len(a) < 2 || len(a) != 2+a[1] || a[0] < 1 || a[0] > 3 {
			return nil, nil, false
		}
		call.node = a[0]
		// the snapshot encoder sorts the transaction hashes and refuses duplicates: the
		// finalization order is the hash order, which is what the model is told (LeanIn)
		var hashes []crypto.Hash
		seenID := map[int]bool{}
		for _, id := range a[2:] {
			if w.txs[id] == nil || seenID[id] {
				return nil, nil, false
			}
			seenID[id] = true
			call.ids = append(call.ids, id)
		}
		sort.Slice(call.ids, func(i, j int) bool {
			x, y := w.txs[call.ids[i]].PayloadHash(), w.txs[call.ids[j]].PayloadHash()
			return bytes.Compare(x[:], y[:]) < 0
		})
		for _, id := range call.ids {
			hashes = append(hashes, w.txs[id].PayloadHash())
		}
		if len(hashes) == 0 {
			return nil, nil, false
		}
		lockTopo++
		snap := &common.SnapshotWithTopologicalOrder{
			Snapshot: &common.Snapshot{Version: common.SnapshotVersionCommonEncoding, NodeId: w.nodes[call.node],
				RoundNumber: 1, References: lockRoundRefs, Timestamp: w.caseTime() + lockTopo, Transactions: hashes},
			TopologicalOrder: lockTopo,
		}
		snap.Hash = snap.PayloadHash()
		return call, func() error { return w.store.WriteSnapshot(snap, nil) }, true
	}
	return nil, nil, false
}

// lockProperty checks C03/C04 on the real before/after dumps, without the model.
func (w *lockWorld) lockProperty(call *lockCall, res string, pre, post []string, badPayload string) (key, desc string, tags []string, conflict bool) {
	pm, qm := dumpMap(pre), dumpMap(post)
	same := joinDump(pre) == joinDump(post)
	fail := func(k, d string) {
		if key == "" {
			key, desc = k, d
		}
	}
	if badPayload != "" {
		fail("C03:utxo-payload-changed", badPayload)
	}
	if res != "ok" && !same {
		fail("C03:failed-call-changed-state", "a call that returned "+res+" changed the lock families")
	}
	holderOf := func(m map[string]string, slot string) (string, bool) {
		v, ok := m[slot]
		if !ok {
			return "", false
		}
		if slot[0] == 'M' {
			v = v[:strings.IndexByte(v, '.')]
		}
		if slot[0] == 'U' && v == "0" {
			return "", false
		}
		return v, true
	}
	// every slot: a finalized holder is never displaced; a displaced pending holder loses its body
	for slot, v := range pm {
		if slot[0] != 'U' && slot[0] != 'D' && slot[0] != 'M' {
			continue
		}
		h, held := holderOf(pm, slot)
		if !held {
			continue
		}
		h2, held2 := holderOf(qm, slot)
		if held2 && h2 == h {
			continue
		}
		_ = v
		if _, fin := pm["F"+h]; fin {
			fail("C03:finalized-displaced", slot+" held by finalized transaction "+h+" changed holder")
		}
		if _, body := qm["T"+h]; body && !call.rewrote[h] {
			fail("C03:takeover-body-kept", slot+" taken from "+h+" but its TRANSACTION record is still stored")
		}
		if !call.fork {
			fail("C03:nonfork-displaced", slot+" held by "+h+" changed holder in a non-fork call")
		}
	}
	me := strconv.Itoa(call.tx)
	switch call.kind {
	case "lockutxos", "lockdep", "lockmint":
		allMine := len(call.slots) > 0
		for _, slot := range call.slots {
			h, held := holderOf(pm, slot)
			mine := held && h == me
			if call.kind == "lockmint" && mine {
				v := pm[slot]
				mine = v[strings.IndexByte(v, '.')+1:] == strconv.Itoa(call.amt)
				if !mine {
					held = true
					h = h + "(amount differs)"
				}
			}
			if call.kind == "lockutxos" {
				if _, exists := pm[slot]; !exists {
					allMine = false
					continue
				}
				if call.tx == 0 {
					mine = !held // the zero hash "holds" exactly the unlocked slots
				}
			}
			if held && !mine {
				conflict = true
				if !call.fork && res == "ok" {
					fail("C03:nonfork-admitted", "non-fork request by "+me+" on "+slot+" held by "+h+" succeeded")
				}
			}
			if !mine {
				allMine = false
			}
		}
		if allMine {
			tags = append(tags, "relock")
			if res != "ok" || !same {
				fail("C03:not-idempotent", "re-reserving by the holder "+me+" returned "+res+" or changed state")
			}
		}
		if res == "ok" {
			for _, slot := range call.slots {
				h, held := holderOf(qm, slot)
				if call.kind == "lockutxos" && call.tx == 0 {
					continue
				}
				if !held || h != me {
					fail("C03:lock-not-recorded", slot+" not held by "+me+" after a successful call")
				}
			}
		}
	case "lockghost":
		seen := map[int]bool{}
		dup := false
		exception := call.fork && call.tx >= 101 && call.tx < 101+len(ghostExceptionHex)
		for _, k := range call.keys {
			if seen[k] {
				dup = true
			}
			seen[k] = true
			if v, ok := pm["G"+strconv.Itoa(k)]; ok && v != me {
				conflict = true
				if res == "ok" && !exception {
					fail("C04:foreign-accepted", fmt.Sprintf("key %d bound to %s accepted for %s", k, v, me))
				}
			}
		}
		if dup && res == "ok" {
			fail("C04:duplicate-accepted", "a key list with a repeated key was accepted")
		}
	case "snapshot":
		// Every output the real UnspentOutputs() materialises, of whatever type: none of its keys
		// may belong to another transaction when the finalization succeeds, and after a
		// successful finalization every one of them reads back (ReadGhostKeyLock) as bound to
		// the finalized transaction.
		for _, id := range call.ids {
			if _, fin := pm["F"+strconv.Itoa(id)]; fin {
				continue
			}
			ver := w.txs[id]
			var utxos []*common.UTXOWithLock
			if _, p, _ := Catch(func() string { utxos = ver.UnspentOutputs(); return "" }); p {
				continue
			}
			for _, u := range utxos {
				for _, kp := range u.Keys {
					k := w.ghostIDs[*kp]
					if v, ok := pm["G"+strconv.Itoa(k)]; ok && v != strconv.Itoa(id) {
						conflict = true
						if res == "ok" {
							fail("C04:finalize-foreign-key", fmt.Sprintf("finalized %d (output %d type %#x) with key %d bound to %s", id, u.Index, u.Type, k, v))
						}
					}
					if res == "ok" {
						by, err := w.store.ReadGhostKeyLock(*kp)
						if err != nil || by == nil || *by != ver.PayloadHash() {
							fail("C04:finalized-key-unbound", fmt.Sprintf("finalized %d but key %d of its output %d (type %#x) is not bound to it", id, k, u.Index, u.Type))
						}
					}
				}
				if len(u.Keys) > 0 {
					tags = append(tags, fmt.Sprintf("finalize-keyed/type=%#x/%s", u.Type, res))
				}
			}
		}
	}
	// ghost bindings never change or disappear
	for k, v := range pm {
		if k[0] == 'G' {
			if v2, ok := qm[k]; !ok || v2 != v {
				fail("C04:ghost-rebound", "binding of "+k+" changed from "+v+" to "+v2)
			}
		}
	}
	return
}

func execLocks(st *State, line string) Result {
	if line == "reset" {
		w := newLockWorld(st)
		st.V["lockworld"] = w
		return Result{Out: "ok"}
	}
	w, _ := st.V["lockworld"].(*lockWorld)
	if w == nil {
		return Result{Out: "bad-op"}
	}
	f := strings.Fields(line)
	if len(f) == 0 {
		return Result{Out: "bad-op"}
	}
	switch f[0] {
	case "exceptions":
		return Result{Out: "ok " + strings.Join(ghostExceptionHex, " ")}
	case "fulldump":
		es, _ := w.dumpMode(true)
		return Result{Out: "ok|" + joinDump(es)}
	case "deftx":
		a, ok := atoiList(f[1:])
		if !ok {
			return Result{Out: "bad-op"}
		}
		id, spec, ok := parseLockTx(a)
		if !ok || w.txs[id] != nil {
			return Result{Out: "bad-op"}
		}
		w.defTx(id, spec)
		return Result{Out: "ok"}
	}
	if f[0] == "race" {
		return w.execRace(line)
	}
	if f[0] == "vout" {
		return w.execVout(f)
	}
	pre := w.last
	res, call, ok := w.execLockCall(line)
	if !ok {
		return Result{Out: "bad-op"}
	}
	post, badPayload := w.dump()
	w.last = post
	key, desc, tags, conflict := w.lockProperty(call, res, pre, post, badPayload)
	fk := "nofork"
	if call.fork {
		fk = "fork"
	}
	if call.kind == "writetx" || call.kind == "snapshot" {
		fk = "-"
	}
	cf := "free"
	if conflict {
		cf = "conflict"
	}
	tags = append(tags, call.kind+"/"+fk+"/"+cf+"/"+res)
	leanIn := ""
	if call.kind == "snapshot" {
		leanIn = "snapshot " + fmtInts(append([]int{call.node, len(call.ids)}, call.ids...)...) +
			fmt.Sprintf(" ! %d", lockSideFlag(res, call.errText))
		tags = append(tags, fmt.Sprintf("snapshot/side=%d", lockSideFlag(res, call.errText)))
	}
	return Result{Out: res + "|" + joinDump(post), LeanIn: leanIn, PropKey: key, PropDesc: desc, Tags: tags,
		Nontrivial: conflict || res != "ok"}
}

// ---------------------------------------------------------------- validateOutputs

// execVout: `vout tx fork inputAmount nout {typ amount scriptOk scriptEmpty maskHas maskValid
// withdrawal nkeys k…}*` builds real outputs with those properties (checked against the real
// Script.VerifyFormat / Key.CheckKey) and calls the real Transaction.validateOutputs with the
// BadgerStore as ghost locker.
func (w *lockWorld) execVout(f []string) Result {
	a, ok := atoiList(f[1:])
	if !ok || len(a) < 4 || a[1] > 1 {
		return Result{Out: "bad-op"}
	}
	txid, fork, inAmt, nout := a[0], a[1] == 1, a[2], a[3]
	p := 4
	tx := common.NewTransactionV5(common.XINAssetId)
	var all []int
	for i := 0; i < nout; i++ {
		if p+8 > len(a) {
			return Result{Out: "bad-op"}
		}
		typ, amt, so, se, mh, mv, wd, nk := a[p], a[p+1], a[p+2], a[p+3], a[p+4], a[p+5], a[p+6], a[p+7]
		p += 8
		if p+nk > len(a) || typ > 255 || so > 1 || se > 1 || mh > 1 || mv > 1 || wd > 1 || (so == 1 && se == 1) || (mh == 0 && mv == 1) {
			return Result{Out: "bad-op"}
		}
		out := &common.Output{Type: uint8(typ), Amount: common.NewInteger(uint64(amt))}
		switch {
		case so == 1:
			out.Script = common.NewThresholdScript(1)
		case se == 0:
			out.Script = common.Script{1, 2, 3}
		}
		switch {
		case mh == 1 && mv == 1:
			out.Mask = w.ghostKeyOf(899)
		case mh == 1:
			out.Mask = w.ghostKeyOf(999)
		}
		if wd == 1 {
			out.Withdrawal = &common.WithdrawalData{Address: "0xverif", Tag: ""}
		}
		if (out.Script.VerifyFormat() == nil) != (so == 1) || (len(out.Script) == 0) != (se == 1) ||
			out.Mask.HasValue() != (mh == 1) || (mh == 1 && out.Mask.CheckKey() != (mv == 1)) {
			panic("harness: vout flags do not describe the constructed output")
		}
		for _, k := range a[p : p+nk] {
			key := w.ghostKeyOf(k)
			if key.CheckKey() != (k < 900) {
				panic("harness: key validity convention broken")
			}
			out.Keys = append(out.Keys, &key)
			all = append(all, k)
		}
		p += nk
		tx.Outputs = append(tx.Outputs, out)
	}
	if p != len(a) {
		return Result{Out: "bad-op"}
	}
	hash := w.txHash(txid)
	pre := w.last
	res, _, _ := Catch(func() string {
		return lockErrClass(tx.VerifValidateOutputs(w.store, hash, common.NewInteger(uint64(inAmt)), fork))
	})
	post, _ := w.dump()
	w.last = post
	call := &lockCall{kind: "lockghost", tx: txid, fork: fork, keys: all}
	key, desc, _, conflict := w.lockProperty(call, res, pre, post, "")
	seen := map[int]bool{}
	dup := false
	for _, k := range all {
		dup = dup || seen[k]
		seen[k] = true
	}
	if dup && res == "ok" && key == "" {
		key, desc = "C04:in-tx-duplicate-accepted", "validateOutputs accepted outputs that repeat a key"
	}
	cls := "nodup"
	if dup {
		cls = "dup"
	}
	return Result{Out: res + "|" + joinDump(post), PropKey: key, PropDesc: desc,
		Tags: []string{"vout/" + cls + "/" + res}, Nontrivial: dup || conflict || res != "ok"}
}

// ---------------------------------------------------------------- concurrent calls

// execRace: `race n ; call ; call …` — the n calls are issued by n goroutines released together
// (plus up to 9 goroutines doing reads) against the one store. The observed result classes and
// the final dump go to the Lean driver (LeanIn), which searches a sequential order of the atomic
// model calls that explains them. Property mode checks the per-slot statements directly.
func (w *lockWorld) execRace(line string) Result {
	// a replayed case carries the observed form (`call => res`, `final dump`): strip it
	var segs []string
	for _, sg := range strings.Split(line, " ; ") {
		if strings.HasPrefix(sg, "final ") || sg == "final" {
			continue
		}
		if i := strings.Index(sg, " => "); i >= 0 {
			sg = sg[:i]
		}
		segs = append(segs, sg)
	}
	head := strings.Fields(segs[0])
	if len(head) != 2 || head[0] != "race" {
		return Result{Out: "bad-op"}
	}
	n, err := strconv.Atoi(head[1])
	if err != nil || n != len(segs)-1 || n < 1 || n > 8 {
		return Result{Out: "bad-op"}
	}
	var calls []*lockCall
	var fns []func() error
	for _, sg := range segs[1:] {
		c, fn, ok := w.prepareLockCall(sg)
		if !ok {
			return Result{Out: "bad-op"}
		}
		calls = append(calls, c)
		fns = append(fns, fn)
	}
	pre := w.last
	results := make([]string, n)
	start := make(chan struct{})
	var wg sync.WaitGroup
	for i := range fns {
		wg.Add(1)
		go func(i int) {
			defer wg.Done()
			<-start
			results[i], calls[i].errText = runLockCallText(fns[i])
		}(i)
	}
	// readers: contention on the RWMutex and on Badger read transactions
	readers := int(w.salt+n) % 10
	var probe []crypto.Hash
	for h := range w.hashToID {
		probe = append(probe, h)
	}
	for r := 0; r < readers; r++ {
		wg.Add(1)
		go func(r int) {
			defer wg.Done()
			<-start
			for j := 0; j < 20; j++ {
				h := probe[(r+j)%len(probe)]
				Catch(func() string {
					_, _ = w.store.ReadUTXOLock(h, uint(j%3))
					_, _, _ = w.store.ReadTransaction(h)
					_, _ = w.store.ReadDepositLock(w.deposit(1 + j%lockDepCount))
					return ""
				})
			}
		}(r)
	}
	close(start)
	wg.Wait()
	post, badPayload := w.dump()
	w.last = post

	anyFork := false
	var obs []string
	for i, c := range calls {
		anyFork = anyFork || c.fork
		ln := c.line
		if c.kind == "snapshot" {
			ln = "snapshot " + fmtInts(append([]int{c.node, len(c.ids)}, c.ids...)...) +
				fmt.Sprintf(" ! %d", lockSideFlag(results[i], c.errText))
		}
		obs = append(obs, ln+" => "+results[i])
	}
	leanIn := fmt.Sprintf("race %d ; %s ; final %s", n, strings.Join(obs, " ; "), joinDump(post))
	rewrote := map[string]bool{}
	for i, c := range calls {
		if c.kind == "writetx" && results[i] == "ok" {
			rewrote[strconv.Itoa(c.ids[0])] = true
		}
	}
	key, desc, _, _ := w.lockProperty(&lockCall{kind: "race", fork: anyFork, rewrote: rewrote}, "ok", pre, post, badPayload)
	fail := func(k, d string) {
		if key == "" {
			key, desc = k, d
		}
	}
	pm, qm := dumpMap(pre), dumpMap(post)
	holder := func(m map[string]string, slot string) string {
		v, ok := m[slot]
		if !ok {
			return ""
		}
		if slot[0] == 'M' {
			v = v[:strings.IndexByte(v, '.')]
		}
		if slot[0] == 'U' && v == "0" {
			return ""
		}
		return v
	}
	type slotInfo struct {
		winners   map[int]bool
		forked    bool
		simple    bool // every request is a single-slot non-fork lock by a non-zero transaction
		requests  int
	}
	slots := map[string]*slotInfo{}
	conflict := false
	for i, c := range calls {
		for _, sl := range c.slots {
			si := slots[sl]
			if si == nil {
				si = &slotInfo{winners: map[int]bool{}, simple: true}
				slots[sl] = si
			}
			si.requests++
			if c.fork {
				si.forked = true
			}
			if c.fork || len(c.slots) != 1 || c.tx == 0 {
				si.simple = false
			}
			if results[i] == "ok" {
				si.winners[c.tx] = true
			}
		}
	}
	for sl, si := range slots {
		if _, exists := pm[sl]; sl[0] == 'U' && !exists {
			continue
		}
		if si.requests > 1 {
			conflict = true
		}
		h0 := holder(pm, sl)
		if !si.forked {
			if h0 == "" && len(si.winners) > 1 {
				fail("C03:race-two-winners", fmt.Sprintf("%d different transactions reserved the free slot %s by non-fork calls", len(si.winners), sl))
			}
			if h0 != "" {
				for t := range si.winners {
					if strconv.Itoa(t) != h0 {
						fail("C03:race-nonfork-admitted", fmt.Sprintf("non-fork request by %d succeeded on %s held by %s", t, sl, h0))
					}
				}
			}
			if h0 == "" && si.simple && len(si.winners) != 1 && sl[0] != 'M' {
				fail("C03:race-no-winner", fmt.Sprintf("%d conflicting single-slot non-fork requests on the free slot %s: %d winners", si.requests, sl, len(si.winners)))
			}
		}
		if h1 := holder(qm, sl); h1 != h0 {
			ok := false
			for t := range si.winners {
				if strconv.Itoa(t) == h1 || (t == 0 && h1 == "") {
					ok = true
				}
			}
			if !ok {
				fail("C03:race-holder-unexplained", fmt.Sprintf("%s is held by %q after the race, which no successful call requested", sl, h1))
			}
		}
	}
	// ghost keys: a free key is won by at most one non-exception transaction
	gw := map[int]map[int]bool{}
	for i, c := range calls {
		if c.kind != "lockghost" || results[i] != "ok" || (c.fork && c.tx >= 101 && c.tx < 101+len(ghostExceptionHex)) {
			continue
		}
		for _, k := range c.keys {
			if gw[k] == nil {
				gw[k] = map[int]bool{}
			}
			gw[k][c.tx] = true
		}
	}
	for k, ws := range gw {
		if len(ws) > 1 {
			fail("C04:race-key-two-owners", fmt.Sprintf("key %d accepted for %d different transactions in one race", k, len(ws)))
		}
		if v, ok := qm["G"+strconv.Itoa(k)]; ok {
			for t := range ws {
				if strconv.Itoa(t) != v {
					fail("C04:race-key-not-bound", fmt.Sprintf("key %d accepted for %d but bound to %s", k, t, v))
				}
			}
		}
	}
	tag := "race/free"
	if conflict {
		tag = "race/conflict"
	}
	return Result{Out: "ok|" + joinDump(post), LeanIn: leanIn, PropKey: key, PropDesc: desc,
		Tags: []string{tag, fmt.Sprintf("race/calls=%d", n)}, Nontrivial: conflict}
}

// ---------------------------------------------------------------- generator

func fmtInts(xs ...int) string {
	s := make([]string, len(xs))
	for i, x := range xs {
		s[i] = strconv.Itoa(x)
	}
	return strings.Join(s, " ")
}

type genTx struct {
	id    int
	actor int
	ins   [][3]int
	outs  []lockOut
}

func (t *genTx) line() string {
	a := []int{t.id, t.actor, len(t.ins)}
	for _, in := range t.ins {
		a = append(a, in[0], in[1], in[2])
	}
	a = append(a, len(t.outs))
	for _, o := range t.outs {
		a = append(a, o.typ, len(o.keys))
		a = append(a, o.keys...)
	}
	return "deftx " + fmtInts(a...)
}

// lockOldDeftx converts a corpus line of the first protocol version
// ("deftx id nin {kind a b}* nout {nk k*}*", script outputs only) to the current one.
func lockOldDeftx(line string) string {
	f := strings.Fields(line)
	if len(f) == 0 || f[0] != "deftx" {
		return line
	}
	a, ok := atoiList(f[1:])
	if !ok || len(a) < 2 {
		return line
	}
	t := &genTx{id: a[0]}
	p := 2
	for i := 0; i < a[1]; i++ {
		t.ins = append(t.ins, [3]int{a[p], a[p+1], a[p+2]})
		p += 3
	}
	nout := a[p]
	p++
	for i := 0; i < nout; i++ {
		nk := a[p]
		t.outs = append(t.outs, lockOut{typ: 0, keys: append([]int{}, a[p+1:p+1+nk]...)})
		p += 1 + nk
	}
	return t.line()
}

func lockOldCorpus(cs [][]string) [][]string {
	for _, c := range cs {
		for i := range c {
			c[i] = lockOldDeftx(c[i])
		}
	}
	return cs
}

// lockTypedCorpus (current protocol): keyed outputs of every materialised type finalized
// without a prior admission of their keys (as the genesis load does), then another transaction
// tries to reuse the keys; and finalizations that meet a key reserved by somebody else.
var lockTypedCorpus = [][]string{{
	"reset", "exceptions",
	"deftx 1 1 1 0 0 0 2 164 1 1 0 1 2", "writetx 1", "snapshot 1 1 1", // NodeAccept key 1, script key 2
	"lockghost 90 0 1 1", "lockghost 90 0 1 2", // both refused: bound to 1
	"deftx 2 1 1 0 0 0 1 166 1 1", "writetx 2", "snapshot 1 1 2", // NodeRemove reusing key 1: refused
	"deftx 3 2 1 0 0 0 1 163 1 5", "lockghost 91 0 1 5", "writetx 3", "snapshot 1 1 3", // NodePledge, key reserved by 91
	"deftx 4 0 1 0 0 0 1 177 1 6", "writetx 4", "snapshot 1 1 4", "lockghost 92 0 1 6", // CustodianUpdateNodes
	"deftx 5 0 1 0 0 0 1 169 1 7", "writetx 5", "snapshot 1 1 5", "lockghost 92 0 1 7", // WithdrawalClaim
	"deftx 6 2 1 0 0 0 1 163 1 8", "writetx 6", "snapshot 1 1 6", "lockghost 92 0 1 8", // NodePledge by actor 2
	"deftx 7 2 1 0 0 0 1 170 1 9", "writetx 7", "snapshot 1 1 7", "lockghost 92 0 1 9", // NodeCancel of actor 2
	"deftx 8 1 1 0 0 0 1 166 1 10", "writetx 8", "snapshot 1 1 8", "lockghost 92 0 1 10", // NodeRemove of actor 1
	"deftx 9 0 1 0 0 0 3 161 1 11 178 1 12 0 1 13", "writetx 9", "snapshot 1 1 9", // submit / slash are not materialised
	"lockghost 92 0 2 11 12", "lockghost 93 0 1 13",
	"deftx 10 0 1 0 0 0 1 85 1 14", "writetx 10", "snapshot 1 1 10", // unknown output type
	"fulldump",
}}

// lockOutTypes: every output type the finalization code distinguishes (UnspentOutputs and the
// switch of writeUTXO), plus one it does not know.
var lockOutTypes = []int{
	common.OutputTypeNodePledge, common.OutputTypeNodeAccept, common.OutputTypeNodeCancel, common.OutputTypeNodeRemove,
	common.OutputTypeWithdrawalClaim, common.OutputTypeCustodianUpdateNodes,
	common.OutputTypeWithdrawalSubmit, common.OutputTypeCustodianSlashNodes,
}

// genTypedOuts: n outputs with 0-2 keys from the pool; about a third are non-script outputs.
// Keyed outputs of every type matter: their keys must be relocked at finalization.
func genTypedOuts(r *Rand, n, keyPool int, funding bool) []lockOut {
	var outs []lockOut
	for j := 0; j < n; j++ {
		o := lockOut{}
		if r.Chance(1, 3) {
			o.typ = Pick(r, lockOutTypes)
			if funding && r.Chance(1, 2) {
				o.typ = Pick(r, []int{common.OutputTypeNodeAccept, common.OutputTypeCustodianUpdateNodes})
			}
			if r.Chance(1, 40) {
				o.typ = 0x55
			}
		}
		nk := r.Intn(3)
		if o.typ != 0 && nk == 0 && r.Chance(3, 4) {
			nk = 1
		}
		for c := nk; c > 0; c-- {
			o.keys = append(o.keys, 1+r.Intn(keyPool))
		}
		outs = append(outs, o)
	}
	return outs
}

func (t *genTx) lockInputsLine(fork bool) string {
	switch t.ins[0][0] {
	case 1:
		return "lockdep " + fmtInts(t.ins[0][1], t.id, b2i(fork))
	case 2:
		return "lockmint " + fmtInts(t.ins[0][1], t.ins[0][2], t.id, b2i(fork))
	case 3:
		a := []int{t.id, b2i(fork), len(t.ins)}
		for _, in := range t.ins {
			a = append(a, in[1], in[2])
		}
		return "lockutxos " + fmtInts(a...)
	}
	return ""
}

func (t *genTx) ghostLine(fork bool) string {
	a := []int{t.id, b2i(fork), 0}
	for _, o := range t.outs {
		a = append(a, o.keys...)
	}
	a[2] = len(a) - 3
	return "lockghost " + fmtInts(a...)
}

func genLocks(r *Rand, i int, tier string) []string {
	lines := []string{"reset", "exceptions"}
	keyPool := r.Range(4, 10)
	genOuts := func(n int) []lockOut { return genTypedOuts(r, n, keyPool, false) }
	// one or two funding transactions with genesis inputs
	var txs []*genTx
	nFund := r.Range(1, 2)
	var slots [][2]int
	for id := 1; id <= nFund; id++ {
		// funding transactions (genesis inputs) are finalized without any admission of their keys,
		// like the genesis load; actor 1 becomes an accepted node when a NodeAccept output is there
		t := &genTx{id: id, actor: 1, ins: [][3]int{{0, 0, 0}}, outs: genTypedOuts(r, r.Range(2, 4), keyPool, true)}
		txs = append(txs, t)
		lines = append(lines, t.line(), "writetx "+fmtInts(id))
		if r.Chance(1, 6) {
			lines = append(lines, t.ghostLine(r.Bool()))
		}
		lines = append(lines, "snapshot "+fmtInts(1, 1, id))
		for j := range t.outs {
			slots = append(slots, [2]int{id, j})
		}
	}
	// keyed outputs of every materialised type, finalized without admission (like the genesis
	// load), after a reservation by somebody else, or after their own admission; then reuse
	if r.Chance(1, 2) {
		id := 30
		emit := func(typ, actor int) {
			o := lockOut{typ: typ, keys: []int{1 + r.Intn(keyPool)}}
			if r.Bool() {
				o.keys = append(o.keys, 1+r.Intn(keyPool))
			}
			t := &genTx{id: id, actor: actor, ins: [][3]int{{0, 0, 0}}, outs: []lockOut{o}}
			if r.Chance(1, 3) {
				t.outs = append(t.outs, lockOut{typ: 0, keys: []int{1 + r.Intn(keyPool)}})
			}
			txs = append(txs, t)
			lines = append(lines, t.line())
			switch r.Intn(3) {
			case 1:
				lines = append(lines, "lockghost "+fmtInts(90+r.Intn(3), 0, 1, Pick(r, o.keys)))
			case 2:
				lines = append(lines, t.ghostLine(false))
			}
			lines = append(lines, "writetx "+fmtInts(id), "snapshot "+fmtInts(1, 1, id),
				"lockghost "+fmtInts(93+r.Intn(2), b2i(r.Chance(1, 4)), 1, Pick(r, o.keys)))
			id++
		}
		if r.Chance(1, 3) { // before any pledge is pending: a node is accepted, then removed
			emit(common.OutputTypeNodeAccept, 9)
			emit(common.OutputTypeNodeRemove, 9)
		}
		for q := r.Range(1, 3); q > 0; q-- {
			actor := 4 + q
			switch r.Intn(7) {
			case 0:
				emit(common.OutputTypeScript, actor)
			case 1:
				emit(common.OutputTypeNodeAccept, actor)
			case 2: // a node is accepted, then removed
				emit(common.OutputTypeNodeAccept, actor)
				emit(common.OutputTypeNodeRemove, actor)
			case 3:
				emit(common.OutputTypeNodePledge, actor)
			case 4: // a node pledges, then cancels
				emit(common.OutputTypeNodePledge, actor)
				emit(common.OutputTypeNodeCancel, actor)
			case 5:
				emit(common.OutputTypeWithdrawalClaim, actor)
			default:
				emit(common.OutputTypeCustodianUpdateNodes, actor)
			}
		}
	}
	// spenders with overlapping inputs, deposits and mints that collide
	nSpend := r.Range(3, 7)
	depPool := []int{1 + r.Intn(lockDepCount), 1 + r.Intn(lockDepCount)}
	mintPool := []int{r.Range(1, 3), r.Range(1, 3)}
	for id := nFund + 1; id <= nFund+nSpend; id++ {
		t := &genTx{id: id, actor: r.Range(0, 3), outs: genOuts(r.Range(1, 3))}
		if r.Chance(1, 8) { // a further transaction with genesis input (always writable)
			t.ins = [][3]int{{0, 0, 0}}
			txs = append(txs, t)
			lines = append(lines, t.line())
			continue
		}
		switch c := r.Intn(10); {
		case c < 6:
			n := r.Range(1, 3)
			for j := 0; j < n; j++ {
				s := Pick(r, slots)
				t.ins = append(t.ins, [3]int{3, s[0], s[1]})
			}
		case c < 8:
			t.ins = [][3]int{{1, Pick(r, depPool), 0}}
		default:
			t.ins = [][3]int{{2, Pick(r, mintPool), r.Range(1, 2)}}
		}
		txs = append(txs, t)
		lines = append(lines, t.line())
		if r.Chance(1, 4) {
			// its outputs may be spent by later transactions (only once finalized)
			for j := range t.outs {
				slots = append(slots, [2]int{id, j})
			}
		}
	}
	spenders := txs[nFund:]
	anyTx := func() int {
		switch c := r.Intn(20); {
		case c == 0:
			return 0
		case c == 1:
			return 101 + r.Intn(3)
		case c == 2:
			return 90 + r.Intn(3)
		default:
			return Pick(r, txs).id
		}
	}
	genVout := func() string {
		nout := r.Range(1, 3)
		a := []int{anyTx(), b2i(r.Chance(1, 4)), 0, nout}
		sum := 0
		for j := 0; j < nout; j++ {
			typ, amt := 0, r.Range(1, 3)
			so, se, mh, mv, wd := 1, 0, 1, 1, 0
			switch r.Intn(24) {
			case 0:
				amt = 0
			case 1:
				so, se = 0, 0
			case 2:
				so, se = 0, 1
			case 3:
				mh, mv = 0, 0
			case 4:
				mv = 0
			case 5:
				wd = 1
			case 6:
				typ = Pick(r, []int{0xa1, 0xa9, 0xa3, 0xaa, 0xa4, 0xa6, 0xb1})
			}
			if r.Chance(1, 20) {
				typ, so, se, mh, mv = Pick(r, []int{0xa1, 0xa9, 0xa3, 0xaa, 0xa4}), 0, 1, 0, 0
			}
			sum += amt
			nk := r.Intn(4)
			if typ >= 0xa1 && typ != 0xa6 && typ != 0xb1 && r.Chance(3, 4) {
				nk = 0
			}
			a = append(a, typ, amt, so, se, mh, mv, wd, nk)
			for c := 0; c < nk; c++ {
				k := 1 + r.Intn(keyPool+3)
				if r.Chance(1, 30) {
					k = 900 + r.Intn(3)
				}
				a = append(a, k)
			}
		}
		a[2] = sum
		if r.Chance(1, 12) {
			a[2] = sum + 1
		}
		return "vout " + fmtInts(a...)
	}
	nOps := r.Range(8, 30)
	if tier == "thorough" {
		nOps = r.Range(10, 60)
	}
	for k := 0; k < nOps; k++ {
		t := Pick(r, spenders)
		switch c := r.Intn(20); {
		case c < 4: // ordinary admission: ghost keys, inputs, body
			lines = append(lines, t.ghostLine(false), t.lockInputsLine(false), "writetx "+fmtInts(t.id))
		case c < 7: // finalization path
			lines = append(lines, t.ghostLine(true), t.lockInputsLine(true), "writetx "+fmtInts(t.id))
			if r.Chance(3, 4) {
				lines = append(lines, "snapshot "+fmtInts(r.Range(1, 2), 1, t.id))
			}
		case c < 9:
			lines = append(lines, t.lockInputsLine(r.Bool()))
		case c < 10:
			lines = append(lines, t.ghostLine(r.Bool()))
		case c < 12: // raw utxo lock: arbitrary requester and slots, boundary indices, missing slots
			n := r.Range(1, 3)
			a := []int{anyTx(), b2i(r.Bool()), n}
			for j := 0; j < n; j++ {
				s := Pick(r, slots)
				switch r.Intn(12) {
				case 0:
					s = [2]int{s[0], 1024}
				case 1:
					s = [2]int{s[0], 1025}
				case 2:
					s = [2]int{90, 0}
				}
				a = append(a, s[0], s[1])
			}
			lines = append(lines, "lockutxos "+fmtInts(a...))
		case c < 13:
			lines = append(lines, "lockdep "+fmtInts(Pick(r, depPool), anyTx(), b2i(r.Bool())))
		case c < 14:
			lines = append(lines, "lockmint "+fmtInts(Pick(r, mintPool), r.Range(1, 2), anyTx(), b2i(r.Bool())))
		case c < 16: // raw ghost lock with duplicates and foreign keys
			n := r.Range(0, 4)
			a := []int{anyTx(), b2i(r.Bool()), n}
			for j := 0; j < n; j++ {
				a = append(a, 1+r.Intn(keyPool))
			}
			lines = append(lines, "lockghost "+fmtInts(a...))
		case c < 17:
			lines = append(lines, "writetx "+fmtInts(Pick(r, txs).id))
		case c < 18:
			lines = append(lines, genVout())
		default:
			n := r.Range(1, 2)
			a := []int{r.Range(1, 2), n}
			if r.Chance(1, 15) {
				a[0] = 3
			}
			first := r.Intn(len(txs))
			for j := 0; j < n && j < len(txs); j++ {
				a = append(a, txs[(first+j)%len(txs)].id)
			}
			a[1] = len(a) - 2
			lines = append(lines, "snapshot "+fmtInts(a...))
		}
	}
	return append(lines, "fulldump")
}

func init() {
	voutCorpus := []string{"reset", "exceptions",
		"vout 6 0 2 2 0 1 1 0 1 1 0 2 1 2 0 1 1 0 1 1 0 2 3 1", // key 1 repeated across outputs
		"vout 6 0 1 1 0 1 1 0 1 1 0 2 1 1",                     // repeated inside one output
		"vout 6 0 2 2 0 1 1 0 1 1 0 2 1 2 0 1 1 0 1 1 0 1 3",   // accepted: binds 1 2 3 to 6
		"vout 7 0 1 1 0 1 1 0 1 1 0 1 2",                       // foreign key
		"vout 101 1 1 1 0 1 1 0 1 1 0 1 2",                     // exception on the fork path
		"vout 6 0 1 1 0 1 1 0 1 1 0 1 900",                     // invalid curve point
		"vout 6 0 2 1 0 1 1 0 1 1 0 1 4",                       // amounts differ
		"vout 6 0 1 1 161 1 0 1 0 0 0 0",                       // kernel output: no keys, script, mask
		"vout 6 0 1 1 161 1 0 1 0 0 0 1 5",                     // kernel output with a key
		"fulldump"}
	Register(&Subsystem{
		Name: "locks",
		Rule: "a case = fresh BadgerStore, 1-2 finalized funding transactions, 3-7 spenders with overlapping UTXO/deposit/mint inputs and overlapping output keys, then 8-30 (thorough 10-60) admission / finalization-path / raw lock / WriteTransaction / WriteSnapshot calls; non-trivial = the call met a slot or key held by another transaction, or did not return ok",
		Gen:  genLocks,
		Exec: execLocks,
		Corpus: append(lockOldCorpus([][]string{
			voutCorpus,
			{ // takeover of a pending holder prunes its body; a finalized holder is not displaced
				"reset", "exceptions",
				"deftx 1 1 0 0 0 2 1 1 1 2", "writetx 1", "snapshot 1 1 1",
				"deftx 2 1 3 1 0 1 1 3", "deftx 3 1 3 1 0 1 1 4", "deftx 4 2 3 1 0 3 1 1 1 1 5",
				"lockutxos 2 0 1 1 0", "writetx 2", "lockutxos 3 0 1 1 0", "lockutxos 2 0 1 1 0",
				"lockutxos 3 1 1 1 0", "writetx 3", "writetx 2", "snapshot 1 1 3",
				"lockutxos 2 1 1 1 0", "lockutxos 4 1 2 1 0 1 1", "lockutxos 4 0 2 1 1 1 0", "fulldump",
			},
			{ // ghost keys: foreign rejected, exceptions pass without rebinding, finalization refuses
				"reset", "exceptions",
				"deftx 1 1 0 0 0 1 1 7", "deftx 2 1 0 0 0 2 1 7 1 8",
				"lockghost 1 0 1 7", "lockghost 2 0 2 7 8", "lockghost 2 1 2 7 8", "lockghost 101 1 1 7",
				"lockghost 101 0 1 7", "lockghost 1 0 2 7 7", "lockghost 0 0 1 9", "lockghost 1 0 1 9",
				"writetx 2", "snapshot 1 1 2", "writetx 1", "snapshot 1 1 1", "snapshot 2 1 1", "snapshot 3 1 1", "fulldump",
			},
			{ // deposits that differ only in one field, mint amount mismatch with the same transaction
				"reset", "exceptions",
				"deftx 1 1 1 1 0 1 0", "deftx 2 1 1 1 0 1 0", "deftx 3 1 1 3 0 1 0", "deftx 4 1 2 5 1 1 0", "deftx 5 1 2 5 2 1 0",
				"lockdep 1 1 0", "lockdep 1 2 0", "lockdep 3 3 0", "lockdep 2 2 0", "lockdep 1 1 0", "writetx 1", "lockdep 1 2 1", "writetx 2",
				"snapshot 1 1 2", "lockdep 1 1 1",
				"lockmint 5 1 4 0", "lockmint 5 2 4 0", "lockmint 5 2 4 1", "lockmint 5 2 5 0", "writetx 4", "lockmint 5 2 5 1", "writetx 5", "fulldump",
			},
		}), lockTypedCorpus...),
	})
}

// ---------------------------------------------------------------- concurrent generator

func genLockrace(r *Rand, i int, tier string) []string {
	lines := []string{"reset", "exceptions"}
	keyPool := r.Range(3, 6)
	outs := func(n int) []lockOut {
		os := genTypedOuts(r, n, keyPool, false)
		for j := range os { // races stay on script outputs, with a sprinkle of keyed node outputs
			if os[j].typ != 0 && !r.Chance(1, 4) {
				os[j].typ = 0
			}
			if os[j].typ == 0x55 {
				os[j].typ = 0
			}
		}
		return os
	}
	fund := &genTx{id: 1, ins: [][3]int{{0, 0, 0}}, outs: outs(r.Range(2, 3))}
	lines = append(lines, fund.line(), "writetx 1", "snapshot 1 1 1")
	var slots [][2]int
	for j := range fund.outs {
		slots = append(slots, [2]int{1, j})
	}
	dep := 1 + r.Intn(lockDepCount)
	batch := r.Range(1, 3)
	var txs []*genTx
	nSpend := r.Range(3, 7)
	for id := 2; id < 2+nSpend; id++ {
		t := &genTx{id: id, actor: r.Range(0, 2), outs: outs(r.Range(1, 2))}
		switch c := r.Intn(10); {
		case c < 6:
			n := r.Range(1, 2)
			for j := 0; j < n; j++ {
				s := Pick(r, slots)
				t.ins = append(t.ins, [3]int{3, s[0], s[1]})
			}
		case c < 8:
			t.ins = [][3]int{{1, dep, 0}}
		default:
			t.ins = [][3]int{{2, batch, r.Range(1, 2)}}
		}
		txs = append(txs, t)
		lines = append(lines, t.line())
	}
	call := func() string {
		t := Pick(r, txs)
		switch c := r.Intn(20); {
		case c < 9:
			return t.lockInputsLine(r.Chance(1, 4))
		case c < 13:
			return t.ghostLine(r.Chance(1, 4))
		case c < 15:
			return "writetx " + fmtInts(t.id)
		case c < 17:
			return "snapshot " + fmtInts(r.Range(1, 2), 1, t.id)
		case c < 18:
			n := r.Range(1, 3)
			a := []int{Pick(r, []int{0, 101, 102, 90, t.id}), b2i(r.Bool()), n}
			for j := 0; j < n; j++ {
				a = append(a, 1+r.Intn(keyPool))
			}
			return "lockghost " + fmtInts(a...)
		default:
			s := Pick(r, slots)
			return "lockutxos " + fmtInts(Pick(r, []int{90, 91, t.id}), b2i(r.Chance(1, 3)), 1, s[0], s[1])
		}
	}
	rounds := r.Range(1, 4)
	for k := 0; k < rounds; k++ {
		// a few sequential admissions so that bodies and pending holders exist
		for j := r.Intn(3); j > 0; j-- {
			t := Pick(r, txs)
			lines = append(lines, t.ghostLine(false), t.lockInputsLine(false), "writetx "+fmtInts(t.id))
		}
		n := r.Range(2, 7)
		if r.Chance(1, 3) {
			// the pure double-spend race: everybody wants the same free slot, non-fork
			s := Pick(r, slots)
			var cs []string
			for j := 0; j < n; j++ {
				cs = append(cs, "lockutxos "+fmtInts(20+j, 0, 1, s[0], s[1]))
			}
			lines = append(lines, fmt.Sprintf("race %d ; %s", n, strings.Join(cs, " ; ")))
			continue
		}
		var cs []string
		for j := 0; j < n; j++ {
			cs = append(cs, call())
		}
		lines = append(lines, fmt.Sprintf("race %d ; %s", n, strings.Join(cs, " ; ")))
	}
	return append(lines, "fulldump")
}

func init() {
	Register(&Subsystem{
		Name: "lockrace",
		Rule: "a case = fresh namespace in a real BadgerStore, one finalized funding transaction, 3-7 spenders with colliding inputs/keys, 1-4 races of 2-7 calls issued by concurrent goroutines (plus 0-9 reader goroutines); the Lean driver searches a sequential order of the atomic model calls explaining results and final dump; non-trivial = two calls of a race requested the same slot",
		Gen:  genLockrace,
		Exec: execLocks,
		Corpus: lockOldCorpus([][]string{{
			"reset", "exceptions", "deftx 1 1 0 0 0 2 1 1 1 2", "writetx 1", "snapshot 1 1 1",
			"race 4 ; lockutxos 20 0 1 1 0 ; lockutxos 21 0 1 1 0 ; lockutxos 22 0 1 1 0 ; lockutxos 23 0 1 1 0",
			"race 3 ; lockghost 20 0 1 5 ; lockghost 21 0 1 5 ; lockghost 101 1 1 5",
			"race 3 ; lockdep 1 20 0 ; lockdep 1 21 0 ; lockdep 1 22 1",
			"fulldump",
		}, { // a body written concurrently with the takeover that prunes it may land after the prune
			"reset", "exceptions", "deftx 1 1 0 0 0 2 1 2 0", "writetx 1", "snapshot 1 1 1",
			"deftx 2 1 3 1 0 2 0 0", "deftx 6 1 3 1 1 2 1 4 2 3 5",
			"lockutxos 2 0 1 1 0", "writetx 2", "lockutxos 2 0 1 1 1",
			"race 2 ; lockutxos 6 1 1 1 1 ; writetx 2", "fulldump",
		}}),
	})
}
