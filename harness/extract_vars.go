package main

// Fact extractor, part 2: package-level `var X = common.NewInteger(<const>)` and
// `var X = common.NewInteger(a).Ration(common.NewInteger(b))` declarations (the mint pool,
// the liquidity pool and the yearly percentage are variables, not constants). Emitted as
//
//	def <pkg>_<Name>_NewInteger : Nat := <const>          (whole tokens; ×10^8 base units)
//	def <pkg>_<Name>_num / _den : Nat                      (arguments of the two NewInteger calls)

import (
	"fmt"
	"go/ast"
	"go/token"
	"sort"
	"strings"
)

func newIntegerArg(e ast.Expr) ast.Expr {
	c, ok := e.(*ast.CallExpr)
	if !ok || len(c.Args) != 1 {
		return nil
	}
	switch f := c.Fun.(type) {
	case *ast.Ident:
		if f.Name == "NewInteger" {
			return c.Args[0]
		}
	case *ast.SelectorExpr:
		if x, ok := f.X.(*ast.Ident); ok && x.Name == "common" && f.Sel.Name == "NewInteger" {
			return c.Args[0]
		}
	}
	return nil
}

func emitVarFacts(pkgs map[string]*pkgInfo, pnames []string, eval func(pi *pkgInfo, e ast.Expr, iota int) *constVal,
	lean *strings.Builder, facts map[string]any) {
	for _, p := range pnames {
		pi := pkgs[p]
		out := map[string]string{}
		for _, f := range pi.files {
			for _, d := range f.Decls {
				gd, ok := d.(*ast.GenDecl)
				if !ok || gd.Tok != token.VAR {
					continue
				}
				for _, sp := range gd.Specs {
					vs := sp.(*ast.ValueSpec)
					if len(vs.Values) != len(vs.Names) {
						continue
					}
					for j, nm := range vs.Names {
						id := pi.name + "_" + nm.Name
						if a := newIntegerArg(vs.Values[j]); a != nil {
							if v := eval(pi, a, 0); v != nil && !v.isStr && v.n.Sign() >= 0 {
								out[id+"_NewInteger"] = v.n.String()
							}
							continue
						}
						c, ok := vs.Values[j].(*ast.CallExpr)
						if !ok || len(c.Args) != 1 {
							continue
						}
						sel, ok := c.Fun.(*ast.SelectorExpr)
						if !ok || sel.Sel.Name != "Ration" {
							continue
						}
						x, y := newIntegerArg(sel.X), newIntegerArg(c.Args[0])
						if x == nil || y == nil {
							continue
						}
						vx, vy := eval(pi, x, 0), eval(pi, y, 0)
						if vx == nil || vy == nil || vx.isStr || vy.isStr || vx.n.Sign() < 0 || vy.n.Sign() < 0 {
							continue
						}
						out[id+"_num"] = vx.n.String()
						out[id+"_den"] = vy.n.String()
					}
				}
			}
		}
		var ids []string
		for id := range out {
			ids = append(ids, id)
		}
		sort.Strings(ids)
		for _, id := range ids {
			fmt.Fprintf(lean, "def %s : Nat := %s\n", id, out[id])
			facts[id] = out[id]
		}
	}
	lean.WriteString("\n")
}
