package main

// C13 — collective signatures: the real crypto.CosiAggregateCommitment / Challenge / Response /
// AggregateResponse / VerifyResponse / FullVerify against lean/Mixin/Model/Cosi.lean.
// Points travel as discrete logs (see c12_c14_scalar.go); challenges are computed by the real
// code and handed to the model (token after the op name). Property mode re-evaluates every
// decision with math/big on the discrete logs, independently of the Lean model.

import (
	"fmt"
	"math/big"
	"math/bits"
	"sort"
	"strings"

	"github.com/MixinNetwork/mixin/crypto"
)

type c13CosiState struct {
	pubs     []*crypto.Key
	pubDl    []*big.Int // nil: refused encoding / nil pointer; 0: identity
	msg      crypto.Hash
	sig      *crypto.CosiSignature
	commitDl map[int]*big.Int // discrete logs of the commitments held by sig
	rDl      *big.Int         // discrete log of sig.Signature[:32]; nil = refused bytes / unknown
}

func c13CosiGet(st *State) *c13CosiState {
	if v, ok := st.V["cosi"].(*c13CosiState); ok {
		return v
	}
	v := &c13CosiState{}
	st.V["cosi"] = v
	return v
}

func (cs *c13CosiState) maskKeys() []int {
	var ks []int
	for i := 0; i < 64; i++ {
		if cs.sig.Mask>>uint(i)&1 == 1 {
			ks = append(ks, i)
		}
	}
	return ks
}

// challenge of the current signature through the real code; nil when Challenge fails
func (cs *c13CosiState) challenge() *big.Int {
	if cs.sig == nil {
		return nil
	}
	x, err := cs.sig.Challenge(cs.pubs, cs.msg)
	if err != nil {
		return nil
	}
	return c12BytesScalar(x.Bytes())
}

func c13ChalTok(x *big.Int) string {
	if x == nil {
		return "-"
	}
	return x.String()
}

// oracle: does the aggregate key of the mask exist (all indexes inside the vector, decodable)?
func (cs *c13CosiState) oracleAggKey() (*big.Int, bool) {
	ks := cs.maskKeys()
	if len(ks) == 0 {
		return nil, false
	}
	sum := new(big.Int)
	for _, k := range ks {
		if k >= len(cs.pubs) || cs.pubDl[k] == nil || cs.pubDl[k].Sign() == 0 {
			return nil, false
		}
		sum.Add(sum, cs.pubDl[k])
	}
	return c12ModL(sum), true
}

func c13ExecCosi(st *State, line string) Result {
	t := strings.Fields(line)
	cs := c13CosiGet(st)
	res := Result{Tags: []string{t[0]}}
	if len(t) == 0 {
		panic("harness: empty op")
	}
	needSig := func() bool {
		if cs.sig == nil {
			res.Out = "nosig"
			res.LeanIn = strings.ReplaceAll(line, " ? ", " - ")
			return false
		}
		return true
	}
	switch t[0] {
	case "reset":
		res.Out = "ok"
	case "pub":
		cs.pubs, cs.pubDl = nil, nil
		for _, tok := range t[1:] {
			k, d := c12ParsePointTok(tok)
			cs.pubs = append(cs.pubs, k)
			cs.pubDl = append(cs.pubDl, d)
		}
		res.Out = "ok"
	case "msg":
		copy(cs.msg[:], UnHex(t[1]))
		res.Out = "ok"
	case "commit":
		randoms := map[int]*crypto.Key{}
		dls := map[int]*big.Int{}
		sum := new(big.Int)
		known := true
		for i := 1; i+1 < len(t); i += 2 {
			var idx int
			fmt.Sscan(t[i], &idx)
			k, d := c12ParsePointTok(t[i+1])
			randoms[idx] = k
			dls[idx] = d
			if d == nil {
				known = false
			} else {
				sum.Add(sum, d)
			}
		}
		var c *crypto.CosiSignature
		out, _, _ := Catch(func() string {
			var err error
			c, err = crypto.CosiAggregateCommitment(randoms)
			if err != nil {
				return "err"
			}
			return "ok"
		})
		res.Out = out
		// property: accepted exactly when non-empty, every index in 0..63 and every commitment decodable
		want := len(randoms) > 0
		for idx, d := range dls {
			if idx < 0 || idx >= 64 || d == nil || d.Sign() == 0 {
				want = false
			}
		}
		if (out == "ok") != want {
			res.PropKey, res.PropDesc = "C13:commit-decision", fmt.Sprintf("CosiAggregateCommitment %s, expected accept=%v", out, want)
		}
		if out == "ok" {
			cs.sig, cs.commitDl = c, dls
			rd := "unknown"
			cs.rDl = nil
			if known {
				s := c12ModL(sum)
				if p := c12PointOf(s); string(p[:]) == string(c.Signature[:32]) {
					rd = s.String()
					cs.rDl = s
				}
			}
			res.Out = fmt.Sprintf("ok %d %s", c.Mask, rd)
			var m uint64
			for idx := range randoms {
				m |= 1 << uint(idx)
			}
			if c.Mask != m || rd == "unknown" {
				res.PropKey, res.PropDesc = "C13:commit-value", fmt.Sprintf("mask %x want %x, R %s", c.Mask, m, rd)
			}
			res.Nontrivial = true
		}
		res.Tags = append(res.Tags, "commit:"+out)
	case "setmask":
		if !needSig() {
			break
		}
		m := c12ParseBigTok(t[1])
		cs.sig.Mask = m.Uint64()
		res.Out = "ok"
	case "setsig":
		if !needSig() {
			break
		}
		k, d := c12ParsePointTok(t[1])
		if k == nil {
			panic("harness: setsig needs bytes")
		}
		copy(cs.sig.Signature[:32], k[:])
		sb := c12ScalarBytes(c12ParseBigTok(t[2]))
		copy(cs.sig.Signature[32:], sb[:])
		cs.rDl = d
		res.Out = "ok"
	case "challenge":
		if !needSig() {
			break
		}
		x := cs.challenge()
		_, want := cs.oracleAggKey()
		res.Out = "err"
		if x != nil {
			res.Out = "ok"
		}
		if (x != nil) != want {
			res.PropKey, res.PropDesc = "C13:challenge-decision", fmt.Sprintf("Challenge ok=%v expected %v", x != nil, want)
		}
	case "resp": // resp <x> <y> <z>
		if !needSig() {
			break
		}
		x := cs.challenge()
		y, z := c12ParseBigTok(t[2]), c12ParseBigTok(t[3])
		yk, zk := crypto.Key(c12ScalarBytes(y)), crypto.Key(c12ScalarBytes(z))
		out, _, _ := Catch(func() string {
			s, err := cs.sig.Response(&yk, &zk, cs.pubs, cs.msg)
			if err != nil {
				return "err"
			}
			return "ok " + c12BytesScalar(s[:]).String()
		})
		res.Out = out
		res.LeanIn = fmt.Sprintf("resp %s %s %s", c13ChalTok(x), t[2], t[3])
		if x != nil {
			want := c12ModL(new(big.Int).Add(new(big.Int).Mul(x, y), z))
			if out != "ok "+want.String() {
				res.PropKey, res.PropDesc = "C13:response-value", "Response is not x*y+z: "+out
			}
			res.Nontrivial = true
		} else if out != "err" {
			res.PropKey, res.PropDesc = "C13:response-value", "Response without challenge: "+out
		}
	case "aggresp": // aggresp <x> <strict> (i s)*
		if !needSig() {
			break
		}
		x := cs.challenge()
		strict := t[2] != "0"
		responses := map[int]*[32]byte{}
		vals := map[int]*big.Int{}
		for i := 3; i+1 < len(t); i += 2 {
			var idx int
			fmt.Sscan(t[i], &idx)
			if t[i+1] == "n" {
				responses[idx] = nil
				vals[idx] = nil
				continue
			}
			v := c12ParseBigTok(t[i+1])
			b := c12ScalarBytes(v)
			responses[idx] = &b
			vals[idx] = v
		}
		out, _, _ := Catch(func() string {
			err := cs.sig.AggregateResponse(cs.pubs, responses, cs.msg, strict)
			if err != nil {
				return "err"
			}
			return "ok " + c12BytesScalar(cs.sig.Signature[32:]).String()
		})
		res.Out = out
		head := fmt.Sprintf("aggresp %s %s", c13ChalTok(x), t[2])
		res.LeanIn = strings.Join(append([]string{head}, t[3:]...), " ")
		// independent oracle
		ks := cs.maskKeys()
		want := x != nil && len(ks) == len(responses)
		sum := new(big.Int)
		allValid := true
		for _, k := range ks {
			v := vals[k]
			if k >= len(cs.pubs) || v == nil {
				want = false
				continue
			}
			r := cs.commitDl[k]
			if _, has := cs.commitDl[k]; !has {
				want = false
				continue
			}
			if v.Cmp(c12EllBig) >= 0 {
				want = false
			}
			if x != nil && !c12DlVerify(cs.pubDl[k], r, v, x) {
				allValid = false
			}
			sum.Add(sum, v)
		}
		if strict && !allValid {
			want = false
		}
		wantOut := "err"
		if want {
			wantOut = "ok " + c12ModL(sum).String()
		}
		if out != wantOut {
			key := "C13:aggregate-decision"
			if strict && !allValid && out != "err" {
				key = "C13:bad-share-accepted"
			} else if want && allValid {
				key = "C13:valid-shares-rejected"
			}
			res.PropKey, res.PropDesc = key, fmt.Sprintf("AggregateResponse(strict=%v) -> %s, expected %s", strict, out, wantOut)
		}
		tag := "aggresp:err"
		if out != "err" {
			tag = "aggresp:ok"
			res.Nontrivial = true
			if !allValid {
				tag = "aggresp:ok-with-invalid-share(non-strict)"
			}
		}
		res.Tags = append(res.Tags, tag)
	case "vresp": // vresp <x> <signer> <s|n>
		if !needSig() {
			break
		}
		x := cs.challenge()
		var signer int
		fmt.Sscan(t[2], &signer)
		var sp *[32]byte
		var sv *big.Int
		if t[3] != "n" {
			sv = c12ParseBigTok(t[3])
			b := c12ScalarBytes(sv)
			sp = &b
		}
		out, _, _ := Catch(func() string {
			if cs.sig.VerifyResponse(cs.pubs, signer, sp, cs.msg) != nil {
				return "err"
			}
			return "ok"
		})
		res.Out = out
		res.LeanIn = fmt.Sprintf("vresp %s %s %s", c13ChalTok(x), t[2], t[3])
		want := sv != nil && x != nil
		inMask := false
		for _, k := range cs.maskKeys() {
			if k >= len(cs.pubs) {
				want = false
			}
			if k == signer {
				inMask = true
			}
		}
		r, has := cs.commitDl[signer]
		if !inMask || !has {
			want = false
		}
		if want {
			want = c12DlVerify(cs.pubDl[signer], r, sv, x)
		}
		if (out == "ok") != want {
			key := "C13:verify-response-decision"
			if out == "ok" {
				key = "C13:bad-share-accepted"
			}
			res.PropKey, res.PropDesc = key, fmt.Sprintf("VerifyResponse(signer=%d) -> %s, expected ok=%v", signer, out, want)
		}
		res.Tags = append(res.Tags, "vresp:"+out)
		res.Nontrivial = out == "ok"
	case "fullverify": // fullverify <x> <threshold>
		if !needSig() {
			break
		}
		x := cs.challenge()
		var th int
		fmt.Sscan(t[2], &th)
		out, _, _ := Catch(func() string {
			if cs.sig.FullVerify(cs.pubs, th, cs.msg) != nil {
				return "err"
			}
			return "ok"
		})
		res.Out = out
		res.LeanIn = fmt.Sprintf("fullverify %s %s", c13ChalTok(x), t[2])
		a, okA := cs.oracleAggKey()
		pop := bits.OnesCount64(cs.sig.Mask)
		want := th > 0 && pop >= th && okA && x != nil
		if want {
			want = c12DlVerify(a, cs.rDl, c12BytesScalar(cs.sig.Signature[32:]), x)
		}
		if (out == "ok") != want {
			key := "C13:fullverify-accepts"
			if out != "ok" {
				key = "C13:valid-signature-rejected"
			}
			res.PropKey, res.PropDesc = key, fmt.Sprintf("FullVerify(threshold=%d, mask=%x, keys=%d) -> %s, expected ok=%v", th, cs.sig.Mask, len(cs.pubs), out, want)
		}
		res.Tags = append(res.Tags, "fullverify:"+out, fmt.Sprintf("fullverify:pop%d", c13PopBucket(pop)))
		res.Nontrivial = out == "ok"
	default:
		panic("harness: unknown cosi op " + t[0])
	}
	return res
}

func c13PopBucket(p int) int {
	switch {
	case p <= 1:
		return p
	case p <= 4:
		return 4
	case p <= 16:
		return 16
	case p <= 32:
		return 32
	default:
		return 64
	}
}

func c13GenCosiCase(r *Rand, _ int, tier string) []string {
	sh := &State{V: map[string]any{}}
	var lines []string
	emit := func(l string) Result {
		lines = append(lines, l)
		return c13ExecCosi(sh, l)
	}
	emit("reset")
	n := Pick(r, []int{1, 2, 3, 4, 5, 8, 13, 21, 33, 63, 64, 64, 65, 70})
	if tier == "quick" && r.Chance(2, 3) {
		n = Pick(r, []int{1, 2, 3, 4, 5, 7, 8})
	}
	privs := make([]*big.Int, n)
	toks := make([]string, n)
	for i := range privs {
		privs[i] = c12RandScalar(r)
		toks[i] = privs[i].String()
	}
	if n >= 2 && r.Chance(1, 25) { // a key and its negation
		i, j := r.Intn(n), r.Intn(n)
		if i != j {
			privs[j] = new(big.Int).Sub(c12EllBig, privs[i])
			toks[j] = privs[j].String()
		}
	}
	if r.Chance(1, 20) {
		i := r.Intn(n)
		privs[i] = nil
		switch r.Intn(4) {
		case 0:
			toks[i] = "xnil"
		case 1:
			toks[i] = "0"
			privs[i] = new(big.Int)
		default:
			toks[i] = "x" + c12GenBadPoint(r)
		}
	}
	emit("pub " + strings.Join(toks, " "))
	emit("msg " + Hex(r.Bytes(32)))

	// signer set
	lim := n
	if lim > 64 {
		lim = 64
	}
	var set []int
	k := 1 + r.Intn(lim)
	if r.Chance(1, 4) {
		k = lim
	}
	perm := make([]int, lim)
	for i := range perm {
		perm[i] = i
	}
	for i := lim - 1; i > 0; i-- {
		j := r.Intn(i + 1)
		perm[i], perm[j] = perm[j], perm[i]
	}
	set = append(set, perm[:k]...)
	if r.Chance(1, 15) && n < 64 {
		set = append(set, n) // index == len(publics): commitment accepted, later steps refuse
	}
	if r.Chance(1, 40) {
		set = append(set, Pick(r, []int{64, -1, 65, 1 << 20, -64}))
	}
	rs := map[int]*big.Int{}
	var ctoks []string
	for _, i := range set {
		rs[i] = c12RandScalar(r)
	}
	if len(set) >= 2 && r.Chance(1, 40) { // commitments cancel: R = identity
		sum := new(big.Int)
		for _, i := range set[1:] {
			sum.Add(sum, rs[i])
		}
		rs[set[0]] = c12ModL(new(big.Int).Neg(sum))
	}
	for _, i := range set {
		tok := rs[i].String()
		if r.Chance(1, 60) {
			tok = Pick(r, []string{"xnil", "0", "x" + c12GenBadPoint(r)})
		}
		ctoks = append(ctoks, fmt.Sprintf("%d %s", i, tok))
	}
	if r.Chance(1, 60) {
		ctoks = nil
	}
	cres := emit(strings.TrimSpace("commit " + strings.Join(ctoks, " ")))
	cs := c13CosiGet(sh)
	if !strings.HasPrefix(cres.Out, "ok") {
		emit("challenge")
		emit("fullverify ? 1")
		return lines
	}
	emit("challenge")
	if r.Chance(1, 10) { // mask tampered before the responses are collected
		emit(fmt.Sprintf("setmask %d", cs.sig.Mask^(1<<uint(r.Intn(lim+1)%64))))
		emit("challenge")
	}
	x := cs.challenge()
	xv := x
	if xv == nil {
		xv = c12RandScalar(r)
	}
	share := func(i int) *big.Int {
		a := new(big.Int)
		if i < len(privs) && privs[i] != nil {
			a = privs[i]
		}
		rr := rs[i]
		if rr == nil {
			rr = new(big.Int)
		}
		return c12ModL(new(big.Int).Add(new(big.Int).Mul(xv, a), rr))
	}
	// one real Response call
	if i := set[0]; i < len(privs) && privs[i] != nil && privs[i].Sign() != 0 {
		emit(fmt.Sprintf("resp ? %s %s", privs[i], rs[i]))
	}
	sort.Ints(set)
	shares := map[int]*big.Int{}
	for _, i := range set {
		shares[i] = share(i)
	}
	order := append([]int(nil), set...)
	kind := r.Intn(20)
	nilIdx := -1 << 30
	switch {
	case kind < 11: // honest
	case kind == 11:
		i := Pick(r, set)
		shares[i] = c12ModL(new(big.Int).Add(shares[i], big.NewInt(int64(1+r.Intn(3)))))
	case kind == 12 && len(set) >= 2: // compensating errors: the sum is still right
		i, j := set[0], set[len(set)-1]
		d := c12RandScalar(r)
		shares[i] = c12ModL(new(big.Int).Add(shares[i], d))
		shares[j] = c12ModL(new(big.Int).Sub(shares[j], d))
	case kind == 13: // non-canonical scalar
		i := Pick(r, set)
		shares[i] = new(big.Int).Add(shares[i], c12EllBig)
	case kind == 14:
		nilIdx = Pick(r, set)
	case kind == 15: // missing
		i := r.Intn(len(order))
		order = append(order[:i:i], order[i+1:]...)
	case kind == 16: // extra
		e := r.Intn(66) - 1
		if _, dup := shares[e]; !dup {
			order = append(order, e)
			shares[e] = c12RandScalar(r)
			if r.Bool() {
				nilIdx = e
			}
		}
	case kind == 17: // share of another signer
		i, j := Pick(r, set), Pick(r, set)
		shares[i] = shares[j]
	case kind == 18: // bit flip
		i := Pick(r, set)
		b := new(big.Int).Set(shares[i])
		bit := r.Intn(256)
		if b.Bit(bit) == 0 {
			b.SetBit(b, bit, 1)
		} else {
			b.SetBit(b, bit, 0)
		}
		shares[i] = b
	default:
	}
	// random map order
	for i := len(order) - 1; i > 0; i-- {
		j := r.Intn(i + 1)
		order[i], order[j] = order[j], order[i]
	}
	var rtoks []string
	for _, i := range order {
		if i == nilIdx {
			rtoks = append(rtoks, fmt.Sprintf("%d n", i))
		} else {
			rtoks = append(rtoks, fmt.Sprintf("%d %s", i, shares[i]))
		}
	}
	// single-response verification of a few shares before aggregation
	for q := 0; q < 1+r.Intn(3); q++ {
		i := Pick(r, set)
		switch r.Intn(6) {
		case 0:
			emit(fmt.Sprintf("vresp ? %d %s", i, c12ModL(new(big.Int).Add(share(i), big.NewInt(1)))))
		case 1:
			emit(fmt.Sprintf("vresp ? %d n", i))
		case 2:
			emit(fmt.Sprintf("vresp ? %d %s", r.Intn(66)-1, share(i)))
		default:
			emit(fmt.Sprintf("vresp ? %d %s", i, shares[i]))
		}
	}
	strict := r.Intn(2)
	ares := emit(strings.TrimSpace(fmt.Sprintf("aggresp ? %d %s", strict, strings.Join(rtoks, " "))))
	if ares.Out == "err" && r.Chance(1, 2) {
		// fall back to the honest set so that verification is still exercised
		var ht []string
		for _, i := range set {
			ht = append(ht, fmt.Sprintf("%d %s", i, share(i)))
		}
		emit(fmt.Sprintf("aggresp ? %d %s", r.Intn(2), strings.Join(ht, " ")))
	}
	pop := bits.OnesCount64(cs.sig.Mask)
	for _, th := range []int{pop, pop + 1, 1, Pick(r, []int{0, -1, 1 + r.Intn(pop+1), 64, 65})} {
		emit(fmt.Sprintf("fullverify ? %d", th))
	}
	// tampering after aggregation
	S := c12BytesScalar(cs.sig.Signature[32:])
	rTok := "x" + Hex(cs.sig.Signature[:32])
	if cs.rDl != nil {
		rTok = cs.rDl.String()
	}
	switch r.Intn(8) {
	case 0: // add or drop a signer in the mask
		emit(fmt.Sprintf("setmask %d", cs.sig.Mask^(1<<uint(r.Intn(lim+1)%64))))
	case 1:
		emit(fmt.Sprintf("setmask %d", cs.sig.Mask^(1<<uint(r.Intn(64)))))
	case 2:
		emit(fmt.Sprintf("setsig %s %s", rTok, c12ModL(new(big.Int).Add(S, big.NewInt(1)))))
	case 3:
		emit(fmt.Sprintf("setsig %s %s", rTok, new(big.Int).Add(S, c12EllBig)))
	case 4:
		emit(fmt.Sprintf("setsig %s %s", c12RandScalar(r), S))
	case 5:
		emit(fmt.Sprintf("setsig x%s %s", c12GenBadPoint(r), S))
	case 6:
		emit("msg " + Hex(r.Bytes(32)))
	default:
		return lines
	}
	pop = bits.OnesCount64(cs.sig.Mask)
	emit(fmt.Sprintf("fullverify ? %d", pop))
	emit("fullverify ? 1")
	return lines
}

func init() {
	Register(&Subsystem{
		Name: "cosi",
		Rule: "one case = key vector (1..70 keys, ~5% refused/nil/identity entries, ~4% a key and its negation), random signer set " +
			"(sometimes index = len(keys), ≥ 64 or negative), commitments (sometimes refused or cancelling to the identity), real " +
			"Challenge/Response, share sets honest (55%) or with one wrong/non-canonical/nil/missing/extra/swapped/bit-flipped share or " +
			"compensating errors, strict and lenient aggregation, VerifyResponse, FullVerify at thresholds popcount, popcount+1, 1, ≤0, " +
			"then mask/R/S/message tampering; non-trivial = the real call accepted; distinct = distinct op line",
		Gen:  c13GenCosiCase,
		Exec: c13ExecCosi,
		Corpus: [][]string{
			// two keys that are negations of each other: aggregate key is the identity, verification must fail
			{"reset", "pub 5 7237005577332262213973186563042994240857116359379907606001950938285454250984", "msg " + strings.Repeat("ab", 32),
				"commit 0 11 1 13", "challenge", "aggresp ? 0 0 11 1 13", "fullverify ? 2", "fullverify ? 1"},
			{"reset", "pub 3 4 5", "msg " + strings.Repeat("01", 32), "commit", "commit 64 9", "commit -1 9", "commit 63 9", "challenge", "fullverify ? 1"},
		},
	})
}
