package main

// C35 — topology order: real kernel.Node.TopoWrite (hook-built node: store + counter initialised
// by getTopologyCounter), storage.BadgerStore.WriteSnapshot / ReadSnapshotsSinceTopology /
// ReadSnapshotWithTransactionsSinceTopology / ReadSnapshot / LastSnapshot on a real Badger
// directory against lean/Mixin/Model/Topology.lean.
//
// Snapshots are numbered; snapshot i is a fixed transaction-less snapshot of one of three chains.
// Property mode keeps its own log of (order, snapshot) pairs that the real code acknowledged and
// checks: a node-assigned order exceeds every earlier order; a listing is the first
// min(count, ·) log entries with order ≥ offset, ascending, each with its own order and payload
// hash; a lookup by hash returns the logged order.

import (
	"fmt"
	"os"
	"sort"
	"strings"
	"time"

	"github.com/MixinNetwork/mixin/common"
	"github.com/MixinNetwork/mixin/crypto"
	"github.com/MixinNetwork/mixin/kernel"
	"github.com/MixinNetwork/mixin/storage"
)

type c35World struct {
	dir   string
	store *storage.BadgerStore
	node  *kernel.Node
	boot  time.Time // when the running node (and its TopoStats ticker) was started
	nodes []crypto.Hash
	ids   map[crypto.Hash]int
	txs   map[int]bool // transactions written since the last wipe
}

var c35W *c35World

func (w *c35World) snapshot(id int) *common.Snapshot {
	tx := common.NewTransactionV5(common.XINAssetId)
	tx.Inputs = []*common.Input{{Genesis: []byte(fmt.Sprintf("verif-c35-%d", id))}}
	tx.Outputs = []*common.Output{{Type: common.OutputTypeScript, Amount: common.NewInteger(1)}}
	ver := tx.AsVersioned()
	if !w.txs[id] {
		if err := w.store.WriteTransaction(ver); err != nil {
			panic("harness: WriteTransaction: " + err.Error())
		}
		w.txs[id] = true
	}
	s := &common.Snapshot{
		Version:      common.SnapshotVersionCommonEncoding,
		NodeId:       w.nodes[id%len(w.nodes)],
		RoundNumber:  0,
		Timestamp:    uint64(1000000 + id),
		Transactions: []crypto.Hash{ver.PayloadHash()},
		Signature:    &crypto.CosiSignature{Mask: 1},
	}
	s.Hash = s.PayloadHash()
	w.ids[s.Hash] = id
	return s
}

func (w *c35World) setupRounds() {
	w.txs = map[int]bool{}
	if err := w.store.VerifWriteXINAsset(); err != nil {
		panic("harness: VerifWriteXINAsset: " + err.Error())
	}
	for _, n := range w.nodes {
		if err := w.store.VerifWriteRound(n, 0); err != nil {
			panic("harness: VerifWriteRound: " + err.Error())
		}
	}
}

func c35Get(st *State) *c35World {
	if c35W != nil {
		return c35W
	}
	w := &c35World{ids: map[crypto.Hash]int{}}
	for i := 0; i < 3; i++ {
		w.nodes = append(w.nodes, crypto.Blake3Hash([]byte(fmt.Sprintf("verif-c35-node-%d", i))))
	}
	w.dir = scratchDir(st, "c35-")
	w.store = c23Open(w.dir)
	c35W = w
	return w
}

type c35Entry struct{ order, id int }

type c35Oracle struct {
	log     []c35Entry // acknowledged writes, any order
	tainted bool       // a write bypassed the running node (excluded by the property: single writer)
}

func (o *c35Oracle) sorted() []c35Entry {
	l := append([]c35Entry{}, o.log...)
	sort.Slice(l, func(i, j int) bool { return l[i].order < l[j].order })
	return l
}

func execTopology(st *State, line string) Result {
	t := strings.Fields(line)
	res := Result{Tags: []string{t[0]}}
	w := c35Get(st)
	or, _ := st.V["or"].(*c35Oracle)
	if or == nil {
		or = &c35Oracle{}
		st.V["or"] = or
	}
	fail := func(key, desc string) {
		if res.PropKey == "" {
			res.PropKey, res.PropDesc = "C35:"+key, desc
		}
	}
	must := func(err error) {
		if err != nil {
			panic("harness: storage error: " + err.Error())
		}
	}
	stopNode := func() {
		if w.node != nil {
			w.node.VerifStop()
			w.node = nil
		}
	}
	showList := func(snaps []*common.SnapshotWithTopologicalOrder) string {
		if len(snaps) == 0 {
			return "ok 0"
		}
		var parts []string
		for _, s := range snaps {
			parts = append(parts, fmt.Sprintf("%d:%d", s.TopologicalOrder, w.ids[s.PayloadHash()]))
		}
		return fmt.Sprintf("ok %d %s", len(parts), strings.Join(parts, " "))
	}
	out, panicked, msg := Catch(func() string {
		switch t[0] {
		case "reset":
			stopNode()
			must(w.store.VerifGraphWipe())
			w.setupRounds()
			return "ok"
		case "raw":
			order, id := atoi(t[1]), atoi(t[2])
			topo := &common.SnapshotWithTopologicalOrder{Snapshot: w.snapshot(id), TopologicalOrder: uint64(order)}
			must(w.store.WriteSnapshot(topo, nil))
			or.log = append(or.log, c35Entry{order, id})
			if w.node != nil {
				or.tainted = true
				res.Tags = append(res.Tags, "raw:bypass")
			}
			return "ok"
		case "boot":
			stopNode()
			w.node = kernel.VerifTopoNode(w.store)
			w.boot = time.Now()
			seq := int(w.node.TopologicalOrder())
			or.tainted = false
			for _, e := range or.log {
				if e.order > seq {
					fail("restart-behind", fmt.Sprintf("counter restarts at %d below stored order %d", seq, e.order))
				}
			}
			return fmt.Sprintf("ok %d", seq)
		case "write":
			id := atoi(t[1])
			if w.node == nil {
				return "nonode"
			}
			topo := w.node.TopoWrite(w.snapshot(id), []crypto.Hash{w.nodes[0]})
			o := int(topo.TopologicalOrder)
			for _, e := range or.log {
				if e.order >= o && !or.tainted {
					fail("order-not-increasing", fmt.Sprintf("TopoWrite assigned %d after %d", o, e.order))
				}
			}
			or.log = append(or.log, c35Entry{o, id})
			return fmt.Sprintf("ok %d", o)
		case "stop":
			stopNode()
			return "ok"
		case "reopen":
			stopNode()
			must(w.store.Close())
			w.store = c23Open(w.dir)
			return "ok"
		case "tick":
			// wait for a REAL statistics tick of the TopoStats goroutine (60 s after the node
			// started); it must not move the counter
			if w.node == nil {
				return "nonode"
			}
			before := w.node.TopologicalOrder()
			if wait := time.Until(w.boot.Add(60500 * time.Millisecond)); wait > 0 {
				time.Sleep(wait)
			}
			after := w.node.TopologicalOrder()
			if after != before {
				fail("counter-moved-without-write", fmt.Sprintf("statistics tick moved the topology counter from %d to %d", before, after))
			}
			return fmt.Sprintf("ok %d", after)
		case "since", "nsince":
			off, count := atoi(t[1]), atoi(t[2])
			var snaps []*common.SnapshotWithTopologicalOrder
			var err error
			if t[0] == "nsince" {
				// the node-level cursor listing used by p2p sync
				if w.node == nil {
					return "nonode"
				}
				snaps, err = w.node.ReadSnapshotsSinceTopology(uint64(off), uint64(count))
				if tip := int(w.node.TopologicalOrder()); off >= tip-1 && off <= tip+1 {
					res.Tags = append(res.Tags, fmt.Sprintf("nsince:tip%+d", off-tip))
				}
			} else {
				snaps, err = w.store.ReadSnapshotsSinceTopology(uint64(off), uint64(count))
			}
			snaps2, txs, err2 := w.store.ReadSnapshotWithTransactionsSinceTopology(uint64(off), uint64(count))
			if t[0] == "since" && ((err == nil) != (err2 == nil) || (err == nil && (showList(snaps) != showList(snaps2) || len(txs) != len(snaps2)))) {
				fail("list-variants-differ", "ReadSnapshotsSinceTopology and ReadSnapshotWithTransactionsSinceTopology disagree")
			}
			if err != nil {
				if count <= 500 {
					panic("harness: storage error: " + err.Error())
				}
				return "err"
			}
			if count > 500 {
				fail("count-limit", fmt.Sprintf("count %d accepted", count))
			}
			var want []string
			for _, e := range or.sorted() {
				if e.order >= off && len(want) < count {
					want = append(want, fmt.Sprintf("%d:%d", e.order, e.id))
				}
			}
			got := showList(snaps)
			exp := "ok 0"
			if len(want) > 0 {
				exp = fmt.Sprintf("ok %d %s", len(want), strings.Join(want, " "))
			}
			if got != exp {
				fail("list-mismatch", fmt.Sprintf("since %d %d: got %q, acknowledged writes give %q", off, count, got, exp))
			}
			if len(snaps) > 0 {
				res.Tags = append(res.Tags, t[0]+":nonempty")
			}
			if len(snaps) == count && count > 0 {
				res.Tags = append(res.Tags, t[0]+":count-hit")
			}
			return got
		case "lookup":
			id := atoi(t[1])
			h := w.snapshot(id).Hash
			snap, err := w.store.ReadSnapshot(h)
			if err != nil {
				return "err"
			}
			want := -1
			for _, e := range or.log {
				if e.id == id {
					want = e.order
				}
			}
			if snap == nil {
				if want >= 0 {
					fail("lookup-mismatch", fmt.Sprintf("snapshot %d written at %d not found", id, want))
				}
				return "ok none"
			}
			if int(snap.TopologicalOrder) != want || snap.PayloadHash() != h {
				fail("lookup-mismatch", fmt.Sprintf("snapshot %d: lookup order %d, written at %d", id, snap.TopologicalOrder, want))
			}
			res.Tags = append(res.Tags, "lookup:found")
			return fmt.Sprintf("ok %d %d", snap.TopologicalOrder, w.ids[snap.PayloadHash()])
		case "last":
			snap, _ := w.store.LastSnapshot()
			return fmt.Sprintf("ok %d", snap.TopologicalOrder)
		}
		panic("harness: unknown op " + t[0])
	})
	if panicked && strings.HasPrefix(msg, "harness:") {
		panic(msg)
	}
	if panicked {
		res.Tags = append(res.Tags, t[0]+":panic")
		if os.Getenv("VERIF_DEBUG") != "" {
			fmt.Fprintln(os.Stderr, "panic:", line, "=>", msg)
		}
	}
	res.Out = out
	res.Nontrivial = t[0] == "since" || t[0] == "nsince" || t[0] == "tick" || t[0] == "lookup" || t[0] == "write"
	return res
}

func genTopology(r *Rand, i int, tier string) []string {
	lines := []string{"reset"}
	next := 1 // next unused snapshot id
	var orders []int
	top := -1
	seq := -1 // model of the counter, -1 = no node
	fresh := func() int { next++; return next - 1 }
	anyID := func() int {
		if next > 1 && r.Chance(3, 4) {
			return r.Range(1, next-1)
		}
		return r.Range(1, next+2)
	}
	// genesis load: orders 0..g-1, occasionally with a gap or a duplicate order
	g := r.Range(0, 4)
	o := 0
	for j := 0; j < g; j++ {
		lines = append(lines, fmt.Sprintf("raw %d %d", o, fresh()))
		orders = append(orders, o)
		top = o
		o++
		if r.Chance(1, 8) {
			o += r.Range(1, 3)
		}
	}
	if r.Chance(1, 10) && g > 0 {
		lines = append(lines, fmt.Sprintf("raw %d %d", Pick(r, orders), fresh()))
	}
	lines = append(lines, "boot")
	if g > 0 {
		seq = top
	}
	reopens := 0
	if r.Chance(1, 15) {
		reopens = 1
	}
	nops := r.Range(3, 45)
	for j := 0; j < nops; j++ {
		switch r.Intn(23) {
		case 0, 1, 2, 3, 4, 5, 6, 7:
			id := fresh()
			if r.Chance(1, 12) && next > 2 {
				id = r.Range(1, next-2) // an already written snapshot: debug assertion
				next--
			}
			lines = append(lines, fmt.Sprintf("write %d", id))
			if seq >= 0 {
				seq++
				orders = append(orders, seq)
				if seq > top {
					top = seq
				}
			}
		case 8, 9, 10, 11, 12:
			off := 0
			switch r.Intn(4) {
			case 0:
				off = r.Range(0, 3)
			case 1, 2:
				if len(orders) > 0 {
					off = Pick(r, orders) + r.Range(-1, 1)
				}
			default:
				off = top + r.Range(-2, 3)
			}
			if off < 0 {
				off = 0
			}
			count := Pick(r, []int{0, 1, 1, 2, 3, 5, 10, len(orders) - 1, len(orders), len(orders) + 1, 499, 500, 501, 1000})
			if count < 0 {
				count = 0
			}
			lines = append(lines, fmt.Sprintf("since %d %d", off, count))
			if r.Chance(1, 2) {
				lines = append(lines, fmt.Sprintf("nsince %d %d", off, count))
			}
		case 20, 21, 22: // node-level listing around the tip: tip-1, tip, tip+1
			tip := seq
			if tip < 0 {
				tip = top
			}
			off := tip + r.Range(-1, 1)
			if off < 0 {
				off = 0
			}
			lines = append(lines, fmt.Sprintf("nsince %d %d", off, Pick(r, []int{0, 1, 2, 10, 500, 501})))
		case 13, 14, 15:
			lines = append(lines, fmt.Sprintf("lookup %d", anyID()))
		case 16:
			lines = append(lines, "last")
		case 17:
			if r.Chance(1, 2) {
				lines = append(lines, "stop")
				seq = -1
			} else {
				lines = append(lines, "boot")
				if top >= 0 {
					seq = top
				}
			}
		case 18:
			if reopens > 0 {
				reopens--
				lines = append(lines, "reopen", "boot")
			} else {
				lines = append(lines, "stop", "boot")
			}
			if top >= 0 {
				seq = top
			} else {
				seq = -1
			}
		default:
			// a write that bypasses the node: ahead of the counter (the next TopoWrite collides),
			// on an occupied order, or far away
			ord := Pick(r, []int{top + 1, top + 1, top + 2, top, 0, top + 1000})
			if ord < 0 {
				ord = 0
			}
			lines = append(lines, fmt.Sprintf("raw %d %d", ord, fresh()))
			orders = append(orders, ord)
			if ord > top {
				top = ord
			}
		}
	}
	lines = append(lines, "since 0 500", "last")
	return lines
}

// genTopoTick: writes, a real statistics tick of the node's TopoStats goroutine, more writes.
func genTopoTick(r *Rand, i int, tier string) []string {
	lines := []string{"reset", "raw 0 1", "raw 1 2", "boot"}
	id := 3
	for k := r.Range(1, 4); k > 0; k-- {
		lines = append(lines, fmt.Sprintf("write %d", id))
		id++
	}
	tip := id - 2
	lines = append(lines, fmt.Sprintf("nsince %d 10", tip), fmt.Sprintf("nsince %d 10", tip+1), "tick")
	for k := r.Range(1, 3); k > 0; k-- {
		lines = append(lines, fmt.Sprintf("write %d", id))
		id++
	}
	lines = append(lines, fmt.Sprintf("nsince %d 10", id-2), "nsince 0 500", "since 0 500", fmt.Sprintf("lookup %d", id-1), "last")
	return lines
}

func init() {
	Register(&Subsystem{
		Name: "topotick",
		Rule: "one case per run: genesis, node start, TopoWrites, a real 60 s statistics tick of TopoStats, more TopoWrites, node-level and storage listings; non-trivial = write/list/tick results",
		Gen:  genTopoTick,
		Exec: execTopology,
	})
	Register(&Subsystem{
		Name: "topology",
		Rule: "random histories of genesis-style writes, node start/stop/reopen, TopoWrite, listings (offsets around stored orders ±1, counts 0..501/1000), lookups; non-trivial = write/since/lookup results",
		Gen:  genTopology,
		Exec: execTopology,
		Corpus: [][]string{
			{"reset", "boot", "last", "write 1", "since 0 10", "lookup 1"},
			// node-level listing at tip-1, tip, tip+1 (inclusive cursor), and without a node
			{"reset", "nsince 0 10", "raw 0 1", "raw 1 2", "boot", "write 3", "nsince 1 10", "nsince 2 10", "nsince 3 10", "nsince 2 0", "nsince 0 501", "lookup 3", "stop", "nsince 2 10"},
			{"reset", "raw 0 1", "raw 1 2", "boot", "write 3", "write 3", "write 4", "since 2 1", "since 3 5", "lookup 4", "stop", "write 5", "boot", "write 5", "since 0 501", "since 0 500"},
			{"reset", "raw 0 1", "boot", "raw 1 2", "write 3", "write 4", "reopen", "boot", "write 5", "since 0 10", "lookup 3", "lookup 2"},
		},
	})
}
