package main

// Shared by C25 and C29: a kernel.Node built (through the verif hooks) around a generated
// node-state history and an in-memory stand-in for the few storage.Store methods the mint and
// election code reads. Every other Store method panics (nil embedded interface), which the
// executors report as "panic" — none of the exercised paths reaches one.

import (
	"crypto/sha256"
	"fmt"
	"sort"
	"sync"

	"github.com/MixinNetwork/mixin/common"
	"github.com/MixinNetwork/mixin/crypto"
	"github.com/MixinNetwork/mixin/kernel"
	"github.com/MixinNetwork/mixin/storage"
)

type fakeStore struct {
	storage.Store
	works         map[uint32]map[crypto.Hash][2]uint64
	spaceBatch    map[crypto.Hash]uint64
	lastMint      *common.MintDistribution
	lastConsensus *common.Snapshot
	custodian     *common.CustodianUpdateRequest
	txs           map[crypto.Hash]*common.VersionedTransaction // ReadTransaction
	opsStore      storage.Store                                 // a real Badger store for AddNodeOperation (lazily opened)
	openOps       func() storage.Store
}

func (f *fakeStore) ReadTransaction(hash crypto.Hash) (*common.VersionedTransaction, string, error) {
	if tx := f.txs[hash]; tx != nil {
		return tx, "", nil
	}
	return nil, "", nil
}

// no head round for any chain: chains built from this store have no state
func (f *fakeStore) ReadRound(hash crypto.Hash) (*common.Round, error) { return nil, nil }

// the node-operation lock is the real storage code, on a real Badger directory
func (f *fakeStore) AddNodeOperation(tx *common.VersionedTransaction, timestamp, threshold uint64, finalized bool) error {
	if f.opsStore == nil {
		f.opsStore = f.openOps()
	}
	return f.opsStore.AddNodeOperation(tx, timestamp, threshold, finalized)
}

func (f *fakeStore) ListNodeWorks(cids []crypto.Hash, day uint32) (map[crypto.Hash][2]uint64, error) {
	out := make(map[crypto.Hash][2]uint64)
	for _, id := range cids {
		out[id] = f.works[day][id]
	}
	return out, nil
}

func (f *fakeStore) ListAggregatedRoundSpaceCheckpoints(cids []crypto.Hash) (map[crypto.Hash]*common.RoundSpace, error) {
	out := make(map[crypto.Hash]*common.RoundSpace)
	for _, id := range cids {
		out[id] = &common.RoundSpace{NodeId: id, Batch: f.spaceBatch[id]}
	}
	return out, nil
}

func (f *fakeStore) ReadNodeRoundSpacesForBatch(nodeId crypto.Hash, batch uint64) ([]*common.RoundSpace, error) {
	return nil, nil
}

func (f *fakeStore) ReadLastMintDistribution(ts uint64) (*common.MintDistribution, error) {
	return f.lastMint, nil
}

func (f *fakeStore) ReadLastConsensusSnapshot() (*common.Snapshot, error) {
	return f.lastConsensus, nil
}

func (f *fakeStore) ReadCustodian(ts uint64) (*common.CustodianUpdateRequest, error) {
	return f.custodian, nil
}

var (
	addrMu    sync.Mutex
	addrCache = map[string]common.Address{}
)

// deterministic, valid address for a label
func fakeAddress(label string) common.Address {
	addrMu.Lock()
	defer addrMu.Unlock()
	if a, ok := addrCache[label]; ok {
		return a
	}
	h1 := sha256.Sum256([]byte("verif-addr-1-" + label))
	h2 := sha256.Sum256([]byte("verif-addr-2-" + label))
	a := common.NewAddressFromSeed(append(h1[:], h2[:]...))
	addrCache[label] = a
	return a
}

func fakeHash(label string) crypto.Hash {
	return crypto.Hash(sha256.Sum256([]byte("verif-hash-" + label)))
}

var fakeNetworkId = fakeHash("network")

// histEntry is one node-state record as the storage would list it (ReadAllNodes withState).
type histEntry struct {
	Node  int    // node number: id = fakeHash("node-<n>")
	Tx    int    // transaction number: hash = fakeHash("tx-<n>")
	Ts    uint64 // timestamp of the state change
	State string // PLEDGING | ACCEPTED | REMOVED | CANCELLED
}

func nodeIdOf(n int) crypto.Hash { return fakeHash(fmt.Sprintf("node-%d", n)) }

var (
	fakeTxMu  sync.Mutex
	fakeTxs   []*common.VersionedTransaction // fakeTxs[n]: a real transaction whose payload hash is txIdOf(n)
	fakeTxIdx = map[crypto.Hash]int{}
)

func fakeTx(n int) *common.VersionedTransaction {
	fakeTxMu.Lock()
	defer fakeTxMu.Unlock()
	for len(fakeTxs) <= n {
		tx := common.NewTransactionV5(common.XINAssetId)
		tx.Extra = []byte(fmt.Sprintf("verif-tx-%d", len(fakeTxs)))
		ver := tx.AsVersioned()
		fakeTxIdx[ver.PayloadHash()] = len(fakeTxs)
		fakeTxs = append(fakeTxs, ver)
	}
	return fakeTxs[n]
}

func txIdOf(n int) crypto.Hash { return fakeTx(n).PayloadHash() }

// fakeTxByHash finds the generated transaction with this payload hash (numbers 0..8191).
func fakeTxByHash(h crypto.Hash) *common.VersionedTransaction {
	fakeTx(8191)
	fakeTxMu.Lock()
	defer fakeTxMu.Unlock()
	if i, ok := fakeTxIdx[h]; ok {
		return fakeTxs[i]
	}
	return nil
}

// sortedCNodes orders the records exactly as kernel.LoadConsensusNodes does.
func sortedCNodes(hist []histEntry) []*kernel.CNode {
	cn := make([]*kernel.CNode, len(hist))
	for i, e := range hist {
		cn[i] = &kernel.CNode{
			IdForNetwork: nodeIdOf(e.Node),
			Signer:       fakeAddress(fmt.Sprintf("signer-%d", e.Node)),
			Payee:        fakeAddress(fmt.Sprintf("payee-%d", e.Node)),
			Transaction:  txIdOf(e.Tx),
			Timestamp:    e.Ts,
			State:        e.State,
		}
	}
	sort.SliceStable(cn, func(i, j int) bool {
		if cn[i].Timestamp < cn[j].Timestamp {
			return true
		}
		if cn[i].Timestamp > cn[j].Timestamp {
			return false
		}
		return cn[i].IdForNetwork.String() < cn[j].IdForNetwork.String()
	})
	return cn
}

// sortCNodes orders records exactly as kernel.LoadConsensusNodes does.
func sortCNodes(cn []*kernel.CNode) {
	sort.SliceStable(cn, func(i, j int) bool {
		if cn[i].Timestamp != cn[j].Timestamp {
			return cn[i].Timestamp < cn[j].Timestamp
		}
		return cn[i].IdForNetwork.String() < cn[j].IdForNetwork.String()
	})
}

func newFakeStore() *fakeStore {
	return &fakeStore{
		works:         map[uint32]map[crypto.Hash][2]uint64{},
		spaceBatch:    map[crypto.Hash]uint64{},
		lastConsensus: &common.Snapshot{Version: common.SnapshotVersionCommonEncoding, Transactions: []crypto.Hash{fakeHash("consensus-tx")}},
		custodian:     &common.CustodianUpdateRequest{Custodian: addrPtr(fakeAddress("custodian"))},
	}
}

func addrPtr(a common.Address) *common.Address { return &a }
