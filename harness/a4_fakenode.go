package main

// Shared by C25 and C29: a kernel.Node built (through the verif hooks) around a generated
// node-state history and an in-memory stand-in for the few storage.Store methods the mint and
// election code reads. Every other Store method panics (nil embedded interface), which the
// executors report as "panic" — none of the exercised paths reaches one.

import (
	"crypto/sha256"
	"fmt"
	"sort"
	"strings"
	"sync"
	"time"

	"github.com/MixinNetwork/mixin/common"
	"github.com/MixinNetwork/mixin/crypto"
	"github.com/MixinNetwork/mixin/kernel"
	"github.com/MixinNetwork/mixin/storage"
)

type fakeStore struct {
	storage.Store
	works         map[uint32]map[crypto.Hash][2]uint64
	spaceBatch    map[crypto.Hash]uint64
	lastMint      *common.MintDistribution
	lastConsensus *common.Snapshot
	custodian     *common.CustodianUpdateRequest
	txs           map[crypto.Hash]*common.VersionedTransaction // ReadTransaction
	opsStore      storage.Store                                 // a real Badger store for AddNodeOperation (lazily opened)
	openOps       func() storage.Store
}

func (f *fakeStore) ReadTransaction(hash crypto.Hash) (*common.VersionedTransaction, string, error) {
	if tx := f.txs[hash]; tx != nil {
		return tx, "", nil
	}
	return nil, "", nil
}

// no head round for any chain: chains built from this store have no state
func (f *fakeStore) ReadRound(hash crypto.Hash) (*common.Round, error) { return nil, nil }

// the node-operation lock is the real storage code, on a real Badger directory
func (f *fakeStore) AddNodeOperation(tx *common.VersionedTransaction, timestamp, threshold uint64, finalized bool) error {
	if f.opsStore == nil {
		f.opsStore = f.openOps()
	}
	return f.opsStore.AddNodeOperation(tx, timestamp, threshold, finalized)
}

func (f *fakeStore) ListNodeWorks(cids []crypto.Hash, day uint32) (map[crypto.Hash][2]uint64, error) {
	out := make(map[crypto.Hash][2]uint64)
	for _, id := range cids {
		out[id] = f.works[day][id]
	}
	return out, nil
}

func (f *fakeStore) ListAggregatedRoundSpaceCheckpoints(cids []crypto.Hash) (map[crypto.Hash]*common.RoundSpace, error) {
	out := make(map[crypto.Hash]*common.RoundSpace)
	for _, id := range cids {
		out[id] = &common.RoundSpace{NodeId: id, Batch: f.spaceBatch[id]}
	}
	return out, nil
}

func (f *fakeStore) ReadNodeRoundSpacesForBatch(nodeId crypto.Hash, batch uint64) ([]*common.RoundSpace, error) {
	return nil, nil
}

func (f *fakeStore) ReadLastMintDistribution(ts uint64) (*common.MintDistribution, error) {
	return f.lastMint, nil
}

func (f *fakeStore) ReadLastConsensusSnapshot() (*common.Snapshot, error) {
	return f.lastConsensus, nil
}

func (f *fakeStore) ReadCustodian(ts uint64) (*common.CustodianUpdateRequest, error) {
	return f.custodian, nil
}

var (
	addrMu    sync.Mutex
	addrCache = map[string]common.Address{}
)

// deterministic, valid address for a label
func fakeAddress(label string) common.Address {
	addrMu.Lock()
	defer addrMu.Unlock()
	if a, ok := addrCache[label]; ok {
		return a
	}
	h1 := sha256.Sum256([]byte("verif-addr-1-" + label))
	h2 := sha256.Sum256([]byte("verif-addr-2-" + label))
	a := common.NewAddressFromSeed(append(h1[:], h2[:]...))
	addrCache[label] = a
	return a
}

func fakeHash(label string) crypto.Hash {
	return crypto.Hash(sha256.Sum256([]byte("verif-hash-" + label)))
}

var fakeNetworkId = fakeHash("network")

// histEntry is one node-state record as the storage would list it (ReadAllNodes withState).
type histEntry struct {
	Node  int    // node number: id = fakeHash("node-<n>")
	Tx    int    // transaction number: hash = fakeHash("tx-<n>")
	Ts    uint64 // timestamp of the state change
	State string // PLEDGING | ACCEPTED | REMOVED | CANCELLED
}

func nodeIdOf(n int) crypto.Hash { return fakeHash(fmt.Sprintf("node-%d", n)) }

var (
	fakeTxMu  sync.Mutex
	fakeTxs   []*common.VersionedTransaction // fakeTxs[n]: a real transaction whose payload hash is txIdOf(n)
	fakeTxIdx = map[crypto.Hash]int{}
)

func fakeTx(n int) *common.VersionedTransaction {
	fakeTxMu.Lock()
	defer fakeTxMu.Unlock()
	for len(fakeTxs) <= n {
		tx := common.NewTransactionV5(common.XINAssetId)
		tx.Extra = []byte(fmt.Sprintf("verif-tx-%d", len(fakeTxs)))
		ver := tx.AsVersioned()
		fakeTxIdx[ver.PayloadHash()] = len(fakeTxs)
		fakeTxs = append(fakeTxs, ver)
	}
	return fakeTxs[n]
}

func txIdOf(n int) crypto.Hash { return fakeTx(n).PayloadHash() }

// fakeTxByHash finds the generated transaction with this payload hash (numbers 0..8191).
func fakeTxByHash(h crypto.Hash) *common.VersionedTransaction {
	fakeTx(8191)
	fakeTxMu.Lock()
	defer fakeTxMu.Unlock()
	if i, ok := fakeTxIdx[h]; ok {
		return fakeTxs[i]
	}
	return nil
}

// sortedCNodes orders the records exactly as kernel.LoadConsensusNodes does.
func sortedCNodes(hist []histEntry) []*kernel.CNode {
	cn := make([]*kernel.CNode, len(hist))
	for i, e := range hist {
		cn[i] = &kernel.CNode{
			IdForNetwork: nodeIdOf(e.Node),
			Signer:       fakeAddress(fmt.Sprintf("signer-%d", e.Node)),
			Payee:        fakeAddress(fmt.Sprintf("payee-%d", e.Node)),
			Transaction:  txIdOf(e.Tx),
			Timestamp:    e.Ts,
			State:        e.State,
		}
	}
	sort.SliceStable(cn, func(i, j int) bool {
		if cn[i].Timestamp < cn[j].Timestamp {
			return true
		}
		if cn[i].Timestamp > cn[j].Timestamp {
			return false
		}
		return cn[i].IdForNetwork.String() < cn[j].IdForNetwork.String()
	})
	return cn
}

// sortCNodes orders records exactly as kernel.LoadConsensusNodes does.
func sortCNodes(cn []*kernel.CNode) {
	sort.SliceStable(cn, func(i, j int) bool {
		if cn[i].Timestamp != cn[j].Timestamp {
			return cn[i].Timestamp < cn[j].Timestamp
		}
		return cn[i].IdForNetwork.String() < cn[j].IdForNetwork.String()
	})
}

func newFakeStore() *fakeStore {
	return &fakeStore{
		works:         map[uint32]map[crypto.Hash][2]uint64{},
		spaceBatch:    map[crypto.Hash]uint64{},
		lastConsensus: &common.Snapshot{Version: common.SnapshotVersionCommonEncoding, Transactions: []crypto.Hash{fakeHash("consensus-tx")}},
		custodian:     &common.CustodianUpdateRequest{Custodian: addrPtr(fakeAddress("custodian"))},
	}
}

func addrPtr(a common.Address) *common.Address { return &a }

// ---- who validates and when (C25/C29: the time an operation snapshot is validated at)

// clkSpec: `clk <own> <ts0> <clock> <op …>` runs the operation as validated by a node whose wall
// clock shows `clock`; own = the snapshot is that node's own, ts0 = it has no timestamp yet.
type clkSpec struct {
	on, own, ts0 bool
	clock        uint64
}

func parseClk(t []string) (clkSpec, []string) {
	if len(t) > 4 && t[0] == "clk" {
		return clkSpec{on: true, own: t[1] == "1", ts0: t[2] == "1", clock: u64(t[3])}, t[4:]
	}
	return clkSpec{}, t
}

// the time the validators are specified to use: the snapshot's timestamp, except for the
// proposer's own snapshot that has none yet
func (c clkSpec) eff(ts uint64) uint64 {
	if c.on && c.own && c.ts0 {
		return c.clock
	}
	return c.snapTs(ts)
}

func (c clkSpec) snapTs(ts uint64) uint64 {
	if c.on && c.ts0 {
		return 0
	}
	return ts
}

func (c clkSpec) prefix() string {
	if !c.on {
		return ""
	}
	return fmt.Sprintf("clk %d %d %d ", b2i(c.own), b2i(c.ts0), c.clock)
}

// the clock the kernel reads while f runs
func (c clkSpec) now() uint64 {
	if c.on {
		return c.clock
	}
	return uint64(time.Now().UnixNano())
}

// withClock runs f with the kernel clock mocked to target (when on)
func withClock(on bool, target uint64, f func()) {
	if !on {
		f()
		return
	}
	kernel.TestMockReset()
	kernel.TestMockDiff(time.Duration(int64(target) - time.Now().UnixNano()))
	defer kernel.TestMockReset()
	f()
}

// another clock in a different epoch day and hour window, later than c.clock
func (c clkSpec) otherClock() uint64 { return c.clock + 29*3600000000000 }

// clkWrap turns about a third of the validator ops into `clk` ops: the snapshot is the validating
// node's own or not, has a timestamp or not, and the local clock is in another epoch day / hour
// window than the snapshot's timestamp (tsPos: op name -> index of its timestamp token).
func clkWrap(r *Rand, lines []string, tsPos map[string]int) []string {
	const hour = uint64(3600000000000)
	for i, l := range lines {
		t := strings.Fields(l)
		pos, ok := tsPos[t[0]]
		if !ok || !r.Chance(1, 3) {
			continue
		}
		ts := u64(t[pos])
		if ts > 1<<62 || ts < 1<<59 {
			continue
		}
		clock := ts + Pick(r, []uint64{5 * hour, 29 * hour, 79 * hour, 11 * hour, 24 * hour, hour / 6, 400 * 24 * hour})
		if r.Chance(1, 6) {
			clock = ts - Pick(r, []uint64{5 * hour, 29 * hour, hour / 6})
		}
		own, ts0 := r.Chance(2, 3), r.Chance(1, 4)
		if own && ts0 {
			// the proposer validating before announcing: the clock is the time. The mocked clock
			// runs on (microseconds pass before the validator reads it): keep it off the
			// nanosecond-exact window edges the timestamps are generated on.
			if r.Chance(2, 3) {
				clock = ts
			}
			clock += 1000000000 + r.U64()%1000000000000
		}
		lines[i] = fmt.Sprintf("clk %d %d %d %s", b2i(own), b2i(ts0), clock, l)
	}
	return lines
}
