package main

// C21 / C22 — crash points. The durable state is a real Badger directory, the process is
// the sequence of storage calls the kernel makes when it admits, locks, starts rounds,
// finalizes and records consensus operations; a crash is a cut of that sequence at a call
// boundary; a restart is the real kernel.SetupNode on the re-opened directory.
//
// Every op line below is exactly one mutating call on storage.Store, issued through a
// counting proxy (rcProxy) around the real *storage.BadgerStore:
//
//	tx t kind ref0 outs key n h1 i1 …   (definition only, no storage call)
//	lock t                               VersionedTransaction.LockInputs(store, false)
//	wtx t                                Store.WriteTransaction
//	round c n k s1..sk e en m x1..xm fs  Store.StartNewRound (self = round n-1 of c holding s*,
//	                                       external = round en of chain e holding x*)
//	snap s c r ts topo k t1..tk          Node.TopoWrite -> Store.WriteSnapshot
//	mark s                               Node.reloadConsensusState -> Store.WriteConsensusSnapshot
//	fill k t0 s0 d0 ts0 o0 m c1..cm      k times (tx, lock, wtx, snap) of a one-output deposit, ids
//	                                       t0+j / s0+j, deposit key d0+j, timestamp ts0+j, order o0+j,
//	                                       chain c[j mod m], each in that chain's head round
//	cut                                  stop here: close, copy the directory, reopen the copy,
//	                                       kernel.SetupNode, observe; the original run goes on
//
// The same lines drive lean/Mixin/Model/Recovery.lean. Two subsystems share this file:
// "recovery" (C21, observes the consensus marker) and "ledgercrash" (C22, observes the
// validator and a store scan).

import (
	"bytes"
	"encoding/binary"
	"fmt"
	"io"
	"os"
	"path/filepath"
	"sort"
	"strconv"
	"strings"
	"syscall"

	"github.com/MixinNetwork/mixin/common"
	"github.com/MixinNetwork/mixin/config"
	"github.com/MixinNetwork/mixin/crypto"
	"github.com/MixinNetwork/mixin/kernel"
	"github.com/MixinNetwork/mixin/storage"
	"github.com/dgraph-io/ristretto/v2"
)

const (
	rcKindDeposit = 0
	rcKindScript  = 1
	rcKindMint    = 2
	rcKindPledge  = 3
	rcKindCancel  = 4
	rcKindRemove  = 6
	rcEpoch       = 1551312000
	rcMintBase    = 1707
)

// rcProxy counts the mutating calls that reach the store and lets the harness swap the
// Badger handle underneath a live kernel.Node (close / reopen).
type rcProxy struct {
	storage.Store
	mutations int
}

func (p *rcProxy) LoadGenesis(r []*common.Round, s []*common.SnapshotWithTopologicalOrder, t []*common.VersionedTransaction) error {
	p.mutations++
	return p.Store.LoadGenesis(r, s, t)
}
func (p *rcProxy) WriteTransaction(tx *common.VersionedTransaction) error {
	p.mutations++
	return p.Store.WriteTransaction(tx)
}
func (p *rcProxy) StartNewRound(node crypto.Hash, number uint64, references *common.RoundLink, finalStart uint64) error {
	p.mutations++
	return p.Store.StartNewRound(node, number, references, finalStart)
}
func (p *rcProxy) UpdateEmptyHeadRound(node crypto.Hash, number uint64, references *common.RoundLink) error {
	p.mutations++
	return p.Store.UpdateEmptyHeadRound(node, number, references)
}
func (p *rcProxy) WriteConsensusSnapshot(snap *common.Snapshot, tx *common.VersionedTransaction, hack *common.Snapshot) error {
	p.mutations++
	return p.Store.WriteConsensusSnapshot(snap, tx, hack)
}
func (p *rcProxy) LockUTXOs(inputs []*common.Input, tx crypto.Hash, fork bool) error {
	p.mutations++
	return p.Store.LockUTXOs(inputs, tx, fork)
}
func (p *rcProxy) LockDepositInput(deposit *common.DepositData, tx crypto.Hash, fork bool) error {
	p.mutations++
	return p.Store.LockDepositInput(deposit, tx, fork)
}
func (p *rcProxy) LockMintInput(mint *common.MintData, tx crypto.Hash, fork bool) error {
	p.mutations++
	return p.Store.LockMintInput(mint, tx, fork)
}
func (p *rcProxy) LockGhostKeys(keys []*crypto.Key, tx crypto.Hash, fork bool) error {
	p.mutations++
	return p.Store.LockGhostKeys(keys, tx, fork)
}
func (p *rcProxy) WriteSnapshot(s *common.SnapshotWithTopologicalOrder, signers []crypto.Hash) error {
	p.mutations++
	return p.Store.WriteSnapshot(s, signers)
}

type rcTxDef struct {
	kind, ref0, outs, key int
	inputs                [][2]int
}

type rcWorld struct {
	root    string
	dir     string
	custom  *config.Custom
	gns     *common.Genesis
	n       int
	nodeIds []crypto.Hash
	signers []common.Address
	payees  []common.Address
	badger  *storage.BadgerStore
	proxy   *rcProxy
	node    *kernel.Node
	defs    map[int]*rcTxDef
	txs     map[int]*common.VersionedTransaction
	txId    map[crypto.Hash]int
	snaps   map[int]*common.Snapshot
	snapId  map[crypto.Hash]int
	cuts    int
}

func rcAddr(tag string, i int) common.Address {
	h := crypto.Blake3Hash([]byte(fmt.Sprintf("verif-c21-%s-%d", tag, i)))
	a := common.NewAddressFromSeed(append(h[:], h[:]...))
	a.PrivateViewKey = a.PublicSpendKey.DeterministicHashDerive()
	a.PublicViewKey = a.PrivateViewKey.Public()
	return a
}

func rcPub(a common.Address) *common.Address {
	return &common.Address{PublicSpendKey: a.PublicSpendKey, PublicViewKey: a.PublicViewKey}
}

func rcGenesis(n int) (*common.Genesis, []common.Address, []common.Address) {
	gns := &common.Genesis{Epoch: rcEpoch}
	cust := rcAddr("custodian", 0)
	gns.Custodian = rcPub(cust)
	var signers, payees []common.Address
	for i := 0; i < n; i++ {
		s, p, c := rcAddr("signer", i), rcAddr("payee", i), rcAddr("nodecustodian", i)
		signers, payees = append(signers, s), append(payees, p)
		gns.Nodes = append(gns.Nodes, &struct {
			Signer    *common.Address `json:"signer"`
			Payee     *common.Address `json:"payee"`
			Custodian *common.Address `json:"custodian"`
			Balance   common.Integer  `json:"balance"`
		}{rcPub(s), rcPub(p), rcPub(c), common.KernelNodePledgeAmount})
	}
	return gns, signers, payees
}

// rcSync: per-commit fsync of the snapshots database (production setting). The long-history
// cases (`genesis n 0`) switch it off: thousands of commits, and the crash image is copied by
// the same process, which sees every write through the page cache either way.
var rcSync = true

func rcOpen(custom *config.Custom, dir string) *storage.BadgerStore {
	st, err := storage.VerifC21NewBadgerStore(custom, dir, 8<<20, rcSync)
	if err != nil {
		panic("harness: open badger: " + err.Error())
	}
	return st
}

func rcSetup(custom *config.Custom, st storage.Store, gns *common.Genesis) (*kernel.Node, error) {
	cache, err := ristretto.NewCache(&ristretto.Config[[]byte, any]{NumCounters: 1e4, MaxCost: 1 << 24, BufferItems: 64})
	if err != nil {
		panic(err)
	}
	kernel.VerifMockRunAggregators(true)
	return kernel.SetupNode(custom, st, cache, gns)
}

func (w *rcWorld) close() {
	if w == nil {
		return
	}
	if w.node != nil {
		w.node.VerifStop()
		w.node = nil
	}
	if w.badger != nil {
		w.badger.Close()
		w.badger = nil
	}
	os.RemoveAll(w.root)
}

func rcNewWorld(st *State, n int) *rcWorld {
	if old, ok := st.V["w"].(*rcWorld); ok {
		old.close()
	}
	root, err := os.MkdirTemp(st.Dir, "rc-")
	if err != nil {
		panic(err)
	}
	w := &rcWorld{root: root, dir: filepath.Join(root, "live"), n: n,
		defs: map[int]*rcTxDef{}, txs: map[int]*common.VersionedTransaction{}, txId: map[crypto.Hash]int{},
		snaps: map[int]*common.Snapshot{}, snapId: map[crypto.Hash]int{}}
	os.MkdirAll(w.dir, 0o755)
	w.gns, w.signers, w.payees = rcGenesis(n)
	cfg := fmt.Sprintf("[node]\nsigner-key = \"%s\"\nconsensus-only = true\nmemory-cache-size = 16\ncache-ttl = 7200\n[network]\nlistener = \"127.0.0.1:7239\"\n",
		w.signers[0].PrivateSpendKey.String())
	cp := filepath.Join(root, "config.toml")
	if err := os.WriteFile(cp, []byte(cfg), 0o644); err != nil {
		panic(err)
	}
	w.custom, err = config.Initialize(cp)
	if err != nil {
		panic("harness: config: " + err.Error())
	}
	w.badger = rcOpen(w.custom, w.dir)
	w.proxy = &rcProxy{Store: w.badger}
	w.node, err = rcSetup(w.custom, w.proxy, w.gns)
	if err != nil {
		panic("harness: first SetupNode: " + err.Error())
	}
	nid := w.gns.NetworkId()
	for _, s := range w.signers {
		w.nodeIds = append(w.nodeIds, s.Hash().ForNetwork(nid))
	}
	// abstract ids of the genesis: snapshot/transaction i+1 = accept of node i, n+1 = custodian
	snaps, err := w.badger.ReadSnapshotsSinceTopology(0, 100)
	if err != nil || len(snaps) != n+1 {
		panic(fmt.Sprint("harness: genesis snapshots ", len(snaps), err))
	}
	for i, s := range snaps {
		s.Snapshot.Hash = s.PayloadHash()
		w.snaps[i+1], w.snapId[s.Snapshot.Hash] = s.Snapshot, i+1
		tx, _, err := w.badger.ReadTransaction(s.Transactions[0])
		if err != nil || tx == nil {
			panic("harness: genesis transaction")
		}
		w.txs[i+1], w.txId[tx.PayloadHash()] = tx, i+1
		if i < n && s.NodeId != w.nodeIds[i] {
			panic("harness: genesis order")
		}
	}
	st.V["w"] = w
	return w
}

func (w *rcWorld) ts(abs int) uint64 { return uint64(rcEpoch)*1e9 + uint64(abs) }

func rcSeed(tag string, a, b int) []byte {
	h := crypto.Blake3Hash([]byte(fmt.Sprintf("verif-seed-%s-%d-%d", tag, a, b)))
	return append(h[:], h[:]...)
}

// build the real transaction of definition d (id t); deterministic in (t, d)
func (w *rcWorld) build(t int, d *rcTxDef) *common.VersionedTransaction {
	var tx *common.Transaction
	script := common.NewThresholdScript(1)
	recv := []*common.Address{rcPub(w.payees[t%w.n])}
	refs := []crypto.Hash{}
	if d.ref0 != 0 {
		r := w.txs[d.ref0]
		if r == nil {
			panic("harness: unknown reference " + fmt.Sprint(d.ref0))
		}
		refs = append(refs, r.PayloadHash())
	}
	addInputs := func() {
		for _, in := range d.inputs {
			h := w.txs[in[0]]
			if h == nil {
				panic("harness: unknown input tx " + fmt.Sprint(in[0]))
			}
			tx.AddInput(h.PayloadHash(), uint(in[1]))
		}
	}
	switch d.kind {
	case rcKindDeposit:
		asset, data := common.XINAssetId, &common.DepositData{Chain: common.XINAsset.Chain, AssetKey: common.XINAsset.AssetKey}
		if d.key%2 == 1 {
			asset = crypto.Sha256Hash([]byte("verif-c21-asset"))
			data = &common.DepositData{Chain: common.BitcoinAssetId, AssetKey: "verif-c21-asset-key"}
		}
		data.Transaction = fmt.Sprintf("0x%064x", d.key)
		data.Index = uint64(d.key)
		data.Amount = common.NewIntegerFromString("0.01").Mul(d.outs)
		tx = common.NewTransactionV5(asset)
		tx.AddDepositInput(data)
		for i := 0; i < d.outs; i++ {
			tx.AddScriptOutput(recv, script, common.NewIntegerFromString("0.01"), rcSeed("out", t, i))
		}
	case rcKindScript:
		tx = common.NewTransactionV5(common.XINAssetId)
		addInputs()
		for i := 0; i < d.outs; i++ {
			tx.AddScriptOutput(recv, script, common.NewIntegerFromString("0.001"), rcSeed("out", t, i))
		}
	case rcKindMint:
		tx = common.NewTransactionV5(common.XINAssetId)
		tx.AddUniversalMintInput(uint64(d.key), common.NewIntegerFromString("0.01").Mul(d.outs))
		for i := 0; i < d.outs; i++ {
			tx.AddScriptOutput(recv, script, common.NewIntegerFromString("0.01"), rcSeed("out", t, i))
		}
	case rcKindPledge, rcKindCancel:
		tx = common.NewTransactionV5(common.XINAssetId)
		addInputs()
		ot := uint8(common.OutputTypeNodePledge)
		if d.kind == rcKindCancel {
			ot = common.OutputTypeNodeCancel
		}
		tx.AddOutputWithType(ot, recv, script, common.KernelNodePledgeAmount, rcSeed("out", t, 0))
		s, p := rcAddr("pledger", d.key), rcAddr("pledgerpayee", d.key)
		tx.Extra = append(s.PublicSpendKey[:], p.PublicSpendKey[:]...)
	case rcKindRemove:
		tx = common.NewTransactionV5(common.XINAssetId)
		addInputs()
		tx.AddOutputWithType(common.OutputTypeNodeRemove, recv, script, common.KernelNodePledgeAmount, rcSeed("out", t, 0))
		tx.Extra = append(w.signers[d.key].PublicSpendKey[:], w.payees[d.key].PublicSpendKey[:]...)
	default:
		panic("harness: bad tx kind")
	}
	tx.References = refs
	return tx.AsVersioned()
}

func rcInts(f []string) []int {
	out := make([]int, len(f))
	for i, s := range f {
		v, err := strconv.Atoi(s)
		if err != nil {
			panic("harness: bad integer in op line: " + s)
		}
		out[i] = v
	}
	return out
}

func (w *rcWorld) snapsOf(ids []int) []*common.Snapshot {
	out := make([]*common.Snapshot, len(ids))
	for i, id := range ids {
		s := w.snaps[id]
		if s == nil {
			panic("harness: unknown snapshot " + fmt.Sprint(id))
		}
		out[i] = s
	}
	return out
}

func (w *rcWorld) roundHash(c, n int, ids []int) crypto.Hash {
	_, _, h := common.ComputeRoundHash(w.nodeIds[c], uint64(n), w.snapsOf(ids))
	return h
}

var rcPrefixes = []string{"TRANSACTION", "FINALIZATION", "UTXO", "DEPOSIT", "MINTUNIVERSAL", "SNAPSHOT", "UNIQUE",
	"TOPOLOGY", "SNAPTOPO", "ROUND", "LINK", "CONSENSUSSNAPSHOT"}

func rcDigest(st *storage.BadgerStore) string {
	var sb strings.Builder
	for i, p := range rcPrefixes {
		k, _ := st.VerifScan(p)
		if i > 0 {
			sb.WriteByte(' ')
		}
		fmt.Fprintf(&sb, "%d", len(k))
	}
	return sb.String()
}

// consensus marker chain as abstract ids: ts:snap:next,…
func (w *rcWorld) consDump(st *storage.BadgerStore) string {
	keys, vals := st.VerifScan("CONSENSUSSNAPSHOT")
	var parts []string
	for i, k := range keys {
		k = k[len("CONSENSUSSNAPSHOT"):]
		ts := binary.BigEndian.Uint64(k[:8])
		var h, nx crypto.Hash
		copy(h[:], k[8:])
		next := 0
		if len(vals[i]) == 32 {
			copy(nx[:], vals[i])
			next = w.txId[nx]
			if next == 0 {
				next = -1
			}
		}
		sid := w.snapId[h]
		if sid == 0 {
			sid = -1
		}
		parts = append(parts, fmt.Sprintf("%d:%d:%d", ts-uint64(rcEpoch)*1e9, sid, next))
	}
	return strings.Join(parts, ",")
}

// rcCopyDir copies a live Badger directory the way a crash leaves it: whatever has reached the
// files (SyncWrites is on for the snapshots database), no clean shutdown. Badger preallocates
// sparse value-log and memtable files, so only the data extents are copied.
func rcCopyDir(src, dst string) {
	err := filepath.Walk(src, func(p string, info os.FileInfo, err error) error {
		if err != nil {
			return err
		}
		rel, _ := filepath.Rel(src, p)
		t := filepath.Join(dst, rel)
		if info.IsDir() {
			return os.MkdirAll(t, 0o755)
		}
		if info.Name() == "LOCK" {
			return nil
		}
		in, err := os.Open(p)
		if err != nil {
			return err
		}
		defer in.Close()
		out, err := os.Create(t)
		if err != nil {
			return err
		}
		defer out.Close()
		if err := out.Truncate(info.Size()); err != nil {
			return err
		}
		const seekData, seekHole = 3, 4
		fd := int(in.Fd())
		for off := int64(0); off < info.Size(); {
			start, err := syscall.Seek(fd, off, seekData)
			if err != nil { // ENXIO: no data after off
				break
			}
			end, err := syscall.Seek(fd, start, seekHole)
			if err != nil {
				end = info.Size()
			}
			if _, err := io.Copy(io.NewOffsetWriter(out, start), io.NewSectionReader(in, start, end-start)); err != nil {
				return err
			}
			off = end
		}
		return nil
	})
	if err != nil {
		panic("harness: copy badger dir: " + err.Error())
	}
}

// rcScan implements `Consistent` (lean/Mixin/Model/Recovery.lean) on the raw key space.
func (w *rcWorld) rcScan(st *storage.BadgerStore) (bool, string) {
	bad := func(f string, a ...any) (bool, string) { return false, fmt.Sprintf(f, a...) }
	// TOPOLOGY / SNAPTOPO mutually inverse and injective; every entry names a stored snapshot
	tk, tv := st.VerifScan("TOPOLOGY")
	sk, sv := st.VerifScan("SNAPTOPO")
	if len(tk) != len(sk) {
		return bad("TOPOLOGY has %d entries, SNAPTOPO %d", len(tk), len(sk))
	}
	snapKeys, snapVals := st.VerifScan("SNAPSHOT")
	stored := map[string][]byte{}
	for i, k := range snapKeys {
		stored[string(k)] = snapVals[i]
	}
	seenSnap := map[crypto.Hash]bool{}
	topoOf := map[string]string{}
	for i, k := range sk {
		topoOf[string(k[len("SNAPTOPO"):])] = string(sv[i])
	}
	for i, k := range tk {
		val, ok := stored[string(tv[i])]
		if !ok {
			return bad("TOPOLOGY %x names a missing SNAPSHOT record", k)
		}
		s, err := common.UnmarshalVersionedSnapshot(val)
		if err != nil {
			return bad("SNAPSHOT record undecodable")
		}
		h := s.PayloadHash()
		if seenSnap[h] {
			return bad("snapshot %s holds two topology positions", h)
		}
		seenSnap[h] = true
		if topoOf[string(h[:])] != string(k) {
			return bad("SNAPTOPO of %s does not point back to its TOPOLOGY key", h)
		}
	}
	if len(snapKeys) != len(tk) {
		return bad("%d SNAPSHOT records but %d topology positions", len(snapKeys), len(tk))
	}
	// every FINALIZATION has its body, its outputs, and names a stored snapshot containing it
	fk, fv := st.VerifScan("FINALIZATION")
	for i, k := range fk {
		var th, sh crypto.Hash
		copy(th[:], k[len("FINALIZATION"):])
		copy(sh[:], fv[i])
		tx, fin, err := st.ReadTransaction(th)
		if err != nil || tx == nil || fin != sh.String() {
			return bad("FINALIZATION %s without TRANSACTION body", th)
		}
		if tx.PayloadHash() != th {
			return bad("TRANSACTION %s stored under a different hash", th)
		}
		for _, u := range tx.UnspentOutputs() {
			l, err := st.ReadUTXOLock(u.Hash, u.Index)
			if err != nil || l == nil {
				return bad("finalized transaction %s lacks UTXO %d", th, u.Index)
			}
		}
		s, err := st.ReadSnapshot(sh)
		if err != nil || s == nil {
			return bad("FINALIZATION %s names snapshot %s that is not stored", th, sh)
		}
		found := false
		for _, x := range s.Transactions {
			found = found || x == th
		}
		if !found {
			return bad("FINALIZATION %s names snapshot %s that does not contain it", th, sh)
		}
	}
	// every transaction of a stored snapshot is finalized
	for _, v := range snapVals {
		s, _ := common.UnmarshalVersionedSnapshot(v)
		for _, th := range s.Transactions {
			_, fin, err := st.ReadTransaction(th)
			if err != nil || fin == "" {
				return bad("snapshot %s holds transaction %s without FINALIZATION", s.PayloadHash(), th)
			}
		}
	}
	// rounds: head exists for every chain with snapshots; every round below the head is recorded
	perChain := map[crypto.Hash]map[uint64][]*common.Snapshot{}
	for _, v := range snapVals {
		s, _ := common.UnmarshalVersionedSnapshot(v)
		s.Snapshot.Hash = s.PayloadHash()
		if perChain[s.NodeId] == nil {
			perChain[s.NodeId] = map[uint64][]*common.Snapshot{}
		}
		perChain[s.NodeId][s.RoundNumber] = append(perChain[s.NodeId][s.RoundNumber], s.Snapshot)
	}
	for id, rounds := range perChain {
		head, err := st.ReadRound(id)
		if err != nil || head == nil {
			return bad("chain %s has snapshots but no head round", id)
		}
		for n := range rounds {
			if n > head.Number {
				return bad("chain %s has snapshots in round %d above head %d", id, n, head.Number)
			}
		}
		for n := uint64(0); n < head.Number; n++ {
			if len(rounds[n]) == 0 {
				return bad("chain %s round %d below head %d is empty", id, n, head.Number)
			}
			_, _, h := common.ComputeRoundHash(id, n, rounds[n])
			r, err := st.ReadRound(h)
			if err != nil || r == nil || r.NodeId != id || r.Number != n {
				return bad("chain %s round %d has no ROUND record", id, n)
			}
		}
	}
	return true, ""
}

type rcObs struct {
	setupErr                 string
	marker, topo             int
	total, invalid           int
	cons, digest, scanDesc   string
	scanOK                   bool
	newestConsensusCommitted int
}

// restart on a copy of the durable state as it is now
func (w *rcWorld) restart() rcObs {
	w.cuts++
	cp := filepath.Join(w.root, fmt.Sprintf("cut-%d", w.cuts))
	rcCopyDir(w.dir, cp)
	defer os.RemoveAll(cp)

	st := rcOpen(w.custom, cp)
	defer st.Close()
	var o rcObs
	var node *kernel.Node
	_, panicked, msg := Catch(func() string {
		var err error
		node, err = rcSetup(w.custom, st, w.gns)
		if err != nil {
			o.setupErr = "error: " + err.Error()
		}
		return ""
	})
	if panicked {
		o.setupErr = "panic: " + msg
	}
	if node != nil {
		defer node.VerifStop()
		o.topo = int(node.TopologicalOrder())
	}
	if o.setupErr != "" {
		return o
	}
	last, err := st.ReadLastConsensusSnapshot()
	if err != nil || last == nil {
		o.setupErr = "no consensus marker"
		return o
	}
	o.marker = w.snapId[last.PayloadHash()]
	o.total, o.invalid, err = st.ValidateGraphEntries(w.gns.NetworkId(), 10)
	if err != nil {
		o.setupErr = "validate: " + err.Error()
	}
	o.cons, o.digest = w.consDump(st), rcDigest(st)
	o.scanOK, o.scanDesc = w.rcScan(st)
	return o
}

// newest consensus-class snapshot in the topology of the live store (Go-side oracle for C21)
func (w *rcWorld) newestConsensus() (int, uint64) {
	best, bts := 0, uint64(0)
	for off := uint64(0); ; {
		snaps, txs, err := w.badger.ReadSnapshotWithTransactionsSinceTopology(off, 500)
		if err != nil {
			panic(err)
		}
		if len(snaps) == 0 {
			return best, bts
		}
		for i, s := range snaps {
			if len(txs[i]) != 1 {
				continue
			}
			switch txs[i][0].TransactionType() {
			case common.TransactionTypeMint, common.TransactionTypeNodePledge, common.TransactionTypeNodeCancel,
				common.TransactionTypeNodeAccept, common.TransactionTypeNodeRemove,
				common.TransactionTypeCustodianUpdateNodes, common.TransactionTypeCustodianSlashNodes:
			default:
				if len(txs[i][0].Inputs) == 1 && txs[i][0].Inputs[0].Genesis != nil &&
					txs[i][0].Outputs[0].Type == common.OutputTypeCustodianUpdateNodes {
					break
				}
				continue
			}
			if s.Timestamp >= bts {
				best, bts = w.snapId[s.PayloadHash()], s.Timestamp
			}
		}
		off = snaps[len(snaps)-1].TopologicalOrder + 1
	}
}

// fill: k single-deposit snapshots, round-robin over the given chains, each written the way
// the kernel writes one (LockInputs, WriteTransaction, TopoWrite): 3k storage calls reported
// as one line, so that histories longer than the startup walk's page size stay affordable.
// Returns the status of the first call that did not commit.
func (w *rcWorld) fill(a []int) string {
	k, t0, s0, d0, ts0, o0, m := a[0], a[1], a[2], a[3], a[4], a[5], a[6]
	chains := a[7 : 7+m]
	heads := map[int]*common.Round{}
	for j := 0; j < k; j++ {
		t, c := t0+j, chains[j%m]
		d := &rcTxDef{kind: rcKindDeposit, outs: 1, key: d0 + j}
		tx := w.build(t, d)
		w.defs[t], w.txs[t], w.txId[tx.PayloadHash()] = d, tx, t
		if err := tx.LockInputs(w.proxy, false); err != nil {
			return "reject"
		}
		if err := w.proxy.WriteTransaction(tx); err != nil {
			return "reject"
		}
		if heads[c] == nil {
			h, err := w.badger.ReadRound(w.nodeIds[c])
			if err != nil || h == nil {
				panic("harness: no head round")
			}
			heads[c] = h
		}
		snap := &common.Snapshot{Version: common.SnapshotVersionCommonEncoding, NodeId: w.nodeIds[c],
			RoundNumber: heads[c].Number, References: heads[c].References, Timestamp: w.ts(ts0 + j),
			Signature: &crypto.CosiSignature{Mask: 1}}
		snap.AddTransaction(tx.PayloadHash())
		snap.Hash = snap.PayloadHash()
		w.snaps[s0+j], w.snapId[snap.Hash] = snap, s0+j
		got := w.node.TopoWrite(snap, []crypto.Hash{snap.NodeId})
		if int(got.TopologicalOrder) != o0+j {
			panic(fmt.Sprintf("harness: topology order %d, generator expected %d", got.TopologicalOrder, o0+j))
		}
	}
	return "ok"
}

func rcExec(sub string) func(st *State, line string) Result {
	return func(st *State, line string) Result {
		f := strings.Fields(line)
		res := Result{Tags: []string{f[0]}}
		if f[0] == "reset" {
			if old, ok := st.V["w"].(*rcWorld); ok {
				old.close()
				delete(st.V, "w")
			}
			res.Out = "ok"
			return res
		}
		if f[0] == "genesis" {
			g := rcInts(f[1:])
			rcSync = len(g) < 2 || g[1] != 0
			w := rcNewWorld(st, g[0])
			res.Out = "ok " + rcDigest(w.badger)
			return res
		}
		w, _ := st.V["w"].(*rcWorld)
		if w == nil {
			panic("harness: op before genesis")
		}
		a := []int{}
		if len(f) > 1 {
			a = rcInts(f[1:])
		}
		before := w.proxy.mutations
		dupFinal := false
		out, panicked, msg := Catch(func() string {
			switch f[0] {
			case "tx":
				d := &rcTxDef{kind: a[1], ref0: a[2], outs: a[3], key: a[4]}
				for i := 0; i < a[5]; i++ {
					d.inputs = append(d.inputs, [2]int{a[6+2*i], a[7+2*i]})
				}
				tx := w.build(a[0], d)
				w.defs[a[0]], w.txs[a[0]], w.txId[tx.PayloadHash()] = d, tx, a[0]
				return "ok"
			case "lock":
				if err := w.txs[a[0]].LockInputs(w.proxy, false); err != nil {
					return "reject"
				}
			case "wtx":
				if err := w.proxy.WriteTransaction(w.txs[a[0]]); err != nil {
					return "reject"
				}
			case "round":
				c, n, k := a[0], a[1], a[2]
				self := a[3 : 3+k]
				e, en, m := a[3+k], a[4+k], a[5+k]
				ext := a[6+k : 6+k+m]
				fs := a[6+k+m]
				refs := &common.RoundLink{Self: w.roundHash(c, n-1, self), External: w.roundHash(e, en, ext)}
				if err := w.proxy.StartNewRound(w.nodeIds[c], uint64(n), refs, w.ts(fs)); err != nil {
					return "reject"
				}
			case "snap":
				s, c, r, ts, topo, k := a[0], a[1], a[2], a[3], a[4], a[5]
				snap := &common.Snapshot{Version: common.SnapshotVersionCommonEncoding, NodeId: w.nodeIds[c],
					RoundNumber: uint64(r), Timestamp: w.ts(ts), Signature: &crypto.CosiSignature{Mask: 1}}
				head, err := w.badger.ReadRound(w.nodeIds[c])
				if err != nil || head == nil {
					panic("harness: no head round")
				}
				snap.References = head.References
				for _, t := range a[6 : 6+k] {
					snap.AddTransaction(w.txs[t].PayloadHash())
					if _, fin, _ := w.badger.ReadTransaction(w.txs[t].PayloadHash()); fin != "" {
						dupFinal = true // finalized before, by a snapshot of another chain
					}
				}
				snap.Hash = snap.PayloadHash()
				w.snaps[s], w.snapId[snap.Hash] = snap, s
				got := w.node.TopoWrite(snap, []crypto.Hash{snap.NodeId})
				if int(got.TopologicalOrder) != topo {
					panic(fmt.Sprintf("harness: topology order %d, generator expected %d", got.TopologicalOrder, topo))
				}
			case "mark":
				s := w.snaps[a[0]]
				if err := w.node.VerifReloadConsensusState(s, w.txs[w.txId[s.Transactions[0]]]); err != nil {
					return "reject"
				}
			case "fill":
				return w.fill(a)
			case "cut":
				return "cut"
			default:
				panic("harness: unknown op " + f[0])
			}
			return "ok"
		})
		if panicked && strings.HasPrefix(msg, "harness:") {
			panic(msg)
		}
		if out == "cut" {
			return w.observeCut(sub, &res)
		}
		if f[0] != "tx" && f[0] != "fill" && !panicked && w.proxy.mutations-before > 1 {
			panic(fmt.Sprintf("harness: op %q made %d mutating store calls", f[0], w.proxy.mutations-before))
		}
		if panicked {
			res.Tags = append(res.Tags, f[0]+":panic")
			res.Out = "panic"
			return res
		}
		if f[0] == "tx" {
			res.Out = out
			return res
		}
		res.Out = out + " " + rcDigest(w.badger)
		res.Nontrivial = out == "ok"
		if f[0] == "snap" && out == "ok" && dupFinal {
			res.Tags = append(res.Tags, "snap:duplicate-finalization")
		}
		if f[0] == "snap" && out == "ok" {
			d := w.defs[w.txId[w.snaps[a[0]].Transactions[0]]]
			if d != nil {
				res.Tags = append(res.Tags, fmt.Sprintf("snap:kind%d", d.kind))
			}
		}
		return res
	}
}

func (w *rcWorld) observeCut(sub string, res *Result) Result {
	want, wantTs := w.newestConsensus()
	liveMarker, err := w.badger.ReadLastConsensusSnapshot()
	if err != nil || liveMarker == nil {
		panic("harness: live marker unreadable")
	}
	o := w.restart()
	res.Nontrivial = true
	if o.setupErr != "" {
		res.Out = "fail topo=" + fmt.Sprint(o.topo)
		res.Tags = append(res.Tags, "cut:restart-failed")
		key := "C22:restart-fails"
		if sub == "recovery" {
			key = "C21:restart-fails"
		}
		res.PropKey, res.PropDesc = key, "SetupNode on the reopened directory: "+o.setupErr
		return *res
	}
	stale := liveMarker.Timestamp < wantTs
	if stale {
		res.Tags = append(res.Tags, "cut:marker-behind-before-restart")
	} else {
		res.Tags = append(res.Tags, "cut:marker-current-before-restart")
	}
	if sub == "recovery" {
		res.Out = fmt.Sprintf("ok marker=%d topo=%d cons=%s", o.marker, o.topo, o.cons)
		if o.marker != want {
			// "that snapshot or a later one": later by timestamp, or a second snapshot of the
			// very same consensus transaction (the marker names the operation once)
			got := w.snaps[o.marker]
			if got == nil || (got.Timestamp < wantTs && got.Transactions[0] != w.snaps[want].Transactions[0]) {
				res.PropKey = "C21:marker-stale-after-foreign-snapshot"
				res.PropDesc = fmt.Sprintf("consensus snapshot %d is durably finalized, after restart ReadLastConsensusSnapshot returns snapshot %d", want, o.marker)
			}
		}
		return *res
	}
	res.Out = fmt.Sprintf("ok topo=%d total=%d invalid=%d %s", o.topo, o.total, o.invalid, o.digest)
	if o.invalid != 0 {
		res.PropKey, res.PropDesc = "C22:validator-reports-invalid", fmt.Sprintf("ValidateGraphEntries after restart: %d/%d invalid", o.invalid, o.total)
	} else if !o.scanOK {
		res.PropKey, res.PropDesc = "C22:store-inconsistent", o.scanDesc
	}
	return *res
}

// ---------------------------------------------------------------- generator

// rcGen simulates the abstract ledger (ids only) so that every generated line follows the
// call order the kernel follows; Exec turns the ids into real objects.
type rcGen struct {
	r                         *Rand
	n                         int
	lines                     []string
	cutNum, cutDen            int
	head                      []int
	cur                       [][]int
	curStart                  []int
	fin                       []map[int][]int
	nextTx, nextSnap, nextTop int
	now                       int
	lastConsTx                int
	pool                      [][2]int
	depKey, mintBatch, pledgr int
	pendingPledge             int
	removed                   map[int]bool
	uniq                      map[[2]int]bool
	finalized                 []int // ordinary finalized txs (for duplicate inclusion)
	snapCount                 int
}

func newRcGen(r *Rand, n int, cutNum, cutDen int) *rcGen {
	g := &rcGen{r: r, n: n, cutNum: cutNum, cutDen: cutDen, nextTx: n + 2, nextSnap: n + 2, nextTop: n + 1,
		now: 1_000_000_000, lastConsTx: n + 1, mintBatch: rcMintBase, removed: map[int]bool{}, uniq: map[[2]int]bool{}}
	g.lines = []string{"reset", fmt.Sprintf("genesis %d", n)}
	for c := 0; c < n; c++ {
		g.head = append(g.head, 1)
		g.cur = append(g.cur, nil)
		g.curStart = append(g.curStart, 0)
		f := map[int][]int{0: {c + 1}}
		if c == 0 {
			f[0] = []int{1, n + 1}
		}
		g.fin = append(g.fin, f)
	}
	return g
}

func rcJoin(xs []int) string {
	s := make([]string, len(xs))
	for i, x := range xs {
		s[i] = strconv.Itoa(x)
	}
	return strings.Join(s, " ")
}

func (g *rcGen) op(format string, a ...any) {
	g.lines = append(g.lines, fmt.Sprintf(format, a...))
	if g.r.Chance(g.cutNum, g.cutDen) {
		g.lines = append(g.lines, "cut")
	}
}

func (g *rcGen) def(kind, ref0, outs, key int, inputs [][2]int) int {
	t := g.nextTx
	g.nextTx++
	flat := []int{}
	for _, in := range inputs {
		flat = append(flat, in[0], in[1])
	}
	l := fmt.Sprintf("tx %d %d %d %d %d %d", t, kind, ref0, outs, key, len(inputs))
	if len(flat) > 0 {
		l += " " + rcJoin(flat)
	}
	g.lines = append(g.lines, l)
	return t
}

func (g *rcGen) newRound(c int) {
	e := g.r.Intn(g.n - 1)
	if e >= c {
		e++
	}
	en := g.head[e] - 1
	self, ext := g.cur[c], g.fin[e][en]
	g.op("round %d %d %d %s %d %d %d %s %d", c, g.head[c]+1, len(self), rcJoin(self), e, en, len(ext), rcJoin(ext), g.curStart[c])
	g.fin[c][g.head[c]] = self
	g.head[c]++
	g.cur[c] = nil
}

func (g *rcGen) maybeRound(c int) {
	if len(g.cur[c]) > 0 && (len(g.cur[c]) >= 3 || g.r.Bool()) {
		g.newRound(c)
	}
}

func (g *rcGen) snap(c int, txs []int) int {
	s := g.nextSnap
	g.nextSnap++
	g.now += g.r.Range(1, 9) * 1_000_000
	g.op("snap %d %d %d %d %d %d %s", s, c, g.head[c], g.now, g.nextTop, len(txs), rcJoin(txs))
	g.nextTop++
	if len(g.cur[c]) == 0 {
		g.curStart[c] = g.now
	}
	g.cur[c] = append(g.cur[c], s)
	for _, t := range txs {
		g.uniq[[2]int{c, t}] = true
	}
	g.snapCount++
	return s
}

func (g *rcGen) ordinaryTx() (int, int) {
	outs := g.r.Range(1, 2)
	if len(g.pool) > 0 && g.r.Chance(1, 3) {
		k := g.r.Range(1, min(2, len(g.pool)))
		ins := append([][2]int{}, g.pool[:k]...)
		g.pool = g.pool[k:]
		return g.def(rcKindScript, 0, outs, 0, ins), outs
	}
	g.depKey++
	return g.def(rcKindDeposit, 0, outs, g.depKey, nil), outs
}

func (g *rcGen) ordinary(c int) {
	g.maybeRound(c)
	t, outs := g.ordinaryTx()
	g.op("lock %d", t)
	if g.r.Chance(1, 12) { // locked, body never written
		return
	}
	g.op("wtx %d", t)
	if g.r.Chance(1, 12) { // admitted, never finalized
		return
	}
	txs := []int{t}
	fresh := [][2]int{}
	for i := 0; i < outs; i++ {
		fresh = append(fresh, [2]int{t, i})
	}
	if g.r.Chance(1, 5) {
		t2, outs2 := g.ordinaryTx()
		g.op("lock %d", t2)
		g.op("wtx %d", t2)
		txs = append(txs, t2)
		for i := 0; i < outs2; i++ {
			fresh = append(fresh, [2]int{t2, i})
		}
		g.finalized = append(g.finalized, t2)
	} else if len(g.finalized) > 0 && g.r.Chance(1, 8) {
		d := Pick(g.r, g.finalized)
		if !g.uniq[[2]int{c, d}] {
			txs = append(txs, d) // already finalized elsewhere: second snapshot of the same transaction
		}
	}
	g.snap(c, txs)
	g.finalized = append(g.finalized, t)
	g.pool = append(g.pool, fresh...)
}

// shared: ONE ordinary transaction finalized by snapshots of 2-3 different chains (legitimate:
// the first finalization wins, finalizeTransaction leaves FINALIZATION untouched for the later
// snapshots, the validator only logs "DUPLICATED FINALIZATION"), then a round transition on each
// of those chains, so that every one of the snapshots falls below its head and into the window
// of the startup validator.
func (g *rcGen) shared() {
	perm := []int{}
	for c := 0; c < g.n; c++ {
		perm = append(perm, c)
	}
	for i := len(perm) - 1; i > 0; i-- {
		j := g.r.Intn(i + 1)
		perm[i], perm[j] = perm[j], perm[i]
	}
	chains := perm[:g.r.Range(2, 3)]
	g.maybeRound(chains[0])
	t, outs := g.ordinaryTx()
	g.op("lock %d", t)
	g.op("wtx %d", t)
	g.snap(chains[0], []int{t})
	g.finalized = append(g.finalized, t)
	for i := 0; i < outs; i++ {
		g.pool = append(g.pool, [2]int{t, i})
	}
	for _, y := range chains[1:] {
		g.maybeRound(y)
		txs := []int{t}
		if g.r.Chance(1, 3) { // the later snapshot also carries a transaction of its own
			t2, outs2 := g.ordinaryTx()
			g.op("lock %d", t2)
			g.op("wtx %d", t2)
			if g.r.Bool() {
				txs = []int{t2, t}
			} else {
				txs = []int{t, t2}
			}
			g.finalized = append(g.finalized, t2)
			for i := 0; i < outs2; i++ {
				g.pool = append(g.pool, [2]int{t2, i})
			}
		}
		g.snap(y, txs)
		if g.r.Chance(1, 4) {
			g.ordinary(perm[len(perm)-1])
		}
	}
	for i := len(chains) - 1; i > 0; i-- {
		j := g.r.Intn(i + 1)
		chains[i], chains[j] = chains[j], chains[i]
	}
	for _, c := range chains {
		if len(g.cur[c]) > 0 {
			g.newRound(c)
		}
		if g.r.Chance(1, 4) { // and one round further
			g.ordinary(c)
			if len(g.cur[c]) > 0 {
				g.newRound(c)
			}
		}
	}
}

func (g *rcGen) consensus(a int) {
	g.maybeRound(a)
	var t int
	switch {
	case g.pendingPledge != 0 && g.r.Chance(2, 3):
		t = g.def(rcKindCancel, g.lastConsTx, 1, g.pledgr, [][2]int{{g.pendingPledge, 0}})
		g.pendingPledge = 0
	case g.pendingPledge == 0 && len(g.pool) > 0 && g.r.Chance(1, 3):
		g.pledgr++
		in := g.pool[0]
		g.pool = g.pool[1:]
		t = g.def(rcKindPledge, g.lastConsTx, 1, g.pledgr, [][2]int{in})
		g.pendingPledge = t
	case g.pendingPledge == 0 && len(g.removed) < 2 && g.r.Chance(1, 4):
		k := g.r.Range(1, g.n-1)
		for g.removed[k] {
			k = g.r.Range(1, g.n-1)
		}
		g.removed[k] = true
		t = g.def(rcKindRemove, g.lastConsTx, 1, k, [][2]int{{k + 1, 0}})
	default:
		g.mintBatch++
		outs := g.r.Range(1, 2)
		t = g.def(rcKindMint, g.lastConsTx, outs, g.mintBatch, nil)
		for i := 0; i < outs; i++ {
			defer func(i int) { g.pool = append(g.pool, [2]int{t, i}) }(i)
		}
	}
	g.op("lock %d", t)
	g.op("wtx %d", t)
	g.now += 1_000_000
	s := g.snap(a, []int{t})
	g.lastConsTx = t
	for j := g.r.Intn(3); j > 0; j-- { // other chains go on before the marker is recorded
		b := g.r.Intn(g.n - 1)
		if b >= a {
			b++
		}
		g.ordinary(b)
	}
	g.op("mark %d", s)
	if g.r.Chance(1, 10) {
		g.op("mark %d", s)
	}
}

// fill emits one `fill` line: k cheap deposit snapshots round-robin over the chains other than a
func (g *rcGen) fill(k, a int) {
	if k == 0 {
		return
	}
	var chains []int
	for c := 0; c < g.n; c++ {
		if c != a {
			chains = append(chains, c)
		}
	}
	g.now += 1_000_000
	g.op("fill %d %d %d %d %d %d %d %s", k, g.nextTx, g.nextSnap, g.depKey+1, g.now, g.nextTop, len(chains), rcJoin(chains))
	for j := 0; j < k; j++ {
		c := chains[j%len(chains)]
		if len(g.cur[c]) == 0 {
			g.curStart[c] = g.now + j
		}
		g.cur[c] = append(g.cur[c], g.nextSnap+j)
		g.uniq[[2]int{c, g.nextTx + j}] = true
	}
	g.nextTx, g.nextSnap, g.nextTop, g.depKey, g.now = g.nextTx+k, g.nextSnap+k, g.nextTop+k, g.depKey+k, g.now+k
	g.snapCount += k
}

// rcGenLong: [a marked consensus operation] [A ordinary snapshots] one consensus snapshot whose
// marker write is still outstanding, B ordinary snapshots of other chains, stop, restart; then
// the marker write, stop, restart. With B > 500 the unrecorded snapshot is more than one page
// behind the last topology entry, with A > 500 more than one page ahead of the recorded marker.
func rcGenLong(r *Rand, a, b int) []string {
	g := newRcGen(r, 7, 0, 1)
	g.lines[1] = "genesis 7 0"
	ch := g.r.Intn(g.n)
	if g.r.Bool() {
		g.consensus(g.r.Intn(g.n))
	}
	g.fill(a, ch)
	g.mintBatch++
	t := g.def(rcKindMint, g.lastConsTx, 1, g.mintBatch, nil)
	g.op("lock %d", t)
	g.op("wtx %d", t)
	g.now += 1_000_000
	s := g.snap(ch, []int{t})
	g.lastConsTx = t
	g.fill(b, ch)
	g.lines = append(g.lines, "cut")
	g.op("mark %d", s)
	g.fill(g.r.Range(0, 3), ch)
	g.lines = append(g.lines, "cut")
	return g.lines
}

func rcGenCase(r *Rand, i int, tier string) []string {
	// long histories (A ordinary snapshots between the recorded marker and the unrecorded
	// consensus snapshot, B after it): thorough runs every shape for every seed, quick the one
	// just past the page size and one other shape
	long := [][2]int{{r.Intn(4), 501}, {r.Intn(4), 499}, {r.Intn(4), 500}, {r.Intn(4), 1000 + r.Intn(3)*100},
		{Pick(r, []int{501, 1001, 1200}), r.Intn(3)}, {Pick(r, []int{499, 500, 1001}), Pick(r, []int{501, 1001})}}
	if tier == "thorough" && i < len(long) {
		return rcGenLong(r, long[i][0], long[i][1])
	}
	if tier != "thorough" && i < 2 {
		k := 0
		if i == 1 {
			k = 1 + r.Intn(len(long)-1)
		}
		return rcGenLong(r, long[k][0], long[k][1])
	}
	num, den := 1, 4
	steps := r.Range(3, 7)
	if tier == "thorough" {
		num, den = 1, 1
		steps = r.Range(3, 10)
	}
	g := newRcGen(r, 7, num, den)
	for k := 0; k < steps; k++ {
		c := g.r.Intn(g.n)
		switch {
		case g.r.Chance(1, 6):
			g.shared()
		case g.r.Chance(2, 5):
			g.consensus(c)
		default:
			g.ordinary(c)
		}
	}
	g.lines = append(g.lines, "cut")
	return g.lines
}

// a deposit finalized on chain 1 and again on chain 2 (FINALIZATION keeps naming the first
// snapshot), chain 2 moves on to round 2: its round 1 is now inside the validator's window
var rcSharedTx = []string{"reset", "genesis 7",
	"tx 9 0 0 1 1 0", "lock 9", "wtx 9", "snap 9 1 1 1001000000 8 1 9", "cut",
	"snap 10 2 1 1002000000 9 1 9", "cut", "round 2 2 1 10 3 0 1 4 1002000000", "cut",
	"round 1 2 1 9 2 1 1 10 1001000000", "cut"}

// the confirmed C21 witness: mint finalized on chain 1, a deposit finalized on chain 2, stop
// before the marker write
var rcWitness = []string{"reset", "genesis 7",
	"tx 9 2 8 1 1708 0", "lock 9", "wtx 9", "snap 9 1 1 1001000000 8 1 9",
	"tx 10 0 0 1 1 0", "lock 10", "wtx 10", "cut", "snap 10 2 1 1002000000 9 1 10", "cut", "mark 9", "cut"}

// the excluded point of SnapProto: the same consensus transaction finalized a second time, on
// another chain (the kernel's reference check lets it pass; the marker keeps the first snapshot)
var rcDuplicateConsensus = []string{"reset", "genesis 7",
	"tx 9 2 8 1 1708 0", "lock 9", "wtx 9", "snap 9 1 1 1001000000 8 1 9", "mark 9", "cut",
	"snap 10 3 1 1003000000 9 1 9", "cut", "mark 10", "cut",
	"tx 10 2 9 1 1709 0", "lock 10", "wtx 10", "snap 11 1 1 1005000000 10 1 10", "cut", "mark 11", "cut"}

func init() {
	rule := "random multi-chain workloads over a generated 7-node genesis in a real Badger directory: deposits, script " +
		"spends, two-transaction snapshots, one ordinary transaction finalized by snapshots of 2-3 chains followed by a " +
		"round transition on each of them, round transitions with external links, and " +
		"consensus-class snapshots (mint, pledge, cancel, remove) interleaved with 0-2 foreign snapshots before the marker " +
		"write; `cut` = real close/copy/reopen + kernel.SetupNode (every boundary in thorough, 1/4 sampled in quick); " +
		"non-trivial = a storage call that committed, or a restart; distinct = distinct op line"
	Register(&Subsystem{Name: "recovery", Rule: rule, Gen: rcGenCase, Exec: rcExec("recovery"), Corpus: [][]string{rcWitness, rcDuplicateConsensus, rcSharedTx}})
	Register(&Subsystem{Name: "ledgercrash", Rule: rule, Gen: rcGenCase, Exec: rcExec("ledgercrash"), Corpus: [][]string{rcWitness, rcDuplicateConsensus, rcSharedTx}})
}

var _ = bytes.Equal
var _ = sort.Ints
