package main

// C08, transport part (anchor p2p/quic.go): what the node builds is what the peer parses *through
// the real loopback QUIC transport*, and a frame whose sender stops in the middle is an error of
// `Receive`, never a shorter message.  Model: lean/Mixin/Model/PeerWire.lean (framing of
// Mixin.Batch composed with the parser of Mixin.PeerMsg).
//
//	b-…                         the builder ops of the `peermsg` subsystem (same executor)
//	wire <hex> <ck> <tx> <sn>   client.Send(d) → server.Receive() → parseNetworkMessage(tm.Version, tm.Data)
//	trunc <k> <hex>             the first k bytes of the frame of d are written, then the stream
//	                            is closed; server.Receive()
//
// Property mode: `C08:truncated-frame-accepted` when Receive returns a message for k < 6+len(d)
// (`C08:truncated-frame-parsed-as-message` when that prefix is moreover a well-formed message);
// `C08:wire-roundtrip` when a whole frame is not received as exactly d or parses differently
// from d itself.  Raw stream access and loopback pairing come from p2p/verif_hooks_c31.go.

import (
	"bytes"
	"context"
	"encoding/binary"
	"fmt"
	"sort"
	"strconv"
	"strings"
	"time"

	"github.com/MixinNetwork/mixin/p2p"
)

type c08WireEnv struct {
	relayer  *p2p.QuicRelayer
	accepted chan *p2p.QuicClient
}

var c08Wire *c08WireEnv

func c08WireSetup() *c08WireEnv {
	if c08Wire != nil {
		return c08Wire
	}
	e := &c08WireEnv{accepted: make(chan *p2p.QuicClient, 64)}
	var err error
	e.relayer, err = p2p.NewQuicRelayer("127.0.0.1:0")
	if err != nil {
		panic("harness: c08 wire: " + err.Error())
	}
	go func() { // one acceptor for the run; every op picks its own connection by port
		for {
			c, err := e.relayer.Accept(context.Background())
			if err != nil {
				time.Sleep(time.Millisecond)
				continue
			}
			select {
			case e.accepted <- c.(*p2p.QuicClient):
			default:
				c.Close("dropped")
			}
		}
	}()
	c08Wire = e
	return e
}

func c08Port(a string) string { return a[strings.LastIndexByte(a, ':')+1:] }

func (e *c08WireEnv) dial() *p2p.QuicClient {
	c, err := p2p.NewQuicConsumer(context.Background(), e.relayer.VerifC31ListenAddr())
	if err != nil {
		panic("harness: c08 wire dial: " + err.Error())
	}
	return c
}

// the accepting end of client's connection (visible once the client has written something)
func (e *c08WireEnv) server(client *p2p.QuicClient) *p2p.QuicClient {
	local := c08Port(client.VerifC31LocalAddr())
	deadline := time.After(60 * time.Second)
	for {
		select {
		case s := <-e.accepted:
			if c08Port(s.RemoteAddr().String()) == local {
				return s
			}
			s.Close("stale")
		case <-deadline:
			panic("harness: c08 wire: loopback connection was not accepted")
		}
	}
}

func c08FrameOf(d []byte) []byte {
	f := []byte{p2p.TransportMessageVersion, 0, 0, 0, 0, 0}
	binary.BigEndian.PutUint32(f[2:], uint32(len(d)))
	return append(f, d...)
}

// cut points of the frame of a built message: around the header, at every field boundary of
// the message, at 32-byte steps through its tail, one before the end, and a few anywhere
func c08Cuts(r *Rand, d []byte) []int {
	n := len(d) + p2p.TransportMessageHeaderSize
	set := map[int]bool{}
	add := func(k int) {
		if k >= 1 && k <= n {
			set[k] = true
		}
	}
	for _, k := range []int{1, 5, 6, 7, n - 1, n - 2, n - 32, n - 33, n} {
		add(k)
	}
	for _, off := range []int{1, 5, 33, 65, 67, 71, 97, 105, 129} { // field offsets used by the parser
		add(6 + off)
		if r.Chance(1, 3) {
			add(6 + off + Pick(r, []int{-1, 1}))
		}
	}
	tail := []int{}
	for k := 6 + 129; k < n; k += 32 { // wanted hashes of a commitment; 67+32i for pre-commitments
		tail = append(tail, k, k+2)
	}
	for i := 0; i < 4 && len(tail) > 0; i++ {
		add(Pick(r, tail))
	}
	for i := 0; i < 3; i++ {
		add(r.Range(1, n))
	}
	ks := make([]int, 0, len(set))
	for k := range set {
		ks = append(ks, k)
	}
	sort.Ints(ks)
	if len(ks) > 14 {
		must := map[int]bool{5: true, 6: true, 7: true, n - 1: true, n: true}
		var keep, rest []int
		for _, k := range ks {
			if must[k] {
				keep = append(keep, k)
			} else {
				rest = append(rest, k)
			}
		}
		for len(keep) < 14 && len(rest) > 0 {
			j := r.Intn(len(rest))
			keep = append(keep, rest[j])
			rest = append(rest[:j], rest[j+1:]...)
		}
		sort.Ints(keep)
		ks = keep
	}
	return ks
}

func c08WireGen(r *Rand, i int, tier string) []string {
	kind := Pick(r, []int{2, 2, 2, 12, 12, 11, 3, 4, 9, 1, 5, 6, 7, 8, 10, 0})
	if i%4 == 0 {
		kind = 2 // commitment with wanted hashes: every 32-byte cut of the tail is well-formed
	}
	line, built := c08BuilderCase(r, kind, "quick")
	out := []string{line}
	if built == nil {
		return out
	}
	out = append(out, "wire "+Hex(built)+" ? ? ?")
	if len(built) > 40000 {
		for _, k := range []int{6, 6 + len(built) - 1, r.Range(7, 5+len(built))} {
			out = append(out, fmt.Sprintf("trunc %d %s", k, Hex(built)))
		}
		return out
	}
	for _, k := range c08Cuts(r, built) {
		out = append(out, fmt.Sprintf("trunc %d %s", k, Hex(built)))
	}
	return out
}

func c08ExecTrunc(t []string) Result {
	e := c08WireSetup()
	k, _ := strconv.Atoi(t[1])
	d := UnHex(t[2])
	frame := c08FrameOf(d)
	if k < 1 || k > len(frame) {
		panic("harness: trunc: cut out of range")
	}
	res := Result{}
	client := e.dial()
	defer client.Close("done")
	if err := client.VerifC31RawWrite(bytes.Clone(frame[:k]), true); err != nil {
		panic("harness: trunc: raw write: " + err.Error())
	}
	s := e.server(client)
	defer s.Close("done")
	tm, err := s.Receive()
	where := "body"
	if k < p2p.TransportMessageHeaderSize {
		where = "header"
	} else if k == len(frame) {
		where = "whole"
	}
	if err != nil {
		res.Out = "reject"
		res.Tags = []string{"trunc:" + where + ":error"}
		if k == len(frame) {
			res.PropKey, res.PropDesc = "C08:wire-roundtrip", "a whole frame is refused by Receive: "+err.Error()
		}
		return res
	}
	res.Out = "ok " + Hex(tm.Data)
	res.Tags = []string{"trunc:" + where + ":message"}
	res.Nontrivial = true
	if k < len(frame) {
		parsed := "does not parse"
		res.PropKey = "C08:truncated-frame-accepted"
		Catch(func() string {
			if m, perr := p2p.VerifParseNetworkMessage(tm.Version, tm.Data); perr == nil {
				res.PropKey = "C08:truncated-frame-parsed-as-message"
				parsed = fmt.Sprintf("parses as a well-formed type-%d message with %d wanted hashes / %d commitments / %d transactions",
					m.Type, len(m.WantTxs), len(m.Commitments), len(m.Transactions))
			}
			return ""
		})
		res.PropDesc = fmt.Sprintf("the sender closed the stream after %d of %d frame bytes (header announces %d); Receive returned %d bytes with a nil error; that prefix %s",
			k, len(frame), len(d), len(tm.Data), parsed)
	} else if !bytes.Equal(tm.Data, d) {
		res.PropKey, res.PropDesc = "C08:wire-roundtrip", "Receive returned other bytes than were framed"
	}
	return res
}

func c08ExecWire(t []string) Result {
	e := c08WireSetup()
	d := UnHex(t[1])
	ck, tx, sn := c08OracleTables(d)
	res := Result{LeanIn: fmt.Sprintf("wire %s %s %s %s", Hex(d), ck, tx, sn), Tags: []string{"wire"}}
	client := e.dial()
	defer client.Close("done")
	sent := make(chan error, 1)
	go func() { sent <- client.Send(d) }()
	if len(d) < 1 || len(d) > p2p.TransportMessageMaxSize {
		if err := <-sent; err == nil {
			res.PropKey, res.PropDesc = "C08:wire-roundtrip", fmt.Sprintf("Send accepts %d bytes", len(d))
		}
		res.Out = "send-error"
		return res
	}
	s := e.server(client)
	defer s.Close("done")
	tm, err := s.Receive()
	if serr := <-sent; serr != nil || err != nil {
		res.Out = "send-error"
		res.PropKey, res.PropDesc = "C08:wire-roundtrip", fmt.Sprintf("Send/Receive of a %d-byte message failed: %v %v", len(d), serr, err)
		return res
	}
	show := func(v byte, b []byte) string {
		out, _, _ := Catch(func() string {
			m, err := p2p.VerifParseNetworkMessage(v, b)
			if err != nil {
				return "reject"
			}
			return c08ShowMsg(m)
		})
		return out
	}
	res.Out = show(tm.Version, tm.Data)
	res.Nontrivial = strings.HasPrefix(res.Out, "ok")
	switch {
	case !bytes.Equal(tm.Data, d) || int(tm.Size) != len(d):
		res.PropKey, res.PropDesc = "C08:wire-roundtrip", fmt.Sprintf("Receive(Send(d)) differs from d: %d bytes sent, %d received", len(d), len(tm.Data))
	case res.Out != show(p2p.TransportMessageVersion, d):
		res.PropKey, res.PropDesc = "C08:wire-roundtrip", "the received message parses differently from the built one"
	}
	return res
}

func execPeerWire(st *State, line string) Result {
	t := strings.Fields(line)
	switch t[0] {
	case "trunc":
		return c08ExecTrunc(t)
	case "wire":
		return c08ExecWire(t)
	}
	return execPeerMsg(st, line)
}

func init() {
	Register(&Subsystem{
		Name: "peerwire",
		Rule: "outputs of the real builders (commitments with wanted hashes most often) sent through the real loopback QUIC " +
			"transport: whole (Send → Receive → parse, compared with the parse of the built bytes) and cut after k frame bytes " +
			"followed by end of stream, k at header-1/header/header+1, every field offset of the parser, 32-byte steps " +
			"through list tails, len-1, len-32 and random; non-trivial = Receive returned a message; distinct = distinct line",
		Gen:  c08WireGen,
		Exec: execPeerWire,
	})
}
