package main

// C24 — retiring a local proposal never loses a pending transaction: the real
// expireCosiAggregators / retryCosiSnapshot / abandonCosiSnapshot / resetCosiStateForNewRound
// and the guard + installation step of cosiSendAnnouncement, on a kernel.Chain with given
// aggregator/verifier maps over a real store (kernel hook VerifC24), against
// lean/Mixin/Model/Requeue.lean. Property mode checks on the Go side that every pending
// transaction of a retired proposal is in the cache queue afterwards, and (for states produced
// by the real announcement path only) that nothing owned by a still-active proposal was queued.

import (
	"fmt"
	"sort"
	"strconv"
	"strings"

	"github.com/MixinNetwork/mixin/common"
	"github.com/MixinNetwork/mixin/config"
	"github.com/MixinNetwork/mixin/crypto"
	"github.com/MixinNetwork/mixin/kernel"
)

const c24Day = uint64(86400) * 1000000000

// a fixed noon, so that every generated timestamp is on one day (prepareAnnouncement compares days)
// the UTC midnight after c24T0
const c24Midnight = (uint64(1790000000)*1000000000/c24Day + 1) * c24Day

const c24T0 = (uint64(1790000000)*1000000000/c24Day)*c24Day + c24Day/2

type c24Agg struct {
	hash, round        int
	ts                 uint64
	commitments, resps int
	txs                []int
}

type c24Case struct {
	kinds    map[int]byte
	txs      map[int]*common.VersionedTransaction
	byHash   map[crypto.Hash]int // real hash -> symbolic id (transactions and snapshots)
	snapHash map[int]crypto.Hash
	aggs     []c24Agg
	vers     [][4]uint64 // key, vid, round, ts
	h        *kernel.VerifC24
	nDecl    int  // declared verifier identities
	handMade bool // the state contains hand-made aggregators (not only real announcements)
	serial   uint64
}

var c24Serial uint64

func c24Of(st *State) *c24Case {
	c, _ := st.V["c24"].(*c24Case)
	if c == nil {
		c24Serial++
		c = &c24Case{kinds: map[int]byte{}, txs: map[int]*common.VersionedTransaction{}, byHash: map[crypto.Hash]int{},
			snapHash: map[int]crypto.Hash{}, serial: c24Serial}
		st.V["c24"] = c
	}
	return c
}

func (c *c24Case) tx(e *c31Env, id int, kind byte) *common.VersionedTransaction {
	if t := c.txs[id]; t != nil {
		return t
	}
	var ver *common.VersionedTransaction
	switch kind {
	case 'p':
		ver = e.spend(c31Spec{kind: 'v', nIn: 1, nSigs: 1}, 0)
		c31Must(e.store.LockUTXOs(ver.Inputs, ver.PayloadHash(), false))
		c31Must(e.store.WriteTransaction(ver))
	case 'f':
		ver = e.spend(c31Spec{kind: 'f', nIn: 1, nSigs: 1}, 0)
	default:
		e.seq++
		ver = common.NewTransactionV5(crypto.Blake3Hash([]byte(fmt.Sprintf("c24-asset-%d", e.seq)))).AsVersioned()
		switch kind {
		case 'c':
			c31Must(e.store.CacheStoreTransaction(ver))
		case 'q':
			c31Must(e.store.CacheQueueTransaction(ver))
		}
	}
	c.txs[id], c.kinds[id] = ver, kind
	c.byHash[ver.PayloadHash()] = id
	return ver
}

// key maps a symbolic key to a real hash: < 1000 transaction, otherwise snapshot
func (c *c24Case) key(e *c31Env, k int) crypto.Hash {
	if k < 1000 {
		return c.tx(e, k, 'm').PayloadHash()
	}
	if h, ok := c.snapHash[k]; ok {
		return h
	}
	h := crypto.Blake3Hash([]byte(fmt.Sprintf("c24-snap-%d-%d", c.serial, k)))
	c.snapHash[k] = h
	c.byHash[h] = k
	return h
}

func (c *c24Case) build(e *c31Env) {
	if c.h != nil {
		return
	}
	var snaps []kernel.VerifC24Snap
	var aggs []kernel.VerifC24Agg
	for _, a := range c.aggs {
		s := kernel.VerifC24Snap{Hash: c.key(e, a.hash), Round: uint64(a.round), Timestamp: a.ts}
		for _, t := range a.txs {
			s.Txs = append(s.Txs, c.key(e, t))
		}
		snaps = append(snaps, s)
		aggs = append(aggs, kernel.VerifC24Agg{Snap: len(snaps) - 1, Commitments: a.commitments, Responses: a.resps})
	}
	// one snapshot object per declared verifier identity
	vsnap := map[int]int{}
	for _, v := range c.vers {
		vid := int(v[1])
		if _, ok := vsnap[vid]; !ok {
			snaps = append(snaps, kernel.VerifC24Snap{Hash: crypto.Blake3Hash([]byte(fmt.Sprintf("c24-vsnap-%d-%d", c.serial, vid))),
				Round: v[2], Timestamp: v[3]})
			vsnap[vid] = len(snaps) - 1
		}
	}
	verifierSnaps := make([]int, len(vsnap))
	for vid, si := range vsnap {
		if vid >= len(vsnap) {
			panic("harness: c24: verifier identities must be dense")
		}
		verifierSnaps[vid] = si
	}
	var vers []kernel.VerifC24Ver
	for _, v := range c.vers {
		vers = append(vers, kernel.VerifC24Ver{Key: c.key(e, int(v[0])), Verifier: int(v[1])})
	}
	c.nDecl = len(vsnap)
	c.h = e.node.VerifC24Chain(snaps, aggs, verifierSnaps, vers)
}

// drain the cache queue, report what was in it, and put it back
func (c *c24Case) queue(e *c31Env) []int {
	var ids []int
	var all []*common.VersionedTransaction
	for {
		txs, err := e.store.CacheRetrieveTransactions(common.SnapshotTransactionsMaximum)
		c31Must(err)
		if len(txs) == 0 {
			break
		}
		all = append(all, txs...)
	}
	for _, t := range all {
		id, ok := c.byHash[t.PayloadHash()]
		if !ok {
			panic("harness: c24: foreign transaction in the cache queue")
		}
		ids = append(ids, id)
		c31Must(e.store.CacheQueueTransaction(t))
	}
	sort.Ints(ids)
	return ids
}

func (c *c24Case) aggIds() []int {
	hs, _ := c.h.Dump()
	var ids []int
	for _, h := range hs {
		ids = append(ids, c.byHash[h])
	}
	sort.Ints(ids)
	return ids
}

func (c *c24Case) dump(e *c31Env) string {
	_, vs := c.h.Dump()
	type kv struct{ k, v int }
	var kvs []kv
	for _, v := range vs {
		k, ok := c.byHash[v.Key]
		if !ok {
			panic("harness: c24: unknown verifier key")
		}
		vid := v.Verifier
		if vid >= c.nDecl { // created by a real announcement: identified by its snapshot
			vid = c.byHash[c.h.VerifierSnapshotHash(v.Verifier)]
		}
		kvs = append(kvs, kv{k, vid})
	}
	sort.Slice(kvs, func(i, j int) bool { return kvs[i].k < kvs[j].k })
	var vp []string
	for _, e := range kvs {
		vp = append(vp, fmt.Sprintf("%d=%d", e.k, e.v))
	}
	return fmt.Sprintf("aggs:%s vers:%s queue:%s", c24JoinInts(c.aggIds()), strings.Join(vp, ","), c24JoinInts(c.queue(e)))
}

func c24JoinInts(xs []int) string {
	var p []string
	for _, x := range xs {
		p = append(p, strconv.Itoa(x))
	}
	return strings.Join(p, ",")
}

func c24Contains(xs []int, x int) bool {
	for _, y := range xs {
		if x == y {
			return true
		}
	}
	return false
}

func (c *c24Case) pending(id int) bool {
	k := c.kinds[id]
	return k == 'c' || k == 'p' || k == 'q'
}

func execC24(st *State, line string) Result {
	e := c31Setup(st)
	t := strings.Fields(line)
	res := Result{Tags: []string{t[0]}}
	if t[0] == "reset" {
		e.drainQueue()
		st.V["c24"] = nil
		res.Out = "ok"
		return res
	}
	c := c24Of(st)
	ints := func(ss []string) []int {
		var r []int
		for _, s := range ss {
			r = append(r, c31Atoi(s))
		}
		return r
	}
	switch t[0] {
	case "tx":
		c.tx(e, c31Atoi(t[1]), t[2][0])
		res.Tags = append(res.Tags, "tx:"+t[2])
		res.Out = "ok"
		return res
	case "agg": // agg hash round ts commitments responses ntx txs…  (the model also gets the threshold)
		a := c24Agg{hash: c31Atoi(t[1]), round: c31Atoi(t[2]), ts: uint64(c31Atoi(t[3])), commitments: c31Atoi(t[4]), resps: c31Atoi(t[5]), txs: ints(t[7:])}
		if len(a.txs) != c31Atoi(t[6]) || c.h != nil {
			panic("harness: bad agg line")
		}
		c.aggs = append(c.aggs, a)
		c.handMade = true
		base := e.node.ConsensusThreshold(a.ts, false)
		res.LeanIn = fmt.Sprintf("agg %s %s %s %s %s %d %s", t[1], t[2], t[3], t[4], t[5], base, strings.Join(t[6:], " "))
		switch {
		case a.commitments >= base && a.resps == a.commitments:
			res.Tags = append(res.Tags, "agg:complete")
		default:
			res.Tags = append(res.Tags, "agg:incomplete")
		}
		res.Out = "ok"
		return res
	case "ver": // ver key vid round ts
		if c.h != nil {
			panic("harness: bad ver line")
		}
		c.vers = append(c.vers, [4]uint64{uint64(c31Atoi(t[1])), uint64(c31Atoi(t[2])), uint64(c31Atoi(t[3])), uint64(c31Atoi(t[4]))})
		res.Out = "ok"
		return res
	}
	c.build(e)
	aggsBefore, queueBefore := c.aggIds(), c.queue(e)
	txsOf := map[int][]int{}
	for _, a := range c.aggs {
		txsOf[a.hash] = a.txs
	}
	var owned, sanityTxs, announced, guardedKeys []int
	notInstalled := false
	orig := t[0]
	out, panicked, msg := Catch(func() string {
		switch t[0] {
		case "expire":
			c.h.Expire(uint64(c31Atoi(t[1])))
		case "retry", "abandon": // retry hash ntx txs…
			txs := ints(t[3:])
			snaps := []kernel.VerifC24Snap{{Hash: c.key(e, c31Atoi(t[1]))}}
			for _, x := range txs {
				snaps[0].Txs = append(snaps[0].Txs, c.key(e, x))
			}
			// a snapshot object with that hash and those transactions, on the same chain
			tmp := e.node.VerifC24Chain(snaps, nil, nil, nil)
			tmp.Chain.CosiAggregators, tmp.Chain.CosiVerifiers = c.h.Chain.CosiAggregators, c.h.Chain.CosiVerifiers
			if t[0] == "retry" {
				tmp.Retry(0)
			} else {
				tmp.Abandon(0)
			}
			txsOf[c31Atoi(t[1])] = txs
		case "resetround":
			owned = ints(t[2:])
			var hs []crypto.Hash
			for _, x := range owned {
				hs = append(hs, c.key(e, x))
			}
			c.h.Reset(hs)
		case "selfsanity": // selfsanity ntx txs…  (first transaction finalized in another snapshot)
			sanityTxs = ints(t[2:])
			var hs []crypto.Hash
			for _, x := range sanityTxs {
				hs = append(hs, c.key(e, x))
			}
			n, err := e.node.VerifC24HandleSelfEmpty(hs)
			if err != nil || n != 0 {
				panic(fmt.Sprintf("harness: c24: selfsanity: %d aggregators, %v", n, err))
			}
		case "announce", "announceat": // announce hash round ts ntx txs… | announceat hash round ts roundTs cft ntx txs…
			round, ts := uint64(c31Atoi(t[2])), uint64(c31Atoi(t[3]))
			cft := ts - config.SnapshotRoundGap/2
			roundTs := cft - 1
			rest := t[4:]
			if t[0] == "announceat" {
				roundTs, cft = uint64(c31Atoi(t[4])), uint64(c31Atoi(t[5]))
				rest = t[6:]
			}
			t = append([]string{"announce", t[1], t[2], t[3]}, rest...)
			var txs []*common.VersionedTransaction
			for _, x := range ints(t[5:]) {
				txs = append(txs, c.tx(e, x, 'm'))
			}
			announced = ints(t[5:])
			_, versBefore := c.h.Dump()
			for _, v := range versBefore {
				guardedKeys = append(guardedKeys, c.byHash[v.Key])
			}
			installed, _, err := c.h.Announce(round, ts, roundTs, cft, txs)
			if err != nil {
				panic("harness: c24: announce: " + err.Error())
			}
			if installed {
				hs, _ := c.h.Dump()
				for _, h := range hs {
					if _, ok := c.byHash[h]; !ok {
						c.byHash[h] = c31Atoi(t[1])
						c.snapHash[c31Atoi(t[1])] = h
					}
				}
				c.aggs = append(c.aggs, c24Agg{hash: c31Atoi(t[1]), round: int(round), ts: ts, commitments: 1, txs: ints(t[5:])})
				res.Tags = append(res.Tags, "announce:installed")
			} else {
				res.Tags = append(res.Tags, "announce:not-installed")
				notInstalled = true
				switch {
				case ts <= roundTs:
					res.Tags = append(res.Tags, "announce:deferred-stale")
				case ts > cft+config.SnapshotRoundGap*4/5:
					res.Tags = append(res.Tags, "announce:deferred-cutoff")
				case ts/c24Day != cft/c24Day:
					res.Tags = append(res.Tags, "announce:deferred-day")
				default:
					res.Tags = append(res.Tags, "announce:guarded")
				}
			}
			base := e.node.ConsensusThreshold(ts, false)
			if orig == "announceat" {
				res.LeanIn = fmt.Sprintf("announceat %s %s %s %s %d %d %d %s", t[1], t[2], t[3], t[1], base, roundTs, cft, strings.Join(t[4:], " "))
			} else {
				res.LeanIn = fmt.Sprintf("announce %s %s %s %s %d %s", t[1], t[2], t[3], t[1], base, strings.Join(t[4:], " "))
			}
		default:
			panic("harness: unknown op " + t[0])
		}
		return c.dump(e)
	})
	res.Out = out
	res.Nontrivial = !panicked
	if panicked {
		res.PropKey, res.PropDesc = "C24:op-panics", t[0]+" panicked: "+msg
		return res
	}
	// property mode, from the Go-side observations only
	aggsAfter, queueAfter := c.aggIds(), c.queue(e)
	for _, x := range sanityTxs {
		if c.pending(x) && !c24Contains(queueAfter, x) {
			res.PropKey = "C24:retired-tx-lost"
			res.PropDesc = fmt.Sprintf("self proposal abandoned at the sanity check (transaction %d finalized in another snapshot) but its pending transaction %d is not in the cache queue", sanityTxs[0], x)
		}
	}
	if notInstalled {
		for _, x := range announced {
			// a transaction with a verifier entry is owned by an existing proposal (duplicate guard)
			if c.pending(x) && !c24Contains(queueAfter, x) && !c24Contains(guardedKeys, x) {
				res.PropKey = "C24:deferred-tx-lost"
				res.PropDesc = fmt.Sprintf("self proposal %s was deferred (no aggregator installed) but its pending transaction %d is not in the cache queue", strings.Join(t, " "), x)
			}
		}
	}
	if t[0] == "expire" || t[0] == "retry" || t[0] == "resetround" {
		retired := 0
		for _, a := range aggsBefore {
			if c24Contains(aggsAfter, a) {
				continue
			}
			retired++
			for _, x := range txsOf[a] {
				if c.pending(x) && !c24Contains(owned, x) && !c24Contains(queueAfter, x) {
					res.PropKey = "C24:retired-tx-lost"
					res.PropDesc = fmt.Sprintf("%s retired proposal %d but its pending transaction %d is not in the cache queue", t[0], a, x)
				}
			}
		}
		if t[0] == "retry" && !c24Contains(aggsBefore, c31Atoi(t[1])) {
			for _, x := range txsOf[c31Atoi(t[1])] {
				if c.pending(x) && !c24Contains(queueAfter, x) {
					res.PropKey, res.PropDesc = "C24:retired-tx-lost", fmt.Sprintf("retry of %s lost pending transaction %d", t[1], x)
				}
			}
		}
		if retired > 0 {
			res.Tags = append(res.Tags, t[0]+":retired")
		}
		for _, x := range queueAfter {
			if c24Contains(queueBefore, x) {
				continue
			}
			res.Tags = append(res.Tags, t[0]+":requeued")
			if c24Contains(owned, x) {
				res.PropKey, res.PropDesc = "C24:owned-requeued", fmt.Sprintf("round reset requeued owned transaction %d", x)
			}
			if !c.pending(x) {
				res.PropKey, res.PropDesc = "C24:non-pending-requeued", fmt.Sprintf("%s queued transaction %d which is finalized or has no body", t[0], x)
			}
			for _, a := range aggsAfter {
				if c24Contains(txsOf[a], x) {
					res.Tags = append(res.Tags, t[0]+":requeued-tx-of-active")
					if !c.handMade && t[0] == "expire" {
						res.PropKey = "C24:expire-requeues-tx-of-active-overlap"
						res.PropDesc = fmt.Sprintf("%s queued transaction %d although the still-active local proposal %d (installed by cosiSendAnnouncement) owns it", t[0], x, a)
					}
				}
			}
		}
	}
	return res
}

func init() {
	gap := uint64(config.SnapshotRoundGap)
	Register(&Subsystem{
		Name: "requeue",
		Rule: "hand-made states: 1-4 local proposals over a pool of 7 transactions (overlaps allowed; transactions cached / persisted / finalized / " +
			"without body / already queued), commitment and response counts around the consensus threshold, verifier maps as the code would leave " +
			"them plus deviations, then 1-3 of expire (now at ts+gap-1, ts+gap, ts+gap+1 …), retry, abandon, resetround; announced states: proposals " +
			"installed by the real cosiSendAnnouncement at distances around one round gap, then expire; non-trivial = the op returned; distinct = distinct model input line",
		Corpus: [][]string{
			// deferral across the UTC day boundary: round opened 1 s before midnight, proposal 1.5 s later
			{"reset", "tx 1 c", "tx 2 p", "tx 3 f", fmt.Sprintf("announceat 1001 2 %d %d %d 3 1 2 3", c24Midnight+500000000, c24Midnight-1000000001, c24Midnight-1000000000)},
			// after the 4/5 cutoff; not after the round timestamp
			{"reset", "tx 1 c", "tx 2 q", fmt.Sprintf("announceat 1001 2 %d %d %d 2 1 2", c24T0+2400000001, c24T0-1, c24T0),
				fmt.Sprintf("announceat 1002 2 %d %d %d 2 1 2", c24T0+5, c24T0+5, c24T0)},
			// batch abandoned at the sanity check: first transaction finalized in another snapshot
			{"reset", "tx 1 f", "tx 2 c", "tx 3 p", "tx 4 m", "selfsanity 4 1 2 3 4"},
			// the repository's own scenario (TestCosiRoundResetRequeuesOrphanedTransactions)
			{"reset", "tx 1 c", "tx 2 c", "agg 1000 0 0 0 0 2 1 2", "ver 1000 0 0 0", "ver 1 0 0 0", "ver 2 0 0 0", "resetround 1 1"},
			// two real announcements one round gap apart sharing a transaction, then expiry of the first
			{"reset", "tx 7 c", fmt.Sprintf("announce 1001 2 %d 1 7", c24T0), fmt.Sprintf("announce 1002 2 %d 1 7", c24T0+gap),
				fmt.Sprintf("expire %d", c24T0+gap)},
			{"reset", "tx 7 c", fmt.Sprintf("announce 1001 2 %d 1 7", c24T0), fmt.Sprintf("announce 1002 2 %d 1 7", c24T0+gap-1),
				fmt.Sprintf("expire %d", c24T0+gap)},
		},
		Gen: func(r *Rand, i int, tier string) []string {
			if r.Chance(1, 5) {
				return c24GenDeferral(r)
			}
			ops := []string{"reset"}
			kinds := "ccccppffmq"
			for id := 1; id <= 7; id++ {
				ops = append(ops, fmt.Sprintf("tx %d %c", id, kinds[r.Intn(len(kinds))]))
			}
			var tss []uint64
			aggTxs := map[int][]string{}
			if r.Chance(1, 4) { // announced states
				n := r.Range(1, 3)
				ts := c24T0 + uint64(r.Intn(1000))
				for k := 0; k < n; k++ {
					m := r.Range(1, 3)
					var txs []string
					seen := map[int]bool{}
					for len(txs) < m {
						x := r.Range(1, 4)
						if !seen[x] {
							seen[x] = true
							txs = append(txs, strconv.Itoa(x))
						}
					}
					ops = append(ops, fmt.Sprintf("announce %d 2 %d %d %s", 1001+k, ts, m, strings.Join(txs, " ")))
					aggTxs[1001+k] = txs
					tss = append(tss, ts)
					ts += Pick(r, []uint64{1, gap / 2, gap - 1, gap, gap + 1, 2 * gap})
				}
			} else {
				n := r.Range(1, 4)
				for k := 0; k < n; k++ {
					m := r.Range(1, 4)
					var txs []string
					seen := map[int]bool{}
					for len(txs) < m {
						x := r.Range(1, 7)
						if !seen[x] {
							seen[x] = true
							txs = append(txs, strconv.Itoa(x))
						}
					}
					ts := c24T0 + uint64(r.Intn(3))*gap + uint64(r.Intn(3))
					tss = append(tss, ts)
					commitments := r.Range(0, 30)
					resps := commitments
					if r.Bool() {
						resps = r.Range(0, commitments)
					}
					round := r.Range(0, 2)
					ops = append(ops, fmt.Sprintf("agg %d %d %d %d %d %d %s", 1000+k, round, ts, commitments, resps, m, strings.Join(txs, " ")))
					aggTxs[1000+k] = txs
					if !r.Chance(1, 8) {
						ops = append(ops, fmt.Sprintf("ver %d %d %d %d", 1000+k, k, round, ts))
					}
					for _, x := range txs {
						if !r.Chance(1, 6) {
							ops = append(ops, fmt.Sprintf("ver %s %d %d %d", x, k, round, ts))
						}
					}
				}
				// verifier identities must be dense: make sure every k < n appears
				for k := 0; k < n; k++ {
					ops = append(ops, fmt.Sprintf("ver %d %d 0 %d", 2000+k, k, c24T0))
				}
			}
			for k := r.Range(1, 3); k > 0; k-- {
				ts := Pick(r, tss)
				switch r.Intn(7) {
				case 0, 1, 2:
					ops = append(ops, fmt.Sprintf("expire %d", ts+gap+uint64(Pick(r, []int{0, 1, 2, 1000000}))-uint64(r.Intn(3))))
				case 3, 4:
					h := 1000 + r.Intn(5)
					m := r.Range(1, 3)
					var txs []string
					for j := 0; j < m; j++ {
						txs = append(txs, strconv.Itoa(r.Range(1, 7)))
					}
					if own, ok := aggTxs[h]; ok && !r.Chance(1, 4) { // usually the proposal's own transactions
						txs, m = own, len(own)
					}
					op := "retry"
					if r.Chance(1, 3) {
						op = "abandon"
					}
					ops = append(ops, fmt.Sprintf("%s %d %d %s", op, h, m, strings.Join(txs, " ")))
				default:
					m := r.Intn(4)
					var owned []string
					for j := 0; j < m; j++ {
						owned = append(owned, strconv.Itoa(r.Range(1, 7)))
					}
					ops = append(ops, strings.TrimSpace(fmt.Sprintf("resetround %d %s", m, strings.Join(owned, " "))))
				}
			}
			return ops
		},
		Exec: execC24,
	})
}

// c24GenDeferral: self proposals at the boundaries of every early return of prepareAnnouncement
// (round timestamp, 4/5 round-gap cutoff, UTC day of the round's first snapshot), and batches
// abandoned at the sanity check because their first transaction is finalized elsewhere.
func c24GenDeferral(r *Rand) []string {
	gap := uint64(config.SnapshotRoundGap)
	ops := []string{"reset"}
	kinds := "ccppfmq"
	for id := 1; id <= 5; id++ {
		ops = append(ops, fmt.Sprintf("tx %d %c", id, kinds[r.Intn(len(kinds))]))
	}
	ops = append(ops, "tx 6 f")
	batch := func(first string) string {
		m := r.Range(1, 4)
		var txs []string
		if first != "" {
			txs = append(txs, first)
		}
		seen := map[int]bool{}
		for len(txs) < m {
			x := r.Range(1, 5)
			if !seen[x] {
				seen[x] = true
				txs = append(txs, strconv.Itoa(x))
			}
		}
		return fmt.Sprintf("%d %s", len(txs), strings.Join(txs, " "))
	}
	for k := r.Range(1, 3); k > 0; k-- {
		if r.Chance(1, 4) {
			ops = append(ops, "selfsanity "+batch("6"))
			continue
		}
		var cft uint64
		switch r.Intn(3) {
		case 0: // round opened shortly before midnight
			cft = c24Midnight - uint64(Pick(r, []int{1, 2, 1000000000, 2399999999, 2400000000, 2400000001, 2999999999}))
		case 1: // shortly after midnight
			cft = c24Midnight + uint64(r.Intn(3))
		default:
			cft = c24T0 + uint64(r.Intn(1000))
		}
		roundTs := cft - uint64(r.Intn(2))
		var ts uint64
		switch r.Intn(5) {
		case 0:
			ts = roundTs + uint64(r.Intn(3)) // around the round timestamp
		case 1:
			ts = cft + gap*4/5 + uint64(r.Intn(3)) - 1 // around the cutoff
		case 2:
			ts = c24Midnight + uint64(r.Intn(3)) - 1 // around midnight
		case 3:
			ts = cft + gap - 1 - uint64(r.Intn(2))
		default:
			ts = cft + uint64(r.Intn(int(gap)))
		}
		if ts >= cft+gap || ts+gap < cft {
			ts = cft + gap/2
		}
		ops = append(ops, fmt.Sprintf("announceat %d 2 %d %d %d %s", 1001+k, ts, roundTs, cft, batch("")))
	}
	return ops
}
