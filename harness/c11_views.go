package main

// C11 — historical consensus views depend only on earlier ledger records.
//
// Two kinds of case, both against lean/Mixin/Driver/Views.lean:
//   synthetic  the membership machinery of c10_membership.go: a history is loaded, queried at
//              every boundary below a cutoff, extended by records at/after the cutoff (loaded in a
//              different store order), and the same queries are issued again;
//   badger     a real storage.BadgerStore: node-state records go one by one through the real
//              writers (writeNodePledge/Accept/Cancel/Remove with their guards), custodian updates
//              through writeCustodianNodes; LoadConsensusNodes reads them back through the real
//              ReadAllNodes; ReadCustodian is asked cold, warm and on a re-opened store.
// Property mode: a query line repeated later in the same case must give the answer it gave the
// first time (the generator only repeats queries whose timestamp lies below every record written
// in between), and a cached custodian lookup must equal the uncached one.

import (
	"bytes"
	"encoding/binary"
	"fmt"
	"os"
	"sort"
	"strings"

	"github.com/MixinNetwork/mixin/common"
	"github.com/MixinNetwork/mixin/config"
	"github.com/MixinNetwork/mixin/crypto"
	"github.com/MixinNetwork/mixin/kernel"
	"github.com/MixinNetwork/mixin/storage"
)

type viewState struct {
	memo    map[string]string
	store   *storage.BadgerStore
	dir     string
	initF   []string // the init / rinit line, to rebuild the node (re-opened store, fresh twin)
	chainF  []string // the last chain line
	loaded  bool     // LoadConsensusNodes has run on the long-lived node
	memoOff bool     // answers may legitimately change (records dated before asked timestamps follow)
	twin    *memState // fresh node of the current load (rebuilt per query in future-query cases)
	pending int
}

func viewGet(st *State) *viewState {
	if v, ok := st.V["view"].(*viewState); ok {
		return v
	}
	v := &viewState{memo: map[string]string{}}
	st.V["view"] = v
	return v
}

func viewClose(vs *viewState) {
	if vs != nil && vs.store != nil {
		vs.store.Close()
		vs.store = nil
	}
	if vs != nil && vs.dir != "" {
		os.RemoveAll(vs.dir)
		vs.dir = ""
	}
}

var viewLast *viewState // the previous case's store is closed at the next reset

func viewOpen(vs *viewState) {
	custom := &config.Custom{}
	// same store as NewBadgerStore but without the per-commit fsync and with an 8 MiB memtable (opening the default 64 MiB arenas dominated the run)
	// (durability is not what C11 is about; Close flushes before the store is re-opened)
	store, err := storage.VerifC21NewBadgerStore(custom, vs.dir, 8<<20, false)
	if err != nil {
		panic(err)
	}
	vs.store = store
}

func viewNode(st *State, vs *viewState) {
	f := vs.initF
	epoch := u64(f[1])
	net, self, signer := crypto.Hash(unhx32(f[2])), crypto.Hash(unhx32(f[3])), crypto.Key(unhx32(f[4]))
	g := int(u64(f[5]))
	ids := make([]crypto.Hash, g)
	gm := map[crypto.Hash]bool{}
	for i := range ids {
		ids[i] = crypto.Hash(unhx32(f[6+i]))
		gm[ids[i]] = true
	}
	node := kernel.VerifNewNode(epoch, net, self, vs.store, memSharedCache(), ids)
	node.VerifSetSigner(signer)
	st.V["mem"] = &memState{node: node, epoch: epoch, genesis: gm, mainnet: net == memMainnetId()}
}

// deterministic custodian update transaction from a seed; bad>0: the signatures of that many node
// entries are broken (accepted by the genesis-mode parser only)
func viewCustodianTx(seed uint64, net crypto.Hash, bad int) *common.VersionedTransaction {
	addr := func(i int) common.Address {
		s := crypto.Blake3Hash([]byte(fmt.Sprintf("verif custodian %d %d", seed, i)))
		return common.NewAddressFromSeed(append(s[:], s[:]...))
	}
	current := addr(0)
	var nodes [][]byte
	for i := 0; i < 7; i++ {
		c, p, sg := addr(3*i+1), addr(3*i+2), addr(3*i+3)
		extra := common.EncodeCustodianNode(&c, &p, &sg.PrivateSpendKey, &p.PrivateSpendKey, &c.PrivateSpendKey, net)
		if i < bad {
			extra[len(extra)-1] ^= 1
			extra[len(extra)-70] ^= 1
		}
		nodes = append(nodes, extra)
	}
	sort.Slice(nodes, func(i, j int) bool { return bytes.Compare(nodes[i][1:33], nodes[j][1:33]) < 0 })
	extra := append(current.PublicSpendKey[:], current.PublicViewKey[:]...)
	for _, n := range nodes {
		extra = append(extra, n...)
	}
	sig := current.PrivateSpendKey.Sign(crypto.Blake3Hash(extra))
	extra = append(extra, sig[:]...)
	tx := common.NewTransactionV5(common.XINAssetId)
	tx.Inputs = []*common.Input{{Genesis: []byte("genesis")}}
	tx.Outputs = []*common.Output{{Type: common.OutputTypeCustodianUpdateNodes, Amount: common.NewInteger(1)}}
	tx.Extra = extra
	return tx.AsVersioned()
}

func viewContentId(cur *common.CustodianUpdateRequest) uint64 {
	var b []byte
	b = append(b, cur.Custodian.PublicSpendKey[:]...)
	b = append(b, cur.Custodian.PublicViewKey[:]...)
	for _, n := range cur.Nodes {
		b = append(b, n.Custodian.PublicSpendKey[:]...)
		b = append(b, n.Payee.PublicSpendKey[:]...)
		b = append(b, n.Extra...)
	}
	b = append(b, cur.Signature[:]...)
	h := crypto.Blake3Hash(b)
	return binary.BigEndian.Uint64(h[:8]) >> 1
}

func viewFmtCustodian(cur *common.CustodianUpdateRequest, err error) string {
	if err != nil {
		return "reject"
	}
	if cur == nil {
		return "ok -"
	}
	return fmt.Sprintf("ok %d %s %d", viewContentId(cur), hx(cur.Transaction[:]), cur.Timestamp)
}

func viewParseOracle(extra []byte, genesis bool) string {
	cur, err := common.ParseCustodianUpdateNodesExtra(extra, genesis)
	if err != nil {
		return "-"
	}
	return fmt.Sprint(viewContentId(cur))
}

func viewIsQuery(op string) bool {
	switch op {
	case "list", "seq", "keys", "thr", "pledging", "removing", "elect", "cread", "chain", "c10":
		return true
	}
	return false
}

func viewIsNodeQuery(op string) bool {
	switch op {
	case "list", "seq", "keys", "thr", "pledging", "removing", "elect", "chain", "c10", "c10f":
		return true
	}
	return false
}

// viewFreshAnswer: the same query on a node constructed for this purpose from the long-lived node's
// store (same init line, LoadConsensusNodes, same chain line) — "querying in any order".
func viewFreshAnswer(st *State, vs *viewState, f []string) string {
	ms := memGet(st)
	fi := vs.initF
	epoch := u64(fi[1])
	net, self, signer := crypto.Hash(unhx32(fi[2])), crypto.Hash(unhx32(fi[3])), crypto.Key(unhx32(fi[4]))
	g := int(u64(fi[5]))
	ids := make([]crypto.Hash, g)
	for i := range ids {
		ids[i] = crypto.Hash(unhx32(fi[6+i]))
	}
	twin := vs.twin
	if twin == nil || vs.memoOff {
		var node *kernel.Node
		if vs.store != nil {
			node = kernel.VerifNewNode(epoch, net, self, vs.store, memSharedCache(), ids)
		} else {
			node = kernel.VerifNewNode(epoch, net, self, ms.store, memSharedCache(), ids)
		}
		node.VerifSetSigner(signer)
		if err := node.LoadConsensusNodes(); err != nil {
			return "reject"
		}
		twin = &memState{node: node, store: ms.store, epoch: ms.epoch, mainnet: ms.mainnet, genesis: ms.genesis}
		vs.twin = twin
	}
	tst := &State{V: map[string]any{"mem": twin}, Dir: st.Dir}
	if f[0] != "chain" && vs.chainF != nil {
		memExecCommon(tst, vs.chainF)
	}
	switch f[0] {
	case "c10":
		return memC10(twin, u64(f[1]), u64(f[2])).Out
	case "c10f":
		return memC10F(twin, u64(f[1]), u64(f[2]), f[3] == "1").Out
	}
	res, _ := memExecCommon(tst, f)
	return res.Out
}

func viewExec(st *State, line string) Result {
	f := goPart(line)
	if len(f) == 0 {
		return Result{Out: "bad-op"}
	}
	if f[0] == "reset" {
		viewClose(viewLast)
		viewLast = nil
	}
	vs := viewGet(st)
	res := viewExec1(st, vs, f, line)
	if viewIsNodeQuery(f[0]) && res.PropKey == "" && vs.loaded {
		// order independence: a node built now from the same records, never asked anything
		fresh, _, _ := Catch(func() string { return viewFreshAnswer(st, vs, f) })
		res.Tags = append(res.Tags, "fresh-twin")
		if fresh != res.Out {
			res.PropKey = "C11:answer-depends-on-query-history"
			res.PropDesc = fmt.Sprintf("%q: the long-lived node (queried and reloaded before) answers %.200q, a fresh node loaded with the same records answers %.200q", strings.Join(f, " "), res.Out, fresh)
		}
	}
	if viewIsQuery(f[0]) && res.PropKey == "" && !vs.memoOff {
		key := strings.Join(f, " ")
		if f[0] == "keys" || f[0] == "c10" { // answers depend on the chain selected before
			key = fmt.Sprint(st.V["chainline"]) + " / " + key
		}
		if old, ok := vs.memo[key]; ok {
			res.Tags = append(res.Tags, "requery")
			if old != res.Out {
				res.PropKey = "C11:view-changed-by-later-record"
				res.PropDesc = fmt.Sprintf("%q answered %.200q before and %.200q after records at or beyond its timestamp were added", key, old, res.Out)
			}
		} else {
			vs.memo[key] = res.Out
		}
	}
	return res
}

func viewExec1(st *State, vs *viewState, f []string, line string) Result {
	switch f[0] {
	case "chain":
		st.V["chainline"] = strings.Join(f, " ")
		vs.chainF = f
	case "init":
		vs.initF = f
	case "load":
		vs.loaded = true
		vs.twin = nil
	case "nomemo":
		vs.memoOff = true
		return Result{Out: "ok", Tags: []string{"future-query-case"}}
	case "rinit":
		kernel.TestMockReset()
		dir, err := os.MkdirTemp(st.Dir, "badger-")
		if err != nil {
			panic(err)
		}
		vs.dir, vs.initF = dir, f
		viewOpen(vs)
		viewLast = vs
		viewNode(st, vs)
		return Result{Out: "ok", Tags: []string{"badger-case"}}
	case "wnode": // wnode ts id signer payee state tx genesis
		ts := u64(f[1])
		signer, payee := crypto.Key(unhx32(f[3])), crypto.Key(unhx32(f[4]))
		tx := crypto.Hash(unhx32(f[6]))
		out, _, _ := Catch(func() string {
			if err := vs.store.VerifWriteNodeState(memStateName(f[5]), signer, payee, tx, ts, f[7] == "1"); err != nil {
				return "reject"
			}
			return "ok"
		})
		if out == "panic" { // index out of range on an empty store: nothing was written
			out = "reject"
		}
		return Result{Out: out, LeanIn: fmt.Sprintf("%s | wnode %s %s", strings.Join(f, " "), out, strings.Join(f[1:7], " ")),
			Tags: []string{"wnode:" + f[5] + ":" + out}}
	case "rload":
		vs.loaded = true
		vs.twin = nil
		ms := memGet(st)
		out, _, _ := Catch(func() string {
			if err := ms.node.LoadConsensusNodes(); err != nil {
				return "reject"
			}
			all := ms.node.VerifAllNodesSortedWithState()
			var sb strings.Builder
			fmt.Fprintf(&sb, "ok %d", len(all))
			for _, cn := range all {
				fmt.Fprintf(&sb, " %d:%s:%s", cn.Timestamp, hx(cn.IdForNetwork[:]), memStateLetter(cn.State))
			}
			return sb.String()
		})
		return Result{Out: out, Tags: []string{"rload"}}
	case "cwrite": // cwrite ts seed bad genesis
		ts, seed, bad := u64(f[1]), u64(f[2]), int(u64(f[3]))
		net := crypto.Hash(unhx32(vs.initF[2]))
		ver := viewCustodianTx(seed, net, bad)
		out, _, _ := Catch(func() string {
			if err := vs.store.VerifWriteCustodianUpdate(ts, ver, f[4] == "1"); err != nil {
				return "reject"
			}
			return "ok"
		})
		h := ver.PayloadHash()
		return Result{Out: out, Tags: []string{"cwrite:" + out},
			LeanIn: fmt.Sprintf("%s | cwrite %s %d %s %s %s", strings.Join(f, " "), out, ts, hx(h[:]),
				viewParseOracle(ver.Extra, true), viewParseOracle(ver.Extra, false))}
	case "cread":
		ts := u64(f[1])
		var res Result
		out, _, _ := Catch(func() string { return viewFmtCustodian(vs.store.ReadCustodian(ts)) })
		fresh, _, _ := Catch(func() string { return viewFmtCustodian(vs.store.VerifReadCustodianNoCache(ts)) })
		res.Out = out
		res.Nontrivial = strings.HasPrefix(out, "ok ") && out != "ok -"
		res.Tags = []string{"cread:" + strings.Fields(out + " x")[0]}
		if out != fresh {
			res.PropKey = "C11:custodian-cache-differs"
			res.PropDesc = fmt.Sprintf("ReadCustodian(%d) through the cache gave %q, without it %q", ts, out, fresh)
		}
		return res
	case "cfresh":
		vs.loaded = false
		vs.twin = nil
		vs.store.Close()
		viewOpen(vs)
		viewNode(st, vs)
		return Result{Out: "ok", Tags: []string{"reopen"}}
	}
	if res, ok := memExecCommon(st, f); ok {
		return res
	}
	if f[0] == "c10" {
		res := memC10(memGet(st), u64(f[1]), u64(f[2]))
		res.PropKey, res.PropDesc = "", "" // C10's own check; here only the answer matters
		return res
	}
	if f[0] == "c10f" {
		res := memC10F(memGet(st), u64(f[1]), u64(f[2]), f[3] == "1")
		res.PropKey, res.PropDesc = "", ""
		return res
	}
	return Result{Out: "bad-op"}
}

// ---------------------------------------------------------------- generator

func viewQueries(r *Rand, h *memHistory, times []uint64, upTo uint64, k int) []string {
	var below []uint64
	for _, t := range times {
		if t <= upTo {
			below = append(below, t)
		}
	}
	if len(below) == 0 {
		return nil
	}
	var lines []string
	for j := 0; j < k; j++ {
		ts := Pick(r, below)
		switch x := r.Intn(16); {
		case x < 3:
			lines = append(lines, fmt.Sprintf("list %d %d", ts, r.Intn(2)))
		case x < 5:
			lines = append(lines, fmt.Sprintf("keys %d %d", r.Intn(2), ts))
		case x < 8:
			lines = append(lines, fmt.Sprintf("thr %d %d", ts, r.Intn(2)))
		case x < 10:
			lines = append(lines, fmt.Sprintf("pledging %d", ts))
		case x < 13:
			lines = append(lines, fmt.Sprintf("removing %d", ts))
		case x < 14:
			lines = append(lines, fmt.Sprintf("seq %d %d", ts, r.Intn(2)))
		default:
			lines = append(lines, fmt.Sprintf("elect %d %d", Pick(r, []int{1, 6, 9, 19, 20}), ts))
		}
	}
	return lines
}

func viewChain(r *Rand, h *memHistory, times []uint64, upTo uint64) string {
	if r.Chance(1, 3) {
		return "chain state"
	}
	_, order := h.latest()
	k := Pick(r, order)
	id := h.id(k)
	var below []uint64
	for _, t := range times {
		if t <= upTo {
			below = append(below, t)
		}
	}
	now := upTo
	if len(below) > 0 {
		now = Pick(r, below)
	}
	// the clock keeps running: stay 2 s clear of every record and below the cutoff
	now = h.safeNow(now)
	if now+2*memSecond > upTo {
		return "chain state"
	}
	return fmt.Sprintf("chain id %s %d", hx(id[:]), now)
}

func viewGenSynthetic(r *Rand, tier string) []string {
	h := memGenHistory(r, tier)
	self := Pick(r, h.genesis)
	lines := []string{"reset", h.initLine(self)}
	phases := r.Range(2, 4)
	loaded := 0
	var asked []string
	for p := 0; p < phases; p++ {
		if p > 0 {
			h.extend(r, h.lastTs(), r.Range(1, 4))
		}
		cut := h.recs[loaded:]
		_ = cut
		loaded = len(h.recs)
		lines = append(lines, h.loadLine(r, h.recs))
		times := h.queryTimes(r)
		// everything asked so far was below the first new record: ask again, in another order
		re := append([]string(nil), asked...)
		for i := len(re) - 1; i > 0; i-- {
			j := r.Intn(i + 1)
			re[i], re[j] = re[j], re[i]
		}
		lines = append(lines, re...)
		// new queries up to the last loaded record's timestamp (the next phase starts there)
		upTo := h.lastTs()
		var fresh []string
		for c := 0; c < 2; c++ {
			fresh = append(fresh, viewChain(r, h, times, upTo))
			fresh = append(fresh, viewQueries(r, h, times, upTo, r.Range(3, 7))...)
		}
		lines = append(lines, fresh...)
		asked = append(asked, fresh...)
	}
	return lines
}

func viewGenBadger(r *Rand, tier string) []string {
	h := &memHistory{}
	h.net = crypto.Blake3Hash(r.Bytes(8))
	h.epoch = uint64(1600000000+r.Intn(100000000)) * memSecond
	g := r.Range(7, 9)
	for k := 0; k < g; k++ {
		h.genesis = append(h.genesis, k)
	}
	h.nextKey = g
	init := h.initLine(Pick(r, h.genesis))
	lines := []string{"reset", "r" + init}
	wline := func(rc memRec, genesis bool) string {
		gflag := 0
		if genesis {
			gflag = 1
		}
		return fmt.Sprintf("wnode %s %d", h.recLine(rc), gflag)
	}
	for k := 0; k < g; k++ {
		rc := memRec{ts: h.epoch, key: k, pay: 1000 + k, state: "A", tx: crypto.Blake3Hash([]byte(fmt.Sprintf("tx %d g", k)))}
		h.recs = append(h.recs, rc)
		lines = append(lines, wline(rc, true))
	}
	lines = append(lines, fmt.Sprintf("cwrite %d %d %d 1", h.epoch, r.U64()%1000, r.Intn(2)*r.Range(1, 3)))
	cts := []uint64{h.epoch}
	var asked []string
	phases := r.Range(2, 3)
	for p := 0; p < phases; p++ {
		if p > 0 || r.Bool() {
			before := len(h.recs)
			h.extend(r, h.lastTs(), r.Range(1, 3))
			for _, rc := range h.recs[before:] {
				lines = append(lines, wline(rc, false))
			}
			// custodian updates strictly after everything asked so far
			for c := r.Intn(3); c > 0; c-- {
				ts := cts[len(cts)-1] + 1 + uint64(r.Intn(3))*uint64(r.Intn(int(memDay)))
				cts = append(cts, ts)
				lines = append(lines, fmt.Sprintf("cwrite %d %d %d 0", ts, r.U64()%1000, r.Intn(2)*r.Intn(2)))
			}
		}
		if r.Chance(1, 3) {
			lines = append(lines, "cfresh")
		}
		lines = append(lines, "rload")
		re := append([]string(nil), asked...)
		lines = append(lines, re...)
		times := h.queryTimes(r)
		upTo := h.lastTs()
		var fresh []string
		fresh = append(fresh, viewChain(r, h, times, upTo))
		fresh = append(fresh, viewQueries(r, h, times, upTo, r.Range(3, 6))...)
		clast := cts[len(cts)-1]
		for c := r.Range(2, 4); c > 0; c-- {
			t := Pick(r, cts)
			t = uint64(int64(t) + int64(r.Intn(3)) - 1)
			if t > clast {
				t = clast
			}
			q := fmt.Sprintf("cread %d", t)
			fresh = append(fresh, q)
			if r.Bool() {
				fresh = append(fresh, q) // warm
			}
		}
		lines = append(lines, fresh...)
		asked = append(asked, fresh...)
	}
	if r.Chance(2, 3) {
		lines = append(lines, fmt.Sprintf("cread %d early", h.epoch))
		// an EARLIER custodian record: the former first entry is no longer parsed in genesis mode
		// (cache key = hash + genesis flag); fresh query lines, nothing is repeated after this
		lines = append(lines, fmt.Sprintf("cwrite %d %d 0 %d", h.epoch-uint64(r.Range(1, 50)), 5000+r.U64()%1000, r.Intn(2)))
		for _, t := range cts {
			lines = append(lines, fmt.Sprintf("cread %d late", t), fmt.Sprintf("cread %d late2", t))
		}
		lines = append(lines, "cfresh", fmt.Sprintf("cread %d late3", cts[len(cts)-1]))
	}
	return lines
}

// viewGenFuture: a long-lived node is asked about timestamps AHEAD of its ledger (inside node-operation
// windows), then records dated before those windows are appended (a removal / pledge / accept that
// changes who the oldest accepted node is, or makes the window's candidate undefined), the node
// reloads and is asked again. Every answer is compared with a fresh node (property mode) and the model.
func viewGenFuture(r *Rand, tier string) []string {
	h := &memHistory{}
	if r.Chance(1, 3) {
		h.mainnet, h.net = true, memMainnetId()
		h.epoch = memForkAt - uint64(r.Range(0, 40))*memDay - config.KernelNodeAcceptTimeBegin*memHour
	} else {
		h.net = crypto.Blake3Hash(r.Bytes(8))
		h.epoch = uint64(1600000000+r.Intn(100000000)) * memSecond
	}
	g := r.Range(8, 14)
	for k := 0; k < g; k++ {
		h.genesis = append(h.genesis, k)
		h.recs = append(h.recs, memRec{ts: h.epoch, key: k, pay: 1000 + k, state: "A", tx: crypto.Blake3Hash([]byte(fmt.Sprintf("tx %d g", k)))})
	}
	h.nextKey = g
	if r.Chance(1, 2) {
		h.extend(r, h.epoch, r.Range(1, 3))
	}
	lines := []string{"reset", h.initLine(Pick(r, h.genesis)), "nomemo", h.loadLine(r, h.recs)}
	windowStart := func(after uint64, plusDays int) uint64 {
		day := (after-h.epoch)/memDay + uint64(plusDays)
		return h.epoch + day*memDay + config.KernelNodeAcceptTimeBegin*memHour
	}
	ask := func(starts []uint64) []string {
		var q []string
		for _, st := range starts {
			for k := r.Range(2, 4); k > 0; k-- {
				ts := st + Pick(r, []uint64{0, 1, memHour, 3*memHour + 7, 7*memHour - 1})
				switch r.Intn(8) {
				case 0:
					q = append(q, fmt.Sprintf("removing %d", ts))
				case 1:
					q = append(q, fmt.Sprintf("thr %d %d", ts, r.Intn(2)))
				case 2:
					q = append(q, fmt.Sprintf("keys %d %d", r.Intn(2), ts))
				case 3:
					q = append(q, fmt.Sprintf("c10 %d %d", r.Intn(2), ts))
				case 4:
					q = append(q, fmt.Sprintf("c10f %d %d 0", r.Intn(2), ts))
				case 5:
					q = append(q, fmt.Sprintf("list %d %d", ts, r.Intn(2)), fmt.Sprintf("pledging %d", ts))
				case 6:
					q = append(q, fmt.Sprintf("elect %d %d", Pick(r, []int{1, 6, 9, 19, 20}), ts))
				default:
					q = append(q, fmt.Sprintf("removing %d", ts), fmt.Sprintf("thr %d 1", ts))
				}
			}
		}
		return q
	}
	lines = append(lines, "chain state")
	var starts []uint64
	for round := r.Range(1, 3); round > 0; round-- {
		last := h.lastTs()
		// windows one to three days ahead of the ledger
		w1 := windowStart(last, r.Range(1, 2))
		w2 := w1 + uint64(r.Range(1, 2))*memDay
		starts = append(starts, w1, w2)
		qs := ask(starts)
		lines = append(lines, qs...)
		// records dated after the ledger head and before w1 (mostly >= 12 h before it)
		latest, order := h.latest()
		var accepted []int
		for _, k := range order {
			if latest[k].state == "A" {
				accepted = append(accepted, k)
			}
		}
		gapEnd := w1 - 1
		if r.Chance(3, 4) && w1 > last+13*memHour {
			gapEnd = w1 - 12*memHour - uint64(r.Intn(3))
		}
		ts := last + 1 + uint64(r.Intn(int(gapEnd-last)))
		if ts > gapEnd {
			ts = gapEnd
		}
		var rc memRec
		switch x := r.Intn(10); {
		case x < 6 && len(accepted) > 0: // the oldest accepted node leaves: another node becomes the candidate
			first := accepted[0]
			for _, k := range accepted {
				a, b := latest[k], latest[first]
				if a.ts < b.ts || (a.ts == b.ts && h.id(k).String() < h.id(first).String()) {
					first = k
				}
			}
			rc = memRec{key: first, pay: 1000 + first, state: "R"}
		case x < 8:
			rc = memRec{key: h.nextKey, pay: 1000 + h.nextKey, state: "P"}
			h.nextKey++
		default:
			rc = memRec{key: h.nextKey, pay: 1000 + h.nextKey, state: "A"}
			h.nextKey++
		}
		for h.has(ts, rc.key) {
			ts++
		}
		rc.ts = ts
		rc.tx = crypto.Blake3Hash([]byte(fmt.Sprintf("tx %d %d %s", rc.key, ts, rc.state)))
		h.recs = append(h.recs, rc)
		lines = append(lines, h.loadLine(r, h.recs))
		lines = append(lines, qs...)
		lines = append(lines, ask(starts)...)
	}
	return lines
}

func viewGen(r *Rand, i int, tier string) []string {
	if i%4 == 1 {
		return viewGenFuture(r, tier)
	}
	if i%4 == 3 {
		return viewGenBadger(r, tier)
	}
	return viewGenSynthetic(r, tier)
}

func init() {
	Register(&Subsystem{
		Name: "views",
		Rule: "case = membership history loaded in 2–4 phases (each phase adds records at or after the last loaded timestamp, in a different store order; 1 case in 4 writes them through the real Badger node-state and custodian writers and re-opens the store), every query of earlier phases repeated after each load; 1 case in 4 asks about operation windows ahead of the ledger, appends a record dated before them (removal of the oldest accepted node / pledge / accept) and asks again; every node query is also put to a fresh node built from the same records; non-trivial = a query with a non-empty answer",
		Gen:  viewGen,
		Exec: viewExec,
	})
}
