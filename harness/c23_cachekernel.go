package main

// C23 — the kernel callers of the transaction cache: real kernel.Node.CacheQueueTransactions,
// CacheStoreTransactions (peer delivery) and QueueTransaction (RPC) on a hook-built node over the
// real store, against lean/Mixin/Model/CacheKernel.lean. Transactions are driven through every
// persistence state — absent, cached only, persisted but not finalized (WriteTransaction, what
// lockAndPersistTransaction does while a proposal is verified), finalized (a snapshot containing
// it is written) — and through sequences queue → retrieve → persist → queue again → retrieve.
// All storage-level lines of the `cachequeue` stream are accepted too (same executor).
//
// Property mode (independent of the model, persistence states tracked by the harness itself):
// a transaction queued through a kernel wrapper while not finalized is returned by the next
// exhaustive retrieval (unless removed in between); a finalized one is never (re)scheduled by the
// peer path; CacheStoreTransactions never changes the queue.

import (
	"fmt"
	"strings"
	"time"

	"github.com/MixinNetwork/mixin/common"
	"github.com/MixinNetwork/mixin/crypto"
	"github.com/MixinNetwork/mixin/kernel"
)

const (
	c23Absent = iota
	c23Persisted
	c23Finalized
)

type c23Kernel struct {
	node  *kernel.Node
	chain crypto.Hash
	state map[int]int // harness's own record of the persistence state per transaction
	topo  uint64
}

func c23Kern(st *State, w *c23World) *c23Kernel {
	if k, ok := st.V["kernel"].(*c23Kernel); ok {
		return k
	}
	k := &c23Kernel{node: kernel.VerifC23Node(w.store), chain: crypto.Blake3Hash([]byte("verif-c23-chain")), state: map[int]int{}}
	st.V["kernel"] = k
	return k
}

func execCacheKernel(st *State, line string) Result {
	t := strings.Fields(line)
	switch t[0] {
	case "reset", "kq", "ks", "rq", "persist", "finalize":
	default:
		return execCacheQueue(st, line)
	}
	res := Result{Tags: []string{t[0]}}
	w := c23Get(st)
	or := c23Or(st)
	fail := func(key, desc string) {
		if res.PropKey == "" {
			res.PropKey, res.PropDesc = "C23:"+key, desc
		}
	}
	must := func(err error) {
		if err != nil {
			panic("harness: storage error: " + err.Error())
		}
	}
	queueKeys := func() []string {
		q, _, _, err := w.store.VerifCacheDump()
		must(err)
		var ks []string
		for _, e := range q {
			ks = append(ks, fmt.Sprintf("%d/%d", e.Timestamp, w.ids[e.Hash]))
		}
		return ks
	}
	// timestamps of the queue keys that a call added, per transaction id
	newKeys := func(before []string) map[int]uint64 {
		old := map[string]bool{}
		for _, k := range before {
			old[k] = true
		}
		out := map[int]uint64{}
		for _, k := range queueKeys() {
			if !old[k] {
				var ts uint64
				var id int
				fmt.Sscanf(k, "%d/%d", &ts, &id)
				out[id] = ts
			}
		}
		return out
	}
	peer := crypto.Blake3Hash([]byte("verif-c23-peer"))
	out, panicked, msg := Catch(func() string {
		switch t[0] {
		case "reset":
			r := execCacheQueue(st, line)
			must(w.store.VerifGraphWipe())
			must(w.store.VerifWriteXINAsset())
			k := c23Kern(st, w)
			must(w.store.VerifWriteRound(k.chain, 0))
			return r.Out
		case "kq":
			k := c23Kern(st, w)
			n := atoi(t[1])
			var txs []*common.VersionedTransaction
			var ids, vs []int
			for i := 0; i < n; i++ {
				id, v := atoi(t[2+2*i]), atoi(t[3+2*i])
				ids, vs = append(ids, id), append(vs, v)
				txs = append(txs, w.tx(id, v))
			}
			before := queueKeys()
			must(k.node.CacheQueueTransactions(peer, txs))
			added := newKeys(before)
			parts := []string{"kq", t[1]}
			used := map[int]bool{}
			for i, id := range ids {
				ts := uint64(0)
				if !used[id] {
					ts = added[id]
					used[id] = true
				}
				parts = append(parts, fmt.Sprint(id), fmt.Sprint(vs[i]), fmt.Sprint(ts))
				switch k.state[id] {
				case c23Finalized:
					res.Tags = append(res.Tags, "kq:finalized")
					if _, ok := added[id]; ok {
						fail("finalized-queued", fmt.Sprintf("peer queueing scheduled finalized transaction %d", id))
					}
				case c23Persisted:
					res.Tags = append(res.Tags, "kq:persisted-unfinalized")
					or.queued[id]++
					or.expect[id] = true
					delete(or.fresh, id)
				default:
					res.Tags = append(res.Tags, "kq:not-persisted")
					or.queued[id]++
					or.expect[id] = true
					delete(or.fresh, id)
				}
			}
			res.LeanIn = strings.Join(parts, " ")
			return "ok"
		case "ks":
			k := c23Kern(st, w)
			n := atoi(t[1])
			var txs []*common.VersionedTransaction
			for i := 0; i < n; i++ {
				id, v := atoi(t[2+2*i]), atoi(t[3+2*i])
				txs = append(txs, w.tx(id, v))
				if k.state[id] != c23Absent {
					res.Tags = append(res.Tags, "ks:persisted")
				}
			}
			before := queueKeys()
			must(k.node.CacheStoreTransactions(peer, txs))
			if strings.Join(before, " ") != strings.Join(queueKeys(), " ") {
				fail("store-made-eligible", "CacheStoreTransactions changed the queue")
			}
			return "ok"
		case "rq":
			k := c23Kern(st, w)
			id, v := atoi(t[1]), atoi(t[2])
			tx := w.tx(id, v)
			valid := 0
			if tx.Validate(w.store, uint64(time.Now().UnixNano()), false) == nil {
				valid = 1
			}
			cached, err := w.store.CacheGetTransaction(w.hashes[id-1])
			must(err)
			before := queueKeys()
			_, err = k.node.QueueTransaction(tx)
			added := newKeys(before)
			res.LeanIn = fmt.Sprintf("rq %d %d %d %d", id, v, valid, added[id])
			if err != nil {
				res.Tags = append(res.Tags, "rq:rejected")
				if len(added) > 0 {
					fail("rejected-queued", "QueueTransaction failed but scheduled the transaction")
				}
				return "err"
			}
			if k.state[id] != c23Finalized {
				if cached == nil && valid == 0 {
					fail("invalid-queued", fmt.Sprintf("QueueTransaction accepted transaction %d although Validate fails and no body is cached", id))
				}
				or.queued[id]++
				or.expect[id] = true
				delete(or.fresh, id)
				res.Tags = append(res.Tags, "rq:queued")
			} else {
				res.Tags = append(res.Tags, "rq:finalized")
				if len(added) > 0 {
					fail("finalized-queued", fmt.Sprintf("QueueTransaction scheduled finalized transaction %d", id))
				}
			}
			return "ok"
		case "persist":
			k := c23Kern(st, w)
			id, v := atoi(t[1]), atoi(t[2])
			must(w.store.WriteTransaction(w.tx(id, v)))
			if k.state[id] == c23Absent {
				k.state[id] = c23Persisted
			}
			return "ok"
		case "finalize":
			k := c23Kern(st, w)
			id := atoi(t[1])
			if k.state[id] == c23Finalized {
				return "ok"
			}
			tx := w.tx(id, 1)
			if k.state[id] == c23Absent {
				must(w.store.WriteTransaction(tx))
			}
			snap := &common.Snapshot{
				Version:      common.SnapshotVersionCommonEncoding,
				NodeId:       k.chain,
				RoundNumber:  0,
				Timestamp:    uint64(1000000 + id),
				Transactions: []crypto.Hash{tx.PayloadHash()},
			}
			snap.Hash = snap.PayloadHash()
			must(w.store.WriteSnapshot(&common.SnapshotWithTopologicalOrder{Snapshot: snap, TopologicalOrder: k.topo}, nil))
			k.topo++
			k.state[id] = c23Finalized
			_, fin, err := w.store.ReadTransaction(tx.PayloadHash())
			must(err)
			if len(fin) == 0 {
				panic("harness: transaction not finalized by the snapshot")
			}
			return "ok"
		}
		panic("harness: unknown op " + t[0])
	})
	if panicked && strings.HasPrefix(msg, "harness:") {
		panic(msg)
	}
	res.Out = out
	return res
}

func genCacheKernel(r *Rand, i int, tier string) []string {
	lines := []string{"reset"}
	k := r.Range(1, c23K)
	if r.Chance(1, 2) {
		k = r.Range(1, 4)
	}
	id := func() int { return r.Range(1, k) }
	variant := func() int { return r.Range(1, 3) }
	list := func(op string, withV bool) string {
		n := r.Range(1, 3)
		if r.Chance(1, 10) {
			n = 0
		}
		parts := []string{op, fmt.Sprint(n)}
		for j := 0; j < n; j++ {
			parts = append(parts, fmt.Sprint(id()), fmt.Sprint(variant()))
		}
		return strings.Join(parts, " ")
	}
	if i%3 == 0 {
		// the life of one transaction: queued, proposed, persisted by a verifier, proposal abandoned,
		// queued again by a peer / the RPC; finally finalized and queued once more
		h := id()
		pre := [][]string{
			{fmt.Sprintf("kq 1 %d %d", h, variant())},
			{fmt.Sprintf("ks 1 %d %d", h, variant()), fmt.Sprintf("kq 1 %d %d", h, variant())},
			{fmt.Sprintf("ks 1 %d %d", h, variant()), fmt.Sprintf("rq %d %d", h, variant())},
			{fmt.Sprintf("queue %d %d", h, variant())},
		}
		lines = append(lines, Pick(r, pre)...)
		lines = append(lines, "retrieve 300", "retrieve 300", fmt.Sprintf("persist %d %d", h, variant()))
		again := []string{fmt.Sprintf("kq 1 %d %d", h, variant()), fmt.Sprintf("rq %d %d", h, variant()), fmt.Sprintf("kq 2 %d %d %d %d", id(), variant(), h, variant())}
		lines = append(lines, Pick(r, again), "dump", "retrieve 300", "retrieve 300")
		if r.Bool() {
			lines = append(lines, fmt.Sprintf("ks 1 %d %d", h, variant()), "retrieve 300")
		}
		lines = append(lines, fmt.Sprintf("finalize %d", h), Pick(r, again), fmt.Sprintf("ks 1 %d %d", h, variant()), "dump", "retrieve 300", fmt.Sprintf("get %d", h))
		return lines
	}
	nops := r.Range(4, 30)
	for j := 0; j < nops; j++ {
		switch r.Intn(16) {
		case 0, 1, 2, 3:
			lines = append(lines, list("kq", true))
		case 4, 5:
			lines = append(lines, list("ks", true))
		case 6, 7:
			lines = append(lines, fmt.Sprintf("rq %d %d", id(), variant()))
		case 8, 9:
			lines = append(lines, fmt.Sprintf("persist %d %d", id(), variant()))
		case 10:
			lines = append(lines, fmt.Sprintf("finalize %d", id()))
		case 11, 12, 13:
			lines = append(lines, fmt.Sprintf("retrieve %d", Pick(r, []int{0, 1, 2, k, 300, 300})))
		case 14:
			n := r.Range(1, 2)
			parts := []string{"remove", fmt.Sprint(n)}
			for x := 0; x < n; x++ {
				parts = append(parts, fmt.Sprint(id()))
			}
			lines = append(lines, strings.Join(parts, " "))
		default:
			lines = append(lines, Pick(r, []string{"dump", fmt.Sprintf("get %d", id()), fmt.Sprintf("queue %d %d", id(), variant()), fmt.Sprintf("store %d %d", id(), variant())}))
		}
	}
	lines = append(lines, "dump", "retrieve 300", "dump")
	return lines
}

func init() {
	Register(&Subsystem{
		Name: "cachekernel",
		Rule: "histories of the kernel wrappers CacheQueueTransactions / CacheStoreTransactions / QueueTransaction mixed with storage-level cache ops over transactions in every persistence state (absent, cached, persisted unfinalized, finalized); every third case is the life cycle queue → retrieve → persist → queue again → retrieve → finalize → queue; non-trivial = retrieve/get results",
		Gen:  genCacheKernel,
		Exec: execCacheKernel,
		Corpus: [][]string{
			{"reset", "ks 1 1 1", "retrieve 10", "kq 1 1 2", "retrieve 10", "retrieve 10", "persist 1 1", "get 1", "kq 1 1 3", "retrieve 10", "retrieve 10"},
			{"reset", "kq 1 2 1", "retrieve 10", "finalize 2", "kq 1 2 1", "rq 2 1", "retrieve 10", "persist 3 1", "ks 1 3 1", "get 3", "rq 3 2", "kq 1 3 2", "retrieve 10"},
		},
	})
}
