package main

// Adversarial generators for the `validate` subsystem (C01 / C02):
//   * amount vectors whose partial sums cross 2^32·k, 2^63, 2^64, 2^128 while every summand stays
//     below the boundary (input side and output side, honest and "wrapped" totals)
//   * inputs carrying several of the {Genesis, Deposit, Mint} sections at once
//   * deposits against a previously bound asset with near-miss asset keys / chains
//   * aggregate-signed transactions over 2..8 inputs whose signer set covers some inputs fully and
//     others partially or not at all, with signers straddling the offset boundaries
//   * crafted signatures built with the discrete logs the harness knows: pairs / k-tuples whose
//     verification errors cancel under equal batch coefficients, commitments and keys with a
//     small-order (torsion) component, non-canonical and small-order encodings
// The signature classes are testing of the real crypto (BatchVerify vs the conjunction of Verify,
// Validate's decision vs the per-signature decision), not theorems.

import (
	"bytes"
	"crypto/sha512"
	"fmt"
	"math/big"
	"sort"
	"strings"
	"sync"

	"filippo.io/edwards25519"
	"github.com/MixinNetwork/mixin/common"
	"github.com/MixinNetwork/mixin/crypto"
)

// ---------------------------------------------------------------- scalar / point helpers

func c05Scalar(k crypto.Key) *edwards25519.Scalar {
	s, err := edwards25519.NewScalar().SetCanonicalBytes(k[:])
	if err != nil {
		panic("harness: non-canonical private scalar")
	}
	return s
}

func c05SmallScalar(n uint64) *edwards25519.Scalar {
	var b [32]byte
	for i := 0; i < 8; i++ {
		b[i] = byte(n >> (8 * i))
	}
	s, _ := edwards25519.NewScalar().SetCanonicalBytes(b[:])
	return s
}

func c05Challenge(R []byte, A []byte, msg crypto.Hash) *edwards25519.Scalar {
	h := sha512.New()
	h.Write(R)
	h.Write(A)
	h.Write(msg[:])
	var digest [64]byte
	h.Sum(digest[:0])
	k, err := edwards25519.NewScalar().SetUniformBytes(digest[:])
	if err != nil {
		panic(err)
	}
	return k
}

func c05RandScalar(r *Rand) *edwards25519.Scalar {
	s, err := edwards25519.NewScalar().SetUniformBytes(r.Bytes(64))
	if err != nil {
		panic(err)
	}
	return s
}

func c05MakeSig(R []byte, s *edwards25519.Scalar) crypto.Signature {
	var sig crypto.Signature
	copy(sig[:32], R)
	copy(sig[32:], s.Bytes())
	return sig
}

var (
	c05TorsionOnce sync.Once
	c05TorsionPts  []*edwards25519.Point // the eight points of small order, index j = j*T
)

// the eight small-order points, computed (not quoted): take a curve point P, remove its
// prime-order component [1/8]([8]P); what remains generates the torsion subgroup when its order is 8
func c05Torsion() []*edwards25519.Point {
	c05TorsionOnce.Do(func() {
		inv8 := edwards25519.NewScalar().Invert(c05SmallScalar(8))
		for ctr := 0; ; ctr++ {
			h := crypto.Blake3Hash([]byte(fmt.Sprintf("verif torsion %d", ctr)))
			P, err := edwards25519.NewIdentityPoint().SetBytes(h[:])
			if err != nil {
				continue
			}
			P8 := edwards25519.NewIdentityPoint().MultByCofactor(P)
			P0 := edwards25519.NewIdentityPoint().ScalarMult(inv8, P8)
			T := edwards25519.NewIdentityPoint().Subtract(P, P0)
			T4 := edwards25519.NewIdentityPoint().Add(T, T)
			T4.Add(T4, T4)
			if T4.Equal(edwards25519.NewIdentityPoint()) == 1 {
				continue // order 1, 2 or 4
			}
			acc := edwards25519.NewIdentityPoint()
			for j := 0; j < 8; j++ {
				c05TorsionPts = append(c05TorsionPts, edwards25519.NewIdentityPoint().Set(acc))
				acc = edwards25519.NewIdentityPoint().Add(acc, T)
			}
			return
		}
	})
	return c05TorsionPts
}

// encodings edwards25519.SetBytes accepts although they are not canonical (y >= p) or name points
// of small order
func c05OddEncodings() [][]byte {
	mk := func(first byte, last byte) []byte {
		b := bytes.Repeat([]byte{0xff}, 32)
		b[0], b[31] = first, last
		return b
	}
	one := make([]byte, 32)
	one[0] = 1
	res := [][]byte{
		one,              // identity
		make([]byte, 32), // y = 0, order 4
		mk(0xec, 0x7f),   // y = -1, order 2
		mk(0xee, 0x7f),   // y = p+1: non-canonical identity
		mk(0xed, 0x7f),   // y = p: non-canonical order 4
		mk(0xed, 0xff),   // y = p, sign bit set
		mk(0xee, 0xff),   // y = p+1, sign bit set (x = 0): invalid or non-canonical
	}
	for _, t := range c05Torsion() {
		res = append(res, t.Bytes())
	}
	return res
}

// an honest Schnorr signature in the repository's format, from the discrete log
func c05HonestSig(priv crypto.Key, msg crypto.Hash, r *edwards25519.Scalar) crypto.Signature {
	pub := priv.Public()
	R := edwards25519.NewIdentityPoint().ScalarBaseMult(r)
	k := c05Challenge(R.Bytes(), pub[:], msg)
	return c05MakeSig(R.Bytes(), edwards25519.NewScalar().MultiplyAdd(k, c05Scalar(priv), r))
}

// R' = r*B + T, s = r + H(R'||A||m)*a: passes a cofactored check, fails the strict one unless T = 0
func c05TorsionSig(priv crypto.Key, msg crypto.Hash, r *edwards25519.Scalar, T *edwards25519.Point) crypto.Signature {
	pub := priv.Public()
	R := edwards25519.NewIdentityPoint().ScalarBaseMult(r)
	R.Add(R, T)
	k := c05Challenge(R.Bytes(), pub[:], msg)
	return c05MakeSig(R.Bytes(), edwards25519.NewScalar().MultiplyAdd(k, c05Scalar(priv), r))
}

// commitment given by raw bytes standing for a point of small order (r = 0): s = H(R||A||m)*a
func c05RawCommitSig(priv crypto.Key, msg crypto.Hash, R []byte) crypto.Signature {
	pub := priv.Public()
	k := c05Challenge(R, pub[:], msg)
	return c05MakeSig(R, edwards25519.NewScalar().Multiply(k, c05Scalar(priv)))
}

// forged tuple: `own` is the only private key known; victims[i] get s_i = r_i with the k_i*A_i term
// left unpaid, the own entry pays for all of them in its commitment. Every signature is
// individually invalid; the verification errors sum to zero.
func c05ForgeTuple(r *Rand, own crypto.Key, victims []crypto.Key, msgs []crypto.Hash) (crypto.Signature, []crypto.Signature, bool) {
	pay := edwards25519.NewIdentityPoint()
	var vs []crypto.Signature
	for i, v := range victims {
		A, err := edwards25519.NewIdentityPoint().SetBytes(v[:])
		if err != nil {
			return crypto.Signature{}, nil, false
		}
		ri := c05RandScalar(r)
		Ri := edwards25519.NewIdentityPoint().ScalarBaseMult(ri)
		ki := c05Challenge(Ri.Bytes(), v[:], msgs[i+1])
		pay.Add(pay, edwards25519.NewIdentityPoint().ScalarMult(ki, A))
		vs = append(vs, c05MakeSig(Ri.Bytes(), ri))
	}
	pub := own.Public()
	r0 := c05RandScalar(r)
	R0 := edwards25519.NewIdentityPoint().ScalarBaseMult(r0)
	R0.Subtract(R0, pay)
	k0 := c05Challenge(R0.Bytes(), pub[:], msgs[0])
	return c05MakeSig(R0.Bytes(), edwards25519.NewScalar().MultiplyAdd(k0, c05Scalar(own), r0)), vs, true
}

// (s_1+δ, s_2−δ, …): honest signatures whose s values are shifted by amounts summing to zero
func c05ShiftSigs(r *Rand, sigs []*crypto.Signature) {
	if len(sigs) < 2 {
		return
	}
	total := edwards25519.NewScalar()
	for i, sg := range sigs {
		var d *edwards25519.Scalar
		if i == len(sigs)-1 {
			d = edwards25519.NewScalar().Negate(total)
		} else {
			switch r.Intn(3) {
			case 0:
				d = c05SmallScalar(uint64(Pick(r, []int{1, 2, 8, 16, 255})))
			case 1:
				d = edwards25519.NewScalar().Negate(c05SmallScalar(uint64(Pick(r, []int{1, 8, 64}))))
			default:
				d = c05RandScalar(r)
			}
			total.Add(total, d)
		}
		s, err := edwards25519.NewScalar().SetCanonicalBytes(sg[32:])
		if err != nil {
			return
		}
		s.Add(s, d)
		copy(sg[32:], s.Bytes())
	}
}

// ---------------------------------------------------------------- batch op: crafted batches

func c05GenCraftedBatch(r *Rand) []string {
	accts := c05VAccounts()
	msg := crypto.Blake3Hash(r.Bytes(8))
	n := Pick(r, []int{2, 2, 3, 4, 8})
	type ent struct {
		k   crypto.Key
		sig crypto.Signature
	}
	var es []ent
	privs := make([]crypto.Key, n)
	for i := range privs {
		privs[i] = accts[r.Intn(len(accts))].PrivateSpendKey
		if r.Chance(1, 4) && i > 0 {
			privs[i] = privs[0] // the same key twice
		}
		es = append(es, ent{privs[i].Public(), c05HonestSig(privs[i], msg, c05RandScalar(r))})
	}
	tors := c05Torsion()
	switch r.Intn(9) {
	case 0, 1: // shifted s values summing to zero over 2..n entries
		m := r.Range(2, n)
		var ps []*crypto.Signature
		for i := 0; i < m; i++ {
			ps = append(ps, &es[i].sig)
		}
		c05ShiftSigs(r, ps)
	case 2, 3: // forged tuple with one known private key
		m := r.Range(2, n)
		var victims []crypto.Key
		msgs := []crypto.Hash{msg}
		for i := 1; i < m; i++ {
			victims = append(victims, es[i].k)
			msgs = append(msgs, msg)
		}
		own, vs, ok := c05ForgeTuple(r, privs[0], victims, msgs)
		if ok {
			es[0].sig = own
			for i, v := range vs {
				es[i+1].sig = v
			}
		}
	case 4: // commitment with a torsion component, s adjusted
		i := r.Intn(n)
		es[i].sig = c05TorsionSig(privs[i], msg, c05RandScalar(r), tors[r.Intn(8)])
	case 5: // torsion added to an honest commitment, nothing adjusted
		i := r.Intn(n)
		R, err := edwards25519.NewIdentityPoint().SetBytes(es[i].sig[:32])
		if err == nil {
			R.Add(R, tors[r.Range(1, 7)])
			copy(es[i].sig[:32], R.Bytes())
		}
	case 6: // small-order / non-canonical commitment encodings
		i := r.Intn(n)
		es[i].sig = c05RawCommitSig(privs[i], msg, Pick(r, c05OddEncodings()))
	case 7: // public key with a torsion component or of small order
		i := r.Intn(n)
		if r.Bool() {
			A, _ := edwards25519.NewIdentityPoint().SetBytes(es[i].k[:])
			A.Add(A, tors[r.Range(1, 7)])
			var k crypto.Key
			copy(k[:], A.Bytes())
			rr := c05RandScalar(r)
			R := edwards25519.NewIdentityPoint().ScalarBaseMult(rr)
			ch := c05Challenge(R.Bytes(), k[:], msg)
			es[i] = ent{k, c05MakeSig(R.Bytes(), edwards25519.NewScalar().MultiplyAdd(ch, c05Scalar(privs[i]), rr))}
		} else {
			var k crypto.Key
			copy(k[:], Pick(r, c05OddEncodings()))
			rr := c05RandScalar(r)
			R := edwards25519.NewIdentityPoint().ScalarBaseMult(rr)
			es[i] = ent{k, c05MakeSig(R.Bytes(), rr)} // s = r verifies against any small-order key up to cofactor
		}
	default: // R and s swapped between two entries
		i, j := 0, r.Range(1, n-1)
		var a, b crypto.Signature
		copy(a[:32], es[i].sig[:32])
		copy(a[32:], es[j].sig[32:])
		copy(b[:32], es[j].sig[:32])
		copy(b[32:], es[i].sig[32:])
		es[i].sig, es[j].sig = a, b
	}
	var sb strings.Builder
	fmt.Fprintf(&sb, "batch %s %d", Hex(msg[:]), len(es))
	for _, e := range es {
		sb.WriteString(" " + Hex(e.k[:]) + " " + Hex(e.sig[:]))
	}
	return []string{sb.String()}
}

// ---------------------------------------------------------------- validate: crafted signature sections

// the private ghost key behind key `idx` of the utxo spent by input i, when the world knows it
func (w *c05GWorld) ghostPriv(in *common.Input, idx uint16) (crypto.Key, bool) {
	for _, g := range w.utxos {
		if g.u.Hash == in.Hash && g.u.Index == in.Index && int(idx) < len(g.owners) && int(idx) < len(g.u.Keys) {
			o := g.owners[idx]
			priv := crypto.DeriveGhostPrivateKey(&g.u.Mask, &o.PrivateViewKey, &o.PrivateSpendKey, uint64(g.u.Index))
			if priv.Public() == *g.u.Keys[idx] {
				return *priv, true
			}
		}
	}
	return crypto.Key{}, false
}

type c05SigRef struct {
	input int
	idx   uint16
}

func c05SigRefs(s *common.SignedTransaction) []c05SigRef {
	var refs []c05SigRef
	for i, m := range s.SignaturesMap {
		if i >= len(s.Inputs) { // a surplus map belongs to no input
			break
		}
		for _, j := range c05SortedIdx(m) {
			refs = append(refs, c05SigRef{i, j})
		}
	}
	return refs
}

// crafted replacements inside the signature maps of a signed transaction
func (w *c05GWorld) craftSignatures(s *common.SignedTransaction) string {
	r := w.r
	refs := c05SigRefs(s)
	if len(refs) == 0 || s.AggregatedSignature != nil {
		return "craft-none"
	}
	msg := s.AsVersioned().PayloadHash()
	at := func(x c05SigRef) *crypto.Signature { return s.SignaturesMap[x.input][x.idx] }
	switch r.Intn(5) {
	case 0: // s values shifted by amounts summing to zero
		if len(refs) < 2 {
			return "craft-none"
		}
		m := r.Range(2, len(refs))
		if m > 4 {
			m = 4
		}
		var ps []*crypto.Signature
		for _, x := range refs[:m] {
			ps = append(ps, at(x))
		}
		c05ShiftSigs(r, ps)
		return "craft-shifted-tuple"
	case 1: // forged tuple: only the first referenced key's private key is used
		if len(refs) < 2 {
			return "craft-none"
		}
		m := r.Range(2, len(refs))
		if m > 4 {
			m = 4
		}
		own, ok := w.ghostPriv(s.Inputs[refs[0].input], refs[0].idx)
		if !ok {
			return "craft-none"
		}
		var victims []crypto.Key
		msgs := []crypto.Hash{msg}
		for _, x := range refs[1:m] {
			u, _ := w.ReadUTXOKeys(s.Inputs[x.input].Hash, s.Inputs[x.input].Index)
			if u == nil || int(x.idx) >= len(u.Keys) {
				return "craft-none"
			}
			victims = append(victims, *u.Keys[x.idx])
			msgs = append(msgs, msg)
		}
		o, vs, ok := c05ForgeTuple(r, own, victims, msgs)
		if !ok {
			return "craft-none"
		}
		*at(refs[0]) = o
		for i, v := range vs {
			*at(refs[i+1]) = v
		}
		return "craft-forged-tuple"
	case 2, 3: // commitment with a torsion component under the right key
		x := refs[r.Intn(len(refs))]
		priv, ok := w.ghostPriv(s.Inputs[x.input], x.idx)
		if !ok {
			return "craft-none"
		}
		*at(x) = c05TorsionSig(priv, msg, c05RandScalar(r), c05Torsion()[r.Range(1, 7)])
		return "craft-torsion-commitment"
	default: // small-order / non-canonical commitment under the right key
		x := refs[r.Intn(len(refs))]
		priv, ok := w.ghostPriv(s.Inputs[x.input], x.idx)
		if !ok {
			return "craft-none"
		}
		*at(x) = c05RawCommitSig(priv, msg, Pick(r, c05OddEncodings()))
		return "craft-odd-commitment"
	}
}

// ---------------------------------------------------------------- amounts around word boundaries

var c05Boundaries = []*big.Int{
	new(big.Int).Lsh(big.NewInt(1), 32), new(big.Int).Lsh(big.NewInt(3), 32), new(big.Int).Lsh(big.NewInt(1), 63),
	new(big.Int).Lsh(big.NewInt(1), 64), new(big.Int).Lsh(big.NewInt(1), 64), new(big.Int).Lsh(big.NewInt(1), 128),
}

// k >= 2 positive amounts, each below B, summing to B + c
func c05CrossingVector(r *Rand, B, c *big.Int, k int) []*big.Int {
	total := new(big.Int).Add(B, c)
	var parts []*big.Int
	rest := new(big.Int).Set(total)
	for i := 0; i < k-1; i++ {
		// part in [1, min(B-1, rest-(k-1-i))]
		hi := new(big.Int).Sub(rest, big.NewInt(int64(k-1-i)))
		if lim := new(big.Int).Sub(B, big.NewInt(1)); hi.Cmp(lim) > 0 {
			hi = lim
		}
		if hi.Sign() <= 0 {
			break
		}
		var p *big.Int
		switch r.Intn(4) {
		case 0: // half the boundary
			p = new(big.Int).Rsh(B, 1)
		case 1: // just below the boundary
			p = new(big.Int).Sub(B, big.NewInt(int64(r.Range(1, 3))))
		default:
			p = new(big.Int).SetBytes(r.Bytes(20))
			p.Mod(p, hi)
			p.Add(p, big.NewInt(1))
		}
		if p.Cmp(hi) > 0 {
			p = hi
		}
		parts = append(parts, p)
		rest.Sub(rest, p)
	}
	if rest.Cmp(B) >= 0 || rest.Sign() <= 0 {
		// fall back to the canonical split B/2 + B/2 + c
		h := new(big.Int).Rsh(B, 1)
		parts = []*big.Int{h, new(big.Int).Sub(B, h)}
		if c.Sign() > 0 {
			parts = append(parts, c)
		}
		return parts
	}
	return append(parts, rest)
}

// transfers whose running totals cross a word boundary. variant 0: honest (inputs cross, outputs
// worth the true total); 1: inputs cross, outputs worth only the wrapped total c; 2: a small input
// c, outputs worth B + c (each below B)
func c05BuildBoundary(w *c05GWorld, mut func(*common.Transaction)) (*common.SignedTransaction, string) {
	r := w.r
	B := Pick(r, c05Boundaries)
	c := big.NewInt(int64(r.Range(1, 3)))
	if r.Bool() {
		c = integerToBig(w.genAmount())
		if c.Cmp(B) >= 0 {
			c = big.NewInt(1000000000)
		}
	}
	asset := Pick(r, w.assets)
	variant := r.Intn(3)
	var inAmounts []*big.Int
	if variant == 2 {
		inAmounts = []*big.Int{c}
	} else {
		inAmounts = c05CrossingVector(r, B, c, r.Range(2, 4))
	}
	// own funding transaction with these amounts
	ftx := common.NewTransactionV5(asset)
	ftx.AddInput(w.randHash(), 0)
	var owners [][]*common.Address
	for _, a := range inAmounts {
		acc := w.acct()
		ftx.AddScriptOutput([]*common.Address{acc}, common.NewThresholdScript(1), integerFromBig(a), w.seed())
		owners = append(owners, []*common.Address{acc})
	}
	_, us := w.storeTx(ftx, owners, true)
	tx := common.NewTransactionV5(asset)
	for _, g := range us {
		w.addUtxo(g)
		tx.AddInput(g.u.Hash, g.u.Index)
	}
	var outs []*big.Int
	switch variant {
	case 0:
		total := new(big.Int).Add(B, c)
		if r.Bool() {
			outs = c05CrossingVector(r, B, c, r.Range(2, 4))
		} else {
			outs = []*big.Int{total}
		}
	case 1:
		outs = []*big.Int{c}
	default:
		outs = c05CrossingVector(r, B, c, r.Range(2, 4))
	}
	for _, p := range outs {
		tx.AddScriptOutput([]*common.Address{w.acct()}, common.NewThresholdScript(1), integerFromBig(p), w.seed())
	}
	mut(tx)
	return w.sign(tx, c05InsFor(w, tx, us), w.sigModeFor(us)), "boundary"
}

// ---------------------------------------------------------------- aggregate signatures over several inputs

// 2..8 inputs with different key counts and thresholds; the signer set covers some inputs fully,
// others partially or not at all; first / last keys of neighbouring inputs are favoured
func c05BuildAggregateMulti(w *c05GWorld, mut func(*common.Transaction)) (*common.SignedTransaction, string) {
	r := w.r
	asset := Pick(r, w.assets)
	n := r.Range(2, 8)
	ftx := common.NewTransactionV5(asset)
	ftx.AddInput(w.randHash(), 0)
	var owners [][]*common.Address
	total := new(big.Int)
	for i := 0; i < n; i++ {
		nk := r.Range(1, 5)
		var accs []*common.Address
		seen := map[*common.Address]bool{}
		for len(accs) < nk {
			a := w.acct()
			if !seen[a] {
				seen[a] = true
				accs = append(accs, a)
			}
		}
		th := Pick(r, []int{0, 1, 1, nk, nk, r.Range(1, nk), nk + 1})
		amt := w.genAmount()
		total.Add(total, integerToBig(amt))
		ftx.AddScriptOutput(accs, common.NewThresholdScript(uint8(th)), amt, w.seed())
		owners = append(owners, accs)
	}
	_, us := w.storeTx(ftx, owners, true)
	// spend them in a random order
	order := make([]int, len(us))
	for i := range order {
		order[i] = i
	}
	for i := len(order) - 1; i > 0; i-- {
		j := r.Intn(i + 1)
		order[i], order[j] = order[j], order[i]
	}
	tx := common.NewTransactionV5(asset)
	var ins []*c05GUtxo
	for _, i := range order {
		w.addUtxo(us[i])
		ins = append(ins, us[i])
		tx.AddInput(us[i].u.Hash, us[i].u.Index)
	}
	w.addChange(tx, total, r.Range(1, 3))
	mut(tx)
	signed := &common.SignedTransaction{Transaction: *tx}
	honest := r.Chance(1, 3)
	var accs [][]*common.Address
	for _, g := range ins {
		th, nk := int(g.u.Script[2]), len(g.owners)
		var cnt int
		if honest {
			cnt = th
		} else {
			cnt = Pick(r, []int{0, 0, th - 1, th, nk, nk})
		}
		if cnt < 0 {
			cnt = 0
		}
		if cnt > nk {
			cnt = nk
		}
		var idx []int
		switch r.Intn(3) {
		case 0: // the first keys
			for i := 0; i < cnt; i++ {
				idx = append(idx, i)
			}
		case 1: // the last keys
			for i := nk - cnt; i < nk; i++ {
				idx = append(idx, i)
			}
		default:
			p := make([]int, nk)
			for i := range p {
				p[i] = i
			}
			for i := nk - 1; i > 0; i-- {
				j := r.Intn(i + 1)
				p[i], p[j] = p[j], p[i]
			}
			idx = p[:cnt]
			sort.Ints(idx)
		}
		var a []*common.Address
		for _, i := range idx {
			a = append(a, g.owners[i])
		}
		accs = append(accs, a)
	}
	if r.Chance(1, 6) { // per-input maps with the same uneven signer sets
		for i, a := range accs {
			if len(a) == 0 || signed.SignInput(w, i, a) != nil {
				signed.SignaturesMap = append(signed.SignaturesMap, map[uint16]*crypto.Signature{})
			}
		}
		return signed, "aggregate-multi"
	}
	_, _, _ = Catch(func() string { _ = signed.AggregateSign(w, accs, r.Bytes(32)); return "" })
	if signed.AggregatedSignature == nil {
		return nil, ""
	}
	return signed, "aggregate-multi"
}

// ---------------------------------------------------------------- inputs with several sections at once

// set a random combination of the Genesis / Deposit / Mint sections on one input and make the
// outputs worth one of the candidate amounts, so that the accepting path is reachable whichever
// section a site lets win
func (w *c05GWorld) multiSectionInput(tx *common.Transaction) {
	r := w.r
	if len(tx.Inputs) == 0 || len(tx.Outputs) == 0 {
		return
	}
	in := Pick(r, tx.Inputs)
	var cands []common.Integer
	if r.Chance(3, 4) {
		a := w.genAmount()
		in.Mint = &common.MintData{Group: "UNIVERSAL", Batch: uint64(99 + r.Intn(5)), Amount: a}
		cands = append(cands, a)
	}
	if r.Chance(3, 4) {
		a := w.genAmount()
		in.Deposit = &common.DepositData{Chain: common.BitcoinAssetId, AssetKey: "c6d0c728-2624-429b-8e0d-d9d19b6592fa",
			Transaction: fmt.Sprintf("%x", r.Bytes(16)), Index: uint64(r.Intn(3)), Amount: a}
		cands = append(cands, a)
	}
	if r.Chance(1, 6) {
		in.Genesis = r.Bytes(r.Range(1, 32))
	}
	if r.Chance(1, 3) {
		in.Hash, in.Index = crypto.Hash{}, 0
	}
	if len(cands) == 0 {
		return
	}
	if in.Mint != nil && r.Bool() {
		tx.Asset = common.XINAssetId
	}
	tx.Outputs = tx.Outputs[:1]
	tx.Outputs[0].Type = common.OutputTypeScript
	tx.Outputs[0].Amount = Pick(r, cands)
	if r.Chance(2, 3) {
		tx.Inputs = []*common.Input{in}
	}
}

// ---------------------------------------------------------------- deposits against a bound asset with near-miss keys

func c05NearMissKey(r *Rand, key string) string {
	switch r.Intn(7) {
	case 0:
		return strings.ToUpper(key)
	case 1:
		return strings.ToLower(key)
	case 2: // one letter's case flipped
		b := []byte(key)
		for try := 0; try < 40; try++ {
			i := r.Intn(len(b))
			if b[i] >= 'a' && b[i] <= 'z' {
				b[i] -= 32
				return string(b)
			} else if b[i] >= 'A' && b[i] <= 'Z' {
				b[i] += 32
				return string(b)
			}
		}
		return key + "x"
	case 3:
		return key[:len(key)-1]
	case 4:
		return key + Pick(r, []string{"0", "a", "K"}) // incl. a Kelvin sign that folds to k
	case 5:
		return key[1:]
	default:
		return " " + key
	}
}

var c05TokenKeys = []string{
	"TR7NHqjeKQxGTCi8q8ZY4pL8otSzgjLj6t", "EPjFWdd5AufqSSqeM2qN1xzybapC8G4wEGGkZwyTDt1v",
	"0xa974c709cfb4566686553a20790685a47aceaa33", "c6d0c728-2624-429b-8e0d-d9d19b6592fa",
}

// a custodian-signed deposit into an asset id that is already bound to (chain, key): identical
// token, near-miss key on the same chain, same key on another chain
func c05BuildBoundDeposit(w *c05GWorld, mut func(*common.Transaction)) (*common.SignedTransaction, string) {
	r := w.r
	if w.custodian == nil {
		return nil, ""
	}
	chain := Pick(r, []crypto.Hash{common.BitcoinAssetId, common.EthereumAssetId, w.otherAsset})
	key := Pick(r, c05TokenKeys)
	assetID := crypto.Sha256Hash([]byte(chain.String() + key))
	if r.Chance(1, 4) {
		assetID = common.BitcoinAssetId
	}
	w.lines = append(w.lines, fmt.Sprintf("asset %s %s %s %d", Hex(assetID[:]), Hex(chain[:]), Hex([]byte(key)), r.Intn(3)*1000))
	dk, dc := key, chain
	switch r.Intn(5) {
	case 0, 1:
		dk = c05NearMissKey(r, key)
	case 2:
		dc = Pick(r, []crypto.Hash{common.BitcoinAssetId, common.EthereumAssetId, w.otherAsset, common.XINAssetId})
	}
	amt := big.NewInt(int64(r.Range(1, 1000)) * 100000000)
	d := &common.DepositData{Chain: dc, AssetKey: dk, Transaction: fmt.Sprintf("%x", r.Bytes(32)), Index: uint64(r.Intn(4)), Amount: integerFromBig(amt)}
	tx := common.NewTransactionV5(assetID)
	tx.AddDepositInput(d)
	tx.AddScriptOutput([]*common.Address{w.acct()}, common.NewThresholdScript(1), integerFromBig(amt), w.seed())
	mut(tx)
	signed := &common.SignedTransaction{Transaction: *tx}
	_ = signed.SignRaw(w.custodian.PrivateSpendKey)
	return signed, "bound-deposit"
}
