package main

// C01 / C02 / C05 — VersionedTransaction.Validate against lean/Mixin/Model/Validate.lean.
//
// A case is `reset`, ledger lines carrying the real bytes (utxo / stx / node / cust / mint /
// asset / dlock / glock), then `validate <fork> <consistent> <hex transaction>`. Exec keeps an
// in-memory common.DataStore (the pattern of common/*_test.go), interns every 32-byte value and
// compared string into small integers, and hands the model (Result.LeanIn) the abstract fields
// plus the oracle answers computed with the real crypto package, independently of the model's
// control flow. Property mode: recover() around Validate (C05, key per panic site), sums
// recomputed with math/big (C01), per-input signer counts recomputed with the real Verify and a
// tamper stream (C02).

import (
	"bytes"
	"fmt"
	"math/big"
	"runtime/debug"
	"sort"
	"strconv"
	"strings"

	"filippo.io/edwards25519"
	"github.com/MixinNetwork/mixin/common"
	"github.com/MixinNetwork/mixin/crypto"
)

const c05VSnapTime = uint64(1700000000) * 1000000000

type c05VStoredTx struct {
	ver  *common.VersionedTransaction
	snap string
}

type c05VAsset struct {
	asset   *common.Asset
	balance common.Integer
}

type c05VStore struct {
	utxos        map[string]*common.UTXOWithLock
	txs          map[crypto.Hash]*c05VStoredTx
	nodes        []*common.Node
	custodian    *common.CustodianUpdateRequest
	mint         *common.MintDistribution
	assets       map[crypto.Hash]*c05VAsset
	depositLocks map[crypto.Hash]crypto.Hash
	ghost        map[crypto.Key]crypto.Hash
	in           *c05Interner
}

func c05NewVStore() *c05VStore {
	return &c05VStore{utxos: map[string]*common.UTXOWithLock{}, txs: map[crypto.Hash]*c05VStoredTx{},
		assets: map[crypto.Hash]*c05VAsset{}, depositLocks: map[crypto.Hash]crypto.Hash{},
		ghost: map[crypto.Key]crypto.Hash{}, in: c05NewInterner()}
}

func c05VRef(h crypto.Hash, i uint) string { return fmt.Sprintf("%s:%d", h.String(), i) }

func (s *c05VStore) ReadTransaction(h crypto.Hash) (*common.VersionedTransaction, string, error) {
	t := s.txs[h]
	if t == nil {
		return nil, "", nil
	}
	return t.ver, t.snap, nil
}
func (s *c05VStore) ReadUTXOLock(h crypto.Hash, i uint) (*common.UTXOWithLock, error) {
	return s.utxos[c05VRef(h, i)], nil
}
func (s *c05VStore) ReadUTXOKeys(h crypto.Hash, i uint) (*common.UTXOKeys, error) {
	u := s.utxos[c05VRef(h, i)]
	if u == nil {
		return nil, nil
	}
	return &common.UTXOKeys{Mask: u.Mask, Keys: u.Keys}, nil
}
func (s *c05VStore) ReadDepositLock(d *common.DepositData) (crypto.Hash, error) {
	return s.depositLocks[d.UniqueKey()], nil
}
func (s *c05VStore) ReadLastMintDistribution(uint64) (*common.MintDistribution, error) {
	return s.mint, nil
}
func (s *c05VStore) LockUTXOs([]*common.Input, crypto.Hash, bool) error              { return nil }
func (s *c05VStore) LockDepositInput(*common.DepositData, crypto.Hash, bool) error   { return nil }
func (s *c05VStore) LockMintInput(*common.MintData, crypto.Hash, bool) error         { return nil }
func (s *c05VStore) ReadAllNodes(uint64, bool) []*common.Node                        { return s.nodes }
func (s *c05VStore) ReadCustodian(uint64) (*common.CustodianUpdateRequest, error)    { return s.custodian, nil }
func (s *c05VStore) LockGhostKeys(keys []*crypto.Key, tx crypto.Hash, _ bool) error {
	for _, k := range keys {
		if by, ok := s.ghost[*k]; ok && by != tx {
			return fmt.Errorf("ghost key %s locked for transaction %s", k.String(), by.String())
		}
	}
	return nil
}
func (s *c05VStore) ReadAssetWithBalance(id crypto.Hash) (*common.Asset, common.Integer, error) {
	a := s.assets[id]
	if a == nil {
		return nil, common.Zero, nil
	}
	return a.asset, a.balance, nil
}

// c05Interner: byte strings -> small integers; 0 = 32 zero bytes, 1 = XINAssetId
type c05Interner struct {
	m       map[string]int
	keylike []string // values that may be asked for CheckKey, in order of first use
	isKey   map[string]bool
}

func c05NewInterner() *c05Interner {
	in := &c05Interner{m: map[string]int{}, isKey: map[string]bool{}}
	in.id(make([]byte, 32))
	in.id(common.XINAssetId[:])
	return in
}
func (in *c05Interner) id(b []byte) int {
	k := string(b)
	if v, ok := in.m[k]; ok {
		return v
	}
	v := len(in.m)
	in.m[k] = v
	return v
}
func (in *c05Interner) key(k crypto.Key) int {
	s := string(k[:])
	if !in.isKey[s] {
		in.isKey[s] = true
		in.keylike = append(in.keylike, s)
	}
	return in.id(k[:])
}
func (in *c05Interner) str(s string) int { return in.id([]byte("s:" + s)) }

func c05VState(st *State) *c05VStore {
	if s, ok := st.V["vstore"].(*c05VStore); ok {
		return s
	}
	s := c05NewVStore()
	st.V["vstore"] = s
	return s
}

func c05HashOf(b []byte) (h crypto.Hash) { copy(h[:], b); return }
func c05KeyOf(b []byte) (k crypto.Key)   { copy(k[:], b); return }

// the signer NodeTransactionExtraAsSigner would derive (that method panics on other tx types)
func c05ExtraSigner(extra []byte) common.Address {
	var signer common.Address
	copy(signer.PublicSpendKey[:], extra)
	signer.PrivateViewKey = signer.PublicSpendKey.DeterministicHashDerive()
	signer.PublicViewKey = signer.PrivateViewKey.Public()
	return signer
}

func c05PubAddr(spend, view crypto.Key) common.Address {
	return common.Address{PublicSpendKey: spend, PublicViewKey: view}
}

func c05LeanOutput(in *c05Interner, o *common.Output) string {
	var sb strings.Builder
	w := 0
	if o.Withdrawal != nil {
		w = 1
	}
	fmt.Fprintf(&sb, "%d %s %d %d %s %d", o.Type, integerToBig(o.Amount).String(), w, in.key(o.Mask), Hex(o.Script), len(o.Keys))
	for _, k := range o.Keys {
		fmt.Fprintf(&sb, " %d", in.key(*k))
	}
	return sb.String()
}

func c05NodeStateCode(s string) int {
	switch s {
	case common.NodeStatePledging:
		return 0
	case common.NodeStateAccepted:
		return 1
	case common.NodeStateRemoved:
		return 2
	case common.NodeStateCancelled:
		return 3
	}
	return 9
}

// site of a recovered panic: the innermost frame of package common outside the arithmetic and
// codec helper files (integer.go, version.go, encoding.go, decoding.go)
func c05PanicSite(stack string) string {
	lines := strings.Split(stack, "\n")
	for i := 0; i+1 < len(lines); i++ {
		fn := lines[i]
		const pfx = "github.com/MixinNetwork/mixin/common."
		if !strings.HasPrefix(fn, pfx) {
			continue
		}
		skip := false
		for _, f := range []string{"integer.go", "version.go", "encoding.go", "decoding.go"} {
			skip = skip || strings.Contains(lines[i+1], "/common/"+f+":")
		}
		if skip {
			continue
		}
		name := fn[len(pfx):]
		if j := strings.LastIndex(name, "("); j >= 0 {
			name = name[:j]
		}
		if j := strings.LastIndex(name, ")."); j >= 0 {
			name = name[j+2:]
		}
		if j := strings.Index(name, ".func"); j >= 0 {
			name = name[:j]
		}
		return name
	}
	return "unknown"
}

func c05CatchSite(f func() string) (out string, site string, msg string) {
	defer func() {
		if e := recover(); e != nil {
			site = c05PanicSite(string(debug.Stack()))
			out = "panic " + site
			msg = fmt.Sprint(e)
			if len(msg) > 160 {
				msg = msg[:160]
			}
		}
	}()
	return f(), "", ""
}

func c05ExecValidateSub(st *State, line string) Result {
	t := strings.Fields(line)
	if len(t) == 0 {
		return Result{Out: "bad-op", LeanIn: "bad"}
	}
	s := c05VState(st)
	in := s.in
	bad := Result{Out: "bad-op", LeanIn: "bad " + t[0]}
	switch t[0] {
	case "reset":
		st.V["vstore"] = c05NewVStore()
		return Result{Out: "ok"}
	case "utxo":
		if len(t) != 2 {
			return bad
		}
		u, err := common.UnmarshalUTXO(UnHex(t[1]))
		if err != nil {
			return bad
		}
		s.utxos[c05VRef(u.Hash, u.Index)] = u
		var sb strings.Builder
		fmt.Fprintf(&sb, "utxo %d %d %d %d %s %d %d %s %d", in.id(u.Hash[:]), u.Index, u.Type, in.id(u.Asset[:]),
			integerToBig(u.Amount).String(), in.id(u.LockHash[:]), in.key(u.Mask), Hex(u.Script), len(u.Keys))
		for _, k := range u.Keys {
			fmt.Fprintf(&sb, " %d", in.key(*k))
		}
		return Result{Out: "ok", LeanIn: sb.String(), Tags: []string{fmt.Sprintf("ledger:utxo-type-%02x", u.Type)}}
	case "stx": // stx <key hash | -> <finalized> <hex>
		if len(t) != 4 {
			return bad
		}
		ver, err := common.UnmarshalVersionedTransaction(UnHex(t[3]))
		if err != nil {
			return bad
		}
		ph := ver.PayloadHash()
		key := ph
		if t[1] != "-" {
			key = c05HashOf(UnHex(t[1]))
		}
		snap := ""
		if t[2] == "1" {
			snap = "snap"
		}
		s.txs[key] = &c05VStoredTx{ver: ver, snap: snap}
		signer := c05ExtraSigner(ver.Extra)
		var sb strings.Builder
		fmt.Fprintf(&sb, "stx %d %d %s %d %d %d %d %d", in.id(key[:]), in.id(ph[:]), t[2], ver.TransactionType(),
			in.id(ver.Extra), in.str(signer.String()), in.key(signer.PublicSpendKey), len(ver.Inputs))
		for _, i := range ver.Inputs {
			fmt.Fprintf(&sb, " %d %d", in.id(i.Hash[:]), i.Index)
		}
		fmt.Fprintf(&sb, " %d", len(ver.Outputs))
		for _, o := range ver.Outputs {
			sb.WriteString(" " + c05LeanOutput(in, o))
		}
		return Result{Out: "ok", LeanIn: sb.String(), Tags: []string{fmt.Sprintf("ledger:stx-type-%02x", ver.TransactionType())}}
	case "node": // node signerSpend signerView payeeSpend payeeView stateHex txHash
		if len(t) != 7 {
			return bad
		}
		n := &common.Node{Signer: c05PubAddr(c05KeyOf(UnHex(t[1])), c05KeyOf(UnHex(t[2]))), Payee: c05PubAddr(c05KeyOf(UnHex(t[3])), c05KeyOf(UnHex(t[4]))),
			State: string(UnHex(t[5])), Transaction: c05HashOf(UnHex(t[6]))}
		s.nodes = append(s.nodes, n)
		return Result{Out: "ok", LeanIn: fmt.Sprintf("node %d %d %d %d %d", in.str(n.Signer.String()), in.key(n.Signer.PublicSpendKey),
			in.key(n.Payee.PublicSpendKey), c05NodeStateCode(n.State), in.id(n.Transaction[:])), Tags: []string{"ledger:node-" + n.State}}
	case "cust": // cust spend view n (cspend cview pspend pview)…
		if len(t) < 4 {
			return bad
		}
		n, err := strconv.Atoi(t[3])
		if err != nil || len(t) != 4+4*n {
			return bad
		}
		ca := c05PubAddr(c05KeyOf(UnHex(t[1])), c05KeyOf(UnHex(t[2])))
		cur := &common.CustodianUpdateRequest{Custodian: &ca}
		var sb strings.Builder
		fmt.Fprintf(&sb, "cust %d %d %d", in.key(ca.PublicSpendKey), in.str(ca.String()), n)
		for i := 0; i < n; i++ {
			f := t[4+4*i:]
			cn := &common.CustodianNode{Custodian: c05PubAddr(c05KeyOf(UnHex(f[0])), c05KeyOf(UnHex(f[1]))), Payee: c05PubAddr(c05KeyOf(UnHex(f[2])), c05KeyOf(UnHex(f[3])))}
			cur.Nodes = append(cur.Nodes, cn)
			fmt.Fprintf(&sb, " %d %d", in.str(cn.Custodian.String()), in.str(cn.Payee.String()))
		}
		s.custodian = cur
		return Result{Out: "ok", LeanIn: sb.String()}
	case "mint": // mint batch amount tx
		if len(t) != 4 {
			return bad
		}
		b, err := strconv.ParseUint(t[1], 10, 64)
		if err != nil {
			return bad
		}
		s.mint = &common.MintDistribution{MintData: common.MintData{Group: "UNIVERSAL", Batch: b, Amount: integerFromBig(parseBig(t[2]))}, Transaction: c05HashOf(UnHex(t[3]))}
		return Result{Out: "ok", LeanIn: fmt.Sprintf("mint %d %s %d", b, t[2], in.id(s.mint.Transaction[:]))}
	case "asset": // asset id chain assetKeyHex balance
		if len(t) != 5 {
			return bad
		}
		id, chain := c05HashOf(UnHex(t[1])), c05HashOf(UnHex(t[2]))
		s.assets[id] = &c05VAsset{asset: &common.Asset{Chain: chain, AssetKey: string(UnHex(t[3]))}, balance: integerFromBig(parseBig(t[4]))}
		return Result{Out: "ok", LeanIn: fmt.Sprintf("asset %d %d %d %s", in.id(id[:]), in.id(chain[:]), in.str(string(UnHex(t[3]))), t[4])}
	case "dlock":
		if len(t) != 3 {
			return bad
		}
		u, h := c05HashOf(UnHex(t[1])), c05HashOf(UnHex(t[2]))
		s.depositLocks[u] = h
		return Result{Out: "ok", LeanIn: fmt.Sprintf("dlock %d %d", in.id(u[:]), in.id(h[:]))}
	case "glock":
		if len(t) != 3 {
			return bad
		}
		k, h := c05KeyOf(UnHex(t[1])), c05HashOf(UnHex(t[2]))
		s.ghost[k] = h
		return Result{Out: "ok", LeanIn: fmt.Sprintf("glock %d %d", in.key(k), in.id(h[:]))}
	case "lock": // lock <hex transaction>: LockUTXOs as the kernel does after a successful validation
		if len(t) != 2 {
			return bad
		}
		ver, err := common.UnmarshalVersionedTransaction(UnHex(t[1]))
		if err != nil {
			return bad
		}
		h := ver.PayloadHash()
		var sb strings.Builder
		n := 0
		for _, i := range ver.Inputs {
			if c05IsSpecialInput(i) {
				continue
			}
			if u := s.utxos[c05VRef(i.Hash, i.Index)]; u != nil {
				u.LockHash = h
			}
			fmt.Fprintf(&sb, " %d %d", in.id(i.Hash[:]), i.Index)
			n++
		}
		return Result{Out: "ok", LeanIn: fmt.Sprintf("lock %d %d%s", in.id(h[:]), n, sb.String()), Tags: []string{"ledger:lock-own-hash"}}
	case "batch": // batch msgHex n (key sig)…
		return c05ExecBatch(t)
	case "validate":
		if len(t) != 4 {
			return bad
		}
		return c05ExecValidate(s, t[1] == "1", t[2] == "1", UnHex(t[3]))
	}
	return bad
}

func c05ExecBatch(t []string) Result {
	bad := Result{Out: "bad-op", LeanIn: "bad batch"}
	if len(t) < 3 {
		return bad
	}
	n, err := strconv.Atoi(t[2])
	if err != nil || len(t) != 3+2*n {
		return bad
	}
	msg := c05HashOf(UnHex(t[1]))
	var keys []*crypto.Key
	var sigs []*crypto.Signature
	lean := fmt.Sprintf("batch %d", n)
	all := n > 0
	nvalid := 0
	for i := 0; i < n; i++ {
		k := c05KeyOf(UnHex(t[3+2*i]))
		var sg crypto.Signature
		copy(sg[:], UnHex(t[4+2*i]))
		keys, sigs = append(keys, &k), append(sigs, &sg)
		ok := k.Verify(msg, sg)
		if ok {
			lean += " 1"
			nvalid++
		} else {
			lean += " 0"
			all = false
		}
	}
	out, _, _ := c05CatchSite(func() string { return fmt.Sprintf("ok %v", crypto.BatchVerify(msg, keys, sigs)) })
	res := Result{Out: out, LeanIn: lean, Nontrivial: n > 1, Tags: []string{"batch", fmt.Sprintf("batch:all-valid=%v", all)}}
	if nvalid > 0 && nvalid < n {
		res.Tags = append(res.Tags, "batch:mixed")
	}
	if out != fmt.Sprintf("ok %v", all) {
		res.PropKey, res.PropDesc = "C02:batch-differs", fmt.Sprintf("BatchVerify=%s but conjunction of Verify=%v over %d signatures", out, all, n)
	}
	return res
}

func c05IsSpecialInput(i *common.Input) bool { return i.Mint != nil || i.Deposit != nil || len(i.Genesis) > 0 }

func c05ExecValidate(s *c05VStore, fork, consistent bool, raw []byte) Result {
	in := s.in
	ver, err := common.UnmarshalVersionedTransaction(raw)
	if err != nil {
		return Result{Out: "bad-op", LeanIn: "bad undecodable", Tags: []string{"undecodable"}}
	}
	tx := &ver.SignedTransaction
	hash := ver.PayloadHash()
	tt := tx.TransactionType()
	res := Result{Tags: []string{fmt.Sprintf("type-%02x", tt)}}

	var sb strings.Builder
	extra64, extraSpend := make([]byte, 0), c05KeyOf(tx.Extra)
	if len(tx.Extra) >= 64 {
		extra64 = tx.Extra[:64]
	} else {
		extra64 = append([]byte("short:"), tx.Extra...)
	}
	f := 0
	if fork {
		f = 1
	}
	fmt.Fprintf(&sb, "validate %d %d %d %d %d %s %d %d %d %d", f, tx.Version, in.id(tx.Asset[:]), in.id(hash[:]), len(ver.PayloadMarshal()),
		integerToBig(common.GetAssetCapacity(tx.Asset)).String(), len(tx.Extra), in.id(tx.Extra), in.id(extra64), in.key(extraSpend))
	fmt.Fprintf(&sb, " %d", len(tx.Inputs))
	for _, i := range tx.Inputs {
		g := 0
		if len(i.Genesis) > 0 {
			g = 1
		}
		fmt.Fprintf(&sb, " %d %d %d", in.id(i.Hash[:]), i.Index, g)
		if d := i.Deposit; d == nil {
			sb.WriteString(" -")
		} else {
			uk := d.UniqueKey()
			fmt.Fprintf(&sb, " d %d %d %d %d %d %s", in.id(d.Chain[:]), c05B2i(strings.TrimSpace(d.AssetKey) == d.AssetKey && len(d.AssetKey) > 0),
				in.str(d.AssetKey), c05B2i(strings.TrimSpace(d.Transaction) == d.Transaction && len(d.Transaction) > 0), in.id(uk[:]), integerToBig(d.Amount).String())
		}
		if m := i.Mint; m == nil {
			sb.WriteString(" -")
		} else {
			fmt.Fprintf(&sb, " m %d %d %s", c05B2i(m.Group == "UNIVERSAL"), m.Batch, integerToBig(m.Amount).String())
		}
	}
	fmt.Fprintf(&sb, " %d", len(tx.Outputs))
	for _, o := range tx.Outputs {
		sb.WriteString(" " + c05LeanOutput(in, o))
	}
	fmt.Fprintf(&sb, " %d", len(tx.References))
	for _, r := range tx.References {
		fmt.Fprintf(&sb, " %d", in.id(r[:]))
	}
	type idxSig struct {
		idx uint16
		sig *crypto.Signature
	}
	sortedSigs := func(m map[uint16]*crypto.Signature) []idxSig {
		var l []idxSig
		for i, sg := range m {
			l = append(l, idxSig{i, sg})
		}
		sort.Slice(l, func(a, b int) bool { return l[a].idx < l[b].idx })
		return l
	}
	if tx.SignaturesMap == nil {
		sb.WriteString(" -")
	} else {
		fmt.Fprintf(&sb, " %d", len(tx.SignaturesMap))
		for _, m := range tx.SignaturesMap {
			fmt.Fprintf(&sb, " %d", len(m))
			for _, e := range sortedSigs(m) {
				fmt.Fprintf(&sb, " %d %d", e.idx, in.id(e.sig[:]))
			}
		}
	}
	if as := tx.AggregatedSignature; as == nil {
		sb.WriteString(" -")
	} else {
		fmt.Fprintf(&sb, " %d %d", in.id(as.Signature[:]), len(as.Signers))
		for _, m := range as.Signers {
			fmt.Fprintf(&sb, " %d", m)
		}
	}

	// ---- oracle answers, from the real crypto, independent of the model's control flow
	// candidate verification pairs over the payload hash
	type pair struct{ k, s int }
	var valid []pair
	seenPair := map[pair]bool{}
	tryPair := func(k crypto.Key, sg *crypto.Signature) {
		if sg == nil {
			return
		}
		p := pair{in.key(k), in.id(sg[:])}
		if seenPair[p] {
			return
		}
		seenPair[p] = true
		if k.Verify(hash, *sg) {
			valid = append(valid, p)
		}
	}
	var allKeys []*crypto.Key
	for i, inp := range tx.Inputs {
		if c05IsSpecialInput(inp) {
			continue
		}
		u := s.utxos[c05VRef(inp.Hash, inp.Index)]
		if u == nil {
			continue
		}
		allKeys = append(allKeys, u.Keys...)
		if i < len(tx.SignaturesMap) {
			for _, e := range sortedSigs(tx.SignaturesMap[i]) {
				if int(e.idx) < len(u.Keys) {
					tryPair(*u.Keys[e.idx], e.sig)
				}
			}
		}
	}
	if len(tx.SignaturesMap) > 0 {
		if sg := tx.SignaturesMap[0][0]; sg != nil {
			if s.custodian != nil {
				tryPair(s.custodian.Custodian.PublicSpendKey, sg)
			}
			for _, inp := range tx.Inputs {
				if st := s.txs[inp.Hash]; st != nil {
					tryPair(c05ExtraSigner(st.ver.Extra).PublicSpendKey, sg)
					for _, pin := range st.ver.Inputs {
						if pit := s.txs[pin.Hash]; pit != nil {
							for _, o := range pit.ver.Outputs {
								if len(o.Keys) > 0 {
									tryPair(*o.Keys[0], sg)
								}
							}
						}
					}
				}
			}
		}
	}
	aggAns := false
	if as := tx.AggregatedSignature; as != nil {
		o, _, _ := c05CatchSite(func() string {
			return fmt.Sprint(crypto.AggregateVerify(&as.Signature, allKeys, as.Signers, hash) == nil)
		})
		aggAns = o == "true"
	}
	claimSig, updSig, scalarOk, ghostEq := false, false, false, false
	if s.custodian != nil && len(tx.Extra) >= 64 {
		var sg crypto.Signature
		copy(sg[:], tx.Extra[:64])
		claimSig = s.custodian.Custodian.PublicSpendKey.Verify(crypto.Blake3Hash(tx.Extra[64:]), sg)
	}
	var curs *common.CustodianUpdateRequest
	c05CatchSite(func() string {
		c, err := common.ParseCustodianUpdateNodesExtra(tx.Extra, false)
		if err == nil {
			curs = c
		}
		return ""
	})
	if curs != nil && s.custodian != nil {
		updSig = s.custodian.Custodian.PublicSpendKey.Verify(crypto.Blake3Hash(tx.Extra[:len(tx.Extra)-64]), *curs.Signature)
	}
	if len(tx.Extra) >= 96 {
		_, err := edwards25519.NewScalar().SetCanonicalBytes(tx.Extra[64:96])
		scalarOk = err == nil
	}
	if tt == common.TransactionTypeNodeCancel && len(tx.Extra) == 96 && len(tx.Inputs) == 1 && len(tx.Outputs) == 2 && len(tx.Outputs[1].Keys) == 1 {
		o, _, _ := c05CatchSite(func() string {
			lp := s.txs[tx.Inputs[0].Hash]
			pit := s.txs[lp.ver.Inputs[0].Hash]
			pi := pit.ver.Outputs[lp.ver.Inputs[0].Index]
			a := c05KeyOf(tx.Extra[64:])
			x := crypto.ViewGhostOutputKey(pi.Keys[0], &a, &pi.Mask, uint64(lp.ver.Inputs[0].Index))
			y := crypto.ViewGhostOutputKey(tx.Outputs[1].Keys[0], &a, &tx.Outputs[1].Mask, 1)
			return fmt.Sprint(*x == *y)
		})
		ghostEq = o == "true"
	}
	// CheckKey for every key-like value seen so far (after all interning above)
	var validKeys []int
	for _, k := range in.keylike {
		if c05KeyOf([]byte(k)).CheckKey() {
			validKeys = append(validKeys, in.m[k])
		}
	}
	fmt.Fprintf(&sb, " %d", len(validKeys))
	for _, k := range validKeys {
		fmt.Fprintf(&sb, " %d", k)
	}
	fmt.Fprintf(&sb, " %d", len(valid))
	for _, p := range valid {
		fmt.Fprintf(&sb, " %d %d", p.k, p.s)
	}
	fmt.Fprintf(&sb, " %d %d", c05B2i(aggAns), len(allKeys))
	for _, k := range allKeys {
		fmt.Fprintf(&sb, " %d", in.key(*k))
	}
	fmt.Fprintf(&sb, " %d %d %d %d", c05B2i(claimSig), c05B2i(updSig), c05B2i(scalarOk), c05B2i(ghostEq))
	if curs == nil {
		sb.WriteString(" -")
	} else {
		fmt.Fprintf(&sb, " %d %d", in.str(curs.Custodian.String()), len(curs.Nodes))
		for _, n := range curs.Nodes {
			fmt.Fprintf(&sb, " %d %d", in.str(n.Custodian.String()), in.str(n.Payee.String()))
		}
	}
	res.LeanIn = sb.String()

	// ---- the real code, on a fresh decode
	run := func(raw []byte) (string, string, string, error) {
		var verr error
		out, site, msg := c05CatchSite(func() string {
			v, err := common.UnmarshalVersionedTransaction(raw)
			if err != nil {
				verr = err
				return "undecodable"
			}
			verr = v.Validate(s, c05VSnapTime, fork)
			if verr != nil {
				return "reject"
			}
			return "accept"
		})
		return out, site, msg, verr
	}
	out, site, msg, verr := run(raw)

	// independent sums (math/big)
	inSum, outSum := new(big.Int), new(big.Int)
	resolved, sameAsset, outsPositive, distinct := true, true, true, true
	spent := map[string]bool{}
	for _, inp := range tx.Inputs {
		switch {
		case inp.Mint != nil:
			inSum.Add(inSum, integerToBig(inp.Mint.Amount))
		case inp.Deposit != nil:
			inSum.Add(inSum, integerToBig(inp.Deposit.Amount))
		default:
			u := s.utxos[c05VRef(inp.Hash, inp.Index)]
			if u == nil {
				resolved = false
				continue
			}
			if u.Asset != tx.Asset {
				sameAsset = false
			}
			if spent[c05VRef(inp.Hash, inp.Index)] {
				distinct = false // one stored output counted twice creates value
			}
			spent[c05VRef(inp.Hash, inp.Index)] = true
			inSum.Add(inSum, integerToBig(u.Amount))
		}
	}
	for _, o := range tx.Outputs {
		a := integerToBig(o.Amount)
		if a.Sign() <= 0 {
			outsPositive = false
		}
		outSum.Add(outSum, a)
	}

	switch out {
	case "accept":
		res.Out = fmt.Sprintf("accept %s %s", inSum, outSum)
		res.Nontrivial = true
		res.Tags = append(res.Tags, fmt.Sprintf("accept:type-%02x", tt))
		if !resolved || !sameAsset || !outsPositive || !distinct || inSum.Sign() <= 0 || inSum.Cmp(outSum) != 0 {
			res.PropKey = "C01:conservation"
			res.PropDesc = fmt.Sprintf("accepted with inputs=%s outputs=%s resolved=%v sameAsset=%v outputsPositive=%v distinctInputs=%v", inSum, outSum, resolved, sameAsset, outsPositive, distinct)
		} else if why := c05CheckBoundAsset(s, ver, tt); why != "" {
			res.PropKey, res.PropDesc = "C01:asset-mismatch", why
		} else if why := c05CheckAuthorization(s, ver, hash, tt); why != "" {
			res.PropKey, res.PropDesc = "C02:unauthorized", why
		} else if why := c05TamperStream(s, ver, raw, fork, tt); why != "" {
			res.PropKey, res.PropDesc = "C02:tamper-accepted", why
		}
	case "reject":
		res.Out = "reject"
		res.Tags = append(res.Tags, "reject:"+c05ErrClass(verr))
	default:
		res.Out = out
		res.Tags = append(res.Tags, "panic:"+site)
		if consistent {
			res.PropKey = "C05:" + site
			res.PropDesc = "Validate panicked in " + site + ": " + msg
		}
	}
	if !consistent {
		res.Tags = append(res.Tags, "ledger:inconsistent")
	}
	if tx.AggregatedSignature != nil {
		res.Tags = append(res.Tags, "sig:aggregate")
	} else {
		res.Tags = append(res.Tags, fmt.Sprintf("sig:maps-%s", c05Bucket(len(tx.SignaturesMap))))
	}
	res.Tags = append(res.Tags, "inputs-"+c05Bucket(len(tx.Inputs)), "outputs-"+c05Bucket(len(tx.Outputs)))
	return res
}

func c05Bucket(n int) string {
	switch {
	case n == 0:
		return "0"
	case n == 1:
		return "1"
	case n <= 4:
		return "2-4"
	case n <= 32:
		return "5-32"
	case n < 256:
		return "33-255"
	}
	return "256"
}

func c05B2i(b bool) int {
	if b {
		return 1
	}
	return 0
}

// coarse error class for the histogram only (never compared)
func c05ErrClass(err error) string {
	if err == nil {
		return "nil"
	}
	m := err.Error()
	w := strings.Fields(m)
	n := 3
	if len(w) < n {
		n = len(w)
	}
	var keep []string
	for _, x := range w[:n] {
		if len(x) > 20 || strings.ContainsAny(x, "0123456789") {
			break
		}
		keep = append(keep, x)
	}
	if len(keep) == 0 {
		return "other"
	}
	return strings.Join(keep, "-")
}

// C02, independent of the model: every ordinary (script / node-remove typed) input of an
// accepted transaction carries at least its script threshold of distinct keys of its own key
// list with valid signatures over the payload hash.
func c05CheckAuthorization(s *c05VStore, ver *common.VersionedTransaction, hash crypto.Hash, tt uint8) string {
	tx := &ver.SignedTransaction
	if tt == common.TransactionTypeMint || tt == common.TransactionTypeDeposit {
		return ""
	}
	offset := 0
	var allKeys []*crypto.Key
	type need struct{ lo, hi, threshold, input int }
	var needs []need
	for i, inp := range tx.Inputs {
		u := s.utxos[c05VRef(inp.Hash, inp.Index)]
		if u == nil {
			return fmt.Sprintf("input %d does not resolve", i)
		}
		if u.Type == common.OutputTypeScript || u.Type == common.OutputTypeNodeRemove {
			if len(u.Script) != 3 {
				return fmt.Sprintf("input %d: malformed script accepted", i)
			}
			th := int(u.Script[2])
			if as := tx.AggregatedSignature; as != nil {
				needs = append(needs, need{offset, offset + len(u.Keys), th, i})
			} else {
				count := 0
				if i < len(tx.SignaturesMap) {
					for idx, sg := range tx.SignaturesMap[i] {
						if int(idx) < len(u.Keys) && sg != nil && u.Keys[idx].Verify(hash, *sg) {
							count++
						}
					}
				}
				if count < th {
					return fmt.Sprintf("input %d: %d valid signatures of own keys, threshold %d", i, count, th)
				}
			}
		}
		offset += len(u.Keys)
		allKeys = append(allKeys, u.Keys...)
	}
	if as := tx.AggregatedSignature; as != nil {
		total := 0
		for _, n := range needs {
			c := 0
			for _, m := range as.Signers {
				if m >= n.lo && m < n.hi {
					c++
				}
			}
			total += c
			if c < n.threshold {
				return fmt.Sprintf("input %d: %d aggregate signers in its key range, threshold %d", n.input, c, n.threshold)
			}
		}
		if total > 0 && crypto.AggregateVerify(&as.Signature, allKeys, as.Signers, hash) != nil {
			return "aggregate signature does not verify over the payload hash"
		}
		if total > 0 && !c05RefAggregateVerify(&as.Signature, allKeys, as.Signers, hash) {
			return "aggregate signature does not verify under the reference key aggregation (per-signer coefficients over domain, transcript, index, key)"
		}
	}
	return ""
}

// C02 tamper stream on the real crypto: flipping a payload byte or a signature byte of an
// accepted, signature-authorised transaction must not be accepted (threshold-zero inputs aside).
func c05TamperStream(s *c05VStore, ver *common.VersionedTransaction, raw []byte, fork bool, tt uint8) string {
	tx := &ver.SignedTransaction
	if tt == common.TransactionTypeMint {
		return ""
	}
	needsSig := tt == common.TransactionTypeDeposit
	for _, inp := range tx.Inputs {
		u := s.utxos[c05VRef(inp.Hash, inp.Index)]
		if u != nil && (u.Type == common.OutputTypeScript || u.Type == common.OutputTypeNodeRemove) && len(u.Script) == 3 && u.Script[2] > 0 {
			needsSig = true
		}
	}
	if !needsSig {
		return ""
	}
	payloadLen := len(ver.PayloadMarshal()) - 2 // the signature section replaces the trailing 00 00
	h := crypto.Blake3Hash(raw)
	r := NewRand(uint64(h[0]) | uint64(h[1])<<8 | uint64(h[2])<<16 | uint64(h[3])<<24)
	try := func(pos int, what string) string {
		mut := bytes.Clone(raw)
		mut[pos] ^= byte(1 << r.Intn(8))
		out, _, _ := c05CatchSite(func() string {
			v, err := common.UnmarshalVersionedTransaction(mut)
			if err != nil {
				return "undecodable"
			}
			if v.Validate(s, c05VSnapTime, fork) == nil {
				return "accept"
			}
			return "reject"
		})
		if out == "accept" {
			return fmt.Sprintf("flipping one bit of %s byte %d keeps the transaction accepted", what, pos)
		}
		return ""
	}
	for k := 0; k < 3; k++ {
		if payloadLen > 4 {
			if w := try(4+r.Intn(payloadLen-4), "payload"); w != "" {
				return w
			}
		}
	}
	// signature bytes: every 64-byte signature is located by searching its bytes in the tail
	var sigs [][]byte
	if as := tx.AggregatedSignature; as != nil {
		sigs = append(sigs, as.Signature[:])
	}
	for _, m := range tx.SignaturesMap {
		for _, i := range c05SortedIdx(m) {
			sigs = append(sigs, m[i][:])
		}
	}
	for k := 0; k < 3 && len(sigs) > 0; k++ {
		sg := sigs[r.Intn(len(sigs))]
		at := bytes.LastIndex(raw, sg)
		if at < payloadLen {
			continue
		}
		if w := try(at+r.Intn(64), "signature"); w != "" {
			return w
		}
	}
	return ""
}

// C01 "moves exactly one asset", independent of the model: an accepted deposit into an asset id
// that is already bound to a token names exactly that token (chain and key byte for byte)
func c05CheckBoundAsset(s *c05VStore, ver *common.VersionedTransaction, tt uint8) string {
	if tt != common.TransactionTypeDeposit || len(ver.Inputs) != 1 || ver.Inputs[0].Deposit == nil {
		return ""
	}
	a := s.assets[ver.Asset]
	if a == nil {
		return ""
	}
	d := ver.Inputs[0].Deposit
	if a.asset.Chain != d.Chain || !bytes.Equal([]byte(a.asset.AssetKey), []byte(d.AssetKey)) {
		return fmt.Sprintf("deposit of token (%s, %q) accepted into asset %s bound to (%s, %q)", d.Chain, d.AssetKey, ver.Asset, a.asset.Chain, a.asset.AssetKey)
	}
	return ""
}
