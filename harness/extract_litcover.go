package main

// Fact kind `litcover F`: every string literal of F paired with whether it occurs inside a string
// literal of some OTHER function of the same package (text matchers such as
// kernel.shouldRequeueSelfAnnouncement only work while the message they look for is still produced
// somewhere). Emitted as `List (String × Bool)`, sorted by literal.

import (
	"go/ast"
	"go/token"
	"sort"
	"strconv"
	"strings"
)

type litCover struct {
	Lit     string `json:"lit"`
	Covered bool   `json:"covered"`
}

func funcStringLits(fd *ast.FuncDecl) []string {
	var out []string
	ast.Inspect(fd.Body, func(n ast.Node) bool {
		if b, ok := n.(*ast.BasicLit); ok && b.Kind == token.STRING {
			if s, err := strconv.Unquote(b.Value); err == nil {
				out = append(out, s)
			}
		}
		return true
	})
	return out
}

func litcoverFact(fd *ast.FuncDecl, pi *pkgInfo) []litCover {
	var others []string
	for _, g := range pi.funcs {
		if g != fd && g.Body != nil {
			others = append(others, funcStringLits(g)...)
		}
	}
	seen := map[string]bool{}
	var out []litCover
	for _, l := range funcStringLits(fd) {
		if seen[l] {
			continue
		}
		seen[l] = true
		c := litCover{Lit: l}
		for _, o := range others {
			if strings.Contains(o, l) {
				c.Covered = true
				break
			}
		}
		out = append(out, c)
	}
	sort.Slice(out, func(i, j int) bool { return out[i].Lit < out[j].Lit })
	return out
}
