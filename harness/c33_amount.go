package main

// C33 — fixed-point amounts: real common.Integer / common.RationalNumber against
// lean/Mixin/Model/Amount.lean. Property mode recomputes every result with math/big
// (exact rational arithmetic followed by floor), independent of the model.

import (
	"fmt"
	"math/big"
	"strings"

	"github.com/MixinNetwork/mixin/common"
)

func integerFromBig(n *big.Int) common.Integer {
	b := n.Bytes()
	enc := []byte{byte(len(b) >> 8), byte(len(b))}
	enc = append(enc, b...)
	if len(b) == 0 {
		// bytes.Reader refuses a zero-length read at end of input: pad and ignore
		enc = append(enc, 0)
	}
	x, err := common.NewDecoder(enc).ReadInteger()
	if err != nil {
		panic("harness: integerFromBig: " + err.Error())
	}
	return x
}

func integerToBig(x common.Integer) *big.Int {
	enc := common.NewEncoder()
	enc.WriteInteger(x)
	return new(big.Int).SetBytes(enc.Bytes()[2:])
}

func parseBig(s string) *big.Int {
	n, ok := new(big.Int).SetString(s, 10)
	if !ok {
		panic("harness: bad integer in op line: " + s)
	}
	return n
}

var pow10_8 = big.NewInt(100000000)

// exact value of a decimal literal "[+-]digits[.digits][e[+-]digits]" times 10^8, floored;
// ok=false when the literal is outside that grammar or negative.
func oracleParse(s string) (*big.Int, bool) {
	exp := int64(0)
	if i := strings.IndexAny(s, "eE"); i >= 0 {
		es := s[i+1:]
		if !isSignedDigits(es) {
			return nil, false
		}
		e, ok := new(big.Int).SetString(es, 10)
		if !ok || !e.IsInt64() || e.Int64() > 1<<31-1 || e.Int64() < -(1<<31) {
			return nil, false
		}
		exp = e.Int64()
		s = s[:i]
	}
	if strings.Count(s, ".") > 1 {
		return nil, false
	}
	frac := ""
	if i := strings.IndexByte(s, '.'); i >= 0 {
		frac = s[i+1:]
		s = s[:i]
	}
	m := s + frac
	if !isSignedDigits(m) {
		return nil, false
	}
	exp -= int64(len(frac))
	if exp > 1<<31-1 || exp < -(1<<31) || exp+8 > 1<<31-1 {
		return nil, false
	}
	v, _ := new(big.Int).SetString(m, 10)
	if v.Sign() < 0 {
		return nil, false
	}
	r := new(big.Rat).SetInt(v)
	e := exp + 8
	p := new(big.Int).Exp(big.NewInt(10), big.NewInt(abs64(e)), nil)
	if e >= 0 {
		r.Mul(r, new(big.Rat).SetInt(p))
	} else {
		r.Quo(r, new(big.Rat).SetInt(p))
	}
	return new(big.Int).Quo(r.Num(), r.Denom()), true
}

func abs64(x int64) int64 {
	if x < 0 {
		return -x
	}
	return x
}

func isSignedDigits(s string) bool {
	if len(s) > 0 && (s[0] == '+' || s[0] == '-') {
		s = s[1:]
	}
	if len(s) == 0 {
		return false
	}
	for i := 0; i < len(s); i++ {
		if s[i] < '0' || s[i] > '9' {
			return false
		}
	}
	return true
}

// word boundaries of machine arithmetic: 2^31, 2^32, 2^63, 2^64, 2^128 (± small k)
func c33GenWordBoundary(r *Rand) *big.Int {
	k := uint(Pick(r, []int{31, 32, 63, 63, 64, 64, 64, 128}))
	n := new(big.Int).Lsh(big.NewInt(1), k)
	n.Add(n, big.NewInt(int64(r.Range(-3, 3))))
	return n
}

// a pair of operands, each below a word boundary, whose sum crosses it (or just fails to)
func c33GenCrossingPair(r *Rand) (*big.Int, *big.Int) {
	k := uint(Pick(r, []int{32, 63, 64, 64, 64, 128}))
	B := new(big.Int).Lsh(big.NewInt(1), k)
	a := new(big.Int).SetBytes(r.Bytes(int(k)/8 + 1))
	a.Mod(a, B)
	switch r.Intn(4) {
	case 0:
		a = new(big.Int).Rsh(B, 1)
	case 1:
		a = new(big.Int).Sub(B, big.NewInt(int64(r.Range(1, 3))))
	}
	b := new(big.Int).Sub(B, a)
	b.Add(b, big.NewInt(int64(r.Range(-2, 12))))
	if b.Sign() < 0 {
		b.SetInt64(0)
	}
	return a, b
}

func genAmount(r *Rand) *big.Int {
	if r.Chance(1, 8) {
		return c33GenWordBoundary(r)
	}
	switch r.Intn(10) {
	case 0:
		return big.NewInt(int64(r.Intn(3)))
	case 1:
		return new(big.Int).SetUint64(r.U64() % 1000000)
	case 2:
		return new(big.Int).SetUint64(r.U64())
	case 3: // around 2^(8k)
		k := uint(8 * r.Range(1, 65))
		n := new(big.Int).Lsh(big.NewInt(1), k)
		return n.Add(n, big.NewInt(int64(r.Range(-2, 2))))
	case 4: // around powers of ten
		n := new(big.Int).Exp(big.NewInt(10), big.NewInt(int64(r.Range(0, 40))), nil)
		return n.Add(n, big.NewInt(int64(r.Range(-1, 1)))).Abs(n)
	case 5:
		return new(big.Int).SetBytes(r.Bytes(r.Range(1, 65)))
	default:
		return new(big.Int).SetBytes(r.Bytes(r.Range(1, 12)))
	}
}

func genDigits(r *Rand, lo, hi int) string {
	n := r.Range(lo, hi)
	var sb strings.Builder
	for i := 0; i < n; i++ {
		if r.Chance(1, 4) {
			sb.WriteByte('0')
		} else {
			sb.WriteByte(byte('0' + r.Intn(10)))
		}
	}
	return sb.String()
}

// the Go code materialises 10^|exponent|: keep generated exponents small
func genDecimalString(r *Rand) string {
	for {
		s := genDecimalString0(r)
		if i := strings.IndexAny(s, "eE"); i >= 0 {
			e, ok := new(big.Int).SetString(s[i+1:], 10)
			if ok && e.IsInt64() && abs64(e.Int64()) > 2000 && abs64(e.Int64()) <= 1<<31 {
				continue
			}
		}
		return s
	}
}

func genDecimalString0(r *Rand) string {
	var sb strings.Builder
	switch r.Intn(12) {
	case 0:
		sb.WriteByte('-')
	case 1:
		sb.WriteByte('+')
	}
	sb.WriteString(genDigits(r, 0, Pick(r, []int{1, 3, 9, 17, 18, 19, 30})))
	if r.Chance(2, 3) {
		sb.WriteByte('.')
		sb.WriteString(genDigits(r, 0, Pick(r, []int{0, 1, 7, 8, 9, 12, 20})))
	}
	if r.Chance(1, 5) {
		sb.WriteByte(Pick(r, []byte{'e', 'E'}))
		switch r.Intn(4) {
		case 0:
			sb.WriteByte('-')
		case 1:
			sb.WriteByte('+')
		}
		if r.Chance(1, 20) {
			sb.WriteString(Pick(r, []string{"2147483648", "99999999999", "", "1_0", "+"}))
		} else {
			sb.WriteString(fmt.Sprint(r.Intn(40)))
		}
	}
	s := sb.String()
	if r.Chance(1, 12) { // garbage mutation
		b := []byte(s)
		if len(b) == 0 {
			return Pick(r, []string{"", ".", "e", "-", "+", "_", " 1", "1 ", "0x10", "1_000", "1..2", "1.2.3", "١"})
		}
		b[r.Intn(len(b))] = Pick(r, []byte{'.', 'e', '-', '+', '_', ' ', 'x', 'a', 0xd9, 'E'})
		s = string(b)
	}
	return s
}

func init() {
	Register(&Subsystem{
		Name: "amount",
		Rule: "random operations on common.Integer/RationalNumber with operands 0..2^520 biased to byte-length and " +
			"power-of-ten boundaries, and decimal strings over the grammar [sign]digits[.digits][e[sign]digits] with " +
			"~8% garbage mutations; non-trivial = the real code returned a value (did not panic); distinct = distinct op line",
		Corpus: [][]string{
			{"parse " + Hex([]byte("-0")), "parse " + Hex([]byte("1e-9")), "parse " + Hex([]byte(".5")),
				"parse " + Hex([]byte("5.")), "parse " + Hex([]byte("")), "parse " + Hex([]byte("0.123456789")),
				"parse " + Hex([]byte("1e2147483648")), "count 184467440737095516160000 1", "count 18446744073709551615 1"},
		},
		Gen: func(r *Rand, i int, tier string) []string {
			a, b := genAmount(r), genAmount(r)
			k := int64(r.Range(-3, 1000))
			if r.Chance(1, 5) {
				k = int64(int32(r.U64()))
			}
			switch r.Intn(15) {
			case 14:
				return []string{"json " + a.String()}
			case 0, 1, 2:
				return []string{"parse " + Hex([]byte(genDecimalString(r)))}
			case 3:
				return []string{"print " + a.String()}
			case 4:
				if r.Chance(1, 3) {
					a, b = c33GenCrossingPair(r)
				}
				return []string{"add " + a.String() + " " + b.String()}
			case 5:
				if r.Chance(1, 4) { // difference across a word boundary
					x, y := c33GenCrossingPair(r)
					a, b = new(big.Int).Add(x, y), y
				}
				if r.Bool() && a.Cmp(b) < 0 {
					a, b = b, a
				}
				return []string{"sub " + a.String() + " " + b.String()}
			case 6:
				return []string{fmt.Sprintf("mul %s %d", a, k)}
			case 7:
				return []string{fmt.Sprintf("div %s %d", a, k)}
			case 8:
				if r.Bool() && a.Cmp(b) < 0 {
					a, b = b, a
				}
				if r.Chance(1, 6) {
					b = big.NewInt(int64(r.Range(0, 3)))
				}
				return []string{"count " + a.String() + " " + b.String()}
			case 9:
				return []string{"cmp " + a.String() + " " + b.String(), "sign " + a.String()}
			case 10, 11:
				return []string{"product " + a.String() + " " + b.String() + " " + genAmount(r).String()}
			case 12:
				return []string{"rcmp " + a.String() + " " + b.String() + " " + genAmount(r).String() + " " + genAmount(r).String()}
			default:
				return []string{fmt.Sprintf("ofuint %d", r.U64())}
			}
		},
		Exec: execAmount,
	})
}

func execAmount(_ *State, line string) Result {
	t := strings.Fields(line)
	res := Result{Tags: []string{t[0]}}
	c33Operands = c33Operands[:0]
	var want *big.Int // property oracle: exact arithmetic, nil = must panic
	wantSet := false
	out, panicked, _ := Catch(func() string {
		switch t[0] {
		case "parse":
			s := string(UnHex(t[1]))
			want, _ = oracleParse(s)
			wantSet = true
			return "ok " + integerToBig(common.NewIntegerFromString(s)).String()
		case "print":
			n := parseBig(t[1])
			s := c33Operand(n).String()
			// property: printing then parsing gives the value back, and the text is normalised
			back, ok := oracleParse(s)
			if !ok || back.Cmp(n) != 0 || !normalForm(s) {
				res.PropKey, res.PropDesc = "C33:print-parse", fmt.Sprintf("print(%s)=%q does not parse back / not normal", n, s)
			}
			if integerToBig(common.NewIntegerFromString(s)).Cmp(n) != 0 {
				res.PropKey, res.PropDesc = "C33:print-parse", fmt.Sprintf("NewIntegerFromString(String(%s)) differs", n)
			}
			return "ok " + Hex([]byte(s))
		case "json":
			n := parseBig(t[1])
			b, err := c33Operand(n).MarshalJSON()
			if err != nil {
				return "error"
			}
			var y common.Integer
			if err := y.UnmarshalJSON(b); err != nil {
				return "error"
			}
			if integerToBig(y).Cmp(n) != 0 {
				res.PropKey, res.PropDesc = "C33:print-parse", fmt.Sprintf("JSON round trip of %s gives %s", n, integerToBig(y))
			}
			return "ok " + Hex(b) + " " + integerToBig(y).String()
		case "ofuint":
			var u uint64
			fmt.Sscan(t[1], &u)
			want = new(big.Int).Mul(new(big.Int).SetUint64(u), pow10_8)
			wantSet = true
			return "ok " + integerToBig(common.NewInteger(u)).String()
		case "add", "sub", "count", "cmp":
			a, b := parseBig(t[1]), parseBig(t[2])
			x, y := c33Operand(a), c33Operand(b)
			wantSet = true
			switch t[0] {
			case "add":
				if b.Sign() > 0 {
					want = new(big.Int).Add(a, b)
				}
				return "ok " + integerToBig(x.Add(y)).String()
			case "sub":
				if b.Sign() > 0 && a.Cmp(b) >= 0 {
					want = new(big.Int).Sub(a, b)
				}
				return "ok " + integerToBig(x.Sub(y)).String()
			case "count":
				if a.Sign() > 0 && b.Sign() > 0 && a.Cmp(b) >= 0 {
					q := new(big.Int).Quo(a, b)
					if q.IsUint64() {
						want = q
					}
				}
				return fmt.Sprintf("ok %d", x.Count(y))
			default:
				want = big.NewInt(int64(a.Cmp(b)))
				return fmt.Sprintf("ok %d", x.Cmp(y))
			}
		case "sign":
			a := parseBig(t[1])
			want, wantSet = big.NewInt(int64(a.Sign())), true
			return fmt.Sprintf("ok %d", c33Operand(a).Sign())
		case "mul", "div":
			a := parseBig(t[1])
			var k int64
			fmt.Sscan(t[2], &k)
			wantSet = true
			if k > 0 {
				if t[0] == "mul" {
					want = new(big.Int).Mul(a, big.NewInt(k))
				} else {
					want = new(big.Int).Quo(a, big.NewInt(k))
				}
			}
			if t[0] == "mul" {
				return "ok " + integerToBig(c33Operand(a).Mul(int(k))).String()
			}
			return "ok " + integerToBig(c33Operand(a).Div(int(k))).String()
		case "product":
			a, b, z := parseBig(t[1]), parseBig(t[2]), parseBig(t[3])
			wantSet = true
			if b.Sign() > 0 {
				want = new(big.Int).Quo(new(big.Int).Mul(z, a), b)
			}
			return "ok " + integerToBig(c33Operand(a).Ration(c33Operand(b)).Product(c33Operand(z))).String()
		case "rcmp":
			a, b, c, d := parseBig(t[1]), parseBig(t[2]), parseBig(t[3]), parseBig(t[4])
			wantSet = true
			if b.Sign() > 0 && d.Sign() > 0 {
				want = big.NewInt(int64(new(big.Rat).SetFrac(a, b).Cmp(new(big.Rat).SetFrac(c, d))))
			}
			return fmt.Sprintf("ok %d", c33Operand(a).Ration(c33Operand(b)).Cmp(c33Operand(c).Ration(c33Operand(d))))
		}
		panic("harness: unknown op " + t[0])
	})
	res.Out = out
	res.Nontrivial = !panicked
	// operands are values: no operation may change the amount it was applied to
	for _, o := range c33Operands {
		if integerToBig(o.x).Cmp(o.n) != 0 && res.PropKey == "" {
			res.PropKey, res.PropDesc = "C33:operand-mutated", "operation changed its operand: "+line+" left operand "+o.n.String()+" as "+integerToBig(o.x).String()
		}
	}
	if panicked {
		res.Tags = append(res.Tags, t[0]+":panic")
	}
	if wantSet && res.PropKey == "" {
		if want == nil && !panicked {
			res.PropKey, res.PropDesc = "C33:accepts-undocumented", "operation accepted operands that exact arithmetic rejects: "+line+" -> "+out
		} else if want != nil && panicked {
			res.PropKey, res.PropDesc = "C33:rejects-valid", "operation failed on valid operands: "+line
		} else if want != nil && out != "ok "+want.String() {
			res.PropKey, res.PropDesc = "C33:inexact", "result differs from exact arithmetic: "+line+" -> "+out+" want "+want.String()
		}
	}
	return res
}

// normalised text: integer part without superfluous leading zeros, exactly eight fractional digits
func normalForm(s string) bool {
	i := strings.IndexByte(s, '.')
	if i <= 0 || len(s)-i-1 != 8 {
		return false
	}
	if i > 1 && s[0] == '0' {
		return false
	}
	return isSignedDigits(s[:i]) && isSignedDigits(s[i+1:]) && s[0] != '+' && s[0] != '-'
}

// c33Operands records every Integer handed to the code under test in one op together with
// its value, so that execAmount can check afterwards that operands were not mutated
// (common.Integer wraps a big.Int whose storage is shared by value copies).
var c33Operands []struct {
	x common.Integer
	n *big.Int
}

func c33Operand(n *big.Int) common.Integer {
	x := integerFromBig(n)
	c33Operands = append(c33Operands, struct {
		x common.Integer
		n *big.Int
	}{x, new(big.Int).Set(n)})
	return x
}
