package main

import (
	"go/ast"
	"go/token"
	"sort"
	"strings"
)

// lockOrderFact (kind `lockorder`): for functions that compute something from their arguments
// before taking the mutex. Result "<mutex>.Lock;defer;prelock=<f1,f2>" where prelock lists the
// fields of the mutex owner (selectors rooted at the same identifier) that are mentioned in the
// statements before the Lock call — empty when the guarded state is only touched under the lock.
// "<mutex>.Lock;nodefer;…" when the statement after the Lock is not `defer <mutex>.Unlock()`;
// "none" when no top-level statement takes a lock.
func lockOrderFact(fset *token.FileSet, fd *ast.FuncDecl) string {
	st := fd.Body.List
	for k, s := range st {
		es, ok := s.(*ast.ExprStmt)
		if !ok {
			continue
		}
		call, ok := es.X.(*ast.CallExpr)
		if !ok {
			continue
		}
		sel, ok := call.Fun.(*ast.SelectorExpr)
		if !ok || (sel.Sel.Name != "Lock" && sel.Sel.Name != "RLock") {
			continue
		}
		mu := exprString(fset, sel.X)
		root := mu
		if i := strings.IndexByte(root, '.'); i >= 0 {
			root = root[:i]
		}
		res := mu + "." + sel.Sel.Name
		deferred := false
		if k+1 < len(st) {
			if ds, ok := st[k+1].(*ast.DeferStmt); ok {
				if s2, ok := ds.Call.Fun.(*ast.SelectorExpr); ok && exprString(fset, s2.X) == mu &&
					(s2.Sel.Name == "Unlock" || s2.Sel.Name == "RUnlock") {
					deferred = true
				}
			}
		}
		if deferred {
			res += ";defer"
		} else {
			res += ";nodefer"
		}
		seen := map[string]bool{}
		for _, p := range st[:k] {
			ast.Inspect(p, func(n ast.Node) bool {
				if se, ok := n.(*ast.SelectorExpr); ok {
					if id, ok := se.X.(*ast.Ident); ok && id.Name == root {
						seen[se.Sel.Name] = true
					}
				}
				return true
			})
		}
		var fields []string
		for f := range seen {
			fields = append(fields, f)
		}
		sort.Strings(fields)
		return res + ";prelock=" + strings.Join(fields, ",")
	}
	return "none"
}
