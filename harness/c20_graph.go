package main

// C20 — round links: the real kernel transition functions (startNewRoundAndPersist →
// validateNewRound → updateExternal → storage.StartNewRound, updateEmptyHeadRoundAndPersist →
// storage.UpdateEmptyHeadRound) of a real kernel.Node over a real BadgerStore (generated
// 7-node genesis in a scratch directory) against lean/Mixin/Model/Graph.lean.
//
// Op lines are symbolic (the generator cannot know hashes); Exec resolves them against the
// running node and hands the resolved line to the model:
//
//	reset ; init                               fresh node; init hands the genesis state to the model
//	snap  <c>                                  one more snapshot in the in-memory cache round of chain c
//	start <c> <self> <ext> <finalized> <ts>    startNewRoundAndPersist
//	empty <c> <self> <ext> <strict> <ts>       updateEmptyHeadRoundAndPersist
//	   self: cur | prev | junk       ext: f:<chain>:<back> | h:<chain> | u:<n> | z       ts: now | early
//
// Property mode (independent of the model), after every operation:
//   C20:new-round-commit           accepted start: new head commits to the closed round's hash, number + 1
//   C20:external-names-live-round  the stored external reference is not a closed round of another node
//   C20:link-decreased             some durable LINK[a→b] went down
//   C20:mirror-diverged            in-memory RoundLinks differ from the durable links (or the guard panicked)
//   C20:rejected-changed-state     a rejected transition changed the observable state

import (
	"encoding/json"
	"fmt"
	"math/big"
	"os"
	"path/filepath"
	"strconv"
	"strings"
	"time"

	"github.com/MixinNetwork/mixin/common"
	"github.com/MixinNetwork/mixin/config"
	"github.com/MixinNetwork/mixin/crypto"
	"github.com/MixinNetwork/mixin/kernel"
	"github.com/MixinNetwork/mixin/storage"
	"github.com/dgraph-io/ristretto/v2"
)

type c20State struct {
	store  *storage.BadgerStore
	cache  *ristretto.Cache[[]byte, any]
	node   *kernel.Node
	ids    []crypto.Hash
	chains []*kernel.Chain
	finals [][]crypto.Hash // closed round hashes per chain, oldest first
	links  map[[2]int]uint64
	base   uint64
	seq    uint64
	dead   bool
	n      int
}

const c20Epoch = 1700000000

var c20Counter int
var c20Prev *c20State
var c20PrevDir string

func c20Addr(seed string) *common.Address {
	s := crypto.Blake3Hash([]byte("c20-" + seed))
	a := common.NewAddressFromSeed(append(s[:], s[:]...))
	a.PrivateViewKey = a.PublicSpendKey.DeterministicHashDerive()
	a.PublicViewKey = a.PrivateViewKey.Public()
	return &a
}

func c20Dec(h crypto.Hash) string { return new(big.Int).SetBytes(h[:]).String() }

func c20Close(cs *c20State) {
	if cs == nil || cs.store == nil {
		return
	}
	cs.store.Close()
	cs.cache.Close()
	cs.store = nil
}

// The snapshots DB is opened with SyncWrites: on a busy disk one open + genesis load stalls for
// seconds. Prefer a memory-backed directory; it is removed at the next reset, and directories of
// dead harness processes are swept.
func c20ScratchDir(st *State) string {
	root := st.Dir
	if fi, err := os.Stat("/dev/shm"); err == nil && fi.IsDir() {
		ents, _ := os.ReadDir("/dev/shm")
		for _, e := range ents {
			var pid int
			if n, _ := fmt.Sscanf(e.Name(), "verif-c20-%d", &pid); n == 1 && pid != os.Getpid() {
				if _, err := os.Stat(fmt.Sprintf("/proc/%d", pid)); err != nil {
					os.RemoveAll(filepath.Join("/dev/shm", e.Name()))
				}
			}
		}
		root = fmt.Sprintf("/dev/shm/verif-c20-%d", os.Getpid())
	}
	if c20PrevDir != "" {
		os.RemoveAll(c20PrevDir)
	}
	dir := filepath.Join(root, fmt.Sprintf("c20-%d", c20Counter))
	if err := os.MkdirAll(dir, 0o755); err != nil {
		panic(err)
	}
	c20PrevDir = dir
	return dir
}

func c20Setup(st *State) *c20State {
	c20Close(c20Prev) // main.go clears State.V on "reset": keep the handle here
	c20Counter++
	dir := c20ScratchDir(st)
	type gn struct {
		Signer    string `json:"signer"`
		Payee     string `json:"payee"`
		Custodian string `json:"custodian"`
		Balance   string `json:"balance"`
	}
	var nodes []gn
	for i := 0; i < 7; i++ {
		nodes = append(nodes, gn{c20Addr(fmt.Sprint("s", i)).String(), c20Addr(fmt.Sprint("p", i)).String(),
			c20Addr(fmt.Sprint("c", i)).String(), "13439"})
	}
	// fixed epoch and clock offsets: every hash of a case is reproducible (replays carry resolved lines)
	now := time.Unix(c20Epoch+3600, 0)
	g := map[string]any{"epoch": c20Epoch, "nodes": nodes, "custodian": c20Addr("custodian").String()}
	b, _ := json.Marshal(g)
	must := func(err error) {
		if err != nil {
			panic("harness: c20 setup: " + err.Error())
		}
	}
	must(os.WriteFile(dir+"/genesis.json", b, 0o644))
	cfg := fmt.Sprintf("[node]\nsigner-key = \"%s\"\nconsensus-only = true\nmemory-cache-size = 16\ncache-ttl = 7200\nring-cache-size = 4096\nring-final-size = 16384\n[network]\nlistener = \"mixin-node.example.com:7239\"\n",
		c20Addr("s0").PrivateSpendKey.String())
	must(os.WriteFile(dir+"/config.toml", []byte(cfg), 0o644))
	custom, err := config.Initialize(dir + "/config.toml")
	must(err)
	gns, err := common.ReadGenesis(dir + "/genesis.json")
	must(err)
	cache, err := ristretto.NewCache(&ristretto.Config[[]byte, any]{NumCounters: 1e4, MaxCost: 1 << 20, BufferItems: 64})
	must(err)
	store, err := storage.NewBadgerStore(custom, dir)
	must(err)
	kernel.VerifDisableChainLoops(true)
	node, err := kernel.SetupNode(custom, store, cache, gns)
	must(err)
	cs := &c20State{store: store, cache: cache, node: node, links: map[[2]int]uint64{},
		base: uint64(now.UnixNano()) - uint64(60*time.Second)}
	cs.ids = node.ReadAllNodesWithoutState()
	for _, id := range cs.ids {
		ch := node.BootChain(id)
		if ch.State == nil {
			panic("harness: c20 setup: chain without state")
		}
		cs.chains = append(cs.chains, ch)
		cs.finals = append(cs.finals, []crypto.Hash{ch.State.FinalRound.Hash})
	}
	cs.n = len(cs.ids)
	st.V["c20"] = cs
	c20Prev = cs
	return cs
}

func c20RecTokens(key crypto.Hash, r *common.Round) string {
	hr, sf, ex := "0", crypto.Hash{}, crypto.Hash{}
	if r.References != nil {
		hr, sf, ex = "1", r.References.Self, r.References.External
	}
	return fmt.Sprintf(" %s %s %s %d %d %s %s %s", Hex(key[:]), Hex(r.Hash[:]), Hex(r.NodeId[:]), r.Number, r.Timestamp, hr, Hex(sf[:]), Hex(ex[:]))
}

func c20ResetLine(cs *c20State) string {
	var sb strings.Builder
	fmt.Fprintf(&sb, "init %d", cs.n)
	recs, m := "", 0
	for i, ch := range cs.chains {
		c, f := ch.StateCopy()
		fmt.Fprintf(&sb, " %s %d %s %d %d %s %s", Hex(cs.ids[i][:]), f.Number, Hex(f.Hash[:]), f.Start, c.Number,
			Hex(c.References.Self[:]), Hex(c.References.External[:]))
		for _, k := range []crypto.Hash{cs.ids[i], f.Hash} {
			r, err := cs.store.ReadRound(k)
			if err != nil || r == nil {
				panic("harness: c20 reset: missing genesis round")
			}
			recs += c20RecTokens(k, r)
			m++
		}
	}
	fmt.Fprintf(&sb, " %d%s", m, recs)
	return sb.String()
}

func c20Dump(cs *c20State, i int) string {
	ch := cs.chains[i]
	c, f := ch.StateCopy()
	closing := "-"
	if fr := c.VerifAsFinal(); fr != nil {
		closing = c20Dec(fr.Hash)
	}
	mem, dur := "", ""
	ml := ch.VerifRoundLinks()
	for _, id := range cs.ids {
		mem += fmt.Sprintf(" %d", ml[id])
		l, err := cs.store.ReadLink(cs.ids[i], id)
		if err != nil {
			panic(err)
		}
		dur += fmt.Sprintf(" %d", l)
	}
	head := "-"
	if r, _ := cs.store.ReadRound(cs.ids[i]); r != nil {
		if r.References == nil {
			head = fmt.Sprintf("%d - -", r.Number)
		} else {
			head = fmt.Sprintf("%d %s %s", r.Number, c20Dec(r.References.Self), c20Dec(r.References.External))
		}
	}
	rec := "-"
	if r, _ := cs.store.ReadRound(f.Hash); r != nil {
		rec = fmt.Sprintf("%d %d %s", r.Number, r.Timestamp, c20Dec(r.NodeId))
	}
	return fmt.Sprintf("F %d %s %d C %d %s %s %s L%s H %s D%s R %s", f.Number, c20Dec(f.Hash), f.Start, c.Number,
		c20Dec(c.References.Self), c20Dec(c.References.External), closing, mem, head, dur, rec)
}

// the property's own observables on the real node; returns key, description
func c20Property(cs *c20State, i int, accepted bool, prevClosing *kernel.FinalRound, isStart bool) (string, string) {
	ch := cs.chains[i]
	c, f := ch.StateCopy()
	head, err := cs.store.ReadRound(cs.ids[i])
	if err != nil || head == nil {
		return "C20:new-round-commit", "head round record missing"
	}
	if accepted && isStart {
		if prevClosing == nil || head.References == nil || head.References.Self != prevClosing.Hash ||
			head.Number != prevClosing.Number+1 || c.Number != head.Number || f.Hash != prevClosing.Hash ||
			c.References.Self != prevClosing.Hash {
			return "C20:new-round-commit", "the new round does not commit to the hash of the closed round with number + 1"
		}
		fr, _ := cs.store.ReadRound(prevClosing.Hash)
		if fr == nil || fr.Number != prevClosing.Number || fr.NodeId != cs.ids[i] {
			return "C20:new-round-commit", "the closed round is not stored under its hash"
		}
	}
	// durable links never decrease; mirror
	ml := ch.VerifRoundLinks()
	for j, id := range cs.ids {
		l, _ := cs.store.ReadLink(cs.ids[i], id)
		if l < cs.links[[2]int{i, j}] {
			return "C20:link-decreased", fmt.Sprintf("LINK[%d→%d] went from %d to %d", i, j, cs.links[[2]int{i, j}], l)
		}
		cs.links[[2]int{i, j}] = l
	}
	for j, id := range cs.ids {
		l, _ := cs.store.ReadLink(cs.ids[i], id)
		if j != i && ml[id] != l {
			return "C20:mirror-diverged", fmt.Sprintf("chain %d: in-memory link to %d is %d, durable link is %d", i, j, ml[id], l)
		}
	}
	if accepted {
		ext, _ := cs.store.ReadRound(head.References.External)
		if ext == nil {
			return "C20:external-names-live-round", "the stored external reference names no stored round"
		}
		if ext.NodeId == cs.ids[i] {
			return "C20:external-names-live-round", "the stored external reference names a round of the chain itself"
		}
		if ext.Hash == ext.NodeId {
			return "C20:external-names-live-round", fmt.Sprintf("the stored external reference of chain %d is the node id of another chain: it names that chain's live head round (number %d), not a closed round", i, ext.Number)
		}
	}
	return "", ""
}

func c20Exec(st *State, line string) Result {
	f := strings.Fields(line)
	if len(f) == 0 {
		return Result{Out: "bad-op"}
	}
	if f[0] == "reset" {
		if len(f) != 1 {
			return Result{Out: "bad-op"}
		}
		c20Setup(st)
		return Result{Out: "ok"}
	}
	cs, _ := st.V["c20"].(*c20State)
	if cs == nil {
		return Result{Out: "bad-op"}
	}
	if f[0] == "init" { // arguments (present in a replayed, resolved line) are recomputed
		return Result{Out: "ok", LeanIn: c20ResetLine(cs)}
	}
	if len(f) < 2 {
		return Result{Out: "bad-op"}
	}
	// a chain is named by its index (generated lines) or by its id (resolved lines of a replay)
	concrete := len(f[1]) == 64
	i := -1
	if concrete {
		for k, id := range cs.ids {
			if Hex(id[:]) == f[1] {
				i = k
			}
		}
	} else if k, err := strconv.Atoi(f[1]); err == nil && k < cs.n {
		i = k
	}
	if i < 0 {
		return Result{Out: "bad-op"}
	}
	if cs.dead {
		return Result{Out: "dead", LeanIn: "dead"}
	}
	ch := cs.chains[i]
	idHex := Hex(cs.ids[i][:])
	switch f[0] {
	case "snap":
		if (!concrete && len(f) != 2) || (concrete && len(f) != 4) {
			return Result{Out: "bad-op"}
		}
		cs.seq++
		c, _ := ch.StateCopy()
		s := &common.Snapshot{Version: common.SnapshotVersionCommonEncoding, NodeId: cs.ids[i], RoundNumber: c.Number,
			Timestamp: cs.base + cs.seq}
		s.Hash = crypto.Blake3Hash([]byte(fmt.Sprintf("c20-snap-%d-%d", i, cs.seq)))
		ch.VerifAppendCacheSnapshot(s)
		c, _ = ch.StateCopy()
		fr := c.VerifAsFinal()
		return Result{Out: "ok " + c20Dump(cs, i), LeanIn: fmt.Sprintf("snap %s %s %d", idHex, Hex(fr.Hash[:]), fr.Start),
			Tags: []string{"snap"}}
	case "start", "empty":
		if (!concrete && len(f) != 6) || (concrete && len(f) != 7) || (f[4] != "0" && f[4] != "1") {
			return Result{Out: "bad-op"}
		}
		isStart := f[0] == "start"
		c, fin := ch.StateCopy()
		closing := c.VerifAsFinal()
		var self, ext crypto.Hash
		var ts uint64
		extClass := ""
		if concrete {
			sb, eb := UnHex(f[2]), UnHex(f[3])
			t, err := strconv.ParseUint(f[6], 10, 64)
			if len(sb) != 32 || len(eb) != 32 || err != nil {
				return Result{Out: "bad-op"}
			}
			copy(self[:], sb)
			copy(ext[:], eb)
			ts, extClass = t, "resolved"
			f = []string{f[0], f[1], "resolved", "resolved", f[4], "resolved"}
		}
		switch f[2] {
		case "resolved":
		case "cur":
			if !isStart {
				self = c.References.Self
			} else if closing != nil {
				self = closing.Hash
			} else {
				self = fin.Hash
			}
		case "prev":
			self = fin.Hash
		case "junk":
			self = crypto.Blake3Hash([]byte("c20-junk-self"))
		default:
			return Result{Out: "bad-op"}
		}
		p := strings.Split(f[3], ":")
		switch {
		case p[0] == "resolved":
		case p[0] == "f" && len(p) == 3:
			j, e1 := strconv.Atoi(p[1])
			k, e2 := strconv.Atoi(p[2])
			if e1 != nil || e2 != nil || j < 0 || j >= cs.n || k < 0 {
				return Result{Out: "bad-op"}
			}
			fl := cs.finals[j]
			if k >= len(fl) {
				k = len(fl) - 1
			}
			ext = fl[len(fl)-1-k]
			extClass = "closed-round"
			if j == i {
				extClass = "own-closed-round"
			} else if k > 0 {
				extClass = "older-closed-round"
			}
		case p[0] == "h" && len(p) == 2:
			j, e1 := strconv.Atoi(p[1])
			if e1 != nil || j < 0 || j >= cs.n {
				return Result{Out: "bad-op"}
			}
			ext = cs.ids[j]
			extClass = "node-id"
			if j == i {
				extClass = "own-node-id"
			}
		case p[0] == "u" && len(p) == 2:
			ext = crypto.Blake3Hash([]byte("c20-unknown-" + p[1]))
			extClass = "unknown"
		case p[0] == "z" && len(p) == 1:
			extClass = "zero"
		default:
			return Result{Out: "bad-op"}
		}
		switch f[5] {
		case "resolved":
		case "now":
			cs.seq++
			ts = cs.base + cs.seq
		case "early":
			ts = cs.base - uint64(3*time.Hour)
		default:
			return Result{Out: "bad-op"}
		}
		flag := f[4] == "1"
		refs := &common.RoundLink{Self: self, External: ext}
		before := c20Dump(cs, i)
		var errText string
		var dummy, started bool
		out, panicked, pmsg := Catch(func() string {
			var err error
			if isStart {
				started, dummy, err = ch.VerifStartNewRoundAndPersist(refs, ts, flag)
				if err == nil && !started {
					err = fmt.Errorf("not started")
				}
			} else {
				err = ch.VerifUpdateEmptyHeadRoundAndPersist(refs, ts, flag)
			}
			if err != nil {
				errText = err.Error()
				return "err"
			}
			if dummy {
				return "ok-dummy"
			}
			return "ok"
		})
		oracle := "1"
		if strings.HasPrefix(errText, "external reference sanity") || strings.Contains(errText, "too early") {
			oracle = "0"
		}
		res := Result{LeanIn: fmt.Sprintf("%s %s %s %s %s %s %d", f[0], idHex, Hex(self[:]), Hex(ext[:]), f[4], oracle, ts)}
		mode := "finalized"
		if (isStart && !flag) || (!isStart && flag) {
			mode = "strict"
		}
		tag := fmt.Sprintf("%s(%s,ext=%s):", f[0], mode, extClass)
		if panicked {
			cs.dead = true
			res.Out = "panic"
			res.Tags = []string{tag + "panic"}
			if strings.Contains(pmsg, "should never be here") {
				res.PropKey, res.PropDesc = "C20:mirror-diverged", "updateExternal's guard panicked: durable link differs from the in-memory link: "+pmsg
			}
			return res
		}
		after := c20Dump(cs, i)
		res.Out = out + " " + after
		res.Nontrivial = true
		switch out {
		case "err":
			cls := "other"
			for _, kv := range [][2]string{{"not collected yet", "not-collected"}, {"not match yet", "self-mismatch"},
				{"external reference self", "self-reference"}, {"back link", "back-link"}, {"sanity", "strict-sanity"},
				{"too early", "strict-too-early"}, {"references not empty", "head-not-empty"}, {"self diff", "self-mismatch"},
				{"not ready yet", "not-collected"}} {
				if strings.Contains(errText, kv[0]) {
					cls = kv[1]
					break
				}
			}
			res.Tags = []string{tag + "reject:" + cls}
			if before != after {
				res.PropKey, res.PropDesc = "C20:rejected-changed-state", "a rejected transition changed chain state or store"
			}
		default:
			res.Tags = []string{tag + out}
			if isStart {
				cs.finals[i] = append(cs.finals[i], ch.State.FinalRound.Hash)
			}
		}
		if res.PropKey == "" {
			res.PropKey, res.PropDesc = c20Property(cs, i, out != "err", closing, isStart)
		}
		return res
	}
	return Result{Out: "bad-op"}
}

func c20Gen(r *Rand, i int, tier string) []string {
	lines := []string{"reset", "init"}
	n := r.Range(25, 45)
	active := r.Range(2, 4) // chains that are driven; all 7 can be referenced
	hostile := r.Chance(1, 3) // cases that present node ids as external references
	genExt := func(c int) string {
		x := r.Intn(100)
		switch {
		case x < 62:
			j := r.Intn(active + 1)
			if j == c && r.Chance(4, 5) {
				j = (j + 1) % 7
			}
			return fmt.Sprintf("f:%d:%d", j, Pick(r, []int{0, 0, 0, 0, 1, 1, 2, 5}))
		case x < 74:
			return fmt.Sprintf("f:%d:%d", r.Intn(7), r.Intn(3))
		case x < 86:
			return fmt.Sprintf("u:%d", r.Intn(4))
		case x < 89:
			return "z"
		default:
			if hostile {
				j := r.Intn(active + 1)
				return fmt.Sprintf("h:%d", j)
			}
			return fmt.Sprintf("f:%d:0", (c+1+r.Intn(6))%7)
		}
	}
	for k := 0; k < n; k++ {
		c := r.Intn(active)
		ts := "now"
		if r.Chance(1, 12) {
			ts = "early"
		}
		switch x := r.Intn(100); {
		case x < 30:
			lines = append(lines, fmt.Sprintf("snap %d", c))
		case x < 72:
			self := "cur"
			if r.Chance(1, 10) {
				self = Pick(r, []string{"prev", "junk"})
			}
			if r.Chance(1, 2) { // the productive pair: close and move on
				lines = append(lines, fmt.Sprintf("snap %d", c))
			}
			lines = append(lines, fmt.Sprintf("start %d %s %s %d %s", c, self, genExt(c), r.Intn(2), ts))
		default:
			self := "cur"
			if r.Chance(1, 10) {
				self = "junk"
			}
			lines = append(lines, fmt.Sprintf("empty %d %s %s %d %s", c, self, genExt(c), r.Intn(2), ts))
		}
	}
	return lines
}

func init() {
	Register(&Subsystem{
		Name: "graph",
		Rule: "case = one fresh 7-chain node on a real BadgerStore, then 25..45 transitions on 2..4 driven chains: in-memory snapshots, round starts (strict and finalized path) and empty-head reference updates whose external reference is the latest/older closed round of another chain, a closed round of the chain itself, another chain's node id, an unknown hash or zero, with the right/previous/junk self reference and an on-time or too-early round time; non-trivial = every start/empty transition",
		Gen:  c20Gen,
		Exec: c20Exec,
		Corpus: [][]string{
			{ // plain progress, stale and self references
				"reset", "init", "start 0 cur f:1:0 1 now", "snap 0", "start 0 junk f:1:0 1 now", "start 0 cur f:0:0 1 now",
				"start 0 cur f:2:0 0 now", "snap 1", "start 1 cur f:0:0 1 now", "empty 0 cur f:1:0 0 now",
				"empty 0 cur f:1:1 0 now", "snap 0", "empty 0 cur f:1:0 0 now", "start 0 cur u:1 0 now",
				"start 0 cur u:1 1 now", "empty 0 cur f:1:0 1 now",
			},
			{ // finding: a node id as external reference names the live head round …
				"reset", "init", "snap 0", "start 0 cur h:1 1 now",
				// … and the dummy branch then re-reads that moving record: the links diverge and the guard panics
				"snap 1", "start 1 cur f:2:0 1 now", "snap 1", "start 1 cur f:2:0 1 now",
				"snap 0", "start 0 cur u:9 1 now", "snap 0", "start 0 cur f:1:0 1 now",
			},
		},
	})
}
