package main

// C26 — round work: real storage.BadgerStore.WriteRoundWork / ListNodeWorks / ReadWorkOffset on a
// real Badger directory against lean/Mixin/Model/Work.lean.
//
// Nodes and snapshots are numbered (0 = the all-zero hash). Property mode keeps a ledger that
// knows nothing about rounds or checkpoints: a snapshot is credited when it is first seen by an
// accepted, non-stale submission with credit=true (and the first new snapshot has signers); one
// proposal credit to the submitting node and one signing credit to each other signer, on the
// snapshot's own day. After every read the real counters must equal the ledger. The ledger is
// switched off for the rest of a case once a deliberately malformed submission (`submitx`:
// duplicate hashes in one call, duplicate signers, a hash re-used in another round) is accepted.

import (
	"fmt"
	"strings"

	"github.com/MixinNetwork/mixin/common"
	"github.com/MixinNetwork/mixin/crypto"
	"github.com/MixinNetwork/mixin/storage"
)

const c26DayLen = uint64(86400000000000)

type c26World struct {
	dir   string
	store *storage.BadgerStore
}

var c26W *c26World

func c26Node(id int) crypto.Hash {
	if id == 0 {
		return crypto.Hash{}
	}
	return crypto.Blake3Hash([]byte(fmt.Sprintf("verif-c26-node-%d", id)))
}

func c26Snap(id int) crypto.Hash {
	if id == 0 {
		return crypto.Hash{}
	}
	return crypto.Blake3Hash([]byte(fmt.Sprintf("verif-c26-snap-%d", id)))
}

func c26Get(st *State) *c26World {
	if c26W != nil {
		return c26W
	}
	w := &c26World{}
	w.dir = scratchDir(st, "c26-")
	w.store = c23Open(w.dir)
	c26W = w
	return w
}

type c26Key struct{ node, day int }

type c26Oracle struct {
	seen map[[2]int]bool
	lead map[c26Key]int
	sign map[c26Key]int
	off  bool
}

func execWork(st *State, line string) Result {
	t := strings.Fields(line)
	res := Result{Tags: []string{t[0]}}
	w := c26Get(st)
	or, _ := st.V["or"].(*c26Oracle)
	if or == nil {
		or = &c26Oracle{seen: map[[2]int]bool{}, lead: map[c26Key]int{}, sign: map[c26Key]int{}}
		st.V["or"] = or
	}
	fail := func(key, desc string) {
		if res.PropKey == "" {
			res.PropKey, res.PropDesc = "C26:"+key, desc
		}
	}
	must := func(err error) {
		if err != nil {
			panic("harness: storage error: " + err.Error())
		}
	}
	out, panicked, msg := Catch(func() string {
		switch t[0] {
		case "reset":
			must(w.store.VerifGraphWipe())
			return "ok"
		case "reopen":
			must(w.store.Close())
			w.store = c23Open(w.dir)
			return "ok"
		case "submit", "submitx":
			node, round, credit, n := atoi(t[1]), atoi(t[2]), atoi(t[3]) == 1, atoi(t[4])
			type sn struct {
				id      int
				ts      uint64
				signers []int
			}
			var sns []sn
			var works []*common.SnapshotWork
			p := 5
			for i := 0; i < n; i++ {
				s := sn{id: atoi(t[p])}
				fmt.Sscan(t[p+1], &s.ts)
				k := atoi(t[p+2])
				p += 3
				sw := &common.SnapshotWork{Hash: c26Snap(s.id), Timestamp: s.ts}
				for j := 0; j < k; j++ {
					s.signers = append(s.signers, atoi(t[p]))
					sw.Signers = append(sw.Signers, c26Node(atoi(t[p])))
					p++
				}
				sns = append(sns, s)
				works = append(works, sw)
			}
			if p != len(t) {
				panic("harness: malformed submit line")
			}
			off, err := w.store.ReadWorkOffset(c26Node(node))
			must(err)
			must(w.store.WriteRoundWork(c26Node(node), uint64(round), works, credit))
			switch {
			case uint64(round) < off:
				res.Tags = append(res.Tags, "submit:stale")
			case uint64(round) == off:
				res.Tags = append(res.Tags, "submit:same-round")
			default:
				res.Tags = append(res.Tags, "submit:next-round")
			}
			if t[0] == "submitx" {
				or.off = true
			}
			if uint64(round) >= off {
				var fresh []sn
				for _, s := range sns {
					if !or.seen[[2]int{node, s.id}] {
						fresh = append(fresh, s)
					}
					or.seen[[2]int{node, s.id}] = true
				}
				if len(fresh) > 0 {
					res.Tags = append(res.Tags, "submit:fresh")
				}
				if credit && len(fresh) > 0 && len(fresh[0].signers) > 0 {
					res.Tags = append(res.Tags, "submit:credited")
					for _, s := range fresh {
						d := int(s.ts / c26DayLen)
						or.lead[c26Key{node, d}]++
						did := map[int]bool{}
						for _, x := range s.signers {
							if x != node && !did[x] {
								or.sign[c26Key{x, d}]++
							}
							did[x] = true
						}
					}
				}
			}
			return "ok"
		case "works":
			node, d := atoi(t[1]), atoi(t[2])
			m, err := w.store.ListNodeWorks([]crypto.Hash{c26Node(node)}, uint32(d))
			must(err)
			v := m[c26Node(node)]
			if !or.off {
				wl, ws := or.lead[c26Key{node, d}], or.sign[c26Key{node, d}]
				if int(v[0]) > wl || int(v[1]) > ws {
					fail("double-count", fmt.Sprintf("node %d day %d: counters %d/%d exceed one credit per snapshot %d/%d", node, d, v[0], v[1], wl, ws))
				} else if int(v[0]) != wl || int(v[1]) != ws {
					fail("credit-missing", fmt.Sprintf("node %d day %d: counters %d/%d, one credit per snapshot gives %d/%d", node, d, v[0], v[1], wl, ws))
				}
			}
			if v[0] > 0 || v[1] > 0 {
				res.Tags = append(res.Tags, "works:nonzero")
			}
			return fmt.Sprintf("ok %d %d", v[0], v[1])
		case "offset":
			off, err := w.store.ReadWorkOffset(c26Node(atoi(t[1])))
			must(err)
			return fmt.Sprintf("ok %d", off)
		case "ckpt":
			round, hashes, _, err := w.store.VerifReadWorkCheckpoint(c26Node(atoi(t[1])))
			must(err)
			var ids []int
			for _, h := range hashes {
				id := -1
				for i := 0; i < 400; i++ {
					if c26Snap(i) == h {
						id = i
						break
					}
				}
				ids = append(ids, id)
			}
			return fmt.Sprintf("ok %d %s", round, joinInts(ids))
		}
		panic("harness: unknown op " + t[0])
	})
	if panicked && strings.HasPrefix(msg, "harness:") {
		panic(msg)
	}
	if panicked {
		res.Tags = append(res.Tags, t[0]+":panic")
	}
	res.Out = out
	res.Nontrivial = t[0] == "works" || t[0] == "ckpt"
	return res
}

type c26PlanSnap struct {
	id      int
	ts      uint64
	signers []int
}

func c26Line(op string, node, round int, credit bool, sns []c26PlanSnap) string {
	c := 0
	if credit {
		c = 1
	}
	parts := []string{op, fmt.Sprint(node), fmt.Sprint(round), fmt.Sprint(c), fmt.Sprint(len(sns))}
	for _, s := range sns {
		parts = append(parts, fmt.Sprint(s.id), fmt.Sprint(s.ts), fmt.Sprint(len(s.signers)))
		for _, x := range s.signers {
			parts = append(parts, fmt.Sprint(x))
		}
	}
	return strings.Join(parts, " ")
}

func genWork(r *Rand, i int, tier string) []string {
	lines := []string{"reset"}
	nNodes := r.Range(1, 4)
	nextSnap := 1
	baseDay := r.Range(1, 20000)
	days := map[int]bool{}
	type chain struct {
		cur  int // round being submitted
		plan map[int][]c26PlanSnap
		sent int  // length of the prefix submitted for cur
		live bool // a submission has been stored
	}
	chains := map[int]*chain{}
	planRound := func(node int, ch *chain, round int) []c26PlanSnap {
		if p, ok := ch.plan[round]; ok {
			return p
		}
		m := r.Range(1, 6)
		d := baseDay + r.Intn(3)
		var p []c26PlanSnap
		for j := 0; j < m; j++ {
			ts := uint64(d)*c26DayLen + uint64(r.Intn(1000000))
			switch r.Intn(24) {
			case 0:
				ts = uint64(d+1)*c26DayLen - 1
			case 1:
				ts = uint64(d) * c26DayLen
			case 2:
				ts = uint64(d+1) * c26DayLen // crosses the day boundary inside the round
			}
			signers := []int{node}
			for x := 1; x <= 4; x++ {
				if x != node && r.Chance(2, 3) {
					signers = append(signers, x)
				}
			}
			for a := len(signers) - 1; a > 0; a-- { // shuffle
				b := r.Intn(a + 1)
				signers[a], signers[b] = signers[b], signers[a]
			}
			switch r.Intn(40) {
			case 0:
				signers = nil // genesis-like work without signers
			case 1:
				signers = signers[1:] // possibly without the proposer
			}
			p = append(p, c26PlanSnap{nextSnap, ts, signers})
			days[int(ts/c26DayLen)] = true
			nextSnap++
		}
		ch.plan[round] = p
		return p
	}
	get := func(node int) *chain {
		if chains[node] == nil {
			chains[node] = &chain{cur: r.Intn(2), plan: map[int][]c26PlanSnap{}}
		}
		return chains[node]
	}
	reads := func() {
		node := r.Range(1, 4)
		for d := range days {
			_ = d
		}
		var ds []int
		for d := baseDay - 1; d <= baseDay+4; d++ {
			if days[d] {
				ds = append(ds, d)
			}
		}
		if len(ds) == 0 {
			ds = []int{baseDay}
		}
		lines = append(lines, fmt.Sprintf("works %d %d", node, Pick(r, ds)))
	}
	// would the call panic in the credit section (given the snapshots that are new in it)?
	poison := func(node int, fresh []c26PlanSnap, credit bool) bool {
		if !credit || len(fresh) == 0 || len(fresh[0].signers) == 0 {
			return false
		}
		d := fresh[0].ts / c26DayLen
		own := 0
		for _, s := range fresh {
			if s.ts == 0 || s.ts/c26DayLen != d || s.id == 0 {
				return true
			}
			for _, x := range s.signers {
				if x == node {
					own++
				}
			}
		}
		return own != len(fresh)
	}
	reopens := 0
	if r.Chance(1, 20) {
		reopens = 1
	}
	// once a malformed call was generated the plans may share hashes between rounds: every later
	// submission of the case is labelled submitx (outside the property's preconditions)
	submit := "submit"
	allowMalformed := r.Chance(1, 5)
	nops := r.Range(4, 40)
	for j := 0; j < nops; j++ {
		node := r.Range(1, nNodes)
		ch := get(node)
		credit := !r.Chance(1, 8)
		switch r.Intn(24) {
		case 0, 1, 2, 3, 4, 5: // grow the prefix of the current round
			p := planRound(node, ch, ch.cur)
			if ch.sent > len(p) {
				ch.sent = len(p)
			}
			old := ch.sent
			if ch.sent < len(p) {
				ch.sent += r.Range(1, len(p)-ch.sent)
			}
			lines = append(lines, c26Line(submit, node, ch.cur, credit, p[:ch.sent]))
			if poison(node, p[old:ch.sent], credit) {
				ch.sent = old // the call panics, nothing is stored
			} else {
				ch.live = true
			}
		case 6, 7, 8: // re-submit the same prefix (retry / crash replay), possibly permuted
			full := planRound(node, ch, ch.cur)
			if ch.sent > len(full) {
				ch.sent = len(full)
			}
			p := append([]c26PlanSnap{}, full[:ch.sent]...)
			if r.Chance(1, 3) {
				for a := len(p) - 1; a > 0; a-- {
					b := r.Intn(a + 1)
					p[a], p[b] = p[b], p[a]
				}
			}
			lines = append(lines, c26Line(submit, node, ch.cur, credit, p))
		case 9, 10, 11, 12: // next round
			if ch.live {
				ch.cur++
			}
			ch.sent = 0
			p := planRound(node, ch, ch.cur)
			ch.sent = r.Range(0, len(p))
			lines = append(lines, c26Line(submit, node, ch.cur, credit, p[:ch.sent]))
			if poison(node, p[:ch.sent], credit) {
				if ch.live {
					ch.cur-- // the call panics: still in the previous round, whose prefix length is unknown
					ch.sent = len(planRound(node, ch, ch.cur))
				} else {
					ch.sent = 0
				}
			} else {
				ch.live = true
			}
		case 13: // stale round
			if ch.cur > 0 {
				old := r.Range(0, ch.cur-1)
				p := planRound(node, ch, old)
				lines = append(lines, c26Line(submit, node, old, credit, p[:r.Range(0, len(p))]))
			}
		case 14: // round too far ahead: panic
			lines = append(lines, c26Line(submit, node, ch.cur+r.Range(2, 3), credit, planRound(node, ch, ch.cur+5)))
		case 15: // shrinking set: panic when a checkpointed snapshot is missing
			p := planRound(node, ch, ch.cur)
			if ch.sent > len(p) {
				ch.sent = len(p)
			}
			if ch.sent > 1 {
				lines = append(lines, c26Line(submit, node, ch.cur, credit, p[1:ch.sent]))
			}
		case 16: // malformed submissions, outside the property's preconditions
			if !allowMalformed {
				reads()
				break
			}
			p := append([]c26PlanSnap{}, planRound(node, ch, ch.cur)...)
			switch r.Intn(4) {
			case 0: // duplicate snapshot in one call
				p = append(p, p[r.Intn(len(p))])
			case 1: // duplicate signer
				k := r.Intn(len(p))
				if len(p[k].signers) > 0 {
					p[k].signers = append(append([]int{}, p[k].signers...), p[k].signers[0])
				}
			case 2: // zero hash / zero timestamp
				if r.Bool() {
					p[r.Intn(len(p))].id = 0
				} else {
					p[r.Intn(len(p))].ts = 0
				}
			default: // a snapshot of an earlier round again in the next round
				ch.cur++
				ch.plan[ch.cur] = p
			}
			ch.sent = len(p)
			submit = "submitx"
			lines = append(lines, c26Line(submit, node, ch.cur, credit, p))
		case 17, 18, 19, 20:
			reads()
		case 21:
			lines = append(lines, fmt.Sprintf("offset %d", r.Range(1, 4)))
		case 22:
			lines = append(lines, fmt.Sprintf("ckpt %d", r.Range(1, 4)))
		default:
			if reopens > 0 {
				reopens--
				lines = append(lines, "reopen")
			} else {
				reads()
			}
		}
	}
	for node := 1; node <= 4; node++ {
		for d := baseDay; d <= baseDay+3; d++ {
			if days[d] {
				lines = append(lines, fmt.Sprintf("works %d %d", node, d))
			}
		}
		lines = append(lines, fmt.Sprintf("ckpt %d", node))
	}
	return lines
}

func init() {
	d := func(n uint64) uint64 { return 100*c26DayLen + n }
	Register(&Subsystem{
		Name: "work",
		Rule: "random per-node round plans (1..6 snapshots, random signer sets, timestamps around day boundaries) submitted as growing prefixes with repeats/permutations, next rounds, stale rounds, rounds too far ahead, shrinking sets, credit on/off, malformed submissions (submitx), reopen; non-trivial = works/ckpt results",
		Gen:  genWork,
		Exec: execWork,
		Corpus: [][]string{
			{"reset",
				fmt.Sprintf("submit 1 0 1 1 1 %d 2 1 2", d(5)),
				fmt.Sprintf("submit 1 0 1 1 1 %d 2 1 2", d(5)),
				fmt.Sprintf("submit 1 0 1 2 1 %d 2 1 2 2 %d 3 2 1 3", d(5), d(6)),
				"works 1 100", "works 2 100", "works 3 100", "ckpt 1",
				fmt.Sprintf("submit 1 1 0 1 3 %d 2 1 2", d(7)),
				fmt.Sprintf("submit 1 1 1 2 3 %d 2 1 2 4 %d 2 1 2", d(7), d(8)),
				fmt.Sprintf("submit 1 0 1 1 1 %d 2 1 2", d(5)),
				fmt.Sprintf("submit 1 3 1 1 9 %d 2 1 2", d(9)),
				"works 1 100", "works 2 100", "offset 1", "ckpt 1"},
			// excluded points of the theorems: duplicate hash in one call, duplicate signer
			{"reset",
				fmt.Sprintf("submitx 1 1 1 2 1 %d 1 1 1 %d 1 1", d(5), d(5)),
				"works 1 100",
				fmt.Sprintf("submitx 2 1 1 2 5 %d 3 2 3 3 6 %d 1 3", d(5), d(5)),
				"works 2 100", "works 3 100"},
		},
	})
}
