package main

// C26 — round work: real storage.BadgerStore.WriteRoundWork / ListNodeWorks / ReadWorkOffset on a
// real Badger directory against lean/Mixin/Model/Work.lean.
//
// Nodes and snapshots are numbered (0 = the all-zero hash). Property mode keeps a ledger that
// knows nothing about rounds or checkpoints: a snapshot is credited when it is first seen by an
// accepted, non-stale submission with credit=true (and the first new snapshot has signers); one
// proposal credit to the submitting node and one signing credit to each other signer, on the
// snapshot's own day. After every read the real counters must equal the ledger. The ledger is
// switched off for the rest of a case once a deliberately malformed submission (`submitx`:
// duplicate hashes in one call, duplicate signers, a hash re-used in another round) is accepted.

import (
	"errors"
	"fmt"
	"sort"
	"strings"
	"sync"
	"time"

	"github.com/MixinNetwork/mixin/common"
	"github.com/MixinNetwork/mixin/crypto"
	"github.com/MixinNetwork/mixin/storage"
	"github.com/dgraph-io/badger/v4"
)

const c26DayLen = uint64(86400000000000)

type c26World struct {
	dir   string
	store *storage.BadgerStore
}

var c26W *c26World

func c26Node(id int) crypto.Hash {
	if id == 0 {
		return crypto.Hash{}
	}
	return crypto.Blake3Hash([]byte(fmt.Sprintf("verif-c26-node-%d", id)))
}

func c26Snap(id int) crypto.Hash {
	if id == 0 {
		return crypto.Hash{}
	}
	return crypto.Blake3Hash([]byte(fmt.Sprintf("verif-c26-snap-%d", id)))
}

func c26Get(st *State) *c26World {
	if c26W != nil {
		return c26W
	}
	w := &c26World{}
	w.dir = scratchDir(st, "c26-")
	w.store = c23Open(w.dir)
	c26W = w
	return w
}

type c26Key struct{ node, day int }

type c26Oracle struct {
	seen map[[2]int]bool
	lead map[c26Key]int
	sign map[c26Key]int
	off  bool
	recs map[[2]int]map[uint64]c26Sn // (node, round) -> timestamp -> record the harness wrote
}

// c26Sn is one snapshot work as the harness knows it.
type c26Sn struct {
	id      int
	ts      uint64
	signers []int
}

// credit applies one accepted, non-stale submission to the round-agnostic ledger.
func (or *c26Oracle) credit(node int, sns []c26Sn, credit bool) (fresh, credited bool) {
	var fr []c26Sn
	for _, s := range sns {
		if !or.seen[[2]int{node, s.id}] {
			fr = append(fr, s)
		}
		or.seen[[2]int{node, s.id}] = true
	}
	if !credit || len(fr) == 0 || len(fr[0].signers) == 0 {
		return len(fr) > 0, false
	}
	for _, s := range fr {
		d := int(s.ts / c26DayLen)
		or.lead[c26Key{node, d}]++
		did := map[int]bool{}
		for _, x := range s.signers {
			if x != node && !did[x] {
				or.sign[c26Key{x, d}]++
			}
			did[x] = true
		}
	}
	return true, true
}

func c26Works(sns []c26Sn) []*common.SnapshotWork {
	var works []*common.SnapshotWork
	for _, s := range sns {
		sw := &common.SnapshotWork{Hash: c26Snap(s.id), Timestamp: s.ts}
		for _, x := range s.signers {
			sw.Signers = append(sw.Signers, c26Node(x))
		}
		works = append(works, sw)
	}
	return works
}

// c26ParseSubmit parses `node round credit n (id ts k s1 … sk)*` and returns the tokens used.
func c26ParseSubmit(t []string) (node, round int, credit bool, sns []c26Sn) {
	node, round, credit = atoi(t[0]), atoi(t[1]), atoi(t[2]) == 1
	n := atoi(t[3])
	p := 4
	for i := 0; i < n; i++ {
		s := c26Sn{id: atoi(t[p])}
		fmt.Sscan(t[p+1], &s.ts)
		k := atoi(t[p+2])
		p += 3
		for j := 0; j < k; j++ {
			s.signers = append(s.signers, atoi(t[p]))
			p++
		}
		sns = append(sns, s)
	}
	if p != len(t) {
		panic("harness: malformed submit line")
	}
	return
}

var c26SnapIDs = map[crypto.Hash]int{}

func c26SnapID(h crypto.Hash) int {
	if len(c26SnapIDs) == 0 {
		for i := 0; i < 4000; i++ {
			c26SnapIDs[c26Snap(i)] = i
		}
	}
	if id, ok := c26SnapIDs[h]; ok {
		return id
	}
	return -1
}

var c26NodeIDs = map[crypto.Hash]int{}

func c26NodeID(h crypto.Hash) int {
	if len(c26NodeIDs) == 0 {
		for i := 0; i < 64; i++ {
			c26NodeIDs[c26Node(i)] = i
		}
	}
	if id, ok := c26NodeIDs[h]; ok {
		return id
	}
	return -1
}

// c26WriteRetry is the retry loop of kernel/mint.go:writeRoundWork.
func c26WriteRetry(store *storage.BadgerStore, node crypto.Hash, round uint64, works []*common.SnapshotWork, credit bool) (err error, conflicts int) {
	for {
		err = store.WriteRoundWork(node, round, works, credit)
		if err == nil || !errors.Is(err, badger.ErrConflict) {
			return err, conflicts
		}
		conflicts++
		time.Sleep(100 * time.Microsecond)
	}
}

func execWork(st *State, line string) Result {
	t := strings.Fields(line)
	res := Result{Tags: []string{t[0]}}
	w := c26Get(st)
	or, _ := st.V["or"].(*c26Oracle)
	if or == nil {
		or = &c26Oracle{seen: map[[2]int]bool{}, lead: map[c26Key]int{}, sign: map[c26Key]int{}, recs: map[[2]int]map[uint64]c26Sn{}}
		st.V["or"] = or
	}
	fail := func(key, desc string) {
		if res.PropKey == "" {
			res.PropKey, res.PropDesc = "C26:"+key, desc
		}
	}
	must := func(err error) {
		if err != nil {
			panic("harness: storage error: " + err.Error())
		}
	}
	out, panicked, msg := Catch(func() string {
		switch t[0] {
		case "reset":
			must(w.store.VerifGraphWipe())
			return "ok"
		case "reopen":
			must(w.store.Close())
			w.store = c23Open(w.dir)
			return "ok"
		case "submit", "submitx":
			node, round, credit, sns := c26ParseSubmit(t[1:])
			off, err := w.store.ReadWorkOffset(c26Node(node))
			must(err)
			must(w.store.WriteRoundWork(c26Node(node), uint64(round), c26Works(sns), credit))
			switch {
			case uint64(round) < off:
				res.Tags = append(res.Tags, "submit:stale")
			case uint64(round) == off:
				res.Tags = append(res.Tags, "submit:same-round")
			default:
				res.Tags = append(res.Tags, "submit:next-round")
			}
			if t[0] == "submitx" {
				or.off = true
			}
			if uint64(round) >= off {
				fresh, credited := or.credit(node, sns, credit)
				if fresh {
					res.Tags = append(res.Tags, "submit:fresh")
				}
				if credited {
					res.Tags = append(res.Tags, "submit:credited")
				}
			}
			return "ok"
		case "rec":
			node, round, id := atoi(t[1]), atoi(t[2]), atoi(t[3])
			sn := c26Sn{id: id}
			fmt.Sscan(t[4], &sn.ts)
			k := atoi(t[5])
			var signers []crypto.Hash
			for j := 0; j < k; j++ {
				sn.signers = append(sn.signers, atoi(t[6+j]))
				signers = append(signers, c26Node(atoi(t[6+j])))
			}
			must(w.store.VerifC26WriteSnapshotWork(c26Node(node), uint64(round), sn.ts, c26Snap(id), signers))
			key := [2]int{node, round}
			if or.recs[key] == nil {
				or.recs[key] = map[uint64]c26Sn{}
			}
			or.recs[key][sn.ts] = sn
			return "ok"
		case "readr", "subr":
			node, round := atoi(t[1]), atoi(t[2])
			off, err := w.store.ReadWorkOffset(c26Node(node))
			must(err)
			works, err := w.store.ReadSnapshotWorksForNodeRound(c26Node(node), uint64(round))
			must(err)
			// what the harness wrote for this round, in timestamp order
			var want []c26Sn
			for _, sn := range or.recs[[2]int{node, round}] {
				want = append(want, sn)
			}
			sort.Slice(want, func(i, j int) bool { return want[i].ts < want[j].ts })
			show := func(id int, ts uint64, signers []int) string {
				return fmt.Sprintf("%d:%d:%s", id, ts, joinInts(signers))
			}
			var got, exp []string
			for _, sw := range works {
				var sg []int
				for _, h := range sw.Signers {
					sg = append(sg, c26NodeID(h))
				}
				got = append(got, show(c26SnapID(sw.Hash), sw.Timestamp, sg))
			}
			for _, sn := range want {
				exp = append(exp, show(sn.id, sn.ts, sn.signers))
			}
			hetero := false
			for _, sn := range want {
				hetero = hetero || joinInts(sn.signers) != joinInts(want[0].signers)
			}
			if hetero {
				res.Tags = append(res.Tags, t[0]+":heterogeneous-signers")
			}
			if t[0] == "readr" {
				// records of rounds the checkpoint has left are deleted by WriteRoundWork: only
				// rounds at or above the checkpoint are compared with what was written
				if uint64(round) >= off && strings.Join(got, " ") != strings.Join(exp, " ") {
					fail("reader-mismatch", fmt.Sprintf("works of node %d round %d read back as %v, written %v", node, round, got, exp))
				}
				if len(got) == 0 {
					return "ok 0"
				}
				return fmt.Sprintf("ok %d %s", len(got), strings.Join(got, " "))
			}
			credit := atoi(t[3]) == 1
			must(w.store.WriteRoundWork(c26Node(node), uint64(round), works, credit))
			if uint64(round) >= off {
				// the ledger is fed with what was WRITTEN for the round, not with what the reader returned
				fresh, credited := or.credit(node, want, credit)
				if fresh {
					res.Tags = append(res.Tags, "subr:fresh")
				}
				if credited {
					res.Tags = append(res.Tags, "subr:credited")
				}
			} else {
				res.Tags = append(res.Tags, "subr:stale")
			}
			return "ok"
		case "conc":
			// goroutines separated by "/", their consecutive submissions by "|"; step i of all
			// goroutines is released together; each call uses the kernel's ErrConflict retry loop
			type sub struct {
				node, round int
				credit      bool
				sns         []c26Sn
				res         string
				stale       bool
			}
			var groups [][]*sub
			for _, g := range strings.Split(strings.Join(t[1:], " "), " / ") {
				var subs []*sub
				for _, sl := range strings.Split(g, " | ") {
					node, round, credit, sns := c26ParseSubmit(strings.Fields(sl))
					subs = append(subs, &sub{node: node, round: round, credit: credit, sns: sns})
				}
				groups = append(groups, subs)
			}
			steps := 0
			for _, g := range groups {
				if len(g) > steps {
					steps = len(g)
				}
			}
			var mu sync.Mutex
			conflicts := 0
			for i := 0; i < steps; i++ {
				var wg sync.WaitGroup
				start := make(chan struct{})
				for _, g := range groups {
					if i >= len(g) {
						continue
					}
					wg.Add(1)
					go func(sb *sub) {
						defer wg.Done()
						off, err := w.store.ReadWorkOffset(c26Node(sb.node))
						if err != nil {
							sb.res = "harness: " + err.Error()
							return
						}
						sb.stale = uint64(sb.round) < off
						works := c26Works(sb.sns)
						<-start
						out, _, msg := Catch(func() string {
							err, n := c26WriteRetry(w.store, c26Node(sb.node), uint64(sb.round), works, sb.credit)
							mu.Lock()
							conflicts += n
							mu.Unlock()
							if err != nil {
								return "harness: " + err.Error()
							}
							return "o"
						})
						if out == "panic" {
							out = "p"
							if strings.HasPrefix(msg, "harness:") {
								out = msg
							}
						}
						sb.res = out
					}(g[i])
				}
				close(start)
				wg.Wait()
			}
			var outs []string
			for _, g := range groups {
				o := ""
				for _, sb := range g {
					if strings.HasPrefix(sb.res, "harness:") {
						panic(sb.res)
					}
					o += sb.res
					if sb.res == "o" && !sb.stale {
						or.credit(sb.node, sb.sns, sb.credit)
					}
				}
				outs = append(outs, o)
			}
			if conflicts > 0 {
				res.Tags = append(res.Tags, "conc:conflict-retried")
			}
			return "ok " + strings.Join(outs, "/")
		case "works":
			node, d := atoi(t[1]), atoi(t[2])
			m, err := w.store.ListNodeWorks([]crypto.Hash{c26Node(node)}, uint32(d))
			must(err)
			v := m[c26Node(node)]
			if !or.off {
				wl, ws := or.lead[c26Key{node, d}], or.sign[c26Key{node, d}]
				if int(v[0]) > wl || int(v[1]) > ws {
					fail("double-count", fmt.Sprintf("node %d day %d: counters %d/%d exceed one credit per snapshot %d/%d", node, d, v[0], v[1], wl, ws))
				} else if int(v[0]) != wl || int(v[1]) != ws {
					fail("credit-missing", fmt.Sprintf("node %d day %d: counters %d/%d, one credit per snapshot gives %d/%d", node, d, v[0], v[1], wl, ws))
				}
			}
			if v[0] > 0 || v[1] > 0 {
				res.Tags = append(res.Tags, "works:nonzero")
			}
			return fmt.Sprintf("ok %d %d", v[0], v[1])
		case "offset":
			off, err := w.store.ReadWorkOffset(c26Node(atoi(t[1])))
			must(err)
			return fmt.Sprintf("ok %d", off)
		case "ckpt":
			round, hashes, _, err := w.store.VerifReadWorkCheckpoint(c26Node(atoi(t[1])))
			must(err)
			var ids []int
			for _, h := range hashes {
				ids = append(ids, c26SnapID(h))
			}
			return fmt.Sprintf("ok %d %s", round, joinInts(ids))
		}
		panic("harness: unknown op " + t[0])
	})
	if panicked && strings.HasPrefix(msg, "harness:") {
		panic(msg)
	}
	if panicked {
		res.Tags = append(res.Tags, t[0]+":panic")
	}
	res.Out = out
	res.Nontrivial = t[0] == "works" || t[0] == "ckpt" || t[0] == "readr" || t[0] == "conc"
	return res
}

type c26PlanSnap struct {
	id      int
	ts      uint64
	signers []int
}

func c26Line(op string, node, round int, credit bool, sns []c26PlanSnap) string {
	c := 0
	if credit {
		c = 1
	}
	parts := []string{op, fmt.Sprint(node), fmt.Sprint(round), fmt.Sprint(c), fmt.Sprint(len(sns))}
	for _, s := range sns {
		parts = append(parts, fmt.Sprint(s.id), fmt.Sprint(s.ts), fmt.Sprint(len(s.signers)))
		for _, x := range s.signers {
			parts = append(parts, fmt.Sprint(x))
		}
	}
	return strings.Join(parts, " ")
}

// genWorkReadBack: the AggregateMintWork path. Work records are written with the snapshot-work
// writer, read back with ReadSnapshotWorksForNodeRound and what was read is submitted; the
// snapshots of a round are signed by different quorums.
func genWorkReadBack(r *Rand) []string {
	lines := []string{"reset"}
	nNodes := r.Range(1, 3)
	day := r.Range(1, 20000)
	nextSnap := 1
	type chain struct {
		round int
		ts    uint64
	}
	chains := map[int]*chain{}
	quorum := func(node int) []int {
		sg := []int{node}
		for x := 1; x <= 6; x++ {
			if x != node && r.Chance(1, 2) {
				sg = append(sg, x)
			}
		}
		for a := len(sg) - 1; a > 0; a-- {
			b := r.Intn(a + 1)
			sg[a], sg[b] = sg[b], sg[a]
		}
		return sg
	}
	rec := func(node int, ch *chain) {
		ch.ts += uint64(r.Range(1, 1000))
		sg := quorum(node)
		parts := []string{"rec", fmt.Sprint(node), fmt.Sprint(ch.round), fmt.Sprint(nextSnap), fmt.Sprint(ch.ts), fmt.Sprint(len(sg))}
		for _, x := range sg {
			parts = append(parts, fmt.Sprint(x))
		}
		nextSnap++
		lines = append(lines, strings.Join(parts, " "))
	}
	nops := r.Range(6, 30)
	for j := 0; j < nops; j++ {
		node := r.Range(1, nNodes)
		ch := chains[node]
		if ch == nil {
			ch = &chain{round: r.Intn(2), ts: uint64(day) * c26DayLen}
			chains[node] = ch
			for k := r.Range(1, 4); k > 0; k-- {
				rec(node, ch)
			}
		}
		credit := 1
		if r.Chance(1, 10) {
			credit = 0
		}
		switch r.Intn(10) {
		case 0, 1: // the round grows
			for k := r.Range(1, 3); k > 0; k-- {
				rec(node, ch)
			}
		case 2, 3, 4: // aggregate the round (again)
			lines = append(lines, fmt.Sprintf("subr %d %d %d", node, ch.round, credit))
		case 5:
			lines = append(lines, fmt.Sprintf("readr %d %d", node, ch.round))
		case 6, 7: // aggregate, then the next round starts
			lines = append(lines, fmt.Sprintf("subr %d %d %d", node, ch.round, credit))
			ch.round++
			for k := r.Range(1, 5); k > 0; k-- {
				rec(node, ch)
			}
			lines = append(lines, fmt.Sprintf("subr %d %d %d", node, ch.round, credit))
		case 8: // a round the checkpoint has left
			if ch.round > 0 {
				old := r.Range(0, ch.round-1)
				lines = append(lines, fmt.Sprintf("readr %d %d", node, old), fmt.Sprintf("subr %d %d %d", node, old, credit))
			}
		default:
			lines = append(lines, fmt.Sprintf("works %d %d", r.Range(1, 6), day))
		}
	}
	for node := 1; node <= 6; node++ {
		lines = append(lines, fmt.Sprintf("works %d %d", node, day))
	}
	for node := 1; node <= nNodes; node++ {
		lines = append(lines, fmt.Sprintf("ckpt %d", node))
	}
	return lines
}

// genWorkConcurrent: one goroutine per chain (distinct proposers), overlapping signer sets, one
// day; every goroutine submits its rounds as monotone sets with repeats, in lock step.
func genWorkConcurrent(r *Rand) []string {
	lines := []string{"reset"}
	g := r.Range(2, 8)
	steps := r.Range(2, 6)
	day := r.Range(1, 20000)
	nextSnap := 1
	shared := []int{21, 22, 23}
	var groups []string
	for p := 1; p <= g; p++ {
		round := r.Intn(2)
		var plan []c26PlanSnap
		newRound := func() {
			plan = nil
			for k := r.Range(1, 4); k > 0; k-- {
				sg := []int{p}
				for _, x := range shared {
					if r.Chance(4, 5) {
						sg = append(sg, x)
					}
				}
				if q := r.Range(1, g); q != p && r.Chance(1, 2) {
					sg = append(sg, q)
				}
				plan = append(plan, c26PlanSnap{nextSnap, uint64(day)*c26DayLen + uint64(nextSnap), sg})
				nextSnap++
			}
		}
		newRound()
		sent := 0
		var subs []string
		for i := 0; i < steps; i++ {
			switch {
			case sent < len(plan) && r.Chance(2, 3):
				sent += r.Range(1, len(plan)-sent)
			case r.Chance(1, 2):
				round++
				newRound()
				sent = r.Range(1, len(plan))
			}
			if sent == 0 {
				sent = 1
			}
			l := c26Line("x", p, round, !r.Chance(1, 12), plan[:sent])
			subs = append(subs, strings.TrimPrefix(l, "x "))
		}
		groups = append(groups, strings.Join(subs, " | "))
	}
	lines = append(lines, "conc "+strings.Join(groups, " / "))
	for _, x := range shared {
		lines = append(lines, fmt.Sprintf("works %d %d", x, day))
	}
	for p := 1; p <= g; p++ {
		lines = append(lines, fmt.Sprintf("works %d %d", p, day), fmt.Sprintf("ckpt %d", p))
	}
	return lines
}

func genWork(r *Rand, i int, tier string) []string {
	switch i % 8 {
	case 1, 5:
		return genWorkReadBack(r)
	case 3:
		return genWorkConcurrent(r)
	}
	lines := []string{"reset"}
	nNodes := r.Range(1, 4)
	nextSnap := 1
	baseDay := r.Range(1, 20000)
	days := map[int]bool{}
	type chain struct {
		cur  int // round being submitted
		plan map[int][]c26PlanSnap
		sent int  // length of the prefix submitted for cur
		live bool // a submission has been stored
	}
	chains := map[int]*chain{}
	planRound := func(node int, ch *chain, round int) []c26PlanSnap {
		if p, ok := ch.plan[round]; ok {
			return p
		}
		m := r.Range(1, 6)
		d := baseDay + r.Intn(3)
		var p []c26PlanSnap
		for j := 0; j < m; j++ {
			ts := uint64(d)*c26DayLen + uint64(r.Intn(1000000))
			switch r.Intn(24) {
			case 0:
				ts = uint64(d+1)*c26DayLen - 1
			case 1:
				ts = uint64(d) * c26DayLen
			case 2:
				ts = uint64(d+1) * c26DayLen // crosses the day boundary inside the round
			}
			signers := []int{node}
			for x := 1; x <= 4; x++ {
				if x != node && r.Chance(2, 3) {
					signers = append(signers, x)
				}
			}
			for a := len(signers) - 1; a > 0; a-- { // shuffle
				b := r.Intn(a + 1)
				signers[a], signers[b] = signers[b], signers[a]
			}
			switch r.Intn(40) {
			case 0:
				signers = nil // genesis-like work without signers
			case 1:
				signers = signers[1:] // possibly without the proposer
			}
			p = append(p, c26PlanSnap{nextSnap, ts, signers})
			days[int(ts/c26DayLen)] = true
			nextSnap++
		}
		ch.plan[round] = p
		return p
	}
	get := func(node int) *chain {
		if chains[node] == nil {
			chains[node] = &chain{cur: r.Intn(2), plan: map[int][]c26PlanSnap{}}
		}
		return chains[node]
	}
	reads := func() {
		node := r.Range(1, 4)
		for d := range days {
			_ = d
		}
		var ds []int
		for d := baseDay - 1; d <= baseDay+4; d++ {
			if days[d] {
				ds = append(ds, d)
			}
		}
		if len(ds) == 0 {
			ds = []int{baseDay}
		}
		lines = append(lines, fmt.Sprintf("works %d %d", node, Pick(r, ds)))
	}
	// would the call panic in the credit section (given the snapshots that are new in it)?
	poison := func(node int, fresh []c26PlanSnap, credit bool) bool {
		if !credit || len(fresh) == 0 || len(fresh[0].signers) == 0 {
			return false
		}
		d := fresh[0].ts / c26DayLen
		own := 0
		for _, s := range fresh {
			if s.ts == 0 || s.ts/c26DayLen != d || s.id == 0 {
				return true
			}
			for _, x := range s.signers {
				if x == node {
					own++
				}
			}
		}
		return own != len(fresh)
	}
	reopens := 0
	if r.Chance(1, 20) {
		reopens = 1
	}
	// once a malformed call was generated the plans may share hashes between rounds: every later
	// submission of the case is labelled submitx (outside the property's preconditions)
	submit := "submit"
	allowMalformed := r.Chance(1, 5)
	nops := r.Range(4, 40)
	for j := 0; j < nops; j++ {
		node := r.Range(1, nNodes)
		ch := get(node)
		credit := !r.Chance(1, 8)
		switch r.Intn(24) {
		case 0, 1, 2, 3, 4, 5: // grow the prefix of the current round
			p := planRound(node, ch, ch.cur)
			if ch.sent > len(p) {
				ch.sent = len(p)
			}
			old := ch.sent
			if ch.sent < len(p) {
				ch.sent += r.Range(1, len(p)-ch.sent)
			}
			lines = append(lines, c26Line(submit, node, ch.cur, credit, p[:ch.sent]))
			if poison(node, p[old:ch.sent], credit) {
				ch.sent = old // the call panics, nothing is stored
			} else {
				ch.live = true
			}
		case 6, 7, 8: // re-submit the same prefix (retry / crash replay), possibly permuted
			full := planRound(node, ch, ch.cur)
			if ch.sent > len(full) {
				ch.sent = len(full)
			}
			p := append([]c26PlanSnap{}, full[:ch.sent]...)
			if r.Chance(1, 3) {
				for a := len(p) - 1; a > 0; a-- {
					b := r.Intn(a + 1)
					p[a], p[b] = p[b], p[a]
				}
			}
			lines = append(lines, c26Line(submit, node, ch.cur, credit, p))
		case 9, 10, 11, 12: // next round
			if ch.live {
				ch.cur++
			}
			ch.sent = 0
			p := planRound(node, ch, ch.cur)
			ch.sent = r.Range(0, len(p))
			lines = append(lines, c26Line(submit, node, ch.cur, credit, p[:ch.sent]))
			if poison(node, p[:ch.sent], credit) {
				if ch.live {
					ch.cur-- // the call panics: still in the previous round, whose prefix length is unknown
					ch.sent = len(planRound(node, ch, ch.cur))
				} else {
					ch.sent = 0
				}
			} else {
				ch.live = true
			}
		case 13: // stale round
			if ch.cur > 0 {
				old := r.Range(0, ch.cur-1)
				p := planRound(node, ch, old)
				lines = append(lines, c26Line(submit, node, old, credit, p[:r.Range(0, len(p))]))
			}
		case 14: // round too far ahead: panic
			lines = append(lines, c26Line(submit, node, ch.cur+r.Range(2, 3), credit, planRound(node, ch, ch.cur+5)))
		case 15: // shrinking set: panic when a checkpointed snapshot is missing
			p := planRound(node, ch, ch.cur)
			if ch.sent > len(p) {
				ch.sent = len(p)
			}
			if ch.sent > 1 {
				lines = append(lines, c26Line(submit, node, ch.cur, credit, p[1:ch.sent]))
			}
		case 16: // malformed submissions, outside the property's preconditions
			if !allowMalformed {
				reads()
				break
			}
			p := append([]c26PlanSnap{}, planRound(node, ch, ch.cur)...)
			switch r.Intn(4) {
			case 0: // duplicate snapshot in one call
				p = append(p, p[r.Intn(len(p))])
			case 1: // duplicate signer
				k := r.Intn(len(p))
				if len(p[k].signers) > 0 {
					p[k].signers = append(append([]int{}, p[k].signers...), p[k].signers[0])
				}
			case 2: // zero hash / zero timestamp
				if r.Bool() {
					p[r.Intn(len(p))].id = 0
				} else {
					p[r.Intn(len(p))].ts = 0
				}
			default: // a snapshot of an earlier round again in the next round
				ch.cur++
				ch.plan[ch.cur] = p
			}
			ch.sent = len(p)
			submit = "submitx"
			lines = append(lines, c26Line(submit, node, ch.cur, credit, p))
		case 17, 18, 19, 20:
			reads()
		case 21:
			lines = append(lines, fmt.Sprintf("offset %d", r.Range(1, 4)))
		case 22:
			lines = append(lines, fmt.Sprintf("ckpt %d", r.Range(1, 4)))
		default:
			if reopens > 0 {
				reopens--
				lines = append(lines, "reopen")
			} else {
				reads()
			}
		}
	}
	for node := 1; node <= 4; node++ {
		for d := baseDay; d <= baseDay+3; d++ {
			if days[d] {
				lines = append(lines, fmt.Sprintf("works %d %d", node, d))
			}
		}
		lines = append(lines, fmt.Sprintf("ckpt %d", node))
	}
	return lines
}

func init() {
	d := func(n uint64) uint64 { return 100*c26DayLen + n }
	Register(&Subsystem{
		Name: "work",
		Rule: "random per-node round plans (1..6 snapshots, random signer sets, timestamps around day boundaries) submitted as growing prefixes with repeats/permutations, next rounds, stale rounds, rounds too far ahead, shrinking sets, credit on/off, malformed submissions (submitx), reopen; non-trivial = works/ckpt results",
		Gen:  genWork,
		Exec: execWork,
		Corpus: [][]string{
			{"reset",
				fmt.Sprintf("submit 1 0 1 1 1 %d 2 1 2", d(5)),
				fmt.Sprintf("submit 1 0 1 1 1 %d 2 1 2", d(5)),
				fmt.Sprintf("submit 1 0 1 2 1 %d 2 1 2 2 %d 3 2 1 3", d(5), d(6)),
				"works 1 100", "works 2 100", "works 3 100", "ckpt 1",
				fmt.Sprintf("submit 1 1 0 1 3 %d 2 1 2", d(7)),
				fmt.Sprintf("submit 1 1 1 2 3 %d 2 1 2 4 %d 2 1 2", d(7), d(8)),
				fmt.Sprintf("submit 1 0 1 1 1 %d 2 1 2", d(5)),
				fmt.Sprintf("submit 1 3 1 1 9 %d 2 1 2", d(9)),
				"works 1 100", "works 2 100", "offset 1", "ckpt 1"},
			// excluded points of the theorems: duplicate hash in one call, duplicate signer
			{"reset",
				fmt.Sprintf("submitx 1 1 1 2 1 %d 1 1 1 %d 1 1", d(5), d(5)),
				"works 1 100",
				fmt.Sprintf("submitx 2 1 1 2 5 %d 3 2 3 3 6 %d 1 3", d(5), d(5)),
				"works 2 100", "works 3 100"},
		},
	})
}
