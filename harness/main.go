// Command harness is the Go side of the correspondence check between the Lean
// models under /verif/lean and the real MixinNetwork/mixin code (linked in-process
// through a `replace` directive that points at the tree under test).
//
// Every subsystem registers a Subsystem: a generator that turns a PRNG state into
// operation lines, and an executor that runs one operation line against the real
// code and returns the observable result line. The framework writes
//
//	ops file   one line per operation, fed verbatim to the Lean driver
//	out file   one line per operation, what the real code answered
//	prop file  one line per operation on which the *property itself* failed on the
//	           real code (independent of the model), with a finding key
//	stats file JSON: counts, branch histogram, distinct non-trivial cases, samples
//
// and the python driver (`/verif/check`) diffs `out` against the Lean driver's output.
package main

import (
	"bufio"
	"crypto/sha256"
	"encoding/hex"
	"encoding/json"
	"flag"
	"fmt"
	"os"
	"runtime/debug"
	"sort"
	"strings"
	"sync/atomic"
	"time"
)

// Result is what executing one operation line against the real code produced.
type Result struct {
	Out        string   // canonical observable, compared with the model, single line
	LeanIn     string   // line given to the Lean driver (defaults to the op line)
	PropKey    string   // non-empty: the property is violated on the real code; finding key
	PropDesc   string   // human readable description of the violation
	Tags       []string // branch / class tags for the coverage histogram
	Nontrivial bool     // counts towards distinct_nontrivial (rule stated by the subsystem)
}

// Subsystem ties one model to the code.
type Subsystem struct {
	Name string
	Rule string // how cases are generated and what makes one non-trivial
	// Gen returns the op lines of case number i (a stateful case starts with "reset").
	Gen func(r *Rand, i int, tier string) []string
	// Exec runs one op line against the real code. It must not panic for well-formed
	// lines; panics of the code under test are reported as Out="panic".
	Exec func(st *State, line string) Result
	// Corpus are op-line cases that always run first (minimised past failures).
	Corpus [][]string
}

// State is per-case mutable state for stateful subsystems (reset by "reset").
type State struct {
	V   map[string]any
	Dir string // scratch directory, removed at exit
}

var registry = map[string]*Subsystem{}

// AtExit registers a cleanup that runs after the last case (scratch kept outside State.Dir).
var atExit []func()

func AtExit(f func()) { atExit = append(atExit, f) }

func Register(s *Subsystem) { registry[s.Name] = s }

// Rand is splitmix64; every random choice of a run derives from one seed.
type Rand struct{ s uint64 }

func NewRand(seed uint64) *Rand { return &Rand{s: seed} }
func (r *Rand) U64() uint64 {
	r.s += 0x9e3779b97f4a7c15
	z := r.s
	z = (z ^ (z >> 30)) * 0xbf58476d1ce4e5b9
	z = (z ^ (z >> 27)) * 0x94d049bb133111eb
	return z ^ (z >> 31)
}
func (r *Rand) Intn(n int) int {
	if n <= 0 {
		return 0
	}
	return int(r.U64() % uint64(n))
}
func (r *Rand) Range(lo, hi int) int { return lo + r.Intn(hi-lo+1) } // inclusive
func (r *Rand) Bool() bool           { return r.U64()&1 == 1 }
func (r *Rand) Chance(p, q int) bool { return r.Intn(q) < p }
func (r *Rand) Bytes(n int) []byte {
	b := make([]byte, n)
	for i := range b {
		b[i] = byte(r.U64())
	}
	return b
}
func (r *Rand) Fork() *Rand         { return NewRand(r.U64()) }
func Pick[T any](r *Rand, xs []T) T { return xs[r.Intn(len(xs))] }

// Catch runs f and converts a panic of the code under test into ("panic", true).
func Catch(f func() string) (out string, panicked bool, msg string) {
	defer func() {
		if e := recover(); e != nil {
			out, panicked = "panic", true
			msg = fmt.Sprint(e)
			if len(msg) > 200 {
				msg = msg[:200]
			}
			_ = debug.Stack
		}
	}()
	return f(), false, ""
}

func b2i(b bool) int {
	if b {
		return 1
	}
	return 0
}

func Hex(b []byte) string {
	if len(b) == 0 {
		return "-"
	}
	return hex.EncodeToString(b)
}

func UnHex(s string) []byte {
	if s == "-" || s == "" {
		return nil
	}
	b, err := hex.DecodeString(s)
	if err != nil {
		panic("harness: bad hex in op line: " + s)
	}
	return b
}

type stats struct {
	Subsystem          string         `json:"subsystem"`
	Seed               uint64         `json:"seed"`
	Tier               string         `json:"tier"`
	Cases              int            `json:"cases"`
	Ops                int            `json:"ops"`
	DistinctNontrivial int            `json:"distinct_nontrivial"`
	Rule               string         `json:"rule"`
	Tags               map[string]int `json:"tags"`
	Samples            []string       `json:"samples"`
	PropFails          int            `json:"prop_fails"`
	CorpusCases        int            `json:"corpus_cases"`
}

func main() {
	if len(os.Args) < 2 {
		fmt.Fprintln(os.Stderr, "usage: harness <subsystem>|list|extract [flags]")
		os.Exit(2)
	}
	name := os.Args[1]
	if name == "list" {
		var ns []string
		for n := range registry {
			ns = append(ns, n)
		}
		sort.Strings(ns)
		fmt.Println(strings.Join(ns, "\n"))
		return
	}
	if name == "extract" {
		extractMain(os.Args[2:])
		return
	}
	sub := registry[name]
	if sub == nil {
		fmt.Fprintln(os.Stderr, "unknown subsystem", name)
		os.Exit(2)
	}
	fs := flag.NewFlagSet(name, flag.ExitOnError)
	seed := fs.Uint64("seed", 1, "PRNG seed")
	n := fs.Int("n", 1000, "number of generated cases")
	tier := fs.String("tier", "quick", "quick|thorough")
	opsPath := fs.String("ops", "ops.txt", "operation lines (Lean driver input)")
	outPath := fs.String("out", "go.out", "result lines of the real code")
	propPath := fs.String("prop", "prop.out", "property failures on the real code")
	statsPath := fs.String("stats", "stats.json", "coverage statistics")
	replay := fs.String("replay", "", "execute the op lines of this file instead of generating")
	nocorpus := fs.Bool("nocorpus", false, "skip the built-in corpus")
	_ = fs.Parse(os.Args[2:])

	go watchdog()
	dir, err := os.MkdirTemp("", "verif-harness-")
	if err != nil {
		panic(err)
	}
	defer os.RemoveAll(dir)
	defer func() {
		for _, f := range atExit {
			f()
		}
	}()

	opsF := mustCreate(*opsPath)
	outF := mustCreate(*outPath)
	propF := mustCreate(*propPath)
	opsW, outW, propW := bufio.NewWriter(opsF), bufio.NewWriter(outF), bufio.NewWriter(propF)
	defer func() { opsW.Flush(); outW.Flush(); propW.Flush() }()

	st := &stats{Subsystem: name, Seed: *seed, Tier: *tier, Rule: sub.Rule, Tags: map[string]int{}}
	seen := map[[16]byte]struct{}{}
	state := &State{V: map[string]any{}, Dir: dir}
	lineNo := 0
	runCase := func(lines []string) {
		st.Cases++
		for _, l := range lines {
			if strings.ContainsAny(l, "\n\r") {
				panic("harness: op line contains newline")
			}
			if l == "reset" {
				state.V = map[string]any{}
			}
			current.Store(&l)
			res := sub.Exec(state, l)
			current.Store(nil)
			lineNo++
			st.Ops++
			leanIn := res.LeanIn
			if leanIn == "" {
				leanIn = l
			}
			fmt.Fprintln(opsW, leanIn)
			fmt.Fprintln(outW, res.Out)
			for _, t := range res.Tags {
				st.Tags[t]++
			}
			if res.Nontrivial {
				h := sha256.Sum256([]byte(leanIn))
				var k [16]byte
				copy(k[:], h[:16])
				if _, ok := seen[k]; !ok {
					seen[k] = struct{}{}
				}
			}
			if res.PropKey != "" {
				st.PropFails++
				fmt.Fprintf(propW, "%d\t%s\t%s\t%s\n", lineNo, res.PropKey, strings.ReplaceAll(res.PropDesc, "\t", " "), l)
			}
			if len(st.Samples) < 6 && (res.Nontrivial || st.Ops < 3) {
				s := l + "  =>  " + res.Out
				if len(s) > 400 {
					s = s[:400] + "…"
				}
				st.Samples = append(st.Samples, s)
			}
		}
	}

	if *replay != "" {
		f, err := os.Open(*replay)
		if err != nil {
			panic(err)
		}
		sc := bufio.NewScanner(f)
		sc.Buffer(make([]byte, 1<<20), 1<<28)
		var lines []string
		for sc.Scan() {
			lines = append(lines, sc.Text())
		}
		runCase(lines)
	} else {
		if !*nocorpus {
			for _, c := range sub.Corpus {
				runCase(c)
				st.CorpusCases++
			}
		}
		r := NewRand(*seed)
		for i := 0; i < *n; i++ {
			runCase(sub.Gen(r.Fork(), i, *tier))
		}
	}
	st.DistinctNontrivial = len(seen)
	b, _ := json.MarshalIndent(st, "", " ")
	if err := os.WriteFile(*statsPath, b, 0o644); err != nil {
		panic(err)
	}
}

// current holds the op line being executed; the watchdog aborts the run when one
// operation takes longer than opTimeout (a hang of the code under test or of a generator).
var current atomic.Pointer[string]

const opTimeout = 120 * time.Second

func watchdog() {
	var last *string
	var since time.Time
	for {
		time.Sleep(2 * time.Second)
		c := current.Load()
		if c == nil || c != last {
			last, since = c, time.Now()
			continue
		}
		if time.Since(since) > opTimeout {
			l := *c
			if len(l) > 500 {
				l = l[:500]
			}
			fmt.Fprintln(os.Stderr, "harness: operation exceeded", opTimeout, ":", l)
			os.Exit(3)
		}
	}
}

func mustCreate(p string) *os.File {
	f, err := os.Create(p)
	if err != nil {
		panic(err)
	}
	return f
}
