package main

// Generator of ledger histories for the `ledger*` subsystems (C15, C16, C17). It keeps a light
// simulation of what it has built so that most transactions are valid; the simulation decides
// nothing: outcomes come from the real code and from the Lean model.

import (
	"fmt"
	"math/big"
	"strings"
)

type c15SimOut struct {
	tx, idx, asset int
	amount         *big.Int
	key            int
	live           bool // produced by a finalized transaction
	taken          bool // an input of some built transaction
}

type c15SimTx struct {
	id, asset int
	kind      string // deposit transfer submit claim mint
	ins       []*c15SimOut
	outs      []*c15SimOut
	amount    *big.Int // deposit / mint amount
	burn      *big.Int // submit amount
	info      [2]int
	good      bool // expected to have validated, locked and been persisted
	put       bool
	final     bool
	finalNode int // the node whose snapshot finalized it first
}

type c15Sim struct {
	r                                                                           *Rand
	lines                                                                       []string
	txs                                                                         map[int]*c15SimTx
	order                                                                       []int
	total                                                                       map[int]*big.Int
	info                                                                        map[int]*[2]int
	uniq                                                                        map[[2]int]bool
	nextTx, nextSnap, nextTopo, nextTs, nextSeed, nextDep, nextNonce, nextBatch int
	usedTopo                                                                    []int

	noAdmit  bool         // declare transactions only (the kernel path admits them itself)
	forceIns []*c15SimOut // spend exactly these outputs
	forceKey int          // ghost key symbol of output 0 of the next spend (a collision)
}

var c15Unit = big.NewInt(100000000)

func c15Units(n int64) *big.Int { return new(big.Int).Mul(big.NewInt(n), c15Unit) }

func (s *c15Sim) emit(format string, a ...any) { s.lines = append(s.lines, fmt.Sprintf(format, a...)) }

func c15Info(a int) [2]int {
	if a == 1 {
		return [2]int{3, 1}
	}
	return [2]int{a, 100 + a}
}

func (s *c15Sim) header() {
	s.emit("reset")
	s.emit("config 1 %s", c15ClaimFee())
	for a := 1; a <= 8; a++ {
		s.emit("asset %d %s", a, c15Cap(a))
		s.total[a] = new(big.Int)
	}
	// the malformed symbols (the executor checks each declaration against the real rule)
	for _, k := range c15BadAkeys {
		s.emit("badakey %d", k)
	}
	for _, d := range c15BadDeps {
		s.emit("baddep %d", d)
	}
	s.emit("ginfo 1 3 1")
	xin := c15Info(1)
	s.info[1] = &xin
	for i := 1; i <= c15Nodes; i++ {
		var ks []string
		for j := 1; j <= c15Nodes; j++ {
			ks = append(ks, fmt.Sprint(c15GenesisKey+100*i+j))
		}
		s.emit("tx %d 1 1 1 0 g a:%s:%s -", i, c15Units(13439), strings.Join(ks, "+"))
		s.emit("gsnap %d %d 0 0 %d 0 %d", i, i, i-1, i)
		s.total[1].Add(s.total[1], c15Units(13439))
	}
	s.emit("tx 8 1 1 1 0 g u:%s:%d -", c15Units(100*c15Nodes), c15GenesisKey+801)
	s.emit("gsnap 8 1 0 1 %d 0 8", c15Nodes)
	s.total[1].Add(s.total[1], c15Units(100*c15Nodes))
	s.emit("opaque 1")
	s.emit("dump")
	s.emit("supply")
	s.nextTx, s.nextSnap, s.nextTopo, s.nextTs = 100, 100, c15Nodes+1, 10
	s.nextSeed, s.nextDep, s.nextNonce, s.nextBatch = 1, 1, 1, 1
}

func (s *c15Sim) key(acct, idx int) int {
	k := s.nextSeed*10000 + acct*100 + idx
	return k
}

func (s *c15Sim) newTx(kind string, asset int) *c15SimTx {
	t := &c15SimTx{id: s.nextTx, asset: asset, kind: kind, good: true}
	s.nextTx++
	s.txs[t.id] = t
	s.order = append(s.order, t.id)
	return t
}

func (s *c15Sim) outLine(o *c15SimOut, typ string) string {
	if typ == "w" || typ == "c" {
		return fmt.Sprintf("%s:%s:-", typ, o.amount)
	}
	return fmt.Sprintf("%s:%s:%d", typ, o.amount, o.key)
}

// declare + (validate) + lock + put
func (s *c15Sim) admit(t *c15SimTx, validate bool) {
	if s.noAdmit {
		return
	}
	if validate {
		s.emit("validate %d 0", t.id)
	}
	s.emit("lock %d 0", t.id)
	s.emit("put %d", t.id)
	t.put = true
}

type c15DepOpt struct {
	info     *[2]int
	key      int // reuse this ghost key (collision)
	outType  string
	custBad  bool
	depID    int
	noAdmit  bool
	validate bool
}

func (s *c15Sim) deposit(asset int, amount *big.Int, o c15DepOpt) *c15SimTx {
	t := s.newTx("deposit", asset)
	t.amount = amount
	t.info = c15Info(asset)
	if o.info != nil {
		t.info = *o.info
	}
	dep := o.depID
	if dep == 0 {
		dep = s.nextDep
		s.nextDep++
	}
	key := o.key
	if key == 0 {
		key = s.key(1+s.r.Intn(4), 0)
		s.nextSeed++
	}
	typ := "s"
	if o.outType != "" {
		typ = o.outType
	}
	out := &c15SimOut{tx: t.id, idx: 0, asset: asset, amount: amount, key: key}
	t.outs = []*c15SimOut{out}
	cust := 1
	if o.custBad {
		cust = 0
		t.good = false
	}
	s.emit("tx %d %d 1 %d %d d:%d:%d:%d:%s %s -", t.id, asset, cust, s.nonce(), dep, t.info[0], t.info[1], amount, s.outLine(out, typ))
	if !o.noAdmit {
		s.admit(t, o.validate)
	}
	return t
}

func (s *c15Sim) nonce() int { s.nextNonce++; return s.nextNonce }

func (s *c15Sim) liveOuts(asset int) []*c15SimOut {
	var res []*c15SimOut
	for _, id := range s.order {
		for _, o := range s.txs[id].outs {
			if o.live && !o.taken && (asset == 0 || o.asset == asset) && o.key != 0 {
				res = append(res, o)
			}
		}
	}
	return res
}

func (s *c15Sim) split(total *big.Int, n int) []*big.Int {
	var parts []*big.Int
	rest := new(big.Int).Set(total)
	for i := 0; i < n-1; i++ {
		if rest.Cmp(big.NewInt(2)) < 0 {
			break
		}
		p := new(big.Int).Div(new(big.Int).Mul(rest, big.NewInt(int64(1+s.r.Intn(8)))), big.NewInt(10))
		if p.Sign() == 0 {
			p = big.NewInt(1)
		}
		parts = append(parts, p)
		rest = new(big.Int).Sub(rest, p)
	}
	return append(parts, rest)
}

// spend 1..2 live outputs of one asset into script outputs (kind transfer), a withdrawal submit
// plus change (kind submit) or a withdrawal claim plus change (kind claim, XIN)
func (s *c15Sim) spend(kind string, sigok bool, skew int64, ref int, validate bool) *c15SimTx {
	asset := 0
	if kind == "claim" {
		asset = 1
	}
	cands := s.liveOuts(asset)
	if len(cands) == 0 {
		return nil
	}
	first := Pick(s.r, cands)
	ins := []*c15SimOut{first}
	if s.forceIns != nil {
		ins, first = s.forceIns, s.forceIns[0]
	} else if s.r.Chance(1, 3) {
		for _, o := range cands {
			if o != first && o.asset == first.asset {
				ins = append(ins, o)
				break
			}
		}
	}
	sum := new(big.Int)
	for _, o := range ins {
		sum.Add(sum, o.amount)
	}
	fee := c15ClaimFee()
	if kind == "claim" && sum.Cmp(fee) <= 0 {
		return nil
	}
	t := s.newTx(kind, first.asset)
	t.ins = ins
	var inl, outl []string
	for _, o := range ins {
		o.taken = true
		inl = append(inl, fmt.Sprintf("u:%d:%d", o.tx, o.idx))
	}
	parts := s.split(sum, 1+s.r.Intn(3))
	if kind == "claim" {
		parts = []*big.Int{fee, new(big.Int).Sub(sum, fee)}
	}
	if skew != 0 {
		parts[len(parts)-1] = new(big.Int).Add(parts[len(parts)-1], big.NewInt(skew))
		t.good = false
	}
	acct := 1 + s.r.Intn(4)
	for i, p := range parts {
		o := &c15SimOut{tx: t.id, idx: i, asset: t.asset, amount: p, key: s.key(acct, i)}
		typ := "s"
		if i == 0 && kind == "submit" {
			typ, o.key = "w", 0
			t.burn = p
		}
		if i == 0 && kind == "claim" {
			typ, o.key = "c", 0
		}
		if i == 0 && typ == "s" && s.forceKey != 0 {
			o.key = s.forceKey
		}
		t.outs = append(t.outs, o)
		outl = append(outl, s.outLine(o, typ))
	}
	s.nextSeed++
	refs := "-"
	if ref != 0 {
		refs = fmt.Sprint(ref)
	}
	so := 1
	if !sigok {
		so = 0
		t.good = false
	}
	s.emit("tx %d %d %d 1 %d %s %s %s", t.id, t.asset, so, s.nonce(), strings.Join(inl, ","), strings.Join(outl, ","), refs)
	s.admit(t, validate)
	if !t.good {
		for _, o := range ins {
			o.taken = false
		}
	}
	return t
}

func (s *c15Sim) mint(amount *big.Int) *c15SimTx {
	t := s.newTx("mint", 1)
	t.amount = amount
	out := &c15SimOut{tx: t.id, idx: 0, asset: 1, amount: amount, key: s.key(1+s.r.Intn(4), 0)}
	s.nextSeed++
	t.outs = []*c15SimOut{out}
	s.emit("tx %d 1 1 1 %d m:%d:%s %s -", t.id, s.nonce(), s.nextBatch, amount, s.outLine(out, "s"))
	s.nextBatch++
	s.admit(t, true)
	return t
}

// write a snapshot of the given members; `expect` is the simulation's guess
func (s *c15Sim) snapshot(members []int, node int, expect bool, topo int) {
	if len(members) == 0 {
		return
	}
	if topo == 0 {
		topo = s.nextTopo
		s.nextTopo++
	}
	var ids []string
	for _, id := range members {
		ids = append(ids, fmt.Sprint(id))
		if s.uniq[[2]int{id, node}] {
			expect = false
		}
	}
	sid := s.nextSnap
	s.nextSnap++
	s.nextTs++
	s.emit("snap %d %d 1 %d %d %d %s", sid, node, s.nextTs, topo, s.r.Intn(c15Nodes+1), strings.Join(ids, ","))
	s.emit("dump")
	s.emit("supply")
	if !expect {
		return
	}
	s.applyFinal(members, node, topo)
}

// the simulation's bookkeeping of a snapshot it expects to be written
func (s *c15Sim) applyFinal(members []int, node, topo int) {
	s.usedTopo = append(s.usedTopo, topo)
	for _, id := range members {
		s.uniq[[2]int{id, node}] = true
		t := s.txs[id]
		if t == nil || t.final {
			continue
		}
		t.final = true
		t.finalNode = node
		for _, o := range t.outs {
			o.live = true
		}
		switch t.kind {
		case "deposit", "mint":
			s.total[t.asset].Add(s.total[t.asset], t.amount)
			if t.kind == "deposit" && s.info[t.asset] == nil {
				i := t.info
				s.info[t.asset] = &i
			}
		case "submit":
			s.total[t.asset].Sub(s.total[t.asset], t.burn)
		}
	}
}

// pending members the simulation believes can be finalized together
func (s *c15Sim) pendingGood() []int {
	var res []int
	for _, id := range s.order {
		t := s.txs[id]
		if t.put && t.good && !t.final {
			res = append(res, id)
		}
	}
	return res
}

func (s *c15Sim) finalIDs() []int {
	var res []int
	for _, id := range s.order {
		if s.txs[id].final {
			res = append(res, id)
		}
	}
	return res
}

// would finalizing these (in order) stay within capacity and agree on asset info?
func (s *c15Sim) fits(members []int) bool {
	tot := map[int]*big.Int{}
	info := map[int][2]int{}
	for a, i := range s.info {
		if i != nil {
			info[a] = *i
		}
	}
	for _, id := range members {
		t := s.txs[id]
		if t == nil || t.final {
			continue
		}
		if tot[t.asset] == nil {
			tot[t.asset] = new(big.Int).Set(s.total[t.asset])
		}
		switch t.kind {
		case "deposit", "mint":
			if t.kind == "deposit" {
				if old, ok := info[t.asset]; ok && old != t.info {
					return false
				}
				info[t.asset] = t.info
			}
			tot[t.asset].Add(tot[t.asset], t.amount)
			if tot[t.asset].Cmp(c15Cap(t.asset)) > 0 {
				return false
			}
		case "submit":
			tot[t.asset].Sub(tot[t.asset], t.burn)
		}
	}
	return true
}

func (s *c15Sim) nearCap(asset int) *big.Int {
	room := new(big.Int).Sub(c15Cap(asset), s.total[asset])
	switch s.r.Intn(6) {
	case 0:
		return new(big.Int).Add(room, big.NewInt(int64(s.r.Range(-2, 2))))
	case 1:
		return new(big.Int).Div(new(big.Int).Mul(room, big.NewInt(int64(s.r.Range(3, 7)))), big.NewInt(10))
	case 2:
		return new(big.Int).Sub(room, big.NewInt(int64(s.r.Range(1, 3))))
	default:
		return c15Units(int64(s.r.Range(1, 400)))
	}
}

func (s *c15Sim) someDeposit() *c15SimTx {
	asset := Pick(s.r, []int{1, 2, 2, 3, 4, 4, 5})
	amt := c15Units(int64(s.r.Range(1, 300)))
	if asset == 2 || asset == 3 {
		amt = s.nearCap(asset)
	}
	if amt.Sign() <= 0 {
		amt = big.NewInt(1)
	}
	t := s.deposit(asset, amt, c15DepOpt{validate: true})
	if s.info[asset] != nil && new(big.Int).Add(s.total[asset], amt).Cmp(c15Cap(asset)) >= 0 {
		t.good = false // verifyDepositData rejects
	}
	return t
}

func c15GenLedger(r *Rand, i int, tier string) []string {
	s := c15NewSim(r)
	s.header()
	steps := r.Range(5, 12)
	if tier == "thorough" {
		steps = r.Range(8, 30)
	}
	// always start with some funds
	for k := 0; k < r.Range(1, 3); k++ {
		s.someDeposit()
	}
	for k := 0; k < steps; k++ {
		switch r.Intn(41) {
		case 36, 37, 38:
			s.malformed()
		case 39, 40:
			s.reoffer()
		case 32, 33:
			s.failingOutput()
		case 34, 35:
			s.concurrent()
		case 20, 21:
			s.odd()
		case 22, 23, 24:
			s.kpath()
		case 25, 26:
			s.takeover()
		case 27, 28:
			s.retry()
		case 29, 30:
			s.pendingRefs()
		case 31:
			s.failingOutput()
		case 0, 1, 2:
			s.someDeposit()
		case 3, 4:
			s.spend("transfer", true, 0, 0, true)
		case 5:
			s.spend("submit", true, 0, 0, true)
		case 6:
			if sub := s.claimPrereq(); sub != 0 {
				s.spend("claim", true, 0, sub, true)
			}
		case 7:
			if r.Chance(1, 2) {
				s.mint(c15Units(int64(r.Range(1, 90))))
			} else {
				s.deposit(1, c15Units(int64(r.Range(1, 50))), c15DepOpt{validate: true})
			}
		case 8:
			// validation rejects: bad signature / amounts off by one / custodian signature
			switch r.Intn(3) {
			case 0:
				s.spend("transfer", false, 0, 0, true)
			case 1:
				s.spend(Pick(r, []string{"transfer", "submit"}), true, int64(Pick(r, []int{-1, 1})), 0, true)
			default:
				s.deposit(4, c15Units(5), c15DepOpt{custBad: true, validate: true})
			}
		case 9, 10, 11, 12:
			// finalize a batch of pending transactions
			p := s.pendingGood()
			if len(p) == 0 {
				s.someDeposit()
				p = s.pendingGood()
			}
			n := r.Range(1, 4)
			if n > len(p) {
				n = len(p)
			}
			members := append([]int(nil), p[:n]...)
			if r.Chance(1, 3) { // random order
				for a := len(members) - 1; a > 0; a-- {
					b := r.Intn(a + 1)
					members[a], members[b] = members[b], members[a]
				}
			}
			s.snapshot(members, 1+r.Intn(c15Nodes), s.fits(members), 0)
		case 13:
			// a snapshot of another node sharing already finalized transactions
			f := s.finalIDs()
			if len(f) == 0 {
				continue
			}
			members := []int{Pick(r, f)}
			if r.Bool() {
				if x := Pick(r, f); x != members[0] {
					members = append(members, x)
				}
			}
			if p := s.pendingGood(); len(p) > 0 && r.Bool() {
				members = append(members, p[0])
			}
			for rep := r.Range(1, 3); rep > 0; rep-- {
				s.snapshot(members, 1+r.Intn(c15Nodes), s.fits(members), 0)
			}
		case 14, 15, 16:
			s.failingBatch()
		case 17:
			s.knownShapes()
		case 18:
			// double spend attempt: second spender of a taken output
			outs := s.liveOuts(0)
			if len(outs) == 0 {
				continue
			}
			t1 := s.spend("transfer", true, 0, 0, true)
			if t1 != nil {
				for _, o := range t1.ins {
					o.taken = false
				}
				t2 := s.spend("transfer", true, 0, 0, true)
				for _, o := range t1.ins {
					o.taken = true
				}
				if t2 != nil {
					for _, a := range t2.ins {
						for _, b := range t1.ins {
							if a == b {
								t2.good = false
							}
						}
					}
				}
			}
		default:
			s.emit("dump")
		}
	}
	// finalize what is left, one snapshot each
	for _, id := range s.pendingGood() {
		if r.Chance(2, 3) {
			s.snapshot([]int{id}, 1+r.Intn(c15Nodes), s.fits([]int{id}), 0)
		}
	}
	return s.lines
}

// what a withdrawal claim needs: XIN funds and a finalized submission; returns the submission
func (s *c15Sim) claimPrereq() int {
	r := s.r
	if len(s.liveOuts(1)) == 0 {
		t := s.deposit(1, c15Units(int64(r.Range(1, 50))), c15DepOpt{validate: true})
		s.snapshot([]int{t.id}, 1+r.Intn(c15Nodes), s.fits([]int{t.id}), 0)
	}
	sub := 0
	for _, id := range s.finalIDs() {
		if s.txs[id].kind == "submit" {
			sub = id
		}
	}
	if sub == 0 {
		if t := s.spend("submit", true, 0, 0, true); t != nil && t.good {
			s.snapshot([]int{t.id}, 1+r.Intn(c15Nodes), s.fits([]int{t.id}), 0)
			sub = t.id
		}
	}
	return sub
}

// n positive parts of total (nil when total < n)
func (s *c15Sim) splitExact(total *big.Int, n int) []*big.Int {
	if total.Cmp(big.NewInt(int64(n))) < 0 {
		return nil
	}
	var parts []*big.Int
	rest := new(big.Int).Set(total)
	for i := 0; i < n-1; i++ {
		// leave at least one unit for every later part
		room := new(big.Int).Sub(rest, big.NewInt(int64(n-1-i)))
		p := new(big.Int).Div(new(big.Int).Mul(room, big.NewInt(int64(1+s.r.Intn(6)))), big.NewInt(10))
		if p.Sign() <= 0 {
			p = big.NewInt(1)
		}
		parts = append(parts, p)
		rest = new(big.Int).Sub(rest, p)
	}
	return append(parts, rest)
}

// finalize through the node's own rule: `snapv` writes the snapshot only when the real validation
// accepted every member (a rejected one is skipped on both sides)
func (s *c15Sim) snapshotValidated(members []int, node int) {
	var ids []string
	for _, id := range members {
		ids = append(ids, fmt.Sprint(id))
	}
	sid, topo := s.nextSnap, s.nextTopo
	s.nextSnap++
	s.nextTopo++
	s.nextTs++
	s.emit("snapv %d %d 1 %d %d %d %s", sid, node, s.nextTs, topo, s.r.Intn(c15Nodes+1), strings.Join(ids, ","))
	s.emit("dump")
	s.emit("supply")
}

// a transaction of any class with three or more outputs and an output type that does not belong at
// some position >= 1 (value conserving, properly signed): validation has to refuse it; if the real
// validation accepts, it is finalized and the supply equations are observed
func (s *c15Sim) odd() {
	r := s.r
	kind := Pick(r, []string{"claim", "claim", "submit", "transfer", "deposit", "mint"})
	nOut := r.Range(3, 5)
	pos := r.Range(1, nOut-1)
	oddT := Pick(r, []string{"w", "w", "c", "x", "z"})
	ref := 0
	var ins []*c15SimOut
	var inl []string
	var total *big.Int
	asset := 0
	switch kind {
	case "claim":
		if ref = s.claimPrereq(); ref == 0 {
			return
		}
		asset = 1
	case "deposit":
		asset = Pick(r, []int{1, 4, 5})
		total = c15Units(int64(r.Range(1, 40)))
		inl = []string{fmt.Sprintf("d:%d:%d:%d:%s", s.nextDep, c15Info(asset)[0], c15Info(asset)[1], total)}
		s.nextDep++
	case "mint":
		asset = 1
		total = c15Units(int64(r.Range(1, 40)))
		inl = []string{fmt.Sprintf("m:%d:%s", s.nextBatch, total)}
		s.nextBatch++
	}
	if total == nil {
		cands := s.liveOuts(asset)
		if len(cands) == 0 {
			return
		}
		first := Pick(r, cands)
		asset = first.asset
		ins = []*c15SimOut{first}
		total = new(big.Int).Set(first.amount)
		inl = []string{fmt.Sprintf("u:%d:%d", first.tx, first.idx)}
	}
	parts := s.splitExact(total, nOut)
	if kind == "claim" {
		fee := c15ClaimFee()
		if total.Cmp(new(big.Int).Add(fee, big.NewInt(int64(nOut)))) < 0 {
			return
		}
		parts = append([]*big.Int{fee}, s.splitExact(new(big.Int).Sub(total, fee), nOut-1)...)
	}
	if parts == nil {
		return
	}
	t := s.newTx(kind, asset)
	t.good = false
	t.ins = ins
	acct := 1 + r.Intn(4)
	var outl []string
	for i, p := range parts {
		o := &c15SimOut{tx: t.id, idx: i, asset: asset, amount: p, key: s.key(acct, i)}
		typ := "s"
		if i == 0 && kind == "submit" {
			typ = "w"
		}
		if i == 0 && kind == "claim" {
			typ = "c"
		}
		if i == pos {
			typ = oddT
		}
		if typ == "w" || typ == "c" {
			o.key = 0
		}
		t.outs = append(t.outs, o)
		outl = append(outl, s.outLine(o, typ))
	}
	s.nextSeed++
	refs := "-"
	if ref != 0 {
		refs = fmt.Sprint(ref)
	}
	s.emit("tx %d %d 1 1 %d %s %s %s", t.id, asset, s.nonce(), strings.Join(inl, ","), strings.Join(outl, ","), refs)
	s.emit("validate %d 0", t.id)
	s.emit("persistv %d 0", t.id)
	s.snapshotValidated([]int{t.id}, 1+r.Intn(c15Nodes))
}

// ---- the kernel path: the node's own validateSnapshotTransaction, then TopoWrite

// allocate the symbols of a snapshot; the same arguments serve `kvalidate` and `ksnap`
func (s *c15Sim) kargs(members []int, node int) (string, int) {
	var ids []string
	for _, id := range members {
		ids = append(ids, fmt.Sprint(id))
	}
	sid, topo := s.nextSnap, s.nextTopo
	s.nextSnap++
	s.nextTopo++
	s.nextTs++
	return fmt.Sprintf("%d %d 1 %d %d %d %s", sid, node, s.nextTs, topo, s.r.Range(1, c15Nodes), strings.Join(ids, ",")), topo
}

func (s *c15Sim) kvalidate(args string, finalized bool) {
	fin := 0
	if finalized {
		fin = 1
	}
	s.emit("kvalidate %s %d", args, fin)
	s.emit("dump")
}

// `ksnap` is executed only when the real validation accepted this very snapshot
func (s *c15Sim) ksnap(args string) {
	s.emit("ksnap %s", args)
	s.emit("dump")
	s.emit("supply")
}

// declare (not admit) a transaction of a random ordinary class
func (s *c15Sim) declared() *c15SimTx {
	s.noAdmit = true
	defer func() { s.noAdmit = false }()
	switch s.r.Intn(4) {
	case 0:
		return s.someDeposit()
	case 1:
		return s.spend("submit", true, 0, 0, false)
	default:
		if t := s.spend("transfer", true, 0, 0, false); t != nil {
			return t
		}
		return s.someDeposit()
	}
}

// ordinary life through the kernel: 1..3 cached transactions validated as one snapshot, then written
func (s *c15Sim) kpath() {
	var members []int
	for k := s.r.Range(1, 3); k > 0; k-- {
		if t := s.declared(); t != nil {
			members = append(members, t.id)
		}
	}
	if len(members) == 0 {
		return
	}
	node := 1 + s.r.Intn(c15Nodes)
	args, topo := s.kargs(members, node)
	s.kvalidate(args, false)
	good := true
	for _, id := range members {
		good = good && s.txs[id].good
		s.txs[id].put = s.txs[id].good
	}
	if s.r.Chance(1, 4) {
		if s.r.Bool() {
			return // stays pending; finalized later by the ordinary batches or never
		}
		// offered again in another snapshot: the persisted bodies are trusted
		node = 1 + s.r.Intn(c15Nodes)
		args, topo = s.kargs(members, node)
		s.kvalidate(args, false)
	}
	s.ksnap(args)
	if good && s.fits(members) {
		s.applyFinal(members, node, topo)
	} else {
		for _, id := range members {
			s.txs[id].good = false
		}
	}
}

// a pending transaction loses its input to a transaction of a finalized snapshot (fork lock), then comes
// back in a snapshot of its own: the node must validate it again (and refuse it)
func (s *c15Sim) takeover() {
	r := s.r
	outs := s.liveOuts(0)
	if len(outs) == 0 {
		return
	}
	u := Pick(r, outs)
	s.noAdmit = true
	s.forceIns = []*c15SimOut{u}
	t1 := s.spend(Pick(r, []string{"transfer", "submit"}), true, 0, 0, false)
	u.taken = false
	t2 := s.spend("transfer", true, 0, 0, false)
	s.forceIns, s.noAdmit = nil, false
	if t1 == nil || t2 == nil {
		return
	}
	n1, n2 := 1+r.Intn(c15Nodes), 1+r.Intn(c15Nodes)
	a1, _ := s.kargs([]int{t1.id}, n1)
	s.kvalidate(a1, false) // t1 validated, locked, persisted; its snapshot is not finalized
	a2, topo2 := s.kargs([]int{t2.id}, n2)
	s.kvalidate(a2, true) // t2 arrives in a finalized snapshot: takes the input over, prunes t1
	s.ksnap(a2)
	s.applyFinal([]int{t2.id}, n2, topo2)
	t1.good, t1.put = false, false
	// t1 comes back, once or twice, as a proposal or inside a finalized snapshot
	for k := r.Range(1, 2); k > 0; k-- {
		a3, _ := s.kargs([]int{t1.id}, 1+r.Intn(c15Nodes))
		s.kvalidate(a3, r.Chance(1, 3))
		s.ksnap(a3)
	}
}

// a transaction the node refuses is presented again (proposer retry, another node batching it): the
// verdict has to be the same as long as the ledger did not change
func (s *c15Sim) retry() {
	r := s.r
	var t *c15SimTx
	s.noAdmit = true
	switch r.Intn(4) {
	case 0, 1: // a single deposit lifting a known asset to or above its capacity
		asset := Pick(r, []int{2, 3})
		if s.info[asset] == nil {
			s.noAdmit = false
			d := s.deposit(asset, c15Units(int64(r.Range(1, 20))), c15DepOpt{validate: true})
			s.snapshot([]int{d.id}, 1+r.Intn(c15Nodes), s.fits([]int{d.id}), 0)
			s.noAdmit = true
		}
		room := new(big.Int).Sub(c15Cap(asset), s.total[asset])
		t = s.deposit(asset, new(big.Int).Add(room, big.NewInt(int64(r.Range(0, 3)))), c15DepOpt{})
	case 2: // an output reusing the ghost key of a finalized output
		for _, id := range s.finalIDs() {
			for _, o := range s.txs[id].outs {
				if o.idx == 0 && o.key != 0 {
					s.forceKey = o.key
				}
			}
		}
		if s.forceKey != 0 {
			t = s.spend("transfer", true, 0, 0, false)
		}
		s.forceKey = 0
	default: // amounts off by one
		t = s.spend("transfer", true, int64(Pick(r, []int{-1, 1})), 0, false)
	}
	s.noAdmit = false
	if t == nil {
		return
	}
	t.good = false
	for _, o := range t.ins {
		o.taken = false
	}
	for k := r.Range(2, 3); k > 0; k-- {
		args, _ := s.kargs([]int{t.id}, 1+r.Intn(c15Nodes))
		s.kvalidate(args, false)
		s.ksnap(args)
	}
}

// references to transactions that are persisted but not finalized: a claim of a pending withdrawal
// submission, an ordinary reference to a pending transaction; the referrer is offered for finalization first
func (s *c15Sim) pendingRefs() {
	r := s.r
	if len(s.liveOuts(1)) < 2 {
		t := s.deposit(1, c15Units(int64(r.Range(2, 50))), c15DepOpt{validate: true})
		s.snapshot([]int{t.id}, 1+r.Intn(c15Nodes), s.fits([]int{t.id}), 0)
		t = s.deposit(1, c15Units(int64(r.Range(2, 50))), c15DepOpt{validate: true})
		s.snapshot([]int{t.id}, 1+r.Intn(c15Nodes), s.fits([]int{t.id}), 0)
	}
	kernelPath := r.Bool()
	s.noAdmit = kernelPath
	w := s.spend(Pick(r, []string{"submit", "submit", "transfer"}), true, 0, 0, true)
	if w == nil || !w.good {
		s.noAdmit = false
		return
	}
	nw := 1 + r.Intn(c15Nodes)
	aw, topow := s.kargs([]int{w.id}, nw)
	if kernelPath {
		s.kvalidate(aw, false) // persisted, pending
	}
	w.put = true
	kind := "transfer"
	if w.kind == "submit" {
		kind = "claim"
	}
	c := s.spend(kind, true, 0, w.id, false)
	s.noAdmit = false
	if c == nil {
		return
	}
	c.good, c.put = false, false
	for _, o := range c.ins {
		o.taken = false
	}
	if kernelPath {
		ac, _ := s.kargs([]int{c.id}, 1+r.Intn(c15Nodes))
		s.kvalidate(ac, false) // the reference is not finalized: refused
		s.ksnap(ac)
		s.ksnap(aw) // now the referenced transaction is finalized
		s.applyFinal([]int{w.id}, nw, topow)
	} else {
		s.emit("validate %d 0", c.id)
		s.emit("persistv %d 0", c.id)
		s.snapshotValidated([]int{c.id}, 1+r.Intn(c15Nodes))
		s.snapshot([]int{w.id}, nw, s.fits([]int{w.id}), 0)
	}
	if w.final {
		// with the reference finalized the same referrer is acceptable
		for _, o := range c.ins {
			if o.taken {
				return
			}
		}
		if kernelPath {
			nc := 1 + r.Intn(c15Nodes)
			ac, topoc := s.kargs([]int{c.id}, nc)
			s.kvalidate(ac, false)
			s.ksnap(ac)
			c.good, c.put = true, true
			for _, o := range c.ins {
				o.taken = true
			}
			s.applyFinal([]int{c.id}, nc, topoc)
		}
	}
}

// an unvalidated deposit with several script outputs (finalization does not care about the count); when
// `like` is given, output number `pos` reuses the ghost key of the same output of `like`
func (s *c15Sim) multiDeposit(asset, nOut int, like *c15SimTx, pos int) *c15SimTx {
	t := s.newTx("deposit", asset)
	t.info = c15Info(asset)
	acct := 1 + s.r.Intn(4)
	total := new(big.Int)
	var outl []string
	for i := 0; i < nOut; i++ {
		amt := c15Units(int64(s.r.Range(1, 9)))
		total.Add(total, amt)
		o := &c15SimOut{tx: t.id, idx: i, asset: asset, amount: amt, key: s.key(acct, i)}
		if like != nil && i == pos {
			o.key = like.outs[i].key
		}
		t.outs = append(t.outs, o)
		outl = append(outl, s.outLine(o, "s"))
	}
	s.nextSeed++
	t.amount = total
	s.emit("tx %d %d 1 1 %d d:%d:%d:%d:%s %s -", t.id, asset, s.nonce(), s.nextDep, t.info[0], t.info[1], total, strings.Join(outl, ","))
	s.nextDep++
	s.emit("lock %d 0", t.id)
	s.emit("put %d", t.id)
	t.put = true
	return t
}

// a multi-output member whose output number `pos` (first, middle, last) cannot be written because its
// ghost key belongs to another finalized transaction, at a random position of a batch
func (s *c15Sim) failingOutput() {
	r := s.r
	asset := Pick(r, []int{4, 5})
	if s.info[asset] != nil && *s.info[asset] != c15Info(asset) {
		return
	}
	nOut := r.Range(2, 5)
	a := s.multiDeposit(asset, nOut, nil, 0)
	s.snapshot([]int{a.id}, 1+r.Intn(c15Nodes), s.fits([]int{a.id}), 0)
	if !a.final {
		return
	}
	pos := Pick(r, []int{0, nOut / 2, nOut - 1, r.Intn(nOut)})
	b := s.multiDeposit(asset, nOut, a, pos)
	b.good = false
	good := s.pendingGood()
	if len(good) > 2 {
		good = good[:2]
	}
	if !s.fits(good) {
		good = nil
	}
	members := append([]int(nil), good...)
	at := r.Intn(len(members) + 1)
	members = append(members[:at], append([]int{b.id}, members[at:]...)...)
	s.snapshot(members, 1+r.Intn(c15Nodes), false, 0)
}

// 2..4 snapshots of different nodes that share pending transactions, handed to WriteSnapshot at the same
// time while another writer holds the store mutex; each also carries a deposit of its own in the same asset
func (s *c15Sim) concurrent() {
	r := s.r
	asset := Pick(r, []int{4, 5})
	if s.info[asset] != nil && *s.info[asset] != c15Info(asset) {
		return
	}
	n := r.Range(2, 4)
	var shared []int
	for k := r.Range(1, 2); k > 0; k-- {
		shared = append(shared, s.deposit(asset, c15Units(int64(r.Range(1, 30))), c15DepOpt{validate: true}).id)
	}
	if f := s.finalIDs(); len(f) > 0 && r.Bool() {
		shared = append(shared, Pick(r, f)) // and one that is finalized already
	}
	nodes := []int{1, 2, 3, 4, 5, 6, 7}
	for a := len(nodes) - 1; a > 0; a-- {
		b := r.Intn(a + 1)
		nodes[a], nodes[b] = nodes[b], nodes[a]
	}
	line := fmt.Sprintf("csnap %d", n)
	type one struct {
		members    []int
		node, topo int
	}
	var all []one
	for i := 0; i < n; i++ {
		own := s.deposit(asset, c15Units(int64(r.Range(1, 30))), c15DepOpt{validate: true})
		members := append(append([]int(nil), shared...), own.id)
		ok := true
		for _, id := range members {
			ok = ok && !s.uniq[[2]int{id, nodes[i]}]
		}
		if !ok {
			return
		}
		args, topo := s.kargs(members, nodes[i])
		line += " " + args
		all = append(all, one{members, nodes[i], topo})
	}
	s.emit("%s", line)
	s.emit("dump")
	s.emit("supply")
	for _, o := range all {
		s.applyFinal(o.members, o.node, o.topo)
	}
}

var (
	c15BadAkeys  = []int{9001, 9002, 9003, 9004, 9006, 9008}
	c15GoodAkeys = []int{9005, 9007}
	c15BadDeps   = []int{9101, 9102, 9103}
)

// deposits (the first of an unseen asset, and later ones) whose own data sits on each boundary of
// Asset.Verify (zero chain; empty key; leading / trailing white space of several kinds) and of the rule on
// the deposit's transaction string, plus well-formed look-alikes; through the storage-level flow and
// through the node's own validation. Only what the real validation accepted is finalized.
func (s *c15Sim) malformed() {
	r := s.r
	asset := Pick(r, []int{6, 7, 8, 7, 8, 4, 5})
	info := c15Info(asset)
	if s.info[asset] != nil {
		info = *s.info[asset]
	}
	opt := c15DepOpt{noAdmit: true}
	good := false
	switch r.Intn(5) {
	case 0:
		info[0] = 0
	case 1, 2:
		info[1] = Pick(r, c15BadAkeys)
	case 3:
		d := Pick(r, append(append([]int(nil), c15BadDeps...), 9104))
		if s.uniq[[2]int{-d, 0}] {
			return
		}
		s.uniq[[2]int{-d, 0}] = true
		opt.depID = d
		good = d == 9104
	default:
		if s.info[asset] != nil {
			return // a look-alike key differs from the stored one: an ordinary mismatch, covered elsewhere
		}
		info[1] = Pick(r, c15GoodAkeys)
		good = true
	}
	opt.info = &info
	t := s.deposit(asset, c15Units(int64(r.Range(1, 30))), opt)
	t.good = good && s.fits([]int{t.id})
	node := 1 + r.Intn(c15Nodes)
	if r.Bool() {
		s.emit("validate %d 0", t.id)
		s.emit("persistv %d 0", t.id)
		topo := s.nextTopo
		s.snapshotValidated([]int{t.id}, node)
		if t.good {
			t.put = true
			s.applyFinal([]int{t.id}, node, topo)
		}
	} else {
		args, topo := s.kargs([]int{t.id}, node)
		s.kvalidate(args, false)
		s.ksnap(args)
		if t.good {
			t.put = true
			s.applyFinal([]int{t.id}, node, topo)
		}
	}
}

// a chain proposes again what it (or another chain) already finalized: the same node in a later snapshot,
// another node, alone or next to a fresh transaction; and another node's finalized snapshot sharing it
func (s *c15Sim) reoffer() {
	r := s.r
	var cands []*c15SimTx
	for _, id := range s.finalIDs() {
		if t := s.txs[id]; t.finalNode != 0 && (t.kind == "deposit" || t.kind == "transfer" || t.kind == "submit" || t.kind == "claim") {
			cands = append(cands, t)
		}
	}
	if len(cands) == 0 {
		return
	}
	t := Pick(r, cands)
	members := []int{t.id}
	var fresh *c15SimTx
	if r.Chance(1, 3) {
		s.noAdmit = true
		fresh = s.someDeposit()
		s.noAdmit = false
		members = append(members, fresh.id)
	}
	other := 1 + r.Intn(c15Nodes)
	for other == t.finalNode || s.uniq[[2]int{t.id, other}] {
		other = 1 + r.Intn(c15Nodes)
		if r.Chance(1, 20) {
			return
		}
	}
	switch r.Intn(4) {
	case 0, 1: // the same chain, a later snapshot: refused at signing ("finalized in snapshot ...")
		args, _ := s.kargs(members, t.finalNode)
		s.kvalidate(args, false)
		s.ksnap(args)
	case 2: // another chain proposes it: refused as well
		args, _ := s.kargs(members, other)
		s.kvalidate(args, false)
		s.ksnap(args)
	default: // a finalized snapshot of another chain that shares it: applied, effects once
		args, topo := s.kargs(members, other)
		s.kvalidate(args, true)
		s.ksnap(args)
		ok := fresh == nil || (fresh.good && s.fits(members))
		if ok {
			if fresh != nil {
				fresh.put = true
			}
			s.applyFinal(members, other, topo)
			return
		}
	}
	if fresh != nil {
		fresh.good = false
	}
}

// a batch with a member that fails inside finalization, at a random position
func (s *c15Sim) failingBatch() {
	r := s.r
	good := s.pendingGood()
	if len(good) > 3 {
		good = good[:3]
	}
	if !s.fits(good) {
		good = nil
	}
	var bad *c15SimTx
	topo := 0
	switch r.Intn(7) {
	case 0: // ghost key already bound to a finalized transaction
		var key int
		for _, id := range s.finalIDs() {
			for _, o := range s.txs[id].outs {
				if o.idx == 0 && o.key != 0 {
					key = o.key
				}
			}
		}
		if key == 0 {
			return
		}
		bad = s.deposit(4, c15Units(3), c15DepOpt{key: key})
	case 1: // capacity assertion
		room := new(big.Int).Sub(c15Cap(2), s.total[2])
		bad = s.deposit(2, new(big.Int).Add(room, big.NewInt(int64(r.Range(1, 2)))), c15DepOpt{})
	case 2: // output type outside the UnspentOutputs table
		bad = s.deposit(4, c15Units(2), c15DepOpt{outType: "z"})
	case 3: // body never persisted
		bad = s.deposit(4, c15Units(2), c15DepOpt{noAdmit: true})
	case 4: // topology slot taken: fails after every member was finalized inside the transaction
		if len(s.usedTopo) == 0 || len(good) == 0 {
			return
		}
		topo = Pick(r, s.usedTopo)
	case 5: // conflicting asset info on an asset seen before (rejected when persisted)
		if s.info[4] == nil {
			return
		}
		bad = s.deposit(4, c15Units(2), c15DepOpt{info: &[2]int{4, 204}})
	default: // claim whose reference is not finalized
		var ref int
		for _, id := range s.order {
			if t := s.txs[id]; t.kind == "submit" && t.put && !t.final {
				ref = id
			}
		}
		if ref == 0 {
			return
		}
		bad = s.spend("claim", true, 0, ref, false)
		if bad == nil {
			return
		}
	}
	members := append([]int(nil), good...)
	if bad != nil {
		bad.good = false
		pos := r.Intn(len(members) + 1)
		members = append(members[:pos], append([]int{bad.id}, members[pos:]...)...)
	}
	s.snapshot(members, 1+r.Intn(c15Nodes), false, topo)
}

// the shapes behind the C16 findings: validated pending deposits that cannot be finalized together
func (s *c15Sim) knownShapes() {
	r := s.r
	switch r.Intn(4) {
	case 0, 1: // two pending deposits, each below the remaining capacity, together above it
		asset := Pick(r, []int{2, 3})
		if s.info[asset] == nil {
			t := s.deposit(asset, c15Units(int64(r.Range(1, 20))), c15DepOpt{validate: true})
			s.snapshot([]int{t.id}, 1+r.Intn(c15Nodes), s.fits([]int{t.id}), 0)
		}
		room := new(big.Int).Sub(c15Cap(asset), s.total[asset])
		if room.Cmp(big.NewInt(10)) < 0 {
			return
		}
		a := new(big.Int).Div(new(big.Int).Mul(room, big.NewInt(int64(r.Range(5, 9)))), big.NewInt(10))
		// excess 0: the two deposits land exactly on the capacity, which finalization accepts
		excess := int64(r.Range(0, 3))
		b := new(big.Int).Add(new(big.Int).Sub(room, a), big.NewInt(excess))
		t1 := s.deposit(asset, a, c15DepOpt{validate: true})
		t2 := s.deposit(asset, b, c15DepOpt{validate: true})
		if r.Bool() {
			s.snapshot([]int{t1.id, t2.id}, 1+r.Intn(c15Nodes), excess == 0, 0)
			if excess != 0 {
				t1.good, t2.good = false, false
			}
		} else {
			s.snapshot([]int{t1.id}, 1+r.Intn(c15Nodes), true, 0)
			s.snapshot([]int{t2.id}, 1+r.Intn(c15Nodes), excess == 0, 0)
			if excess != 0 {
				t2.good = false
			}
		}
	case 2: // two pending first deposits of an unseen asset with different (chain, asset key)
		if s.info[6] != nil {
			return
		}
		t1 := s.deposit(6, c15Units(5), c15DepOpt{validate: true})
		t2 := s.deposit(6, c15Units(7), c15DepOpt{validate: true, info: &[2]int{6, 206}})
		if r.Bool() {
			s.snapshot([]int{t1.id, t2.id}, 1+r.Intn(c15Nodes), false, 0)
			t1.good, t2.good = false, false
		} else {
			s.snapshot([]int{t1.id}, 1+r.Intn(c15Nodes), true, 0)
			s.snapshot([]int{t2.id}, 1+r.Intn(c15Nodes), false, 0)
			t2.good = false
		}
	default: // first deposit of a capped asset nobody deposited before, above the capacity
		asset := Pick(r, []int{2, 3})
		if s.info[asset] != nil {
			return
		}
		t := s.deposit(asset, new(big.Int).Add(c15Cap(asset), c15Units(int64(r.Range(1, 500)))), c15DepOpt{validate: true})
		s.snapshot([]int{t.id}, 1+r.Intn(c15Nodes), false, 0)
		t.good = false
	}
}

func init() {
	rule := "random ledger histories on a real BadgerStore with a generated 7-node genesis: custodian-signed deposits " +
		"(amounts near capacity - total), transfers, withdrawal submit/claim, mints, each validated (Validate), locked, " +
		"persisted, then finalized in batches of 1..4 by random nodes; batches with a member failing at a random position " +
		"(ghost-key conflict, capacity assertion, unknown output type, missing body, taken topology slot, unfinalized claim " +
		"reference), transactions shared by 2..4 snapshots, double spends, bad signatures; full database dump and per-asset " +
		"supply after every snapshot; non-trivial = a WriteSnapshot call or a supply observation; distinct = distinct op line"
	for _, v := range [][2]string{{"ledger", "C15"}, {"ledgerc16", "C16"}, {"ledgerc17", "C17"}} {
		Register(&Subsystem{Name: v[0], Rule: rule, Gen: c15GenLedger, Exec: c15ExecLedger(v[1]), Corpus: c15LedgerCorpus()})
	}
}

func c15NewSim(r *Rand) *c15Sim {
	return &c15Sim{r: r, txs: map[int]*c15SimTx{}, total: map[int]*big.Int{}, info: map[int]*[2]int{}, uniq: map[[2]int]bool{}}
}

// the minimised witnesses of the C16 findings (and a shared-transaction history), always run first
func c15LedgerCorpus() [][]string {
	var out [][]string
	{ // two BTC deposits of 2000 against a capacity of 2500, after a first small one created the asset info
		s := c15NewSim(NewRand(11))
		s.header()
		t0 := s.deposit(2, c15Units(1), c15DepOpt{validate: true})
		s.snapshot([]int{t0.id}, 1, true, 0)
		t1 := s.deposit(2, c15Units(2000), c15DepOpt{validate: true})
		t2 := s.deposit(2, c15Units(2000), c15DepOpt{validate: true})
		s.snapshot([]int{t1.id}, 2, true, 0)
		s.snapshot([]int{t2.id}, 3, false, 0)
		s.snapshot([]int{t0.id, t1.id}, 4, true, 0) // shared by a second snapshot
		s.snapshot([]int{t0.id, t1.id}, 5, true, 0) // and a third
		out = append(out, s.lines)
	}
	{ // first deposit of an unseen capped asset above the capacity
		s := c15NewSim(NewRand(12))
		s.header()
		t := s.deposit(2, c15Units(3000), c15DepOpt{validate: true})
		s.snapshot([]int{t.id}, 1, false, 0)
		out = append(out, s.lines)
	}
	{ // two pending first deposits with different asset keys, one snapshot
		s := c15NewSim(NewRand(13))
		s.header()
		t1 := s.deposit(6, c15Units(5), c15DepOpt{validate: true})
		t2 := s.deposit(6, c15Units(7), c15DepOpt{validate: true, info: &[2]int{6, 206}})
		s.snapshot([]int{t1.id, t2.id}, 1, false, 0)
		out = append(out, s.lines)
	}
	return out
}
