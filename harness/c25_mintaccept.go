package main

// C25 (acceptance level) — the real kernel validator of mint snapshots, validateMintSnapshot,
// on a kernel.Node built over a generated membership history and an in-memory stand-in for the
// store reads it trusts (last mint distribution, works, space checkpoints, custodian, last
// consensus snapshot), against lean/Mixin/Model/MintAccept.lean. Candidates are built by the
// kernel's own builder and then mutated. Property mode recomputes the schedule and the
// distribution rules with math/big, independently of model and builder.

import (
	"fmt"
	"math/big"
	"strings"

	"github.com/MixinNetwork/mixin/common"
	"github.com/MixinNetwork/mixin/config"
	"github.com/MixinNetwork/mixin/crypto"
	"github.com/MixinNetwork/mixin/kernel"
)

type maWork struct{ today, space, lead, sign uint64 }

type maState struct {
	epoch uint64
	recs  []c29Rec
	node  *kernel.Node
	store *fakeStore
	works map[crypto.Hash]maWork
	total *big.Int
}

func (st *maState) rebuild() {
	cn := make([]*kernel.CNode, len(st.recs))
	var genesis []crypto.Hash
	for i, r := range st.recs {
		label := r.id.String()[:16]
		cn[i] = &kernel.CNode{IdForNetwork: r.id, Signer: fakeAddress("s" + label), Payee: fakeAddress("p" + label),
			Transaction: r.tx, Timestamp: r.ts, State: r.state}
		if r.ts == st.epoch && r.state == common.NodeStateAccepted {
			genesis = append(genesis, r.id)
		}
	}
	sortCNodes(cn)
	st.node = kernel.VerifC25NewNode(fakeNetworkId, st.epoch, cn, genesis, st.store)
}

// the works the store answers for the day of ts and the day before
func (st *maState) prime(ts uint64) {
	day := uint32(ts / c25OneDay)
	st.store.works = map[uint32]map[crypto.Hash][2]uint64{day: {}, day - 1: {}}
	st.store.spaceBatch = map[crypto.Hash]uint64{}
	for id, w := range st.works {
		st.store.works[day][id] = [2]uint64{w.today, 0}
		st.store.works[day-1][id] = [2]uint64{w.lead, w.sign}
		st.store.spaceBatch[id] = w.space
	}
}

// digest of everything in the payload except the mint batch/amount and the output amounts
func maRest(ver *common.VersionedTransaction) string {
	cp, err := common.UnmarshalVersionedTransaction(ver.Marshal())
	if err != nil {
		panic("harness: " + err.Error())
	}
	for _, in := range cp.Inputs {
		if in.Mint != nil {
			in.Mint.Batch, in.Mint.Amount = 0, common.Zero
		}
	}
	for _, o := range cp.Outputs {
		o.Amount = common.Zero
	}
	return crypto.Blake3Hash(cp.AsVersioned().PayloadMarshal()).String()
}

func maFields(ver *common.VersionedTransaction) string {
	batch, amount := uint64(0), big.NewInt(0)
	if len(ver.Inputs) > 0 && ver.Inputs[0].Mint != nil {
		batch, amount = ver.Inputs[0].Mint.Batch, integerToBig(ver.Inputs[0].Mint.Amount)
	}
	outs := make([]*big.Int, len(ver.Outputs))
	for i, o := range ver.Outputs {
		outs[i] = integerToBig(o.Amount)
	}
	s := fmt.Sprintf("%d %s %s %d", batch, amount, maRest(ver), len(outs))
	if len(outs) > 0 {
		s += " " + joinBig(outs)
	}
	return s
}

func maClone(ver *common.VersionedTransaction) *common.VersionedTransaction {
	cp, err := common.UnmarshalVersionedTransaction(ver.Marshal())
	if err != nil {
		panic("harness: " + err.Error())
	}
	return cp.AsVersioned() // fresh payload hash cache
}

func maAddAmount(x common.Integer, d int64) common.Integer {
	v := new(big.Int).Add(integerToBig(x), big.NewInt(d))
	if v.Sign() < 0 {
		v.SetInt64(0)
	}
	return integerFromBig(v)
}

// applies a symbolic mutation to a kernel-built mint transaction
func maMutate(ver *common.VersionedTransaction, mut []string) *common.VersionedTransaction {
	tx := maClone(ver)
	n := len(tx.Outputs)
	idx := func(s string) int {
		switch s {
		case "safe":
			return n - 2
		case "light":
			return n - 1
		}
		return int(u64(s)) % n
	}
	switch mut[0] {
	case "valid":
	case "amount":
		tx.Inputs[0].Mint.Amount = maAddAmount(tx.Inputs[0].Mint.Amount, int64(int(u64(mut[1]))-1000))
	case "batch":
		tx.Inputs[0].Mint.Batch = uint64(int64(tx.Inputs[0].Mint.Batch) + int64(u64(mut[1])) - 1000)
	case "out":
		i := idx(mut[1])
		tx.Outputs[i].Amount = maAddAmount(tx.Outputs[i].Amount, int64(int(u64(mut[2]))-1000))
	case "move": // move one unit from output i to output j: the sum is kept
		i, j := idx(mut[1]), idx(mut[2])
		if i != j && tx.Outputs[i].Amount.Sign() > 0 {
			tx.Outputs[i].Amount = maAddAmount(tx.Outputs[i].Amount, -1)
			tx.Outputs[j].Amount = maAddAmount(tx.Outputs[j].Amount, 1)
		}
	case "swapamt":
		i, j := idx(mut[1]), idx(mut[2])
		tx.Outputs[i].Amount, tx.Outputs[j].Amount = tx.Outputs[j].Amount, tx.Outputs[i].Amount
	case "swapout":
		i, j := idx(mut[1]), idx(mut[2])
		tx.Outputs[i], tx.Outputs[j] = tx.Outputs[j], tx.Outputs[i]
	case "drop":
		tx.Outputs = tx.Outputs[:n-1]
	case "ref":
		tx.References = []crypto.Hash{fakeHash("other-consensus-tx")}
	case "extra":
		tx.Extra = []byte("x")
	case "keys": // pay the first kernel output to the light account's keys
		tx.Outputs[0].Keys, tx.Outputs[0].Mask = tx.Outputs[n-1].Keys, tx.Outputs[n-1].Mask
	default:
		panic("harness: unknown mutation " + mut[0])
	}
	return tx.AsVersioned()
}

func maHandmade(batch uint64, n int) *common.VersionedTransaction {
	tx := common.NewTransactionV5(common.XINAssetId)
	tx.AddUniversalMintInput(batch, common.NewInteger(uint64(n+2)))
	a := fakeAddress("handmade")
	for i := 0; i < n+2; i++ {
		tx.AddScriptOutput([]*common.Address{&a}, common.NewThresholdScript(1), common.NewInteger(1), make([]byte, 64))
	}
	return tx.AsVersioned()
}

// ---- independent oracles (math/big)

func maBatchBig(b uint64) *big.Int {
	pool := integerToBig(kernel.MintPool)
	e20 := new(big.Int).Exp(big.NewInt(10), big.NewInt(20), nil)
	pct := integerToBig(kernel.MintYearPercent.Product(integerFromBig(e20)))
	for i := uint64(0); i < b/kernel.MintYearDays; i++ {
		year := new(big.Int).Quo(new(big.Int).Mul(pool, pct), e20)
		pool.Sub(pool, year)
	}
	year := new(big.Int).Quo(new(big.Int).Mul(pool, pct), e20)
	return year.Quo(year, big.NewInt(kernel.MintYearDays))
}

var maCumCache = []*big.Int{big.NewInt(0)} // maCumCache[b] = Σ_{i<b} schedule(i)

func maCumBefore(b uint64) *big.Int {
	for uint64(len(maCumCache)) <= b {
		i := uint64(len(maCumCache) - 1)
		maCumCache = append(maCumCache, new(big.Int).Add(maCumCache[i], maBatchBig(i)))
	}
	return maCumCache[b]
}

// property of an ACCEPTED mint, checked on the accepted transaction itself
func maCheckAccepted(st *maState, proposer crypto.Hash, ts uint64, ver *common.VersionedTransaction, lb uint64, la *big.Int,
	fail func(string, string)) {
	if ts <= st.epoch {
		fail("accepted-mint-before-epoch", "mint accepted at or before the epoch")
		return
	}
	hours := (ts - st.epoch) / c25Hour
	h := hours % 24
	if h < uint64(config.KernelMintTimeBegin) || h > uint64(config.KernelMintTimeEnd) {
		fail("accepted-mint-outside-window", fmt.Sprintf("mint accepted at hour %d", h))
	}
	in := ver.Inputs[0].Mint
	if in == nil || len(ver.Inputs) != 1 {
		fail("accepted-mint-shape", "accepted mint without a single mint input")
		return
	}
	if in.Batch != hours/24 {
		fail("accepted-mint-batch", fmt.Sprintf("accepted batch %d at day %d", in.Batch, hours/24))
	}
	amount := integerToBig(in.Amount)
	if in.Batch > lb && in.Batch < 60000 {
		want := new(big.Int).Sub(maCumBefore(in.Batch+1), maCumBefore(lb+1))
		if want.Cmp(amount) != 0 {
			fail("accepted-mint-amount", fmt.Sprintf("accepted amount %s for batches (%d,%d], schedule gives %s", amount, lb, in.Batch, want))
		}
	} else if in.Batch == lb && amount.Cmp(la) != 0 {
		fail("accepted-mint-amount", fmt.Sprintf("re-validated mint of batch %d has amount %s, recorded %s", lb, amount, la))
	} else if in.Batch < lb {
		fail("accepted-mint-batch", fmt.Sprintf("accepted batch %d below the last mint %d", in.Batch, lb))
	}
	// proposer: accepted[1:len-1][(day + TransactionTypeMint) % len]
	acc := st.node.NodesListWithoutState(ts, true)
	if len(acc) < config.KernelMinimumNodesCount {
		fail("accepted-mint-proposer", "mint accepted with fewer than the minimum nodes")
		return
	}
	inner := acc[1 : len(acc)-1]
	if inner[(int(hours/24)+common.TransactionTypeMint)%len(inner)].IdForNetwork != proposer {
		fail("accepted-mint-proposer", "mint accepted from a proposer that is not the elected node: "+proposer.String())
	}
	// outputs
	n := len(ver.Outputs)
	if n != len(acc)+2 {
		fail("accepted-mint-shape", fmt.Sprintf("%d outputs for %d accepted nodes", n, len(acc)))
		return
	}
	sum, ks := new(big.Int), new(big.Int)
	outs := make([]*big.Int, n)
	for i, o := range ver.Outputs {
		outs[i] = integerToBig(o.Amount)
		sum.Add(sum, outs[i])
		if i < n-2 {
			ks.Add(ks, outs[i])
		}
		if outs[i].Sign() <= 0 {
			fail("accepted-mint-zero-output", fmt.Sprintf("output %d of an accepted mint is %s", i, outs[i]))
		}
	}
	if sum.Cmp(amount) != 0 {
		fail("accepted-mint-sum", fmt.Sprintf("outputs of an accepted mint sum to %s, amount %s", sum, amount))
	}
	if new(big.Int).Mul(ks, big.NewInt(2)).Cmp(amount) > 0 {
		fail("accepted-mint-kernel-share", fmt.Sprintf("kernel share %s of %s", ks, amount))
	}
	if outs[n-2].Cmp(new(big.Int).Mul(new(big.Int).Quo(amount, big.NewInt(10)), big.NewInt(4))) != 0 {
		fail("accepted-mint-custodian-share", fmt.Sprintf("custodian share %s of %s", outs[n-2], amount))
	}
	if ts/c25OneDay-st.epoch/c25OneDay > 0 {
		for i := range acc {
			for j := range acc {
				wi, wj := st.works[acc[i].IdForNetwork], st.works[acc[j].IdForNetwork]
				if c25WorkOf([2]uint64{wi.lead, wi.sign}).Cmp(c25WorkOf([2]uint64{wj.lead, wj.sign})) <= 0 && outs[i].Cmp(outs[j]) > 0 {
					fail("accepted-mint-not-monotone", fmt.Sprintf("node %d has no more work than node %d but a larger share", i, j))
					return
				}
			}
		}
	}
}

// ---- generator

func genMaMutation(r *Rand, n int) string {
	switch r.Intn(16) {
	case 0, 1, 2, 3:
		return "valid"
	case 4:
		return fmt.Sprintf("amount %d", 1000+Pick(r, []int{1, -1, 10, -10}))
	case 5:
		return fmt.Sprintf("batch %d", 1000+Pick(r, []int{1, -1, 365}))
	case 6:
		return fmt.Sprintf("out %s %d", Pick(r, []string{"safe", "light", fmt.Sprint(r.Intn(n))}), 1000+Pick(r, []int{1, -1}))
	case 7, 8:
		return fmt.Sprintf("move %s %s", Pick(r, []string{"safe", "light", fmt.Sprint(r.Intn(n))}), Pick(r, []string{"safe", "light", fmt.Sprint(r.Intn(n))}))
	case 9:
		return fmt.Sprintf("swapamt %d %d", r.Intn(n), r.Intn(n))
	case 10:
		return fmt.Sprintf("swapout %d %s", r.Intn(n), Pick(r, []string{fmt.Sprint(r.Intn(n)), "safe", "light"}))
	case 11:
		return "drop"
	case 12:
		return "ref"
	case 13:
		return "extra"
	case 14:
		return "keys"
	default:
		return "handmade"
	}
}

func init() {
	Register(&Subsystem{
		Name: "mintaccept",
		Rule: "one case = a generated membership history (as in `election`), works / space checkpoints for its nodes and a " +
			"last mint distribution; then (a) candidate mint snapshots at several instants (inside and at the edges of the " +
			"mint window, other hours, day 0, below the epoch): the transaction the kernel builder makes at that or a nearby " +
			"instant, unchanged or mutated (amount ±1, batch ±1/+365, one output ±1, one unit moved between outputs, amounts " +
			"or whole outputs swapped, output dropped, other reference / extra / keys, hand-made), from the elected proposer " +
			"or another node, validated by the real validateMintSnapshot; (b) runs of newly built mints over successive days, " +
			"each validated and then recorded as the last distribution; non-trivial = accepted; distinct = distinct op line",
		Gen: func(r *Rand, i int, tier string) []string {
			g, last := genC29History(r, tier)
			lines := []string{"reset", g.line()}
			ids := map[int]bool{}
			for _, e := range g.recs {
				ids[e.Node] = true
			}
			var nodes []int
			for n := range ids {
				nodes = append(nodes, n)
			}
			sortInts(nodes)
			// works per node
			ws := genC25Works(r, len(nodes))
			lazy := r.Chance(1, 10)
			firstDay := (last-g.epoch)/c25OneDay + 1
			var sb strings.Builder
			fmt.Fprintf(&sb, "works %d", len(nodes))
			for k, n := range nodes {
				today, space := uint64(r.Range(1, 500)), uint64(1)<<40
				if lazy && r.Chance(1, 3) {
					today = 0
				}
				if lazy && r.Chance(1, 3) {
					space = firstDay - 1
				}
				fmt.Fprintf(&sb, " %s %d %d %d %d", nodeIdOf(n), today, space, ws[k][0], ws[k][1])
			}
			lines = append(lines, sb.String())
			day := firstDay + uint64(r.Intn(5))
			if day < 1707 && r.Chance(19, 20) {
				day = uint64(r.Range(1707, 4000))
			}
			lb := day - uint64(r.Range(1, 4))
			if r.Chance(1, 4) {
				lb = day
			}
			if lb < kernel.KernelNetworkLegacyEnding {
				lb = kernel.KernelNetworkLegacyEnding
			}
			la := genC25Base(r, len(nodes))
			la.Mul(la, big.NewInt(2))
			lines = append(lines, fmt.Sprintf("last %d %s", lb, la))
			if r.Chance(1, 4) { // (b) a run of new mints
				steps := r.Range(2, 6)
				d := day
				for s := 0; s < steps; s++ {
					hour := uint64(r.Range(config.KernelMintTimeBegin, config.KernelMintTimeEnd))
					if r.Chance(1, 8) {
						hour = uint64(r.Intn(24))
					}
					lines = append(lines, fmt.Sprintf("mintnew %d", g.epoch+d*c25OneDay+hour*c25Hour+r.U64()%c25Hour))
					d += uint64(Pick(r, []int{1, 1, 1, 2, 3, 30, 0}))
				}
				return lines
			}
			for q := r.Range(2, 5); q > 0; q-- {
				hour := uint64(r.Range(config.KernelMintTimeBegin, config.KernelMintTimeEnd))
				off := r.U64() % c25Hour
				switch r.Intn(8) {
				case 0:
					hour = uint64(r.Intn(24))
				case 1:
					hour, off = Pick(r, []uint64{6, 7, 9, 10}), Pick(r, []uint64{0, 1, c25Hour - 1})
				}
				d := day
				if r.Chance(1, 25) {
					d = uint64(r.Intn(2))
				}
				ts := g.epoch + d*c25OneDay + hour*c25Hour + off
				if r.Chance(1, 30) {
					ts = g.epoch - 1 - r.U64()%c25OneDay
				}
				base := ts
				switch r.Intn(6) {
				case 0: // built one day later / earlier, or at another hour of the window
					base = ts + c25OneDay
				case 1:
					base = g.epoch + d*c25OneDay + uint64(config.KernelMintTimeBegin)*c25Hour + 5
				}
				p := "E"
				if r.Chance(1, 5) {
					p = nodeIdOf(Pick(r, nodes)).String()
				}
				lines = append(lines, fmt.Sprintf("mint %s %d %d %s", p, ts, base, genMaMutation(r, len(nodes))))
			}
			return clkWrap(r, lines, map[string]int{"mint": 2})
		},
		Exec: execMintAccept,
	})
}

func sortInts(a []int) {
	for i := 1; i < len(a); i++ {
		for j := i; j > 0 && a[j] < a[j-1]; j-- {
			a[j], a[j-1] = a[j-1], a[j]
		}
	}
}

func execMintAccept(state *State, line string) Result {
	c, t := parseClk(strings.Fields(line))
	res := Result{Tags: []string{t[0]}}
	if c.on {
		res.Tags = append(res.Tags, fmt.Sprintf("clk:own%d-ts0%d", b2i(c.own), b2i(c.ts0)))
	}
	fail := func(key, desc string) {
		if res.PropKey == "" {
			res.PropKey, res.PropDesc = "C25:"+key, desc
		}
	}
	st, _ := state.V["ma"].(*maState)
	if st == nil || t[0] == "reset" {
		st = &maState{store: newFakeStore(), works: map[crypto.Hash]maWork{}, total: new(big.Int)}
		st.rebuild()
		state.V["ma"] = st
	}
	out, panicked, _ := Catch(func() string {
		switch t[0] {
		case "reset":
			return "ok"
		case "hist":
			st.epoch = u64(t[1])
			k := int(u64(t[2]))
			st.recs = make([]c29Rec, k)
			for i := 0; i < k; i++ {
				f := t[3+4*i:]
				st.recs[i] = c29Rec{c29Hash(f[0]), c29Hash(f[1]), u64(f[2]), c29States[f[3]]}
			}
			st.rebuild()
			return "ok"
		case "works":
			k := int(u64(t[1]))
			st.works = map[crypto.Hash]maWork{}
			for i := 0; i < k; i++ {
				f := t[2+5*i:]
				st.works[c29Hash(f[0])] = maWork{u64(f[1]), u64(f[2]), u64(f[3]), u64(f[4])}
			}
			return "ok"
		case "last":
			st.store.lastMint = &common.MintDistribution{MintData: common.MintData{Batch: u64(t[1]), Amount: integerFromBig(parseBig(t[2]))}}
			st.total = new(big.Int)
			return "ok"
		case "mint", "mintnew":
			var tsTok uint64
			if t[0] == "mint" {
				tsTok = u64(t[2])
			} else {
				tsTok = u64(t[1])
			}
			if tsTok == 0 {
				panic("harness: timestamp 0 is written as a clk op")
			}
			// the time the validator is specified to use, and the timestamp the snapshot carries
			ts, sts := c.eff(tsTok), c.snapTs(tsTok)
			st.prime(ts)
			thr := st.node.ConsensusThreshold(ts, false)
			// proposer
			var elected crypto.Hash
			_, electPanics, _ := Catch(func() string { elected = st.node.VerifElectSnapshotNode(common.TransactionTypeMint, ts); return "" })
			proposer := elected
			if t[0] == "mint" && t[1] != "E" {
				proposer = c29Hash(t[1])
			}
			lb, la := st.store.lastMint.Batch, integerToBig(st.store.lastMint.Amount)
			// canonical rest: what the real builder makes at ts
			vo := t[0] == "mint"
			var canon *common.VersionedTransaction
			_, buildPanics, _ := Catch(func() string { canon = st.node.VerifBuildUniversalMintTransaction(st.store.custodian, ts, vo); return "" })
			canonRest := "-"
			if canon != nil {
				canonRest = maRest(canon)
			}
			snap := &common.Snapshot{Version: common.SnapshotVersionCommonEncoding, NodeId: proposer, Timestamp: sts}
			st.node.IdForNetwork = fakeHash("the-validating-node")
			if c.on && c.own {
				st.node.IdForNetwork = proposer
			}
			if t[0] == "mintnew" {
				res.LeanIn = fmt.Sprintf("mintnew %s %d %d %s", proposer, ts, thr, canonRest)
				if buildPanics {
					return "panic"
				}
				if canon == nil {
					res.Tags = append(res.Tags, "mintnew:nil")
					return "nil"
				}
				snap.AddTransaction(canon.PayloadHash())
				if err := st.node.VerifValidateMintSnapshot(snap, maClone(canon)); err != nil {
					return "reject"
				}
				maCheckAccepted(st, proposer, ts, canon, lb, la, fail)
				amount := integerToBig(canon.Inputs[0].Mint.Amount)
				st.total.Add(st.total, amount)
				batch := canon.Inputs[0].Mint.Batch
				// everything minted since the start of this run stays within what the schedule leaves
				if batch < 60000 && new(big.Int).Add(st.total, maCumBefore(kernel.KernelNetworkLegacyEnding+1)).Cmp(integerToBig(kernel.MintPool)) > 0 {
					fail("accepted-mints-exceed-pool", fmt.Sprintf("accepted mints total %s", st.total))
				}
				st.store.lastMint = &common.MintDistribution{MintData: *canon.Inputs[0].Mint, Transaction: canon.PayloadHash()}
				res.Tags = append(res.Tags, "mintnew:accept")
				return fmt.Sprintf("accept %d %s %s", batch, amount, st.total)
			}
			// candidate: built by the kernel at the base instant, then mutated
			base := u64(t[3])
			mut := t[4:]
			var cand *common.VersionedTransaction
			if mut[0] != "handmade" {
				st.prime(base)
				Catch(func() string { cand = st.node.VerifBuildUniversalMintTransaction(st.store.custodian, base, true); return "" })
				st.prime(ts)
			}
			if cand == nil {
				batch := uint64(0)
				if ts > st.epoch {
					batch = (ts - st.epoch) / c25Hour / 24
				}
				cand = maHandmade(batch, len(st.node.NodesListWithoutState(ts, true)))
				res.Tags = append(res.Tags, "mint:cand-handmade")
			} else {
				cand = maMutate(cand, mut)
				res.Tags = append(res.Tags, "mint:cand-"+mut[0])
			}
			res.LeanIn = c.prefix() + fmt.Sprintf("mint %s %d %d %s %s", proposer, tsTok, thr, canonRest, maFields(cand))
			_ = electPanics
			snap.AddTransaction(cand.PayloadHash())
			once := func() string {
				var err error
				_, pn, _ := Catch(func() string { err = st.node.VerifValidateMintSnapshot(snap, cand); return "" })
				if pn {
					return "panic"
				}
				if err != nil {
					return "reject"
				}
				return "accept"
			}
			var d string
			withClock(c.on, c.clock, func() { d = once() })
			if c.on && !(c.own && c.ts0) { // a timestamped (or foreign) snapshot: the local clock must not matter
				var d2 string
				withClock(true, c.otherClock(), func() { d2 = once() })
				if d2 != d {
					fail("decision-depends-on-local-clock", fmt.Sprintf("the same timestamped mint snapshot is decided %s with the local clock at %d and %s at %d",
						d, c.clock, d2, c.otherClock()))
				}
			}
			if d != "accept" {
				return d
			}
			maCheckAccepted(st, proposer, ts, cand, lb, la, fail)
			res.Tags = append(res.Tags, "mint:accept", "mint:accept-"+mut[0])
			return "accept"
		}
		panic("harness: unknown op " + t[0])
	})
	res.Out = out
	res.Nontrivial = !panicked && strings.HasPrefix(out, "accept")
	if panicked {
		res.Tags = append(res.Tags, t[0]+":panic")
	}
	return res
}
