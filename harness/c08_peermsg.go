package main

// C08 — peer message parsing is total and faithful: the real p2p.parseNetworkMessage and the
// build*Message functions (through the `verif` hooks in p2p/verif_hooks_c08.go) against
// lean/Mixin/Model/PeerMsg.lean.
//
// Op lines (fields that only the Go side can compute are written `?` by the generator and
// filled in by Exec in the line that is fed to the model; Exec recomputes them on replay):
//
//	parse <version> <hex> <ck> <tx> <sn>   oracle tables: CheckKey, transaction / snapshot decoders
//	txpl <hex> <tx>                        parseTransactionsPayload
//	points <hex>                           unmarshalSyncPoints
//	b-auth|b-ann|b-com|b-txc|b-full|b-rsp|b-fin|b-conf|b-tx|b-txs|b-req|b-graph|b-pre  builders
//	huge <type> <size>                     ≥ 4 GiB transactions payload, property mode only
//
// Property mode (independent of the model): no panic on any input; every built message parses
// back to the values it was built from; accepted messages never carry an invalid curve point.

import (
	"bytes"
	"encoding/binary"
	"fmt"
	"sort"
	"strconv"
	"strings"

	"github.com/MixinNetwork/mixin/common"
	"github.com/MixinNetwork/mixin/crypto"
	"github.com/MixinNetwork/mixin/p2p"
	"github.com/dgraph-io/ristretto/v2"
)

// ---- a SyncHandle that only signs and serves a fixed graph

type c08Handle struct {
	key     crypto.Key
	graph   []*p2p.SyncPoint
	lastSig crypto.Signature
	signed  []byte
}

func (h *c08Handle) GetCacheStore() *ristretto.Cache[[]byte, any] { return nil }
func (h *c08Handle) SignData(data []byte) crypto.Signature {
	h.signed = bytes.Clone(data)
	h.lastSig = h.key.Sign(crypto.Blake3Hash(data))
	return h.lastSig
}
func (h *c08Handle) BuildAuthenticationMessage(crypto.Hash) []byte { return nil }
func (h *c08Handle) AuthenticateAs(crypto.Hash, []byte, int64) (*p2p.AuthToken, error) {
	return nil, fmt.Errorf("unused")
}
func (h *c08Handle) BuildGraph() []*p2p.SyncPoint { return h.graph }
func (h *c08Handle) UpdateSyncPoint(crypto.Hash, []*p2p.SyncPoint, []byte, *crypto.Signature) error {
	return nil
}
func (h *c08Handle) ReadAllNodesWithoutState() []crypto.Hash { return nil }
func (h *c08Handle) ReadSnapshotsSinceTopology(uint64, uint64) ([]*common.SnapshotWithTopologicalOrder, error) {
	return nil, nil
}
func (h *c08Handle) ReadSnapshotsForNodeRound(crypto.Hash, uint64) ([]*common.SnapshotWithTopologicalOrder, error) {
	return nil, nil
}
func (h *c08Handle) SendTransactionToPeer(crypto.Hash, crypto.Hash) error          { return nil }
func (h *c08Handle) SendTransactionsToPeer(crypto.Hash, []crypto.Hash, bool) error { return nil }
func (h *c08Handle) CacheQueueTransactions(crypto.Hash, []*common.VersionedTransaction) error {
	return nil
}
func (h *c08Handle) CacheStoreTransactions(crypto.Hash, []*common.VersionedTransaction) error {
	return nil
}
func (h *c08Handle) CosiQueueExternalAnnouncement(crypto.Hash, *common.Snapshot, *crypto.Key, *crypto.Signature) error {
	return nil
}
func (h *c08Handle) CosiAggregateSelfCommitments(crypto.Hash, crypto.Hash, *crypto.Key, []crypto.Hash, []byte, *crypto.Signature) error {
	return nil
}
func (h *c08Handle) CosiQueueExternalChallenge(crypto.Hash, crypto.Hash, *crypto.CosiSignature, []*common.VersionedTransaction) error {
	return nil
}
func (h *c08Handle) CosiQueueExternalFullChallenge(crypto.Hash, *common.Snapshot, *crypto.Key, *crypto.Key, *crypto.CosiSignature, []*common.VersionedTransaction) error {
	return nil
}
func (h *c08Handle) CosiAggregateSelfResponses(crypto.Hash, crypto.Hash, *[32]byte) error { return nil }
func (h *c08Handle) VerifyAndQueueAppendSnapshotFinalization(crypto.Hash, *common.Snapshot) error {
	return nil
}
func (h *c08Handle) CosiQueueExternalPreCommitments(crypto.Hash, []*crypto.Key, []byte, *crypto.Signature) error {
	return nil
}

// ---- canonical rendering (must equal Mixin.Driver.PeerMsg.showMsg)

func c08List(l [][]byte) string {
	if len(l) == 0 {
		return "_"
	}
	s := make([]string, len(l))
	for i, b := range l {
		s[i] = Hex(b)
	}
	return strings.Join(s, ",")
}

func c08ParseList(s string) [][]byte {
	if s == "_" {
		return nil
	}
	var out [][]byte
	for _, e := range strings.Split(s, ",") {
		out = append(out, UnHex(e))
	}
	return out
}

// body (signature cleared) and collective signature of a decoded snapshot
func c08SnapInfo(s *common.Snapshot) string {
	if s == nil {
		return "-"
	}
	c := *s
	c.Transactions = append([]crypto.Hash{}, s.Transactions...)
	c.Signature = nil
	body := (&c).VersionedMarshal()
	if s.Signature == nil {
		return Hex(body) + "/-/0"
	}
	return Hex(body) + "/" + Hex(s.Signature.Signature[:]) + "/" + strconv.FormatUint(s.Signature.Mask, 10)
}

func c08Points(ps []*p2p.SyncPoint) string {
	if len(ps) == 0 {
		return "_"
	}
	s := make([]string, len(ps))
	for i, p := range ps {
		s[i] = Hex(p.NodeId[:]) + "/" + strconv.FormatUint(p.Number, 10) + "/" + Hex(p.Hash[:])
	}
	return strings.Join(s, ",")
}

func c08Txs(txs []*common.VersionedTransaction) [][]byte {
	var l [][]byte
	for _, t := range txs {
		l = append(l, t.Marshal())
	}
	return l
}

func c08ShowMsg(m *p2p.PeerMessage) string {
	var want, coms [][]byte
	for _, h := range m.WantTxs {
		want = append(want, bytes.Clone(h[:]))
	}
	for _, k := range m.Commitments {
		coms = append(coms, bytes.Clone(k[:]))
	}
	sig := "-"
	if s := m.VerifSignature(); s != nil {
		sig = Hex(s[:])
	}
	return fmt.Sprintf("ok t=%d v=%d snap=%s sh=%s txs=%s th=%s cs=%s cm=%d com=%s cha=%s rsp=%s want=%s coms=%s graph=%s data=%s uns=%s sig=%s",
		m.Type, m.VerifVersion(), c08SnapInfo(m.Snapshot), Hex(m.SnapshotHash[:]), c08List(c08Txs(m.Transactions)),
		Hex(m.TransactionHash[:]), Hex(m.Cosi.Signature[:]), m.Cosi.Mask, Hex(m.Commitment[:]), Hex(m.Challenge[:]),
		Hex(m.Response[:]), c08List(want), c08List(coms), c08Points(m.Graph), Hex(m.Data), Hex(m.VerifUnsigned()), sig)
}

// ---- oracle tables for a parse line: answers of the real decoders on the sub-strings the
// documented layout designates (the driver answers `oracle-miss` if the model asks for more)

type c08Tables struct {
	ck, tx, sn map[string]string
}

func copy32(b []byte) []byte {
	var k [32]byte
	copy(k[:], b)
	return k[:]
}

func (t *c08Tables) key(b []byte) {
	var k crypto.Key
	copy(k[:], b)
	if k.CheckKey() {
		t.ck[Hex(k[:])] = "1"
	} else {
		t.ck[Hex(k[:])] = "0"
	}
}

func (t *c08Tables) txn(b []byte) {
	ok := "0"
	Catch(func() string {
		if _, err := common.UnmarshalVersionedTransaction(b); err == nil {
			ok = "1"
		}
		return ""
	})
	t.tx[Hex(b)] = ok
}

func (t *c08Tables) snap(b []byte) {
	ans := "x"
	Catch(func() string {
		s, err := common.UnmarshalVersionedSnapshot(b)
		if err == nil && s != nil {
			ans = c08SnapInfo(s.Snapshot)
		}
		return ""
	})
	t.sn[Hex(b)] = ans
}

func (t *c08Tables) payload(b []byte) {
	if len(b) < 1 {
		return
	}
	n := int(b[0])
	b = b[1:]
	for i := 0; i < n && len(b) >= 4; i++ {
		size := int(binary.BigEndian.Uint32(b[:4]))
		if len(b[4:]) < size {
			return
		}
		t.txn(b[4 : 4+size])
		b = b[4+size:]
	}
}

func c08Join(m map[string]string) string {
	if len(m) == 0 {
		return "_"
	}
	ks := make([]string, 0, len(m))
	for k := range m {
		ks = append(ks, k)
	}
	sort.Strings(ks)
	for i, k := range ks {
		ks[i] = k + ":" + m[k]
	}
	return strings.Join(ks, ",")
}

func c08OracleTables(data []byte) (string, string, string) {
	t := &c08Tables{map[string]string{}, map[string]string{}, map[string]string{}}
	if len(data) == 0 {
		return "_", "_", "_"
	}
	n := len(data)
	switch data[0] {
	case p2p.PeerMessageTypePreCommitments:
		for off, c := 67, 0; off < n && c < 1100; off, c = off+32, c+1 {
			t.key(data[off:])
		}
	case p2p.PeerMessageTypeBatchSnapshotAnnouncement:
		if n >= 65 {
			t.key(data[65:])
		}
		if n >= 97 {
			t.snap(data[97:])
		}
	case p2p.PeerMessageTypeBatchSnapshotCommitment:
		if n >= 97 {
			t.key(data[97:])
		}
	case p2p.PeerMessageTypeBatchFullChallenge:
		if n >= 5 {
			size := int(binary.BigEndian.Uint32(data[1:5]))
			if 5+size <= n {
				t.snap(data[5 : 5+size])
				off := 5 + size
				if off+32 <= n {
					t.key(data[off : off+32])
				}
				if off+64 <= n {
					t.key(data[off+32 : off+64])
					t.payload(data[off+64:])
				}
			}
		}
	case p2p.PeerMessageTypeBatchTransactionChallenge:
		if n >= 105 {
			t.payload(data[105:])
		}
	case p2p.PeerMessageTypeTransaction:
		t.txn(data[1:])
	case p2p.PeerMessageTypeTransactionBundle, p2p.PeerMessageTypeFinalizedTransactionBundle:
		t.payload(data[1:])
	case p2p.PeerMessageTypeBatchSnapshotFinalization:
		t.snap(data[1:])
	}
	return c08Join(t.ck), c08Join(t.tx), c08Join(t.sn)
}

// ---- generators

func c08PrivKey(r *Rand) crypto.Key { return crypto.NewKeyFromSeed(r.Bytes(64)) }

func c08ValidPoint(r *Rand) []byte {
	k := c08PrivKey(r).Public()
	return k[:]
}

func c08InvalidPoint(r *Rand) []byte {
	for {
		var k crypto.Key
		copy(k[:], r.Bytes(32))
		if !k.CheckKey() {
			return k[:]
		}
	}
}

func c08Point(r *Rand, pInvalid, q int) []byte {
	if r.Chance(pInvalid, q) {
		return c08InvalidPoint(r)
	}
	return c08ValidPoint(r)
}

func c08Hash(r *Rand) crypto.Hash {
	var h crypto.Hash
	copy(h[:], r.Bytes(32))
	return h
}

func c08Snapshot(r *Rand, withSig bool, ntx int) *common.Snapshot {
	s := &common.Snapshot{Version: common.SnapshotVersionCommonEncoding, NodeId: c08Hash(r), Timestamp: r.U64()}
	if r.Chance(1, 6) {
		ntx = 1 // round 0: one transaction, no references
	} else {
		s.RoundNumber = 1 + r.U64()%1000000
		s.References = &common.RoundLink{Self: c08Hash(r), External: c08Hash(r)}
	}
	seen := map[crypto.Hash]bool{}
	for len(s.Transactions) < ntx {
		h := c08Hash(r)
		if !seen[h] {
			seen[h] = true
			s.Transactions = append(s.Transactions, h)
		}
	}
	if withSig {
		s.Signature = &crypto.CosiSignature{Mask: 1 + r.U64()%(1<<63)}
		copy(s.Signature.Signature[:], r.Bytes(64))
	}
	return s
}

func c08NumTx(r *Rand) int {
	switch r.Intn(8) {
	case 0:
		return 255
	case 1:
		return r.Range(2, 40)
	default:
		return r.Range(1, 3)
	}
}

func c08Tx(r *Rand) *common.VersionedTransaction {
	tx := common.NewTransactionV5(c08Hash(r))
	for i, n := 0, r.Range(1, 3); i < n; i++ {
		tx.AddInput(c08Hash(r), uint(r.Intn(256)))
	}
	for i, n := 0, r.Range(1, 3); i < n; i++ {
		out := &common.Output{Type: common.OutputTypeScript, Amount: common.NewInteger(1 + r.U64()%1000000),
			Script: common.NewThresholdScript(1)}
		copy(out.Mask[:], c08ValidPoint(r))
		for j, m := 0, r.Range(1, 2); j < m; j++ {
			var k crypto.Key
			copy(k[:], c08ValidPoint(r))
			out.Keys = append(out.Keys, &k)
		}
		tx.Outputs = append(tx.Outputs, out)
	}
	if r.Bool() {
		tx.Extra = r.Bytes(Pick(r, []int{1, 7, 32, 200, 255}))
	}
	ver := tx.AsVersioned()
	if r.Chance(2, 3) {
		for range tx.Inputs {
			var sig crypto.Signature
			copy(sig[:], r.Bytes(64))
			ver.SignaturesMap = append(ver.SignaturesMap, map[uint16]*crypto.Signature{0: &sig})
		}
	}
	return ver
}

func c08TxList(r *Rand, tier string) [][]byte {
	n := 0
	switch r.Intn(10) {
	case 0:
		n = 0
	case 1:
		n = 255
		if tier == "quick" && r.Chance(3, 4) {
			n = r.Range(20, 60)
		}
	case 2:
		n = r.Range(4, 20)
	default:
		n = r.Range(1, 3)
	}
	base := c08Tx(r).Marshal()
	l := make([][]byte, n)
	for i := range l {
		if i < 4 || r.Chance(1, 10) {
			l[i] = c08Tx(r).Marshal()
		} else {
			l[i] = base
		}
	}
	return l
}

func c08PointsGen(r *Rand) []*p2p.SyncPoint {
	n := Pick(r, []int{0, 0, 1, 2, 3, 7, 50, r.Range(0, 300)})
	ps := make([]*p2p.SyncPoint, n)
	for i := range ps {
		ps[i] = &p2p.SyncPoint{NodeId: c08Hash(r), Number: r.U64(), Hash: c08Hash(r)}
		if r.Bool() {
			ps[i].Number %= 100000
		}
	}
	return ps
}

func be32(n int) []byte { return binary.BigEndian.AppendUint32(nil, uint32(n)) }

func c08Payload(txs [][]byte) []byte {
	d := []byte{byte(len(txs))}
	for _, t := range txs {
		d = append(d, be32(len(t))...)
		d = append(d, t...)
	}
	return d
}

// a malformed / boundary transactions payload
func c08BadPayload(r *Rand, tier string) []byte {
	txs := c08TxList(r, "quick")
	if len(txs) > 6 {
		txs = txs[:6]
	}
	d := c08Payload(txs)
	switch r.Intn(10) {
	case 0: // count says one more / one less
		d[0] = byte(int(d[0]) + Pick(r, []int{-1, 1, 2, 255}))
	case 1: // trailing bytes
		d = append(d, r.Bytes(r.Range(1, 5))...)
	case 2: // cut
		d = d[:r.Intn(len(d)+1)]
	case 3: // size field off by one / huge
		if len(d) >= 5 {
			v := binary.BigEndian.Uint32(d[1:5])
			v = Pick(r, []uint32{v + 1, v - 1, 0, 0xffffffff, 0xfffffffc, 0x80000000, uint32(len(d) - 5), uint32(len(d) - 4)})
			binary.BigEndian.PutUint32(d[1:5], v)
		}
	case 4: // a transaction that does not decode
		g := r.Bytes(r.Range(0, 40))
		d = append([]byte{byte(len(txs) + 1)}, append(append(be32(len(g)), g...), d[1:]...)...)
	case 5: // flip one byte
		if len(d) > 0 {
			d[r.Intn(len(d))] ^= byte(1 << r.Intn(8))
		}
	case 6:
		d = []byte{}
	case 7:
		d = []byte{byte(r.Intn(3))}
	case 8: // empty transaction slot
		d = append([]byte{1}, be32(0)...)
	}
	return d
}

func c08Mutate(r *Rand, msg []byte) []byte {
	m := bytes.Clone(msg)
	if len(m) == 0 {
		return m
	}
	bounds := []int{0, 1, 2, 5, 33, 64, 65, 66, 67, 70, 71, 72, 79, 80, 81, 96, 97, 98, 99, 100, 101, 105, 106, 128, 129, 130, 137, 138, 139, 256, 257, 258}
	switch r.Intn(8) {
	case 0, 1: // truncate at a boundary or anywhere
		at := r.Intn(len(m) + 1)
		if r.Bool() {
			at = Pick(r, bounds)
		}
		if r.Chance(1, 4) {
			at = len(m) - r.Range(1, 33)
		}
		if at < 0 {
			at = 0
		}
		if at > len(m) {
			at = len(m)
		}
		m = m[:at]
	case 2: // extend
		m = append(m, r.Bytes(Pick(r, []int{1, 2, 31, 32, 33, 64, 72}))...)
	case 3: // flip a byte
		m[r.Intn(len(m))] ^= byte(1 << r.Intn(8))
	case 4: // flip a byte in the header region
		m[r.Intn(min(len(m), 140))] ^= byte(1 + r.Intn(255))
	case 5: // other type, same body
		m[0] = Pick(r, []byte{1, 3, 4, 5, 6, 7, 8, 9, 15, 20, 21, 22, 23, 24, 25, 200, 201, byte(r.Intn(256))})
	case 6: // resize to a boundary length
		at := Pick(r, bounds)
		for len(m) < at {
			m = append(m, byte(r.U64()))
		}
		m = m[:at]
	case 7: // cut from the middle
		if len(m) > 4 {
			a := r.Range(1, len(m)-2)
			b := r.Range(a, min(len(m), a+40))
			m = append(m[:a], m[b:]...)
		}
	}
	return m
}

func c08ParseLine(v int, data []byte) string {
	return fmt.Sprintf("parse %d %s ? ? ?", v, Hex(data))
}

// one structured raw message of the given type, around the constants of its case
func c08Raw(r *Rand, typ byte, tier string) []byte {
	d := []byte{typ}
	sig := r.Bytes(64)
	switch typ {
	case p2p.PeerMessageTypePreCommitments:
		n := Pick(r, []int{0, 1, 2, 3, 16, 512, 1023, 1024, 1025, r.Range(0, 40), r.Range(0, 8), r.Range(0, 8)})
		claim := n + Pick(r, []int{0, 0, 0, 0, 1, -1, 65536 - n})
		d = append(d, sig...)
		d = binary.BigEndian.AppendUint16(d, uint16(claim))
		bad := -1
		if r.Chance(1, 4) && n > 0 {
			bad = r.Intn(n)
		}
		vk := c08ValidPoint(r)
		for i := 0; i < n; i++ {
			if i == bad {
				d = append(d, c08InvalidPoint(r)...)
			} else if i < 3 {
				d = append(d, c08ValidPoint(r)...)
			} else {
				d = append(d, vk...)
			}
		}
		if r.Chance(1, 8) {
			d = append(d, r.Bytes(r.Range(1, 31))...)
		}
	case p2p.PeerMessageTypeGraph:
		d = append(d, sig...)
		body := p2p.VerifMarshalSyncPoints(c08PointsGen(r))
		switch r.Intn(6) {
		case 0:
			body[r.Intn(4)] ^= 1
		case 1:
			binary.BigEndian.PutUint16(body[4:6], binary.BigEndian.Uint16(body[4:6])+uint16(Pick(r, []int{1, 2, 65535})))
		case 2:
			body = body[:r.Intn(len(body)+1)]
		case 3:
			body = append(body, r.Bytes(r.Range(1, 80))...)
		}
		d = append(d, body...)
	case p2p.PeerMessageTypeBatchSnapshotAnnouncement:
		d = append(d, sig...)
		d = append(d, c08Point(r, 1, 4)...)
		s := c08Snapshot(r, r.Bool(), c08NumTx(r)).VersionedMarshal()
		switch r.Intn(6) {
		case 0:
			s = s[:r.Intn(len(s)+1)]
		case 1:
			s = s[:Pick(r, []int{0, 1, 2, 3, 4, 5})]
		case 2:
			s[r.Intn(len(s))] ^= byte(1 << r.Intn(8))
		case 3:
			s = append(s, r.Bytes(r.Range(1, 9))...)
		}
		d = append(d, s...)
	case p2p.PeerMessageTypeBatchSnapshotCommitment:
		d = append(d, sig...)
		d = append(d, r.Bytes(32)...)
		d = append(d, c08Point(r, 1, 4)...)
		for i, n := 0, Pick(r, []int{0, 0, 1, 2, 5, 255}); i < n; i++ {
			d = append(d, r.Bytes(32)...)
		}
		if r.Chance(1, 5) {
			d = append(d, r.Bytes(r.Range(1, 31))...)
		}
	case p2p.PeerMessageTypeBatchFullChallenge:
		s := c08Snapshot(r, !r.Chance(1, 6), c08NumTx(r)).VersionedMarshal()
		if r.Chance(1, 8) {
			s[r.Intn(len(s))] ^= byte(1 << r.Intn(8))
		}
		claim := len(s) + Pick(r, []int{0, 0, 0, 0, 0, 1, -1, 32, 64, 65, 1 << 20, 1<<32 - 1 - len(s)})
		d = append(d, be32(claim)...)
		d = append(d, s...)
		d = append(d, c08Point(r, 1, 6)...)
		d = append(d, c08Point(r, 1, 6)...)
		if r.Chance(1, 3) {
			d = append(d, c08BadPayload(r, tier)...)
		} else {
			d = append(d, c08Payload(c08TxList(r, tier))...)
		}
	case p2p.PeerMessageTypeBatchTransactionChallenge:
		d = append(d, r.Bytes(32)...)
		d = append(d, sig...)
		d = append(d, r.Bytes(8)...)
		if r.Chance(1, 2) {
			d = append(d, c08BadPayload(r, tier)...)
		} else {
			d = append(d, c08Payload(c08TxList(r, tier))...)
		}
	case p2p.PeerMessageTypeTransactionBundle, p2p.PeerMessageTypeFinalizedTransactionBundle:
		d = append(d, c08BadPayload(r, tier)...)
	case p2p.PeerMessageTypeTransaction:
		t := c08Tx(r).Marshal()
		switch r.Intn(4) {
		case 0:
			t = t[:r.Intn(len(t)+1)]
		case 1:
			t[r.Intn(len(t))] ^= byte(1 << r.Intn(8))
		case 2:
			t = append(t, byte(r.U64()))
		}
		d = append(d, t...)
	case p2p.PeerMessageTypeBatchSnapshotFinalization:
		s := c08Snapshot(r, r.Bool(), c08NumTx(r)).VersionedMarshal()
		if r.Bool() {
			s = c08Mutate(r, s)
		}
		d = append(d, s...)
	case p2p.PeerMessageTypeBatchSnapshotResponse:
		d = append(d, r.Bytes(Pick(r, []int{0, 1, 32, 63, 64, 64, 64, 65, 96}))...)
	case p2p.PeerMessageTypeSnapshotConfirm, p2p.PeerMessageTypeTransactionRequest:
		d = append(d, r.Bytes(Pick(r, []int{0, 1, 31, 32, 32, 32, 33, 64}))...)
	case p2p.PeerMessageTypeAuthentication:
		d = append(d, r.Bytes(Pick(r, []int{0, 1, 136, 137, 137, 137, 138, 200}))...)
	case p2p.PeerMessageTypePing:
		d = append(d, r.Bytes(Pick(r, []int{0, 0, 1, 2}))...)
	case p2p.PeerMessageTypeRelay:
		d = append(d, r.Bytes(Pick(r, []int{0, 1, 63, 64, 65, 66, 100, 300}))...)
	default:
		d = append(d, r.Bytes(Pick(r, []int{0, 1, 32, 64, 137, 300}))...)
	}
	return d
}

// total message lengths at, one below and one above every length test of the parser
var c08Bounds = map[byte][]int{
	15: {66, 67, 68, 79, 80, 81, 98, 99, 100}, 4: {69, 70, 71, 72, 73}, 1: {1, 2}, 3: {137, 138, 139}, 5: {32, 33, 34},
	6: {32, 33, 34}, 20: {96, 97, 98, 99, 100, 101, 102}, 21: {127, 128, 129, 130, 160, 161, 162}, 24: {255, 256, 257, 258},
	22: {104, 105, 106, 107}, 23: {64, 65, 66}, 200: {64, 65, 66}, 201: {1, 2}, 7: {1, 2}, 8: {1, 2, 5, 6}, 9: {1, 2, 5, 6}, 25: {1, 2, 104, 105},
}

// resize a message of type typ to one of its boundary lengths, keeping its (valid) prefix
func c08AtBound(r *Rand, d []byte) []byte {
	if len(d) == 0 {
		return d
	}
	bs := c08Bounds[d[0]]
	if len(bs) == 0 {
		return d
	}
	n := Pick(r, bs)
	m := bytes.Clone(d)
	for len(m) < n {
		if r.Bool() {
			m = append(m, 0)
		} else {
			m = append(m, byte(r.U64()))
		}
	}
	return m[:n]
}

var c08HugeBuf []byte

var c08Types = []byte{1, 3, 4, 5, 6, 7, 8, 9, 15, 20, 21, 22, 23, 24, 25, 200, 201}

// builder op lines for one message kind; returns the op line and (when the builder does not
// panic) the built bytes, obtained from the real builder, for the following parse lines
func c08BuilderCase(r *Rand, kind int, tier string) (string, []byte) {
	priv := c08PrivKey(r)
	h := &c08Handle{key: priv}
	var line string
	var built []byte
	build := func(f func() []byte) {
		Catch(func() string { built = f(); return "" })
	}
	switch kind {
	case 0: // authentication envelope
		d := r.Bytes(Pick(r, []int{137, 137, 0, 1, 136, 138}))
		line = "b-auth " + Hex(d)
		build(func() []byte { return p2p.VerifBuildAuthenticationMessage(d) })
	case 1: // announcement
		s := c08Snapshot(r, false, c08NumTx(r))
		var R crypto.Key
		copy(R[:], c08Point(r, 1, 10))
		line = fmt.Sprintf("b-ann %s ? %s %s", Hex(priv[:]), Hex(R[:]), Hex(s.VersionedMarshal()))
		build(func() []byte { return p2p.VerifBuildBatchSnapshotAnnouncementMessage(s, R, priv) })
	case 2: // commitment with 0..n wanted hashes
		var R crypto.Key
		copy(R[:], c08Point(r, 1, 10))
		n := Pick(r, []int{0, 0, 1, 2, 3, 17, 255})
		var want []crypto.Hash
		var wl [][]byte
		for i := 0; i < n; i++ {
			w := c08Hash(r)
			want = append(want, w)
			wl = append(wl, bytes.Clone(w[:]))
		}
		sh := c08Hash(r)
		line = fmt.Sprintf("b-com %s ? %s %s %s", Hex(priv[:]), Hex(sh[:]), Hex(R[:]), c08List(wl))
		build(func() []byte { return p2p.VerifBuildBatchSnapshotCommitmentMessage(h, sh, R, want) })
	case 3: // transaction challenge
		sh := c08Hash(r)
		cosi := &crypto.CosiSignature{Mask: r.U64()}
		copy(cosi.Signature[:], r.Bytes(64))
		txs := c08TxList(r, tier)
		line = fmt.Sprintf("b-txc %s %s %d %s", Hex(sh[:]), Hex(cosi.Signature[:]), cosi.Mask, c08List(txs))
		build(func() []byte { return p2p.VerifBuildBatchTransactionChallengeMessage(sh, cosi, c08DecodeTxs(txs)) })
	case 4: // full challenge
		s := c08Snapshot(r, !r.Chance(1, 10), c08NumTx(r))
		var cm, ch crypto.Key
		copy(cm[:], c08Point(r, 1, 12))
		copy(ch[:], c08Point(r, 1, 12))
		txs := c08TxList(r, tier)
		line = fmt.Sprintf("b-full %s %s %s %s", Hex(s.VersionedMarshal()), Hex(cm[:]), Hex(ch[:]), c08List(txs))
		build(func() []byte { return p2p.VerifBuildBatchFullChallengeMessage(s, &cm, &ch, c08DecodeTxs(txs)) })
	case 5: // response
		sh := c08Hash(r)
		var si [32]byte
		copy(si[:], r.Bytes(32))
		line = fmt.Sprintf("b-rsp %s %s", Hex(sh[:]), Hex(si[:]))
		build(func() []byte { return p2p.VerifBuildSnapshotResponseMessage(sh, &si) })
	case 6: // finalization
		s := c08Snapshot(r, !r.Chance(1, 10), c08NumTx(r))
		line = "b-fin " + Hex(s.VersionedMarshal())
		build(func() []byte { return p2p.VerifBuildBatchSnapshotFinalizationMessage(s) })
	case 7: // confirm
		sh := c08Hash(r)
		line = "b-conf " + Hex(sh[:])
		build(func() []byte { return p2p.VerifBuildSnapshotConfirmMessage(sh) })
	case 8: // single transaction
		t := c08Tx(r)
		line = "b-tx " + Hex(t.Marshal())
		build(func() []byte { return p2p.VerifBuildTransactionMessage(t) })
	case 9: // bundles
		txs := c08TxList(r, tier)
		typ := Pick(r, []byte{8, 9})
		line = fmt.Sprintf("b-txs %d %s", typ, c08List(txs))
		build(func() []byte { return p2p.VerifBuildTransactionsMessage(c08DecodeTxs(txs), typ) })
	case 10: // request
		th := c08Hash(r)
		line = "b-req " + Hex(th[:])
		build(func() []byte { return p2p.VerifBuildTransactionRequestMessage(th) })
	case 11: // graph
		h.graph = c08PointsGen(r)
		line = fmt.Sprintf("b-graph %s ? %s", Hex(priv[:]), c08Points(h.graph))
		build(func() []byte { return p2p.VerifBuildGraphMessage(h) })
	default: // pre-commitments
		n := Pick(r, []int{0, 1, 2, 3, 16, 512, 1024, 1025, r.Range(1, 30), r.Range(1, 12)})
		var keys []*crypto.Key
		var kl [][]byte
		vk := c08ValidPoint(r)
		for i := 0; i < n; i++ {
			var k crypto.Key
			if i < 3 || r.Chance(1, 50) {
				copy(k[:], c08Point(r, 1, 30))
			} else {
				copy(k[:], vk)
			}
			keys = append(keys, &k)
			kl = append(kl, bytes.Clone(k[:]))
		}
		line = fmt.Sprintf("b-pre %s ? %s", Hex(priv[:]), c08List(kl))
		build(func() []byte { return p2p.VerifBuildCommitmentsMessage(h, keys) })
	}
	return line, built
}

func c08DecodeTxs(l [][]byte) []*common.VersionedTransaction {
	var txs []*common.VersionedTransaction
	for _, b := range l {
		t, err := common.UnmarshalVersionedTransaction(b)
		if err != nil {
			panic("harness: op line transaction does not decode: " + err.Error())
		}
		txs = append(txs, t)
	}
	return txs
}

func c08DecodeSnap(b []byte) *common.Snapshot {
	s, err := common.UnmarshalVersionedSnapshot(b)
	if err != nil {
		panic("harness: op line snapshot does not decode: " + err.Error())
	}
	return s.Snapshot
}

func c08Gen(r *Rand, i int, tier string) []string {
	switch r.Intn(10) {
	case 0, 1, 2, 3: // builder, parse of the built message, parses of mutants
		line, built := c08BuilderCase(r, i%13, tier)
		out := []string{line}
		if built != nil {
			v := Pick(r, []int{2, 2, 0, 1, 255})
			out = append(out, c08ParseLine(v, built))
			for k, n := 0, r.Range(1, 4); k < n; k++ {
				out = append(out, c08ParseLine(2, c08Mutate(r, built)))
			}
			out = append(out, c08ParseLine(2, c08AtBound(r, built)))
		}
		return out
	case 4, 5, 6, 7: // structured raw message of one type
		typ := c08Types[i%len(c08Types)]
		d := c08Raw(r, typ, tier)
		out := []string{c08ParseLine(2, d), c08ParseLine(2, c08AtBound(r, d))}
		if r.Bool() {
			out = append(out, c08ParseLine(2, c08Mutate(r, d)))
		}
		return out
	case 8: // arbitrary bytes under every type byte
		n := Pick(r, []int{0, 1, 2, 33, 65, 67, 71, 80, 97, 100, 101, 106, 129, 138, 257, r.Intn(600)})
		d := r.Bytes(n)
		if n > 0 && r.Chance(2, 3) {
			d[0] = Pick(r, c08Types)
		}
		if r.Chance(1, 3) { // mostly zero body: sizes and counts read as 0
			for k := 1; k < len(d); k++ {
				if !r.Chance(1, 16) {
					d[k] = 0
				}
			}
		}
		return []string{c08ParseLine(r.Intn(256), d)}
	default:
		if r.Bool() {
			return []string{"txpl " + Hex(c08BadPayload(r, tier)) + " ?"}
		}
		body := p2p.VerifMarshalSyncPoints(c08PointsGen(r))
		return []string{"points " + Hex(body), "points " + Hex(c08Mutate(r, body))}
	}
}

// ---- executor

func c08ExecParse(t []string) Result {
	v, _ := strconv.Atoi(t[1])
	data := UnHex(t[2])
	ck, tx, sn := c08OracleTables(data)
	res := Result{LeanIn: fmt.Sprintf("parse %d %s %s %s %s", v, Hex(data), ck, tx, sn)}
	typ := "empty"
	if len(data) > 0 {
		typ = "other"
		if bytes.IndexByte(c08Types, data[0]) >= 0 {
			typ = strconv.Itoa(int(data[0]))
		}
	}
	var msg *p2p.PeerMessage
	out, panicked, pmsg := Catch(func() string {
		m, err := p2p.VerifParseNetworkMessage(uint8(v), data)
		if err != nil {
			return "reject"
		}
		msg = m
		return c08ShowMsg(m)
	})
	res.Out = out
	switch {
	case panicked:
		res.Tags = []string{"parse:" + typ + ":panic"}
		res.PropKey, res.PropDesc = "C08:parse-panics", "parseNetworkMessage panicked ("+pmsg+") on "+t[2]
	case msg == nil:
		res.Tags = []string{"parse:" + typ + ":reject"}
	default:
		res.Tags = []string{"parse:" + typ + ":ok"}
		res.Nontrivial = true
		// points that must be valid curve points
		bad := ""
		switch msg.Type {
		case p2p.PeerMessageTypeBatchSnapshotAnnouncement, p2p.PeerMessageTypeBatchSnapshotCommitment:
			if !msg.Commitment.CheckKey() {
				bad = "commitment"
			}
		case p2p.PeerMessageTypeBatchFullChallenge:
			if !msg.Commitment.CheckKey() {
				bad = "commitment"
			}
			if !msg.Challenge.CheckKey() {
				bad = "challenge"
			}
		case p2p.PeerMessageTypePreCommitments:
			for _, k := range msg.Commitments {
				if !k.CheckKey() {
					bad = "pre-commitment"
				}
			}
		}
		if bad != "" {
			res.PropKey, res.PropDesc = "C08:invalid-point-accepted", "accepted message carries an invalid "+bad+" point: "+t[2]
		}
	}
	return res
}

// build→parse on the real code: parse what the builder returned and compare with `want`
func c08RoundTrip(res *Result, kind string, built []byte, want func(m *p2p.PeerMessage) string) {
	var m *p2p.PeerMessage
	var err error
	_, panicked, _ := Catch(func() string { m, err = p2p.VerifParseNetworkMessage(2, built); return "" })
	key := "C08:build-parse-" + kind
	switch {
	case panicked:
		res.PropKey, res.PropDesc = key, "parse of a built message panicked"
	case err != nil:
		res.PropKey, res.PropDesc = key, "built message does not parse back: "+err.Error()
	default:
		if d := want(m); d != "" {
			res.PropKey, res.PropDesc = key, "built message parses back to different "+d
		}
	}
}

func sameTxs(m *p2p.PeerMessage, txs [][]byte) bool {
	if len(m.Transactions) != len(txs) {
		return false
	}
	for i, t := range m.Transactions {
		if !bytes.Equal(t.Marshal(), txs[i]) {
			return false
		}
	}
	return true
}

func sameSnap(got *common.Snapshot, want *common.Snapshot, withSig bool) bool {
	if got == nil || got.PayloadHash() != want.PayloadHash() {
		return false
	}
	if !withSig {
		return got.Signature == nil
	}
	if (got.Signature == nil) != (want.Signature == nil) {
		return false
	}
	return got.Signature == nil || (got.Signature.Mask == want.Signature.Mask && got.Signature.Signature == want.Signature.Signature)
}

func c08ExecBuild(t []string) Result {
	res := Result{Tags: []string{t[0]}}
	var built []byte
	leanIn := strings.Join(t, " ")
	keyOf := func(s string) crypto.Key {
		var k crypto.Key
		copy(k[:], UnHex(s))
		return k
	}
	hashOf := func(s string) crypto.Hash {
		var h crypto.Hash
		copy(h[:], UnHex(s))
		return h
	}
	out, panicked, _ := Catch(func() string {
		switch t[0] {
		case "b-auth":
			built = p2p.VerifBuildAuthenticationMessage(UnHex(t[1]))
			if len(built) == 138 {
				d := UnHex(t[1])
				c08RoundTrip(&res, "auth", built, func(m *p2p.PeerMessage) string {
					if m.Type != p2p.PeerMessageTypeAuthentication || !bytes.Equal(m.Data, d) {
						return "data"
					}
					return ""
				})
			}
		case "b-ann":
			priv, R, sb := keyOf(t[1]), keyOf(t[3]), UnHex(t[4])
			s := c08DecodeSnap(sb)
			sig := priv.Sign(crypto.Blake3Hash(append(bytes.Clone(R[:]), sb...)))
			t[2] = Hex(sig[:])
			leanIn = strings.Join(t, " ")
			built = p2p.VerifBuildBatchSnapshotAnnouncementMessage(s, R, priv)
			if R.CheckKey() {
				pub := priv.Public()
				c08RoundTrip(&res, "announcement", built, func(m *p2p.PeerMessage) string {
					switch {
					case m.Type != p2p.PeerMessageTypeBatchSnapshotAnnouncement:
						return "type"
					case m.Commitment != R:
						return "commitment"
					case !sameSnap(m.Snapshot, s, true):
						return "snapshot"
					case m.VerifSignature() == nil || !pub.Verify(crypto.Blake3Hash(built[65:]), *m.VerifSignature()):
						return "signature"
					}
					return ""
				})
			}
		case "b-com":
			priv, sh, R := keyOf(t[1]), hashOf(t[3]), keyOf(t[4])
			h := &c08Handle{key: priv}
			wl := c08ParseList(t[5])
			var want []crypto.Hash
			for _, w := range wl {
				want = append(want, hashOf(Hex(w)))
			}
			built = p2p.VerifBuildBatchSnapshotCommitmentMessage(h, sh, R, want)
			t[2] = Hex(h.lastSig[:])
			leanIn = strings.Join(t, " ")
			if R.CheckKey() {
				pub := priv.Public()
				c08RoundTrip(&res, "commitment", built, func(m *p2p.PeerMessage) string {
					switch {
					case m.Type != p2p.PeerMessageTypeBatchSnapshotCommitment:
						return "type"
					case m.SnapshotHash != sh:
						return "snapshot hash"
					case m.Commitment != R:
						return "commitment"
					case len(m.WantTxs) != len(want):
						return "wanted hashes"
					case m.VerifSignature() == nil || !pub.Verify(crypto.Blake3Hash(m.VerifUnsigned()), *m.VerifSignature()):
						return "signature"
					}
					for i := range want {
						if want[i] != m.WantTxs[i] {
							return "wanted hashes"
						}
					}
					return ""
				})
			}
		case "b-txc":
			sh := hashOf(t[1])
			cosi := &crypto.CosiSignature{}
			copy(cosi.Signature[:], UnHex(t[2]))
			cosi.Mask, _ = strconv.ParseUint(t[3], 10, 64)
			txs := c08ParseList(t[4])
			built = p2p.VerifBuildBatchTransactionChallengeMessage(sh, cosi, c08DecodeTxs(txs))
			c08RoundTrip(&res, "transaction-challenge", built, func(m *p2p.PeerMessage) string {
				switch {
				case m.Type != p2p.PeerMessageTypeBatchTransactionChallenge:
					return "type"
				case m.SnapshotHash != sh:
					return "snapshot hash"
				case m.Cosi.Signature != cosi.Signature || m.Cosi.Mask != cosi.Mask:
					return "cosi"
				case !sameTxs(m, txs):
					return "transactions"
				}
				return ""
			})
		case "b-full":
			sb := UnHex(t[1])
			s := c08DecodeSnap(sb)
			cm, ch := keyOf(t[2]), keyOf(t[3])
			txs := c08ParseList(t[4])
			want := c08DecodeSnap(sb)
			built = p2p.VerifBuildBatchFullChallengeMessage(s, &cm, &ch, c08DecodeTxs(txs))
			if len(built)-1 < 256 {
				// only with an empty transaction list (the node always sends the snapshot's
				// transactions, at least one): below the parser's minimum, outside the statement
				res.Tags = append(res.Tags, "b-full:below-256")
			} else if cm.CheckKey() && ch.CheckKey() && want.Signature != nil {
				c08RoundTrip(&res, "full-challenge", built, func(m *p2p.PeerMessage) string {
					switch {
					case m.Type != p2p.PeerMessageTypeBatchFullChallenge:
						return "type"
					case !sameSnap(m.Snapshot, want, false):
						return "snapshot"
					case m.Cosi.Signature != want.Signature.Signature || m.Cosi.Mask != want.Signature.Mask:
						return "cosi"
					case m.Commitment != cm || m.Challenge != ch:
						return "points"
					case !sameTxs(m, txs):
						return "transactions"
					}
					return ""
				})
			}
		case "b-rsp":
			sh := hashOf(t[1])
			var si [32]byte
			copy(si[:], UnHex(t[2]))
			built = p2p.VerifBuildSnapshotResponseMessage(sh, &si)
			c08RoundTrip(&res, "response", built, func(m *p2p.PeerMessage) string {
				if m.Type != p2p.PeerMessageTypeBatchSnapshotResponse || m.SnapshotHash != sh || m.Response != si {
					return "fields"
				}
				return ""
			})
		case "b-fin":
			sb := UnHex(t[1])
			s := c08DecodeSnap(sb)
			built = p2p.VerifBuildBatchSnapshotFinalizationMessage(s)
			c08RoundTrip(&res, "finalization", built, func(m *p2p.PeerMessage) string {
				if m.Type != p2p.PeerMessageTypeBatchSnapshotFinalization || !sameSnap(m.Snapshot, s, true) {
					return "snapshot"
				}
				return ""
			})
		case "b-conf":
			sh := hashOf(t[1])
			built = p2p.VerifBuildSnapshotConfirmMessage(sh)
			c08RoundTrip(&res, "confirm", built, func(m *p2p.PeerMessage) string {
				if m.Type != p2p.PeerMessageTypeSnapshotConfirm || m.SnapshotHash != sh {
					return "fields"
				}
				return ""
			})
		case "b-tx":
			tb := UnHex(t[1])
			built = p2p.VerifBuildTransactionMessage(c08DecodeTxs([][]byte{tb})[0])
			c08RoundTrip(&res, "transaction", built, func(m *p2p.PeerMessage) string {
				if m.Type != p2p.PeerMessageTypeTransaction || !sameTxs(m, [][]byte{tb}) {
					return "transaction"
				}
				return ""
			})
		case "b-txs":
			typ, _ := strconv.Atoi(t[1])
			txs := c08ParseList(t[2])
			built = p2p.VerifBuildTransactionsMessage(c08DecodeTxs(txs), byte(typ))
			c08RoundTrip(&res, "bundle", built, func(m *p2p.PeerMessage) string {
				if int(m.Type) != typ || !sameTxs(m, txs) {
					return "transactions"
				}
				return ""
			})
		case "b-req":
			th := hashOf(t[1])
			built = p2p.VerifBuildTransactionRequestMessage(th)
			c08RoundTrip(&res, "request", built, func(m *p2p.PeerMessage) string {
				if m.Type != p2p.PeerMessageTypeTransactionRequest || m.TransactionHash != th {
					return "fields"
				}
				return ""
			})
		case "b-graph":
			priv := keyOf(t[1])
			h := &c08Handle{key: priv}
			if t[3] != "_" {
				for _, e := range strings.Split(t[3], ",") {
					f := strings.Split(e, "/")
					n, _ := strconv.ParseUint(f[1], 10, 64)
					h.graph = append(h.graph, &p2p.SyncPoint{NodeId: hashOf(f[0]), Number: n, Hash: hashOf(f[2])})
				}
			}
			built = p2p.VerifBuildGraphMessage(h)
			t[2] = Hex(h.lastSig[:])
			leanIn = strings.Join(t, " ")
			pub := priv.Public()
			c08RoundTrip(&res, "graph", built, func(m *p2p.PeerMessage) string {
				switch {
				case m.Type != p2p.PeerMessageTypeGraph:
					return "type"
				case c08Points(m.Graph) != c08Points(h.graph):
					return "points"
				case m.VerifSignature() == nil || !pub.Verify(crypto.Blake3Hash(m.VerifUnsigned()), *m.VerifSignature()):
					return "signature"
				}
				return ""
			})
		case "b-pre":
			priv := keyOf(t[1])
			h := &c08Handle{key: priv}
			kl := c08ParseList(t[3])
			var keys []*crypto.Key
			allValid := true
			for _, k := range kl {
				kk := keyOf(Hex(k))
				keys = append(keys, &kk)
				allValid = allValid && kk.CheckKey()
			}
			if len(keys) > 1024 { // the builder refuses before signing
				t[2] = Hex(make([]byte, 64))
				leanIn = strings.Join(t, " ")
			}
			built = p2p.VerifBuildCommitmentsMessage(h, keys)
			t[2] = Hex(h.lastSig[:])
			leanIn = strings.Join(t, " ")
			if len(keys) == 0 {
				res.Tags = append(res.Tags, "b-pre:empty")
			}
			if allValid && len(keys) > 0 {
				pub := priv.Public()
				c08RoundTrip(&res, "pre-commitments", built, func(m *p2p.PeerMessage) string {
					switch {
					case m.Type != p2p.PeerMessageTypePreCommitments:
						return "type"
					case len(m.Commitments) != len(keys):
						return "commitments"
					case m.VerifSignature() == nil || !pub.Verify(crypto.Blake3Hash(m.VerifUnsigned()), *m.VerifSignature()):
						return "signature"
					}
					for i := range keys {
						if *keys[i] != *m.Commitments[i] {
							return "commitments"
						}
					}
					return ""
				})
			}
		default:
			panic("harness: unknown op " + t[0])
		}
		return "ok " + Hex(built)
	})
	if panicked && strings.HasPrefix(out, "panic") {
		res.Tags = append(res.Tags, t[0]+":panic")
	}
	res.Out = out
	res.LeanIn = leanIn
	res.Nontrivial = !panicked
	return res
}

func execPeerMsg(_ *State, line string) Result {
	t := strings.Fields(line)
	switch t[0] {
	case "parse":
		return c08ExecParse(t)
	case "txpl":
		data := UnHex(t[1])
		tb := &c08Tables{map[string]string{}, map[string]string{}, map[string]string{}}
		tb.payload(data)
		res := Result{LeanIn: "txpl " + Hex(data) + " " + c08Join(tb.tx), Tags: []string{"txpl"}}
		out, panicked, pmsg := Catch(func() string {
			txs, err := p2p.VerifParseTransactionsPayload(data)
			if err != nil {
				return "reject"
			}
			return "ok " + c08List(c08Txs(txs))
		})
		res.Out = out
		res.Nontrivial = strings.HasPrefix(out, "ok")
		if panicked {
			res.PropKey, res.PropDesc = "C08:parse-panics", "parseTransactionsPayload panicked ("+pmsg+")"
		}
		return res
	case "points":
		data := UnHex(t[1])
		res := Result{Tags: []string{"points"}}
		out, panicked, pmsg := Catch(func() string {
			ps, err := p2p.VerifUnmarshalSyncPoints(data)
			if err != nil {
				return "reject"
			}
			return "ok " + c08Points(ps)
		})
		res.Out = out
		res.Nontrivial = strings.HasPrefix(out, "ok")
		if panicked {
			res.PropKey, res.PropDesc = "C08:parse-panics", "unmarshalSyncPoints panicked ("+pmsg+")"
		}
		return res
	case "huge":
		// a transactions payload whose declared transaction size is within 4 of 2^32 and is
		// really present: reachable only with ≥ 4 GiB of input, far above the transport limit,
		// so this runs in property mode only (the zero pages are never touched)
		typ, _ := strconv.Atoi(t[1])
		size, _ := strconv.ParseUint(t[2], 10, 64)
		res := Result{Out: "skip", Tags: []string{"huge"}}
		prefix := []byte{byte(typ)}
		if typ == p2p.PeerMessageTypeBatchTransactionChallenge {
			prefix = append(prefix, make([]byte, 104)...)
		}
		// one lazily mapped buffer for all probes (a second allocation of this size may reuse
		// the first one's span, which the runtime then clears by hand: minutes); only the
		// header bytes are ever written, and they are zeroed again below
		if c08HugeBuf == nil {
			c08HugeBuf = make([]byte, 1<<32+256)
		}
		n := len(prefix) + 1 + 4 + int(size)
		if n > len(c08HugeBuf) {
			panic("harness: huge size out of range")
		}
		data := c08HugeBuf[:n:n]
		for i, b := range prefix {
			data[i] = b
		}
		defer func() {
			for i := 0; i < len(prefix)+5; i++ {
				data[i] = 0
			}
		}()
		_, panicked, pmsg := Catch(func() string {
			_, _ = p2p.VerifParseNetworkMessage(2, data)
			return ""
		})
		if panicked {
			res.PropKey = "C08:parse-panics-4gib"
			res.PropDesc = fmt.Sprintf("parseNetworkMessage panicked (%s) on a type-%d message whose transactions payload declares a %d-byte transaction and carries it", pmsg, typ, size)
		}
		return res
	default:
		if strings.HasPrefix(t[0], "b-") {
			return c08ExecBuild(t)
		}
	}
	panic("harness: unknown op " + t[0])
}

// pre-commitment messages with exactly `count` copies of one valid point
func c08PreCorpus() []string {
	k := crypto.NewKeyFromSeed(bytes.Repeat([]byte{7}, 64)).Public()
	var out []string
	for _, count := range []int{1, 2, 1023, 1024, 1025, 1026} {
		d := append([]byte{p2p.PeerMessageTypePreCommitments}, make([]byte, 64)...)
		d = binary.BigEndian.AppendUint16(d, uint16(count))
		for i := 0; i < count; i++ {
			d = append(d, k[:]...)
		}
		out = append(out, c08ParseLine(2, d))
	}
	return out
}

func init() {
	Register(&Subsystem{
		Name: "peermsg",
		Rule: "per message type: outputs of the real builders on random snapshots / transaction lists (0..255) / " +
			"wanted hashes / commitment lists (0..1025) / sync points, each followed by parses of the built bytes and of " +
			"truncations, extensions, byte flips and retypings; structured raw messages with lengths, counts and size " +
			"fields around every constant of the parser; arbitrary bytes under every type byte; non-trivial = the real " +
			"parser accepted the message or the real builder returned bytes; distinct = distinct line fed to the model",
		Corpus: [][]string{
			{"parse 2 - ? ? ?", "parse 2 01 ? ? ?", "parse 2 0100 ? ? ?", "parse 7 ff ? ? ?", "parse 2 c8" + strings.Repeat("00", 63) + " ? ? ?",
				"parse 2 c8" + strings.Repeat("00", 64) + " ? ? ?", "parse 2 c9 ? ? ?", "parse 2 08 ? ? ?", "parse 2 0800 ? ? ?",
				"parse 2 0f" + strings.Repeat("00", 66) + " ? ? ?", "parse 2 0f" + strings.Repeat("00", 79) + " ? ? ?",
				"parse 2 04" + strings.Repeat("00", 64) + "777700010000 ? ? ?", "parse 2 04" + strings.Repeat("00", 64) + "7777000100 ? ? ?"},
			{"huge 8 4294967292", "huge 9 4294967295", "huge 22 4294967293"},
			c08PreCorpus(),
		},
		Gen:  c08Gen,
		Exec: execPeerMsg,
	})
}
